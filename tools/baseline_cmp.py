#!/usr/bin/env python3
"""Compare a `go test -json` log with BASELINE.json's stable_pass list."""
import json, sys
base = json.load(open('/root/.vp/BASELINE.json'))
stable = set(base['stable_pass'])
res = {}
for line in open(sys.argv[1], errors='replace'):
    line = line.strip()
    if not line.startswith('{'):
        continue
    try:
        e = json.loads(line)
    except Exception:
        continue
    if e.get('Action') in ('pass', 'fail', 'skip') and e.get('Test'):
        res['%s::%s' % (e['Package'], e['Test'])] = e['Action']
missing = sorted(t for t in stable if res.get(t) != 'pass')
print('stable_pass: %d, passed now: %d, not passing: %d' % (len(stable), len(stable) - len(missing), len(missing)))
for t in missing:
    print('  ', t, res.get(t, 'NOT-RUN'))
