#!/bin/sh
set -e
id=$1
git -C /repo worktree add --detach /tmp/seed4-$id HEAD -q
cp /repo/go.sum /tmp/seed4-$id/go.sum
mkdir -p /tmp/seed4-$id-out
cp /verif/tools/seedprompts/$id.round4.txt /tmp/seed4-$id-out/TASK.md
echo created /tmp/seed4-$id
