#!/bin/sh
# usage: tools/seedcheck.sh <Cxx> <patch.diff> [tier]  -- run ./check Cxx against a scratch worktree with the patch applied
id=$1; patch=$2; tier=${3:-quick}
wt=/var/tmp/sc-$id-$$
git -C /repo worktree add --detach $wt HEAD -q || exit 2
cp /repo/go.sum $wt/go.sum
if ! git -C $wt apply "$patch"; then echo "PATCH DOES NOT APPLY"; git -C /repo worktree remove --force $wt; exit 2; fi
(cd /verif && VERIF_REPO=$wt ./check $id $tier)
rc=$?
git -C /repo worktree remove --force $wt
echo "seedcheck $id rc=$rc"
exit $rc
