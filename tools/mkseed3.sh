#!/bin/sh
set -e
id=$1
git -C /repo worktree add --detach /tmp/seed3-$id HEAD -q
cp /repo/go.sum /tmp/seed3-$id/go.sum
mkdir -p /tmp/seed3-$id-out
cp /verif/tools/seedprompts/$id.round3.txt /tmp/seed3-$id-out/TASK.md
echo created /tmp/seed3-$id
