#!/bin/sh
set -e
id=$1
git -C /repo worktree add --detach /tmp/seed2-$id HEAD -q
cp /repo/go.sum /tmp/seed2-$id/go.sum
mkdir -p /tmp/seed2-$id-out
cp /verif/tools/seedprompts/$id.round2.txt /tmp/seed2-$id-out/TASK.md
echo created /tmp/seed2-$id
