#!/usr/bin/env python3
"""Assemble /verif/MANIFEST.json from props/*.json and tools/not_applicable.json."""
import json, glob, os, subprocess
ROOT = os.path.dirname(os.path.dirname(os.path.abspath(__file__)))
CLAIMED = set(open(os.path.join(ROOT, "tools", "claimed.txt")).read().split())
checks = []
claimed = set()
for p in sorted(glob.glob(os.path.join(ROOT, "props", "C*.json"))):
    c = json.load(open(p))
    if c.get("disabled") or c["id"] not in CLAIMED:
        continue
    m = c["manifest"]
    pid = c["id"]
    claimed.add(pid)
    checks.append({
        "property_id": pid,
        "quick_cmd": "./check %s quick" % pid,
        "thorough_cmd": "./check %s thorough" % pid,
        "evidence_file": "/verif/evidence/%s.json" % pid,
        "replay_cmd_template": "./check %s quick --replay {path}" % pid,
        "engine": "elaverif-lean",
        "level_claimed": {"category": m.get("category", "proof"), "text": m["level_text"], "design_ref": m.get("design_ref", "§" + pid)},
        "level_note": m["level_note"],
        "technique": m.get("technique", "Lean 4 proof over executable model + differential correspondence"),
    })
na = json.load(open(os.path.join(ROOT, "tools", "not_applicable.json")))
na = [x for x in na if x["property_id"] not in claimed]
try:
    hooks = subprocess.run(["git", "-C", "/repo", "log", "--format=%H %s"], capture_output=True, text=True).stdout.splitlines()
    hook_commits = [l.split()[0] for l in hooks if " verif hook" in l]
except Exception:
    hook_commits = []
man = {
    "version": 1,
    "setup_cmd": "./setup.sh",
    "hooks": {
        "guard": "verif",
        "enable": "go build -tags verif (all hook code lives in *_verif.go files with `//go:build verif`; call sites use no-op twins in *_noverif.go)",
        "baseline_off_cmd": "cd /repo && go test -mod=mod -json -vet=off -count=1 -timeout 25m ./...",
        "source_commits": hook_commits,
        "add_only": True,
    },
    "engines": [{
        "name": "elaverif-lean",
        "path": "/verif/check",
        "serves_properties": sorted(claimed),
        "kind_free_text": "Lean 4 theorems over executable models (lean/ElaVerif), tied to /repo on every run by regenerated facts (extract/) and differential execution of the real Go code against the compiled Lean model (harness/ + lean/Driver)",
    }],
    "checks": checks,
    "not_applicable": na,
    "notes": "See DESIGN.md. Every check rebuilds extractor, harness (with -tags verif) and Lean obligations from /repo's working tree.",
}
json.dump(man, open(os.path.join(ROOT, "MANIFEST.json"), "w"), indent=1)
print("MANIFEST.json: %d checks, %d not applicable" % (len(checks), len(na)))
