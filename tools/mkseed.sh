#!/bin/sh
# usage: tools/mkseed.sh C09  -> creates /tmp/seed-C09 worktree + /tmp/seed-C09-out/TASK.md
set -e
id=$1
git -C /repo worktree add --detach /tmp/seed-$id HEAD -q
cp /repo/go.sum /tmp/seed-$id/go.sum
mkdir -p /tmp/seed-$id-out
cp /verif/tools/seedprompts/$id.txt /tmp/seed-$id-out/TASK.md
echo created /tmp/seed-$id
