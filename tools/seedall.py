#!/usr/bin/env python3
"""Run every kept seeded change (/verif/seeded/<ID>-<k>/patch.diff) through its property's check in a scratch
worktree (VERIF_REPO) and record what the check printed in seeded/RESULTS.json.  usage: seedall.py [ID-k ...]"""
import os, sys, json, subprocess, re, glob, time
ROOT = os.path.dirname(os.path.dirname(os.path.abspath(__file__)))
res_path = os.environ.get("SEEDALL_OUT") or os.path.join(ROOT, "seeded", "RESULTS.json")   # SEEDALL_OUT: alternative result file (e.g. a sweep under another VERIF_SEED)
# --shard=i/n: only properties whose number % n == i, results to seeded/RESULTS.shard<i>.json (merge with --merge)
shard = next((a.split("=")[1] for a in sys.argv[1:] if a.startswith("--shard=")), None)
if "--merge" in sys.argv:
    res = json.load(open(res_path)) if os.path.exists(res_path) else {}
    for f in sorted(glob.glob(os.path.join(ROOT, "seeded", "RESULTS.shard*.json"))):
        res.update(json.load(open(f))); os.remove(f)
    json.dump(res, open(res_path, "w"), indent=1, sort_keys=True)
    print("merged", len(res)); sys.exit(0)
if shard:
    si, sn = map(int, shard.split("/"))
    res_path = (os.environ.get("SEEDALL_OUT", os.path.join(ROOT, "seeded", "RESULTS")).replace(".json", "") + ".shard%d.json" % si)
res = json.load(open(res_path)) if os.path.exists(res_path) else {}
want = [a for a in sys.argv[1:] if not a.startswith("--")]
only_new = "--new" in sys.argv
for d in sorted(glob.glob(os.path.join(ROOT, "seeded", "C*-*"))):
    sid = os.path.basename(d)
    if want and sid not in want:
        continue
    if shard and int(sid[1:3]) % sn != si:
        continue
    if only_new and sid in res:
        continue
    meta = json.load(open(os.path.join(d, "meta.json")))
    if meta.get("status") != "confirmed":
        res[sid] = {"status": meta.get("status"), "result": "not-run"}
        continue
    prop = meta["property"]
    t0 = time.time()
    for attempt in range(3):
        p = subprocess.run([os.path.join(ROOT, "tools", "seedcheck.sh"), prop, os.path.join(d, "patch.diff")],
                           capture_output=True, text=True)
        out = p.stdout + p.stderr
        if "PATCH DOES NOT APPLY" in out or any(l.startswith("check ") for l in out.splitlines()):
            break
        time.sleep(5)      # the check never ran (e.g. git worktree lock contention): retry
    viol = [l for l in out.splitlines() if l.startswith("VIOLATION")]
    summ = [l for l in out.splitlines() if l.startswith("check ")]
    problems = [l.strip() for l in out.splitlines() if l.startswith("  [")]
    if "PATCH DOES NOT APPLY" in out:
        r = "patch-does-not-apply"
    elif viol:
        r = "caught-no-failing-input" if "no-failing-input-found" in viol[0] else "caught-concrete-input"
    elif not summ:
        r = "run-error"
        problems = out.splitlines()[-5:]
    else:
        r = "MISSED"
    kind = None
    m = re.search(r"replay=(\S+)", viol[0]) if viol else None
    if m and os.path.exists(m.group(1)):
        try:
            fi = json.load(open(m.group(1))).get("failing_input") or {}
            kind = fi.get("kind")
        except Exception:
            pass
    res[sid] = {"property": prop, "result": r, "oracle_kind": kind, "broken": problems,
                "summary": summ[-1] if summ else "", "repo_head": subprocess.run(["git", "-C", "/repo", "rev-parse", "--short", "HEAD"], capture_output=True, text=True).stdout.strip(),
                "wall_s": round(time.time() - t0, 1)}
    print(sid, r, kind or "", flush=True)
    json.dump(res, open(res_path, "w"), indent=1, sort_keys=True)
