// Package wire is shared by the C04 / C02 harnesses: the adapter that runs the
// REAL Serialize/Deserialize code of /repo on one op line, and generators of
// structured values built from the repository's own types.
//
//	dec <schema> <pv> <hex> [alloc=<measured>]  → ok <consumed> <re-encoding> | err
//	tx <hex> [alloc=<measured>]                 → ok <consumed> <version> <type> <pv> <#attr> <#in> <#out> <lock> <#prog> <re-encoding> <hash> | err | uncovered
//	block <hex> [alloc=<measured>]              → ok <consumed> <ntx> <sha256d(re-encoding)> <header hash> | err | uncovered
//
// With the trailing alloc=<measured> token (C02) only `ok <consumed>` / `err` is printed.
package wire

import (
	"bytes"
	"fmt"
	"io"
	"net"
	"runtime"
	"strconv"
	"strings"
	"time"

	"elaverif/harness/hx"

	"github.com/elastos/Elastos.ELA/auxpow"
	"github.com/elastos/Elastos.ELA/common"
	"github.com/elastos/Elastos.ELA/core/contract/program"
	"github.com/elastos/Elastos.ELA/core/transaction"
	"github.com/elastos/Elastos.ELA/core/types"
	ctypes "github.com/elastos/Elastos.ELA/core/types/common"
	"github.com/elastos/Elastos.ELA/core/types/functions"
	"github.com/elastos/Elastos.ELA/core/types/interfaces"
	"github.com/elastos/Elastos.ELA/core/types/outputpayload"
	"github.com/elastos/Elastos.ELA/core/types/payload"
	"github.com/elastos/Elastos.ELA/p2p"
	"github.com/elastos/Elastos.ELA/p2p/msg"
)

func init() {
	functions.GetTransactionByBytes = transaction.GetTransactionByBytes
	functions.CreateTransaction = transaction.CreateTransaction
	functions.GetTransactionByTxType = transaction.GetTransaction
}

// Covered lists the transaction types whose payload has a schema in
// lean/ElaVerif/Model/WireSchemas.lean (`payloadOf`).
var Covered = map[ctypes.TxType]string{
	ctypes.CoinBase:             "coinbase",
	ctypes.TransferAsset:        "transferasset",
	ctypes.RegisterProducer:     "producerinfo",
	ctypes.UpdateProducer:       "producerinfo",
	ctypes.IllegalBlockEvidence: "dposillegalblocks",
	ctypes.InactiveArbitrators:  "inactivearbitrators",
	ctypes.NextTurnDPOSInfo:     "nextturndposinfo",
	ctypes.CRCProposalReview:    "crcproposalreview",
	ctypes.Voting:               "voting",
}

// PayloadType maps a payload schema name to a transaction type using it.
var PayloadType = map[string]ctypes.TxType{
	"coinbase":            ctypes.CoinBase,
	"transferasset":       ctypes.TransferAsset,
	"producerinfo":        ctypes.RegisterProducer,
	"dposillegalblocks":   ctypes.IllegalBlockEvidence,
	"inactivearbitrators": ctypes.InactiveArbitrators,
	"nextturndposinfo":    ctypes.NextTurnDPOSInfo,
	"crcproposalreview":   ctypes.CRCProposalReview,
	"voting":              ctypes.Voting,
}

type serializable interface {
	Serialize(w io.Writer) error
	Deserialize(r io.Reader) error
}

// DecodeSchema runs the real decoder named by schema on b and returns the
// re-serialization of the decoded value and the number of bytes consumed.
func DecodeSchema(schema string, pv byte, b []byte) (reenc []byte, consumed int, err error) {
	r := bytes.NewReader(b)
	w := new(bytes.Buffer)
	var s serializable
	switch schema {
	case "attribute":
		s = new(ctypes.Attribute)
	case "input":
		s = new(ctypes.Input)
	case "program":
		s = new(program.Program)
	case "header":
		s = new(ctypes.Header)
	case "auxpow":
		s = new(auxpow.AuxPow)
	case "confirm":
		s = new(payload.Confirm)
	case "inv":
		s = new(msg.Inv)
	case "getblocks":
		s = new(msg.GetBlocks)
	case "addr":
		s = new(msg.Addr)
	case "output":
		o := new(ctypes.Output)
		if err = o.Deserialize(r, ctypes.TransactionVersion(pv)); err != nil {
			return nil, 0, err
		}
		if err = o.Serialize(w, ctypes.TransactionVersion(pv)); err != nil {
			panic("harness: cannot re-serialize a decoded output: " + err.Error())
		}
		return w.Bytes(), len(b) - r.Len(), nil
	default:
		tt, ok := PayloadType[schema]
		if !ok {
			panic("harness: unknown schema " + schema)
		}
		p, e := interfaces.GetPayload(tt, pv)
		if e != nil {
			return nil, 0, e
		}
		if err = p.Deserialize(r, pv); err != nil {
			return nil, 0, err
		}
		if err = p.Serialize(w, pv); err != nil {
			panic("harness: cannot re-serialize a decoded payload: " + err.Error())
		}
		return w.Bytes(), len(b) - r.Len(), nil
	}
	if err = s.Deserialize(r); err != nil {
		return nil, 0, err
	}
	if err = s.Serialize(w); err != nil {
		// Attribute.Serialize refuses what Deserialize refuses, nothing else can fail
		panic("harness: cannot re-serialize a decoded value: " + err.Error())
	}
	return w.Bytes(), len(b) - r.Len(), nil
}

// DecodeTx = GetTransactionByBytes + Deserialize.  uncovered reports a type
// outside the schema table.
func DecodeTx(r *bytes.Reader) (tx interfaces.Transaction, uncovered bool, err error) {
	tx, err = transaction.GetTransactionByBytes(r)
	if err != nil {
		return nil, false, err
	}
	if _, ok := Covered[tx.TxType()]; !ok {
		return nil, true, nil
	}
	if err = tx.Deserialize(r); err != nil {
		return nil, false, err
	}
	return tx, false, nil
}

func TxBytes(tx interfaces.Transaction) []byte {
	w := new(bytes.Buffer)
	if err := tx.Serialize(w); err != nil {
		panic("harness: tx serialize: " + err.Error())
	}
	return w.Bytes()
}

// Measure runs f and returns the bytes allocated meanwhile (TotalAlloc delta).
func Measure(f func()) uint64 {
	var a, b runtime.MemStats
	runtime.ReadMemStats(&a)
	f()
	runtime.ReadMemStats(&b)
	return b.TotalAlloc - a.TotalAlloc
}

// Measured reports whether the op carries an alloc=<measured> token.
func Measured(t []string) bool {
	return len(t) > 0 && strings.HasPrefix(t[len(t)-1], "alloc=")
}

// blockUncovered walks the transactions of a block like Block.Deserialize.
func decodeBlock(b []byte) (blk *types.Block, consumed int, uncovered bool, err error) {
	// first pass: is any transaction outside the table?
	r := bytes.NewReader(b)
	var h ctypes.Header
	if e := h.Deserialize(r); e == nil {
		if n, e := common.ReadUint32(r); e == nil {
			for i := uint32(0); i < n; i++ {
				_, unc, e := DecodeTx(r)
				if unc {
					return nil, 0, true, nil
				}
				if e != nil {
					break
				}
			}
		}
	}
	r = bytes.NewReader(b)
	blk = new(types.Block)
	if err = blk.Deserialize(r); err != nil {
		return nil, 0, false, err
	}
	return blk, len(b) - r.Len(), false, nil
}

// DecodeOnly runs nothing but the real decoder on b, the (already hex-decoded)
// bytes of the op (no re-serialization, no coverage pre-pass); used for
// allocation measurement.
func DecodeOnly(t []string, b []byte) {
	switch t[0] {
	case "dec":
		pv, _ := strconv.Atoi(t[2])
		r := bytes.NewReader(b)
		switch t[1] {
		case "attribute":
			new(ctypes.Attribute).Deserialize(r)
		case "input":
			new(ctypes.Input).Deserialize(r)
		case "program":
			new(program.Program).Deserialize(r)
		case "header":
			new(ctypes.Header).Deserialize(r)
		case "auxpow":
			new(auxpow.AuxPow).Deserialize(r)
		case "confirm":
			new(payload.Confirm).Deserialize(r)
		case "inv":
			new(msg.Inv).Deserialize(r)
		case "getblocks":
			new(msg.GetBlocks).Deserialize(r)
		case "addr":
			new(msg.Addr).Deserialize(r)
		case "output":
			new(ctypes.Output).Deserialize(r, ctypes.TransactionVersion(pv))
		default:
			if p, e := interfaces.GetPayload(PayloadType[t[1]], byte(pv)); e == nil {
				p.Deserialize(r, byte(pv))
			}
		}
	case "tx":
		r := bytes.NewReader(b)
		if tx, err := transaction.GetTransactionByBytes(r); err == nil {
			tx.Deserialize(r)
		}
	case "block":
		new(types.Block).Deserialize(bytes.NewReader(b))
	}
}

// Exec is the adapter for the three op kinds.
func Exec(t []string) string {
	m := Measured(t)
	if m {
		t = t[:len(t)-1]
	}
	switch t[0] {
	case "dec":
		pv, err := strconv.Atoi(t[2])
		if err != nil || pv < 0 || pv > 255 {
			panic("harness: bad pv")
		}
		reenc, n, err := DecodeSchema(t[1], byte(pv), hx.UnHex(t[3]))
		if err != nil {
			return "err"
		}
		if m {
			return fmt.Sprintf("ok %d", n)
		}
		return fmt.Sprintf("ok %d %s", n, hx.Hex(reenc))
	case "tx":
		b := hx.UnHex(t[1])
		r := bytes.NewReader(b)
		tx, unc, err := DecodeTx(r)
		if unc {
			return "uncovered"
		}
		if err != nil {
			return "err"
		}
		n := len(b) - r.Len()
		if m {
			return fmt.Sprintf("ok %d", n)
		}
		h := tx.Hash()
		return fmt.Sprintf("ok %d %d %d %d %d %d %d %d %d %s %s", n, tx.Version(), tx.TxType(), tx.PayloadVersion(),
			len(tx.Attributes()), len(tx.Inputs()), len(tx.Outputs()), tx.LockTime(), len(tx.Programs()),
			hx.Hex(TxBytes(tx)), hx.Hex(h[:]))
	case "block":
		b := hx.UnHex(t[1])
		blk, n, unc, err := decodeBlock(b)
		if unc {
			return "uncovered"
		}
		if err != nil {
			return "err"
		}
		if m {
			return fmt.Sprintf("ok %d", n)
		}
		w := new(bytes.Buffer)
		if err := blk.Serialize(w); err != nil {
			panic("harness: block serialize: " + err.Error())
		}
		d := common.Hash(w.Bytes())
		hh := blk.Header.Hash()
		return fmt.Sprintf("ok %d %d %s %s", n, len(blk.Transactions), hx.Hex(d[:]), hx.Hex(hh[:]))
	}
	panic("harness: unknown op " + t[0])
}

// ---------------------------------------------------------------- generators

func sizes(r *hx.Rand, small int, rare ...int) int {
	if len(rare) > 0 && r.Chance(4) {
		return rare[r.Intn(len(rare))]
	}
	return r.Intn(small + 1)
}

func randU256(r *hx.Rand) (u common.Uint256) { copy(u[:], r.Bytes(32)); return }
func randU168(r *hx.Rand) (u common.Uint168) { copy(u[:], r.Bytes(21)); return }
func randKey(r *hx.Rand) []byte {
	if r.Chance(10) {
		return r.Bytes(r.Intn(34))
	}
	k := r.Bytes(33)
	k[0] = 2 + byte(r.Intn(2))
	return k
}

func randFixed(r *hx.Rand) common.Fixed64 {
	switch r.Intn(5) {
	case 0:
		return common.Fixed64(r.Intn(1000))
	case 1:
		return common.Fixed64(int64(r.U64()))
	case 2:
		return common.Fixed64(int64(1) << uint(r.Intn(63)))
	}
	return common.Fixed64(r.Intn(1 << 40))
}

var usages = []ctypes.AttributeUsage{ctypes.Nonce, ctypes.Script, ctypes.Memo, ctypes.Description, ctypes.DescriptionUrl, ctypes.Confirmations}

func GenAttribute(r *hx.Rand) *ctypes.Attribute {
	return &ctypes.Attribute{Usage: usages[r.Intn(len(usages))], Data: r.Bytes(sizes(r, 40, 252, 253, 254, 300, 70000))}
}

func GenInput(r *hx.Rand) *ctypes.Input {
	return &ctypes.Input{Previous: ctypes.OutPoint{TxID: randU256(r), Index: uint16(r.U64())}, Sequence: uint32(r.U64())}
}

func GenProgram(r *hx.Rand) *program.Program {
	return &program.Program{Code: r.Bytes(sizes(r, 70, 252, 253, 10000)), Parameter: r.Bytes(sizes(r, 130, 253, 20000))}
}

func genVoteOutput(r *hx.Rand) *outputpayload.VoteOutput {
	v := &outputpayload.VoteOutput{Version: byte(r.Pick(0, 0, 1, 1, 2, 3, 255))}
	for i, n := 0, sizes(r, 3); i < n; i++ {
		c := outputpayload.VoteContent{VoteType: outputpayload.VoteType(r.Intn(6))}
		for j, m := 0, sizes(r, 4, 36, 37); j < m; j++ {
			c.CandidateVotes = append(c.CandidateVotes, outputpayload.CandidateVotes{Candidate: randKey(r), Votes: randFixed(r)})
		}
		v.Contents = append(v.Contents, c)
	}
	return v
}

func randStr(r *hx.Rand, n int) string { return string(r.Bytes(n)) }

// GenOutput builds an output; for tx versions >= 9 every output payload type is used.
func GenOutput(r *hx.Rand, v9 bool) *ctypes.Output {
	o := &ctypes.Output{AssetID: randU256(r), Value: randFixed(r), OutputLock: uint32(r.U64()), ProgramHash: randU168(r)}
	if !v9 {
		return o
	}
	o.Type = ctypes.OutputType(r.Intn(8))
	switch o.Type {
	case ctypes.OTNone:
		o.Payload = &outputpayload.DefaultOutput{}
	case ctypes.OTVote, ctypes.OTDposV2Vote:
		o.Payload = genVoteOutput(r)
	case ctypes.OTMapping:
		o.Payload = &outputpayload.Mapping{Version: r.Byte(), OwnerKey: randKey(r), SideProducerID: r.Bytes(sizes(r, 40, 256)), Signature: r.Bytes(sizes(r, 64))}
	case ctypes.OTCrossChain:
		o.Payload = &outputpayload.CrossChainOutput{Version: r.Byte(), TargetAddress: randStr(r, sizes(r, 40, 253)), TargetAmount: randFixed(r), TargetData: r.Bytes(sizes(r, 20, 1024))}
	case ctypes.OTWithdrawFromSideChain:
		o.Payload = &outputpayload.Withdraw{Version: r.Byte(), GenesisBlockAddress: randStr(r, sizes(r, 40)), SideChainTransactionHash: randU256(r), TargetData: r.Bytes(sizes(r, 20, 1024))}
	case ctypes.OTReturnSideChainDepositCoin:
		o.Payload = &outputpayload.ReturnSideChainDeposit{Version: r.Byte(), GenesisBlockAddress: randStr(r, sizes(r, 40)), DepositTransactionHash: randU256(r)}
	case ctypes.OTStake:
		o.Payload = &outputpayload.ExchangeVotesOutput{Version: r.Byte(), StakeAddress: randU168(r)}
	}
	return o
}

func keys(r *hx.Rand, n int) [][]byte {
	res := make([][]byte, 0)
	for i := 0; i < n; i++ {
		res = append(res, randKey(r))
	}
	return res
}

func genVotesWithLockTime(r *hx.Rand) payload.VotesWithLockTime {
	return payload.VotesWithLockTime{Candidate: randKey(r), Votes: randFixed(r), LockTime: uint32(r.U64())}
}

// GenPayload builds a payload of a covered type together with a payload version.
func GenPayload(r *hx.Rand, tt ctypes.TxType) (interfaces.Payload, byte) {
	switch tt {
	case ctypes.CoinBase:
		return &payload.CoinBase{Content: r.Bytes(sizes(r, 40, 253, 70000))}, byte(r.Pick(0, 4, 4, 255))
	case ctypes.TransferAsset:
		return &payload.TransferAsset{}, byte(r.Pick(0, 0, 0, 1, 200))
	case ctypes.RegisterProducer, ctypes.UpdateProducer:
		pv := byte(r.Pick(0, 1, 2, 3, 4, 200))
		return &payload.ProducerInfo{OwnerKey: randKey(r), NodePublicKey: randKey(r), NickName: randStr(r, sizes(r, 30, 253)),
			Url: randStr(r, sizes(r, 60, 300)), Location: r.U64(), NetAddress: randStr(r, sizes(r, 30)), StakeUntil: uint32(r.U64()),
			Signature: r.Bytes(sizes(r, 64))}, pv
	case ctypes.InactiveArbitrators:
		return &payload.InactiveArbitrators{Sponsor: randKey(r), Arbitrators: keys(r, sizes(r, 5, 36, 253)), BlockHeight: uint32(r.U64())}, byte(r.Pick(0, 0, 1))
	case ctypes.NextTurnDPOSInfo:
		return &payload.NextTurnDPOSInfo{WorkingHeight: uint32(r.U64()), CRPublicKeys: keys(r, sizes(r, 12)), DPOSPublicKeys: keys(r, sizes(r, 24, 36)),
			CompleteCRPublicKeys: keys(r, sizes(r, 12))}, byte(r.Pick(0, 1, 1, 2))
	case ctypes.IllegalBlockEvidence:
		ev := func() payload.BlockEvidence {
			return payload.BlockEvidence{Header: r.Bytes(sizes(r, 200, 253, 70000)), BlockConfirm: r.Bytes(sizes(r, 300)), Signers: keys(r, sizes(r, 8, 36))}
		}
		return &payload.DPOSIllegalBlocks{CoinType: payload.CoinType(r.U64()), BlockHeight: uint32(r.U64()), Evidence: ev(), CompareEvidence: ev()}, byte(r.Pick(0, 0, 1))
	case ctypes.CRCProposalReview:
		return &payload.CRCProposalReview{ProposalHash: randU256(r), VoteResult: payload.VoteResult(r.Byte()), OpinionHash: randU256(r),
			OpinionData: r.Bytes(sizes(r, 50, 253, 70000)), DID: randU168(r), Signature: r.Bytes(sizes(r, 64, 200))}, byte(r.Pick(0, 1, 1, 2))
	case ctypes.Voting:
		pv := byte(r.Pick(0, 0, 1, 1))
		v := &payload.Voting{}
		if pv == 0 {
			v.Contents = make([]payload.VotesContent, 0)
			for i, n := 0, sizes(r, 3); i < n; i++ {
				c := payload.VotesContent{VoteType: outputpayload.VoteType(r.Intn(6))}
				for j, m := 0, sizes(r, 4, 36); j < m; j++ {
					c.VotesInfo = append(c.VotesInfo, genVotesWithLockTime(r))
				}
				v.Contents = append(v.Contents, c)
			}
		} else {
			for i, n := 0, sizes(r, 4); i < n; i++ {
				v.RenewalContents = append(v.RenewalContents, payload.RenewalVotesContent{ReferKey: randU256(r), VotesInfo: genVotesWithLockTime(r)})
			}
		}
		return v, pv
	}
	panic("harness: no generator for type")
}

// CoveredTypes in a fixed order (map iteration order must not leak into the op stream).
var CoveredTypes = []ctypes.TxType{ctypes.CoinBase, ctypes.TransferAsset, ctypes.RegisterProducer, ctypes.UpdateProducer,
	ctypes.IllegalBlockEvidence, ctypes.InactiveArbitrators, ctypes.NextTurnDPOSInfo, ctypes.CRCProposalReview, ctypes.Voting}

// GenTx builds a transaction of a covered type.  wellFormed=false also allows
// version 0 with a type byte >= 9 (the version/type ambiguity).
func GenTx(r *hx.Rand, wellFormed bool) interfaces.Transaction {
	tt := CoveredTypes[r.Intn(len(CoveredTypes))]
	if r.Chance(35) {
		tt = ctypes.TransferAsset
	}
	ver := ctypes.TxVersion09
	if r.Chance(5) {
		ver = ctypes.TransactionVersion(r.Pick(10, 100, 255))
	}
	if tt < 9 && r.Chance(40) {
		ver = ctypes.TxVersionDefault
	}
	if !wellFormed && r.Chance(50) {
		ver = ctypes.TransactionVersion(r.Intn(9))
	}
	p, pv := GenPayload(r, tt)
	var attrs []*ctypes.Attribute
	for i, n := 0, sizes(r, 2, 5); i < n; i++ {
		attrs = append(attrs, GenAttribute(r))
	}
	var ins []*ctypes.Input
	for i, n := 0, sizes(r, 3, 253); i < n; i++ {
		ins = append(ins, GenInput(r))
	}
	var outs []*ctypes.Output
	for i, n := 0, sizes(r, 3, 20); i < n; i++ {
		outs = append(outs, GenOutput(r, ver >= ctypes.TxVersion09))
	}
	var progs []*program.Program
	for i, n := 0, sizes(r, 2, 5); i < n; i++ {
		progs = append(progs, GenProgram(r))
	}
	return transaction.CreateTransaction(ver, tt, pv, p, attrs, ins, outs, uint32(r.U64()), progs)
}

func genBtcTx(r *hx.Rand) auxpow.BtcTx {
	tx := auxpow.BtcTx{Version: int32(r.U64()), LockTime: uint32(r.U64())}
	for i, n := 0, sizes(r, 2); i < n; i++ {
		in := &auxpow.BtcTxIn{SignatureScript: r.Bytes(sizes(r, 80, 253)), Sequence: uint32(r.U64())}
		copy(in.PreviousOutPoint.Hash[:], r.Bytes(32))
		in.PreviousOutPoint.Index = uint32(r.U64())
		tx.TxIn = append(tx.TxIn, in)
	}
	for i, n := 0, sizes(r, 2); i < n; i++ {
		tx.TxOut = append(tx.TxOut, &auxpow.BtcTxOut{Value: int64(r.U64()), PkScript: r.Bytes(sizes(r, 40))})
	}
	return tx
}

func GenHeader(r *hx.Rand) *ctypes.Header {
	h := &ctypes.Header{Version: uint32(r.U64()), Previous: randU256(r), MerkleRoot: randU256(r), Timestamp: uint32(r.U64()),
		Bits: uint32(r.U64()), Nonce: uint32(r.U64()), Height: uint32(r.U64())}
	h.AuxPow.ParCoinbaseTx = genBtcTx(r)
	h.AuxPow.ParentHash = randU256(r)
	for i, n := 0, sizes(r, 4, 32); i < n; i++ {
		h.AuxPow.ParCoinBaseMerkle = append(h.AuxPow.ParCoinBaseMerkle, randU256(r))
	}
	h.AuxPow.ParMerkleIndex = int(uint32(r.U64()))
	for i, n := 0, sizes(r, 3); i < n; i++ {
		h.AuxPow.AuxMerkleBranch = append(h.AuxPow.AuxMerkleBranch, randU256(r))
	}
	h.AuxPow.AuxMerkleIndex = int(uint32(r.U64()))
	h.AuxPow.ParBlockHeader = auxpow.BtcHeader{Version: uint32(r.U64()), Previous: randU256(r), MerkleRoot: randU256(r),
		Timestamp: uint32(r.U64()), Bits: uint32(r.U64()), Nonce: uint32(r.U64())}
	return h
}

func GenBlock(r *hx.Rand) *types.Block {
	b := &types.Block{Header: *GenHeader(r)}
	for i, n := 0, sizes(r, 4, 12); i < n; i++ {
		b.Transactions = append(b.Transactions, GenTx(r, true))
	}
	return b
}

func GenConfirm(r *hx.Rand) *payload.Confirm {
	c := &payload.Confirm{Proposal: payload.DPOSProposal{Sponsor: randKey(r), BlockHash: randU256(r), ViewOffset: uint32(r.U64()), Sign: r.Bytes(sizes(r, 64))}}
	for i, n := 0, sizes(r, 6, 36); i < n; i++ {
		c.Votes = append(c.Votes, payload.DPOSProposalVote{ProposalHash: randU256(r), Signer: randKey(r), Accept: r.Bool(), Sign: r.Bytes(sizes(r, 64))})
	}
	return c
}

func Ser(s interface{ Serialize(io.Writer) error }) []byte {
	w := new(bytes.Buffer)
	if err := s.Serialize(w); err != nil {
		panic("harness: serialize: " + err.Error())
	}
	return w.Bytes()
}

// Sample is one generated encoding: the op prefix ("dec attribute 0", "tx", "block") and the bytes.
type Sample struct {
	Op    string
	Bytes []byte
}

// GenSample draws a valid encoding of a random covered type.
func GenSample(r *hx.Rand) Sample {
	switch r.Intn(16) {
	case 0:
		return Sample{"dec attribute 0", Ser(GenAttribute(r))}
	case 1:
		return Sample{"dec input 0", Ser(GenInput(r))}
	case 2:
		return Sample{"dec program 0", Ser(GenProgram(r))}
	case 3, 4:
		v := r.Pick(0, 9, 9, 9, 255)
		w := new(bytes.Buffer)
		GenOutput(r, v >= 9).Serialize(w, ctypes.TransactionVersion(v))
		return Sample{fmt.Sprintf("dec output %d", v), w.Bytes()}
	case 5:
		return Sample{"dec header 0", Ser(GenHeader(r))}
	case 6:
		return Sample{"dec confirm 0", Ser(GenConfirm(r))}
	case 7, 8, 9:
		names := []string{"coinbase", "transferasset", "producerinfo", "dposillegalblocks", "inactivearbitrators", "nextturndposinfo", "crcproposalreview", "voting"}
		n := names[r.Intn(len(names))]
		p, pv := GenPayload(r, PayloadType[n])
		w := new(bytes.Buffer)
		if err := p.Serialize(w, pv); err != nil {
			panic("harness: payload serialize: " + err.Error())
		}
		return Sample{fmt.Sprintf("dec %s %d", n, pv), w.Bytes()}
	case 10:
		return Sample{"block", Ser(GenBlock(r))}
	case 11:
		return GenP2P(r)
	}
	return Sample{"tx", TxBytes(GenTx(r, true))}
}

// GenP2P draws one of the count-limited p2p messages.
func GenP2P(r *hx.Rand) Sample {
	switch r.Intn(3) {
	case 0:
		m := msg.NewInv()
		for i, n := 0, sizes(r, 5, 100, 1000); i < n; i++ {
			h := randU256(r)
			m.AddInvVect(msg.NewInvVect(msg.InvType(r.Intn(5)), &h))
		}
		return Sample{"dec inv 0", Ser(m)}
	case 1:
		var loc []*common.Uint256
		for i, n := 0, sizes(r, 10, 500); i < n; i++ {
			h := randU256(r)
			loc = append(loc, &h)
		}
		return Sample{"dec getblocks 0", Ser(msg.NewGetBlocks(loc, randU256(r)))}
	}
	var as []*p2p.NetAddress
	for i, n := 0, sizes(r, 5, 1000); i < n; i++ {
		as = append(as, p2p.NewNetAddressTimestamp(time.Unix(int64(uint32(r.U64())), 0), r.U64(), net.IP(r.Bytes(16)), uint16(r.U64())))
	}
	return Sample{"dec addr 0", Ser(msg.NewAddr(as))}
}

// varuint encodings used as hostile count prefixes.  Counts between 2^21 and
// 2^44 are left out on purpose: on a decoder that pre-allocates by the count
// they would really allocate gigabytes instead of failing.
var HostileCounts = [][]byte{
	{0xfc}, {0xfd, 0xfd, 0x00}, {0xfd, 0xff, 0xff}, {0xfe, 0x00, 0x00, 0x01, 0x00}, {0xfe, 0x00, 0x00, 0x10, 0x00},
	{0xff, 0, 0, 0, 0, 0, 0x20, 0, 0}, {0xff, 0xff, 0xff, 0xff, 0xff, 0xff, 0xff, 0xff, 0x7f},
	{0xff, 0xff, 0xff, 0xff, 0xff, 0xff, 0xff, 0xff, 0xff}, {0xff, 0, 0, 0, 0, 0, 0, 0, 0x80},
	// non-canonical forms
	{0xfd, 0x01, 0x00}, {0xfe, 0x01, 0x00, 0x00, 0x00}, {0xff, 1, 0, 0, 0, 0, 0, 0, 0},
}

// Mutate derives a malformed / hostile input from a valid encoding.
func Mutate(r *hx.Rand, b []byte) []byte {
	c := append([]byte(nil), b...)
	switch r.Intn(7) {
	case 0: // truncate
		if len(c) > 0 {
			c = c[:r.Intn(len(c))]
		}
	case 1: // flip one byte
		if len(c) > 0 {
			c[r.Intn(len(c))] ^= byte(1 << uint(r.Intn(8)))
		}
	case 2: // set one byte
		if len(c) > 0 {
			c[r.Intn(len(c))] = byte(r.Pick(0, 1, 0xfc, 0xfd, 0xfe, 0xff, int(r.Byte())))
		}
	case 3, 4: // replace a byte by a hostile count and cut shortly after
		if len(c) > 0 {
			i := r.Intn(len(c))
			h := HostileCounts[r.Intn(len(HostileCounts))]
			tail := c[i+1:]
			if r.Bool() && len(tail) > 0 {
				tail = tail[:r.Intn(len(tail))]
			}
			c = append(append(append([]byte(nil), c[:i]...), h...), tail...)
		}
	case 5: // trailing garbage
		c = append(c, r.Bytes(1+r.Intn(8))...)
	case 6: // pure noise
		c = r.Bytes(r.Intn(60))
	}
	return c
}
