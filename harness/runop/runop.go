// Package runop is shared by harness/cmd/c03, c05 and c37: the `run` op = one call of blockchain.RunPrograms on the real code, with the
// cryptographic oracle tables (DecodePoint/Verify, SchnorrVerify, ToCodeHash)
// evaluated by the real crypto package and carried in the op line.
//
//	run <data> <nh> {<pfx> <hash20>}*nh <np> {<code> <param> <codehash20>}*np
//	    <nV> {<key33> <sig64> <e|0|1>}*nV <nS> {<pk33> <sig64> <0|1>}*nS
//
// Output: ok | err <class> | panic | oracle-mismatch.
package runop

import (
	"crypto/elliptic"
	"crypto/sha256"
	"fmt"
	"math/big"
	"strconv"
	"strings"

	"elaverif/harness/hx"

	"github.com/elastos/Elastos.ELA/blockchain"
	"github.com/elastos/Elastos.ELA/common"
	"github.com/elastos/Elastos.ELA/core/contract/program"
	"github.com/elastos/Elastos.ELA/crypto"
)

type ProgIn struct {
	Code, Param []byte
}
type HashIn struct {
	Pfx  byte
	Hash []byte // 20 bytes
}

// ErrClass maps RunPrograms' error to the model's enum.
func ErrClass(err error) string {
	if err == nil {
		return "ok"
	}
	s := err.Error()
	switch {
	case s == "the number of data hashes is different with number of programs":
		return "err count"
	case s == "the data hashes is different with corresponding program code":
		return "err hashMismatch"
	case strings.HasPrefix(s, "check schnorr signature failed:"):
		return "err schnorr"
	case s == "invalid signature length":
		return "err sigLen"
	case s == "[Validation], Verify failed.":
		return "err verify"
	case s == "invalid multi sign script code":
		return "err msCode"
	case s == "not a valid multi sign transaction code, length not enough",
		s == "not a valid cross chain transaction code, length not enough":
		return "err msParse"
	case s == "not a valid transaction code, length not match":
		return "err msParseLen"
	case s == "invalid multi sign public key script count":
		return "err msKeyCount"
	case s == "invalid multi sign signatures, length not match":
		return "err msSigLen"
	case s == "invalid signatures, not enough signatures":
		return "err msNotEnough"
	case s == "invalid signatures, too many signatures":
		return "err msTooMany"
	case s == "duplicated signatures":
		return "err msDup"
	case s == "matched signatures not enough":
		return "err msMatched"
	case s == "unknown signature type":
		return "err unknownType"
	case s == "Unknown signature length":
		return "err other-siglen"
	}
	// everything else on these paths comes out of DecodePoint / deCompress
	return "err decode"
}

// candidate (key, signature) pairs the verification code can ask about for one program
func CandKeys(code []byte) [][]byte {
	var ks [][]byte
	if len(code) >= 2 {
		ks = append(ks, code[1:len(code)-1]) // CheckStandardSignature: Code[1:len-1]
	}
	if len(code) >= 3 {
		body := code[1 : len(code)-2]
		if len(body)%34 == 0 {
			for i := 0; i+34 <= len(body); i += 34 {
				ks = append(ks, body[i+1:i+34])
			}
		}
	}
	return ks
}
func CandSigs(param []byte) [][]byte {
	var ss [][]byte
	if len(param)%65 == 0 {
		for i := 0; i+65 <= len(param); i += 65 {
			ss = append(ss, param[i+1:i+65])
		}
	}
	return ss
}

func VerifyCell(key, data, sig []byte) (cell string) {
	// the oracle table is built with the code under test: if that code panics here, say so in the
	// cell (the op then reaches Exec, where the panic is the implementation's answer) instead of
	// taking the harness down
	defer func() {
		if e := recover(); e != nil {
			cell = "p"
		}
	}()
	pk, err := crypto.DecodePoint(key)
	if err != nil {
		return "e"
	}
	if len(sig) != 64 {
		return "0"
	}
	if crypto.Verify(*pk, data, sig) == nil {
		return "1"
	}
	return "0"
}

func Pad(n int, b []byte) []byte {
	out := make([]byte, n)
	copy(out, b)
	return out
}

func SchnorrCell(code, param, data []byte) (pk, sig []byte, res string, ok bool) {
	if len(code) < 2 || len(param) < 64 {
		return nil, nil, "", false
	}
	var pka [33]byte
	copy(pka[:], code[2:])
	var sg [64]byte
	copy(sg[:], param[:64])
	good := false
	func() {
		defer func() { recover() }()
		good, _ = crypto.SchnorrVerify(pka, common.Sha256D(data), sg)
	}()
	r := "0"
	if good {
		r = "1"
	}
	return pka[:], sg[:], r, true
}

// RunLine builds the complete `run` op line (tables evaluated on the real crypto code).
func RunLine(data []byte, hs []HashIn, ps []ProgIn) string {
	var b strings.Builder
	fmt.Fprintf(&b, "run %s %d", hx.Hex(data), len(hs))
	for _, h := range hs {
		fmt.Fprintf(&b, " %02x %s", h.Pfx, hx.Hex(h.Hash))
	}
	fmt.Fprintf(&b, " %d", len(ps))
	for _, p := range ps {
		fmt.Fprintf(&b, " %s %s %s", hx.Hex(p.Code), hx.Hex(p.Param), hx.Hex(common.ToCodeHash(p.Code).Bytes()))
	}
	seen := map[string]bool{}
	var vt []string
	for _, p := range ps {
		for _, k := range CandKeys(p.Code) {
			for _, s := range CandSigs(p.Param) {
				id := hx.Hex(k) + " " + hx.Hex(s)
				if seen[id] {
					continue
				}
				seen[id] = true
				vt = append(vt, id+" "+VerifyCell(k, data, s))
			}
		}
	}
	fmt.Fprintf(&b, " %d", len(vt))
	for _, e := range vt {
		b.WriteString(" " + e)
	}
	var st []string
	seenS := map[string]bool{}
	for _, p := range ps {
		if pk, sg, r, ok := SchnorrCell(p.Code, p.Param, data); ok {
			id := hx.Hex(pk) + " " + hx.Hex(sg)
			if !seenS[id] {
				seenS[id] = true
				st = append(st, id+" "+r)
			}
		}
	}
	fmt.Fprintf(&b, " %d", len(st))
	for _, e := range st {
		b.WriteString(" " + e)
	}
	return b.String()
}

type RunOp struct {
	Data []byte
	Hs   []HashIn
	Ps   []ProgIn
	VT   map[string]string
	ST   map[string]string
	CH   [][]byte
}

func Atoi(s string) int {
	v, err := strconv.Atoi(s)
	if err != nil {
		panic("harness: bad int " + s)
	}
	return v
}

func ParseRun(t []string) *RunOp {
	r := &RunOp{VT: map[string]string{}, ST: map[string]string{}}
	i := 1
	next := func() string {
		if i >= len(t) {
			panic("harness: short run op")
		}
		s := t[i]
		i++
		return s
	}
	r.Data = hx.UnHex(next())
	nh := Atoi(next())
	for k := 0; k < nh; k++ {
		pf := hx.UnHex(next())
		h := hx.UnHex(next())
		r.Hs = append(r.Hs, HashIn{Pfx: pf[0], Hash: h})
	}
	np := Atoi(next())
	for k := 0; k < np; k++ {
		c := hx.UnHex(next())
		p := hx.UnHex(next())
		ch := hx.UnHex(next())
		r.Ps = append(r.Ps, ProgIn{Code: c, Param: p})
		r.CH = append(r.CH, ch)
	}
	nv := Atoi(next())
	for k := 0; k < nv; k++ {
		a, b, c := next(), next(), next()
		r.VT[a+" "+b] = c
	}
	ns := Atoi(next())
	for k := 0; k < ns; k++ {
		a, b, c := next(), next(), next()
		r.ST[a+" "+b] = c
	}
	return r
}

// Exact-capacity copy: the node's decoder allocates with make([]byte, n)
func Exact(b []byte) []byte {
	out := make([]byte, len(b))
	copy(out, b)
	return out
}

// ExecRun runs the real RunPrograms after re-checking every oracle cell.
func ExecRun(t []string) string {
	r := ParseRun(t)
	for k, p := range r.Ps {
		if string(common.ToCodeHash(p.Code).Bytes()) != string(r.CH[k]) {
			return "oracle-mismatch"
		}
	}
	for id, want := range r.VT {
		f := strings.Fields(id)
		if VerifyCell(hx.UnHex(f[0]), r.Data, hx.UnHex(f[1])) != want {
			return "oracle-mismatch"
		}
	}
	for _, p := range r.Ps {
		if pk, sg, res, ok := SchnorrCell(p.Code, p.Param, r.Data); ok {
			if w, found := r.ST[hx.Hex(pk)+" "+hx.Hex(sg)]; found && w != res {
				return "oracle-mismatch"
			}
		}
	}
	hashes := make([]common.Uint168, len(r.Hs))
	for k, h := range r.Hs {
		hashes[k][0] = h.Pfx
		if len(h.Hash) != 20 {
			panic("harness: hash must be 20 bytes")
		}
		copy(hashes[k][1:], h.Hash)
	}
	progs := make([]*program.Program, len(r.Ps))
	for k, p := range r.Ps {
		progs[k] = &program.Program{Code: Exact(p.Code), Parameter: Exact(p.Param)}
	}
	return ErrClass(blockchain.RunPrograms(Exact(r.Data), hashes, progs))
}

// ---------------------------------------------------------------- deterministic keys and signatures

type KeyPair struct {
	Priv []byte
	Pub  *crypto.PublicKey
	Enc  []byte // 33-byte compressed encoding
}

func NewKey(r *hx.Rand) *KeyPair {
	for {
		d := new(big.Int).SetBytes(r.Bytes(32))
		n := elliptic.P256().Params().N
		d.Mod(d, n)
		if d.Sign() == 0 {
			continue
		}
		priv := Pad32(d)
		x, y := crypto.DefaultCurve.ScalarBaseMult(priv)
		pub := &crypto.PublicKey{X: x, Y: y}
		enc, err := pub.EncodePoint(true)
		if err != nil {
			continue
		}
		return &KeyPair{Priv: priv, Pub: pub, Enc: enc}
	}
}

func Pad32(v *big.Int) []byte {
	b := v.Bytes()
	out := make([]byte, 32)
	copy(out[32-len(b):], b)
	return out
}

// sign is plain ECDSA over P-256 / SHA-256 with the nonce drawn from the seeded
// PRNG (crypto.Sign draws it from crypto/rand, which would make op lines
// irreproducible); the result is checked with the node's crypto.Verify.
func Sign(r *hx.Rand, k *KeyPair, data []byte) []byte {
	c := elliptic.P256().Params()
	z := new(big.Int).SetBytes(Sha256sum(data))
	d := new(big.Int).SetBytes(k.Priv)
	for {
		kk := new(big.Int).SetBytes(r.Bytes(32))
		kk.Mod(kk, c.N)
		if kk.Sign() == 0 {
			continue
		}
		x, _ := crypto.DefaultCurve.ScalarBaseMult(Pad32(kk))
		rr := new(big.Int).Mod(x, c.N)
		if rr.Sign() == 0 {
			continue
		}
		s := new(big.Int).Mul(rr, d)
		s.Add(s, z)
		s.Mul(s, new(big.Int).ModInverse(kk, c.N))
		s.Mod(s, c.N)
		if s.Sign() == 0 {
			continue
		}
		sig := append(Pad32(rr), Pad32(s)...)
		if crypto.Verify(*k.Pub, data, sig) != nil {
			panic("harness: own signature does not verify")
		}
		return sig
	}
}

func Sha256sum(b []byte) []byte {
	h := sha256.Sum256(b)
	return h[:]
}
