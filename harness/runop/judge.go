package runop

import (
	"bytes"
	"fmt"

	"elaverif/harness/hx"
)

// ---------------------------------------------------------------- independent script classifiers
//
// Written from the script formats (docs of core/contract: a standard script is `33 ‖ key ‖ CHECKSIG`, a Schnorr
// script `PUSH1 ‖ 33 ‖ key`, an m-of-n script `m ‖ n × (33 ‖ key) ‖ n ‖ CHECKMULTISIG` with m and n as
// PUSH1..PUSH16, `01 b` or `02 hi lo`), NOT by calling the node's contract.Is* functions: the oracles must not
// follow the implementation when it misclassifies a script.

func OwnIsStandard(c []byte) bool { return len(c) == 35 && c[0] == 33 && c[34] == 0xAC }

func OwnIsSchnorr(c []byte) bool { return len(c) == 35 && c[0] == 0x51 && c[1] == 33 }

func ownNumber(c []byte, i int) (v, next int, ok bool) {
	if i >= len(c) {
		return 0, 0, false
	}
	switch {
	case c[i] >= 0x51 && c[i] <= 0x60:
		return int(c[i]) - 0x50, i + 1, true
	case c[i] == 1 && i+1 < len(c):
		return int(c[i+1]), i + 2, true
	case c[i] == 2 && i+2 < len(c):
		return int(int16(uint16(c[i+1])<<8 | uint16(c[i+2]))), i + 3, true
	}
	return 0, 0, false
}

func OwnIsMultiSig(c []byte) bool {
	m, i, ok := ownNumber(c, 0)
	if !ok || m < 1 || m > 1024 {
		return false
	}
	n := 0
	for i < len(c) && c[i] == 33 && i+34 < len(c) {
		i += 34
		n++
	}
	if n < m || n > 1024 {
		return false
	}
	nn, j, ok := ownNumber(c, i)
	if !ok || nn != n {
		return false
	}
	return j == len(c)-1 && c[j] == 0xAE
}

// number of distinct key scripts of a multisig-shaped code that have a verifying signature chunk
func DistinctSigned(r *RunOp, p ProgIn) int {
	code := p.Code
	if len(code) < 3 {
		return 0
	}
	body := code[1 : len(code)-2]
	if len(body)%34 != 0 || len(p.Param)%65 != 0 {
		return 0
	}
	seen := map[string]bool{}
	for i := 0; i+34 <= len(body); i += 34 {
		ks := body[i : i+34]
		for j := 0; j+65 <= len(p.Param); j += 65 {
			if r.VT[hx.Hex(ks[1:])+" "+hx.Hex(p.Param[j+1:j+65])] == "1" {
				seen[string(ks)] = true
			}
		}
	}
	return len(seen)
}

func SchnorrOK(r *RunOp, p ProgIn) bool {
	if len(p.Code) < 2 || len(p.Param) < 64 {
		return false
	}
	return r.ST[hx.Hex(Pad(33, p.Code[2:]))+" "+hx.Hex(p.Param[:64])] == "1"
}

// judgePair: is acceptance of (hash h, program i of r) justified by the signature matrix in the op line?
func JudgePair(r *RunOp, h HashIn, i int) *hx.Violation {
	p := r.Ps[i]
	sch, std, ms := OwnIsSchnorr(p.Code), OwnIsStandard(p.Code), OwnIsMultiSig(p.Code)
	if h.Pfx == 0x4B {
		if sch {
			if !SchnorrOK(r, p) {
				return &hx.Violation{Kind: "accept-bad-signature", Detail: "cross-chain schnorr program accepted, SchnorrVerify is false"}
			}
			return nil
		}
		m := int(p.Code[0]) - 0x50
		if m < 1 {
			return &hx.Violation{Kind: "accept-unsigned-crosschain", Detail: "cross-chain program with m < 1 accepted (no signature required, no code-hash binding)"}
		}
		if DistinctSigned(r, p) < m {
			return &hx.Violation{Kind: "accept-bad-signature", Detail: "cross-chain program accepted with fewer than m distinct valid signers"}
		}
		return nil
	}
	if !bytes.Equal(h.Hash, r.CH[i]) {
		return &hx.Violation{Kind: "accept-wrong-hash", Detail: "program code does not hash to the spent address"}
	}
	switch {
	case sch:
		if !SchnorrOK(r, p) {
			return &hx.Violation{Kind: "accept-bad-signature", Detail: "schnorr program accepted, SchnorrVerify is false"}
		}
	case std:
		if len(p.Param) != 65 || r.VT[hx.Hex(p.Code[1:34])+" "+hx.Hex(p.Param[1:])] != "1" {
			return &hx.Violation{Kind: "accept-bad-signature", Detail: "standard program accepted, Verify is not true"}
		}
	case ms || h.Pfx == 0x12:
		m := int(p.Code[0]) - 0x50
		if m < 1 || DistinctSigned(r, p) < m {
			return &hx.Violation{Kind: "accept-bad-signature", Detail: "multisig program accepted with fewer than m distinct valid signers"}
		}
	default:
		return &hx.Violation{Kind: "accept-unsigned-unknown-kind",
			Detail: "program under a standard/deposit prefix is none of standard/multisig/schnorr and was accepted with no signature check"}
	}
	return nil
}

// JudgeTx: is acceptance of the transaction of a txsig-format op justified?  Every address it spends from
// (referenced outputs and well-formed Script attributes) needs a program that JudgePair accepts.
func JudgeTx(o *TxOp) *hx.Violation {
	addrs := append([]HashIn{}, o.Refs...)
	for _, a := range o.Attrs {
		if a.Usage == 0x20 { // Script
			if len(a.Data) != 21 {
				return &hx.Violation{Kind: "accept-unsigned-tx", Detail: "accepted with a malformed Script attribute"}
			}
			addrs = append(addrs, HashIn{Pfx: a.Data[0], Hash: a.Data[1:]})
		}
	}
	for _, h := range addrs {
		var first *hx.Violation
		okFound := false
		for i := range o.Run.Ps {
			if h.Pfx != 0x4B && !bytes.Equal(h.Hash, o.Run.CH[i]) {
				continue
			}
			v := JudgePair(o.Run, h, i)
			if v == nil {
				okFound = true
				break
			}
			if first == nil {
				first = v
			}
		}
		if !okFound {
			if first != nil && (first.Kind == "accept-unsigned-unknown-kind" || first.Kind == "accept-unsigned-crosschain") {
				return first
			}
			return &hx.Violation{Kind: "accept-unsigned-tx",
				Detail: fmt.Sprintf("tx type 0x%02x payload version %d accepted although spent address %02x%s has no program with verifying signatures (not in the reviewed exemption table)",
					o.Ttype, o.Pver, h.Pfx, hx.Hex(h.Hash))}
		}
	}
	return nil
}
