package runop

import (
	"bytes"
	"fmt"
	"sort"
	"strings"

	"elaverif/harness/hx"

	"github.com/elastos/Elastos.ELA/blockchain"
	"github.com/elastos/Elastos.ELA/common"
	"github.com/elastos/Elastos.ELA/core/contract/program"
	"github.com/elastos/Elastos.ELA/core/transaction"
	ctypes "github.com/elastos/Elastos.ELA/core/types/common"
	"github.com/elastos/Elastos.ELA/core/types/functions"
	"github.com/elastos/Elastos.ELA/core/types/interfaces"
	"github.com/elastos/Elastos.ELA/core/types/outputpayload"
)

// ---------------------------------------------------------------- txsig: checkTransactionSignature
//
//	txsig <tx|bc> <type> <pver> <lock> <nRefs> {<pfx> <hash20>}* <nAttr> {<usage> <data>}* <data> 0 <np> {<code> <param> <codehash>}* <nV> … <nS> …
//
// The transaction is rebuilt from the op (default payload of the type/version, one input per
// referenced output, the attributes, lock time, programs) and handed to the real
// checkTransactionSignature; <data> must be its unsigned serialization.

type AttrIn struct {
	Usage byte
	Data  []byte
}
type TxOp struct {
	Variant     string
	Ttype, Pver byte
	Lock        uint32
	Refs        []HashIn
	Attrs       []AttrIn
	Run         *RunOp
}

func ParseTxsig(t []string) *TxOp {
	o := &TxOp{Variant: t[1]}
	o.Ttype = hx.UnHex(t[2])[0]
	o.Pver = byte(Atoi(t[3]))
	o.Lock = uint32(Atoi(t[4]))
	i := 5
	n := Atoi(t[i])
	i++
	for k := 0; k < n; k++ {
		o.Refs = append(o.Refs, HashIn{Pfx: hx.UnHex(t[i])[0], Hash: hx.UnHex(t[i+1])})
		i += 2
	}
	n = Atoi(t[i])
	i++
	for k := 0; k < n; k++ {
		o.Attrs = append(o.Attrs, AttrIn{Usage: hx.UnHex(t[i])[0], Data: hx.UnHex(t[i+1])})
		i += 2
	}
	o.Run = ParseRun(append([]string{"run"}, t[i:]...))
	return o
}

func BuildTx(o *TxOp, ps []ProgIn) (interfaces.Transaction, map[*ctypes.Input]ctypes.Output, bool) {
	pl, err := interfaces.GetPayload(ctypes.TxType(o.Ttype), o.Pver)
	if err != nil || pl == nil {
		return nil, nil, false
	}
	var ins []*ctypes.Input
	refs := map[*ctypes.Input]ctypes.Output{}
	for k, h := range o.Refs {
		in := &ctypes.Input{Previous: ctypes.OutPoint{Index: uint16(k)}, Sequence: uint32(k)}
		in.Previous.TxID[0] = byte(k + 1)
		ins = append(ins, in)
		var ph common.Uint168
		ph[0] = h.Pfx
		copy(ph[1:], h.Hash)
		refs[in] = ctypes.Output{ProgramHash: ph, Payload: &outputpayload.DefaultOutput{}}
	}
	attrs := []*ctypes.Attribute{}
	for _, a := range o.Attrs {
		attrs = append(attrs, &ctypes.Attribute{Usage: ctypes.AttributeUsage(a.Usage), Data: Exact(a.Data)})
	}
	progs := []*program.Program{}
	for _, p := range ps {
		progs = append(progs, &program.Program{Code: Exact(p.Code), Parameter: Exact(p.Param)})
	}
	tx := functions.CreateTransaction(ctypes.TxVersion09, ctypes.TxType(o.Ttype), o.Pver, pl, attrs, ins, []*ctypes.Output{}, o.Lock, progs)
	return tx, refs, true
}

func UnsignedOf(tx interfaces.Transaction) []byte {
	buf := new(bytes.Buffer)
	func() {
		defer func() { recover() }()
		tx.SerializeUnsigned(buf) // checkTransactionSignature ignores the error as well
	}()
	return buf.Bytes()
}

func ExecTxsig(t []string) string {
	o := ParseTxsig(t)
	tx, refs, ok := BuildTx(o, o.Run.Ps)
	if !ok {
		return "no-payload"
	}
	if !bytes.Equal(UnsignedOf(tx), o.Run.Data) {
		return "oracle-mismatch"
	}
	// re-check the matrix through the run-op machinery on an empty hash list
	for k, p := range o.Run.Ps {
		if !bytes.Equal(common.ToCodeHash(p.Code).Bytes(), o.Run.CH[k]) {
			return "oracle-mismatch"
		}
	}
	for id, want := range o.Run.VT {
		f := strings.Fields(id)
		if VerifyCell(hx.UnHex(f[0]), o.Run.Data, hx.UnHex(f[1])) != want {
			return "oracle-mismatch"
		}
	}
	var err error
	if o.Variant == "bc" {
		err = blockchain.VerifC05CheckTransactionSignature(tx, refs)
	} else {
		err = transaction.VerifC05CheckTransactionSignature(tx, refs)
	}
	if err != nil && err.Error() == "[BaseTransaction], GetProgramHashes err" {
		return "err scriptAttr"
	}
	return ErrClass(err)
}

// ExecTie runs the real checkTransactionSignature 48 times on freshly built transactions (the order of
// hashes with EQUAL code hashes depends on Go's map iteration order and the unstable sort) and answers
// the sorted set of distinct verdicts, joined by '|'.
func ExecTie(t []string) string {
	o := ParseTxsig(t)
	seen := map[string]bool{}
	for i := 0; i < 48; i++ {
		tx, refs, ok := BuildTx(o, o.Run.Ps)
		if !ok {
			return "no-payload"
		}
		if i == 0 && !bytes.Equal(UnsignedOf(tx), o.Run.Data) {
			return "oracle-mismatch"
		}
		var err error
		if o.Variant == "bc" {
			err = blockchain.VerifC05CheckTransactionSignature(tx, refs)
		} else {
			err = transaction.VerifC05CheckTransactionSignature(tx, refs)
		}
		if err != nil && err.Error() == "[BaseTransaction], GetProgramHashes err" {
			seen["err scriptAttr"] = true
		} else {
			seen[ErrClass(err)] = true
		}
	}
	var ks []string
	for k := range seen {
		ks = append(ks, k)
	}
	sort.Strings(ks)
	return strings.Join(ks, "|")
}

func TxsigLine(o *TxOp, ps []ProgIn) string {
	tx, _, ok := BuildTx(o, nil)
	if !ok {
		return ""
	}
	data := UnsignedOf(tx)
	var b strings.Builder
	fmt.Fprintf(&b, "txsig %s %02x %d %d %d", o.Variant, o.Ttype, o.Pver, o.Lock, len(o.Refs))
	for _, h := range o.Refs {
		fmt.Fprintf(&b, " %02x %s", h.Pfx, hx.Hex(h.Hash))
	}
	fmt.Fprintf(&b, " %d", len(o.Attrs))
	for _, a := range o.Attrs {
		fmt.Fprintf(&b, " %02x %s", a.Usage, hx.Hex(a.Data))
	}
	b.WriteString(RunLine(data, nil, ps)[3:])
	return b.String()
}
