package regnet

import (
	"encoding/hex"
	"fmt"
	"github.com/elastos/Elastos.ELA/core/contract"
	"strings"

	"github.com/elastos/Elastos.ELA/common"
	"github.com/elastos/Elastos.ELA/core/types"
	ctypes "github.com/elastos/Elastos.ELA/core/types/common"
	"github.com/elastos/Elastos.ELA/core/types/interfaces"
	"github.com/elastos/Elastos.ELA/core/types/outputpayload"
	"github.com/elastos/Elastos.ELA/core/types/payload"
)

// ID is the short hex id (first 8 bytes) under which hashes travel in op lines.
func ID(h common.Uint256) string { return hex.EncodeToString(h[:8]) }

// AddrNo maps a program hash to the small number used in op lines:
// the account index for the node's own accounts, 1000+first 3 bytes otherwise.
func (n *Node) AddrNo(ph common.Uint168) int {
	for i, a := range n.Accounts {
		if a.ProgramHash == ph {
			return i
		}
	}
	if ph[0] == byte(contract.PrefixCrossChain) {
		return 900 + int(ph[1]) // cross-chain ("X") addresses 900..999
	}
	return 1000 + int(ph[1])<<16 + int(ph[2])<<8 + int(ph[3])
}

func kindOf(tx interfaces.Transaction) string {
	switch tx.TxType() {
	case ctypes.CoinBase:
		return "cb"
	case ctypes.RegisterAsset:
		return "ra"
	case ctypes.WithdrawFromSideChain:
		return "wd"
	case ctypes.ReturnSideChainDepositCoin:
		return "rd"
	case ctypes.CRCProposal:
		return "pp"
	case ctypes.CRCProposalReview:
		return "rv"
	case ctypes.CRCProposalTracking:
		return "tk"
	case ctypes.SideChainPow:
		return "sp"
	case ctypes.Record:
		return "rc"
	case ctypes.TransferCrossChainAsset:
		return "xc"
	case ctypes.CRCAppropriation:
		return "ca"
	}
	return "ot"
}

func hexOrDash(b []byte) string {
	if len(b) == 0 {
		return "-"
	}
	return hex.EncodeToString(b)
}

// DescribeTx renders one transaction in the line-protocol form
// `txid kind pver nonce nin {t:i} nout {addr:value:W<h>|R<h>|-} nph {h} npd {hex}`.
func (n *Node) DescribeTx(tx interfaces.Transaction) string { return n.describeTx(tx, -1) }

// describeTx: height is the height of the containing block (-1: none). A coinbase whose lock time is not
// its block's height (a coinbase copied from another block) carries the lock time as its one pdata.
func (n *Node) describeTx(tx interfaces.Transaction, height int64) string {
	var sb strings.Builder
	nonce := "-"
	for _, a := range tx.Attributes() {
		if a.Usage == ctypes.Nonce && len(a.Data) > 0 {
			nonce = hex.EncodeToString(a.Data)
			break
		}
	}
	if tx.TxType() == ctypes.CRCAppropriation && tx.LockTime() != 0 {
		nonce = fmt.Sprintf("%08x", tx.LockTime())
	}
	nin := len(tx.Inputs())
	if tx.IsCoinBaseTx() {
		nin = 0 // the null input of a coinbase is implied by the kind
	}
	fmt.Fprintf(&sb, "%s %s %d %s %d", ID(tx.Hash()), kindOf(tx), tx.PayloadVersion(), nonce, nin)
	for _, in := range tx.Inputs()[:nin] {
		fmt.Fprintf(&sb, " %s:%d", ID(in.Previous.TxID), in.Previous.Index)
	}
	fmt.Fprintf(&sb, " %d", len(tx.Outputs()))
	for _, o := range tx.Outputs() {
		p := "-"
		switch o.Type {
		case ctypes.OTWithdrawFromSideChain:
			if w, ok := o.Payload.(*outputpayload.Withdraw); ok {
				p = "W" + ID(w.SideChainTransactionHash)
			}
		case ctypes.OTReturnSideChainDepositCoin:
			if r, ok := o.Payload.(*outputpayload.ReturnSideChainDeposit); ok {
				p = "R" + ID(r.DepositTransactionHash)
			}
		}
		fmt.Fprintf(&sb, " %d:%d:%s", n.AddrNo(o.ProgramHash), int64(o.Value), p)
	}
	var ph []string
	var pd []string
	switch pl := tx.Payload().(type) {
	case *payload.WithdrawFromSideChain:
		for _, h := range pl.SideChainTransactionHashes {
			ph = append(ph, ID(h))
		}
	case *payload.SideChainPow:
		ph = append(ph, ID(pl.SideBlockHash), ID(pl.SideGenesisHash))
		pd = append(pd, hexOrDash(pl.Signature))
	case *payload.Record:
		pd = append(pd, hexOrDash(pl.Content))
	case *payload.CoinBase:
		if height >= 0 && int64(tx.LockTime()) != height {
			pd = append(pd, fmt.Sprintf("%08x", tx.LockTime()))
		}
	case *payload.CRCProposal:
		ph = append(ph, ID(pl.DraftHash))
		pd = append(pd, hexOrDash(pl.DraftData))
	case *payload.CRCProposalReview:
		ph = append(ph, ID(pl.OpinionHash))
		pd = append(pd, hexOrDash(pl.OpinionData))
	case *payload.CRCProposalTracking:
		ph = append(ph, ID(pl.SecretaryGeneralOpinionHash), ID(pl.MessageHash))
		pd = append(pd, hexOrDash(pl.SecretaryGeneralOpinionData), hexOrDash(pl.MessageData))
	}
	fmt.Fprintf(&sb, " %d", len(ph))
	for _, h := range ph {
		sb.WriteString(" " + h)
	}
	fmt.Fprintf(&sb, " %d", len(pd))
	for _, d := range pd {
		sb.WriteString(" " + d)
	}
	return sb.String()
}

// Describe renders a block: `id prev height ntx {tx}`.
func (n *Node) Describe(b *types.Block) string {
	var sb strings.Builder
	fmt.Fprintf(&sb, "%s %s %d %d", ID(b.Hash()), ID(b.Header.Previous), b.Height, len(b.Transactions))
	for _, tx := range b.Transactions {
		sb.WriteString(" " + n.describeTx(tx, int64(b.Height)))
	}
	return sb.String()
}
