package regnet

import (
	"fmt"
	"sort"
	"strings"

	"github.com/elastos/Elastos.ELA/common"
	"github.com/elastos/Elastos.ELA/core/types"
	ctypes "github.com/elastos/Elastos.ELA/core/types/common"
	"github.com/elastos/Elastos.ELA/core/types/interfaces"
)

// Rnd is the part of hx.Rand the generators use.
type Rnd interface {
	Intn(n int) int
	Chance(p int) bool
	Bool() bool
}

// HistGen generates one history of block deliveries / submissions on a Sim.
// It keeps its own picture of the block tree only to choose parents and
// inputs; expected values always come from the Lean model.
type HistGen struct {
	S    *Sim
	R    Rnd
	Emit func(format string, a ...interface{}) string
	// branch the node is believed to be on (updated from the node's replies)
	Active *Branch
	// every block built so far, by short id
	nonce uint64
	// Touched tx ids / recent keys for observation
	Watch []string
	// WithConfirm: deliver with a dummy block confirmation (op deliverc)
	WithConfirm bool
	// Pause (seconds) is added to the timestamp of the next block built (retarget mode only)
	Pause uint32
	// mined: the transfers HonestBlock has put into blocks of this history (a branch may mine them again)
	mined []interfaces.Transaction
}

func (h *HistGen) nextNonce() uint64 { h.nonce++; return h.nonce + 1<<32 }

// Start emits reset + init.
func (h *HistGen) Start() {
	h.Emit("reset")
	h.Emit("%s", h.S.InitLine())
	h.Active = &Branch{}
	h.Watch = nil
	h.mined = nil
}

// spendable lists the coins of the branch an honest transfer may use at the next height.
func (h *HistGen) spendable(br *Branch) []Coin {
	tip := h.S.BranchTip(br)
	mat := h.S.N.Params.PowConfiguration.CoinbaseMaturity
	var res []Coin
	for _, c := range h.S.Coins(br) {
		if c.Addr > NumUsers || c.Value <= 0 {
			continue
		}
		if c.CB && tip.Height-c.Height < mat {
			continue
		}
		res = append(res, c)
	}
	return res
}

// Transfer builds a valid transfer spending 1–2 coins of one owner (nil when none is available).
func (h *HistGen) Transfer(br *Branch, used map[string]bool) interfaces.Transaction {
	cs := h.spendable(br)
	var own []Coin
	for try := 0; try < 6 && len(cs) > 0; try++ {
		c := cs[h.R.Intn(len(cs))]
		if used[fmt.Sprintf("%s:%d", c.ID, c.Idx)] {
			continue
		}
		own = []Coin{c}
		if h.R.Chance(35) {
			// prefer a sibling output of the same transaction (then a rollback has to restore two
			// indexes of one entry), else any other coin of the owner
			var pick *Coin
			for k := range cs {
				d := cs[k]
				if d.Addr == c.Addr && (d.ID != c.ID || d.Idx != c.Idx) && !used[fmt.Sprintf("%s:%d", d.ID, d.Idx)] {
					if d.ID == c.ID {
						pick = &cs[k]
						break
					}
					if pick == nil {
						pick = &cs[k]
					}
				}
			}
			if pick != nil {
				own = append(own, *pick)
			}
		}
		break
	}
	if len(own) == 0 {
		return nil
	}
	return h.spend(own, used, 100+int64(h.R.Intn(900)))
}

// spend builds a transfer of the given coins (all of one owner) with the given fee.
func (h *HistGen) spend(own []Coin, used map[string]bool, fee int64) interfaces.Transaction {
	var ins []ctypes.OutPoint
	var total int64
	for _, c := range own {
		if used != nil {
			used[fmt.Sprintf("%s:%d", c.ID, c.Idx)] = true
		}
		ins = append(ins, ctypes.OutPoint{TxID: h.S.N.TxByID(c.ID).Hash(), Index: uint16(c.Idx)})
		total += c.Value
	}
	rest := total - fee
	nout := 1 + h.R.Intn(3)
	var outs []Out
	for i := 0; i < nout-1 && rest > 10; i++ {
		v := rest / int64(2+h.R.Intn(3))
		if h.R.Chance(8) {
			v = 0
		}
		outs = append(outs, Out{To: h.R.Intn(NumUsers + 1), Value: common.Fixed64(v)})
		rest -= v
	}
	outs = append(outs, Out{To: h.R.Intn(NumUsers + 1), Value: common.Fixed64(rest)})
	tx, err := h.S.N.Transfer(own[0].Addr, ins, outs, h.nextNonce())
	if err != nil {
		panic("harness: transfer: " + err.Error())
	}
	return tx
}

// Block mines a block on the tip of br with the given transactions (not delivered).
func (h *HistGen) Block(br *Branch, txs []interfaces.Transaction, o ...MineOpts) *types.Block {
	if len(o) == 0 {
		o = []MineOpts{{Miner: h.R.Intn(NumUsers + 1)}}
	}
	if h.S.Retarget {
		o[0].Timestamp = h.S.BranchTip(br).Timestamp + 1 + h.Pause
		if len(br.Blocks) == 0 {
			o[0].Timestamp = h.S.N.Genesis.Timestamp + 1 + h.Pause
		}
		h.Pause = 0
	}
	b, err := h.S.N.Mine(h.S.BranchTip(br), txs, o...)
	if err != nil {
		panic("harness: mine: " + err.Error())
	}
	return b
}

// ZeroValuePair mines two blocks on br: the first pays one account a non-zero and a zero-value output
// (same transaction, so same index bucket), the second spends both in one transaction. nil when no
// coin is available.
func (h *HistGen) ZeroValuePair(br *Branch) []*types.Block {
	var src *Coin
	cs := h.spendable(br)
	for k := range cs {
		if cs[k].Value > 100000 {
			src = &cs[k]
			break
		}
	}
	if src == nil {
		return nil
	}
	a := 1 + h.R.Intn(NumUsers)
	half := src.Value / 2
	tx1, err := h.S.N.Transfer(src.Addr, []ctypes.OutPoint{{TxID: h.S.N.TxByID(src.ID).Hash(), Index: uint16(src.Idx)}},
		[]Out{{To: a, Value: common.Fixed64(half)}, {To: a, Value: 0}, {To: src.Addr, Value: common.Fixed64(src.Value - half - 300)}}, h.nextNonce())
	if err != nil {
		panic("harness: " + err.Error())
	}
	b1 := h.Block(br, []interfaces.Transaction{tx1})
	ins := []ctypes.OutPoint{{TxID: tx1.Hash(), Index: 0}, {TxID: tx1.Hash(), Index: 1}}
	if h.R.Bool() {
		ins[0], ins[1] = ins[1], ins[0]
	}
	tx2, err := h.S.N.Transfer(a, ins, []Out{{To: h.R.Intn(NumUsers + 1), Value: common.Fixed64(half - 400)}}, h.nextNonce())
	if err != nil {
		panic("harness: " + err.Error())
	}
	b2 := h.Block(Extend(br, b1), []interfaces.Transaction{tx2})
	return []*types.Block{b1, b2}
}

// BadBlock mines a block that passes the context-free checks but not the context check: it
// spends an output of its parent's coinbase, which is not mature (CoinbaseMaturity ≥ 2).
func (h *HistGen) BadBlock(br *Branch) *types.Block {
	parent := h.S.BranchTip(br)
	cb := parent.Transactions[0]
	o := cb.Outputs()[0]
	co := Coin{ID: ID(cb.Hash()), Idx: 0, Addr: h.S.N.AddrNo(o.ProgramHash), Value: int64(o.Value), Height: parent.Height, CB: true}
	tx := h.spend([]Coin{co}, nil, 500)
	return h.Block(br, []interfaces.Transaction{tx})
}

// IsBad recognises such a block (for oracles): a transaction spends its parent's coinbase.
func (s *Sim) IsBad(b *types.Block) bool {
	parent := s.N.Block(b.Header.Previous)
	if parent == nil {
		return false
	}
	cbh := parent.Transactions[0].Hash()
	for _, tx := range b.Transactions[1:] {
		for _, in := range tx.Inputs() {
			if in.Previous.TxID == cbh {
				return true
			}
		}
	}
	return false
}

// HonestBlock mines a block with 0–maxTx valid transfers on br.
func (h *HistGen) HonestBlock(br *Branch, maxTx int) *types.Block {
	used := map[string]bool{}
	var txs []interfaces.Transaction
	for k := h.R.Intn(maxTx + 1); k > 0; k-- {
		if tx := h.Transfer(br, used); tx != nil {
			txs = append(txs, tx)
		}
	}
	// the same transaction mined on both sides of a fork: a transfer already mined in another block of this
	// history whose inputs are all unspent (and mature) on this branch goes in again
	if len(h.mined) > 0 && h.R.Chance(45) {
		onBr := map[string]bool{}
		for _, b := range br.Blocks {
			for _, tx := range b.Transactions {
				onBr[ID(tx.Hash())] = true
			}
		}
		avail := map[string]bool{}
		for _, c := range h.spendable(br) {
			avail[fmt.Sprintf("%s:%d", c.ID, c.Idx)] = true
		}
		for try := 0; try < 4; try++ {
			tx := h.mined[h.R.Intn(len(h.mined))]
			if onBr[ID(tx.Hash())] {
				continue
			}
			ok := true
			for _, in := range tx.Inputs() {
				k := fmt.Sprintf("%s:%d", ID(in.Previous.TxID), in.Previous.Index)
				if !avail[k] || used[k] {
					ok = false
				}
			}
			if !ok {
				continue
			}
			for _, in := range tx.Inputs() {
				used[fmt.Sprintf("%s:%d", ID(in.Previous.TxID), in.Previous.Index)] = true
			}
			onBr[ID(tx.Hash())] = true
			txs = append(txs, tx)
			break
		}
	}
	for _, tx := range txs {
		known := false
		for _, m := range h.mined {
			if m.Hash() == tx.Hash() {
				known = true
			}
		}
		if !known {
			h.mined = append(h.mined, tx)
		}
	}
	return h.Block(br, txs)
}

// Deliver emits the op and returns (reply, tip id).
func (h *HistGen) Deliver(b *types.Block) (string, string) {
	var out string
	if h.S.Retarget {
		out = h.Emit("deliverw %d %x %s", b.Timestamp, b.Bits, h.S.N.Describe(b))
	} else if h.WithConfirm {
		out = h.Emit("deliverc %s", h.S.N.Describe(b))
	} else {
		out = h.Emit("deliver %s", h.S.N.Describe(b))
	}
	f := strings.Fields(out)
	for _, tx := range b.Transactions {
		h.Watch = append(h.Watch, ID(tx.Hash()))
		if !tx.IsCoinBaseTx() {
			for _, in := range tx.Inputs() {
				h.Watch = append(h.Watch, ID(in.Previous.TxID))
			}
		}
	}
	if len(f) == 3 {
		return f[0], f[2]
	}
	return out, ""
}

// Extend returns br plus block b.
func Extend(br *Branch, b *types.Block) *Branch {
	nb := &Branch{Blocks: append(append([]*types.Block{}, br.Blocks...), b)}
	return nb
}

// Fork returns the first n blocks of br.
func Fork(br *Branch, n int) *Branch {
	return &Branch{Blocks: append([]*types.Block{}, br.Blocks[:n]...)}
}

// Observe emits an `obs` of the tip, the pool (when pool is set), every account and the watched
// transactions (the most recent `last`).
func (h *HistGen) Observe(pool bool, last int) {
	seen := map[string]bool{}
	var keys []string
	w := h.Watch
	if len(w) > last {
		w = w[len(w)-last:]
	}
	for _, id := range w {
		if !seen[id] {
			seen[id] = true
			keys = append(keys, "u"+id, "t"+id)
		}
	}
	sort.Strings(keys)
	q := []string{"c"}
	if pool {
		q = append(q, "p")
	}
	for a := 0; a <= NumUsers; a++ {
		q = append(q, fmt.Sprintf("a%x", a), fmt.Sprintf("b%x", a))
	}
	h.Emit("obs %s", strings.Join(append(q, keys...), " "))
}
