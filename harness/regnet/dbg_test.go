package regnet

import (
	"os"
	"testing"

	elalog "github.com/elastos/Elastos.ELA/common/log"
)

func TestDbg(t *testing.T) {
	dir, _ := os.MkdirTemp("", "regnet")
	defer os.RemoveAll(dir)
	elalog.NewDefault(dir+"/logs", 255, 0, 0)
	n, _ := NewNode(dir+"/n", Options{CoinbaseMaturity: 2})
	defer n.Close()
	b1, _ := n.Mine(n.Genesis, nil)
	t.Log(n.Deliver(b1))
	bad, _ := n.Mine(b1, nil, MineOpts{ExtraReward: 252})
	t.Log("bad on tip:")
	t.Log(n.Deliver(bad))
	// side branch with the bad block in the middle
	c1, _ := n.Mine(n.Genesis, nil)
	c2, _ := n.Mine(c1, nil, MineOpts{ExtraReward: 252})
	c3, _ := n.Mine(c2, nil)
	t.Log(n.Deliver(c1))
	t.Log(n.Deliver(c2))
	t.Log(n.Deliver(c3))
	h, ht := n.Tip()
	t.Log("tip", ht, ID(h), "c3", ID(c3.Hash()))
}
