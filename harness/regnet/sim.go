package regnet

import (
	"encoding/hex"
	"fmt"
	"os"
	"path/filepath"
	"sort"
	"strconv"
	"strings"
	"time"

	"github.com/elastos/Elastos.ELA/blockchain"
	"github.com/elastos/Elastos.ELA/common"
	"github.com/elastos/Elastos.ELA/common/config"
	"github.com/elastos/Elastos.ELA/core/types"
	"github.com/elastos/Elastos.ELA/core/types/interfaces"
	"github.com/elastos/Elastos.ELA/core/types/payload"
	"github.com/elastos/Elastos.ELA/dpos/state"
)

// Sim is the adapter behind the node-level harnesses (C06, C12, C14, C30):
// it executes the line protocol of lean/Driver/NodeSim.lean on the real node.
//
//	reset
//	init <reward> <maturity> <minFee> <guardFrom> <checkRewardFrom> <genesis block>
//	deliver <block>      → main|side|orphan|err <tipHeight> <tipId>
//	deliverw <timestamp> <bits> <block>   (same, header time and difficulty given explicitly)
//	deliverc <block>     (same as deliver, with a dummy non-nil block confirmation; POW consensus mode only)
//	submit <tx>          → ok | err
//	irr <lih> <dpos> <revertStart>
//	restart              close and reopen the node on its data directory → ok <tipHeight> <tipId>
//	obs <q>*             u<txid> a<addr> b<addr> (Ledger.GetAmount) t<txid> p c h
type Sim struct {
	N        *Node
	Maturity uint32
	// GuardFrom is written into CRCOnlyDPOSHeight (the irreversibility guard of
	// connectBestChain is off at or below it); 0 keeps the RegNet value.
	GuardFrom uint32
	Name      string
	// Retarget: PowLimitBits 0x2000ffff, TargetTimespan 10 s, TargetTimePerBlock 1 s (a difficulty
	// retarget every 10 blocks, so blocks can carry different work); blocks then travel as
	// `deliverw <timestamp> <bits> <block>`.
	Retarget bool
	// OwnArbiter makes account 0 the only origin arbiter (always on duty), so that side-chain mining
	// proofs (SideChainPow transactions) can be signed by the harness.
	OwnArbiter bool
	// CRAssets makes account 4 the CR assets address and account 3 the CR expenses address (ops `appr`, `ctx`).
	CRAssets bool
	dir      string
	seq      int
	// LastErr is the error text of the last deliver/submit (for oracles and debugging).
	LastErr string
	LastTx  interfaces.Transaction // the transaction of the last `ctx` op
}

func short(h common.Uint256) string {
	v, _ := strconv.ParseUint(ID(h), 16, 64)
	return strconv.FormatUint(v, 16)
}

func tmpBase() string {
	d := os.Getenv("TMPDIR")
	if d == "" {
		d = "/var/tmp"
	}
	return d
}

// Close removes the current node.
func (s *Sim) Close() {
	if s.N != nil {
		s.N.Close()
		os.RemoveAll(s.dir)
		s.N = nil
	}
}

func (s *Sim) options() Options {
	return Options{CoinbaseMaturity: s.Maturity, Tweak: func(p *config.Configuration) {
		if s.GuardFrom != 0 {
			p.CRCOnlyDPOSHeight = s.GuardFrom
		}
		if s.OwnArbiter {
			ac, _ := accountFor(0)
			pk, _ := ac.PublicKey.EncodePoint(true)
			p.DPoSConfiguration.OriginArbiters = []string{hex.EncodeToString(pk)}
		}
		if s.CRAssets {
			// the CR assets / CR expenses addresses are configuration: give them to accounts 4 and 3, so that a
			// "CR assets" coin can also be spent by an ordinary signed transfer
			a4, _ := accountFor(4)
			a3, _ := accountFor(3)
			h4, h3 := a4.ProgramHash, a3.ProgramHash
			p.CRConfiguration.CRAssetsProgramHash = &h4
			p.CRConfiguration.CRExpensesProgramHash = &h3
		}
		if s.Retarget {
			p.PowConfiguration.PowLimitBits = 0x2000ffff
			p.PowConfiguration.TargetTimespan = 10 * time.Second
			p.PowConfiguration.TargetTimePerBlock = 1 * time.Second
		}
	}}
}

func (s *Sim) reset() {
	s.Close()
	s.seq++
	s.dir = filepath.Join(tmpBase(), fmt.Sprintf("%s-%d-%d", s.Name, os.Getpid(), s.seq))
	os.RemoveAll(s.dir)
	n, err := NewNode(s.dir, s.options())
	if err != nil {
		panic("harness: new node: " + err.Error())
	}
	s.N = n
}

// InitLine is the `init` op for the current node.
func (s *Sim) InitLine() string {
	p := s.N.Params
	return fmt.Sprintf("init %d %d %d %d %d %s", int64(p.PowConfiguration.RewardPerBlock), p.PowConfiguration.CoinbaseMaturity,
		int64(p.MinTransactionFee), p.CRCOnlyDPOSHeight, p.CheckRewardHeight, s.N.Describe(s.N.Genesis))
}

// TipLine is "<height> <id>" of the active tip.
func (s *Sim) TipLine() string {
	h, ht := s.N.Tip()
	return fmt.Sprintf("%d %s", ht, short(h))
}

func (s *Sim) obs1(q string) string {
	n := s.N
	ff := n.Store.GetFFLDB()
	k, id := q[0], q[1:]
	switch k {
	case 'p':
		var ids []uint64
		for _, tx := range n.Pool.GetTxsInPool() {
			v, _ := strconv.ParseUint(ID(tx.Hash()), 16, 64)
			ids = append(ids, v)
		}
		sort.Slice(ids, func(i, j int) bool { return ids[i] < ids[j] })
		if len(ids) == 0 {
			return "-"
		}
		ss := make([]string, len(ids))
		for i, v := range ids {
			ss[i] = strconv.FormatUint(v, 16)
		}
		return strings.Join(ss, ",")
	case 'c':
		h, ht := n.Tip()
		return fmt.Sprintf("%d:%s", ht, short(h))
	case 'h':
		ch := n.ActiveChain()
		if len(ch) <= 1 {
			return "-"
		}
		ss := make([]string, 0, len(ch))
		for _, h := range ch[1:] {
			ss = append(ss, short(h))
		}
		return strings.Join(ss, ",")
	case 'u':
		var h common.Uint256
		if tx := n.TxByID(id); tx != nil {
			h = tx.Hash()
		} else {
			h = PadHash(id)
		}
		l, err := ff.GetUnspent(h)
		if err != nil {
			return "err"
		}
		if len(l) == 0 {
			return "-"
		}
		sort.Slice(l, func(i, j int) bool { return l[i] < l[j] })
		ss := make([]string, len(l))
		for i, x := range l {
			ss[i] = strconv.Itoa(int(x))
		}
		return strings.Join(ss, ",")
	case 'a':
		no, _ := strconv.ParseInt(id, 16, 64)
		us, err := n.UTXOs(int(no))
		if err != nil {
			return "err"
		}
		if len(us) == 0 {
			return "-"
		}
		ss := make([]string, len(us))
		for i, u := range us {
			ss[i] = fmt.Sprintf("%s:%d:%d", short(u.TxID), u.Index, int64(u.Value))
		}
		return strings.Join(ss, ",")
	case 'b': // Ledger.GetAmount
		no, _ := strconv.ParseInt(id, 16, 64)
		v, err := blockchain.DefaultLedger.GetAmount(n.Addr(int(no)))
		if err != nil {
			return "err"
		}
		return strconv.FormatInt(int64(v), 10)
	case 't':
		tx := n.TxByID(id)
		if tx == nil {
			return "none"
		}
		_, h, err := ff.GetTransaction(tx.Hash())
		if err != nil {
			return "none"
		}
		return strconv.Itoa(int(h))
	}
	return "bad"
}

// errChain renders an error with the errors nested inside it (elaerr.ELAError.InnerError).
func errChain(err error) string {
	msg := err.Error()
	for i := 0; i < 6; i++ {
		ee, ok := err.(interface{ InnerError() error })
		if !ok || ee.InnerError() == nil {
			break
		}
		err = ee.InnerError()
		msg += " <- " + err.Error()
	}
	return msg
}

// Exec runs one op line on the real node.
func (s *Sim) Exec(t []string) string {
	s.LastErr = ""
	switch t[0] {
	case "reset":
		s.reset()
		return "ok"
	case "restart":
		n, err := s.N.Reopen(s.options())
		if err != nil {
			panic("harness: restart: " + err.Error())
		}
		s.N = n
		return "ok " + s.TipLine()
	case "init":
		if strings.Join(t, " ") != s.InitLine() {
			return "bad-init"
		}
		return "ok"
	case "deliver", "deliverw", "deliverc":
		var ts, bits uint64
		rest := t[1:]
		if t[0] == "deliverw" {
			ts, _ = strconv.ParseUint(t[1], 10, 32)
			bits, _ = strconv.ParseUint(t[2], 16, 32)
			rest = t[3:]
		}
		bs, err := ParseBlock(rest)
		if err != nil {
			panic("harness: bad block spec: " + err.Error())
		}
		bs.TS, bs.Bits = uint32(ts), uint32(bits)
		blk, err := s.N.Build(bs, true)
		if err != nil {
			panic("harness: " + err.Error())
		}
		var inMain, orphan bool
		if t[0] == "deliverc" {
			// with a (dummy) block confirmation: it is ignored in POW consensus mode, the only mode the
			// generators use it in, but `confirm != nil` takes other branches of the chain code
			s.N.register(blk)
			inMain, orphan, err = s.N.Chain.ProcessBlock(blk, &payload.Confirm{Proposal: payload.DPOSProposal{BlockHash: blk.Hash()}, Votes: []payload.DPOSProposalVote{}})
		} else {
			inMain, orphan, err = s.N.Deliver(blk)
		}
		r := "side"
		switch {
		case err != nil:
			r = "err"
			s.LastErr = errChain(err)
		case orphan:
			r = "orphan"
		case inMain:
			r = "main"
		}
		return r + " " + s.TipLine()
	case "submit":
		ts, err := ParseTx(t[1:])
		if err != nil {
			panic("harness: bad tx spec: " + err.Error())
		}
		_, th := s.N.Tip()
		tx, err := s.N.BuildTx(ts, th+1)
		if err != nil {
			panic("harness: " + err.Error())
		}
		if ID(tx.Hash()) != ts.ID {
			panic("harness: tx id " + ts.ID + " rebuilt " + ID(tx.Hash()))
		}
		if err := s.N.Submit(tx); err != nil {
			s.LastErr = err.Error()
			return "err"
		}
		return "ok"
	case "reorgto": // reorgto <block id>: the exported BlockChain.ReorganizeChain on an indexed block
		blk := s.N.ByID(t[1])
		if blk == nil {
			panic("harness: reorgto: unknown block " + t[1])
		}
		res := "ok"
		if err := s.N.Chain.ReorganizeChain(blk); err != nil {
			s.LastErr = err.Error()
			res = "err"
		}
		return res + " " + s.TipLine()
	case "appr": // appr <0|1> <amount>: the committee's "appropriation needed" flag and amount (set directly, as
		// the CR election that computes them is outside the modelled era)
		c := s.N.Chain.GetCRCommittee()
		c.NeedAppropriation = t[1] != "0"
		v, _ := strconv.ParseInt(t[2], 10, 64)
		c.AppropriationAmount = common.Fixed64(v)
		return "ok"
	case "ctx": // ctx <height> <tx>: BlockChain.CheckTransactionContext at an explicit block height
		hgt, _ := strconv.Atoi(t[1])
		ts, err := ParseTx(t[2:])
		if err != nil {
			panic("harness: bad tx spec: " + err.Error())
		}
		tx, err := s.N.BuildTx(ts, uint32(hgt))
		if err != nil {
			panic("harness: " + err.Error())
		}
		if ID(tx.Hash()) != ts.ID {
			panic("harness: tx id " + ts.ID + " rebuilt " + ID(tx.Hash()))
		}
		s.LastTx = tx
		if _, cerr := s.N.Chain.CheckTransactionContext(uint32(hgt), tx, 0, 0); cerr != nil {
			s.LastErr = cerr.Error()
			return fmt.Sprintf("err %d", -int(cerr.Code()))
		}
		return "ok"
	case "irr":
		lih, _ := strconv.Atoi(t[1])
		dpos := t[2] != "0"
		rs, _ := strconv.Atoi(t[3])
		st := s.N.Chain.GetState()
		st.LastIrreversibleHeight = uint32(lih)
		if dpos {
			st.ConsensusAlgorithm = state.DPOS
		} else {
			st.ConsensusAlgorithm = state.POW
		}
		s.N.Params.DPoSConfiguration.RevertToPOWStartHeight = uint32(rs)
		return "ok"
	case "obs":
		out := make([]string, len(t)-1)
		for i, q := range t[1:] {
			out[i] = s.obs1(q)
		}
		return strings.Join(out, " ")
	}
	panic("harness: unknown op " + t[0])
}

// ---------------------------------------------------------------- generator helpers

// Coin is an unspent output as the harness tracks it on a branch.
type Coin struct {
	ID     string
	Idx    int
	Addr   int
	Value  int64
	Height uint32
	CB     bool
}

// Branch is the harness' own view of one chain of blocks (tip last) — used only
// to pick inputs and parents, never as an expected value.
type Branch struct {
	Blocks []*types.Block
}

// Coins replays the branch (plus genesis) into the list of unspent outputs.
func (s *Sim) Coins(br *Branch) []Coin {
	var cs []Coin
	all := append([]*types.Block{s.N.Genesis}, br.Blocks...)
	for _, b := range all {
		for _, tx := range b.Transactions {
			if !tx.IsCoinBaseTx() {
				for _, in := range tx.Inputs() {
					id := ID(in.Previous.TxID)
					for k := range cs {
						if cs[k].ID == id && cs[k].Idx == int(in.Previous.Index) {
							cs = append(cs[:k], cs[k+1:]...)
							break
						}
					}
				}
			}
			for i, o := range tx.Outputs() {
				cs = append(cs, Coin{ID(tx.Hash()), i, s.N.AddrNo(o.ProgramHash), int64(o.Value), b.Height, tx.IsCoinBaseTx()})
			}
		}
	}
	return cs
}

// Tip returns the last block of the branch (genesis when empty).
func (s *Sim) BranchTip(br *Branch) *types.Block {
	if len(br.Blocks) == 0 {
		return s.N.Genesis
	}
	return br.Blocks[len(br.Blocks)-1]
}
