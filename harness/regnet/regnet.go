// Package regnet is a node-in-a-process: the real chain store (ffldb in a
// temporary directory), the real BlockChain, DPoS/CR state, ledger and
// transaction pool of /repo, wired the way main.go and
// benchmark/tools/generator/chain do it, on RegNet parameters with
// PowLimitBits 0x207fffff (every block has the same work, "more work" =
// "longer").
//
// Differences from a running node (all deliberate, see notes/regnet.md):
//   - no network, no RPC, no DPoS arbitrator; heights stay below every DPoS
//     activation height, so blocks are pure (merge-mined) PoW blocks;
//   - the foundation address is a key the harness owns, so the genesis coins
//     can be spent;
//   - blocks are assembled on an EXPLICIT parent (not on the tip), with a
//     deterministic coinbase nonce and deterministic timestamps, so forks,
//     orphans and invalid blocks can be built and delivered in any order and
//     every block/tx hash is a function of the op sequence only;
//   - the netsync event handler that keeps the mempool in step with the chain
//     (elanet/netsync/manager.go handleBlockchainEvents) is mirrored here.
//
// Only one Node may be live per process (blockchain.DefaultLedger and
// blockchain.FoundationAddress are package globals of /repo).
package regnet

import (
	"bytes"
	"crypto/sha256"
	"encoding/binary"
	"encoding/hex"
	"errors"
	"fmt"
	"math/big"
	"os"
	"path/filepath"
	"sort"
	"time"

	"github.com/elastos/Elastos.ELA/account"
	"github.com/elastos/Elastos.ELA/auxpow"
	"github.com/elastos/Elastos.ELA/blockchain"
	"github.com/elastos/Elastos.ELA/common"
	"github.com/elastos/Elastos.ELA/common/config"
	"github.com/elastos/Elastos.ELA/core"
	"github.com/elastos/Elastos.ELA/core/checkpoint"
	"github.com/elastos/Elastos.ELA/core/contract/program"
	"github.com/elastos/Elastos.ELA/core/transaction"
	"github.com/elastos/Elastos.ELA/core/types"
	ctypes "github.com/elastos/Elastos.ELA/core/types/common"
	"github.com/elastos/Elastos.ELA/core/types/functions"
	"github.com/elastos/Elastos.ELA/core/types/interfaces"
	"github.com/elastos/Elastos.ELA/core/types/outputpayload"
	"github.com/elastos/Elastos.ELA/core/types/payload"
	crstate "github.com/elastos/Elastos.ELA/cr/state"
	"github.com/elastos/Elastos.ELA/crypto"
	"github.com/elastos/Elastos.ELA/dpos/state"
	"github.com/elastos/Elastos.ELA/events"
	"github.com/elastos/Elastos.ELA/mempool"
	"github.com/elastos/Elastos.ELA/pow"
)

// NumUsers is the number of ordinary accounts (Accounts[1..NumUsers]);
// Accounts[0] is the foundation account that owns the genesis coins.
const NumUsers = 4

// Options tune a node. The zero value is the default.
type Options struct {
	// CoinbaseMaturity overrides PowConfiguration.CoinbaseMaturity (default 100) when > 0.
	CoinbaseMaturity uint32
	// Tweak is applied to the parameters before the chain is created.
	Tweak func(p *config.Configuration)
	// NoPoolEvents disables the netsync-style mempool maintenance on
	// block connect/disconnect events.
	NoPoolEvents bool
}

// Node is one in-process regnet node.
type Node struct {
	Dir       string
	Params    *config.Configuration
	Store     blockchain.IChainStore
	Chain     *blockchain.BlockChain
	Arbiters  *state.Arbiters
	Committee *crstate.Committee
	Pool      *mempool.TxPool
	Pow       *pow.Service
	Accounts  []*account.Account // [0] foundation, [1..NumUsers] users
	Genesis   *types.Block

	blocks     map[common.Uint256]*types.Block // every block ever assembled or delivered
	byID       map[string]*types.Block         // the same, by short id
	txs        map[string]interfaces.Transaction
	nonce      uint64
	poolEvents bool
	closed     bool
}

var current *Node // the node that receives chain events
var subscribed bool

func init() {
	functions.GetTransactionByTxType = transaction.GetTransaction
	functions.GetTransactionByBytes = transaction.GetTransactionByBytes
	functions.CreateTransaction = transaction.CreateTransaction
	functions.GetTransactionParameters = transaction.GetTransactionparameters
}

// DeterministicKey derives the private key of account i (the same in every run).
func DeterministicKey(i int) []byte {
	h := sha256.Sum256([]byte(fmt.Sprintf("elaverif regnet account %d", i)))
	return h[:]
}

func accountFor(i int) (*account.Account, error) {
	return account.NewAccountWithPrivateKey(DeterministicKey(i))
}

// NewNode creates a fresh node whose data lives under dir (created; the
// caller removes it after Close).
func NewNode(dir string, opts ...Options) (*Node, error) {
	var opt Options
	if len(opts) > 0 {
		opt = opts[0]
	}
	if current != nil && !current.closed {
		current.Close()
	}
	if err := os.MkdirAll(dir, 0o755); err != nil {
		return nil, err
	}
	n := &Node{Dir: dir, blocks: map[common.Uint256]*types.Block{}, byID: map[string]*types.Block{},
		txs: map[string]interfaces.Transaction{}, poolEvents: !opt.NoPoolEvents}
	for i := 0; i <= NumUsers; i++ {
		ac, err := account.NewAccountWithPrivateKey(DeterministicKey(i))
		if err != nil {
			return nil, err
		}
		n.Accounts = append(n.Accounts, ac)
	}

	p := config.GetDefaultParams().RegNet().InstantBlock()
	p.DataDir = dir
	fa, err := n.Accounts[0].ProgramHash.ToAddress()
	if err != nil {
		return nil, err
	}
	p.FoundationAddress = fa
	ph := n.Accounts[0].ProgramHash
	p.FoundationProgramHash = &ph
	p.GenesisBlock = core.GenesisBlock(ph)
	if opt.CoinbaseMaturity > 0 {
		p.PowConfiguration.CoinbaseMaturity = opt.CoinbaseMaturity
	}
	if opt.Tweak != nil {
		opt.Tweak(p)
	}
	n.Params = p
	n.Genesis = p.GenesisBlock
	blockchain.FoundationAddress = ph

	ckp := checkpoint.NewManager(p)
	ckp.SetDataPath(filepath.Join(dir, "checkpoints"))
	ledger := &blockchain.Ledger{}
	store, err := blockchain.NewChainStore(dir, p)
	if err != nil {
		return nil, err
	}
	n.Store = store
	ledger.Store = store
	n.Pool = mempool.NewTxPool(p, ckp)
	blockchain.DefaultLedger = ledger
	committee := crstate.NewCommittee(p, ckp)
	ledger.Committee = committee
	n.Committee = committee
	arbiters, err := state.NewArbitrators(p, committee, ledger.GetAmount,
		committee.TryUpdateCRMemberInactivity,
		committee.TryRevertCRMemberInactivity,
		committee.TryUpdateCRMemberIllegal,
		committee.TryRevertCRMemberIllegal,
		committee.UpdateCRInactivePenalty,
		committee.RevertUpdateCRInactivePenalty,
		ckp)
	if err != nil {
		store.Close()
		return nil, err
	}
	ledger.Arbitrators = arbiters
	n.Arbiters = arbiters
	chain, err := blockchain.New(store, p, arbiters.State, committee, ckp)
	if err != nil {
		store.Close()
		return nil, err
	}
	if err = chain.Init(nil); err != nil {
		store.Close()
		return nil, err
	}
	if err = chain.MigrateOldDB(nil, func(uint32) {}, func() {}, dir, p); err != nil {
		store.Close()
		return nil, err
	}
	ledger.Blockchain = chain
	n.Chain = chain
	arbiters.RegisterFunction(chain.GetHeight, chain.GetBestBlockHash,
		chain.GetBlock, chain.UTXOCache.GetTxReference)
	arbiters.State.RegisterFuncitons(&state.StateFuncsConfig{
		GetHeight:      store.GetHeight,
		IsCurrent:      func() bool { return true },
		AppendToTxpool: n.Pool.AppendToTxPool,
	})
	committee.RegisterFuncitons(&crstate.CommitteeFuncsConfig{
		GetTxReference: chain.UTXOCache.GetTxReference,
		GetUTXO:        store.GetFFLDB().GetUTXO,
		GetHeight:      store.GetHeight,
		IsCurrent:      func() bool { return true },
	})
	n.Pow = pow.NewService(&pow.Config{
		PayToAddr:   fa,
		MinerInfo:   "elaverif",
		Chain:       chain,
		ChainParams: p,
		TxMemPool:   n.Pool,
		Arbitrators: arbiters,
	})
	n.register(n.Genesis)
	current = n
	if !subscribed {
		subscribed = true
		events.Subscribe(onEvent)
	}
	return n, nil
}

// onEvent mirrors elanet/netsync/manager.go handleBlockchainEvents for the
// three chain events that maintain the transaction pool.
func onEvent(e *events.Event) {
	n := current
	if n == nil || n.closed || !n.poolEvents {
		return
	}
	switch e.Type {
	case events.ETBlockProcessed:
		if _, ok := e.Data.(*types.Block); ok {
			n.Pool.CheckAndCleanAllTransactions()
		}
	case events.ETBlockConnected:
		if b, ok := e.Data.(*types.Block); ok {
			n.Pool.CleanSubmittedTransactions(b)
			n.Chain.UTXOCache.CleanTxCache()
		}
	case events.ETBlockDisconnected:
		if b, ok := e.Data.(*types.Block); ok {
			for _, tx := range b.Transactions[1:] {
				if err := n.Pool.MaybeAcceptTransaction(tx); err != nil {
					n.Pool.RemoveTransaction(tx)
				}
			}
		}
	}
}

// Reopen closes the node and starts a new one on the same data directory (a node restart: chain.Init
// reloads the block index and the indexers catch up from the stored chain). The harness-side registry of
// built blocks is carried over; the node itself forgets its side-chain block cache, orphans and pool.
func (n *Node) Reopen(opts ...Options) (*Node, error) {
	n.Close()
	m, err := NewNode(n.Dir, opts...)
	if err != nil {
		return nil, err
	}
	for k, v := range n.blocks {
		m.blocks[k] = v
	}
	for k, v := range n.byID {
		m.byID[k] = v
	}
	for k, v := range n.txs {
		m.txs[k] = v
	}
	m.nonce = n.nonce
	return m, nil
}

// Close releases the databases. The directory is left to the caller.
func (n *Node) Close() {
	if n.closed {
		return
	}
	n.closed = true
	if current == n {
		current = nil
	}
	n.Store.Close()
	// ChainStore.Close leaves the legacy leveldb ("chain/") open; a restart on the same directory needs it released
	if c, ok := n.Store.(interface{ CloseLeveldb() }); ok {
		func() {
			defer func() { recover() }()
			c.CloseLeveldb()
		}()
	}
}

// ---------------------------------------------------------------- queries

// Tip returns hash and height of the end of the active chain.
func (n *Node) Tip() (common.Uint256, uint32) {
	bc := n.Chain.GetBestChain()
	return *bc.Hash, bc.Height
}

// Block returns a block this node has assembled or been given, by hash.
func (n *Node) Block(h common.Uint256) *types.Block { return n.blocks[h] }

// ActiveChain returns the hashes of the active chain, genesis first
// (as answered by the real chain: GetBlockHash for each height).
func (n *Node) ActiveChain() []common.Uint256 {
	_, h := n.Tip()
	res := make([]common.Uint256, 0, h+1)
	for i := uint32(0); i <= h; i++ {
		x, err := n.Chain.GetBlockHash(i)
		if err != nil {
			break
		}
		res = append(res, x)
	}
	return res
}

// Addr returns the program hash of account i.
func (n *Node) Addr(i int) common.Uint168 { return n.Accounts[i].ProgramHash }

// UTXOs returns the per-address index's answer for account i, sorted by (txid, index).
func (n *Node) UTXOs(i int) ([]*ctypes.UTXO, error) {
	ph := n.Addr(i)
	us, err := n.Store.GetFFLDB().GetUTXO(&ph)
	if err != nil {
		return nil, err
	}
	sort.Slice(us, func(a, b int) bool {
		if c := bytes.Compare(us[a].TxID[:], us[b].TxID[:]); c != 0 {
			return c < 0
		}
		return us[a].Index < us[b].Index
	})
	return us, nil
}

// ---------------------------------------------------------------- transactions

// Out is one output of a transfer.
type Out struct {
	To    int // account index
	Value common.Fixed64
}

// Transfer builds and signs a TransferAsset transaction spending the given
// outpoints (all owned by account `from`) into outs. Nothing is checked here:
// the caller decides amounts/fee, so invalid transactions can be built too.
// nonce makes otherwise identical transactions distinct.
func (n *Node) Transfer(from int, ins []ctypes.OutPoint, outs []Out, nonce uint64) (interfaces.Transaction, error) {
	nb := make([]byte, 8)
	binary.BigEndian.PutUint64(nb, nonce)
	var inputs []*ctypes.Input
	for _, op := range ins {
		inputs = append(inputs, &ctypes.Input{Previous: op, Sequence: 0})
	}
	var outputs []*ctypes.Output
	for _, o := range outs {
		outputs = append(outputs, &ctypes.Output{
			AssetID:     core.ELAAssetID,
			Value:       o.Value,
			OutputLock:  0,
			ProgramHash: n.Addr(o.To),
			Type:        ctypes.OTNone,
			Payload:     &outputpayload.DefaultOutput{},
		})
	}
	tx := functions.CreateTransaction(
		ctypes.TxVersion09, ctypes.TransferAsset, 0, &payload.TransferAsset{},
		[]*ctypes.Attribute{{Usage: ctypes.Nonce, Data: nb}},
		inputs, outputs, 0, nil)
	if err := n.Sign(tx, from); err != nil {
		return nil, err
	}
	return tx, nil
}

// Sign signs tx with the standard single-signature program of account i.
func (n *Node) Sign(tx interfaces.Transaction, i int) error {
	ac := n.Accounts[i]
	pg := &program.Program{Code: ac.RedeemScript}
	pg, err := account.SignStandardTransaction(tx, pg,
		map[common.Uint160]*account.Account{ac.ProgramHash.ToCodeHash(): ac})
	if err != nil {
		return err
	}
	tx.SetPrograms([]*program.Program{pg})
	return nil
}

// Submit offers a transaction to the real transaction pool.
func (n *Node) Submit(tx interfaces.Transaction) error {
	if e := n.Pool.AppendToTxPoolWithoutEvent(tx); e != nil {
		return e
	}
	return nil
}

// ---------------------------------------------------------------- blocks

// MineOpts modify block assembly (to build invalid blocks on purpose).
type MineOpts struct {
	// ExtraReward is added to the foundation's coinbase output (> 0 ⇒ the block
	// fails the coinbase amount check when it is connected, but passes the
	// context-free sanity checks, which only want the foundation share ≥ 30 %).
	ExtraReward common.Fixed64
	// Miner is the account that receives the miner output (default 0).
	Miner int
	// Timestamp overrides the block time (default: genesis time + height).
	Timestamp uint32
	// CoinbaseOf: the block carries a byte-identical copy of that block's coinbase (same nonce attribute,
	// same lock time), i.e. a transaction hash that is already on the chain if that block is.
	CoinbaseOf *types.Block
}

// Mine assembles and solves a block on the explicit parent. It does NOT
// deliver it. txs go in as given (no validation, no sorting). The block is
// built the canonical way, so Build(Describe(b)) reproduces it exactly.
func (n *Node) Mine(parent *types.Block, txs []interfaces.Transaction, o ...MineOpts) (*types.Block, error) {
	var opt MineOpts
	if len(o) > 0 {
		opt = o[0]
	}
	if parent == nil {
		return nil, errors.New("regnet: nil parent")
	}
	height := parent.Height + 1
	n.nonce++
	nb := make([]byte, 8)
	binary.BigEndian.PutUint64(nb, n.nonce)
	cbSpec := &TxSpec{Kind: "cb", Nonce: hex.EncodeToString(nb),
		Outs: []OutSpec{{Addr: 0, Value: 0, Pay: "-"}, {Addr: opt.Miner, Value: 0, Pay: "-"}}}
	if opt.CoinbaseOf != nil {
		old := opt.CoinbaseOf.Transactions[0]
		for _, a := range old.Attributes() {
			if a.Usage == ctypes.Nonce {
				cbSpec.Nonce = hex.EncodeToString(a.Data)
			}
		}
		cbSpec.PDatas = []string{fmt.Sprintf("%08x", old.LockTime())}
		cbSpec.Outs[1].Addr = n.AddrNo(old.Outputs()[1].ProgramHash)
	}
	cb, err := n.BuildTx(cbSpec, height)
	if err != nil {
		return nil, err
	}
	blk := &types.Block{
		Header: ctypes.Header{
			Version:    0,
			Previous:   parent.Hash(),
			MerkleRoot: common.EmptyHash,
			Timestamp:  n.Genesis.Timestamp + height,
			Bits:       n.NextBits(parent),
			Height:     height,
			Nonce:      0,
		},
		Transactions: []interfaces.Transaction{cb},
	}
	if opt.Timestamp != 0 {
		blk.Header.Timestamp = opt.Timestamp
	}
	fee := common.Fixed64(0)
	for _, tx := range txs {
		blk.Transactions = append(blk.Transactions, tx)
		fee += n.feeOf(tx)
	}
	if err := n.Pow.AssignCoinbaseTxRewards(blk, fee+n.Params.GetBlockReward(height)); err != nil {
		return nil, err
	}
	if opt.ExtraReward != 0 {
		blk.Transactions[0].Outputs()[0].Value += opt.ExtraReward
	}
	hashes := make([]common.Uint256, 0, len(blk.Transactions))
	for _, tx := range blk.Transactions {
		hashes = append(hashes, tx.Hash())
	}
	root, err := crypto.ComputeRoot(hashes)
	if err != nil {
		return nil, err
	}
	blk.Header.MerkleRoot = root
	if !solve(blk) {
		return nil, errors.New("regnet: could not solve block")
	}
	n.register(blk)
	return blk, nil
}

// NextBits is the difficulty a block on top of parent must carry (the rule of
// BlockChain.CalcNextRequiredDifficulty, computed over the blocks this node has built, so it
// also works on branches that were never delivered).
func (n *Node) NextBits(parent *types.Block) uint32 {
	pc := n.Params.PowConfiguration
	if parent.Height == 0 || pc.PowLimitBits == 0x207fffff {
		return pc.PowLimitBits
	}
	per := uint32(pc.TargetTimespan / pc.TargetTimePerBlock)
	if (parent.Height+1)%per != 0 {
		return parent.Bits
	}
	first := parent
	for first != nil && first.Height != parent.Height-per+1 {
		first = n.blocks[first.Header.Previous]
	}
	if first == nil {
		return parent.Bits
	}
	target := int64(pc.TargetTimespan / time.Second)
	adj := int64(pc.AdjustmentFactor)
	span := int64(parent.Timestamp) - int64(first.Timestamp)
	if span < target/adj {
		span = target / adj
	} else if span > target*adj {
		span = target * adj
	}
	t := new(big.Int).Mul(blockchain.CompactToBig(parent.Bits), big.NewInt(span))
	t.Div(t, big.NewInt(target))
	if t.Cmp(pc.PowLimit) > 0 {
		t.Set(pc.PowLimit)
	}
	return blockchain.BigToCompact(t)
}

// feeOf computes inputs−outputs of tx from the blocks this node knows about
// (assembled blocks included, so chains of transactions on a side branch work).
// Unknown inputs count as 0.
func (n *Node) feeOf(tx interfaces.Transaction) common.Fixed64 {
	var in, out common.Fixed64
	for _, i := range tx.Inputs() {
		in += n.lookupOutputValue(i.Previous)
	}
	for _, o := range tx.Outputs() {
		out += o.Value
	}
	return in - out
}

func (n *Node) lookupOutputValue(op ctypes.OutPoint) common.Fixed64 {
	if tx, ok := n.txs[ID(op.TxID)]; ok && int(op.Index) < len(tx.Outputs()) {
		return tx.Outputs()[op.Index].Value
	}
	return 0
}

// solve fakes the merge-mining proof exactly as pow.Service.SolveBlock does,
// without its wall-clock ticker.
func solve(blk *types.Block) bool {
	ap := auxpow.GenerateAuxPow(blk.Hash())
	ap.ParBlockHeader.Timestamp = blk.Timestamp // deterministic (GenerateAuxPow uses time.Now)
	target := blockchain.CompactToBig(blk.Header.Bits)
	for i := uint32(0); i < 1<<24; i++ {
		ap.ParBlockHeader.Nonce = i
		h := ap.ParBlockHeader.Hash()
		if blockchain.HashToBig(&h).Cmp(target) <= 0 {
			blk.Header.AuxPow = *ap
			return true
		}
	}
	return false
}

// Deliver hands a block to the real BlockChain.ProcessBlock.
func (n *Node) Deliver(b *types.Block) (inMainChain, isOrphan bool, err error) {
	n.register(b)
	return n.Chain.ProcessBlock(b, nil)
}
