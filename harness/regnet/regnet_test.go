package regnet

import (
	"github.com/elastos/Elastos.ELA/core/types"
	"os"
	"strings"
	"testing"

	elalog "github.com/elastos/Elastos.ELA/common/log"
	ctypes "github.com/elastos/Elastos.ELA/core/types/common"
	"github.com/elastos/Elastos.ELA/core/types/interfaces"
)

func TestSmoke(t *testing.T) {
	dir, _ := os.MkdirTemp("", "regnet")
	defer os.RemoveAll(dir)
	elalog.NewDefault(dir+"/logs", 255, 0, 0)
	n, err := NewNode(dir+"/n", Options{CoinbaseMaturity: 2})
	if err != nil {
		t.Fatal(err)
	}
	defer n.Close()
	g := n.Genesis
	for i := 0; i < 2; i++ {
		b, err := n.Mine(g, nil)
		if err != nil {
			t.Fatal(err)
		}
		if in, _, err := n.Deliver(b); err != nil || !in {
			t.Fatal("warm-up", err)
		}
		g = b
	}
	gtx0 := n.Genesis.Transactions[0]
	// spend the genesis coin
	gtx := gtx0
	tx, err := n.Transfer(0, []ctypes.OutPoint{{TxID: gtx.Hash(), Index: 0}},
		[]Out{{1, 1000000000}, {2, 2000000000}, {0, gtx.Outputs()[0].Value - 3000000000 - 10000}}, 1)
	if err != nil {
		t.Fatal(err)
	}
	if err := n.Submit(tx); err != nil {
		t.Fatal("submit:", err)
	}
	b1, err := n.Mine(g, []interfaces.Transaction{tx})
	if err != nil {
		t.Fatal(err)
	}
	in, orphan, err := n.Deliver(b1)
	t.Log("b1", in, orphan, err)
	if err != nil || !in {
		t.Fatal("b1 not connected")
	}
	if n.Pool.GetTransactionCount() != 0 {
		t.Fatal("pool not cleaned")
	}
	us, _ := n.UTXOs(1)
	if len(us) != 1 || us[0].Value != 1000000000 {
		t.Fatal("utxo index wrong", us)
	}
	// fork: a2 on b1, then c1,c2,c3 on genesis (heavier) -> reorg
	a2, _ := n.Mine(b1, nil)
	in, orphan, err = n.Deliver(a2)
	t.Log("a2", in, orphan, err)
	c1, _ := n.Mine(g, nil)
	c2, _ := n.Mine(c1, nil)
	c3, _ := n.Mine(c2, nil)
	// deliver out of order: c2 (orphan), c1, c3
	in, orphan, err = n.Deliver(c2)
	t.Log("c2", in, orphan, err)
	in, orphan, err = n.Deliver(c1)
	t.Log("c1", in, orphan, err)
	_, h := n.Tip()
	t.Log("tip height", h)
	in, orphan, err = n.Deliver(c3)
	t.Log("c3", in, orphan, err)
	th, h := n.Tip()
	if th != c3.Hash() || h != 5 {
		t.Fatal("no reorg", h)
	}
	us, _ = n.UTXOs(1)
	if len(us) != 0 {
		t.Fatal("utxo index not rolled back", us)
	}
	t.Log("pool after reorg", n.Pool.GetTransactionCount())
}

func TestRebuild(t *testing.T) {
	dir, _ := os.MkdirTemp("", "regnet")
	defer os.RemoveAll(dir)
	elalog.NewDefault(dir+"/logs", 255, 0, 0)
	n, err := NewNode(dir+"/n", Options{CoinbaseMaturity: 1})
	if err != nil {
		t.Fatal(err)
	}
	defer n.Close()
	b1, _ := n.Mine(n.Genesis, nil)
	gtx := n.Genesis.Transactions[0]
	tx, _ := n.Transfer(0, []ctypes.OutPoint{{TxID: gtx.Hash(), Index: 0}}, []Out{{1, 5}, {0, gtx.Outputs()[0].Value - 105}}, 9)
	b2, _ := n.Mine(b1, []interfaces.Transaction{tx})
	for _, b := range []*types.Block{b1, b2} {
		d := n.Describe(b)
		bs, err := ParseBlock(strings.Fields(d))
		if err != nil {
			t.Fatal(err, d)
		}
		if _, err := n.Build(bs, true); err != nil {
			t.Fatal(err, d)
		}
		if in, _, err := n.Deliver(n.ByID(bs.ID)); err != nil || !in {
			t.Fatal("deliver rebuilt", err)
		}
	}
}
