package regnet

import (
	"bytes"
	"encoding/hex"
	"errors"
	"fmt"
	"github.com/elastos/Elastos.ELA/core/contract"
	"math"
	"sort"
	"strconv"
	"strings"

	"github.com/elastos/Elastos.ELA/account"
	"github.com/elastos/Elastos.ELA/common"
	"github.com/elastos/Elastos.ELA/core"
	"github.com/elastos/Elastos.ELA/core/contract/program"
	"github.com/elastos/Elastos.ELA/core/types"
	ctypes "github.com/elastos/Elastos.ELA/core/types/common"
	"github.com/elastos/Elastos.ELA/core/types/functions"
	"github.com/elastos/Elastos.ELA/core/types/interfaces"
	"github.com/elastos/Elastos.ELA/core/types/outputpayload"
	"github.com/elastos/Elastos.ELA/core/types/payload"
	"github.com/elastos/Elastos.ELA/crypto"
)

// A block travels in op lines as a complete *specification* (see Describe);
// Build turns the specification back into the real block, deterministically,
// and checks that every id in it is the real hash. So an op file is
// self-contained: replaying it rebuilds byte-identical blocks.

type InSpec struct {
	TxID  string // short id
	Index uint16
}
type OutSpec struct {
	Addr  int
	Value int64
	Pay   string // "-", "W<id>", "R<id>"
}
type TxSpec struct {
	ID      string
	Kind    string // cb ra wd rd pp rv tk sp rc xc ot
	PVer    byte
	Nonce   string // hex of the Nonce attribute ("-" = no attribute)
	Ins     []InSpec
	Outs    []OutSpec
	PHashes []string
	PDatas  []string
}
type BlockSpec struct {
	ID, Prev string
	Height   uint32
	Txs      []TxSpec
	// TS / Bits override the default header time (genesis + height) and difficulty (PowLimitBits);
	// they travel outside the block specification (op `deliverw <ts> <bits> <block>`).
	TS, Bits uint32
}

// PadHash is the full hash of a harness-chosen short id (id bytes, zero padded).
func PadHash(id string) common.Uint256 {
	var h common.Uint256
	b, _ := hex.DecodeString(id)
	copy(h[:], b)
	return h
}

type tokReader struct {
	t   []string
	err error
}

func (r *tokReader) next() string {
	if len(r.t) == 0 {
		r.err = errors.New("short op")
		return ""
	}
	x := r.t[0]
	r.t = r.t[1:]
	return x
}
func (r *tokReader) num() int {
	v, err := strconv.ParseInt(r.next(), 10, 64)
	if err != nil {
		r.err = err
	}
	return int(v)
}

// ParseBlock parses `id prev height ntx {tx}` (the tokens after the op name).
func ParseBlock(toks []string) (*BlockSpec, error) {
	r := &tokReader{t: toks}
	bs := &BlockSpec{ID: r.next(), Prev: r.next()}
	bs.Height = uint32(r.num())
	ntx := r.num()
	for i := 0; i < ntx && r.err == nil; i++ {
		tx, err := parseTx(r)
		if err != nil {
			return nil, err
		}
		bs.Txs = append(bs.Txs, *tx)
	}
	if r.err != nil {
		return nil, r.err
	}
	if len(r.t) != 0 {
		return nil, errors.New("trailing tokens")
	}
	return bs, nil
}

// ParseTx parses one transaction specification (all tokens must be consumed).
func ParseTx(toks []string) (*TxSpec, error) {
	r := &tokReader{t: toks}
	tx, err := parseTx(r)
	if err != nil {
		return nil, err
	}
	if r.err != nil {
		return nil, r.err
	}
	if len(r.t) != 0 {
		return nil, errors.New("trailing tokens")
	}
	return tx, nil
}

func parseTx(r *tokReader) (*TxSpec, error) {
	tx := &TxSpec{ID: r.next(), Kind: r.next()}
	tx.PVer = byte(r.num())
	tx.Nonce = r.next()
	nin := r.num()
	for j := 0; j < nin && r.err == nil; j++ {
		p := strings.Split(r.next(), ":")
		if len(p) != 2 {
			return nil, errors.New("bad input")
		}
		ix, err := strconv.ParseUint(p[1], 10, 16)
		if err != nil {
			return nil, err
		}
		tx.Ins = append(tx.Ins, InSpec{p[0], uint16(ix)})
	}
	nout := r.num()
	for j := 0; j < nout && r.err == nil; j++ {
		p := strings.Split(r.next(), ":")
		if len(p) != 3 {
			return nil, errors.New("bad output")
		}
		a, err1 := strconv.Atoi(p[0])
		v, err2 := strconv.ParseInt(p[1], 10, 64)
		if err1 != nil || err2 != nil {
			return nil, errors.New("bad output")
		}
		tx.Outs = append(tx.Outs, OutSpec{a, v, p[2]})
	}
	nph := r.num()
	for j := 0; j < nph && r.err == nil; j++ {
		tx.PHashes = append(tx.PHashes, r.next())
	}
	npd := r.num()
	for j := 0; j < npd && r.err == nil; j++ {
		tx.PDatas = append(tx.PDatas, r.next())
	}
	return tx, r.err
}

func unhexData(s string) []byte {
	if s == "-" {
		return nil
	}
	b, _ := hex.DecodeString(s)
	return b
}

func (n *Node) addrOf(no int) common.Uint168 {
	if no >= 0 && no < len(n.Accounts) {
		return n.Accounts[no].ProgramHash
	}
	var ph common.Uint168
	if no >= 900 && no < 1000 { // cross-chain ("X") address
		ph[0] = byte(contract.PrefixCrossChain)
		ph[1] = byte(no - 900)
		return ph
	}
	ph[0] = 0x21
	ph[1], ph[2], ph[3] = byte((no-1000)>>16), byte((no-1000)>>8), byte(no-1000)
	return ph
}

// fullTx resolves a short tx id (registered transaction, else zero padded).
func (n *Node) fullTx(id string) common.Uint256 {
	if tx, ok := n.txs[id]; ok {
		return tx.Hash()
	}
	return PadHash(id)
}

// BuildTx turns a transaction specification into the real transaction
// (canonical construction: tx version 09 except coinbase/register-asset,
// one Nonce attribute, lock time 0 / height for a coinbase; `ot` transactions
// are signed by the owner(s) of their inputs when the harness owns the key).
func (n *Node) BuildTx(ts *TxSpec, height uint32) (interfaces.Transaction, error) {
	var attrs []*ctypes.Attribute
	if ts.Nonce != "-" {
		a := ctypes.NewAttribute(ctypes.Nonce, unhexData(ts.Nonce))
		attrs = append(attrs, &a)
	}
	var ins []*ctypes.Input
	for _, i := range ts.Ins {
		ins = append(ins, &ctypes.Input{Previous: ctypes.OutPoint{TxID: n.fullTx(i.TxID), Index: i.Index}})
	}
	var outs []*ctypes.Output
	for _, o := range ts.Outs {
		out := &ctypes.Output{AssetID: core.ELAAssetID, Value: common.Fixed64(o.Value), ProgramHash: n.addrOf(o.Addr),
			Type: ctypes.OTNone, Payload: &outputpayload.DefaultOutput{}}
		if strings.HasPrefix(o.Pay, "W") {
			out.Type = ctypes.OTWithdrawFromSideChain
			out.Payload = &outputpayload.Withdraw{GenesisBlockAddress: "x", SideChainTransactionHash: PadHash(o.Pay[1:]), TargetData: []byte{}}
		} else if strings.HasPrefix(o.Pay, "R") {
			out.Type = ctypes.OTReturnSideChainDepositCoin
			out.Payload = &outputpayload.ReturnSideChainDeposit{GenesisBlockAddress: "x", DepositTransactionHash: PadHash(o.Pay[1:])}
		}
		outs = append(outs, out)
	}
	ph := func(i int) common.Uint256 {
		if i < len(ts.PHashes) {
			return PadHash(ts.PHashes[i])
		}
		return common.Uint256{}
	}
	pd := func(i int) []byte {
		if i < len(ts.PDatas) {
			return unhexData(ts.PDatas[i])
		}
		return nil
	}
	version := ctypes.TxVersion09
	lock := uint32(0)
	var txType ctypes.TxType
	var pl interfaces.Payload
	switch ts.Kind {
	case "cb":
		txType = ctypes.CoinBase
		pl = &payload.CoinBase{Content: []byte("elaverif")}
		version = n.Pow.GetDefaultTxVersion(height)
		lock = height
		if len(ts.PDatas) > 0 { // a coinbase copied from another height keeps that lock time
			if v, err := strconv.ParseUint(ts.PDatas[0], 16, 32); err == nil {
				lock = uint32(v)
			}
		}
		ins = []*ctypes.Input{{Previous: ctypes.OutPoint{TxID: common.EmptyHash, Index: math.MaxUint16}, Sequence: math.MaxUint32}}
	case "ra": // RegisterAsset that spends and pays like a transfer
		txType = ctypes.RegisterAsset
		pl = &payload.RegisterAsset{Asset: payload.Asset{Name: "Q", Precision: 8}, Amount: 0, Controller: n.Addr(1)}
	case "wd":
		txType = ctypes.WithdrawFromSideChain
		w := &payload.WithdrawFromSideChain{}
		if ts.PVer == 0 {
			w.BlockHeight = 1
			w.GenesisBlockAddress = "x"
			for _, h := range ts.PHashes {
				w.SideChainTransactionHashes = append(w.SideChainTransactionHashes, PadHash(h))
			}
		}
		pl = w
	case "rd":
		txType = ctypes.ReturnSideChainDepositCoin
		pl = &payload.ReturnSideChainDepositCoin{}
	case "pp":
		txType = ctypes.CRCProposal
		pl = &payload.CRCProposal{ProposalType: payload.Normal, CategoryData: "c", OwnerKey: n.pub(1),
			DraftHash: ph(0), DraftData: pd(0), Budgets: []payload.Budget{}, Recipient: n.Addr(1),
			Signature: []byte{1}, CRCouncilMemberDID: n.Addr(2), CRCouncilMemberSignature: []byte{2}}
	case "rv":
		txType = ctypes.CRCProposalReview
		pl = &payload.CRCProposalReview{ProposalHash: common.Uint256{7}, VoteResult: payload.Approve, OpinionHash: ph(0),
			OpinionData: pd(0), DID: n.Addr(2), Signature: []byte{3}}
	case "tk":
		txType = ctypes.CRCProposalTracking
		pl = &payload.CRCProposalTracking{ProposalTrackingType: payload.Common, ProposalHash: common.Uint256{7},
			MessageHash: ph(1), MessageData: pd(1), Stage: 1, OwnerKey: n.pub(1), NewOwnerKey: []byte{},
			OwnerSignature: []byte{4}, NewOwnerSignature: []byte{}, SecretaryGeneralOpinionHash: ph(0),
			SecretaryGeneralOpinionData: pd(0), SecretaryGeneralSignature: []byte{5}}
	case "sp": // side-chain mining proof in the original format (with inputs); the signature travels in pdatas
		txType = ctypes.SideChainPow
		pl = &payload.SideChainPow{SideBlockHash: ph(0), SideGenesisHash: ph(1), BlockHeight: 1, Signature: pd(0)}
	case "rc": // Record: spends and pays like a transfer, carries a blob
		txType = ctypes.Record
		pl = &payload.Record{Type: "t", Content: pd(0)}
	case "xc": // TransferCrossChainAsset, payload v0: every output to an X address (900..999) is a cross-chain output
		txType = ctypes.TransferCrossChainAsset
		x := &payload.TransferCrossChainAsset{}
		for i, o := range ts.Outs {
			if o.Addr >= 900 && o.Addr < 1000 {
				x.CrossChainAddresses = append(x.CrossChainAddresses, fmt.Sprintf("side%d", i))
				x.OutputIndexes = append(x.OutputIndexes, uint64(i))
				x.CrossChainAmounts = append(x.CrossChainAmounts, common.Fixed64(o.Value)-n.Params.MinCrossChainTxFee)
			}
		}
		pl = x
	case "ca": // CRCAppropriation: inputs, two outputs (expenses, assets), no attributes, no programs
		txType = ctypes.CRCAppropriation
		pl = &payload.CRCAppropriation{}
		attrs = nil
		if ts.Nonce != "-" { // no attributes: the nonce of the specification is the lock time
			if v, err := strconv.ParseUint(ts.Nonce, 16, 32); err == nil {
				lock = uint32(v)
			}
		}
	case "ot":
		txType = ctypes.TransferAsset
		pl = &payload.TransferAsset{}
	default:
		return nil, fmt.Errorf("regnet: cannot build kind %q", ts.Kind)
	}
	tx := functions.CreateTransaction(version, txType, ts.PVer, pl, attrs, ins, outs, lock, []*program.Program{})
	if ts.Kind == "ot" || ts.Kind == "sp" || ts.Kind == "rc" || ts.Kind == "xc" || (ts.Kind == "ra" && len(ins) > 0) {
		n.signByOwners(tx)
	}
	return tx, nil
}

// signByOwners adds one standard program per distinct known owner of the inputs.
func (n *Node) signByOwners(tx interfaces.Transaction) {
	seen := map[int]bool{}
	var progs []*program.Program
	for _, in := range tx.Inputs() {
		ref, ok := n.txs[ID(in.Previous.TxID)]
		if !ok || int(in.Previous.Index) >= len(ref.Outputs()) {
			continue
		}
		no := n.AddrNo(ref.Outputs()[in.Previous.Index].ProgramHash)
		if no >= len(n.Accounts) || seen[no] {
			continue
		}
		seen[no] = true
		ac := n.Accounts[no]
		pg, err := account.SignStandardTransaction(tx, &program.Program{Code: ac.RedeemScript},
			map[common.Uint160]*account.Account{ac.ProgramHash.ToCodeHash(): ac})
		if err == nil {
			progs = append(progs, pg)
		}
	}
	sort.Slice(progs, func(i, j int) bool {
		return common.ToCodeHash(progs[i].Code).Compare(*common.ToCodeHash(progs[j].Code)) < 0
	})
	tx.SetPrograms(progs)
}

// Build turns a block specification into the real, solved block and registers
// it (and its transactions) so later specifications can refer to them. With
// verify, every id in the specification must be the real hash.
func (n *Node) Build(bs *BlockSpec, verify bool) (*types.Block, error) {
	var prev common.Uint256
	if b, ok := n.byID[bs.Prev]; ok {
		prev = b.Hash()
	} else {
		prev = PadHash(bs.Prev)
	}
	blk := &types.Block{Header: ctypes.Header{
		Version: 0, Previous: prev, Timestamp: n.Genesis.Timestamp + bs.Height,
		Bits: n.Params.PowConfiguration.PowLimitBits, Height: bs.Height}}
	if bs.TS != 0 {
		blk.Header.Timestamp = bs.TS
	}
	if bs.Bits != 0 {
		blk.Header.Bits = bs.Bits
	}
	var hashes []common.Uint256
	for i := range bs.Txs {
		tx, err := n.BuildTx(&bs.Txs[i], bs.Height)
		if err != nil {
			return nil, err
		}
		if verify && ID(tx.Hash()) != bs.Txs[i].ID {
			return nil, fmt.Errorf("regnet: tx %d of block %s: id %s, rebuilt %s", i, bs.ID, bs.Txs[i].ID, ID(tx.Hash()))
		}
		blk.Transactions = append(blk.Transactions, tx)
		hashes = append(hashes, tx.Hash())
	}
	if len(hashes) > 0 {
		root, err := crypto.ComputeRoot(hashes)
		if err != nil {
			return nil, err
		}
		blk.Header.MerkleRoot = root
	}
	if verify && ID(blk.Hash()) != bs.ID {
		return nil, fmt.Errorf("regnet: block id %s, rebuilt %s", bs.ID, ID(blk.Hash()))
	}
	if !solve(blk) {
		return nil, errors.New("regnet: could not solve block")
	}
	n.register(blk)
	return blk, nil
}

func (n *Node) register(b *types.Block) {
	n.blocks[b.Hash()] = b
	n.byID[ID(b.Hash())] = b
	for _, tx := range b.Transactions {
		n.txs[ID(tx.Hash())] = tx
	}
}

// ByID returns a registered block by short id.
func (n *Node) ByID(id string) *types.Block { return n.byID[id] }

// TxByID returns a registered transaction by short id.
func (n *Node) TxByID(id string) interfaces.Transaction { return n.txs[id] }

func (n *Node) pub(i int) []byte {
	b, _ := n.Accounts[i].PublicKey.EncodePoint(true)
	return b
}

// TxIDs lists the short ids of every registered transaction.
func (n *Node) TxIDs() []string {
	r := make([]string, 0, len(n.txs))
	for id := range n.txs {
		r = append(r, id)
	}
	return r
}

// SideChainPowSig signs a side-chain mining proof with the key of account i (the harness makes
// account 0 the only origin arbiter when Sim.OwnArbiter is set, so it is always on duty).
func (n *Node) SideChainPowSig(i int, sideBlock, sideGenesis string) string {
	pl := &payload.SideChainPow{SideBlockHash: PadHash(sideBlock), SideGenesisHash: PadHash(sideGenesis), BlockHeight: 1}
	buf := new(bytes.Buffer)
	pl.Serialize(buf, payload.SideChainPowVersion)
	sig, err := crypto.Sign(n.Accounts[i].PrivateKey, buf.Bytes()[0:68])
	if err != nil {
		panic("harness: " + err.Error())
	}
	return hex.EncodeToString(sig)
}
