// Package pctx drives the REAL DefaultChecker.ContextCheck of a transaction on
// an in-process regnet node, for the policy checks of C31 / C32 (owner:
// b-policy).  The referenced outputs are injected into the chain's UTXO cache
// (as the repository's own txValidatorTestSuite does); block height, the two
// cross-chain heights and the frozen list are set on a copy of the node's
// parameters.  What comes back says which of the two policy checks — if any —
// rejected the transaction; every later failure (fee, signature, payload …)
// counts as "passed" the policies.
package pctx

import (
	"bytes"
	"fmt"
	"os"
	"strconv"
	"strings"

	"crypto/elliptic"

	"elaverif/harness/hx"
	"elaverif/harness/regnet"

	"github.com/elastos/Elastos.ELA/account"
	"github.com/elastos/Elastos.ELA/blockchain"
	"github.com/elastos/Elastos.ELA/core/contract/program"
	"github.com/elastos/Elastos.ELA/core/types/outputpayload"
	"github.com/elastos/Elastos.ELA/crypto"
	"github.com/elastos/Elastos.ELA/dpos/state"
	"github.com/elastos/Elastos.ELA/elanet"
	"github.com/elastos/Elastos.ELA/p2p/msg"
	"github.com/elastos/Elastos.ELA/servers"

	"github.com/elastos/Elastos.ELA/common"
	"github.com/elastos/Elastos.ELA/common/config"
	"github.com/elastos/Elastos.ELA/core"
	"github.com/elastos/Elastos.ELA/core/transaction"
	common2 "github.com/elastos/Elastos.ELA/core/types/common"
	"github.com/elastos/Elastos.ELA/core/types/interfaces"
	"github.com/elastos/Elastos.ELA/core/types/payload"
	elaerr "github.com/elastos/Elastos.ELA/errors"
)

// ChainHeight is the best-chain height of the node the checks run on: the
// block heights used by the generators are deliberately NOT ChainHeight+1 only.
const ChainHeight = 3

// HashOf maps a letter of an op line to a program hash: X, Y are cross-chain
// addresses (prefix 0x4B), M is a multi-sig one (0x12), every other letter a
// standard one (0x21).
func HashOf(letter byte) common.Uint168 {
	// F, G, O are real single-signature accounts of the node, so that transactions spending from them
	// can carry valid signatures and come out of ContextCheck with a nil error
	if i := accountOf(letter); i > 0 && cur != nil {
		return cur.node.Accounts[i].ProgramHash
	}
	var h common.Uint168
	h[0] = PrefixOf(letter)
	for i := 1; i < len(h); i++ {
		h[i] = letter
	}
	return h
}

func accountOf(letter byte) int {
	switch letter {
	case 'F':
		return 1
	case 'G':
		return 2
	case 'O':
		return 3
	}
	return 0
}

func PrefixOf(letter byte) byte {
	switch letter {
	case 'X', 'Y':
		return 0x4B
	case 'M':
		return 0x12
	}
	return 0x21
}

type Entry struct {
	Letter byte // 'n' = ProgramHash nil
	Start  uint32
}

// LastNil tells whether the last ContextCheck returned a nil error (the transaction is valid in every
// respect), LastErr the error text otherwise.
var LastNil bool
var LastErr string

func arbiterKey() []byte { k, _ := common.HexStringToBytes("1234"); return k }

func arbiterPub() []byte {
	pub := new(crypto.PublicKey)
	pub.X, pub.Y = elliptic.P256().ScalarBaseMult(arbiterKey())
	b, err := pub.EncodePoint(true)
	if err != nil {
		panic("harness: " + err.Error())
	}
	return b
}

type Ctx struct {
	node *regnet.Node
	dir  string
	seq  uint32
}

var cur *Ctx

// Get returns the process-wide context (node created on first use, three
// blocks mined so that the chain height is ChainHeight).
func Get() *Ctx {
	if cur != nil {
		return cur
	}
	dir, err := os.MkdirTemp("", "pctx")
	if err != nil {
		panic("harness: " + err.Error())
	}
	n, err := regnet.NewNode(dir, regnet.Options{NoPoolEvents: true})
	if err != nil {
		panic("harness: regnet node: " + err.Error())
	}
	parent := n.Genesis
	for i := 0; i < ChainHeight; i++ {
		b, err := n.Mine(parent, nil)
		if err != nil {
			panic("harness: mine: " + err.Error())
		}
		if _, _, err := n.Deliver(b); err != nil {
			panic("harness: deliver: " + err.Error())
		}
		parent = b
	}
	if _, h := n.Tip(); h != ChainHeight {
		panic(fmt.Sprintf("harness: chain height %d, want %d", h, ChainHeight))
	}
	cur = &Ctx{node: n, dir: dir}
	return cur
}

// Close removes the node's files.
func Close() {
	if cur != nil {
		cur.node.Close()
		os.RemoveAll(cur.dir)
		cur = nil
	}
}

func payloadOf(ty common2.TxType) interfaces.Payload {
	switch ty {
	case common2.WithdrawFromSideChain:
		return &payload.WithdrawFromSideChain{}
	case common2.ReturnSideChainDepositCoin:
		return &payload.ReturnSideChainDepositCoin{}
	}
	return &payload.TransferAsset{}
}

// Run sends one transaction through the real ContextCheck.
//
//	passed | cc frozen|wver|nottype|notlegacy|mixed | fz spend <i> | fz receive <i> | early <what>
func (c *Ctx) Run(ty, ver byte, h, f, r uint32, entries []Entry, ins, outs []byte) string {
	n := c.node
	params := *n.Params
	params.CrossChainUTXOFreezeHeight = f
	params.CrossChainUTXORestrictionHeight = r
	params.ReturnCrossChainCoinStartHeight = 0
	params.FrozenAddresses = nil
	for i, e := range entries {
		fa := config.FrozenAddress{Address: fmt.Sprintf("addr#%d#", i), DisableStartHeight: e.Start}
		if e.Letter != 'n' {
			ph := HashOf(e.Letter)
			fa.ProgramHash = &ph
		}
		params.FrozenAddresses = append(params.FrozenAddresses, fa)
	}
	c.seq++
	var inputs []*common2.Input
	for i, l := range ins {
		in := &common2.Input{Previous: common2.OutPoint{Index: uint16(i)}}
		in.Previous.TxID[0], in.Previous.TxID[1], in.Previous.TxID[2], in.Previous.TxID[3] = byte(c.seq), byte(c.seq>>8), byte(c.seq>>16), byte(c.seq>>24)
		in.Previous.TxID[31] = 0xC3
		n.Chain.UTXOCache.InsertReference(in, &common2.Output{AssetID: core.ELAAssetID, Value: 100000000, ProgramHash: HashOf(l)})
		inputs = append(inputs, in)
	}
	var outputs []*common2.Output
	for _, l := range outs {
		outputs = append(outputs, &common2.Output{AssetID: core.ELAAssetID, Value: 1000, Type: common2.OTNone, Payload: &outputpayload.DefaultOutput{}, ProgramHash: HashOf(l)})
	}
	var txn interfaces.Transaction
	if common2.TxType(ty) == common2.SideChainPow {
		// "new style" side-chain PoW transaction: no inputs, zero-value outputs, payload signed by the on-duty
		// cross-chain arbitrator (a key of ours, installed for the duration of the call).  Its special context
		// check ends the context check (end == true).
		for _, o := range outputs {
			o.Value, o.Type, o.Payload = 0, common2.OTNone, &outputpayload.DefaultOutput{}
		}
		pd := &payload.SideChainPow{SideGenesisHash: common.Uint256{2, 2, 2}, BlockHeight: 10}
		pd.SideBlockHash[0], pd.SideBlockHash[1], pd.SideBlockHash[2], pd.SideBlockHash[3] = byte(c.seq), byte(c.seq>>8), byte(c.seq>>16), byte(c.seq>>24)
		txn = transaction.CreateTransaction(0, common2.SideChainPow, 0, pd, []*common2.Attribute{}, []*common2.Input{}, outputs, 0, []*program.Program{})
		buf := new(bytes.Buffer)
		pd.Serialize(buf, payload.SideChainPowVersion)
		sig, err := crypto.Sign(arbiterKey(), buf.Bytes()[0:68])
		if err != nil {
			panic("harness: " + err.Error())
		}
		pd.Signature = sig
		saved := blockchain.DefaultLedger
		arb, err := state.NewOriginArbiter(arbiterPub())
		if err != nil {
			panic("harness: " + err.Error())
		}
		arbs := []state.ArbiterMember{arb}
		blockchain.DefaultLedger = &blockchain.Ledger{
			Arbitrators: &state.ArbitratorsMock{CurrentArbitrators: arbs, Snapshot: []*state.CheckPoint{{CurrentArbitrators: arbs}}, MajorityCount: 1},
			Store:       saved.Store, Committee: saved.Committee, Blockchain: saved.Blockchain,
		}
		defer func() { blockchain.DefaultLedger = saved }()
	} else {
		txn = transaction.CreateTransaction(common2.TxVersion09, common2.TxType(ty), ver, payloadOf(common2.TxType(ty)),
			[]*common2.Attribute{{Usage: common2.Nonce, Data: []byte{byte(c.seq), byte(c.seq >> 8), byte(c.seq >> 16)}}}, inputs, outputs, 0, nil)
		// sign for every input owner that is one of the node's accounts
		var programs []*program.Program
		seen := map[int]bool{}
		for _, l := range ins {
			if i := accountOf(l); i > 0 && !seen[i] {
				seen[i] = true
				ac := n.Accounts[i]
				pg, err := account.SignStandardTransaction(txn, &program.Program{Code: ac.RedeemScript},
					map[common.Uint160]*account.Account{ac.ProgramHash.ToCodeHash(): ac})
				if err != nil {
					panic("harness: sign: " + err.Error())
				}
				programs = append(programs, pg)
			}
		}
		txn.SetPrograms(programs)
	}
	para := &transaction.TransactionParameters{Transaction: txn, BlockHeight: h, TimeStamp: 0, Config: &params, BlockChain: n.Chain}
	txn.SetParameters(para)
	if Pow {
		st := n.Chain.GetState()
		saved := st.ConsensusAlgorithm
		st.ConsensusAlgorithm = state.POW
		defer func() { st.ConsensusAlgorithm = saved }()
	}
	_, err := txn.ContextCheck(para)
	n.Chain.UTXOCache.CleanCache()
	LastNil = err == nil
	LastErr = ""
	if err != nil {
		LastErr = err.Error()
	}
	if err == nil {
		return "passed"
	}
	m := ""
	if ie := err.InnerError(); ie != nil {
		m = ie.Error()
	}
	idx := "?"
	if a := strings.Index(m, "addr#"); a >= 0 {
		idx = strings.TrimSuffix(m[a+5:], "#")
	}
	switch {
	case strings.Contains(m, "temporarily frozen"):
		return "cc frozen"
	case strings.Contains(m, "unsupported WithdrawFromSideChain payload version"):
		return "cc wver"
	case strings.Contains(m, "only WithdrawFromSideChain and ReturnSideChainDepositCoin"):
		return "cc nottype"
	case strings.Contains(m, "only legacy ReturnSideChainDepositCoin"):
		return "cc notlegacy"
	case strings.Contains(m, "ReturnSideChainDepositCoin can only spend"):
		return "cc mixed"
	case strings.HasPrefix(m, "cannot use utxo from the frozen address"):
		return "fz spend " + idx
	case strings.HasPrefix(m, "cannot send to the frozen address"):
		return "fz receive " + idx
	}
	// anything that fails before the references are resolved never reached the policies
	switch err.Code() {
	case elaerr.ErrTxHeightVersion, elaerr.ErrTxDuplicate, elaerr.ErrTxUnknownReferredTx:
		return fmt.Sprintf("early %d", err.Code())
	}
	return "passed"
}

// ---------------------------------------------------------------- op "ctx" shared by the C31 and C32 harnesses
//
//	ctx <ty> <ver> <h> <f> <r> <entries> <ins> <outs>
//	    entries: comma separated L:start (n = unresolved entry), "-" = none; ins / outs: letters, "-" = none

func u32(s string) uint32 {
	v, err := strconv.ParseUint(s, 10, 32)
	if err != nil {
		panic("harness: bad uint32 " + s)
	}
	return uint32(v)
}

func ParseEntries(s string) []Entry {
	if s == "-" {
		return nil
	}
	var res []Entry
	for _, t := range strings.Split(s, ",") {
		p := strings.Split(t, ":")
		if len(p) != 2 || len(p[0]) != 1 {
			panic("harness: bad entry " + t)
		}
		res = append(res, Entry{p[0][0], u32(p[1])})
	}
	return res
}

func letters(s string) []byte {
	if s == "-" {
		return nil
	}
	return []byte(s)
}

// Exec runs a ctx op.
// Pow, when set, makes the DPoS state report the POW fallback consensus (after RevertToPOW) during Run.
var Pow bool

func Exec(t []string) string {
	Pow = t[0] == "ctxpow"
	defer func() { Pow = false }()
	return Get().Run(byte(u32(t[1])), byte(u32(t[2])), u32(t[3]), u32(t[4]), u32(t[5]), ParseEntries(t[6]), letters(t[7]), letters(t[8]))
}

// Oracle judges a ctx op against the two property statements: a transaction
// the policies must refuse may not come out of ContextCheck as "passed".
func Oracle(t []string, out string) *hx.Violation {
	if out != "passed" {
		return nil
	}
	v := oracle(t)
	if v != nil {
		if LastNil {
			v.Detail += " — ContextCheck returned nil: the transaction is accepted"
		} else {
			v.Detail += " — neither policy check refused it (a later check said: " + LastErr + ")"
		}
	}
	return v
}

func oracle(t []string) *hx.Violation {
	ty, ver, h, f, r := u32(t[1]), u32(t[2]), u32(t[3]), u32(t[4]), u32(t[5])
	ins, outs := letters(t[7]), letters(t[8])
	for _, e := range ParseEntries(t[6]) {
		if e.Letter == 'n' || h < e.Start {
			continue
		}
		if bytes.IndexByte(ins, e.Letter) >= 0 {
			return &hx.Violation{Kind: "context-check-accepts-spend-from-frozen-address",
				Detail: fmt.Sprintf("ContextCheck for a block at height %d (chain height %d) let a transaction spend from address %c, frozen from height %d", h, ChainHeight, e.Letter, e.Start)}
		}
		if bytes.IndexByte(outs, e.Letter) >= 0 {
			return &hx.Violation{Kind: "context-check-accepts-payment-to-frozen-address",
				Detail: fmt.Sprintf("ContextCheck for a block at height %d (chain height %d) let a transaction pay to address %c, frozen from height %d", h, ChainHeight, e.Letter, e.Start)}
		}
	}
	hasCC, allCC := false, true
	for _, l := range ins {
		if PrefixOf(l) == 0x4B {
			hasCC = true
		} else {
			allCC = false
		}
	}
	if hasCC && f <= r && h >= f {
		if h < r {
			return &hx.Violation{Kind: "context-check-accepts-cc-spend-in-freeze-window",
				Detail: fmt.Sprintf("ContextCheck for a block at height %d (chain height %d) let tx type %#x spend a CrossChain UTXO inside [%d,%d)", h, ChainHeight, ty, f, r)}
		}
		allowed := (common2.TxType(ty) == common2.WithdrawFromSideChain && ver <= 2) ||
			(common2.TxType(ty) == common2.ReturnSideChainDepositCoin && ver == 0 && allCC)
		if !allowed {
			return &hx.Violation{Kind: "context-check-accepts-cc-spend-after-restriction",
				Detail: fmt.Sprintf("ContextCheck for a block at height %d let tx type %#x version %d spend a CrossChain UTXO (restriction height %d)", h, ty, ver, r)}
		}
	}
	return nil
}

// Gen emits the ctx stream: tx shapes × threshold pairs × heights on both sides of the
// chain height × frozen lists × input / output words.
func Gen(g *hx.Gen) {
	shapes := [][2]int{{int(common2.TransferAsset), 0}, {int(common2.WithdrawFromSideChain), 0}, {int(common2.WithdrawFromSideChain), 3},
		{int(common2.ReturnSideChainDepositCoin), 0}, {int(common2.ReturnSideChainDepositCoin), 1}}
	frs := [][2]uint32{{2, 6}, {4, 4}, {4294967295, 4294967295}}
	lists := []string{"-", "F:4", "F:4,X:5", "n:1,G:3"}
	insW := []string{"-", "F", "O", "X", "G", "FO", "OF", "XO", "OX", "XX", "XY", "FX", "GO"}
	outsW := []string{"-", "F", "G", "O", "FO", "OF", "OO"}
	if g.Quick() {
		insW = []string{"-", "F", "O", "X", "FO", "XO", "XX", "OX", "GO"}
		outsW = []string{"-", "F", "O", "OF", "G"}
	}
	// transactions whose special context check ends the context check (new-style SideChainPow): no inputs
	for h := uint32(1); h <= 8; h++ {
		for _, l := range lists {
			for _, out := range []string{"F", "G", "O", "X", "OF", "GO"} {
				g.Emit("ctx %d 0 %d 4294967295 4294967295 %s - %s", int(common2.SideChainPow), h, l, out)
			}
		}
	}
	// the same under the POW fallback consensus (after RevertToPOW): the policies do not depend on it
	for _, sh := range shapes[:2] {
		for _, fr := range frs[:2] {
			for h := uint32(1); h <= 8; h++ {
				for _, l := range []string{"-", "F:4"} {
					for _, in := range []string{"F", "O", "X", "XO", "XX"} {
						g.Emit("ctxpow %d %d %d %d %d %s %s %s", sh[0], sh[1], h, fr[0], fr[1], l, in, "OF")
					}
				}
			}
		}
	}
	for _, sh := range shapes {
		for _, fr := range frs {
			for h := uint32(1); h <= 8; h++ {
				for _, l := range lists {
					for _, in := range insW {
						for _, out := range outsW {
							g.Emit("ctx %d %d %d %d %d %s %s %s", sh[0], sh[1], h, fr[0], fr[1], l, in, out)
						}
					}
				}
			}
		}
	}
}

// ---------------------------------------------------------------- op "e2e": the policies through the node's real paths
//
//	e2e pool|block|rpc <h> <f> <r> <entries> <in> <outs>
//	    A fresh regnet node whose parameters carry the two heights and the frozen list (letters: A = the
//	    foundation account, F G O = accounts 1 2 3, X = a cross-chain address).  The chain is mined to height
//	    h-1, then ONE transaction is offered for height h: it spends the foundation's genesis output (in = A,
//	    validly signed) or a cross-chain output created at height 2 (in = X, unsigned) and pays to <outs>.
//	      pool : TxPool.AppendToTxPool            (mempool admission: validates for best height + 1)
//	      block: assemble + BlockChain.ProcessBlock (block validation: validates for block.Height)
//	      rpc  : servers.SendRawTransaction with the serialised transaction (then the mempool)
//	      seen : first offered to the pool one block earlier (still allowed), then in a block at height h
//	      reorg: in the height-h block of a side chain that out-works the main chain (reorganizeChain)
//	    Output as for ctx: passed | cc … | fz …   ("passed" = no policy refused it; LastNil = it was accepted);
//	    on the block path: passed (block connected) | rejected (a context check of block validation refused).

type relayStub struct{ elanet.Server }

func (relayStub) RelayInventory(*msg.InvVect, interface{}) {}

func e2eHash(n *regnet.Node, l byte) common.Uint168 {
	switch l {
	case 'A':
		return n.Accounts[0].ProgramHash
	case 'F':
		return n.Accounts[1].ProgramHash
	case 'G':
		return n.Accounts[2].ProgramHash
	case 'O':
		return n.Accounts[3].ProgramHash
	}
	return HashOf(l)
}

func classify(m string) string {
	idx := "?"
	if a := strings.Index(m, "addr#"); a >= 0 {
		rest := m[a+5:]
		if b := strings.Index(rest, "#"); b >= 0 {
			idx = rest[:b]
		}
	}
	switch {
	case strings.Contains(m, "temporarily frozen"):
		return "cc frozen"
	case strings.Contains(m, "unsupported WithdrawFromSideChain payload version"):
		return "cc wver"
	case strings.Contains(m, "only WithdrawFromSideChain and ReturnSideChainDepositCoin"):
		return "cc nottype"
	case strings.Contains(m, "only legacy ReturnSideChainDepositCoin"):
		return "cc notlegacy"
	case strings.Contains(m, "ReturnSideChainDepositCoin can only spend"):
		return "cc mixed"
	case strings.Contains(m, "cannot use utxo from the frozen address"):
		return "fz spend " + idx
	case strings.Contains(m, "cannot send to the frozen address"):
		return "fz receive " + idx
	}
	return "passed"
}

// E2E runs an e2e op.
func E2E(t []string) string {
	Close() // one node per process: drop the ctx node if any
	path, h, f, r := t[1], u32(t[2]), u32(t[3]), u32(t[4])
	entries, in, outs := ParseEntries(t[5]), t[6], letters(t[7])
	if h < 3 {
		panic("harness: e2e needs h >= 3")
	}
	dir, err := os.MkdirTemp("", "pe2e")
	if err != nil {
		panic("harness: " + err.Error())
	}
	defer os.RemoveAll(dir)
	var node *regnet.Node
	node, err = regnet.NewNode(dir, regnet.Options{CoinbaseMaturity: 1, NoPoolEvents: false, Tweak: func(p *config.Configuration) {
		p.CrossChainUTXOFreezeHeight, p.CrossChainUTXORestrictionHeight = f, r
	}})
	if err != nil {
		panic("harness: regnet node: " + err.Error())
	}
	defer node.Close()
	// the frozen list needs the accounts' hashes, known only now: the parameters object is shared with the chain
	node.Params.FrozenAddresses = nil
	for i, e := range entries {
		fa := config.FrozenAddress{Address: fmt.Sprintf("addr#%d#", i), DisableStartHeight: e.Start}
		if e.Letter != 'n' {
			ph := e2eHash(node, e.Letter)
			fa.ProgramHash = &ph
		}
		node.Params.FrozenAddresses = append(node.Params.FrozenAddresses, fa)
	}
	gen := node.Genesis.Transactions[0]
	genOut := common2.OutPoint{TxID: gen.Hash(), Index: 0}
	total := gen.Outputs()[0].Value
	parent := node.Genesis
	mine := func(txs []interfaces.Transaction) {
		b, err := node.Mine(parent, txs)
		if err != nil {
			panic("harness: mine: " + err.Error())
		}
		if _, _, err := node.Deliver(b); err != nil {
			panic("harness: deliver: " + err.Error())
		}
		parent = b
	}
	mine(nil) // height 1
	var tx interfaces.Transaction
	type out struct {
		To    common.Uint168
		Value common.Fixed64
	}
	mkOuts := func(avail common.Fixed64) []out {
		var os []out
		for _, l := range outs {
			os = append(os, out{To: e2eHash(node, l), Value: 1000})
			avail -= 1000
		}
		return append(os, out{To: node.Accounts[4].ProgramHash, Value: avail - 10000}) // change, fee 10000
	}
	build := func(in common2.OutPoint, os []out, nonce byte, sign bool) interfaces.Transaction {
		var outputs []*common2.Output
		for _, o := range os {
			outputs = append(outputs, &common2.Output{AssetID: core.ELAAssetID, Value: o.Value, Type: common2.OTNone, Payload: &outputpayload.DefaultOutput{}, ProgramHash: o.To})
		}
		txn := transaction.CreateTransaction(common2.TxVersion09, common2.TransferAsset, 0, &payload.TransferAsset{},
			[]*common2.Attribute{{Usage: common2.Nonce, Data: []byte{nonce}}}, []*common2.Input{{Previous: in}}, outputs, 0, nil)
		if sign {
			if err := node.Sign(txn, 0); err != nil {
				panic("harness: sign: " + err.Error())
			}
		} else {
			// a syntactically plausible cross-chain (multi-sig style) program; its signature is not valid
			code := append([]byte{0x51, 0x21, 0x02}, make([]byte, 32)...)
			code = append(code, 0x51, 0xAF)
			txn.SetPrograms([]*program.Program{{Code: code, Parameter: append([]byte{0x40}, make([]byte, 64)...)}})
		}
		return txn
	}
	if in == "X" {
		// height 2: the foundation pays to the cross-chain address (the frozen list may forbid that: then
		// the scenario is not applicable)
		fund := build(genOut, []out{{To: HashOf('X'), Value: 100000}, {To: node.Accounts[4].ProgramHash, Value: total - 100000 - 10000}}, 1, true)
		b, err := node.Mine(parent, []interfaces.Transaction{fund})
		if err != nil {
			panic("harness: mine: " + err.Error())
		}
		if _, _, err := node.Deliver(b); err != nil {
			return "n/a funding refused: " + strings.ReplaceAll(err.Error(), " ", "_")
		}
		parent = b
		tx = build(common2.OutPoint{TxID: fund.Hash(), Index: 0}, mkOuts(100000), 7, false)
	} else {
		mine(nil) // height 2
	}
	target := h // the chain is mined until the next block is `target`
	if path == "seen" {
		target = h - 1
	}
	for _, hh := node.Tip(); hh+1 < target; _, hh = node.Tip() {
		mine(nil)
	}
	if in != "X" {
		tx = build(genOut, mkOuts(total), 2, true)
	}
	LastNil, LastErr = false, ""
	var msgText string
	if path == "seen" {
		// the node sees the transaction while it is still allowed (next block h-1) …
		if e := node.Pool.AppendToTxPool(tx); e != nil {
			return "n/a refused when first seen"
		}
		mine(nil)      // … the chain moves on to h-1 without it …
		path = "block" // … and it is offered in a block at height h
	}
	switch path {
	case "pool":
		if e := node.Pool.AppendToTxPool(tx); e != nil {
			msgText = e.Error()
			if ie := e.InnerError(); ie != nil {
				msgText += " | " + ie.Error()
			}
		}
	case "block":
		b, err := node.Mine(parent, []interfaces.Transaction{tx})
		if err != nil {
			panic("harness: mine: " + err.Error())
		}
		if _, _, err := node.Deliver(b); err != nil {
			// block validation hides which context check refused the transaction
			LastNil, LastErr = false, err.Error()
			if strings.Contains(err.Error(), "CheckTransactionContext failed") {
				return "rejected"
			}
			return "rejected-other " + strings.ReplaceAll(err.Error(), " ", "_")
		}
	case "reorg":
		// the transaction reaches the main chain through a reorganisation: a side chain forks two blocks below
		// the tip (the main chain stands at h), carries the transaction in its block at height h and
		// out-works the main chain with one more block
		mine(nil) // main chain now at height h
		fork := node.Block(node.ActiveChain()[h-2])
		if fork == nil {
			panic("harness: fork point not found")
		}
		s1, err := node.Mine(fork, nil, regnet.MineOpts{Miner: 4}) // height h-1 on the side chain
		if err != nil {
			panic("harness: mine: " + err.Error())
		}
		node.Deliver(s1)
		s2, err := node.Mine(s1, []interfaces.Transaction{tx}, regnet.MineOpts{Miner: 4}) // height h, with the transaction
		if err != nil {
			panic("harness: mine: " + err.Error())
		}
		node.Deliver(s2)
		s3, err := node.Mine(s2, nil, regnet.MineOpts{Miner: 4}) // height h+1: more work than the main chain
		if err == nil {
			node.Deliver(s3)
		}
		active := node.ActiveChain()
		if int(h) < len(active) && active[h] == s2.Hash() {
			LastNil, LastErr = true, ""
			return "passed" // the block with the transaction is part of the main chain
		}
		LastNil, LastErr = false, "side chain block not connected"
		return "rejected"
	case "rpc":
		servers.Chain, servers.Store, servers.TxMemPool, servers.ChainParams, servers.Server = node.Chain, node.Store, node.Pool, node.Params, relayStub{}
		buf := new(bytes.Buffer)
		if err := tx.Serialize(buf); err != nil {
			panic("harness: " + err.Error())
		}
		res := servers.SendRawTransaction(servers.Params{"data": common.BytesToHexString(buf.Bytes())})
		if fmt.Sprint(res["Error"]) != "0" {
			msgText = fmt.Sprint(res["Result"])
		}
	default:
		panic("harness: unknown e2e path " + path)
	}
	LastNil, LastErr = msgText == "", msgText
	if msgText == "" {
		return "passed"
	}
	return classify(msgText)
}

// E2EOracle: as Oracle, on the e2e token layout (… <h> <f> <r> <entries> <in> <outs>).
func E2EOracle(t []string, out string) *hx.Violation {
	if out != "passed" {
		return nil
	}
	v := oracle([]string{"ctx", "2", "0", t[2], t[3], t[4], t[5], t[6], t[7]})
	if v != nil {
		v.Kind = strings.Replace(v.Kind, "context-check", t[1]+"-path", 1)
		if LastNil {
			v.Detail += " — the " + t[1] + " path ACCEPTED the transaction"
		} else {
			v.Detail += " — no policy check refused it on the " + t[1] + " path (it failed later: " + LastErr + ")"
		}
	}
	return v
}

// E2EGen emits the e2e scenarios (a node per op: kept small).
func E2EGen(g *hx.Gen, frozenFocus bool) {
	paths := []string{"pool", "block", "rpc"}
	for _, p := range paths {
		if frozenFocus {
			for _, h := range []uint32{4, 5, 6} { // start height 5
				g.Emit("e2e %s %d 4294967295 4294967295 F:5 A F", p, h)  // pay to a frozen address
				g.Emit("e2e %s %d 4294967295 4294967295 A:5 A O", p, h)  // spend from a frozen address
				g.Emit("e2e %s %d 4294967295 4294967295 G:5 A FO", p, h) // untouched
			}
			g.Emit("e2e %s 5 4294967295 4294967295 n:1,F:5 A OF", p)
			if p == "block" {
				for _, h := range []uint32{5, 6} { // start 6: first seen while allowed, offered again at h
					g.Emit("e2e seen %d 4294967295 4294967295 F:6 A F", h)
					g.Emit("e2e seen %d 4294967295 4294967295 A:6 A O", h)
				}
				for _, h := range []uint32{5, 6} { // start 6: through a reorganisation
					g.Emit("e2e reorg %d 4294967295 4294967295 F:6 A F", h)
					g.Emit("e2e reorg %d 4294967295 4294967295 A:6 A O", h)
					g.Emit("e2e reorg %d 4294967295 4294967295 G:6 A O", h)
				}
			}
		} else {
			for _, h := range []uint32{3, 4, 5, 6, 7} { // freeze 4, restriction 6
				if p != "block" { // an unsigned spend never gets into a block whatever the policy says
					g.Emit("e2e %s %d 4 6 - X O", p, h)
				}
			}
			g.Emit("e2e %s 5 4 6 - A O", p)
			if p != "block" {
				g.Emit("e2e %s 5 4294967295 4294967295 - X O", p)
			}
		}
	}
	Close()
}
