// Harness for C17: ffldb survives a crash at any point.
//
// Real code under test: the ffldb commit path (StoreBlock + metadata puts +
// Commit, cache flush) on a real database in a temp directory, with one of the
// build-tagged crash points armed: the process "dies" there (panic recovered
// here, database abandoned without flushing — ffldb.VerifAbandon), a torn flat
// file write is simulated by cutting one write short; then the directory is
// reopened in the same process and everything is read back.
//
// Stateful stream:
//
//	open net maxFile cacheMax never|always writeRow0
//	tx point|none skip torn nBlocks (hash data)* nKeys (key value)*      -> ok F O | crashed reopen ok F O | crashed reopen err
//	armreopen point skip   (the reopen after the next crash dies at this point inside reconcileDB, then reopens again)
//	flush point|none skip | crash | reopen | knob cacheMax never|always | read nHashes h* nKeys k* | files | stats
//
// a value `del` in a tx line deletes the key.
//
// A blank in a crash point name is written "_".
package main

import (
	"encoding/binary"
	"fmt"
	"hash/crc32"
	"os"
	"path/filepath"
	"sort"
	"strconv"
	"strings"
	"time"

	"elaverif/harness/hx"

	"github.com/btcsuite/btcd/wire"
	"github.com/elastos/Elastos.ELA/common"
	"github.com/elastos/Elastos.ELA/database"
	"github.com/elastos/Elastos.ELA/database/ffldb"
)

type state struct {
	reArm    []string // crash point (name, skip) armed for the reopen that follows the next crash
	dir      string
	db       database.DB
	net      uint32
	max      uint32
	cacheMax uint64
	always   bool
}

var (
	st      *state
	dirSeq  int
	baseDir string
)

func base() string {
	if baseDir == "" {
		d, err := os.MkdirTemp("", "c17-")
		if err != nil {
			panic("harness: " + err.Error())
		}
		baseDir = d
	}
	return baseDir
}

func closeAll() {
	ffldb.VerifDisarm()
	if st == nil {
		return
	}
	if st.db != nil {
		_ = st.db.Close()
	}
	if st.dir != "" {
		_ = os.RemoveAll(st.dir)
	}
	st = nil
}

func knobs() {
	ffldb.VerifSetMaxBlockFileSize(st.db, st.max)
	iv := 1000 * time.Hour
	if st.always {
		iv = 0
	}
	ffldb.VerifSetCache(st.db, st.cacheMax, iv)
}

func atoi(s string) int {
	v, err := strconv.Atoi(s)
	if err != nil {
		panic("harness: bad int " + s)
	}
	return v
}

func bytesOf(s string) []byte {
	if s == "-" {
		return []byte{}
	}
	return hx.UnHex(s)
}

func hashOf(s string) common.Uint256 {
	var h common.Uint256
	copy(h[:], hx.UnHex(s))
	return h
}

func cursor() string {
	f, o := ffldb.VerifWriteCursor(st.db)
	return fmt.Sprintf("%d %d", f, o)
}

// dies runs fn with a crash point armed; it reports whether the process "died".
func dies(point string, skip, torn int, fn func() error) (crashed bool, err error) {
	if point != "none" {
		ffldb.VerifArmCrash(strings.ReplaceAll(point, "_", " "), skip, torn)
	}
	defer ffldb.VerifDisarm()
	defer func() {
		if e := recover(); e != nil {
			if _, ok := e.(ffldb.VerifCrash); ok {
				crashed = true
				return
			}
			panic(e)
		}
	}()
	err = fn()
	return
}

func reopenAfterCrash() string {
	ffldb.VerifAbandon(st.db)
	st.db = nil
	out := "crashed"
	if st.reArm != nil {
		// the process dies again, inside reconcileDB / handleRollback of this very reopen
		arm := st.reArm
		st.reArm = nil
		crashed, _ := dies(arm[0], atoi(arm[1]), 0, func() error {
			db, err := openFF(false)
			if err == nil {
				st.db = db
			}
			return err
		})
		if crashed {
			ffldb.VerifAbandonOpening()
			st.db = nil
			out += " reopen-crashed"
		} else if st.db != nil {
			knobs()
			return out + " reopen ok " + cursor()
		} else {
			return out + " reopen err"
		}
	}
	db, err := openFF(false)
	if err != nil {
		return out + " reopen err"
	}
	st.db = db
	knobs()
	return out + " reopen ok " + cursor()
}

// openFF creates or opens the database with the history's block file size already in force
// while openDB reconciles the files with the metadata (as a configured limit would be).
func openFF(create bool) (database.DB, error) {
	ffldb.VerifSetInitialMaxBlockFileSize(st.max)
	defer ffldb.VerifSetInitialMaxBlockFileSize(0)
	if create {
		return database.Create("ffldb", st.dir, wire.BitcoinNet(st.net))
	}
	return database.Open("ffldb", st.dir, wire.BitcoinNet(st.net))
}

func exec(t []string) string {
	switch t[0] {
	case "reset":
		closeAll()
		return "ok"
	case "open":
		closeAll()
		dirSeq++
		st = &state{dir: filepath.Join(base(), fmt.Sprintf("db%d", dirSeq)), net: uint32(atoi(t[1])), max: uint32(atoi(t[2])),
			cacheMax: uint64(atoi(t[3])), always: t[4] == "always"}
		db, err := openFF(true)
		if err != nil {
			panic("harness: create: " + err.Error())
		}
		st.db = db
		knobs()
		return "ok"
	}
	if st == nil || st.db == nil {
		return "no-db"
	}
	switch t[0] {
	case "tx":
		nb := atoi(t[4])
		pos := 5
		type blk struct {
			h common.Uint256
			d []byte
		}
		var blocks []blk
		for i := 0; i < nb; i++ {
			blocks = append(blocks, blk{hashOf(t[pos]), bytesOf(t[pos+1])})
			pos += 2
		}
		nk := atoi(t[pos])
		pos++
		var kvs [][2][]byte
		for i := 0; i < nk; i++ {
			if t[pos+1] == "del" {
				kvs = append(kvs, [2][]byte{bytesOf(t[pos]), nil})
			} else {
				kvs = append(kvs, [2][]byte{bytesOf(t[pos]), bytesOf(t[pos+1])})
			}
			pos += 2
		}
		crashed, err := dies(t[1], atoi(t[2]), atoi(t[3]), func() error {
			tx, err := st.db.Begin(true)
			if err != nil {
				return err
			}
			for _, kv := range kvs {
				var err error
				if kv[1] == nil {
					err = tx.Metadata().Delete(kv[0])
				} else {
					err = tx.Metadata().Put(kv[0], kv[1])
				}
				if err != nil {
					_ = tx.Rollback()
					return err
				}
			}
			for _, b := range blocks {
				if err := tx.StoreBlock(b.h, b.d); err != nil {
					_ = tx.Rollback()
					return err
				}
			}
			return tx.Commit()
		})
		if crashed {
			return reopenAfterCrash()
		}
		if err != nil {
			return "err " + err.Error()
		}
		return "ok " + cursor()
	case "flush":
		crashed, err := dies(t[1], atoi(t[2]), 0, func() error { return ffldb.VerifFlush(st.db) })
		if crashed {
			return reopenAfterCrash()
		}
		if err != nil {
			return "err " + err.Error()
		}
		return "ok"
	case "crash":
		return reopenAfterCrash()
	case "armreopen":
		st.reArm = []string{t[1], t[2]}
		return "ok"
	case "knob": // knob cacheMax never|always : change the cache limits of the open database
		st.cacheMax, st.always = uint64(atoi(t[1])), t[2] == "always"
		knobs()
		return "ok"
	case "reopen":
		if err := st.db.Close(); err != nil {
			panic("harness: close: " + err.Error())
		}
		st.db = nil
		db, err := openFF(false)
		if err != nil {
			return "err"
		}
		st.db = db
		knobs()
		return "ok " + cursor()
	case "read":
		nh := atoi(t[1])
		var parts []string
		_ = st.db.View(func(tx database.Tx) error {
			for _, h := range t[2 : 2+nh] {
				hh := hashOf(h)
				d, err := tx.FetchBlock(&hh)
				if err != nil {
					parts = append(parts, h+"=miss")
					continue
				}
				n := len(d)
				if n > 4 {
					n = 4
				}
				parts = append(parts, fmt.Sprintf("%s=%d:%s", h, len(d), hx.Hex(d[:n])))
			}
			for _, k := range t[3+nh:] {
				v := tx.Metadata().Get(bytesOf(k))
				if v == nil {
					parts = append(parts, k+"=nil")
				} else {
					parts = append(parts, k+"="+hx.Hex(v))
				}
			}
			return nil
		})
		return strings.Join(parts, " ")
	case "files":
		ents, _ := os.ReadDir(st.dir)
		var parts []string
		for _, e := range ents {
			if strings.HasSuffix(e.Name(), ".fdb") {
				n, _ := strconv.Atoi(strings.TrimSuffix(e.Name(), ".fdb"))
				fi, _ := e.Info()
				parts = append(parts, fmt.Sprintf("%09d:%d", n, fi.Size()))
			}
		}
		sort.Strings(parts)
		for i, p := range parts {
			f := strings.Split(p, ":")
			n, _ := strconv.Atoi(f[0])
			parts[i] = fmt.Sprintf("%d:%s", n, f[1])
		}
		if len(parts) == 0 {
			return "none"
		}
		return strings.Join(parts, ",")
	case "stats":
		k, r, _ := ffldb.VerifCacheStats(st.db)
		return fmt.Sprintf("%d %d", k, r)
	}
	panic("harness: unknown op " + strings.Join(t, " "))
}

// ---------------------------------------------------------------- oracle

type commitRec struct {
	blocks map[string]string // hash token -> data
	kvs    map[string]string // key token -> value hex
}

type ostate struct {
	hist    []commitRec // completed commits, plus (last) an interrupted one while crashed is set
	durable int         // commits known to have reached leveldb
	crashed bool        // a crash happened since the last read
	always  bool
}

var os_ *ostate

func viol(kind, detail string) *hx.Violation { return &hx.Violation{Kind: kind, Detail: detail} }

// what `read` must print if exactly the first n commits are visible
func (o *ostate) expect(n int, hashes, keys []string) string {
	blocks := map[string]string{}
	kvs := map[string]string{}
	for _, c := range o.hist[:n] {
		for h, d := range c.blocks {
			blocks[h] = d
		}
		for k, v := range c.kvs {
			if v == "del" {
				delete(kvs, k)
			} else {
				kvs[k] = v
			}
		}
	}
	var parts []string
	for _, h := range hashes {
		d, ok := blocks[h]
		if !ok {
			parts = append(parts, h+"=miss")
			continue
		}
		n := len(d)
		if n > 4 {
			n = 4
		}
		parts = append(parts, fmt.Sprintf("%s=%d:%s", h, len(d), hx.Hex([]byte(d[:n]))))
	}
	for _, k := range keys {
		v, ok := kvs[k]
		if !ok {
			parts = append(parts, k+"=nil")
		} else {
			parts = append(parts, k+"="+v)
		}
	}
	return strings.Join(parts, " ")
}

func parseTx(t []string) commitRec {
	c := commitRec{blocks: map[string]string{}, kvs: map[string]string{}}
	nb := atoi(t[4])
	pos := 5
	for i := 0; i < nb; i++ {
		c.blocks[t[pos]] = string(bytesOf(t[pos+1]))
		pos += 2
	}
	nk := atoi(t[pos])
	pos++
	for i := 0; i < nk; i++ {
		if t[pos+1] == "del" {
			c.kvs[t[pos]] = "del"
		} else {
			c.kvs[t[pos]] = hx.Hex(bytesOf(t[pos+1]))
		}
		pos += 2
	}
	return c
}

func oracle(t []string, out string) *hx.Violation {
	if t[0] == "reset" {
		os_ = nil
		return nil
	}
	if t[0] == "open" {
		os_ = &ostate{always: t[4] == "always"}
		return nil
	}
	o := os_
	if o == nil {
		return nil
	}
	if out == "panic" {
		return viol("ffldb-panic", "database operation panicked: "+hx.LastPanic())
	}
	if strings.HasSuffix(out, "reopen err") || out == "err" {
		return viol("reopen-failed", "the database does not open after the crash: "+out)
	}
	switch t[0] {
	case "tx":
		if o.crashed { // an unread crash: the visible prefix is unknown, do not judge further
			return nil
		}
		switch {
		case strings.HasPrefix(out, "ok"):
			o.hist = append(o.hist, parseTx(t))
			if o.always {
				o.durable = len(o.hist)
			}
		case strings.HasPrefix(out, "crashed"):
			o.hist = append(o.hist, parseTx(t)) // candidate: the interrupted commit may be complete
			o.crashed = true
		default:
			return viol("commit-failed", "commit after a recovered crash failed: "+out)
		}
	case "flush":
		if o.crashed {
			return nil
		}
		if out == "ok" {
			o.durable = len(o.hist)
		} else if strings.HasPrefix(out, "crashed") {
			o.crashed = true
		}
	case "crash":
		o.crashed = true
	case "knob":
		o.always = t[2] == "always"
	case "reopen":
		if !o.crashed {
			o.durable = len(o.hist)
		}
	case "read":
		nh := atoi(t[1])
		hashes, keys := t[2:2+nh], t[3+nh:]
		if !o.crashed {
			if want := o.expect(len(o.hist), hashes, keys); out != want {
				return viol("read-differs", "after commits without a crash: got "+clip(out)+" want "+clip(want))
			}
			return nil
		}
		// after a crash: exactly the state after some prefix of the commits, not shorter than
		// what was already durable; never a mixture
		for n := len(o.hist); n >= o.durable; n-- {
			if o.expect(n, hashes, keys) == out {
				o.hist = o.hist[:n]
				o.durable = n
				o.crashed = false
				return nil
			}
		}
		o.crashed = false
		want := o.expect(o.durable, hashes, keys)
		o.hist = o.hist[:o.durable]
		return viol("crash-not-atomic", fmt.Sprintf("after crash+reopen the database shows neither the last durable commit (#%d) nor any later completed/interrupted one: got %s ; last durable would be %s", o.durable, clip(out), clip(want)))
	}
	return nil
}

func clip(s string) string {
	if len(s) > 400 {
		return s[:400] + "…"
	}
	return s
}

// ---------------------------------------------------------------- generator

var points = []string{
	"writeBlock.rollover",
	"writeData.before.network", "writeData.torn.network", "writeData.after.network",
	"writeData.before.block_length", "writeData.after.block_length",
	"writeData.before.block", "writeData.torn.block", "writeData.after.block",
	"writeData.before.checksum", "writeData.torn.checksum", "writeData.after.checksum",
	"commit.afterBlocks", "commit.beforeCache",
	"flush.afterSync", "commitTreaps.mid", "flush.afterCommit", "commitTx.afterFlush", "commitTx.afterWrite",
}

func writeRow0() string {
	row := make([]byte, 12)
	binary.LittleEndian.PutUint32(row[8:], crc32.Checksum(row[:8], crc32.MakeTable(crc32.Castagnoli)))
	return hx.Hex(row)
}

func genHistory(g *hx.Gen) {
	r := g.R
	g.Emit("reset")
	max := r.Pick(64, 200, 200, 4096)
	cacheMax := r.Pick(0, 0, 400, 400, 20971520)
	mode := "never"
	if r.Chance(35) {
		mode = "always"
	}
	g.Emit("open %d %d %d %s %s", 0x0b110907, max, cacheMax, mode, writeRow0())
	var hashes []string
	keys := []string{"6b31", "6b32", "6b33"}
	seq := 0
	readAll := func() {
		g.Emit("read %d %s %d %s", len(hashes), strings.Join(hashes, " "), len(keys), strings.Join(keys, " "))
	}
	for i := 0; i < 6+r.Intn(10); i++ {
		x := r.Intn(100)
		switch {
		case x < 70:
			point, skip, torn := "none", 0, 0
			nb := r.Intn(4)
			if r.Chance(65) {
				point = points[r.Intn(len(points))]
				skip = r.Intn(2*nb + 2)
				if r.Chance(50) {
					skip = 0
				}
				torn = r.Intn(max)
			}
			var parts []string
			for k := 0; k < nb; k++ {
				seq++
				h := fmt.Sprintf("%02x%02x%s", seq>>8, seq&0xff, hx.Hex(r.Bytes(1)))
				hashes = append(hashes, h)
				n := r.Intn(max - 11)
				if r.Chance(25) {
					n = max - 12 - r.Intn(3)
				}
				parts = append(parts, h, hx.Hex(r.Bytes(n)))
			}
			nk := r.Intn(4)
			var kparts []string
			for k := 0; k < nk; k++ {
				seq++
				if r.Chance(30) {
					kparts = append(kparts, keys[r.Intn(len(keys))], "del")
				} else {
					kparts = append(kparts, keys[r.Intn(len(keys))], fmt.Sprintf("%04x%s", seq, hx.Hex(r.Bytes(2))))
				}
			}
			if point != "none" && r.Chance(35) {
				g.Emit("armreopen %s %d", []string{"rollback.afterDelete", "rollback.beforeTruncate", "rollback.afterTruncate"}[r.Intn(3)], r.Intn(2))
			}
			g.Emit("tx %s %d %d %d %s %d %s", point, skip, torn, nb, strings.Join(parts, " "), nk, strings.Join(kparts, " "))
		case x < 80:
			point, skip := "none", 0
			if r.Chance(60) {
				point = []string{"flush.afterSync", "commitTreaps.mid", "flush.afterCommit"}[r.Intn(3)]
			}
			g.Emit("flush %s %d", point, skip)
		case x < 86:
			g.Emit("crash")
		case x < 92:
			m := "never"
			if r.Chance(40) {
				m = "always"
			}
			g.Emit("knob %d %s", r.Pick(0, 0, 400, 20971520), m)
		default:
			g.Emit("reopen")
		}
		readAll()
		if r.Chance(30) {
			g.Emit("files")
			g.Emit("stats")
		}
	}
	g.Emit("reopen")
	readAll()
	g.Emit("files")
}

func gen(g *hx.Gen) {
	for h := 0; h < g.N(100, 1000); h++ {
		genHistory(g)
	}
	g.Emit("reset")
	closeAll()
	if baseDir != "" {
		os.RemoveAll(baseDir)
	}
}

func nontrivial(t []string, out string) bool {
	return t[0] == "tx" && strings.HasPrefix(out, "crashed")
}

func bucket(t []string, out string) string {
	switch t[0] {
	case "tx", "flush":
		f := strings.Fields(out)
		r := "ok"
		if len(f) > 0 && f[0] == "crashed" {
			r = "crashed@" + t[1]
		} else if len(f) > 0 && f[0] != "ok" {
			r = f[0]
		}
		return t[0] + "/" + r
	}
	return t[0]
}

func main() {
	hx.Main(&hx.Prop{Name: "C17", Gen: gen, Exec: exec, Oracle: oracle, Nontrivial: nontrivial, Bucket: bucket, Stateful: true})
}
