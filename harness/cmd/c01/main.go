// Harness for C01: no transaction creates value.
//
// Streams (first token):
//
//	fee  <n> o1..on <m> r1..rm
//	     real getTransactionFee (hook) and blockchain.GetTxFee on a TransferAsset
//	     with these output values and reference values          -> "<fee> <blockfee>"
//	flow <kind> <flags> <minFee> <special> <n> o1..on <m> r1..rm      (m = number of inputs)
//	     the REAL DefaultChecker.SanityCheck and ContextCheck of a transaction of
//	     Go tx type <kind> (decimal). Only checks that have nothing to do with
//	     amounts are stubbed through an interface wrapper (height/version, size,
//	     the non-arithmetic part of SpecialContextCheck = <special> oracle value,
//	     UTXO lookup = the r values, double-spend lookup). Everything that looks
//	     at amounts is the real code: CheckTransactionInput/Output of the type,
//	     the sanity-level output total check, SpecialContextCheck of
//	     CRCAppropriation / CRAssetsRectify, CheckTransactionFee of the type.
//	     -> "<sanity> <context>"  sanity: ok|in|out   context: ok:<fee>|end|special|balance|-
//	e2e  <mode> <n> o1..on <r>
//	     signed TransferAsset spending the genesis coinbase output (a real UTXO
//	     owned by the harness key) through BlockChain.CheckTransactionSanity,
//	     BlockChain.CheckTransactionContext and TxPool.AppendToTxPool, nothing
//	     stubbed (mode real; r must be the genesis amount) or with the looked-up
//	     reference value replaced by r through the public UTXO cache (mode cache)
//	     -> "<sanity> <context> <pool>"
//	spend <ntx> [ <m> (idx seq)* <n> o1..on ]*
//	     a real regnet node (harness/regnet) whose block 1 holds ONE funding transaction with eight
//	     outputs of different values (1000 ELA, 0.01 ELA, ...) owned by account 1.  Each listed signed
//	     TransferAsset spends the outputs idx.. of that funding transaction; the transactions are
//	     checked one after the other on the same, initially empty, UTXO cache through the real
//	     CheckTransactionSanity, CheckTransactionContext (real UTXOCache.GetTxReference -> store) and a
//	     fresh TxPool.AppendToTxPool.                 -> "<sanity> <context> <pool>" per tx, joined by " ; "
//	actcr <afterNFT> <n> o1..on <r>
//	     ActivateProducer of an inactive CR member (committee state planted
//	     in-process), real SanityCheck + real ContextCheck   -> "<sanity> <context>"
package main

import (
	"bytes"
	"fmt"
	"math"
	"math/big"
	"os"
	"path/filepath"
	"strconv"
	"strings"

	"elaverif/harness/hx"
	"elaverif/harness/regnet"

	"github.com/elastos/Elastos.ELA/account"
	"github.com/elastos/Elastos.ELA/blockchain"
	"github.com/elastos/Elastos.ELA/common"
	"github.com/elastos/Elastos.ELA/common/config"
	"github.com/elastos/Elastos.ELA/core"
	"github.com/elastos/Elastos.ELA/core/checkpoint"
	"github.com/elastos/Elastos.ELA/core/contract"
	pg "github.com/elastos/Elastos.ELA/core/contract/program"
	"github.com/elastos/Elastos.ELA/core/transaction"
	common2 "github.com/elastos/Elastos.ELA/core/types/common"
	"github.com/elastos/Elastos.ELA/core/types/functions"
	"github.com/elastos/Elastos.ELA/core/types/interfaces"
	"github.com/elastos/Elastos.ELA/core/types/outputpayload"
	"github.com/elastos/Elastos.ELA/core/types/payload"
	crstate "github.com/elastos/Elastos.ELA/cr/state"
	"github.com/elastos/Elastos.ELA/crypto"
	"github.com/elastos/Elastos.ELA/dpos/state"
	elaerr "github.com/elastos/Elastos.ELA/errors"
	"github.com/elastos/Elastos.ELA/mempool"
)

// ---------------------------------------------------------------- node in a process (genesis only)

var (
	chain     *blockchain.BlockChain
	params    *config.Configuration
	realStore blockchain.IChainStore
	acct      *account.Account
	ckp       *checkpoint.Manager
	genesisCB common.Uint256
	ready     bool
)

const genesisAmount = 3300 * 10000 * 100000000

type noDoubleSpendStore struct{ blockchain.IChainStore }

func (noDoubleSpendStore) IsDoubleSpend(interfaces.Transaction) bool { return false }

func setup() {
	if ready {
		return
	}
	ready = true
	functions.GetTransactionByTxType = transaction.GetTransaction
	functions.GetTransactionByBytes = transaction.GetTransactionByBytes
	functions.CreateTransaction = transaction.CreateTransaction
	functions.GetTransactionParameters = transaction.GetTransactionparameters

	priv := make([]byte, 32)
	for i := range priv {
		priv[i] = byte(0x11 + i)
	}
	var err error
	acct, err = account.NewAccountWithPrivateKey(priv)
	if err != nil {
		panic("harness: account: " + err.Error())
	}
	dir, err := os.MkdirTemp("", "c01chain")
	if err != nil {
		panic("harness: " + err.Error())
	}
	params = config.GetDefaultParams()
	params.DataDir = dir
	ph := acct.ProgramHash
	params.FoundationProgramHash = &ph
	params.GenesisBlock = core.GenesisBlock(ph)
	params.PowConfiguration.CoinbaseMaturity = 0
	params.DPoSConfiguration.NFTStartHeight = 0 // a network with the NFT-era rules from the start
	blockchain.FoundationAddress = ph
	config.DefaultParams = *params

	store, err := blockchain.NewChainStore(filepath.Join(dir, "data"), params)
	if err != nil {
		panic("harness: chainstore: " + err.Error())
	}
	realStore = store
	ckp = checkpoint.NewManager(params)
	ckp.SetDataPath(filepath.Join(dir, "checkpoints"))
	committee := crstate.NewCommittee(params, ckp)
	chain, err = blockchain.New(store, params,
		state.NewState(params, nil, nil, nil, func() bool { return false },
			nil, nil, nil, nil, nil, nil, nil),
		committee, ckp)
	if err != nil {
		panic("harness: blockchain.New: " + err.Error())
	}
	committee.RegisterFuncitons(&crstate.CommitteeFuncsConfig{
		GetTxReference:                   chain.UTXOCache.GetTxReference,
		GetUTXO:                          store.GetFFLDB().GetUTXO,
		GetHeight:                        func() uint32 { return chain.GetHeight() },
		CreateCRAppropriationTransaction: chain.CreateCRCAppropriationTransaction,
	})
	if err := chain.Init(nil); err != nil {
		panic("harness: chain.Init: " + err.Error())
	}
	arbiters, err := state.NewArbitrators(params, nil, nil, nil, nil, nil, nil, nil, nil, ckp)
	if err != nil {
		panic("harness: arbitrators: " + err.Error())
	}
	arbiters.RegisterFunction(store.GetHeight, func() *common.Uint256 { return &common.Uint256{} },
		nil, nil)
	blockchain.DefaultLedger = &blockchain.Ledger{Blockchain: chain, Arbitrators: arbiters, Store: store, Committee: committee}
	genesisCB = params.GenesisBlock.Transactions[0].Hash()
}

// ---------------------------------------------------------------- helpers

func f64(s string) common.Fixed64 {
	v, err := strconv.ParseInt(s, 10, 64)
	if err != nil {
		panic("harness: bad amount " + s)
	}
	return common.Fixed64(v)
}
func atoi(s string) int {
	v, err := strconv.Atoi(s)
	if err != nil {
		panic("harness: bad int " + s)
	}
	return v
}

// parseVec reads "<n> v1..vn" at t[i:], returns the values and the next index.
func parseVec(t []string, i int) ([]common.Fixed64, int) {
	n := atoi(t[i])
	i++
	if i+n > len(t) {
		panic("harness: short vector")
	}
	res := make([]common.Fixed64, n)
	for k := 0; k < n; k++ {
		res[k] = f64(t[i+k])
	}
	return res, i + n
}

func mkOutputs(vals []common.Fixed64, ph common.Uint168) []*common2.Output {
	outs := make([]*common2.Output, len(vals))
	for i, v := range vals {
		outs[i] = &common2.Output{AssetID: core.ELAAssetID, Value: v, ProgramHash: ph,
			Type: common2.OTNone, Payload: &outputpayload.DefaultOutput{}}
	}
	return outs
}

// one transaction input of an op line: which previous output it references (id), its Sequence,
// and the value of that previous output (equal ids must carry equal values)
type inTok struct {
	id  int
	seq uint32
	val common.Fixed64
}

// parseIns reads "<m> id1 seq1 val1 .. idm seqm valm" at t[i:]
func parseIns(t []string, i int) ([]inTok, int) {
	m := atoi(t[i])
	i++
	if i+3*m > len(t) {
		panic("harness: short input list")
	}
	res := make([]inTok, m)
	seen := map[int]common.Fixed64{}
	for k := 0; k < m; k++ {
		res[k] = inTok{atoi(t[i+3*k]), uint32(atoi(t[i+3*k+1])), f64(t[i+3*k+2])}
		if v, ok := seen[res[k].id]; ok && v != res[k].val {
			panic("harness: one outpoint with two values")
		}
		seen[res[k].id] = res[k].val
	}
	return res, i + 3*m
}

func outPoint(id int) common2.OutPoint {
	var h common.Uint256
	h[0] = 0xc0
	h[1] = byte(id >> 16)
	h[2] = byte(id >> 8)
	h[3] = byte(id)
	return common2.OutPoint{TxID: h, Index: uint16(id)}
}

func mkInputs(ins []inTok) []*common2.Input {
	res := make([]*common2.Input, len(ins))
	for i, in := range ins {
		res[i] = &common2.Input{Previous: outPoint(in.id), Sequence: in.seq}
	}
	return res
}

// refMap: what UTXOCache.GetTxReference returns for these inputs (keyed by *Input)
func refMap(inputs []*common2.Input, ins []inTok, ph common.Uint168) map[*common2.Input]common2.Output {
	m := make(map[*common2.Input]common2.Output, len(ins))
	for i, in := range ins {
		m[inputs[i]] = common2.Output{AssetID: core.ELAAssetID, Value: in.val, ProgramHash: ph}
	}
	return m
}

// distinctRefs: the value of every distinct previous output the inputs reference, once each
func distinctRefs(ins []inTok) []common.Fixed64 {
	seen := map[int]bool{}
	var res []common.Fixed64
	for _, in := range ins {
		if !seen[in.id] {
			seen[in.id] = true
			res = append(res, in.val)
		}
	}
	return res
}

func insVec(ins []inTok) string {
	var b strings.Builder
	b.WriteString(strconv.Itoa(len(ins)))
	for _, in := range ins {
		fmt.Fprintf(&b, " %d %d %d", in.id, in.seq, int64(in.val))
	}
	return b.String()
}

// plainIns: one fresh outpoint per value
func plainIns(vals []int64) []inTok {
	res := make([]inTok, len(vals))
	for i, v := range vals {
		res[i] = inTok{i, 0, common.Fixed64(v)}
	}
	return res
}

// ---------------------------------------------------------------- the interface wrapper (stubs for amount-free checks)

type stubTx struct {
	interfaces.Transaction
	kind       common2.TxType
	afterNFT   bool
	special    string // "ok" | "alt" | "rej"  (see Model/Fee.lean `Special`)
	specialRes string
}

func (s *stubTx) HeightVersionCheck() error      { return nil }
func (s *stubTx) CheckTransactionSize() error    { return nil }
func (s *stubTx) CheckAttributeProgram() error   { return nil }
func (s *stubTx) CheckTransactionPayload() error { return nil }
func (s *stubTx) IsAllowedInPOWConsensus() bool  { return true }

// zero-cost types whose SpecialContextCheck ends with `return nil, true`
// (pinned by the regenerated table, lemma C01_gen_kinds)
var zeroKinds = map[common2.TxType]bool{14: true, 15: true, 16: true, 17: true, 18: true, 19: true, 20: true, 21: true,
	65: true, 66: true, 102: true, 114: true}

// SpecialContextCheck: the amount rules (CRCAppropriation, CRAssetsRectify) are
// the real code; for every other type the check is about signatures and
// producer / CR state, so its verdict is the op's oracle value and only the
// `end` flag of the type's success path is reproduced here.
func (s *stubTx) SpecialContextCheck() (e elaerr.ELAError, end bool) {
	defer func() {
		if e != nil {
			s.specialRes = "special"
		} else if end {
			s.specialRes = "end"
		}
	}()
	switch s.special {
	case "rej":
		return elaerr.Simple(elaerr.ErrTxPayload, fmt.Errorf("stub: special check rejects")), true
	case "alt": // ActivateProducer, CR council member branch
		if s.kind != common2.ActivateProducer {
			panic("harness: alt is for ActivateProducer only")
		}
		return nil, true
	}
	switch {
	case s.kind == common2.CRCAppropriation || s.kind == common2.CRAssetsRectify:
		return s.Transaction.SpecialContextCheck()
	case zeroKinds[s.kind]:
		return nil, true
	case s.kind == common2.SideChainPow:
		return nil, s.Transaction.IsNewSideChainPowTx()
	case s.kind == common2.ActivateProducer:
		return nil, !s.afterNFT
	}
	return nil, false
}

// payloadFor gives every kind a payload value of its own type (never inspected
// by the amount checks; needed so that Hash()/Serialize do not dereference nil).
func payloadFor(kind common2.TxType) interfaces.Payload {
	p, err := interfaces.GetPayload(kind, 0)
	if err != nil || p == nil {
		return &payload.TransferAsset{}
	}
	return p
}

// ---------------------------------------------------------------- ops

func classify(e elaerr.ELAError, okv string) string {
	if e == nil {
		return okv
	}
	switch e.Code() {
	case elaerr.ErrTxInvalidInput:
		return "in"
	case elaerr.ErrTxInvalidOutput:
		return "out"
	case elaerr.ErrTxBalance:
		return "balance"
	}
	return "other:" + strconv.Itoa(int(e.Code()))
}

func execFee(t []string) string {
	setup()
	outs, i := parseVec(t, 1)
	its, _ := parseIns(t, i)
	ins := mkInputs(its)
	tx := functions.CreateTransaction(common2.TxVersion09, common2.TransferAsset, 0, &payload.TransferAsset{},
		nil, ins, mkOutputs(outs, acct.ProgramHash), 0, nil)
	rm := refMap(ins, its, acct.ProgramHash)
	return fmt.Sprintf("%d %d", int64(transaction.VerifGetTransactionFee(tx, rm)),
		int64(blockchain.GetTxFee(tx, core.ELAAssetID, rm)))
}

func flowConfig(flags string, minFee common.Fixed64) (*config.Configuration, uint32) {
	cfg := *params
	cfg.MinTransactionFee = minFee
	cfg.DPoSConfiguration.NFTStartHeight = 1000
	height := uint32(1000)
	if strings.Contains(flags, "a") { // after NFTStartHeight
		height = 1001
	}
	cfg.MultiExchangeVotesStartHeight = math.MaxUint32
	if strings.Contains(flags, "m") {
		cfg.MultiExchangeVotesStartHeight = 0
	}
	cfg.CRConfiguration.RectifyTxFee = 10000
	cfg.CRConfiguration.MinCRAssetsAddressUTXOCount = 0
	cfg.CRConfiguration.MaxCRAssetsAddressUTXOCount = 1 << 20
	return &cfg, height
}

// a second asset id (outputs of another asset than ELA)
var foreignAsset = common.Uint256{0xa5, 0x5e, 0x70, 0x01}

func execFlow(t []string) string {
	setup()
	kind := common2.TxType(atoi(t[1]))
	flags := t[2]
	minFee := f64(t[3])
	special := t[4]
	outs, i := parseVec(t, 5)
	its, _ := parseIns(t, i)
	cfg, height := flowConfig(flags, minFee)

	outPH := acct.ProgramHash
	refPH := acct.ProgramHash
	switch kind {
	case common2.CRCAppropriation, common2.CRAssetsRectify:
		refPH = *cfg.CRConfiguration.CRAssetsProgramHash
	}
	outputs := mkOutputs(outs, outPH)
	switch kind {
	case common2.CRCAppropriation:
		if len(outputs) > 0 {
			outputs[0].ProgramHash = *cfg.CRConfiguration.CRExpensesProgramHash
		}
		if len(outputs) > 1 {
			outputs[1].ProgramHash = *cfg.CRConfiguration.CRAssetsProgramHash
		}
		// the committee asks for exactly the first output (amount rule is not an overflow question)
		chain.GetCRCommittee().NeedAppropriation = true
		if len(outs) > 0 {
			chain.GetCRCommittee().AppropriationAmount = outs[0]
		}
	case common2.CRAssetsRectify:
		if len(outputs) > 0 {
			outputs[0].ProgramHash = *cfg.CRConfiguration.CRAssetsProgramHash
		}
	case common2.ExchangeVotes:
		if len(outputs) > 0 {
			outputs[0].Type = common2.OTStake
			outputs[0].ProgramHash = *cfg.StakePoolProgramHash
			outputs[0].Payload = &outputpayload.ExchangeVotesOutput{Version: 0, StakeAddress: stakeAddr()}
		}
	}
	if t[0] == "flowx" && len(outputs) > 0 { // the last output is denominated in another asset
		outputs[len(outputs)-1].AssetID = foreignAsset
	}
	ins := mkInputs(its)
	var programs []*pg.Program
	if kind == common2.ExchangeVotes {
		programs = []*pg.Program{{Code: acct.RedeemScript, Parameter: []byte{}}}
	}
	inner := functions.CreateTransaction(common2.TxVersion09, kind, 0, payloadFor(kind), nil, ins, outputs, 0, programs)
	st := &stubTx{Transaction: inner, kind: kind, afterNFT: strings.Contains(flags, "a"), special: special}
	rm := refMap(ins, its, refPH)
	// UTXO lookup = the value of each referenced previous output (public cache API of the node;
	// the cache is keyed by the Input value, so the same outpoint under another Sequence is
	// another cache line with the same previous output behind it, as a store lookup would give)
	chain.UTXOCache.CleanCache()
	for in, o := range rm {
		oc := o
		chain.UTXOCache.InsertReference(in, &oc)
	}
	blockchain.DefaultLedger.Store = noDoubleSpendStore{realStore}
	defer func() { blockchain.DefaultLedger.Store = realStore }()

	para := &transaction.TransactionParameters{Transaction: st, BlockHeight: height, Config: cfg, BlockChain: chain}
	san := classify(inner.SanityCheck(para), "ok")
	if strings.HasPrefix(san, "other") {
		san = "ok" // every check after the input/output stage is amount-free
	}
	if kind == common2.CoinBase || san != "ok" {
		return san + " -"
	}
	inner.SetFee(-1)
	_, cerr := inner.ContextCheck(para)
	var ctx string
	switch {
	case st.specialRes == "special":
		ctx = "special"
	case cerr != nil && cerr.Code() == elaerr.ErrTxBalance:
		ctx = "balance"
	case st.specialRes == "end" && cerr == nil:
		ctx = "end"
	case feeReached(inner):
		// fee check passed (later failures, e.g. the signature check, are amount-free)
		ctx = fmt.Sprintf("ok:%d", int64(inner.Fee()))
	default:
		ctx = "pre:" + strconv.Itoa(int(cerr.Code())) // stopped before the fee check: never expected
	}
	return san + " " + ctx
}

// feeReached: CheckTransactionFee sets the fee when it passes (we preset -1).
func feeReached(tx interfaces.Transaction) bool { return tx.Fee() != -1 }

func stakeAddr() common.Uint168 {
	ct, err := contract.CreateStakeContractByCode(acct.RedeemScript)
	if err != nil {
		panic("harness: stake contract: " + err.Error())
	}
	return *ct.ToProgramHash()
}

// execActCR: ActivateProducer sent by an inactive CR council member.  The
// committee state (election period, one inactive member whose DPoS node key
// the harness owns) is planted through exported fields; everything else is the
// real chain at genesis.  The transaction spends the genesis output (a real
// UTXO) and carries NO program / signature for it.
func execActCR(t []string) string {
	setup()
	h := uint32(atoi(t[1])) // block height handed to the checks (NFTStartHeight of this chain is 0)
	outs, _ := parseVec(t, 2)
	nodePriv := make([]byte, 32)
	for i := range nodePriv {
		nodePriv[i] = byte(0x51 + i)
	}
	nodeAcc, err := account.NewAccountWithPrivateKey(nodePriv)
	if err != nil {
		panic("harness: node key")
	}
	nodePK, _ := nodeAcc.PublicKey.EncodePoint(true)
	c := chain.GetCRCommittee()
	var cid common.Uint168
	cid[0] = 0x67
	oldMembers, oldElection := c.Members, c.InElectionPeriod
	c.Members = map[common.Uint168]*crstate.CRMember{cid: {
		Info: payload.CRInfo{CID: cid, DID: cid, NickName: "inactive-member"}, MemberState: crstate.MemberInactive, DPOSPublicKey: nodePK}}
	c.InElectionPeriod = true
	defer func() { c.Members, c.InElectionPeriod = oldMembers, oldElection }()

	mk := func() interfaces.Transaction {
		ap := &payload.ActivateProducer{NodePublicKey: nodePK}
		buf := new(bytes.Buffer)
		ap.SerializeUnsigned(buf, 0)
		sig, err := crypto.Sign(nodeAcc.PrivKey(), buf.Bytes())
		if err != nil {
			panic("harness: sign")
		}
		ap.Signature = sig
		in := &common2.Input{Previous: common2.OutPoint{TxID: genesisCB, Index: 0}, Sequence: 0}
		ins := []*common2.Input{in}
		if len(t) > 3+len(outs) && t[3+len(outs)] == "noinput" {
			ins = []*common2.Input{}
		}
		return functions.CreateTransaction(common2.TxVersion09, common2.ActivateProducer, 0, ap,
			[]*common2.Attribute{}, ins, mkOutputs(outs, acct.ProgramHash), 0, []*pg.Program{})
	}
	tx := mk()
	chain.UTXOCache.CleanCache()
	defer chain.UTXOCache.CleanCache()
	san := classify(chain.CheckTransactionSanity(h, tx), "ok")
	_, cerr := chain.CheckTransactionContext(h, tx, 0, 0)
	ctx := classify(cerr, "ok")
	pl := "-"
	if h == 1 {
		pool := mempool.NewTxPool(params, ckp)
		pl = classify(pool.AppendToTxPoolWithoutEvent(mk()), "ok")
	}
	return san + " " + ctx + " " + pl
}

func signedTransfer(outs []common.Fixed64, seqs []uint32) interfaces.Transaction {
	var ins []*common2.Input
	for _, q := range seqs {
		ins = append(ins, &common2.Input{Previous: common2.OutPoint{TxID: genesisCB, Index: 0}, Sequence: q})
	}
	tx := functions.CreateTransaction(common2.TxVersion09, common2.TransferAsset, 0, &payload.TransferAsset{},
		[]*common2.Attribute{}, ins, mkOutputs(outs, acct.ProgramHash), 0, []*pg.Program{})
	buf := new(bytes.Buffer)
	tx.SerializeUnsigned(buf)
	sig, err := crypto.Sign(acct.PrivKey(), buf.Bytes())
	if err != nil {
		panic("harness: sign: " + err.Error())
	}
	tx.SetPrograms([]*pg.Program{{Code: acct.RedeemScript, Parameter: append([]byte{byte(len(sig))}, sig...)}})
	return tx
}

func execE2E(t []string) string {
	setup()
	mode := t[1]
	outs, i := parseVec(t, 2)
	r := f64(t[i])
	seqs := []uint32{0}
	if i+1 < len(t) {
		k := atoi(t[i+1])
		seqs = nil
		for j := 0; j < k; j++ {
			seqs = append(seqs, uint32(atoi(t[i+2+j])))
		}
	}
	tx := signedTransfer(outs, seqs)
	chain.UTXOCache.CleanCache()
	switch mode {
	case "real":
		if r != genesisAmount {
			panic("harness: e2e real must reference the genesis amount")
		}
	case "cache":
		for _, in := range tx.Inputs() {
			chain.UTXOCache.InsertReference(in,
				&common2.Output{AssetID: core.ELAAssetID, Value: r, ProgramHash: acct.ProgramHash})
		}
	default:
		panic("harness: e2e mode")
	}
	defer chain.UTXOCache.CleanCache()
	san := classify(chain.CheckTransactionSanity(1, tx), "ok")
	tx.SetFee(-1)
	_, cerr := chain.CheckTransactionContext(1, tx, 0, 0)
	ctx := classify(cerr, "")
	if cerr == nil {
		ctx = fmt.Sprintf("ok:%d", int64(tx.Fee()))
	}
	pool := mempool.NewTxPool(params, ckp)
	perr := pool.AppendToTxPoolWithoutEvent(signedTransfer(outs, seqs))
	pl := classify(perr, "ok")
	return san + " " + ctx + " " + pl
}

// ---------------------------------------------------------------- real node, real reference lookup

var (
	rn       *regnet.Node
	rnLedger *blockchain.Ledger
	rnFound  common.Uint168
	fundTx   common.Uint256
	rnDir    string
)

// values of the eight outputs of the funding transaction (Lean: Driver/C01.lean `fundVals`)
var fundVals = []common.Fixed64{100000000000, 1000000, 100000000000, 500000000, 1000000, 250000000000, 1, 100000000}

func setupNode() {
	if rn != nil {
		return
	}
	setup()
	myLedger, myFound := blockchain.DefaultLedger, blockchain.FoundationAddress
	dir, err := os.MkdirTemp("", "c01node")
	if err != nil {
		panic("harness: " + err.Error())
	}
	rnDir = dir
	n, err := regnet.NewNode(dir, regnet.Options{NoPoolEvents: true, Tweak: func(p *config.Configuration) {
		p.PowConfiguration.CoinbaseMaturity = 0
	}})
	if err != nil {
		panic("harness: regnet: " + err.Error())
	}
	var outs []regnet.Out
	tot := common.Fixed64(0)
	for _, v := range fundVals {
		outs = append(outs, regnet.Out{To: 1, Value: v})
		tot += v
	}
	outs = append(outs, regnet.Out{To: 0, Value: genesisAmount - tot - 10000})
	fund, err := n.Transfer(0, []common2.OutPoint{{TxID: n.Genesis.Transactions[0].Hash(), Index: 0}}, outs, 1)
	if err != nil {
		panic("harness: fund: " + err.Error())
	}
	b1, err := n.Mine(n.Genesis, []interfaces.Transaction{fund})
	if err != nil {
		panic("harness: mine: " + err.Error())
	}
	if in, _, err := n.Deliver(b1); err != nil || !in {
		panic(fmt.Sprint("harness: deliver block 1: ", err))
	}
	fundTx = fund.Hash()
	rn = n
	rnLedger, rnFound = blockchain.DefaultLedger, blockchain.FoundationAddress
	blockchain.DefaultLedger, blockchain.FoundationAddress = myLedger, myFound
}

type spendTx struct {
	idx  []int
	seq  []uint32
	outs []common.Fixed64
}

func parseSpend(t []string) []spendTx {
	ntx := atoi(t[1])
	i := 2
	var res []spendTx
	for k := 0; k < ntx; k++ {
		m := atoi(t[i])
		i++
		var st spendTx
		for j := 0; j < m; j++ {
			st.idx = append(st.idx, atoi(t[i]))
			st.seq = append(st.seq, uint32(atoi(t[i+1])))
			i += 2
		}
		st.outs, i = parseVec(t, i)
		res = append(res, st)
	}
	return res
}

func execSpend(t []string) string {
	setupNode()
	myLedger, myFound, myParams := blockchain.DefaultLedger, blockchain.FoundationAddress, config.DefaultParams
	blockchain.DefaultLedger, blockchain.FoundationAddress, config.DefaultParams = rnLedger, rnFound, *rn.Params
	defer func() {
		blockchain.DefaultLedger, blockchain.FoundationAddress, config.DefaultParams = myLedger, myFound, myParams
	}()
	rn.Chain.UTXOCache.CleanCache()
	defer rn.Chain.UTXOCache.CleanCache()
	var parts []string
	for k, st := range parseSpend(t) {
		mk := func() interfaces.Transaction {
			var ins []*common2.Input
			for j := range st.idx {
				ins = append(ins, &common2.Input{Previous: common2.OutPoint{TxID: fundTx, Index: uint16(st.idx[j])}, Sequence: st.seq[j]})
			}
			var outs []*common2.Output
			for _, v := range st.outs {
				outs = append(outs, &common2.Output{AssetID: core.ELAAssetID, Value: v, ProgramHash: rn.Addr(2),
					Type: common2.OTNone, Payload: &outputpayload.DefaultOutput{}})
			}
			tx := functions.CreateTransaction(common2.TxVersion09, common2.TransferAsset, 0, &payload.TransferAsset{},
				[]*common2.Attribute{{Usage: common2.Nonce, Data: []byte{byte(k), 7}}}, ins, outs, 0, nil)
			if err := rn.Sign(tx, 1); err != nil {
				panic("harness: sign: " + err.Error())
			}
			return tx
		}
		tx := mk()
		san := classify(rn.Chain.CheckTransactionSanity(2, tx), "ok")
		tx.SetFee(-1)
		_, cerr := rn.Chain.CheckTransactionContext(2, tx, 0, 0)
		ctx := classify(cerr, "")
		if cerr == nil {
			ctx = fmt.Sprintf("ok:%d", int64(tx.Fee()))
		}
		pool := mempool.NewTxPool(rn.Params, rn.Chain.CkpManager)
		pl := classify(pool.AppendToTxPoolWithoutEvent(mk()), "ok")
		parts = append(parts, san+" "+ctx+" "+pl)
	}
	return strings.Join(parts, " ; ")
}

// orph <order> <m> (idx seq)* <n> o1..on
//
// two real blocks on the tip of the regnet node: an empty parent and a child that carries one signed
// TransferAsset spending outputs of the funding transaction (m = 0: no transaction), delivered
// through the real BlockChain.ProcessBlock parent-first (pc) or child-first (cp, the child waits as
// an orphan).  -> "adv=<how many blocks the best chain grew>"
func execOrph(t []string) string {
	setupNode()
	myLedger, myFound, myParams := blockchain.DefaultLedger, blockchain.FoundationAddress, config.DefaultParams
	blockchain.DefaultLedger, blockchain.FoundationAddress, config.DefaultParams = rnLedger, rnFound, *rn.Params
	defer func() {
		blockchain.DefaultLedger, blockchain.FoundationAddress, config.DefaultParams = myLedger, myFound, myParams
	}()
	rn.Chain.UTXOCache.CleanCache()
	defer rn.Chain.UTXOCache.CleanCache()
	sts := parseSpend(append([]string{"spend", "1"}, t[2:]...))
	st := sts[0]
	tipHash, h0 := rn.Tip()
	parent, err := rn.Mine(rn.Block(tipHash), nil)
	if err != nil {
		panic("harness: mine parent: " + err.Error())
	}
	var txs []interfaces.Transaction
	if len(st.idx) > 0 {
		var ins []*common2.Input
		for j := range st.idx {
			ins = append(ins, &common2.Input{Previous: common2.OutPoint{TxID: fundTx, Index: uint16(st.idx[j])}, Sequence: st.seq[j]})
		}
		var outs []*common2.Output
		for _, v := range st.outs {
			outs = append(outs, &common2.Output{AssetID: core.ELAAssetID, Value: v, ProgramHash: rn.Addr(2),
				Type: common2.OTNone, Payload: &outputpayload.DefaultOutput{}})
		}
		tx := functions.CreateTransaction(common2.TxVersion09, common2.TransferAsset, 0, &payload.TransferAsset{},
			[]*common2.Attribute{{Usage: common2.Nonce, Data: []byte{byte(h0), byte(h0 >> 8), 9}}}, ins, outs, 0, nil)
		if err := rn.Sign(tx, 1); err != nil {
			panic("harness: sign: " + err.Error())
		}
		txs = append(txs, tx)
	}
	child, err := rn.Mine(parent, txs)
	if err != nil {
		panic("harness: mine child: " + err.Error())
	}
	if t[1] == "cp" {
		rn.Deliver(child)
		rn.Deliver(parent)
	} else {
		rn.Deliver(parent)
		rn.Deliver(child)
	}
	_, h1 := rn.Tip()
	return fmt.Sprintf("adv=%d", h1-h0)
}

// ---------------------------------------------------------------- generator

const ELA = 100000000

func boundary(r *hx.Rand) int64 {
	d := int64(r.Intn(5)) - 2
	switch r.Intn(8) {
	case 0:
		return 1<<62 + d
	case 1:
		return math.MaxInt64 - int64(r.Intn(3))
	case 2:
		return 1<<61 + d
	case 3:
		return int64(r.Intn(3))
	case 4:
		return (1 << 63) / 3 // ~ 2^63/3
	case 5:
		return int64(r.U64() >> 1)
	case 6:
		return int64(r.U64()>>2) | 1<<61
	}
	return int64(r.Intn(1000)) * ELA
}

func small(r *hx.Rand) int64 { return int64(r.Intn(2000000)) * 1000 }

// genAmounts: a vector of n output values and m reference values in several regimes
func genAmounts(r *hx.Rand, minFee int64) (outs, refs []int64) {
	n := 1 + r.Intn(6)
	m := 1 + r.Intn(4)
	if r.Chance(5) {
		n = 1 + r.Intn(40)
	}
	refs = make([]int64, m)
	outs = make([]int64, n)
	switch r.Intn(7) {
	case 0, 1: // ordinary small amounts around the fee boundary
		tot := int64(0)
		for i := range refs {
			refs[i] = small(r)
			tot += refs[i]
		}
		rest := tot - minFee + int64(r.Intn(5)) - 2
		for i := range outs {
			if i == n-1 {
				outs[i] = rest
			} else {
				outs[i] = rest / int64(n)
				if r.Chance(30) {
					outs[i] = 0
				}
				rest -= outs[i]
			}
		}
	case 2: // directed wrap: k outputs of 2^64/k plus the honest change
		k := []int{2, 4, 8, 16}[r.Intn(4)]
		if k == 2 {
			k = 4
		}
		outs = make([]int64, 0, k+1)
		per := new(big.Int).Div(new(big.Int).Lsh(big.NewInt(1), 64), big.NewInt(int64(k))).Int64()
		for i := 0; i < k; i++ {
			outs = append(outs, per)
		}
		tot := int64(0)
		for i := range refs {
			refs[i] = small(r) + 1000
			tot += refs[i]
		}
		outs = append(outs, tot-minFee+int64(r.Intn(3))-1)
		if outs[len(outs)-1] < 0 {
			outs[len(outs)-1] = 0
		}
	case 3: // boundary values everywhere
		for i := range refs {
			refs[i] = boundary(r)
		}
		for i := range outs {
			outs[i] = boundary(r)
		}
	case 4: // negative values appear
		for i := range refs {
			refs[i] = small(r)
		}
		for i := range outs {
			outs[i] = small(r)
			if r.Chance(40) {
				outs[i] = -outs[i] - int64(r.Intn(2))
			}
		}
	case 5: // wrapped sum lands exactly around inputs - fee, with huge addends
		tot := int64(0)
		for i := range refs {
			refs[i] = small(r) + 1000
			tot += refs[i]
		}
		acc := uint64(0)
		for i := 0; i < n-1; i++ {
			outs[i] = int64(r.U64() >> 1)
			acc += uint64(outs[i])
		}
		want := uint64(tot - minFee + int64(r.Intn(3)) - 1)
		outs[n-1] = int64(want - acc)
	default: // equal sums (zero fee), large honest amounts
		tot := int64(0)
		for i := range refs {
			refs[i] = int64(r.U64() >> 4)
			tot += refs[i]
		}
		rest := tot - int64(r.Intn(2))*minFee
		for i := range outs {
			if i == n-1 {
				outs[i] = rest
			} else {
				outs[i] = rest / 2
				rest -= outs[i]
			}
		}
	}
	return
}

// withDup references one of the previous outputs a second (third) time — with the same or with
// another Sequence — and re-aims the last output at what the fee helper would see if every
// reference counted: accepting such a transaction pays out a spent output twice.
func withDup(r *hx.Rand, its []inTok, outs []int64, minFee int64) ([]inTok, []int64) {
	if len(its) == 0 {
		return its, outs
	}
	n := 1 + r.Intn(2)
	for k := 0; k < n; k++ {
		src := its[r.Intn(len(its))]
		d := inTok{src.id, src.seq, src.val}
		if r.Chance(60) {
			d.seq = src.seq + 1 + uint32(r.Intn(3))
		}
		pos := r.Intn(len(its) + 1)
		its = append(its[:pos], append([]inTok{d}, its[pos:]...)...)
	}
	if len(outs) > 0 && r.Chance(80) {
		tot := uint64(0)
		for _, in := range its {
			tot += uint64(in.val)
		}
		acc := uint64(0)
		for _, o := range outs[:len(outs)-1] {
			acc += uint64(o)
		}
		outs = append([]int64(nil), outs...)
		outs[len(outs)-1] = int64(tot - uint64(minFee) - acc)
	}
	return its, outs
}

func vec(xs []int64) string {
	var b strings.Builder
	b.WriteString(strconv.Itoa(len(xs)))
	for _, x := range xs {
		b.WriteByte(' ')
		b.WriteString(strconv.FormatInt(x, 10))
	}
	return b.String()
}

// every Go tx type 0x00..0x7f the factory knows (the extractor pins the list)
func allKinds() []int {
	var ks []int
	for k := 0; k < 256; k++ {
		if _, err := transaction.GetTransaction(common2.TxType(k)); err == nil {
			ks = append(ks, k)
		}
	}
	return ks
}

func gen(g *hx.Gen) {
	setup()
	r := g.R
	n := g.N(6000, 300000)
	for i := 0; i < n; i++ {
		outs, refs := genAmounts(r, 100)
		its := plainIns(refs)
		if r.Chance(15) {
			its, outs = withDup(r, its, outs, 100)
		}
		g.Emit("fee %s %s", vec(outs), insVec(its))
	}
	kinds := allKinds()
	nf := g.N(4000, 120000)
	for i := 0; i < nf; i++ {
		kind := common2.TxType(kinds[r.Intn(len(kinds))])
		if r.Chance(35) {
			kind = common2.TransferAsset
		}
		if kind == common2.CoinBase {
			continue
		}
		minFee := int64(100)
		if r.Chance(10) {
			minFee = int64(r.Intn(3)) * 5000
		}
		outs, refs := genAmounts(r, minFee)
		flags := []string{"-", "a", "m", "am"}[r.Intn(4)]
		special := "ok"
		if r.Chance(10) {
			special = "rej"
		}
		switch kind {
		case common2.ActivateProducer:
			if r.Chance(30) {
				special = "alt"
			}
			if r.Chance(40) { // zero fee shapes
				s := uint64(0)
				for _, x := range refs {
					s += uint64(x)
				}
				acc := uint64(0)
				for _, o := range outs[:len(outs)-1] {
					acc += uint64(o)
				}
				outs[len(outs)-1] = int64(s - acc)
			}
		case common2.CRCAppropriation:
			if r.Chance(70) { // shape the vector the way the type wants it: two outputs
				for len(outs) < 2 {
					outs = append(outs, small(r))
				}
				outs = outs[len(outs)-2:]
				if r.Chance(60) { // balanced (possibly through a wrap)
					s := uint64(0)
					for _, x := range refs {
						s += uint64(x)
					}
					outs[1] = int64(s - uint64(outs[0]))
					if r.Chance(40) { // outputs above / below the CR-assets inputs: this type has no fee check behind it
						outs[1] += int64(r.Intn(2000)) - 1000
						if outs[1] < 0 {
							outs[1] = 0
						}
					}
				}
			}
		case common2.CRAssetsRectify:
			if r.Chance(70) {
				s := uint64(0)
				for _, x := range refs {
					s += uint64(x)
				}
				outs = []int64{int64(s - 10000 + uint64(r.Intn(2)))}
			}
		case common2.ExchangeVotes:
			if r.Chance(50) && len(outs) > 2 {
				outs = outs[len(outs)-2:]
			}
		}
		// zero-cost shapes: no inputs and no outputs, or only one of them
		if (zeroKinds[kind] || kind == common2.ActivateProducer || kind == common2.SideChainPow) && r.Chance(70) || r.Chance(5) {
			switch r.Intn(4) {
			case 0, 1:
				outs, refs = nil, nil
			case 2:
				refs = nil
			case 3:
				outs = nil
			}
		}
		if kind == common2.SideChainPow && r.Chance(40) {
			refs = nil
			outs = []int64{int64(r.Intn(2))}
		}
		its := plainIns(refs)
		if len(its) > 0 && r.Chance(20) {
			its, outs = withDup(r, its, outs, minFee)
		}
		if len(outs) >= 2 && r.Chance(12) { // last output in another asset; the others balance the inputs
			if kind == common2.ActivateProducer && r.Chance(70) {
				tot := uint64(0)
				for _, in := range its {
					tot += uint64(in.val)
				}
				acc := uint64(0)
				for _, o := range outs[:len(outs)-2] {
					acc += uint64(o)
				}
				outs[len(outs)-2] = int64(tot - acc)
			}
			g.Emit("flowx %d %s %d %s %s %s", kind, flags, minFee, special, vec(outs), insVec(its))
			continue
		}
		g.Emit("flow %d %s %d %s %s %s", kind, flags, minFee, special, vec(outs), insVec(its))
	}
	// output-count limits
	for _, c := range []int{65535, 65536} {
		outs := make([]int64, c)
		for i := range outs {
			outs[i] = 1
		}
		for _, k := range []common2.TxType{common2.TransferAsset, common2.RegisterProducer, common2.ExchangeVotes} {
			g.Emit("flow %d m 100 ok %s 1 0 0 %d", k, vec(outs), int64(c)+100)
		}
	}
	ne := g.N(150, 3000)
	for i := 0; i < ne; i++ {
		mode := "cache"
		minFee := int64(params.MinTransactionFee)
		outs, refs := genAmounts(r, minFee)
		rv := refs[0]
		if r.Chance(25) {
			mode = "real"
			rv = genesisAmount
		}
		// the genesis output referenced once, or several times under the same / other Sequence values
		seqs := []uint32{0}
		if r.Chance(25) {
			for k := 1 + r.Intn(2); k > 0; k-- {
				seqs = append(seqs, uint32(r.Intn(3)))
			}
		}
		if r.Chance(50) || len(seqs) > 1 { // re-aim the last output at what the fee helper sees
			acc := uint64(0)
			for _, o := range outs[:len(outs)-1] {
				acc += uint64(o)
			}
			outs[len(outs)-1] = int64(uint64(rv)*uint64(len(seqs)) - uint64(minFee+int64(r.Intn(3))-1) - acc)
		}
		var sb strings.Builder
		fmt.Fprintf(&sb, "%d", len(seqs))
		for _, q := range seqs {
			fmt.Fprintf(&sb, " %d", q)
		}
		g.Emit("e2e %s %s %d %s", mode, vec(outs), rv, sb.String())
	}
	// real reference lookup: several outputs of ONE funding transaction, within one tx and across two
	ns := g.N(150, 3000)
	for i := 0; i < ns; i++ {
		ntx := 1 + r.Intn(2)
		var sb strings.Builder
		fmt.Fprintf(&sb, "spend %d", ntx)
		for k := 0; k < ntx; k++ {
			m := 1 + r.Intn(3)
			perm := r.Intn(8)
			tot := int64(0)
			fmt.Fprintf(&sb, " %d", m)
			seen := map[int]bool{}
			for j := 0; j < m; j++ {
				idx := (perm + j*(1+r.Intn(3))) % 8
				if r.Chance(10) && j > 0 {
					idx = perm // duplicate outpoint
				}
				seq := r.Intn(2)
				fmt.Fprintf(&sb, " %d %d", idx, seq)
				if !seen[idx] {
					tot += int64(fundVals[idx])
				}
				seen[idx] = true
			}
			// pay out what is really spent minus a fee around the minimum - or what a confused lookup would allow
			var outs []int64
			switch r.Intn(4) {
			case 0:
				outs = []int64{tot - 100}
			case 1:
				outs = []int64{tot - 99}
			case 2:
				outs = []int64{int64(m)*int64(fundVals[perm]) - 100} // every input valued like the first one looked up
			default:
				outs = []int64{tot / 2, tot - tot/2 - int64(r.Intn(300))}
			}
			for j := range outs {
				if outs[j] < 0 {
					outs[j] = 0
				}
			}
			fmt.Fprintf(&sb, " %s", vec(outs))
		}
		g.Emit("%s", sb.String())
	}
	// blocks through the real ProcessBlock, in order and child-before-parent: only transactions that
	// must be refused (so the node's UTXO set stays as it is) and empty children
	no := g.N(24, 200)
	for i := 0; i < no; i++ {
		order := []string{"pc", "cp", "cp"}[r.Intn(3)]
		idx := r.Intn(8)
		v := int64(fundVals[idx])
		switch r.Intn(4) {
		case 0:
			g.Emit("orph %s 0 0", order)
		case 1: // wrapped total: four outputs of 2^62 plus the honest change
			g.Emit("orph %s 1 %d 0 5 4611686018427387904 4611686018427387904 4611686018427387904 4611686018427387904 %d", order, idx, v-100)
		case 2: // the same output twice
			g.Emit("orph %s 2 %d 0 %d 1 1 %d", order, idx, idx, 2*v-100)
		default: // pays out more than it spends
			g.Emit("orph %s 1 %d 0 1 %d", order, idx, v+int64(1+r.Intn(1000)))
		}
	}
}

// ---------------------------------------------------------------- oracle (independent of the Lean model)

func exactSum(xs []common.Fixed64) *big.Int {
	s := new(big.Int)
	for _, x := range xs {
		s.Add(s, big.NewInt(int64(x)))
	}
	return s
}

// supplyBound: the referenced values are non-negative and their exact total fits in int64
// (they are distinct unspent outputs of a ledger whose total supply is below 2^63 sela).
func supplyBound(refs []common.Fixed64) bool {
	for _, r := range refs {
		if r < 0 {
			return false
		}
	}
	return exactSum(refs).Cmp(new(big.Int).Lsh(big.NewInt(1), 63)) < 0
}

func judge(accepted bool, outs, refs []common.Fixed64, what string) *hx.Violation {
	if !accepted || !supplyBound(refs) {
		return nil
	}
	so, sr := exactSum(outs), exactSum(refs)
	if so.Cmp(sr) > 0 {
		return &hx.Violation{Kind: "value-created",
			Detail: fmt.Sprintf("%s accepted although the exact sum of outputs %s exceeds the exact sum of spent outputs %s", what, so, sr)}
	}
	for _, o := range outs {
		if o < 0 {
			return &hx.Violation{Kind: "negative-output",
				Detail: fmt.Sprintf("%s accepted with a negative output amount %d", what, int64(o))}
		}
	}
	return nil
}

func oracle(t []string, out string) *hx.Violation {
	f := strings.Fields(out)
	switch t[0] {
	case "orph":
		sts := parseSpend(append([]string{"spend", "1"}, t[2:]...))
		if len(sts[0].idx) == 0 || out != "adv=2" {
			return nil
		}
		seen := map[int]bool{}
		var refs []common.Fixed64
		for _, idx := range sts[0].idx {
			if !seen[idx] {
				refs = append(refs, fundVals[idx])
			}
			seen[idx] = true
		}
		return judge(true, sts[0].outs, refs, "BlockChain.ProcessBlock ("+t[1]+": child block delivered "+map[string]string{"cp": "before", "pc": "after"}[t[1]]+" its parent) connected the block, i.e.")
	case "flow", "flowx":
		if len(f) != 2 {
			return nil
		}
		outs, i := parseVec(t, 5)
		its, _ := parseIns(t, i)
		acc := f[0] == "ok" && (strings.HasPrefix(f[1], "ok:") || f[1] == "end")
		// every DISTINCT previous output counts once, however often the inputs reference it
		return judge(acc, outs, distinctRefs(its), "flow(kind "+t[1]+")")
	case "e2e":
		if len(f) != 3 {
			return nil
		}
		outs, i := parseVec(t, 2)
		refs := []common.Fixed64{f64(t[i])}
		if v := judge(f[0] == "ok" && strings.HasPrefix(f[1], "ok:"), outs, refs, "CheckTransactionSanity+CheckTransactionContext"); v != nil {
			return v
		}
		return judge(f[2] == "ok", outs, refs, "TxPool.AppendToTxPool")
	case "spend":
		parts := strings.Split(out, " ; ")
		for k, st := range parseSpend(t) {
			if k >= len(parts) {
				break
			}
			pf := strings.Fields(parts[k])
			if len(pf) != 3 {
				continue
			}
			seen := map[int]bool{}
			var refs []common.Fixed64
			for _, idx := range st.idx {
				if !seen[idx] {
					refs = append(refs, fundVals[idx])
				}
				seen[idx] = true
			}
			if v := judge(pf[0] == "ok" && strings.HasPrefix(pf[1], "ok:"), st.outs, refs,
				fmt.Sprintf("tx %d: CheckTransactionSanity+CheckTransactionContext (references from the real UTXO cache / store)", k+1)); v != nil {
				return v
			}
			if v := judge(pf[2] == "ok", st.outs, refs, fmt.Sprintf("tx %d: TxPool.AppendToTxPool", k+1)); v != nil {
				return v
			}
		}
	case "actcr":
		if len(f) != 3 {
			return nil
		}
		outs, i := parseVec(t, 2)
		refs := []common.Fixed64{genesisAmount}
		if i < len(t) && t[i] == "noinput" {
			refs = nil
		}
		return judge(f[0] == "ok" && f[1] == "ok", outs, refs,
			"ActivateProducer of an inactive CR member (no fee check, no signature check): CheckTransactionSanity+CheckTransactionContext")
	}
	return nil
}

func nontrivial(t []string, out string) bool {
	switch t[0] {
	case "fee":
		return len(t) > 4
	case "flow":
		return !strings.HasSuffix(out, "special")
	}
	return true
}

func bucket(t []string, out string) string {
	f := strings.Fields(out)
	switch t[0] {
	case "flow", "flowx", "e2e":
		k := t[0]
		for _, x := range f {
			if j := strings.IndexByte(x, ':'); j >= 0 {
				x = x[:j]
			}
			k += "/" + x
		}
		return k
	}
	return t[0]
}

func exec(t []string) string {
	switch t[0] {
	case "fee":
		return execFee(t)
	case "flow", "flowx":
		return execFlow(t)
	case "orph":
		return execOrph(t)
	case "e2e":
		return execE2E(t)
	case "actcr":
		return execActCR(t)
	case "spend":
		return execSpend(t)
	}
	panic("harness: unknown op " + t[0])
}

func main() {
	hx.Main(&hx.Prop{Name: "C01", Gen: gen, Exec: exec, Oracle: oracle, Nontrivial: nontrivial, Bucket: bucket})
	if rn != nil {
		rn.Close()
		os.RemoveAll(rnDir)
	}
	if ready {
		if chain != nil {
			chain.GetDB().Close()
		}
		os.RemoveAll(params.DataDir)
	}
}
