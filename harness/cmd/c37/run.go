// The `run` op machinery lives in the shared package elaverif/harness/runop;
// these aliases keep the short names used in this harness.
package main

import "elaverif/harness/runop"

type (
	progIn  = runop.ProgIn
	hashIn  = runop.HashIn
	runOp   = runop.RunOp
	keyPair = runop.KeyPair
)

var (
	errClass    = runop.ErrClass
	verifyCell  = runop.VerifyCell
	schnorrCell = runop.SchnorrCell
	runLine     = runop.RunLine
	parseRun    = runop.ParseRun
	execRun     = runop.ExecRun
	newKey      = runop.NewKey
	sign        = runop.Sign
	pad         = runop.Pad
	exact       = runop.Exact
	atoi        = runop.Atoi
)

type (
	attrIn = runop.AttrIn
	txOp   = runop.TxOp
)

var (
	parseTxsig = runop.ParseTxsig
	buildTx    = runop.BuildTx
	unsignedOf = runop.UnsignedOf
	execTxsig  = runop.ExecTxsig
	txsigLine  = runop.TxsigLine
	execTie    = runop.ExecTie
	judgePair  = runop.JudgePair
)
