// Harness for C37: wallet signatures verify (and only for the signed data);
// address strings and amounts produced by the wallet parse back.
//
// Ops:
//
//	amt <int64>                 Fixed64(v).String() then StringToFixed64      → <string> ok <v> | <string> err
//	parse <hex of string>       StringToFixed64 on an arbitrary ASCII string  → ok <v> | err
//	addr <hex21> <chk4>         Uint168.ToAddress then Uint168FromAddress     → <address> ok <hex21> | <address> err <class>
//	fromaddr <hex of string> <chk4|->   Uint168FromAddress                    → ok <hex21> | err len|char|verify | panic
//	wks <priv> <seed>           keystore round trip: CreateFromAccount → Open → Client.Sign → RunPrograms (see execWks)
//	wtx …                       txsig format: a transaction spending several accounts of one wallet, signed by Client.Sign,
//	                            through the real checkTransactionSignature (pairing by sorted code hash)
//	wrun … / wtamper …          `run` format (run.go): a transaction signed by the wallet code
//	                            (account.SignStandardTransaction / SignMultiSignTransaction /
//	                            crypto.AggregateSignatures on a Schnorr aggregate account) checked by
//	                            blockchain.RunPrograms; wtamper = same programs, transaction changed.
package main

import (
	"bytes"
	"fmt"
	"math"
	"math/big"
	mrand "math/rand"
	"os"
	"path/filepath"
	"strconv"
	"strings"

	"elaverif/harness/hx"
	"elaverif/harness/runop"

	"github.com/elastos/Elastos.ELA/account"
	"github.com/elastos/Elastos.ELA/blockchain"
	"github.com/elastos/Elastos.ELA/common"
	"github.com/elastos/Elastos.ELA/core/contract"
	"github.com/elastos/Elastos.ELA/core/contract/program"
	"github.com/elastos/Elastos.ELA/core/transaction"
	ctypes "github.com/elastos/Elastos.ELA/core/types/common"
	"github.com/elastos/Elastos.ELA/core/types/functions"
	"github.com/elastos/Elastos.ELA/core/types/interfaces"
	"github.com/elastos/Elastos.ELA/core/types/outputpayload"
	"github.com/elastos/Elastos.ELA/core/types/payload"
	"github.com/elastos/Elastos.ELA/crypto"
	"github.com/itchyny/base58-go"
)

func addrErr(err error) string {
	s := err.Error()
	switch {
	case strings.Contains(s, "len != 34"):
		return "err len"
	case strings.Contains(s, "invalid character"):
		return "err char"
	case strings.Contains(s, "decode address verify failed"):
		return "err verify"
	}
	return "err other:" + strings.ReplaceAll(s, " ", "_")
}

func chk4(u []byte) []byte {
	h := common.Sha256D(u)
	return h[:4]
}

func exec(t []string) string {
	switch t[0] {
	case "amt":
		v, err := strconv.ParseInt(t[1], 10, 64)
		if err != nil {
			panic("harness: bad int")
		}
		s := common.Fixed64(v).String()
		back, err := common.StringToFixed64(s)
		if err != nil {
			return s + " err"
		}
		return fmt.Sprintf("%s ok %d", s, int64(*back))
	case "parse":
		back, err := common.StringToFixed64(string(hx.UnHex(t[1])))
		if err != nil {
			return "err"
		}
		return fmt.Sprintf("ok %d", int64(*back))
	case "addr":
		b := hx.UnHex(t[1])
		u, err := common.Uint168FromBytes(b)
		if err != nil {
			panic("harness: addr needs 21 bytes")
		}
		if !bytes.Equal(chk4(b), hx.UnHex(t[2])) {
			return "oracle-mismatch"
		}
		a, err := u.ToAddress()
		if err != nil {
			return "toaddress-error"
		}
		back, err := common.Uint168FromAddress(a)
		if err != nil {
			return a + " " + addrErr(err)
		}
		return a + " ok " + hx.Hex(back.Bytes())
	case "fromaddr":
		s := string(hx.UnHex(t[1]))
		if want := chkOfAddress(s); want != t[2] {
			return "oracle-mismatch"
		}
		back, err := common.Uint168FromAddress(s)
		if err != nil {
			return addrErr(err)
		}
		return "ok " + hx.Hex(back.Bytes())
	case "wrun", "wtamper":
		return execRun(t)
	case "wks":
		return execWks(t)
	case "wtx": // txsig format (harness/runop/txsig.go): a multi-account wallet-signed transaction through checkTransactionSignature
		return execTxsig(t)
	case "wcan": // wcan <m> <n>: can the wallet's own code sign for the m-of-n account it creates?
		m, n := atoi(t[1]), atoi(t[2])
		var pubs []*crypto.PublicKey
		for i := 0; i < n; i++ {
			pubs = append(pubs, newAccount(hx.NewRand(uint64(5000+i))).PublicKey)
		}
		ms, err := account.NewMultiSigAccount(m, pubs)
		if err != nil {
			return "no-account"
		}
		if ms.RedeemScript == nil {
			return "no-script"
		}
		if _, err := account.GetSigners(ms.RedeemScript); err != nil {
			return "cannot-sign " + strconv.Itoa(len(ms.RedeemScript))
		}
		return "can-sign " + strconv.Itoa(len(ms.RedeemScript))
	}
	panic("harness: unknown op " + t[0])
}

// checksum of the first 21 bytes of the number an address string denotes ("-" if it has fewer, or does not decode)
func chkOfAddress(s string) string {
	dec, err := base58.BitcoinEncoding.Decode([]byte(s))
	if err != nil || len(dec) == 0 {
		return "-"
	}
	x, ok := new(big.Int).SetString(string(dec), 10)
	if !ok {
		return "-"
	}
	b := x.Bytes()
	if len(b) < 21 {
		return "-"
	}
	return hx.Hex(chk4(b[:21]))
}

var issuedPrefixes = []byte{byte(contract.PrefixStandard), byte(contract.PrefixMultiSig), byte(contract.PrefixCrossChain),
	byte(contract.PrefixDeposit), byte(contract.PrefixCRDID), byte(contract.PrefixDPoSV2)}

func oracle(t []string, out string) *hx.Violation {
	if out == "panic" {
		return &hx.Violation{Kind: "panic-" + t[0], Detail: hx.LastPanic()}
	}
	switch t[0] {
	case "amt":
		if !strings.HasSuffix(out, " ok "+t[1]) {
			return &hx.Violation{Kind: "amount-roundtrip", Detail: "Fixed64.String() does not parse back to the value: " + out}
		}
	case "addr":
		b := hx.UnHex(t[1])
		if bytes.IndexByte(issuedPrefixes, b[0]) >= 0 && !strings.HasSuffix(out, " ok "+t[1]) {
			return &hx.Violation{Kind: "address-roundtrip", Detail: "ToAddress does not parse back to the program hash: " + out}
		}
	case "wrun":
		if out == "ok" { // accepted: must also be justified by the signature matrix (independent classifiers)
			r := parseRun(t)
			if len(r.Hs) != len(r.Ps) {
				return &hx.Violation{Kind: "accept-count", Detail: "accepted with different numbers of hashes and programs"}
			}
			for i, h := range r.Hs {
				if v := judgePair(r, h, i); v != nil {
					return v
				}
			}
		}
		if out != "ok" {
			k := "wallet-rejected"
			if len(t) > 1 && strings.HasPrefix(t[len(t)-1], "#n>16") {
				k = "wallet-rejected-multisig-n>16"
			}
			return &hx.Violation{Kind: k, Detail: "a transaction signed by the wallet code does not pass RunPrograms: " + out}
		}
	case "wcan":
		if strings.HasPrefix(out, "cannot-sign") {
			return &hx.Violation{Kind: "wallet-account-unsignable",
				Detail: "the wallet creates an m-of-n account (address) whose script its own signing code and the node's verifier reject: " + out}
		}
	case "wtx":
		if out == "ok" {
			if v := runop.JudgeTx(parseTxsig(t)); v != nil {
				return v
			}
		}
		if out != "ok" {
			return &hx.Violation{Kind: "wallet-rejected-tx",
				Detail: "a transaction spending several wallet accounts, signed by Client.Sign, does not pass checkTransactionSignature: " + out}
		}
	case "wks":
		if !strings.HasSuffix(out, " ok") {
			return &hx.Violation{Kind: "wallet-rejected-after-keystore",
				Detail: "an account saved to the keystore and re-opened does not produce a signature the node accepts: " + out}
		}
	case "wtamper":
		if out == "ok" {
			return &hx.Violation{Kind: "accept-tampered", Detail: "wallet signatures were accepted for a changed transaction"}
		}
	}
	return nil
}

func nontrivial(t []string, out string) bool { return out != "oracle-mismatch" }

// ---------------------------------------------------------------- keystore round trip
//
//	wks <private key bytes, hex, 1..32 bytes> <seed>
//
// The real wallet path: account.NewAccountWithPrivateKey → account.CreateFromAccount (keystore file
// written by Client.SaveAccount, a second generated account added) → account.Open (LoadAccounts) →
// Client.Sign on a transaction spending the account's address → blockchain.RunPrograms.
// Answer: <the 32-byte private-key slot found in the keystore, decrypted> <ok | err class>.

var wksCounter int

func execWks(t []string) string {
	priv := hx.UnHex(t[1])
	seed, err := strconv.ParseUint(t[2], 10, 64)
	if err != nil {
		panic("harness: bad seed")
	}
	acct, err := account.NewAccountWithPrivateKey(exact(priv))
	if err != nil {
		return "no-account"
	}
	dir, err := os.MkdirTemp("", "c37-keystore")
	if err != nil {
		panic("harness: tempdir")
	}
	defer os.RemoveAll(dir)
	wksCounter++
	path := filepath.Join(dir, fmt.Sprintf("keystore-%d.dat", wksCounter))
	pwd := []byte("c37-password")
	cl, err := account.CreateFromAccount(path, append([]byte{}, pwd...), acct)
	if err != nil {
		return "create-error"
	}
	if _, err := cl.CreateAccount(); err != nil { // a second, generated account in the same keystore
		return "add-error"
	}
	cl2, err := account.Open(path, append([]byte{}, pwd...))
	if err != nil {
		return "open-error"
	}
	// what is in the private-key slot of the stored main account
	slot := "-"
	stored, err := cl2.LoadAccountData()
	if err != nil {
		return "load-error"
	}
	for _, a := range stored {
		if a.ProgramHash == common.BytesToHexString(acct.ProgramHash.Bytes()) && a.PrivateKeyEncrypted != "" {
			enc, _ := common.HexStringToBytes(a.PrivateKeyEncrypted)
			kp, err := cl2.DecryptPrivateKey(enc)
			if err != nil || len(kp) != 96 {
				return "decrypt-error"
			}
			slot = hx.Hex(kp[64:96])
		}
	}
	tx := randomTx(hx.NewRand(seed))
	tx.SetPrograms([]*program.Program{{Code: acct.RedeemScript, Parameter: nil}})
	signed, err := cl2.Sign(tx)
	if err != nil {
		return slot + " sign-error"
	}
	res := blockchain.RunPrograms(unsignedBytes(signed), []common.Uint168{acct.ProgramHash}, signed.Programs())
	return slot + " " + errClass(res)
}

// ---------------------------------------------------------------- generators

func genAmounts(g *hx.Gen) {
	r := g.R
	emit := func(v int64) { g.Emit("amt %d", v) }
	for _, v := range []int64{0, 1, -1, 99999999, 100000000, 100000001, -100000000, 10000000000000000, 9999999999999999,
		-10000000000000000, math.MaxInt64, math.MinInt64, math.MinInt64 + 1, 50000000, -50000000, 3300000000000000, 12345678900000000} {
		emit(v)
	}
	p := int64(1)
	for e := 0; e <= 18; e++ {
		for _, d := range []int64{-1, 0, 1} {
			emit(p + d)
			emit(-(p + d))
		}
		p *= 10
	}
	for i := 0; i < g.N(3000, 60000); i++ {
		var v int64
		switch r.Intn(5) {
		case 0:
			v = int64(r.U64())
		case 1:
			v = int64(r.U64() % 100000000)
		case 2:
			v = int64(r.U64()%1000000000) * 100000000
		case 3:
			v = int64(r.U64() >> uint(r.Intn(64)))
		default:
			v = -int64(r.U64() >> uint(1+r.Intn(63)))
		}
		emit(v)
	}
	// arbitrary ASCII strings for the parser
	alphabet := "0123456789.-+ e_x"
	strs := []string{"", ".", "-", "+", "1.", ".5", "-.5", "1.123456789", "1.12345678", "100000000", "1000000000000", "92233720368.54775807",
		"92233720368.54775808", "-92233720368.54775808", "-92233720368.54775809", "1..2", "1.2.3", "+1", "00000001", "0.00000000", "1e5", "1_000", " 1", "1 ",
		"9223372036854775807", "92233720368", "92233720369", "-92233720369", "0x10", "१"}
	for _, s := range strs {
		if strings.ContainsAny(s, " ") || !isASCII(s) {
			continue
		}
		g.Emit("parse %s", hx.Hex([]byte(s)))
	}
	for i := 0; i < g.N(3000, 40000); i++ {
		n := r.Intn(24)
		var b []byte
		for k := 0; k < n; k++ {
			c := alphabet[r.Intn(len(alphabet))]
			if c == ' ' {
				c = '0'
			}
			if r.Chance(70) {
				c = byte('0' + r.Intn(10))
			}
			b = append(b, c)
		}
		g.Emit("parse %s", hx.Hex(b))
	}
}

func isASCII(s string) bool {
	for i := 0; i < len(s); i++ {
		if s[i] >= 0x80 {
			return false
		}
	}
	return true
}

func genAddresses(g *hx.Gen) {
	r := g.R
	emitAddr := func(u []byte) { g.Emit("addr %s %s", hx.Hex(u), hx.Hex(chk4(u))) }
	// every prefix byte × boundary payloads
	for p := 0; p < 256; p++ {
		for _, fill := range []int{0, 0xff, -1, -1} {
			u := make([]byte, 21)
			if fill < 0 {
				copy(u, r.Bytes(21))
			} else {
				for i := range u {
					u[i] = byte(fill)
				}
			}
			u[0] = byte(p)
			emitAddr(u)
		}
	}
	for i := 0; i < g.N(2000, 30000); i++ {
		u := r.Bytes(21)
		u[0] = issuedPrefixes[r.Intn(len(issuedPrefixes))]
		emitAddr(u)
	}
	// strings for the decoder
	emitFrom := func(s string) { g.Emit("fromaddr %s %s", hx.Hex([]byte(s)), chkOfAddress(s)) }
	alpha := "123456789ABCDEFGHJKLMNPQRSTUVWXYZabcdefghijkmnopqrstuvwxyz"
	for _, c := range []byte("1z2Zm") {
		emitFrom(strings.Repeat(string(c), 34))
		emitFrom(strings.Repeat(string(c), 33))
		emitFrom(strings.Repeat(string(c), 35))
	}
	emitFrom("")
	emitFrom(strings.Repeat("1", 33) + "2")
	emitFrom(strings.Repeat("1", 20) + strings.Repeat("z", 14))
	emitFrom(strings.Repeat("0", 34))
	emitFrom(strings.Repeat("O", 34))
	emitFrom("E" + strings.Repeat("l", 33))
	for i := 0; i < g.N(2000, 30000); i++ {
		u := r.Bytes(21)
		u[0] = issuedPrefixes[r.Intn(len(issuedPrefixes))]
		h, _ := common.Uint168FromBytes(u)
		a, _ := h.ToAddress()
		b := []byte(a)
		switch r.Intn(8) {
		case 0: // one character changed (checksum must catch it)
			b[r.Intn(len(b))] = alpha[r.Intn(58)]
		case 1: // invalid character
			b[r.Intn(len(b))] = "0OIl_ "[r.Intn(5)]
		case 2: // leading ones
			k := 1 + r.Intn(20)
			for j := 0; j < k && j < len(b); j++ {
				b[j] = '1'
			}
		case 3:
			b = b[:len(b)-1]
		case 4:
			b = append(b, alpha[r.Intn(58)])
		case 5: // random 34 characters
			for j := range b {
				b[j] = alpha[r.Intn(58)]
			}
		}
		if bytes.IndexByte(b, ' ') >= 0 {
			continue
		}
		emitFrom(string(b))
	}
}

// ---- wallet signing

func newAccount(r *hx.Rand) *account.Account {
	k := newKey(r)
	a, err := account.NewAccountWithPrivateKey(k.Priv)
	if err != nil {
		panic("harness: account")
	}
	return a
}

func randomTx(r *hx.Rand) interfaces.Transaction {
	nIn, nOut := 1+r.Intn(3), 1+r.Intn(3)
	var ins []*ctypes.Input
	for i := 0; i < nIn; i++ {
		var id common.Uint256
		copy(id[:], r.Bytes(32))
		ins = append(ins, &ctypes.Input{Previous: ctypes.OutPoint{TxID: id, Index: uint16(r.Intn(4))}, Sequence: uint32(r.U64())})
	}
	var outs []*ctypes.Output
	for i := 0; i < nOut; i++ {
		var ph common.Uint168
		copy(ph[:], r.Bytes(21))
		ph[0] = 0x21
		var asset common.Uint256
		copy(asset[:], r.Bytes(32))
		outs = append(outs, &ctypes.Output{AssetID: asset, Value: common.Fixed64(r.U64() >> 20), OutputLock: 0, ProgramHash: ph,
			Type: ctypes.OTNone, Payload: &outputpayload.DefaultOutput{}})
	}
	attrs := []*ctypes.Attribute{{Usage: ctypes.Nonce, Data: r.Bytes(8)}}
	return functions.CreateTransaction(ctypes.TxVersion09, ctypes.TransferAsset, 0, &payload.TransferAsset{}, attrs, ins, outs,
		uint32(r.Intn(1000)), []*program.Program{})
}

func unsignedBytes(tx interfaces.Transaction) []byte {
	buf := new(bytes.Buffer)
	if err := tx.SerializeUnsigned(buf); err != nil {
		panic("harness: serialize unsigned")
	}
	return buf.Bytes()
}

func tamperTx(r *hx.Rand, tx interfaces.Transaction) []byte {
	switch r.Intn(4) {
	case 0:
		tx.Outputs()[0].Value++
	case 1:
		tx.SetLockTime(tx.LockTime() + 1)
	case 2:
		tx.Inputs()[0].Previous.Index ^= 1
	default:
		d := unsignedBytes(tx)
		d[r.Intn(len(d))] ^= byte(1 << uint(r.Intn(8)))
		return d
	}
	return unsignedBytes(tx)
}

func emitWallet(g *hx.Gen, tx interfaces.Transaction, pfx byte, p *program.Program, tag string) {
	data := unsignedBytes(tx)
	hs := []hashIn{{Pfx: pfx, Hash: common.ToCodeHash(p.Code).Bytes()}}
	ps := []progIn{{Code: p.Code, Param: p.Parameter}}
	line := runLine(data, hs, ps)
	out := g.Emit("w%s%s", line, tag)
	if out == "ok" {
		d2 := tamperTx(g.R, tx)
		if !bytes.Equal(d2, data) {
			g.Emit("wtamper%s", runLine(d2, hs, ps)[3:])
		}
	}
}

func genWallet(g *hx.Gen) {
	r := g.R
	accts := make([]*account.Account, 26)
	for i := range accts {
		accts[i] = newAccount(r)
	}
	// standard accounts
	for i := 0; i < g.N(150, 2000); i++ {
		a := accts[r.Intn(len(accts))]
		tx := randomTx(r)
		p, err := account.SignStandardTransaction(tx, &program.Program{Code: a.RedeemScript},
			map[common.Uint160]*account.Account{*common.ToCodeHash(a.RedeemScript): a})
		if err != nil {
			panic("harness: SignStandardTransaction: " + err.Error())
		}
		emitWallet(g, tx, a.ProgramHash[0], p, "")
	}
	// m-of-n accounts: every 1 <= m <= n <= 8, then n up to the 24 keys CreateMultiSigRedeemScript allows
	type mn struct{ m, n int }
	var grid []mn
	for n := 1; n <= 8; n++ {
		for m := 1; m <= n; m++ {
			grid = append(grid, mn{m, n})
		}
	}
	for n := 9; n <= 24; n++ {
		grid = append(grid, mn{1 + r.Intn(n), n}, mn{n, n})
	}
	for rep := 0; rep < g.N(2, 12); rep++ {
		for _, c := range grid {
			perm := r.Intn(len(accts))
			var members []*account.Account
			for i := 0; i < c.n; i++ {
				members = append(members, accts[(perm+i)%len(accts)])
			}
			var pubs []*crypto.PublicKey
			for _, a := range members {
				pubs = append(pubs, a.PublicKey)
			}
			ms, err := account.NewMultiSigAccount(c.m, pubs)
			if err != nil || ms.RedeemScript == nil {
				continue
			}
			tx := randomTx(r)
			p := &program.Program{Code: ms.RedeemScript, Parameter: nil}
			// m distinct members sign, one call of the wallet function per signer, in random order
			order := rperm(r, c.n)
			for s := 0; s < c.m; s++ {
				a := members[order[s]]
				p, err = account.SignMultiSignTransaction(tx, p, map[common.Uint160]*account.Account{*common.ToCodeHash(a.RedeemScript): a})
				if err != nil {
					break
				}
			}
			if err != nil { // the wallet cannot sign for this script shape at all: see op wcan
				continue
			}
			tag := ""
			if c.n > 16 {
				tag = fmt.Sprintf(" #n>16:m=%d,n=%d", c.m, c.n)
			}
			emitWallet(g, tx, ms.ProgramHash[0], p, tag)
		}
	}
	// aggregated Schnorr accounts
	for i := 0; i < g.N(60, 800); i++ {
		k := 1 + r.Intn(5)
		var members []*account.Account
		for j := 0; j < k; j++ {
			members = append(members, accts[r.Intn(len(accts))])
		}
		sa := account.NewSchnorrAggregateAccount(members)
		if sa.RedeemScript == nil || sa.ProgramHash == nil {
			continue
		}
		tx := randomTx(r)
		mrand.Seed(int64(r.U64() >> 1))
		sig, err := crypto.AggregateSignatures(sa.PrivateKeys, common.Sha256D(unsignedBytes(tx)))
		if err != nil {
			continue
		}
		emitWallet(g, tx, sa.ProgramHash[0], &program.Program{Code: sa.RedeemScript, Parameter: append([]byte{}, sig[:]...)}, "")
	}
}

func rperm(r *hx.Rand, n int) []int {
	p := make([]int, n)
	for i := range p {
		p[i] = i
	}
	for i := n - 1; i > 0; i-- {
		j := r.Intn(i + 1)
		p[i], p[j] = p[j], p[i]
	}
	return p
}

func genCan(g *hx.Gen) {
	for n := 0; n <= 26; n++ {
		for m := 0; m <= n+1; m++ {
			g.Emit("wcan %d %d", m, n)
		}
	}
}

// private keys of every byte length 1..32 (D.Bytes() of scalars below 2^8 … 2^256), i.e. with 0..31
// leading zero bytes once they sit in the 32-byte keystore slot
func genKeystore(g *hx.Gen) {
	r := g.R
	n := new(big.Int).Set(crypto.DefaultParams.N)
	emit := func(d *big.Int) {
		if d.Sign() <= 0 || d.Cmp(n) >= 0 {
			return
		}
		g.Emit("wks %s %d", hx.Hex(d.Bytes()), r.U64()%1000000)
	}
	for l := 1; l <= 32; l++ {
		for rep := 0; rep < g.N(2, 8); rep++ {
			b := r.Bytes(l)
			b[0] |= 1 // first byte non-zero: exactly l bytes
			emit(new(big.Int).SetBytes(b))
		}
	}
	emit(big.NewInt(1))
	emit(new(big.Int).Lsh(big.NewInt(1), 247))
	emit(new(big.Int).Sub(new(big.Int).Lsh(big.NewInt(1), 248), big.NewInt(1))) // largest 31-byte scalar
	emit(new(big.Int).Lsh(big.NewInt(1), 248))                                  // smallest 32-byte scalar
	emit(new(big.Int).Sub(n, big.NewInt(1)))
	// 32-byte encodings with explicit leading zeros (NewAccountWithPrivateKey is given padded bytes)
	for _, z := range []int{1, 2, 8, 31} {
		b := r.Bytes(32)
		for i := 0; i < z; i++ {
			b[i] = 0
		}
		b[z] |= 1
		if new(big.Int).SetBytes(b).Cmp(n) < 0 {
			g.Emit("wks %s %d", hx.Hex(b), r.U64()%1000000)
		}
	}
}

// a wallet (keystore client) holding several accounts signs a transaction that spends from 2..5 of them
// (standard accounts and m-of-n accounts whose members are all in the wallet); the node side is the real
// checkTransactionSignature (hash de-duplication, sorting of hashes and of programs, RunPrograms).
func genWalletTx(g *hx.Gen) {
	r := g.R
	dir, err := os.MkdirTemp("", "c37-wallet")
	if err != nil {
		panic("harness: tempdir")
	}
	defer os.RemoveAll(dir)
	for i := 0; i < g.N(60, 600); i++ {
		nStd := 2 + r.Intn(4)
		var members []*account.Account
		for k := 0; k < nStd+2; k++ {
			members = append(members, newAccount(r))
		}
		cl, err := account.CreateFromAccount(filepath.Join(dir, fmt.Sprintf("w%d.dat", i)), []byte("pw"), members[0])
		if err != nil {
			panic("harness: create wallet")
		}
		for _, a := range members[1:] {
			if err := cl.SaveAccount(a); err != nil {
				panic("harness: save account")
			}
		}
		o := &txOp{Variant: "tx", Ttype: byte(ctypes.TransferAsset), Pver: 0, Lock: uint32(r.Intn(1000))}
		var progs []progIn
		for _, a := range members[:nStd] {
			o.Refs = append(o.Refs, hashIn{Pfx: a.ProgramHash[0], Hash: common.ToCodeHash(a.RedeemScript).Bytes()})
			if r.Chance(30) {
				o.Refs = append(o.Refs, o.Refs[len(o.Refs)-1])
			}
			progs = append(progs, progIn{Code: a.RedeemScript})
		}
		if r.Chance(40) { // plus a 1-of-2 multi-sig account of two wallet members (Client.Sign adds one signature per call)
			ms, err := account.NewMultiSigAccount(1, []*crypto.PublicKey{members[nStd].PublicKey, members[nStd+1].PublicKey})
			if err == nil && ms.RedeemScript != nil {
				o.Refs = append(o.Refs, hashIn{Pfx: ms.ProgramHash[0], Hash: common.ToCodeHash(ms.RedeemScript).Bytes()})
				progs = append(progs, progIn{Code: ms.RedeemScript})
			}
		}
		o.Attrs = append(o.Attrs, attrIn{Usage: byte(ctypes.Nonce), Data: r.Bytes(8)})
		for k := len(progs) - 1; k > 0; k-- {
			j := r.Intn(k + 1)
			progs[k], progs[j] = progs[j], progs[k]
		}
		tx, _, ok := buildTx(o, progs)
		if !ok {
			panic("harness: buildTx")
		}
		signed, err := cl.Sign(tx)
		if err != nil {
			panic("harness: Client.Sign: " + err.Error())
		}
		var sp []progIn
		for _, p := range signed.Programs() {
			sp = append(sp, progIn{Code: p.Code, Param: p.Parameter})
		}
		g.Emit("wtx%s", txsigLine(o, sp)[5:])
	}
}

// m-of-n co-signing from keystores: every member has its own keystore file holding its key and the
// multi-sig account (account.AddMultiSig); the transaction travels through m members in random order, each
// re-opening the wallet from disk (account.Open) and adding one signature with Client.Sign; the node side
// is the real checkTransactionSignature (op wtx).
func genCosign(g *hx.Gen) {
	r := g.R
	dir, err := os.MkdirTemp("", "c37-cosign")
	if err != nil {
		panic("harness: tempdir")
	}
	defer os.RemoveAll(dir)
	pwd := func() []byte { return []byte("pw") }
	round := 0
	for n := 2; n <= 6; n++ {
		for m := 1; m <= n; m++ {
			for rep := 0; rep < g.N(1, 6); rep++ {
				round++
				var members []*account.Account
				var pubs []*crypto.PublicKey
				for i := 0; i < n; i++ {
					a := newAccount(r)
					members = append(members, a)
					pubs = append(pubs, a.PublicKey)
				}
				paths := make([]string, n)
				var ms *account.Account
				for i, a := range members {
					paths[i] = filepath.Join(dir, fmt.Sprintf("k%d-%d.dat", round, i))
					if _, err := account.CreateFromAccount(paths[i], pwd(), a); err != nil {
						panic("harness: keystore")
					}
					acc, err := account.AddMultiSig(paths[i], pwd(), m, append([]*crypto.PublicKey{}, pubs...))
					if err != nil {
						panic("harness: AddMultiSig: " + err.Error())
					}
					ms = acc
				}
				o := &txOp{Variant: "tx", Ttype: byte(ctypes.TransferAsset), Pver: 0, Lock: uint32(r.Intn(1000))}
				o.Refs = []hashIn{{Pfx: ms.ProgramHash[0], Hash: common.ToCodeHash(ms.RedeemScript).Bytes()}}
				o.Attrs = []attrIn{{Usage: byte(ctypes.Nonce), Data: r.Bytes(8)}}
				tx, _, ok := buildTx(o, []progIn{{Code: ms.RedeemScript}})
				if !ok {
					panic("harness: buildTx")
				}
				order := rperm(r, n)
				for k := 0; k < m; k++ {
					cl, err := account.Open(paths[order[k]], pwd())
					if err != nil {
						panic("harness: Open: " + err.Error())
					}
					if tx, err = cl.Sign(tx); err != nil {
						panic("harness: co-sign: " + err.Error())
					}
				}
				var sp []progIn
				for _, p := range tx.Programs() {
					sp = append(sp, progIn{Code: p.Code, Param: p.Parameter})
				}
				g.Emit("wtx%s", txsigLine(o, sp)[5:])
			}
		}
	}
}

// Client.MultiSign (SignMultiSignTransactionByM): one wallet holds a SUBSET of the n keys of an m-of-n account
// (at least m of them, chosen by script position) and signs in one call; the node side is the real
// checkTransactionSignature (op wtx).  Every 1 <= m <= n <= 6, every subset size, and in particular the subsets
// that start at script position m or contain it with few keys before it.
func genMultiSignByM(g *hx.Gen) {
	r := g.R
	dir, err := os.MkdirTemp("", "c37-bym")
	if err != nil {
		panic("harness: tempdir")
	}
	defer os.RemoveAll(dir)
	round := 0
	for n := 2; n <= 6; n++ {
		for m := 1; m <= n; m++ {
			var subsets [][]int
			// all keys; the first m; the last m; positions m..; position m plus the last m-1; random subsets
			all := make([]int, n)
			for i := range all {
				all[i] = i
			}
			subsets = append(subsets, all, all[:m], all[n-m:])
			if m < n {
				tail := append([]int{}, all[m:]...)
				if len(tail) >= m {
					subsets = append(subsets, tail)
				}
				if n-1 >= m { // position m together with the highest positions
					pick := map[int]bool{m: true}
					for i := n - 1; i >= 0 && len(pick) < m; i-- {
						pick[i] = true
					}
					var sub []int
					for i := 0; i < n; i++ {
						if pick[i] {
							sub = append(sub, i)
						}
					}
					if len(sub) >= m {
						subsets = append(subsets, sub)
					}
				}
			}
			for k := 0; k < g.N(2, 10); k++ {
				perm := rperm(r, n)
				size := m + r.Intn(n-m+1)
				sub := append([]int{}, perm[:size]...)
				subsets = append(subsets, sub)
			}
			for _, sub := range subsets {
				round++
				var members []*account.Account
				var pubs []*crypto.PublicKey
				for i := 0; i < n; i++ {
					a := newAccount(r)
					members = append(members, a)
					pubs = append(pubs, a.PublicKey)
				}
				ms, err := account.NewMultiSigAccount(m, pubs) // sorts pubs by X: pubs[i] is script position i
				if err != nil || ms.RedeemScript == nil {
					continue
				}
				byPub := map[string]*account.Account{}
				for _, a := range members {
					b, _ := a.PublicKey.EncodePoint(true)
					byPub[string(b)] = a
				}
				var held []*account.Account
				for _, pos := range sub {
					b, _ := pubs[pos].EncodePoint(true)
					held = append(held, byPub[string(b)])
				}
				cl, err := account.CreateFromAccount(filepath.Join(dir, fmt.Sprintf("b%d.dat", round)), []byte("pw"), held[0])
				if err != nil {
					panic("harness: keystore")
				}
				for _, a := range held[1:] {
					if err := cl.SaveAccount(a); err != nil {
						panic("harness: save account")
					}
				}
				o := &txOp{Variant: "tx", Ttype: byte(ctypes.TransferAsset), Pver: 0, Lock: uint32(r.Intn(1000))}
				o.Refs = []hashIn{{Pfx: ms.ProgramHash[0], Hash: common.ToCodeHash(ms.RedeemScript).Bytes()}}
				o.Attrs = []attrIn{{Usage: byte(ctypes.Nonce), Data: r.Bytes(8)}}
				tx, _, ok := buildTx(o, []progIn{{Code: ms.RedeemScript}})
				if !ok {
					panic("harness: buildTx")
				}
				signed, err := cl.MultiSign(m, tx)
				if err != nil {
					panic("harness: Client.MultiSign: " + err.Error())
				}
				var sp []progIn
				for _, p := range signed.Programs() {
					sp = append(sp, progIn{Code: p.Code, Param: p.Parameter})
				}
				g.Emit("wtx%s", txsigLine(o, sp)[5:])
			}
		}
	}
}

func gen(g *hx.Gen) {
	mrand.Seed(int64(g.Seed))
	genMultiSignByM(g)
	genCosign(g)
	genWalletTx(g)
	genKeystore(g)
	genCan(g)
	genAmounts(g)
	genAddresses(g)
	genWallet(g)
}

func main() {
	functions.GetTransactionByTxType = transaction.GetTransaction
	functions.GetTransactionByBytes = transaction.GetTransactionByBytes
	functions.CreateTransaction = transaction.CreateTransaction
	functions.GetTransactionParameters = transaction.GetTransactionparameters
	hx.Main(&hx.Prop{Name: "C37", Gen: gen, Exec: exec, Oracle: oracle, Nontrivial: nontrivial})
}
