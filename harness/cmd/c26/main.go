// Harness for C26: view-change schedule (dpos/manager/view.go) — one-shot
// versus polled evaluation.
package main

import (
	"fmt"
	"os"
	"strconv"
	"strings"
	"time"

	"elaverif/harness/hx"

	dlog "github.com/elastos/Elastos.ELA/dpos/log"
	"github.com/elastos/Elastos.ELA/dpos/manager"
)

// the origin has a sub-second part, so that every view start time does (wire formats must keep it)
var base = time.Unix(1600000000, 700000321)

func i64(s string) int64 {
	v, err := strconv.ParseInt(s, 10, 64)
	if err != nil {
		panic("harness: bad int " + s)
	}
	return v
}
func u32(s string) uint32 {
	v, err := strconv.ParseUint(s, 10, 32)
	if err != nil {
		panic("harness: bad u32 " + s)
	}
	return uint32(v)
}

type st struct {
	off   uint32
	start int64
	duty  bool
}

func (s st) String() string {
	d := 0
	if s.duty {
		d = 1
	}
	return fmt.Sprintf("%d,%d,%d", s.off, s.start, d)
}

// runSched drives a real view through the polling times and returns the state
// after every evaluation.
func runSched(mode string, tol int64, n int, me, off uint32, times []int64) []st {
	vv := manager.NewVerifView(time.Duration(tol), n, me, base, off)
	var res []st
	for _, t := range times {
		now := base.Add(time.Duration(t))
		switch mode {
		case "cv0":
			vv.ChangeView(now)
		case "cv1":
			vv.ChangeViewV1(now)
		case "try0":
			vv.TryChangeView(now)
		case "try1":
			vv.TryChangeViewV1(now)
		default:
			panic("harness: unknown mode " + mode)
		}
		res = append(res, st{vv.Offset, int64(vv.StartTime().Sub(base)), vv.OnDuty()})
	}
	return res
}

func parseRun(t []string) (mode string, tol int64, n int, me, off uint32, times []int64) {
	mode, tol, n, me, off = t[1], i64(t[2]), int(u32(t[3])), u32(t[4]), u32(t[5])
	for _, x := range t[6:] {
		times = append(times, i64(x))
	}
	return
}

// runCons drives a real Consensus inside a real DPOSManager; steps are "c<ns>"
// (Consensus.ChangeView), "t<ns>" (Consensus.TryChangeView), "o<ns>" (DPOSManager.OnChangeView,
// the timer entry point; prints the number of ResetView broadcasts so far) and "r" (a ResetView
// message arrives: was it forwarded to the dispatcher).
func runCons(forkH, height uint32, running bool, tol int64, n int, me, off uint32, steps []string) ([]st, []string) {
	vc := manager.NewVerifConsensus(time.Duration(tol), forkH, height, running, n, me, base, off)
	var res []st
	var outs []string
	for _, x := range steps {
		if x == "r" {
			if vc.OnResetViewMsg() {
				outs = append(outs, "f1")
			} else {
				outs = append(outs, "f0")
			}
			continue
		}
		if x == "s" {
			if err := vc.StatusRoundTrip(); err != nil {
				panic("harness: status round trip: " + err.Error())
			}
			s := st{vc.Offset(), int64(vc.StartTime().Sub(base)), vc.OnDuty()}
			res = append(res, s)
			outs = append(outs, s.String())
			continue
		}
		now := base.Add(time.Duration(i64(x[1:])))
		extra := ""
		switch x[0] {
		case 'c':
			vc.ChangeView(now)
		case 't':
			vc.TryChangeView(now)
		case 'o':
			extra = fmt.Sprintf(",r%d", vc.OnChangeView(now))
		default:
			panic("harness: bad step " + x)
		}
		s := st{vc.Offset(), int64(vc.StartTime().Sub(base)), vc.OnDuty()}
		res = append(res, s)
		outs = append(outs, s.String()+extra)
	}
	return res, outs
}

func parseCons(t []string) (forkH, height uint32, running bool, tol int64, n int, me, off uint32, steps []string) {
	return u32(t[1]), u32(t[2]), t[3] != "0", i64(t[4]), int(u32(t[5])), u32(t[6]), u32(t[7]), t[8:]
}

func exec(t []string) string {
	switch t[0] {
	case "cons": // cons <forkHeight> <height> <running> <tolerance> <arbiters> <me> <offset> <c|t><ns> …
		forkH, height, running, tol, n, me, off, steps := parseCons(t)
		_, outs := runCons(forkH, height, running, tol, n, me, off, steps)
		return strings.Join(outs, " ")
	case "v0": // v0 <tolerance ns> <duration ns>
		o, r := manager.VerifOffsetV0(time.Duration(i64(t[1])), time.Duration(i64(t[2])))
		return fmt.Sprintf("ok %d %d", o, int64(r))
	case "v1": // v1 <arbiters> <current offset> <duration ns>
		o, r := manager.VerifOffsetV1(u32(t[2]), time.Duration(i64(t[3])), u32(t[1]))
		return fmt.Sprintf("ok %d %d", o, int64(r))
	case "run": // run <mode> <tolerance> <arbiters> <me> <offset> <t1> <t2> …   (view starts at 0)
		mode, tol, n, me, off, times := parseRun(t)
		var parts []string
		for _, s := range runSched(mode, tol, n, me, off, times) {
			parts = append(parts, s.String())
		}
		return strings.Join(parts, " ")
	}
	panic("harness: unknown op " + t[0])
}

const sec = int64(time.Second)

// durations that exercise the schedule: multiples of 5 s, boundaries ±1 ns, random.
func genDur(r *hx.Rand, maxSec int64) int64 {
	switch r.Intn(6) {
	case 0:
		return int64(r.Intn(int(maxSec/5)+1)) * 5 * sec
	case 1:
		return int64(r.Intn(int(maxSec/5)+1))*5*sec + int64(r.Intn(3)) - 1
	case 2:
		return int64(r.Intn(int(maxSec)+1)) * sec
	case 3:
		return int64(r.Intn(200)) * sec / 10
	default:
		return int64(r.U64() % uint64(maxSec*sec+1))
	}
}

func genN(r *hx.Rand) uint32 {
	switch r.Intn(8) {
	case 0:
		return uint32(1 + r.Intn(3))
	case 1:
		return 12
	case 2:
		return 36
	default:
		return uint32(1 + r.Intn(40))
	}
}

func genCur(r *hx.Rand, n uint32) uint32 {
	switch r.Intn(8) {
	case 0:
		return 0
	case 1: // just below one full round
		if n > 0 {
			return n - 1 - uint32(r.Intn(int(min32(n, 3))))
		}
		return 0
	case 2: // just past one round
		return n + uint32(r.Intn(3))
	case 3: // several rounds, including the uint32 overflow of 20^k (k >= 8) and k >= 15
		return n*uint32(r.Intn(20)) + uint32(r.Intn(int(n)+1))
	case 4:
		return uint32(r.Intn(int(3*n) + 1))
	default:
		return uint32(r.Intn(int(n) + 2))
	}
}

func min32(a, b uint32) uint32 {
	if a < b {
		return a
	}
	return b
}

// a polling partition of [0, T]: sorted times, last one is T.
func genTimes(r *hx.Rand, T int64) []int64 {
	k := r.Intn(6)
	ts := make([]int64, 0, k+1)
	for i := 0; i < k; i++ {
		var t int64
		switch r.Intn(4) {
		case 0:
			t = int64(r.Intn(int(T/(5*sec))+1)) * 5 * sec
		case 1:
			t = int64(r.Intn(int(T/(5*sec))+1))*5*sec + int64(r.Intn(3)) - 1
		default:
			t = int64(r.U64() % uint64(T+1))
		}
		if t < 0 {
			t = 0
		}
		if t > T {
			t = T
		}
		ts = append(ts, t)
	}
	ts = append(ts, T)
	for i := 1; i < len(ts); i++ {
		for j := i; j > 0 && ts[j] < ts[j-1]; j-- {
			ts[j], ts[j-1] = ts[j-1], ts[j]
		}
	}
	return ts
}

func joinI(xs []int64) string {
	p := make([]string, len(xs))
	for i, x := range xs {
		p[i] = strconv.FormatInt(x, 10)
	}
	return strings.Join(p, " ")
}

func gen(g *hx.Gen) {
	r := g.R
	n := g.N(20000, 600000)
	tols := []int64{5 * sec, 5 * sec, 5 * sec, 1, 7, 3 * sec, 1234567891}
	for i := 0; i < n; i++ {
		tol := tols[r.Intn(len(tols))]
		d := genDur(r, 4000)
		if r.Chance(5) {
			d = -d // now before the view start
		}
		if r.Chance(2) {
			tol = 0
		}
		g.Emit("v0 %d %d", tol, d)
	}
	for i := 0; i < n; i++ {
		nn := genN(r)
		if r.Chance(1) {
			nn = 0
		}
		cur := genCur(r, nn)
		d := genDur(r, 3000)
		switch r.Intn(20) {
		case 0:
			d = -d
		case 1: // long absences: hours to days
			d = int64(r.U64() % uint64(200000*sec))
		case 2: // uint32 edge of the offset
			cur = 0xffffffff - uint32(r.Intn(3))
			d = int64(r.Intn(30)) * sec
		}
		g.Emit("v1 %d %d %d", nn, cur, d)
	}
	for i := 0; i < n; i++ {
		mode := []string{"cv0", "cv1", "cv1", "cv1", "try0", "try1"}[r.Intn(6)]
		nn := genN(r)
		tol := 5 * sec
		if mode == "cv0" || mode == "try0" {
			tol = tols[r.Intn(len(tols))]
		}
		off := genCur(r, nn)
		if r.Chance(3) { // uint32 wrap regime of the view offset itself
			off = 0xffffffff - uint32(r.Intn(40))
		}
		me := uint32(r.Intn(int(nn)))
		T := genDur(r, 2500)
		if T < 0 {
			T = 0
		}
		if (mode == "cv0" || mode == "try0") && tol < sec {
			T = T % (1000 * tol) // keep the offset small for tiny tolerances
		}
		g.Emit("run %s %d %d %d %d %s", mode, tol, nn, me, off, joinI(genTimes(r, T)))
	}
	// the Consensus layer: heights around ChangeViewV1Height, both entry points mixed
	for i := 0; i < n/2; i++ {
		forkH := uint32(1 + r.Intn(2000000))
		var height uint32
		switch r.Intn(6) {
		case 0:
			height = forkH - 1
		case 1, 2:
			height = forkH
		case 3:
			height = forkH + 1
		default:
			height = uint32(r.Intn(int(2*forkH) + 2))
		}
		running := 1
		if r.Chance(6) {
			running = 0
		}
		nn := genN(r)
		off := genCur(r, nn)
		if r.Chance(50) {
			off = 0
		}
		me := uint32(r.Intn(int(nn)))
		T := genDur(r, 1500)
		if T < 0 {
			T = 0
		}
		ts := genTimes(r, T)
		if r.Chance(40) {
			ts = ts[len(ts)-1:]
		}
		if r.Chance(15) { // long stalls: the pre-V1 offset passes maxViewOffset (ResetView broadcast)
			T = int64(400+r.Intn(400)) * 5 * sec / 4
			ts = genTimes(r, T)
		}
		var steps []string
		for _, t := range ts {
			k := "t"
			switch r.Intn(10) {
			case 0, 1, 2:
				k = "c"
			case 3, 4, 5:
				k = "o"
			}
			steps = append(steps, k+strconv.FormatInt(t, 10))
			if r.Chance(15) {
				steps = append(steps, "r")
			}
			if r.Chance(20) { // a recovering arbiter adopts the view from a ConsensusStatus message
				steps = append(steps, "s")
			}
		}
		if r.Chance(5) { // an observer that is not a current arbiter
			me = uint32(nn) + uint32(r.Intn(3))
		}
		g.Emit("cons %d %d %d %d %d %d %d %s", forkH, height, running, 5*sec, nn, me, off, strings.Join(steps, " "))
	}
}

// Property oracle, on the implementation alone: the state reached by polling
// ChangeView / ChangeViewV1 at the given times must equal the state a fresh
// view reaches when it evaluates once at the last time, and offsets must never
// decrease along the schedule.
func oracle(t []string, out string) *hx.Violation {
	if t[0] == "cons" && out != "panic" {
		// Both entry points of a running Consensus must evaluate the same schedule: once the
		// tolerance has strictly passed, a fresh consensus moved by TryChangeView at the final time
		// must be where a fresh consensus moved by ChangeView at that time is.
		forkH, height, running, tol, n, me, off, steps := parseCons(t)
		if !running || len(steps) == 0 {
			return nil
		}
		// sending the view through a ConsensusStatus message must not change it
		{
			f := strings.Fields(out)
			for i, x := range steps {
				if x != "s" || i >= len(f) {
					continue
				}
				prev := fmt.Sprintf("%d,0,", off)
				for j := i - 1; j >= 0; j-- {
					if steps[j] != "r" {
						prev = f[j]
						break
					}
				}
				cur := strings.Split(f[i], ",")
				pv := strings.Split(prev, ",")
				if cur[0] != pv[0] || cur[1] != pv[1] {
					return &hx.Violation{Kind: "status-roundtrip-changed-view", Detail: fmt.Sprintf("view (offset,start) %s,%s became %s,%s after CollectConsensusStatus/Serialize/Deserialize/RecoverFromConsensusStatus", pv[0], pv[1], cur[0], cur[1])}
				}
			}
		}
		// the manager's pre-V1 extras must be off from ChangeViewV1Height on
		if height >= forkH {
			for _, o := range strings.Fields(out) {
				if o == "f1" {
					return &hx.Violation{Kind: "manager-reset-view-after-v1", Detail: fmt.Sprintf("height %d >= ChangeViewV1Height %d but a ResetView message was forwarded to the dispatcher", height, forkH)}
				}
				if i := strings.Index(o, ",r"); i >= 0 && o[i+2:] != "0" {
					return &hx.Violation{Kind: "manager-reset-view-after-v1", Detail: fmt.Sprintf("height %d >= ChangeViewV1Height %d but OnChangeView broadcast a ResetView message", height, forkH)}
				}
			}
		}
		last := ""
		for i := len(steps) - 1; i >= 0; i-- {
			if steps[i] != "r" && steps[i] != "s" {
				last = steps[i]
				break
			}
		}
		if last == "" {
			return nil
		}
		T := i64(last[1:])
		if T <= tol {
			return nil
		}
		ts := strconv.FormatInt(T, 10)
		ra, _ := runCons(forkH, height, true, tol, n, me, off, []string{"c" + ts})
		rb, _ := runCons(forkH, height, true, tol, n, me, off, []string{"t" + ts})
		rc, _ := runCons(forkH, height, true, tol, n, me, off, []string{"o" + ts})
		a, b, c := ra[0], rb[0], rc[0]
		if a.off != b.off || a.start != b.start {
			return &hx.Violation{Kind: "cons-entry-points-disagree", Detail: fmt.Sprintf("height %d (ChangeViewV1Height %d), evaluated once at %d: ChangeView gives offset %d start %d, TryChangeView gives offset %d start %d", height, forkH, T, a.off, a.start, b.off, b.start)}
		}
		if a.off != c.off || a.start != c.start {
			return &hx.Violation{Kind: "cons-entry-points-disagree", Detail: fmt.Sprintf("height %d (ChangeViewV1Height %d), evaluated once at %d: ChangeView gives offset %d start %d, DPOSManager.OnChangeView gives offset %d start %d", height, forkH, T, a.off, a.start, c.off, c.start)}
		}
		return nil
	}
	if t[0] != "run" || out == "panic" {
		return nil
	}
	mode, tol, n, me, off, times := parseRun(t)
	if mode != "cv0" && mode != "cv1" {
		return nil
	}
	if off > 1<<31 {
		return nil // the theorems assume no uint32 wrap of the offset (2^32 views); correspondence only
	}
	if len(times) == 0 {
		return nil
	}
	polled := runSched(mode, tol, n, me, off, times)
	prev := off
	for _, s := range polled {
		if s.off < prev {
			return &hx.Violation{Kind: "offset-decreased", Detail: fmt.Sprintf("offset went from %d to %d", prev, s.off)}
		}
		prev = s.off
	}
	once := runSched(mode, tol, n, me, off, times[len(times)-1:])
	a, b := polled[len(polled)-1], once[0]
	if a.off == b.off && a.start == b.start {
		return nil
	}
	kind := mode + "-compose"
	known := false
	if mode == "cv1" {
		// the known shape: some intermediate evaluation moved the view to an offset >= arbiter
		// count, whose remaining time is then re-charged with the first-view formula
		for _, s := range polled[:len(polled)-1] {
			if s.off != off && s.off >= uint32(n) {
				kind = "cv1-compose-first-view-formula"
				known = true
				break
			}
		}
	}
	if known {
		// hx keeps at most 200 violations per run: report the known shape a few times only
		// (the corpus witness comes first), so that it can never crowd out a fresh kind
		knownReported++
		if knownReported > 5 {
			return nil
		}
	}
	return &hx.Violation{Kind: kind, Detail: fmt.Sprintf("polled at %v: offset %d start %d; evaluated once at %d: offset %d start %d", times, a.off, a.start, times[len(times)-1], b.off, b.start)}
}

var knownReported int

func nontrivial(t []string, out string) bool {
	switch t[0] {
	case "v0", "v1":
		return !strings.HasPrefix(out, "ok 0 ") && out != "panic"
	}
	return out != "panic" && len(t) > 7
}

func main() {
	// dpos/log has its own package-level logger; level 255 = silent
	dir, err := os.MkdirTemp("", "c26log")
	if err != nil {
		panic(err)
	}
	defer os.RemoveAll(dir)
	dlog.Init(dir, 255, 0, 0)
	hx.Main(&hx.Prop{Name: "C26", Gen: gen, Exec: exec, Oracle: oracle, Nontrivial: nontrivial})
}
