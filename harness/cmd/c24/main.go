// C24 — the random DPoS candidate does not depend on scheduling.
//
//	cand <seed|none> <normal> <cands> <unclaimed> <voted> <iso> <env> <blk>
//	     the REAL getCandidateIndexAtRandom (through the verif export) for a previous block built from
//	     blk = version:timestamp:bits:nonce:height ("none": block not found).  seed = the int64 the function
//	     derives from the block hash, iso = the first Intn(candidatesCount) of a fresh private source seeded
//	     with it — both are oracle values for the model, re-checked by the adapter.
//	     env = what the environment does to the PROCESS-GLOBAL math/rand generator between the function's
//	     seeding and drawing (hook point): comma separated d<n> (rand.Intn(n)) / s<seed> (rand.Seed), "-" = nothing,
//	     prefix H = additionally three goroutines hammer the global generator during the whole call.
//	     Output: ok <index> | err noblock | err notenough.
package main

import (
	"fmt"
	"math/rand"
	"strconv"
	"strings"
	"sync"
	"sync/atomic"

	"elaverif/harness/hx"

	"github.com/elastos/Elastos.ELA/core/types"
	common2 "github.com/elastos/Elastos.ELA/core/types/common"
	"github.com/elastos/Elastos.ELA/dpos/state"
)

func atoi(s string) int {
	v, err := strconv.Atoi(s)
	if err != nil {
		panic("harness: bad int " + s)
	}
	return v
}

func block(blk string) *types.Block {
	if blk == "none" {
		return nil
	}
	p := strings.Split(blk, ":")
	if len(p) != 5 {
		panic("harness: bad blk " + blk)
	}
	u := func(i int) uint32 {
		v, err := strconv.ParseUint(p[i], 10, 32)
		if err != nil {
			panic("harness: bad blk field " + p[i])
		}
		return uint32(v)
	}
	b := &types.Block{Header: common2.Header{Version: u(0), Timestamp: u(1), Bits: u(2), Nonce: u(3), Height: u(4)}}
	b.Header.Previous[0] = byte(u(3))
	return b
}

func seedOf(b *types.Block) int64 {
	h := b.Hash()
	x := make([]byte, 8)
	copy(x, h[24:])
	s, _, _ := state.Readi64(x)
	return s
}

// candidatesCount as the property describes the window: the voted producers beyond the
// unclaimed and the first normal-1 ones, at most cands+1 of them
func window(normal, cands, unclaimed, voted int) int {
	c := voted - unclaimed - (normal - 1)
	if c < 1 {
		return 0
	}
	if c > cands+1 {
		c = cands + 1
	}
	return c
}

func runEnv(env string) {
	env = strings.TrimPrefix(env, "H")
	if env == "-" || env == "" {
		return
	}
	for _, t := range strings.Split(env, ",") {
		switch t[0] {
		case 'd':
			n := atoi(t[1:])
			if n > 0 {
				rand.Intn(n)
			} else {
				rand.Int63()
			}
		case 's':
			v, err := strconv.ParseInt(t[1:], 10, 64)
			if err != nil {
				panic("harness: bad env seed " + t)
			}
			rand.Seed(v)
		default:
			panic("harness: bad env op " + t)
		}
	}
}

func exec(t []string) string {
	if t[0] != "cand" {
		panic("harness: unknown op " + t[0])
	}
	normal, cands, unclaimed, voted := atoi(t[2]), atoi(t[3]), atoi(t[4]), atoi(t[5])
	b := block(t[8])
	if b == nil {
		if t[1] != "none" {
			return "oracle-mismatch seed"
		}
	} else {
		s := seedOf(b)
		if strconv.FormatInt(s, 10) != t[1] {
			return "oracle-mismatch seed " + strconv.FormatInt(s, 10)
		}
		iso := 0
		if n := window(normal, cands, unclaimed, voted); n > 0 {
			iso = rand.New(rand.NewSource(s)).Intn(n)
		}
		if strconv.Itoa(iso) != t[6] {
			return "oracle-mismatch iso " + strconv.Itoa(iso)
		}
	}
	env := t[7]
	state.VerifInterleave = func() { runEnv(env) }
	defer func() { state.VerifInterleave = nil }()
	var stop int32
	var wg sync.WaitGroup
	if strings.HasPrefix(env, "H") {
		for i := 0; i < 3; i++ {
			wg.Add(1)
			go func() {
				defer wg.Done()
				for atomic.LoadInt32(&stop) == 0 {
					rand.Int63()
				}
			}()
		}
	}
	idx, err := state.VerifCandidateIndexAtRandom(b, normal, cands, 1000, unclaimed, voted)
	atomic.StoreInt32(&stop, 1)
	wg.Wait()
	if err != nil {
		switch err.Error() {
		case "block is not found":
			return "err noblock"
		case "producers is not enough":
			return "err notenough"
		}
		return "err other"
	}
	return fmt.Sprintf("ok %d", idx)
}

// oracle: the chosen candidate must be a function of chain data only — the value an
// undisturbed private generator seeded from the block hash draws first.
func oracle(t []string, out string) *hx.Violation {
	if !strings.HasPrefix(out, "ok ") || t[8] == "none" {
		return nil
	}
	normal, cands, unclaimed, voted := atoi(t[2]), atoi(t[3]), atoi(t[4]), atoi(t[5])
	n := window(normal, cands, unclaimed, voted)
	if n <= 0 {
		return &hx.Violation{Kind: "candidate-chosen-from-empty-window", Detail: out}
	}
	want := rand.New(rand.NewSource(seedOf(block(t[8])))).Intn(n)
	if out != fmt.Sprintf("ok %d", want) {
		return &hx.Violation{Kind: "candidate-depends-on-schedule",
			Detail: fmt.Sprintf("with environment %s on the process-global generator between seeding and drawing the chosen index is %s; undisturbed it is %d (window %d)", t[7], out[3:], want, n)}
	}
	return nil
}

func gen(g *hx.Gen) {
	envs := []string{"-", "d7", "d1", "d1000000", "d0", "s1", "s42,d3", "d3,d5,d9", "d2,s7,d2", "H-", "Hd5", "Hs9"}
	for i := 0; i < g.N(3000, 60000); i++ {
		normal := g.R.Pick(1, 2, 12, 24, 36)
		cands := g.R.Pick(0, 1, 24, 36, 72)
		unclaimed := g.R.Intn(4)
		voted := g.R.Intn(140)
		if g.R.Chance(20) {
			voted = unclaimed + normal - 1 + g.R.Intn(3) // around the "not enough" boundary
		}
		blk := fmt.Sprintf("%d:%d:%d:%d:%d", g.R.Intn(3), g.R.U64()&0xffffffff, 0x207fffff, g.R.U64()&0xffffffff, g.R.Intn(3000000))
		seed, iso := "none", 0
		if g.R.Chance(3) {
			blk = "none"
		} else {
			s := seedOf(block(blk))
			seed = strconv.FormatInt(s, 10)
			if n := window(normal, cands, unclaimed, voted); n > 0 {
				iso = rand.New(rand.NewSource(s)).Intn(n)
			}
		}
		env := envs[g.R.Intn(len(envs))]
		if i%400 != 0 && strings.HasPrefix(env, "H") {
			env = envs[g.R.Intn(9)] // hammering goroutines only now and then (they are slow to start/stop)
		}
		if g.R.Chance(15) {
			var ops []string
			for k := 1 + g.R.Intn(5); k > 0; k-- {
				if g.R.Chance(25) {
					ops = append(ops, fmt.Sprintf("s%d", int64(g.R.U64()>>1)))
				} else {
					ops = append(ops, fmt.Sprintf("d%d", g.R.Intn(1000)))
				}
			}
			env = strings.Join(ops, ",")
		}
		g.Emit("cand %s %d %d %d %d %d %s %s", seed, normal, cands, unclaimed, voted, iso, env, blk)
	}
}

func nontrivial(t []string, out string) bool {
	// a candidate was drawn while the environment acted on the global generator
	return strings.HasPrefix(out, "ok ") && t[7] != "-"
}

func main() {
	hx.Main(&hx.Prop{Name: "C24", Gen: gen, Exec: exec, Oracle: oracle, Nontrivial: nontrivial})
}
