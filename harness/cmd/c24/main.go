// C24 — the random DPoS candidate does not depend on scheduling.
//
//	cand <seed|none> <normal> <cands> <unclaimed> <voted> <iso> <env> <blk>
//	     the REAL getCandidateIndexAtRandom (through the verif export) for a previous block built from
//	     blk = version:timestamp:bits:nonce:height ("none": block not found).  seed = the int64 the function
//	     derives from the block hash, iso = the first Intn(candidatesCount) of a fresh private source seeded
//	     with it — both are oracle values for the model, re-checked by the adapter.
//	     env = what the environment does to the PROCESS-GLOBAL math/rand generator between the function's
//	     seeding and drawing (hook point): comma separated d<n> (rand.Intn(n)) / s<seed> (rand.Seed), "-" = nothing,
//	     prefix H = additionally three goroutines hammer the global generator during the whole call.
//	     Output: ok <index> | err noblock | err notenough.
//	sort v1|v2 <reps> <votes:nodekey>...
//	     the REAL getSortedProducers / getSortedProducersDposV2 on a state holding these producers, called
//	     reps times (fresh map, different insertion order each time).  Output: the node keys in order, or
//	     "unstable" when two repetitions disagree.
//	crchange <a> <b> <o>
//	     the REAL Committee.ProcessBlock of a committee-change block, then Committee + DPoS State.ProcessBlock of the
//	     next block carrying the elected member's (owner key o…) current-term claim of node key b… (it had claimed a…
//	     for the new term), then six blocks without a block from that node; run once plainly and once with an extra
//	     slow subscriber of the committee-change event.  Output (of the slow run): ownerB=<owner|none> inactive=<bool>.
//	crmembers <reps> <did,...>
//	     the REAL Committee.GetAllMembersCopy on a committee holding these members, reps times on freshly built
//	     maps: the DIDs in the returned order, or "unstable".
//	snap <votes:nodekey:ownerkey>...
//	     Snapshot() of the REAL DPoS checkpoint of a state holding these producers, serialised before and after
//	     the live state is changed.  Output: isolated | shared.
//	ckorder <reps> <key:priority,...>
//	     the order in which the REAL node's checkpoint manager (CR state, DPoS state, tx pool, … as registered by
//	     an in-process node) notifies its checkpoints, asked reps times; the key:priority pairs are oracle values.
//	wrand <seed|none> <normal> <cands> <period> <height> <unclaimed> <lastH> <lastOwner|-> <iso> <env> <blk> <tip> <votes:nodekey:ownerkey>...
//	     the REAL getSortedProducersWithRandom (the producer order handed to the next-arbiter computation) on a
//	     state holding these producers, three times on freshly built maps, with the environment acting at the
//	     hook point and the chain tip as given.  Output: owner keys in order + the last-random bookkeeping.
//	randv2 <seed> <normal> <crc> <unclaimed> <draws> <env> <blk> <rights:nodekey:ownerkey>...
//	     the REAL getRandomDposV2Producers with the environment acting on the process-global generator at the
//	     hook point between seeding and the draws; draws = what a fresh private source seeded from the block
//	     draws (oracle values).  Output: the owner keys in the selected order.
package main

import (
	"bytes"
	"encoding/hex"
	"fmt"
	"math"
	"math/rand"
	"os"
	"sort"
	"strconv"
	"strings"
	"sync"
	"sync/atomic"
	"time"

	"elaverif/harness/hx"
	"elaverif/harness/regnet"

	"github.com/elastos/Elastos.ELA/common"
	"github.com/elastos/Elastos.ELA/common/config"
	"github.com/elastos/Elastos.ELA/core/checkpoint"
	"github.com/elastos/Elastos.ELA/core/transaction"
	"github.com/elastos/Elastos.ELA/core/types"
	common2 "github.com/elastos/Elastos.ELA/core/types/common"
	"github.com/elastos/Elastos.ELA/core/types/functions"
	"github.com/elastos/Elastos.ELA/core/types/interfaces"
	"github.com/elastos/Elastos.ELA/core/types/payload"
	crstate "github.com/elastos/Elastos.ELA/cr/state"
	"github.com/elastos/Elastos.ELA/dpos/state"
	"github.com/elastos/Elastos.ELA/events"
)

func atoi(s string) int {
	v, err := strconv.Atoi(s)
	if err != nil {
		panic("harness: bad int " + s)
	}
	return v
}

func block(blk string) *types.Block {
	if blk == "none" {
		return nil
	}
	p := strings.Split(blk, ":")
	if len(p) != 5 {
		panic("harness: bad blk " + blk)
	}
	u := func(i int) uint32 {
		v, err := strconv.ParseUint(p[i], 10, 32)
		if err != nil {
			panic("harness: bad blk field " + p[i])
		}
		return uint32(v)
	}
	b := &types.Block{Header: common2.Header{Version: u(0), Timestamp: u(1), Bits: u(2), Nonce: u(3), Height: u(4)}}
	b.Header.Previous[0] = byte(u(3))
	return b
}

// tipOf reads the optional trailing token tip=<best>:<blk> (default: live node, best = 1000).
func tipOf(t []string, i int) (uint32, *types.Block) {
	if len(t) > i && strings.HasPrefix(t[i], "tip=") {
		p := strings.SplitN(t[i][4:], ":", 2)
		return uint32(atoi(p[0])), block(p[1])
	}
	return 1000, nil
}

func seedOf(b *types.Block) int64 {
	h := b.Hash()
	x := make([]byte, 8)
	copy(x, h[24:])
	s, _, _ := state.Readi64(x)
	return s
}

// candidatesCount as the property describes the window: the voted producers beyond the
// unclaimed and the first normal-1 ones, at most cands+1 of them
func window(normal, cands, unclaimed, voted int) int {
	c := voted - unclaimed - (normal - 1)
	if c < 1 {
		return 0
	}
	if c > cands+1 {
		c = cands + 1
	}
	return c
}

func runEnv(env string) {
	env = strings.TrimPrefix(env, "H")
	if env == "-" || env == "" {
		return
	}
	for _, t := range strings.Split(env, ",") {
		switch t[0] {
		case 'd':
			n := atoi(t[1:])
			if n > 0 {
				rand.Intn(n)
			} else {
				rand.Int63()
			}
		case 's':
			v, err := strconv.ParseInt(t[1:], 10, 64)
			if err != nil {
				panic("harness: bad env seed " + t)
			}
			rand.Seed(v)
		default:
			panic("harness: bad env op " + t)
		}
	}
}

type prod struct {
	v      int64
	node   []byte
	owner  []byte
	stakes []state.VerifStake
}

// the vote rights of a stake list as the property needs them: a function of the set of stakes —
// each stake contributes floor(votes * log10(lock/720)) (integers: the sum does not depend on the order)
func rightsOf(st []state.VerifStake) int64 {
	var r int64
	for _, s := range st {
		r += int64(float64(s.Votes) * math.Log10(float64(s.Lock)/7200*10))
	}
	return r
}

func parseProds(ts []string) []prod {
	var res []prod
	for _, t := range ts {
		p := strings.Split(t, ":")
		if len(p) < 2 {
			panic("harness: bad producer " + t)
		}
		v, err := strconv.ParseInt(p[0], 10, 64)
		if err != nil {
			panic("harness: bad votes " + p[0])
		}
		pr := prod{v: v, node: hx.UnHex(p[1])}
		pr.owner = append([]byte{0xEE}, pr.node...)
		if len(p) >= 3 {
			pr.owner = hx.UnHex(p[2])
		}
		if len(p) == 4 {
			for _, st := range strings.Split(p[3], "+") {
				q := strings.Split(st, "@")
				pr.stakes = append(pr.stakes, state.VerifStake{Votes: common.Fixed64(atoi(q[0])), Lock: uint32(atoi(q[1]))})
			}
			if rightsOf(pr.stakes) != pr.v {
				panic(fmt.Sprintf("harness: rights %d of %s do not match the op's value %d", rightsOf(pr.stakes), p[3], pr.v))
			}
		}
		res = append(res, pr)
	}
	return res
}

func toVerif(ps []prod, shuffle int) []state.VerifProducer {
	var res []state.VerifProducer
	for _, p := range ps {
		vp := state.VerifProducer{Owner: p.owner, Node: p.node, Votes: common.Fixed64(p.v), Rights: common.Fixed64(p.v)}
		if len(p.stakes) > 0 {
			// a different record order per repetition (the records live in Go maps anyway)
			st := append([]state.VerifStake(nil), p.stakes...)
			for i := range st {
				j := (i*5 + shuffle*3) % len(st)
				st[i], st[j] = st[j], st[i]
			}
			vp.Stakes = st
		}
		res = append(res, vp)
	}
	// a different insertion order per repetition (Go's map order is random anyway)
	for i := range res {
		j := (i*7 + shuffle*13) % len(res)
		res[i], res[j] = res[j], res[i]
	}
	return res
}

// the order the property demands: more votes first, ties by smaller node public key
func wantOrder(ps []prod) []prod {
	s := append([]prod(nil), ps...)
	sort.SliceStable(s, func(i, j int) bool {
		if s[i].v != s[j].v {
			return s[i].v > s[j].v
		}
		return bytes.Compare(s[i].node, s[j].node) < 0
	})
	return s
}

func seedAuxOf(b *types.Block) int64 {
	h := b.HashWithAux()
	x := make([]byte, 8)
	copy(x, h[24:])
	s, _, _ := state.Readi64(x)
	return s
}

// what getRandomDposV2Producers must return: count keys drawn by an undisturbed private generator
// seeded from the block, then the rest in order
func wantV2(seed int64, ps []prod, unclaimed, count int) (res []string, draws []string) {
	var keys []string
	for _, p := range wantOrder(ps)[unclaimed:] {
		keys = append(keys, hex.EncodeToString(p.owner))
	}
	if len(keys) > count {
		r := rand.New(rand.NewSource(seed))
		for i := 0; i < count; i++ {
			d := r.Intn(len(keys))
			draws = append(draws, strconv.Itoa(d))
			res = append(res, keys[d])
			keys = append(keys[:d:d], keys[d+1:]...)
		}
	}
	return append(res, keys...), draws
}

func joinOr(xs []string, sep, empty string) string {
	if len(xs) == 0 {
		return empty
	}
	return strings.Join(xs, sep)
}

func execSort(t []string) string {
	ps := parseProds(t[3:])
	reps := atoi(t[2])
	var first string
	for k := 0; k < reps; k++ {
		var keys []string
		for _, n := range state.VerifSortedProducers(toVerif(ps, k), t[1] == "v2") {
			keys = append(keys, hx.Hex(n))
		}
		cur := strings.Join(keys, " ")
		if k == 0 {
			first = cur
		} else if cur != first {
			lastUnstable = first + " | " + cur
			return "unstable"
		}
	}
	return first
}

var lastUnstable string

func execRandV2(t []string) string {
	normal, crc, unclaimed := atoi(t[2]), atoi(t[3]), atoi(t[4])
	b := block(t[7])
	ps := parseProds(t[9:])
	seed := seedAuxOf(b)
	if strconv.FormatInt(seed, 10) != t[1] {
		return "oracle-mismatch seed " + strconv.FormatInt(seed, 10)
	}
	if _, draws := wantV2(seed, ps, unclaimed, normal+crc); joinOr(draws, ",", "-") != t[5] {
		return "oracle-mismatch draws " + joinOr(draws, ",", "-")
	}
	env := t[6]
	state.VerifInterleave = func() { runEnv(env) }
	defer func() { state.VerifInterleave = nil }()
	best, other := tipOf(t, 8)
	res, err := state.VerifRandomDposV2Producers(b, normal, crc, unclaimed, toVerif(ps, 0), best, other)
	if err != nil {
		return "err " + strings.ReplaceAll(err.Error(), " ", "_")
	}
	return joinOr(res, ",", "-")
}

// what getSortedProducersWithRandom must return: the sorted producers with the candidate — the previous one while
// it is still valid, else the one an undisturbed private generator seeded from block height-1 draws — on the last
// normal seat; and the bookkeeping afterwards
func wantWithRandom(t []string) (string, bool) {
	normal, cands, period, height, unclaimed := atoi(t[2]), atoi(t[3]), uint32(atoi(t[4])), uint32(atoi(t[5])), atoi(t[6])
	lastH, lastO := uint32(atoi(t[7])), t[8]
	if lastO == "-" {
		lastO = ""
	}
	sorted := wantOrder(parseProds(t[13:]))
	seat := unclaimed + normal - 1
	move := func(i int) []string {
		var res []string
		for _, p := range sorted[:seat] {
			res = append(res, hex.EncodeToString(p.owner))
		}
		res = append(res, hex.EncodeToString(sorted[i].owner))
		for _, p := range sorted[seat:i] {
			res = append(res, hex.EncodeToString(p.owner))
		}
		for _, p := range sorted[i+1:] {
			res = append(res, hex.EncodeToString(p.owner))
		}
		return res
	}
	if lastH != 0 && height-lastH < period {
		for i, p := range sorted {
			if hex.EncodeToString(p.owner) == lastO {
				if i < seat {
					break
				}
				return fmt.Sprintf("%s last=%d:%s", strings.Join(move(i), ","), lastH, joinOr([]string{lastO}, "", "-")), true
			}
		}
	}
	if t[11] == "none" {
		return "err noblock", true
	}
	n := window(normal, cands, unclaimed, len(sorted))
	if n <= 0 {
		return "err notenough", true
	}
	idx := rand.New(rand.NewSource(seedOf(block(t[11])))).Intn(n)
	return fmt.Sprintf("%s last=%d:%s", strings.Join(move(seat+idx), ","), height, hex.EncodeToString(sorted[seat+idx].owner)), true
}

func execWrand(t []string) string {
	normal, cands, period, height, unclaimed := atoi(t[2]), atoi(t[3]), uint32(atoi(t[4])), uint32(atoi(t[5])), atoi(t[6])
	lastH, lastO := uint32(atoi(t[7])), t[8]
	if lastO == "-" {
		lastO = ""
	}
	b := block(t[11])
	ps := parseProds(t[13:])
	if b != nil {
		s := seedOf(b)
		if strconv.FormatInt(s, 10) != t[1] {
			return "oracle-mismatch seed " + strconv.FormatInt(s, 10)
		}
		iso := 0
		if n := window(normal, cands, unclaimed, len(ps)); n > 0 {
			iso = rand.New(rand.NewSource(s)).Intn(n)
		}
		if strconv.Itoa(iso) != t[9] {
			return "oracle-mismatch iso " + strconv.Itoa(iso)
		}
	}
	env := t[10]
	state.VerifInterleave = func() { runEnv(env) }
	defer func() { state.VerifInterleave = nil }()
	best, other := tipOf(t, 12)
	var first string
	for rep := 0; rep < 3; rep++ { // fresh state (fresh maps) every time
		res, lh, lo, err := state.VerifSortedProducersWithRandom(b, normal, cands, period, height, unclaimed, toVerif(ps, rep), lastH, lastO, best, other)
		var cur string
		if err != nil {
			switch err.Error() {
			case "block is not found":
				cur = "err noblock"
			case "producers is not enough":
				cur = "err notenough"
			default:
				cur = "err other"
			}
		} else {
			cur = fmt.Sprintf("%s last=%d:%s", strings.Join(res, ","), lh, joinOr([]string{lo}, "", "-"))
		}
		if rep == 0 {
			first = cur
		} else if cur != first {
			lastUnstable = first + " | " + cur
			return "unstable"
		}
	}
	return first
}

var ckNode *regnet.Node
var ckDir string

func ckManager() *regnet.Node {
	if ckNode == nil {
		d, err := os.MkdirTemp("", "c24ck")
		if err != nil {
			panic("harness: " + err.Error())
		}
		n, err := regnet.NewNode(d, regnet.Options{NoPoolEvents: true})
		if err != nil {
			panic("harness: regnet node: " + err.Error())
		}
		ckNode, ckDir = n, d
	}
	return ckNode
}

// the real node's checkpoint manager with everything the node registers (CR state, DPoS state, tx pool, …):
// key:priority of the registered checkpoints, sorted by key
func ckPairs() string {
	var ps []string
	for _, c := range ckManager().Chain.CkpManager.VerifOrderedCheckpoints() {
		ps = append(ps, fmt.Sprintf("%s:%d", c.Key(), c.Priority()))
	}
	sort.Strings(ps)
	return strings.Join(ps, ",")
}

func execCkOrder(t []string) string {
	if got := ckPairs(); got != t[2] {
		return "oracle-mismatch " + got
	}
	var first string
	for k := 0; k < atoi(t[1]); k++ {
		var keys []string
		for _, c := range ckManager().Chain.CkpManager.VerifOrderedCheckpoints() {
			keys = append(keys, c.Key())
		}
		cur := strings.Join(keys, ",")
		if k == 0 {
			first = cur
		} else if cur != first {
			lastUnstable = first + " | " + cur
			return "unstable"
		}
	}
	return first
}

func execSnap(t []string) string {
	before, after, err := state.VerifSnapshotIsolation(toVerif(parseProds(t[1:]), 0))
	if err != nil {
		return "err " + strings.ReplaceAll(err.Error(), " ", "_")
	}
	if !bytes.Equal(before, after) {
		return "shared"
	}
	return "isolated"
}

// ---- committee change followed by a council member's claim of a new DPoS node (seeded/C24-7's scenario)

var slowOnce sync.Once
var slowGate chan struct{} // nil: the slow subscriber lets the notification through at once

func key33(b byte) []byte {
	k := make([]byte, 33)
	k[0] = 0x02
	for i := 1; i < 33; i++ {
		k[i] = b
	}
	return k
}

// crChangeRun: the real Committee.ProcessBlock of a committee-change block (height 100), then both ProcessBlocks of
// block 101 carrying the elected member's current-term CRCouncilMemberClaimNode for node key B, then
// MaxInactiveRounds+1 blocks sponsored by another arbiter while B is an arbiter.  With slow == true one extra event
// subscriber (registered ahead of the DPoS state) holds the committee-change notification back until block 101 is
// connected (at most 300 ms) — harmless when the notification is delivered synchronously.
// Result: the owner the DPoS state resolves node key B to, and whether the member was set inactive.
func crChangeRun(a, b, o byte, slow bool) string {
	slowOnce.Do(func() {
		events.Subscribe(func(e *events.Event) {
			if e.Type == events.ETCRCChangeCommittee {
				if g := slowGate; g != nil {
					select {
					case <-g:
					case <-time.After(300 * time.Millisecond):
					}
				}
			}
		})
	})
	ownerPub, nodeA, nodeB, other := key33(o), key33(a), key33(b), key33(0xc3)
	did := common.Uint168{0x67, 1, 2, 3}
	params := config.GetDefaultParams()
	params.CRCOnlyDPOSHeight = 5
	params.PublicDPOSHeight = 10
	params.DPoSV2StartHeight = 20
	params.CRConfiguration.CRVotingStartHeight = 1
	params.CRConfiguration.CRCommitteeStartHeight = 100
	params.CRConfiguration.CRClaimDPOSNodeStartHeight = 30
	params.CRConfiguration.ChangeCommitteeNewCRHeight = 40
	params.DPoSConfiguration.MaxInactiveRounds = 5
	committee := crstate.NewCommittee(params, checkpoint.NewManager(params))
	committee.NextMembers[did] = &crstate.CRMember{
		Info:        payload.CRInfo{Code: append(append([]byte{33}, ownerPub...), 0xac), DID: did, CID: common.Uint168{0x1b, 1, 2, 3}, NickName: "member"},
		MemberState: crstate.MemberElected, DPOSPublicKey: nodeA,
	}
	committee.NextClaimedDPoSKeys[hex.EncodeToString(nodeA)] = struct{}{}
	var arbiters []*state.ArbiterInfo
	dpos := state.NewState(params,
		func() []*state.ArbiterInfo { return arbiters },
		committee.GetCurrentMembers, committee.GetNextMembers, committee.IsInElectionPeriod,
		func(common.Uint168) (common.Fixed64, error) { return 0, nil },
		committee.TryUpdateCRMemberInactivity, committee.TryRevertCRMemberInactivity,
		committee.TryUpdateCRMemberIllegal, committee.TryRevertCRMemberIllegal,
		committee.UpdateCRInactivePenalty, committee.RevertUpdateCRInactivePenalty)
	dpos.NextCRNodeOwnerKeys[hex.EncodeToString(nodeA)] = hex.EncodeToString(ownerPub)
	blk := func(h uint32, txs ...interfaces.Transaction) *types.Block {
		return &types.Block{Header: common2.Header{Height: h, Timestamp: 1600000000 + h}, Transactions: txs}
	}
	connect := func(b *types.Block, sponsor []byte) {
		committee.ProcessBlock(b, nil)
		dpos.ProcessBlock(b, sponsor, 0)
	}
	var gate chan struct{}
	if slow {
		gate = make(chan struct{})
	}
	slowGate = gate
	defer func() { slowGate = nil }()
	connect(blk(98), nil)
	connect(blk(99), nil)
	connect(blk(100), nil) // the committee changes here
	claim := functions.CreateTransaction(common2.TxVersion09, common2.CRCouncilMemberClaimNode, payload.CurrentCRClaimDPoSNodeVersion,
		&payload.CRCouncilMemberClaimNode{NodePublicKey: nodeB, CRCouncilCommitteeDID: did},
		[]*common2.Attribute{}, []*common2.Input{}, []*common2.Output{}, 0, nil)
	connect(blk(101, claim), nil)
	if gate != nil {
		close(gate)
		time.Sleep(20 * time.Millisecond) // let a notifier goroutine (if the delivery is asynchronous) finish
	}
	arbiters = []*state.ArbiterInfo{
		{NodePublicKey: nodeB, IsNormal: true, IsCRMember: true, ClaimedDPOSNode: true},
		{NodePublicKey: other, IsNormal: true},
	}
	for i := uint32(0); i < 6; i++ {
		connect(blk(102+i), other)
	}
	owner := dpos.CurrentCRNodeOwnerKeys[hex.EncodeToString(nodeB)]
	if owner == "" {
		owner = "none"
	} else {
		owner = owner[:4]
	}
	inactive := false
	for _, m := range committee.GetCurrentMembers() {
		if m.Info.DID.IsEqual(did) && m.MemberState == crstate.MemberInactive {
			inactive = true
		}
	}
	return fmt.Sprintf("ownerB=%s inactive=%v", owner, inactive)
}

var lastCRPlain string

func execCRChange(t []string) string {
	a, b, o := byte(atoi(t[1])), byte(atoi(t[2])), byte(atoi(t[3]))
	lastCRPlain = crChangeRun(a, b, o, false)
	return crChangeRun(a, b, o, true)
}

func didOf(hexs string) common.Uint168 {
	var d common.Uint168
	copy(d[:], hx.UnHex(hexs))
	return d
}

// the council members as the next-arbiter computation sees them (GetAllMembersCopy: getCRCArbitersV0/V1/V2 pair the
// fixed CRC node keys with unclaimed members in THIS order)
func execCRMembers(t []string) string {
	params := config.GetDefaultParams()
	dids := strings.Split(t[2], ",")
	var first string
	for k := 0; k < atoi(t[1]); k++ {
		c := crstate.NewCommittee(params, checkpoint.NewManager(params))
		c.Members = map[common.Uint168]*crstate.CRMember{}
		for i := range dids {
			d := didOf(dids[(i+k*3)%len(dids)]) // a rotation: every member exactly once, another insertion order per repetition
			m := &crstate.CRMember{MemberState: crstate.MemberElected}
			m.Info.DID = d
			c.Members[d] = m
		}
		var out []string
		for _, m := range c.GetAllMembersCopy() {
			out = append(out, hx.Hex(m.Info.DID[:]))
		}
		cur := strings.Join(out, ",")
		if k == 0 {
			first = cur
		} else if cur != first {
			lastUnstable = first + " | " + cur
			return "unstable"
		}
	}
	return first
}

func exec(t []string) string {
	switch t[0] {
	case "crchange":
		return execCRChange(t)
	case "crmembers":
		return execCRMembers(t)
	case "snap":
		return execSnap(t)
	case "ckorder":
		return execCkOrder(t)
	case "wrand":
		return execWrand(t)
	case "sort":
		return execSort(t)
	case "randv2":
		return execRandV2(t)
	}
	if t[0] != "cand" {
		panic("harness: unknown op " + t[0])
	}
	normal, cands, unclaimed, voted := atoi(t[2]), atoi(t[3]), atoi(t[4]), atoi(t[5])
	b := block(t[8])
	if b == nil {
		if t[1] != "none" {
			return "oracle-mismatch seed"
		}
	} else {
		s := seedOf(b)
		if strconv.FormatInt(s, 10) != t[1] {
			return "oracle-mismatch seed " + strconv.FormatInt(s, 10)
		}
		iso := 0
		if n := window(normal, cands, unclaimed, voted); n > 0 {
			iso = rand.New(rand.NewSource(s)).Intn(n)
		}
		if strconv.Itoa(iso) != t[6] {
			return "oracle-mismatch iso " + strconv.Itoa(iso)
		}
	}
	env := t[7]
	state.VerifInterleave = func() { runEnv(env) }
	defer func() { state.VerifInterleave = nil }()
	var stop int32
	var wg sync.WaitGroup
	if strings.HasPrefix(env, "H") {
		for i := 0; i < 3; i++ {
			wg.Add(1)
			go func() {
				defer wg.Done()
				for atomic.LoadInt32(&stop) == 0 {
					rand.Int63()
				}
			}()
		}
	}
	// where the process-local chain tip stands is environment too: a live node reports the height being
	// processed, a node replaying above its checkpoint reports the tip; a different block sits below the tip
	best, other := tipOf(t, 9)
	idx, err := state.VerifCandidateIndexAtRandom(b, normal, cands, 1000, unclaimed, voted, best, other)
	atomic.StoreInt32(&stop, 1)
	wg.Wait()
	if err != nil {
		switch err.Error() {
		case "block is not found":
			return "err noblock"
		case "producers is not enough":
			return "err notenough"
		}
		return "err other"
	}
	return fmt.Sprintf("ok %d", idx)
}

// oracle: the chosen candidate must be a function of chain data only — the value an
// undisturbed private generator seeded from the block hash draws first.
func oracle(t []string, out string) *hx.Violation {
	switch t[0] {
	case "crchange":
		// the same chain data (committee change, claim of node B, six blocks without a block from B) must give the same
		// CR node-owner keys and the same member state however long an event subscriber takes
		if out != lastCRPlain {
			return &hx.Violation{Kind: "arbiter-set-depends-on-event-timing",
				Detail: fmt.Sprintf("with a slow (<= 300 ms) subscriber of the committee-change event: %s; without it: %s — the claim of node B made in block 101 is lost when the notification is delivered late, the member is never set inactive and its CRC arbiter stays a normal arbiter of the next set", out, lastCRPlain)}
		}
		return nil
	case "crmembers":
		if out == "unstable" {
			return &hx.Violation{Kind: "council-member-order-depends-on-map-order",
				Detail: "GetAllMembersCopy (the order in which unclaimed CRC node keys are handed to council members) returned two orders for one member set: " + lastUnstable}
		}
		return nil
	case "snap":
		if out == "shared" {
			return &hx.Violation{Kind: "checkpoint-snapshot-shares-live-state",
				Detail: "the DPoS checkpoint snapshot handed to the asynchronous file writer changed when the live state changed afterwards: the file (and a node restarting from it) depends on when the writer runs"}
		}
		return nil
	case "ckorder":
		// the order in which CR state, DPoS state, … see a block must be a function of the registered set
		seen := map[string]string{}
		for _, p := range strings.Split(t[2], ",") {
			kv := strings.Split(p, ":")
			if other, dup := seen[kv[1]]; dup {
				return &hx.Violation{Kind: "checkpoint-order-ambiguous",
					Detail: fmt.Sprintf("checkpoints %s and %s have the same priority %s: the order in which they process a block follows Go's map iteration (observed: %s)", other, kv[0], kv[1], out)}
			}
			seen[kv[1]] = kv[0]
		}
		if out == "unstable" {
			return &hx.Violation{Kind: "checkpoint-order-depends-on-map-order", Detail: lastUnstable}
		}
		return nil
	case "wrand":
		if strings.HasPrefix(out, "oracle-mismatch") {
			return nil
		}
		if out == "unstable" {
			return &hx.Violation{Kind: "producer-order-depends-on-map-order", Detail: "getSortedProducersWithRandom: " + lastUnstable}
		}
		if want, ok := wantWithRandom(t); ok && out != want {
			kind := "next-producers-depend-on-schedule"
			if t[10] == "-" {
				kind = "next-producers-not-a-function-of-chain-data"
			}
			return &hx.Violation{Kind: kind,
				Detail: fmt.Sprintf("getSortedProducersWithRandom (environment %s, %s) returned %s; chain data determine %s", t[10], t[12], out, want)}
		}
		return nil
	case "sort":
		if out == "unstable" {
			return &hx.Violation{Kind: "producer-order-depends-on-map-order",
				Detail: "two calls on the same producer set returned different orders: " + lastUnstable}
		}
		var keys []string
		for _, p := range wantOrder(parseProds(t[3:])) {
			keys = append(keys, hx.Hex(p.node))
		}
		if out != strings.Join(keys, " ") {
			return &hx.Violation{Kind: "producer-order-not-votes-then-key",
				Detail: "expected " + strings.Join(keys, " ")}
		}
		return nil
	case "randv2":
		if strings.HasPrefix(out, "err ") || strings.HasPrefix(out, "oracle-mismatch") {
			return nil
		}
		want, _ := wantV2(seedAuxOf(block(t[7])), parseProds(t[9:]), atoi(t[4]), atoi(t[2])+atoi(t[3]))
		if out != joinOr(want, ",", "-") {
			kind := "dposv2-selection-depends-on-schedule"
			if t[6] == "-" {
				kind = "dposv2-selection-depends-on-chain-tip"
			}
			return &hx.Violation{Kind: kind,
				Detail: fmt.Sprintf("("+t[8]+") with environment %s on the process-global generator between seeding and drawing the selection is %s; undisturbed it is %s", t[6], out, joinOr(want, ",", "-"))}
		}
		return nil
	}
	if !strings.HasPrefix(out, "ok ") || t[8] == "none" {
		return nil
	}
	normal, cands, unclaimed, voted := atoi(t[2]), atoi(t[3]), atoi(t[4]), atoi(t[5])
	n := window(normal, cands, unclaimed, voted)
	if n <= 0 {
		return &hx.Violation{Kind: "candidate-chosen-from-empty-window", Detail: out}
	}
	want := rand.New(rand.NewSource(seedOf(block(t[8])))).Intn(n)
	if out != fmt.Sprintf("ok %d", want) {
		kind := "candidate-depends-on-schedule"
		if len(t) > 9 && t[7] == "-" {
			kind = "candidate-depends-on-chain-tip"
		}
		return &hx.Violation{Kind: kind,
			Detail: fmt.Sprintf("("+strings.Join(t[9:], " ")+") with environment %s on the process-global generator between seeding and drawing the chosen index is %s; undisturbed it is %d (window %d)", t[7], out[3:], want, n)}
	}
	return nil
}

func gen(g *hx.Gen) {
	for i := 0; i < g.N(3, 12); i++ {
		a, b, o := 0xa1+g.R.Intn(8), 0xb1+g.R.Intn(8), 0x11+g.R.Intn(8)
		g.Emit("crchange %d %d %d", a, b, o)
	}
	for i := 0; i < g.N(60, 600); i++ {
		n := 2 + g.R.Intn(11)
		var ds []string
		seen := map[string]bool{}
		for len(ds) < n {
			d := make([]byte, 21)
			d[0] = 0x67
			copy(d[1:], g.R.Bytes(3))
			if g.R.Chance(50) {
				d[20] = byte(g.R.Intn(3)) // the most significant byte for Compare is the LAST one
			} else {
				copy(d[17:], g.R.Bytes(4))
			}
			if !seen[string(d)] {
				seen[string(d)] = true
				ds = append(ds, hx.Hex(d))
			}
		}
		g.Emit("crmembers 6 %s", strings.Join(ds, ","))
	}
	for i := 0; i < g.N(20, 200); i++ {
		g.Emit("snap %s", strings.Join(genProds(g, 2+g.R.Intn(8), true), " "))
	}
	g.Emit("ckorder 40 %s", ckPairs())
	if ckNode != nil {
		ckNode.Close()
		os.RemoveAll(ckDir)
		ckNode = nil
	}
	genMore(g)
	envs := []string{"-", "d7", "d1", "d1000000", "d0", "s1", "s42,d3", "d3,d5,d9", "d2,s7,d2", "H-", "Hd5", "Hs9"}
	for i := 0; i < g.N(3000, 60000); i++ {
		normal := g.R.Pick(1, 2, 12, 24, 36)
		cands := g.R.Pick(0, 1, 24, 36, 72)
		unclaimed := g.R.Intn(4)
		voted := g.R.Intn(140)
		if g.R.Chance(20) {
			voted = unclaimed + normal - 1 + g.R.Intn(3) // around the "not enough" boundary
		}
		blk := fmt.Sprintf("%d:%d:%d:%d:%d", g.R.Intn(3), g.R.U64()&0xffffffff, 0x207fffff, g.R.U64()&0xffffffff, g.R.Intn(3000000))
		seed, iso := "none", 0
		if g.R.Chance(3) {
			blk = "none"
		} else {
			s := seedOf(block(blk))
			seed = strconv.FormatInt(s, 10)
			if n := window(normal, cands, unclaimed, voted); n > 0 {
				iso = rand.New(rand.NewSource(s)).Intn(n)
			}
		}
		env := envs[g.R.Intn(len(envs))]
		if i%400 != 0 && strings.HasPrefix(env, "H") {
			env = envs[g.R.Intn(9)] // hammering goroutines only now and then (they are slow to start/stop)
		}
		if g.R.Chance(15) {
			var ops []string
			for k := 1 + g.R.Intn(5); k > 0; k-- {
				if g.R.Chance(25) {
					ops = append(ops, fmt.Sprintf("s%d", int64(g.R.U64()>>1)))
				} else {
					ops = append(ops, fmt.Sprintf("d%d", g.R.Intn(1000)))
				}
			}
			env = strings.Join(ops, ",")
		}
		if blk != "none" && g.R.Chance(40) {
			// a node replaying above its checkpoint: the chain tip is far above the height being processed
			g.Emit("cand %s %d %d %d %d %d %s %s tip=%d:%d:%d:%d:%d:%d", seed, normal, cands, unclaimed, voted, iso, env, blk,
				1001+g.R.Intn(500), g.R.Intn(3), g.R.U64()&0xffffffff, 0x207fffff, g.R.U64()&0xffffffff, g.R.Intn(3000000))
			continue
		}
		g.Emit("cand %s %d %d %d %d %d %s %s", seed, normal, cands, unclaimed, voted, iso, env, blk)
	}
}

func genProds(g *hx.Gen, n int, withOwner bool) []string {
	var res []string
	used := map[string]bool{}
	for len(res) < n {
		k := append([]byte{0x02 + g.R.Byte()&1}, g.R.Bytes(3)...)
		if g.R.Chance(30) {
			k[1] = 0x11 // shared prefix: the byte order of the keys must decide
		}
		if used[string(k)] {
			continue
		}
		used[string(k)] = true
		v := 1 + g.R.Intn(4) // few distinct values: many ties
		if g.R.Chance(20) {
			v = 1 + g.R.Intn(1000000)
		}
		if withOwner {
			res = append(res, fmt.Sprintf("%d:%s:%s", v, hx.Hex(k), hx.Hex(append([]byte{0x03}, g.R.Bytes(3)...))))
		} else {
			res = append(res, fmt.Sprintf("%d:%s", v, hx.Hex(k)))
		}
	}
	return res
}

func genMore(g *hx.Gen) {
	envs := []string{"-", "d7", "d1", "d1000000", "s1", "s42,d3", "d3,d5,d9", "d2,s7,d2"}
	// getSortedProducersWithRandom: the order handed to the next-arbiter computation
	for i := 0; i < g.N(800, 15000); i++ {
		ps := genProds(g, 4+g.R.Intn(12), true)
		normal, cands, unclaimed := 1+g.R.Intn(4), g.R.Pick(0, 1, 3, 8), g.R.Intn(2)
		period, height := g.R.Pick(1, 2, 5, 36), 1000
		lastH, lastO := 0, "-"
		if g.R.Chance(60) {
			lastH = height - g.R.Intn(8)
			if g.R.Chance(10) {
				lastH = height + 1 + g.R.Intn(3) // uint32 wrap-around of height-last
			}
			pp := parseProds(ps)
			lastO = hex.EncodeToString(pp[g.R.Intn(len(pp))].owner)
			if g.R.Chance(10) {
				lastO = "03ffffff" // not a producer any more
			}
		}
		blk := fmt.Sprintf("%d:%d:%d:%d:%d", g.R.Intn(3), g.R.U64()&0xffffffff, 0x207fffff, g.R.U64()&0xffffffff, g.R.Intn(3000000))
		seed, iso := "none", 0
		if g.R.Chance(3) {
			blk = "none"
		} else {
			s := seedOf(block(blk))
			seed = strconv.FormatInt(s, 10)
			if n := window(normal, cands, unclaimed, len(ps)); n > 0 {
				iso = rand.New(rand.NewSource(s)).Intn(n)
			}
		}
		tip := "tip=1000:0:1:1:1:1"
		if g.R.Chance(40) {
			tip = fmt.Sprintf("tip=%d:%d:%d:%d:%d:%d", 1001+g.R.Intn(500), g.R.Intn(3), g.R.U64()&0xffffffff, 0x207fffff, g.R.U64()&0xffffffff, g.R.Intn(3000000))
		}
		g.Emit("wrand %s %d %d %d %d %d %d %s %d %s %s %s %s", seed, normal, cands, period, height, unclaimed, lastH, lastO, iso, envs[g.R.Intn(len(envs))], blk, tip, strings.Join(ps, " "))
	}
	for i := 0; i < g.N(600, 10000); i++ {
		kind := "v1"
		if g.R.Bool() {
			kind = "v2"
		}
		g.Emit("sort %s %d %s", kind, 6, strings.Join(genProds(g, 2+g.R.Intn(10), false), " "))
	}
	// DPoS v2 rights made of several vote records with fractional weights; groups of producers holding the same
	// records (equal rights: the key must decide, whatever order the records are summed in)
	for i := 0; i < g.N(300, 5000); i++ {
		var toks []string
		for grp := 0; grp < 1+g.R.Intn(3); grp++ {
			var st []state.VerifStake
			for k := 3 + g.R.Intn(4); k > 0; k-- {
				st = append(st, state.VerifStake{Votes: common.Fixed64(1 + g.R.U64()%uint64([]int64{1000, 100000000, 100000000000}[g.R.Intn(3)])), Lock: uint32(7200 + g.R.Intn(700000))})
			}
			var parts []string
			for _, x := range st {
				parts = append(parts, fmt.Sprintf("%d@%d", x.Votes, x.Lock))
			}
			if rightsOf(st) <= 0 {
				continue
			}
			for m := 2 + g.R.Intn(2); m > 0; m-- {
				k := append([]byte{0x02 + g.R.Byte()&1}, g.R.Bytes(3)...)
				toks = append(toks, fmt.Sprintf("%d:%s:%s:%s", rightsOf(st), hx.Hex(k), hx.Hex(append([]byte{0x03}, k...)), strings.Join(parts, "+")))
			}
		}
		if len(toks) > 0 {
			g.Emit("sort v2 8 %s", strings.Join(toks, " "))
		}
	}
	for i := 0; i < g.N(1500, 30000); i++ {
		ps := genProds(g, 3+g.R.Intn(10), true)
		normal, crc, unclaimed := 1+g.R.Intn(4), g.R.Intn(3), g.R.Intn(2)
		blk := fmt.Sprintf("%d:%d:%d:%d:%d", g.R.Intn(3), g.R.U64()&0xffffffff, 0x207fffff, g.R.U64()&0xffffffff, g.R.Intn(3000000))
		seed := seedAuxOf(block(blk))
		_, draws := wantV2(seed, parseProds(ps), unclaimed, normal+crc)
		tip := "tip=1000:" + blk // live node: best height = height being processed
		if g.R.Chance(50) {
			tip = fmt.Sprintf("tip=%d:%d:%d:%d:%d:%d", 1001+g.R.Intn(500), g.R.Intn(3), g.R.U64()&0xffffffff, 0x207fffff, g.R.U64()&0xffffffff, g.R.Intn(3000000))
		}
		g.Emit("randv2 %d %d %d %d %s %s %s %s %s", seed, normal, crc, unclaimed, joinOr(draws, ",", "-"), envs[g.R.Intn(len(envs))], blk, tip, strings.Join(ps, " "))
	}
}

func nontrivial(t []string, out string) bool {
	switch t[0] {
	case "sort":
		return true
	case "wrand":
		return !strings.HasPrefix(out, "err")
	case "randv2":
		return t[5] != "-" && t[6] != "-" // keys were drawn while the environment acted
	}
	// a candidate was drawn while the environment acted on the global generator
	return strings.HasPrefix(out, "ok ") && t[7] != "-"
}

func main() {
	functions.GetTransactionByTxType = transaction.GetTransaction
	functions.GetTransactionByBytes = transaction.GetTransactionByBytes
	functions.CreateTransaction = transaction.CreateTransaction
	functions.GetTransactionParameters = transaction.GetTransactionparameters
	hx.Main(&hx.Prop{Name: "C24", Gen: gen, Exec: exec, Oracle: oracle, Nontrivial: nontrivial})
}
