// Harness for C10: auxpow.AuxPow.Check, GetMerkleRoot, GetExpectedIndex.
//
// ops
//
//	check <hash> <chainID> <cbHash> <parBranch> <parIdx> <parRoot> <auxBranch> <auxIdx> <script|none> <coinbaseTx>
//	      (cbHash and script are oracle values recomputed from <coinbaseTx> and re-checked by Exec)
//	branch <hash> <branch> <idx>          auxpow.GetMerkleRoot
//	expidx <nonce> <chainID> <h>          auxpow.GetExpectedIndex
package main

import (
	"bytes"
	"crypto/sha256"
	"encoding/binary"
	"encoding/hex"
	"fmt"
	"strconv"
	"strings"

	"elaverif/harness/hx"

	"github.com/elastos/Elastos.ELA/auxpow"
	"github.com/elastos/Elastos.ELA/common"
)

func hashes(s string) []common.Uint256 {
	b := hx.UnHex(s)
	if len(b)%32 != 0 {
		panic("harness: hash list not a multiple of 32 bytes")
	}
	out := make([]common.Uint256, len(b)/32)
	for i := range out {
		copy(out[i][:], b[32*i:])
	}
	return out
}
func hash1(s string) common.Uint256 {
	h := hashes(s)
	if len(h) != 1 {
		panic("harness: expected one hash")
	}
	return h[0]
}
func atoi(s string) int {
	v, err := strconv.ParseInt(s, 10, 64)
	if err != nil {
		panic("harness: bad int " + s)
	}
	return int(v)
}
func hashesHex(hs []common.Uint256) string {
	b := make([]byte, 0, 32*len(hs))
	for _, h := range hs {
		b = append(b, h[:]...)
	}
	return hx.Hex(b)
}

// ---- an independent reader of the Bitcoin transaction wire form (not the repository's decoder)

func readVar(b []byte, off int) (uint64, int, bool) {
	if off >= len(b) {
		return 0, off, false
	}
	switch b[off] {
	case 0xfd:
		if off+3 > len(b) {
			return 0, off, false
		}
		return uint64(binary.LittleEndian.Uint16(b[off+1:])), off + 3, true
	case 0xfe:
		if off+5 > len(b) {
			return 0, off, false
		}
		return uint64(binary.LittleEndian.Uint32(b[off+1:])), off + 5, true
	case 0xff:
		if off+9 > len(b) {
			return 0, off, false
		}
		return binary.LittleEndian.Uint64(b[off+1:]), off + 9, true
	}
	return uint64(b[off]), off + 1, true
}

// firstScript returns the signature script of input 0 as it stands in the bytes ("none" without inputs)
func firstScript(raw []byte) string {
	off := 4
	n, off, ok := readVar(raw, off)
	if !ok {
		panic("harness: coinbase bytes")
	}
	if n == 0 {
		return "none"
	}
	off += 36
	l, off, ok := readVar(raw, off)
	if !ok || off+int(l) > len(raw) {
		panic("harness: coinbase bytes")
	}
	return hx.Hex(raw[off : off+int(l)])
}

func rawHash(raw []byte) string { return hex.EncodeToString(sha256d(raw)) }

func putVar(b *bytes.Buffer, n int) {
	switch {
	case n < 0xfd:
		b.WriteByte(byte(n))
	case n <= 0xffff:
		b.WriteByte(0xfd)
		b.Write([]byte{byte(n), byte(n >> 8)})
	default:
		b.WriteByte(0xfe)
		b.Write(le32(uint32(n)))
	}
}

// wireOf assembles the AuxPow wire form from the check tokens u[1..10] by hand: coinbase bytes as given,
// zero parent hash, the two branches with uint32 indexes, an 80-byte parent header carrying the root
func wireOf(u []string) []byte {
	b := new(bytes.Buffer)
	b.Write(hx.UnHex(u[10]))
	b.Write(make([]byte, 32))
	pb := hx.UnHex(u[4])
	putVar(b, len(pb)/32)
	b.Write(pb)
	b.Write(le32(uint32(atoi(u[5]))))
	ab := hx.UnHex(u[7])
	putVar(b, len(ab)/32)
	b.Write(ab)
	b.Write(le32(uint32(atoi(u[8]))))
	b.Write(make([]byte, 36))
	b.Write(hx.UnHex(u[6]))
	b.Write(make([]byte, 12))
	return b.Bytes()
}

func varLen(n int) int {
	switch {
	case n < 0xfd:
		return 1
	case n <= 0xffff:
		return 3
	}
	return 5
}

func decodeTx(s string) auxpow.BtcTx {
	var tx auxpow.BtcTx
	if err := tx.Deserialize(bytes.NewReader(hx.UnHex(s))); err != nil {
		panic("harness: coinbase tx does not decode: " + err.Error())
	}
	return tx
}

func exec(t []string) string {
	switch t[0] {
	case "check":
		tx := decodeTx(t[10])
		if rawHash(hx.UnHex(t[10])) != t[3] || firstScript(hx.UnHex(t[10])) != t[9] {
			return "oracle-mismatch"
		}
		ap := auxpow.AuxPow{
			AuxMerkleBranch:   hashes(t[7]),
			AuxMerkleIndex:    atoi(t[8]),
			ParCoinbaseTx:     tx,
			ParCoinBaseMerkle: hashes(t[4]),
			ParMerkleIndex:    atoi(t[5]),
		}
		ap.ParBlockHeader.MerkleRoot = hash1(t[6])
		h := hash1(t[1])
		if ap.Check(&h, atoi(t[2])) {
			return "accept"
		}
		return "reject"
	case "checkw": // like check, but from the wire form (assembled by hand, indexes are uint32 there)
		if rawHash(hx.UnHex(t[10])) != t[3] || firstScript(hx.UnHex(t[10])) != t[9] {
			return "oracle-mismatch"
		}
		var dec auxpow.AuxPow
		if err := dec.Deserialize(bytes.NewReader(wireOf(t))); err != nil {
			return "undecodable"
		}
		h := hash1(t[1])
		if dec.Check(&h, atoi(t[2])) {
			return "accept"
		}
		return "reject"
	case "checkseq":
		// checkseq <hashA> <chainA> <wireA> <10 tokens of proof B as in check>:
		// ONE AuxPow variable decodes proof A, checks it, then decodes proof B and checks that.
		// The verdict must be that of proof B alone.
		var ap auxpow.AuxPow
		if err := ap.Deserialize(bytes.NewReader(hx.UnHex(t[3]))); err != nil {
			panic("harness: proof A does not decode")
		}
		ha := hash1(t[1])
		ap.Check(&ha, atoi(t[2]))
		u := t[3:] // u[1..10] = the check tokens of B
		if rawHash(hx.UnHex(u[10])) != u[3] || firstScript(hx.UnHex(u[10])) != u[9] {
			return "oracle-mismatch"
		}
		if err := ap.Deserialize(bytes.NewReader(wireOf(u))); err != nil {
			return "undecodable"
		}
		hb := hash1(u[1])
		if ap.Check(&hb, atoi(u[2])) {
			return "accept"
		}
		return "reject"
	case "genaux": // genaux <hash> <chainID>: the real GenerateAuxPow (btcfaker.go), checked, and through the wire
		h := hash1(t[1])
		ap := auxpow.GenerateAuxPow(h)
		script := "none"
		if len(ap.ParCoinbaseTx.TxIn) > 0 {
			script = hx.Hex(ap.ParCoinbaseTx.TxIn[0].SignatureScript)
		}
		v := ap.Check(&h, atoi(t[2]))
		buf := new(bytes.Buffer)
		if err := ap.Serialize(buf); err != nil {
			return "unserializable"
		}
		var dec auxpow.AuxPow
		if err := dec.Deserialize(bytes.NewReader(buf.Bytes())); err != nil {
			return "undecodable"
		}
		h2 := hash1(t[1])
		v2 := dec.Check(&h2, atoi(t[2]))
		h3 := hash1(t[1])
		h3[7] ^= 0x10
		v3 := dec.Check(&h3, atoi(t[2]))
		shape := fmt.Sprintf("%d/%d/%d/%d", len(ap.AuxMerkleBranch), ap.AuxMerkleIndex, len(ap.ParCoinBaseMerkle), ap.ParMerkleIndex)
		rootOK := ap.ParBlockHeader.MerkleRoot == ap.ParCoinbaseTx.Hash()
		return fmt.Sprintf("%v %v %v %s %s %v", v, v2, v3, shape, script, rootOK)
	case "codec":
		// codec <check tokens of a proof> <version> <previous> <timestamp> <bits> <nonce> <parentHash>:
		// AuxPow / BtcTx / BtcHeader Serialize → Deserialize → Serialize is the identity and keeps every field
		tx := decodeTx(t[10])
		ap := auxpow.AuxPow{
			AuxMerkleBranch:   hashes(t[7]),
			AuxMerkleIndex:    atoi(t[8]),
			ParCoinbaseTx:     tx,
			ParCoinBaseMerkle: hashes(t[4]),
			ParMerkleIndex:    atoi(t[5]),
		}
		ap.ParBlockHeader = auxpow.BtcHeader{Version: uint32(atoi(t[11])), Previous: hash1(t[12]), MerkleRoot: hash1(t[6]),
			Timestamp: uint32(atoi(t[13])), Bits: uint32(atoi(t[14])), Nonce: uint32(atoi(t[15]))}
		ap.ParentHash = hash1(t[16])
		b1 := new(bytes.Buffer)
		if err := ap.Serialize(b1); err != nil {
			return "unserializable"
		}
		var dec auxpow.AuxPow
		if err := dec.Deserialize(bytes.NewReader(b1.Bytes())); err != nil {
			return "undecodable"
		}
		b2 := new(bytes.Buffer)
		dec.Serialize(b2)
		if !bytes.Equal(b1.Bytes(), b2.Bytes()) {
			return "reencode-differs"
		}
		if dec.ParBlockHeader != ap.ParBlockHeader || dec.ParentHash != ap.ParentHash ||
			dec.ParMerkleIndex != int(uint32(ap.ParMerkleIndex)) || dec.AuxMerkleIndex != int(uint32(ap.AuxMerkleIndex)) ||
			hashesHex(dec.AuxMerkleBranch) != t[7] || hashesHex(dec.ParCoinBaseMerkle) != t[4] {
			return "fields-differ"
		}
		tb := new(bytes.Buffer)
		dec.ParCoinbaseTx.Serialize(tb)
		if hx.Hex(tb.Bytes()) != t[10] || dec.ParCoinbaseTx.Hash() != tx.Hash() {
			return "coinbase-differs"
		}
		// the parent header on its own: 80 bytes, hash = double SHA-256 of them
		hb := new(bytes.Buffer)
		ap.ParBlockHeader.Serialize(hb)
		var hd auxpow.BtcHeader
		if err := hd.Deserialize(bytes.NewReader(hb.Bytes())); err != nil || hd != ap.ParBlockHeader || hb.Len() != 80 {
			return "header-differs"
		}
		hh := ap.ParBlockHeader.Hash()
		if !bytes.Equal(hh[:], sha256d(hb.Bytes())) {
			return "header-hash-differs"
		}
		if len(b1.Bytes()) != len(hx.UnHex(t[10]))+32+varLen(len(ap.ParCoinBaseMerkle))+32*len(ap.ParCoinBaseMerkle)+4+
			varLen(len(ap.AuxMerkleBranch))+32*len(ap.AuxMerkleBranch)+4+80 {
			return "length-differs"
		}
		return "ok"
	case "branch":
		r := auxpow.GetMerkleRoot(hash1(t[1]), hashes(t[2]), atoi(t[3]))
		return hex.EncodeToString(r[:])
	case "expidx":
		n, err := strconv.ParseUint(t[1], 10, 32)
		if err != nil {
			panic("harness: bad nonce")
		}
		return strconv.Itoa(auxpow.GetExpectedIndex(uint32(n), atoi(t[2]), atoi(t[3])))
	}
	panic("harness: unknown op " + t[0])
}

// ---------------------------------------------------------------- reference definitions (oracle side)

func sha256d(b []byte) []byte {
	a := sha256.Sum256(b)
	c := sha256.Sum256(a[:])
	return c[:]
}

// textbook branch evaluation for a non-negative index
func refBranch(leaf []byte, branch []common.Uint256, idx int) []byte {
	h := append([]byte{}, leaf...)
	for _, s := range branch {
		if idx%2 == 1 {
			h = sha256d(append(append([]byte{}, s[:]...), h...))
		} else {
			h = sha256d(append(append([]byte{}, h...), s[:]...))
		}
		idx /= 2
	}
	return h
}

func reverse(b []byte) []byte {
	r := make([]byte, len(b))
	for i := range b {
		r[len(b)-1-i] = b[i]
	}
	return r
}

func refExpected(nonce uint32, chainID int, h int) (uint64, bool) {
	if h >= 32 {
		return 0, false
	}
	r := uint64(nonce)
	r = (r*1103515245 + 12345) & 0xffffffff
	r = (r + uint64(uint32(chainID))) & 0xffffffff
	r = (r*1103515245 + 12345) & 0xffffffff
	return r % (uint64(1) << uint(h)), true
}

var markerBytes = []byte{0xfa, 0xbe, 'm', 'm'}

// Property oracle: an accepted proof must (1) place the coinbase under the parent root,
// (2) carry exactly one marker in the script BYTES, immediately followed by the reversed aux
// root recomputed from this block hash, then size = 2^h and a nonce giving the slot.
func oracle(t []string, out string) *hx.Violation {
	if t[0] == "genaux" {
		// a generated proof is accepted for its block (also after a trip through the wire) and for no other hash
		f := strings.Fields(out)
		if len(f) < 3 || f[0] != "true" || f[1] != "true" || f[2] != "false" {
			return &hx.Violation{Kind: "generated-proof", Detail: "GenerateAuxPow(h) must be accepted for h (directly and after Serialize/Deserialize) and rejected for another hash"}
		}
		return nil
	}
	if t[0] == "codec" {
		if out != "ok" {
			return &hx.Violation{Kind: "codec-roundtrip", Detail: "AuxPow/BtcTx/BtcHeader serialisation round trip: " + out}
		}
		return nil
	}
	if t[0] == "checkseq" { // judged as the wire check of proof B
		return oracle(append([]string{"checkw"}, t[4:]...), out)
	}
	if (t[0] != "check" && t[0] != "checkw") || out != "accept" {
		return nil
	}
	parIdx, auxIdx := atoi(t[5]), atoi(t[8])
	if t[0] == "checkw" { // what the wire carries
		parIdx, auxIdx = int(uint32(parIdx)), int(uint32(auxIdx))
	}
	if parIdx >= 0 {
		if hex.EncodeToString(refBranch(hx.UnHex(t[3]), hashes(t[4]), parIdx)) != t[6] {
			return &hx.Violation{Kind: "accept-coinbase-not-under-root", Detail: "parent coinbase does not hash up to the parent merkle root"}
		}
	} else {
		// negative in-memory indexes cannot come from AuxPow.Deserialize (uint32); outside the property domain
		return nil
	}
	if t[9] == "none" {
		return &hx.Violation{Kind: "accept-no-script", Detail: "accepted without a coinbase input"}
	}
	script := hx.UnHex(t[9])
	auxBranch := hashes(t[7])
	h := len(auxBranch)
	if auxIdx < 0 {
		return &hx.Violation{Kind: "accept-negative-aux-index", Detail: "accepted with a negative aux index"}
	}
	auxRoot := refBranch(reverse(hx.UnHex(t[1])), auxBranch, auxIdx)
	cnt := bytes.Count(script, markerBytes)
	pos := bytes.Index(script, markerBytes)
	if cnt == 0 {
		return &hx.Violation{Kind: "accept-misaligned-marker", Detail: "accepted although the script bytes contain no fabe6d6d marker (the match is at an odd offset of the hex string)"}
	}
	if cnt != 1 {
		return &hx.Violation{Kind: "accept-marker-count", Detail: fmt.Sprintf("accepted with %d markers", cnt)}
	}
	rest := script[pos+4:]
	if len(rest) < 40 || !bytes.Equal(rest[:32], reverse(auxRoot)) {
		return &hx.Violation{Kind: "accept-root-not-after-marker", Detail: "marker is not immediately followed by the aux root committing to this block hash"}
	}
	size := binary.LittleEndian.Uint32(rest[32:36])
	nonce := binary.LittleEndian.Uint32(rest[36:40])
	if h >= 32 || uint64(size) != uint64(1)<<uint(h) {
		return &hx.Violation{Kind: "accept-size", Detail: "merkle size is not 2^height"}
	}
	e, _ := refExpected(nonce, atoi(t[2]), h)
	if uint64(auxIdx) != e {
		return &hx.Violation{Kind: "accept-slot", Detail: "aux index is not the slot derived from nonce and chain id"}
	}
	return nil
}

// ---------------------------------------------------------------- generation

type proof struct {
	hash      common.Uint256
	chainID   int
	tx        auxpow.BtcTx
	parBranch []common.Uint256
	parIdx    int
	parRoot   common.Uint256
	auxBranch []common.Uint256
	auxIdx    int
}

func (p *proof) emit(g *hx.Gen) string { return p.emitOp(g, "check") }

func (p *proof) emitOp(g *hx.Gen, op string) string {
	buf := new(bytes.Buffer)
	p.tx.Serialize(buf)
	cb := freshHash(&p.tx)
	script := "none"
	if len(p.tx.TxIn) > 0 {
		script = hx.Hex(p.tx.TxIn[0].SignatureScript)
	}
	return g.Emit(op+" %s %d %s %s %d %s %s %d %s %s", hex.EncodeToString(p.hash[:]), p.chainID,
		hex.EncodeToString(cb[:]), hashesHex(p.parBranch), p.parIdx, hex.EncodeToString(p.parRoot[:]),
		hashesHex(p.auxBranch), p.auxIdx, script, hx.Hex(buf.Bytes()))
}

func randHash(r *hx.Rand) (h common.Uint256) { copy(h[:], r.Bytes(32)); return }
func randHashes(r *hx.Rand, n int) []common.Uint256 {
	out := make([]common.Uint256, n)
	for i := range out {
		out[i] = randHash(r)
	}
	return out
}

func coinbaseWith(r *hx.Rand, script []byte) auxpow.BtcTx {
	in := &auxpow.BtcTxIn{PreviousOutPoint: auxpow.BtcOutPoint{Index: 0xffffffff}, SignatureScript: script, Sequence: uint32(r.U64())}
	outs := []*auxpow.BtcTxOut{}
	for i := r.Intn(3); i > 0; i-- {
		outs = append(outs, &auxpow.BtcTxOut{Value: int64(r.Intn(1 << 30)), PkScript: r.Bytes(r.Intn(30))})
	}
	ins := []*auxpow.BtcTxIn{in}
	for i := r.Pick(0, 0, 1, 2); i > 0; i-- { // further inputs: only input 0 carries the commitment
		ins = append(ins, &auxpow.BtcTxIn{PreviousOutPoint: auxpow.BtcOutPoint{Hash: randHash(r), Index: uint32(r.Intn(4))},
			SignatureScript: filler(r, r.Intn(40)), Sequence: uint32(r.U64())})
	}
	tx := auxpow.NewBtcTx(ins, outs)
	tx.Version = int32(1 + r.Intn(2))
	return *tx
}

func le32(v uint32) []byte { b := make([]byte, 4); binary.LittleEndian.PutUint32(b, v); return b }

// filler bytes that never contain a nibble 'f' (so no accidental marker)
func filler(r *hx.Rand, n int) []byte {
	b := r.Bytes(n)
	for i := range b {
		b[i] &= 0x77
	}
	return b
}

func pickChain(r *hx.Rand) int {
	switch r.Intn(6) {
	case 0:
		return 6
	case 1:
		return int(int32(r.U64()))
	case 2:
		return -1 - r.Intn(5000)
	case 3:
		return 1<<32 + r.Intn(5000)
	}
	return auxpow.AuxPowChainID
}

// a valid proof with aux height h; shift = true builds the nibble-misaligned variant
// (marker, root, size start at an odd nibble of the script).
func validProof(r *hx.Rand, h int, shift bool) (*proof, []byte, int) {
	p := &proof{chainID: pickChain(r)}
	nonce := uint32(r.U64())
	if h < 32 {
		p.auxIdx = auxpow.GetExpectedIndex(nonce, p.chainID, h)
	}
	var auxRoot common.Uint256
	for {
		p.hash = randHash(r)
		p.auxBranch = randHashes(r, h)
		var rev common.Uint256
		copy(rev[:], reverse(p.hash[:]))
		auxRoot = auxpow.GetMerkleRoot(rev, p.auxBranch, p.auxIdx)
		if !shift {
			break
		}
		// misaligned: the byte holding the last root nibble is also the low byte of `size`
		low := byte(0)
		if h < 8 {
			low = 1 << uint(h)
		}
		if reverse(auxRoot[:])[31]&0x0f == low>>4 {
			break
		}
	}
	size := uint32(0)
	if h < 32 {
		size = 1 << uint(h)
	}
	pre := filler(r, r.Intn(12))
	post := filler(r, r.Intn(6))
	var script []byte
	off := len(pre)
	if !shift {
		script = append(append([]byte{}, pre...), markerBytes...)
		script = append(script, reverse(auxRoot[:])...)
		script = append(script, le32(size)...)
		script = append(script, le32(nonce)...)
		script = append(script, post...)
	} else {
		// nibble string: pre ++ [x] ++ marker ++ root ++ (size without its first nibble) ...
		nib := []byte{}
		for _, b := range pre {
			nib = append(nib, b>>4, b&15)
		}
		nib = append(nib, byte(r.Intn(7))) // one nibble of padding
		for _, b := range markerBytes {
			nib = append(nib, b>>4, b&15)
		}
		for _, b := range reverse(auxRoot[:]) {
			nib = append(nib, b>>4, b&15)
		}
		sz := le32(size)
		nib = append(nib, sz[0]&15) // high nibble of this byte is the last root nibble
		for _, b := range sz[1:] {
			nib = append(nib, b>>4, b&15)
		}
		for _, b := range le32(nonce) {
			nib = append(nib, b>>4, b&15)
		}
		for i := 0; i+1 < len(nib); i += 2 {
			script = append(script, nib[i]<<4|nib[i+1])
		}
		script = append(script, post...)
	}
	p.tx = coinbaseWith(r, script)
	p.parBranch = randHashes(r, r.Intn(6))
	p.parIdx = r.Intn(1 << uint(len(p.parBranch)))
	if r.Chance(10) {
		p.parIdx = r.Intn(1 << 20)
	}
	p.parRoot = auxpow.GetMerkleRoot(freshHash(&p.tx), p.parBranch, p.parIdx)
	return p, script, off
}

// the hash of the transaction as a peer would compute it: from its bytes, never from a value the
// object may have remembered
func freshHash(tx *auxpow.BtcTx) common.Uint256 {
	buf := new(bytes.Buffer)
	tx.Serialize(buf)
	var h common.Uint256
	copy(h[:], sha256d(buf.Bytes()))
	return h
}

func (p *proof) wire() string {
	ap := auxpow.AuxPow{AuxMerkleBranch: p.auxBranch, AuxMerkleIndex: p.auxIdx, ParCoinbaseTx: p.tx,
		ParCoinBaseMerkle: p.parBranch, ParMerkleIndex: p.parIdx}
	ap.ParBlockHeader.MerkleRoot = p.parRoot
	buf := new(bytes.Buffer)
	if err := ap.Serialize(buf); err != nil {
		panic("harness: " + err.Error())
	}
	return hx.Hex(buf.Bytes())
}

// the check tokens of p (without the op name)
func (p *proof) tokens() string {
	buf := new(bytes.Buffer)
	p.tx.Serialize(buf)
	cb := freshHash(&p.tx)
	script := "none"
	if len(p.tx.TxIn) > 0 {
		script = hx.Hex(p.tx.TxIn[0].SignatureScript)
	}
	return fmt.Sprintf("%s %d %s %s %d %s %s %d %s %s", hex.EncodeToString(p.hash[:]), p.chainID,
		hex.EncodeToString(cb[:]), hashesHex(p.parBranch), p.parIdx, hex.EncodeToString(p.parRoot[:]),
		hashesHex(p.auxBranch), p.auxIdx, script, hx.Hex(buf.Bytes()))
}

func (p *proof) withScript(s []byte) *proof {
	q := *p
	tx := p.tx
	in := *tx.TxIn[0]
	in.SignatureScript = s
	tx.TxIn = []*auxpow.BtcTxIn{&in}
	q.tx = tx
	q.parRoot = auxpow.GetMerkleRoot(freshHash(&q.tx), q.parBranch, q.parIdx)
	return &q
}

func flip(r *hx.Rand, h common.Uint256) common.Uint256 {
	h[r.Intn(32)] ^= 1 << uint(r.Intn(8))
	return h
}

func pickHeight(r *hx.Rand) int {
	switch r.Intn(10) {
	case 0:
		return 0
	case 1:
		return 1
	case 2:
		return 8 + r.Intn(24)
	case 3:
		return r.Pick(30, 31)
	}
	return r.Intn(9)
}

// real merged-mining proofs from auxpow/auxpow_test.go (chain id 6)
var fixtures = [][2]string{
	{"7926398947f332fe534b15c628ff0cd9dc6f7d3ea59c74801dc758ac65428e64", "02000000010000000000000000000000000000000000000000000000000000000000000000ffffffff4b0313ee0904a880495b742f4254432e434f4d2ffabe6d6d9581ba0156314f1e92fd03430c6e4428a32bb3f1b9dc627102498e5cfbf26261020000004204cb9a010f32a00601000000000000ffffffff0200000000000000001976a914c0174e89bd93eacd1d5a1af4ba1802d412afc08688ac0000000000000000266a24aa21a9ede2f61c3f71d1defd3fa999dfa36953755c690689799962b48bebd836974e8cf90000000014acac4ee8fdd8ca7e0b587b35fce8c996c70aefdf24c333038bdba7af531266000000000001ccc205f0e1cb435f50cc2f63edd53186b414fcb22b719da8c59eab066cf30bdb0000000000000020d1061d1e456cae488c063838b64c4911ce256549afadfc6a4736643359141b01551e4d94f9e8b6b03eec92bb6de1e478a0e913e5f733f5884857a7c2b965f53ca880495bffff7f20a880495b"},
	{"21187623de86cd62b4ce211cd8a74e88f80eda6cc12f279bf3cdb5c0d9539a9d", "02000000010000000000000000000000000000000000000000000000000000000000000000ffffffff4b039aff0904db044a5b742f4254432e434f4d2ffabe6d6d35ecfc5f5ca2971449ee78b7d810f280de7e3e7c407e3c0162ef8692df350ef8020000004204cb9a011fde202e00000000000000ffffffff0200000000000000001976a914c0174e89bd93eacd1d5a1af4ba1802d412afc08688ac0000000000000000266a24aa21a9ede2f61c3f71d1defd3fa999dfa36953755c690689799962b48bebd836974e8cf9000000001d1879510258c5186e39cfcde4539c88686854b1ca640681dd38ed9527e635600000000000015f2f03802d61504f12e25d4b679b881ddb374cc04f240b6eb765d887679fb6360000000000000020a9f32bdb09d7777f3fa308fcd221e531393441f50e7f8b2d4ef63b2c3440940ec866338e7674b07d6a92269317f09f6c0fdb60ce7052e0211133e0015727ebb2db044a5bffff7f20db044a5b"},
	{"a4c78cf0c73256f8607e85baaa72874408525d7c5488a4cc69ad6930d1186d2c", "02000000010000000000000000000000000000000000000000000000000000000000000000ffffffff4a02050e04a4e2515b742f4254432e434f4d2ffabe6d6da4c78cf0c73256f8607e85baaa72874408525d7c5488a4cc69ad6930d1186d2c01000000000000000108d7517400000000000000ffffffff0300e1f505000000001976a914c0174e89bd93eacd1d5a1af4ba1802d412afc08688ac0000000000000000266a24aa21a9ede2f61c3f71d1defd3fa999dfa36953755c690689799962b48bebd836974e8cf90000000000000000424063643337386238613335653764623466356636343562303833396130373635613661326637613064343338663565626432653638663036323633313832333034f90000000042cbe48afcac502073e24700fcb536d52737c1d7938ff859685e31558df685f800000000000000000000000000207f9ebb83cd305988685bbc7c8ee006ba6934f791708f37c1e4d913fd8b0c000070833a09a50ea430f421b89292925ca8499f0bb3c2a6f7bcc804eb8105ea4bbca7e2515b7182281ea7e2515b"},
}

func genFixed(g *hx.Gen) {
	// the witness of Props/C10.lean `C10_misaligned_witness` (T-wit): hash 5a…5a50, script
	// 0f ab e6 d6 d5 a5…a5 a5 01 00… : the hex string has "fabe6d6d" at offset 1 only.
	{
		p := &proof{chainID: 1224}
		for i := 0; i < 31; i++ {
			p.hash[i] = 0x5a
		}
		p.hash[31] = 0x50
		script := []byte{0x0f, 0xab, 0xe6, 0xd6, 0xd5}
		for i := 0; i < 31; i++ {
			script = append(script, 0xa5)
		}
		script = append(script, 0x01, 0, 0, 0, 0, 0, 0, 0)
		in := &auxpow.BtcTxIn{PreviousOutPoint: auxpow.BtcOutPoint{Index: 0xffffffff}, SignatureScript: script}
		p.tx = *auxpow.NewBtcTx([]*auxpow.BtcTxIn{in}, nil)
		p.parRoot = freshHash(&p.tx)
		p.emit(g)
	}
	for _, f := range fixtures {
		var ap auxpow.AuxPow
		if err := ap.Deserialize(bytes.NewReader(hx.UnHex(f[1]))); err != nil {
			panic("harness: fixture does not decode")
		}
		hb, _ := hex.DecodeString(f[0])
		p := &proof{chainID: 6, tx: ap.ParCoinbaseTx, parBranch: ap.ParCoinBaseMerkle, parIdx: ap.ParMerkleIndex,
			parRoot: ap.ParBlockHeader.MerkleRoot, auxBranch: ap.AuxMerkleBranch, auxIdx: ap.AuxMerkleIndex}
		copy(p.hash[:], hb)
		p.emit(g)
		q := *p
		q.hash[0] ^= 1
		q.emit(g)
		q = *p
		q.chainID = 1224
		q.emit(g)
	}
}

func gen(g *hx.Gen) {
	r := g.R
	genFixed(g)
	// the node's own proofs (pow.Service / btcfaker.go)
	for i := 0; i < g.N(40, 1000); i++ {
		g.Emit("genaux %s %d", hx.Hex(r.Bytes(32)), pickChain(r))
	}
	// GetExpectedIndex and GetMerkleRoot on their own
	for i := g.N(2000, 100000); i > 0; i-- {
		h := r.Intn(34)
		if r.Chance(10) {
			h = r.Pick(0, 31, 32, 33, 63, 64, 65)
		}
		g.Emit("expidx %d %d %d", uint32(r.U64()), pickChain(r), h)
	}
	for i := g.N(300, 10000); i > 0; i-- {
		n := r.Intn(12)
		idx := r.Intn(1 << uint(n+1))
		switch r.Intn(12) {
		case 0:
			idx = -1
		case 1:
			idx = -2 - r.Intn(1000)
		case 2:
			idx = int(r.U64() >> 1)
		}
		g.Emit("branch %s %s %d", hx.Hex(r.Bytes(32)), hashesHex(randHashes(r, n)), idx)
	}
	// the three proofs of auxpow_test.go are in corpus/C10
	n := g.N(150, 3000)
	for i := 0; i < n; i++ {
		h := pickHeight(r)
		shift := r.Chance(25)
		p, script, off := validProof(r, h, shift)
		p.emit(g)
		m := func(f func(q *proof)) {
			q := *p
			f(&q)
			q.emit(g)
		}
		// single-field mutations
		m(func(q *proof) { q.hash = flip(r, q.hash) })
		m(func(q *proof) { q.chainID++ })
		m(func(q *proof) { q.chainID += 1 << 32 }) // same uint32(chainID)
		m(func(q *proof) { q.parRoot = flip(r, q.parRoot) })
		m(func(q *proof) { q.parIdx ^= 1 << uint(r.Intn(len(q.parBranch)+1)) })
		m(func(q *proof) { q.parIdx += 1 << uint(len(q.parBranch)+r.Intn(8)) }) // high bits are ignored by the fold
		m(func(q *proof) { q.auxIdx ^= 1 << uint(r.Intn(h+1)) })
		m(func(q *proof) { q.auxIdx += 1 << uint(h) })
		m(func(q *proof) { q.auxIdx = -1 })
		if len(p.parBranch) > 0 {
			m(func(q *proof) {
				b := append([]common.Uint256{}, q.parBranch...)
				k := r.Intn(len(b))
				b[k] = flip(r, b[k])
				q.parBranch = b
			})
			m(func(q *proof) { q.parBranch = q.parBranch[:len(q.parBranch)-1] })
		}
		if h > 0 {
			m(func(q *proof) {
				b := append([]common.Uint256{}, q.auxBranch...)
				k := r.Intn(len(b))
				b[k] = flip(r, b[k])
				q.auxBranch = b
			})
			m(func(q *proof) { q.auxBranch = q.auxBranch[:h-1] })
		}
		m(func(q *proof) { q.auxBranch = append(append([]common.Uint256{}, q.auxBranch...), randHash(r)) })
		m(func(q *proof) { tx := q.tx; tx.LockTime++; q.tx = tx }) // coinbase changed, parent root not
		m(func(q *proof) { tx := q.tx; tx.TxIn = nil; q.tx = tx; q.parRoot = auxpow.GetMerkleRoot(freshHash(&q.tx), q.parBranch, q.parIdx) })
		m(func(q *proof) { q.parIdx = -1; q.parRoot = common.Uint256{} })
		// one AuxPow variable reused for two proofs: A = p (valid), B = a forgery that keeps A's parent
		// branch/root but carries a coinbase committing to another block; and B = another valid proof
		if !shift && h < 32 {
			q := *p
			q.hash = randHash(r)
			var rev common.Uint256
			copy(rev[:], reverse(q.hash[:]))
			root2 := auxpow.GetMerkleRoot(rev, q.auxBranch, q.auxIdx)
			s2 := append([]byte{}, script...)
			copy(s2[off+4:off+36], reverse(root2[:]))
			tx := p.tx
			in := *tx.TxIn[0]
			in.SignatureScript = s2
			tx.TxIn = []*auxpow.BtcTxIn{&in}
			q.tx = tx // parent root NOT recomputed: the forged coinbase is not under it
			g.Emit("checkseq %s %d %s %s", hex.EncodeToString(p.hash[:]), p.chainID, p.wire(), q.tokens())
			q2, _, _ := validProof(r, pickHeight(r)%32, false)
			g.Emit("checkseq %s %d %s %s", hex.EncodeToString(p.hash[:]), p.chainID, p.wire(), q2.tokens())
			g.Emit("checkseq %s %d %s %s", hex.EncodeToString(p.hash[:]), p.chainID, p.wire(), p.tokens())
		}
		if !shift {
			// the commitment sits in the LAST input only; the parent root is the hash of the coinbase in which
			// every input is that last one (what a decoder that aliases its inputs would hash)
			q := *p
			garbage := &auxpow.BtcTxIn{PreviousOutPoint: auxpow.BtcOutPoint{Hash: randHash(r)}, SignatureScript: filler(r, 20), Sequence: 7}
			good := *p.tx.TxIn[0]
			tx := p.tx
			tx.TxIn = []*auxpow.BtcTxIn{garbage, &good}
			q.tx = tx
			al := p.tx
			al.TxIn = []*auxpow.BtcTxIn{&good, &good}
			q.parRoot = auxpow.GetMerkleRoot(freshHash(&al), q.parBranch, q.parIdx)
			q.emitOp(g, "checkw")
			q.emit(g)
		}
		// (de)serialisation of the whole proof with a random parent header
		g.Emit("codec %s %d %s %d %d %d %s", p.tokens(), uint32(r.U64()), hx.Hex(r.Bytes(32)), uint32(r.U64()), uint32(r.U64()), uint32(r.U64()), hx.Hex(r.Bytes(32)))
		// through the wire format: indexes travel as uint32
		p.emitOp(g, "checkw")
		{
			q := *p // high bits of the parent index are ignored by the fold: still the same leaf position
			q.parIdx = int(uint32(q.parIdx) | uint32(0xffffffff)<<uint(len(q.parBranch)))
			q.emitOp(g, "checkw")
			q = *p
			q.auxIdx = int(uint32(q.auxIdx) | uint32(0xffffffff)<<uint(h%32))
			q.emitOp(g, "checkw")
			q = *p
			q.parIdx = -1 // 0xffffffff on the wire
			q.emitOp(g, "checkw")
		}
		if shift {
			// the proof is found at an odd hex offset: further markers in the script BYTES
			p.withScript(append(append([]byte{}, script...), markerBytes...)).emit(g)
			p.withScript(append(append([]byte{}, markerBytes...), script...)).emit(g)
			p.withScript(append(append([]byte{}, script...), 0x0f, 0xab, 0xe6, 0xd6, 0xd0)).emit(g)
			continue // the byte-level script surgery below assumes the aligned layout
		}
		// script mutations (parent root recomputed, so only the script decides)
		s := func(f func(b []byte) []byte) {
			p.withScript(f(append([]byte{}, script...))).emit(g)
		}
		end := off + 4 + 32 + 8
		s(func(b []byte) []byte { b[off+r.Intn(4)] ^= 1 << uint(r.Intn(8)); return b })      // marker damaged
		s(func(b []byte) []byte { b[off+4+r.Intn(32)] ^= 1 << uint(r.Intn(8)); return b })   // root damaged
		s(func(b []byte) []byte { b[off+36+r.Intn(4)] ^= 1 << uint(r.Intn(8)); return b })   // size damaged
		s(func(b []byte) []byte { b[off+40+r.Intn(4)] ^= 1 << uint(r.Intn(8)); return b })   // nonce damaged
		s(func(b []byte) []byte { return append(b, markerBytes...) })                         // second marker after
		s(func(b []byte) []byte { return append(append([]byte{}, markerBytes...), b...) })   // second marker before
		s(func(b []byte) []byte { return append(append(b, 0x0f, 0xab, 0xe6, 0xd6), 0xd0) }) // misaligned second marker after
		s(func(b []byte) []byte { return append([]byte{0x0f, 0xab, 0xe6, 0xd6, 0xd0}, b...) }) // misaligned marker before
		s(func(b []byte) []byte { // gap between marker and root
			return append(append(append([]byte{}, b[:off+4]...), filler(r, 1+r.Intn(3))...), b[off+4:]...)
		})
		s(func(b []byte) []byte { // root also before the marker
			return append(append([]byte{}, b[off+4:off+36]...), b...)
		})
		for cut := 0; cut <= 9; cut++ { // truncated after the root: 0..9 bytes of size/nonce left
			c := cut
			s(func(b []byte) []byte {
				k := end - 8 + c
				if k > len(b) {
					k = len(b)
				}
				return b[:k]
			})
		}
		s(func(b []byte) []byte { return b[:off+4+r.Intn(32)] }) // root truncated
		s(func(b []byte) []byte { return nil })
	}
	// heights around the uint32 shift boundary: size must be 0 and the slot computation divides by zero
	for _, h := range []int{31, 32, 33, 40} {
		for k := 0; k < 3; k++ {
			p, script, off := validProof(r, h, false)
			p.emit(g)
			b := append([]byte{}, script...)
			b[off+36] = 1
			p.withScript(b).emit(g)
			// in-memory only: aux index -1 makes GetMerkleRoot answer the zero hash for every block hash
			z := append(append(append(append([]byte{}, script[:off]...), markerBytes...), make([]byte, 36)...), script[off+40:]...)
			q := p.withScript(z)
			q.auxIdx = -1
			q.emit(g)
			q.hash = flip(r, q.hash)
			q.emit(g)
		}
	}
}

func nontrivial(t []string, out string) bool { return true }

func bucket(t []string, out string) string {
	if t[0] != "check" {
		if out == "panic" {
			return t[0] + "/panic"
		}
		return t[0]
	}
	return "check/" + out
}

func main() {
	hx.Main(&hx.Prop{Name: "C10", Gen: gen, Exec: exec, Oracle: oracle, Nontrivial: nontrivial, Bucket: bucket})
}
