// Harness for C27: DPoS round reward distribution.
//
//	dist <era> <pow> <cfgCRC> <cfgNormal> <reward> <totalVotes> <na> k1 v1 .. <nc> v1 ..
//	     the real Arbiters.distributeDPOSReward (hook) on a synthetic Arbiters value:
//	     era 0..3 chosen through the three CR heights, consensus mode, configured CRC /
//	     normal arbiter counts, CurrentReward = {TotalVotesInRound, OwnerVotesInRound},
//	     CurrentArbitrators (kind n = elected producer, c = CRC arbiter with elected member and
//	     claimed DPoS key, d = CRC arbiter whose member is not elected, w = elected member without
//	     DPoS key) and CurrentCandidates with their votes.
//	     -> err | ok <change> <entries> D=<destroy> C=<crc> A <paid to arbiter 1's address> .. K <candidate 1> ..
package main

import (
	"fmt"
	"os"
	"math"
	"math/big"
	"strconv"
	"strings"

	"elaverif/harness/hx"

	"github.com/elastos/Elastos.ELA/blockchain"
	"github.com/elastos/Elastos.ELA/common"
	"github.com/elastos/Elastos.ELA/common/config"
	"github.com/elastos/Elastos.ELA/core/contract"
	"github.com/elastos/Elastos.ELA/core/transaction"
	"github.com/elastos/Elastos.ELA/core/types"
	common2 "github.com/elastos/Elastos.ELA/core/types/common"
	"github.com/elastos/Elastos.ELA/core/types/functions"
	"github.com/elastos/Elastos.ELA/core/types/interfaces"
	"github.com/elastos/Elastos.ELA/core/types/payload"
	"github.com/elastos/Elastos.ELA/utils"
	crstate "github.com/elastos/Elastos.ELA/cr/state"
	"github.com/elastos/Elastos.ELA/crypto"
	"github.com/elastos/Elastos.ELA/dpos/state"
)

var keyCache = map[int][]byte{}

func pubKey(i int) []byte {
	if k, ok := keyCache[i]; ok {
		return k
	}
	priv := make([]byte, 32)
	priv[0] = 0x33
	priv[30] = byte(i >> 8)
	priv[31] = byte(i)
	pk := crypto.NewPubKey(priv)
	b, err := pk.EncodePoint(true)
	if err != nil {
		panic("harness: pubkey")
	}
	keyCache[i] = b
	return b
}

func f64(s string) common.Fixed64 {
	v, err := strconv.ParseInt(s, 10, 64)
	if err != nil {
		panic("harness: bad amount " + s)
	}
	return common.Fixed64(v)
}
func atoi(s string) int {
	v, err := strconv.Atoi(s)
	if err != nil {
		panic("harness: bad int " + s)
	}
	return v
}

type parsed struct {
	era, cfgCRC, cfgNormal int
	pow                    bool
	reward, total          common.Fixed64
	kinds                  []string
	avotes                 []common.Fixed64
	cvotes                 []common.Fixed64
}

func parse(t []string) parsed {
	p := parsed{era: atoi(t[1]), pow: t[2] == "1", cfgCRC: atoi(t[3]), cfgNormal: atoi(t[4]), reward: f64(t[5]), total: f64(t[6])}
	na := atoi(t[7])
	i := 8
	for k := 0; k < na; k++ {
		p.kinds = append(p.kinds, t[i])
		p.avotes = append(p.avotes, f64(t[i+1]))
		i += 2
	}
	nc := atoi(t[i])
	i++
	for k := 0; k < nc; k++ {
		p.cvotes = append(p.cvotes, f64(t[i+k]))
	}
	return p
}

type built struct {
	a      *state.Arbiters
	cfg    *config.Configuration
	payTo  []common.Uint168
	candTo []common.Uint168
}

func build(p parsed) built {
	cfg := config.GetDefaultParams()
	big := uint32(math.MaxUint32 / 2)
	cfg.CRConfiguration.ChangeCommitteeNewCRHeight, cfg.CRConfiguration.CRClaimDPOSNodeStartHeight, cfg.CRConfiguration.CRCommitteeStartHeight = big, big, big
	switch p.era {
	case 3:
		cfg.CRConfiguration.ChangeCommitteeNewCRHeight = 0
		fallthrough
	case 2:
		cfg.CRConfiguration.CRClaimDPOSNodeStartHeight = 0
		fallthrough
	case 1:
		cfg.CRConfiguration.CRCommitteeStartHeight = 0
	}
	cfg.DPoSConfiguration.CRCArbiters = make([]string, p.cfgCRC)
	cfg.DPoSConfiguration.NormalArbitratorsCount = p.cfgNormal
	a := &state.Arbiters{State: &state.State{StateKeyFrame: state.NewStateKeyFrame()}, ChainParams: cfg}
	a.ConsensusAlgorithm = state.DPOS
	if p.pow {
		a.ConsensusAlgorithm = state.POW
	}
	a.CurrentCRCArbitersMap = map[common.Uint168]state.ArbiterMember{}
	a.CurrentReward = *state.NewRewardData()
	a.CurrentReward.TotalVotesInRound = p.total
	var payTo []common.Uint168
	for i, k := range p.kinds {
		owner := pubKey(i)
		ownerHash, _ := state.GetOwnerKeyStandardProgramHash(owner)
		var m state.ArbiterMember
		var err error
		if k == "n" {
			m, err = state.NewOriginArbiter(owner)
			a.CurrentReward.OwnerVotesInRound[*ownerHash] = p.avotes[i]
			payTo = append(payTo, *ownerHash)
		} else {
			node := pubKey(1000 + i)
			ct, _ := contract.CreateStandardContract(mustPK(owner))
			mem := &crstate.CRMember{Info: payload.CRInfo{Code: ct.Code}, MemberState: crstate.MemberElected, DPOSPublicKey: node}
			to := *ownerHash
			switch k {
			case "d":
				mem.MemberState = crstate.MemberImpeached
				to = *cfg.DestroyELAProgramHash
			case "w":
				mem.DPOSPublicKey = nil
				switch p.era {
				case 2:
					to = *cfg.DestroyELAProgramHash
				case 3: // paid to the producer behind the node key, with that producer's votes
					prodOwner := pubKey(2000 + i)
					a.NodeOwnerKeys[common.BytesToHexString(node)] = common.BytesToHexString(prodOwner)
					ph, _ := state.GetOwnerKeyStandardProgramHash(prodOwner)
					a.CurrentReward.OwnerVotesInRound[*ph] = p.avotes[i]
					to = *ph
				}
			}
			if p.era == 0 {
				to = *cfg.CRConfiguration.CRCProgramHash
			}
			m, err = state.NewCRCArbiter(node, owner, mem, true)
			a.CurrentCRCArbitersMap[*ownerHash] = m
			payTo = append(payTo, to)
		}
		if err != nil {
			panic("harness: arbiter: " + err.Error())
		}
		a.CurrentArbitrators = append(a.CurrentArbitrators, m)
	}
	var candTo []common.Uint168
	for i, v := range p.cvotes {
		owner := pubKey(5000 + i)
		m, err := state.NewOriginArbiter(owner)
		if err != nil {
			panic("harness: candidate")
		}
		h := m.GetOwnerProgramHash()
		a.CurrentReward.OwnerVotesInRound[h] = v
		a.CurrentCandidates = append(a.CurrentCandidates, m)
		candTo = append(candTo, h)
	}
	return built{a, cfg, payTo, candTo}
}

func exec(t []string) string {
	if t[0] == "book" {
		return execBook(t)
	}
	if t[0] == "v2split" {
		return execV2(t)
	}
	p := parse(t)
	bt := build(p)
	a, cfg, payTo, candTo := bt.a, bt.cfg, bt.payTo, bt.candTo
	rr, change, err := a.VerifDistributeDPOSReward(2000000, p.reward)
	if err != nil {
		return "err"
	}
	get := func(h common.Uint168) string {
		if v, ok := rr[h]; ok {
			return strconv.FormatInt(int64(v), 10)
		}
		return "-"
	}
	var b strings.Builder
	fmt.Fprintf(&b, "ok %d %d D=%s C=%s A", int64(change), len(rr), get(*cfg.DestroyELAProgramHash), get(*cfg.CRConfiguration.CRCProgramHash))
	for _, h := range payTo {
		b.WriteString(" " + get(h))
	}
	b.WriteString(" K")
	for _, h := range candTo {
		b.WriteString(" " + get(h))
	}
	return b.String()
}

// book <era> <pow> <cfgCRC> <cfgNormal> <total> <na> (k v)* <nc> v* <voting> <acc0> <nsteps> (a|s|f fee)* <cbk> <cbdelta>
//
// the reward bookkeeping around distributeDPOSReward on the same synthetic Arbiters (pre-DPoSv2 era,
// heights from 2000000): every step is one block whose transactions paid <fee>;
//   a = ordinary block        -> the real accumulateReward
//   s = regular round change  -> the real clearingDPOSReward(block, h, true)
//   f = forced change         -> the real clearingDPOSReward(block, h, false) + forceChanged (what forceChange does)
//   F = forced change         -> the real forceChange(h) itself (its guard, SnapshotByHeight, the clearing; the arbiter
//                                rotation after the clearing fails on this synthetic object and is recovered) + the
//                                history commit that IncreaseChainHeight performs afterwards
// <voting> = 1: the heights are at/after CRVotingStartHeight.  Afterwards the real
// blockchain.CheckCoinbaseArbitratorsReward judges a coinbase that pays every entry of the current
// round reward (entry <cbk> raised by <cbdelta>; cbk = -1: honest; cbk = -2: the last recipient is
// replaced by a second payment to the first one).
//   -> per step "a:<acc>" | "c:<acc> <change> <Σ round reward> <entries>" | "c:err", then "cb:<ok|err>"
func execBook(t []string) string {
	// reuse the dist parser: insert a dummy reward token
	head := append([]string{"dist"}, t[1:5]...)
	head = append(head, "0")
	rest := t[5:]
	p := parse(append(head, rest...))
	// book layout: era pow cfgCRC cfgNormal total na (k v)* nc v* voting acc0 nsteps …
	i := 7 + 2*len(p.kinds) + 1 + len(p.cvotes)
	voting, acc0, nsteps := t[i], f64(t[i+1]), atoi(t[i+2])
	i += 3
	bt := build(p)
	a, cfg := bt.a, bt.cfg
	cfg.PublicDPOSHeight = 0
	cfg.CRConfiguration.CRVotingStartHeight = math.MaxUint32
	if voting == "1" {
		cfg.CRConfiguration.CRVotingStartHeight = 0
	}
	a.DPoSV2ActiveHeight = math.MaxUint32
	a.History = utils.NewHistory(40)
	a.Snapshots = map[uint32][]*state.CheckPoint{}
	a.VerifSetAccumulativeReward(acc0)
	var parts []string
	h := uint32(2000000)
	sumRR := func(rr map[common.Uint168]common.Fixed64) *big.Int {
		s := new(big.Int)
		for _, v := range rr {
			s.Add(s, big.NewInt(int64(v)))
		}
		return s
	}
	for k := 0; k < nsteps; k++ {
		kind, fee := t[i], f64(t[i+1])
		i += 2
		h++
		feeTx := functions.CreateTransaction(0, common2.TransferAsset, 0, &payload.TransferAsset{}, nil, nil, nil, 0, nil)
		feeTx.SetFee(fee)
		blk := &types.Block{Header: common2.Header{Height: h}, Transactions: []interfaces.Transaction{feeTx}}
		switch kind {
		case "a":
			a.VerifAccumulateReward(blk)
			acc, _, _, _ := a.VerifRewardState()
			parts = append(parts, fmt.Sprintf("a:%d", int64(acc)))
		case "F": // the real forceChange
			err := a.VerifForceChange(blk)
			acc, change, rr, fc := a.VerifRewardState()
			es := "ok"
			if err != nil {
				es = "err"
				if os.Getenv("HX_DEBUG") != "" {
					fmt.Fprintln(os.Stderr, "forceChange:", err)
				}
			}
			parts = append(parts, fmt.Sprintf("F:%s %v %d %d %s %d", es, fc, int64(acc), int64(change), sumRR(rr), len(rr)))
		case "s", "f":
			if err := a.VerifClearingDPOSReward(blk, kind == "s"); err != nil {
				parts = append(parts, "c:err")
				continue
			}
			acc, change, rr, _ := a.VerifRewardState()
			parts = append(parts, fmt.Sprintf("c:%d %d %s %d", int64(acc), int64(change), sumRR(rr), len(rr)))
		default:
			panic("harness: book step " + kind)
		}
	}
	cbk, cbdelta := atoi(t[i]), f64(t[i+1])
	_, _, rr, _ := a.VerifRewardState()
	// the entries of the round reward in a fixed order: destroy, CRC address, arbiters, candidates
	var order []common.Uint168
	seen := map[common.Uint168]bool{}
	for _, hsh := range append(append([]common.Uint168{*cfg.DestroyELAProgramHash, *cfg.CRConfiguration.CRCProgramHash}, bt.payTo...), bt.candTo...) {
		if _, ok := rr[hsh]; ok && !seen[hsh] {
			seen[hsh] = true
			order = append(order, hsh)
		}
	}
	outs := []*common2.Output{{Value: 1}, {Value: 2}}
	for j, hsh := range order {
		v := rr[hsh]
		if j == cbk {
			v += cbdelta
		}
		if cbk == -2 && j == len(order)-1 && j > 0 { // the last recipient is dropped, the first one is paid twice
			hsh, v = order[0], rr[order[0]]
		}
		outs = append(outs, &common2.Output{ProgramHash: hsh, Value: v})
	}
	cb := functions.CreateTransaction(0, common2.CoinBase, 0, &payload.CoinBase{}, nil, nil, outs, 0, nil)
	blockchain.DefaultLedger = &blockchain.Ledger{Arbitrators: a}
	res := "cb:ok"
	if err := blockchain.CheckCoinbaseArbitratorsReward(cb); err != nil {
		res = "cb:err"
	}
	parts = append(parts, res)
	return strings.Join(parts, " ; ")
}

// v2split <reward> <sponsor> <ncrc> (o|p)(0|1)* <nvoters> [ <k> (votes lockDelta N)* ]*
//
// the DPoS 2.0 per-block split getDPoSV2RewardsV2 on a synthetic Arbiters: one producer (owner key,
// node key) with the listed voters; current CRC arbiters, each on its own node (o) or standing on the
// producer's node (p: council member without a claimed node) and present (1) or absent (0) in the next
// turn's CRC set; sponsor = p (the producer's node key), c<i> (the node key of CRC arbiter i) or x
// (unknown key).  N is the vote weight Fixed64(votes * log10(lockDelta/7200*10)) as Go computes it
// (oracle value, re-checked here).
//   -> "<entries> P=<producer owner> C0=.. V0=.." | n-mismatch
type v2op struct {
	reward  common.Fixed64
	sponsor string
	crc     []string
	voters  [][][3]int64
}

func parseV2(t []string) v2op {
	o := v2op{reward: f64(t[1]), sponsor: t[2]}
	n := atoi(t[3])
	i := 4
	for k := 0; k < n; k++ {
		o.crc = append(o.crc, t[i+k])
	}
	i += n
	nv := atoi(t[i])
	i++
	for v := 0; v < nv; v++ {
		k := atoi(t[i])
		i++
		var vs [][3]int64
		for j := 0; j < k; j++ {
			vs = append(vs, [3]int64{int64(f64(t[i])), int64(f64(t[i+1])), int64(f64(t[i+2]))})
			i += 3
		}
		o.voters = append(o.voters, vs)
	}
	return o
}

func voteWeight(votes, delta int64) int64 {
	w := math.Log10(float64(uint32(delta)) / 7200 * 10)
	return int64(common.Fixed64(float64(common.Fixed64(votes)) * w))
}

func stakeAddrOf(ownerPK []byte) string {
	oh, _ := state.GetOwnerKeyStandardProgramHash(ownerPK)
	sh := common.Uint168FromCodeHash(byte(contract.PrefixDPoSV2), oh.ToCodeHash())
	a, _ := sh.ToAddress()
	return a
}

func execV2(t []string) string {
	o := parseV2(t)
	cfg := config.GetDefaultParams()
	a := &state.Arbiters{State: &state.State{StateKeyFrame: state.NewStateKeyFrame()}, ChainParams: cfg}
	a.CurrentCRCArbitersMap = map[common.Uint168]state.ArbiterMember{}
	next := map[common.Uint168]state.ArbiterMember{}
	prodOwner, prodNode := pubKey(10), pubKey(20)
	votes := map[common.Uint168][]state.VerifVote{}
	var voterAddr []string
	for j, vs := range o.voters {
		var u common.Uint168
		u[0], u[1], u[2] = 0x3f, byte(j), 0x77
		for _, v := range vs {
			if voteWeight(v[0], v[1]) != v[2] {
				return "n-mismatch"
			}
			votes[u] = append(votes[u], state.VerifVote{Votes: common.Fixed64(v[0]), BlockHeight: 1000, LockTime: uint32(1000 + v[1])})
		}
		if len(vs) == 0 {
			votes[u] = nil
		}
		ad, _ := u.ToAddress()
		voterAddr = append(voterAddr, ad)
	}
	prod := state.VerifNewProducer(prodOwner, prodNode, votes)
	a.ActivityProducers[common.BytesToHexString(prodOwner)] = prod
	a.NodeOwnerKeys[common.BytesToHexString(prodNode)] = common.BytesToHexString(prodOwner)
	var crcAddr []string
	var crcNode [][]byte
	for i, k := range o.crc {
		owner := pubKey(400 + i)
		node := pubKey(300 + i)
		if k[0] == 'p' {
			node = prodNode
		}
		ct, _ := contract.CreateStandardContract(mustPK(owner))
		mem := &crstate.CRMember{Info: payload.CRInfo{Code: ct.Code}, MemberState: crstate.MemberElected, DPOSPublicKey: node}
		m, err := state.NewCRCArbiter(node, owner, mem, true)
		if err != nil {
			panic("harness: crc arbiter")
		}
		oh, _ := state.GetOwnerKeyStandardProgramHash(owner)
		a.CurrentCRCArbitersMap[*oh] = m
		if k[1] == '1' {
			next[*oh] = m
		}
		crcAddr = append(crcAddr, stakeAddrOf(owner))
		crcNode = append(crcNode, node)
	}
	a.VerifSetNextCRCArbiters(next)
	var sponsor []byte
	switch {
	case o.sponsor == "p":
		sponsor = prodNode
	case o.sponsor == "x":
		sponsor = pubKey(999)
	default:
		sponsor = crcNode[atoi(o.sponsor[1:])]
	}
	rw := a.VerifGetDPoSV2RewardsV2(o.reward, sponsor, 2000000)
	get := func(k string) string {
		if v, ok := rw[k]; ok {
			return strconv.FormatInt(int64(v), 10)
		}
		return "-"
	}
	var b strings.Builder
	fmt.Fprintf(&b, "%d P=%s", len(rw), get(stakeAddrOf(prodOwner)))
	for i, ad := range crcAddr {
		fmt.Fprintf(&b, " C%d=%s", i, get(ad))
	}
	for j, ad := range voterAddr {
		fmt.Fprintf(&b, " V%d=%s", j, get(ad))
	}
	return b.String()
}

func genV2(g *hx.Gen) {
	r := g.R
	n := g.N(1500, 60000)
	for i := 0; i < n; i++ {
		reward := []int64{53272451, 26636226, 0, 1, 3, 7, 1 << 40, 175799087}[r.Intn(8)] + int64(r.Intn(3))
		ncrc := r.Intn(4)
		var crc []string
		onProd := -1
		for k := 0; k < ncrc; k++ {
			kind := "o"
			if onProd < 0 && r.Chance(35) {
				kind, onProd = "p", k
			}
			crc = append(crc, kind+[]string{"0", "1", "1"}[r.Intn(3)])
		}
		sponsor := "p"
		switch {
		case r.Chance(10):
			sponsor = "x"
		case ncrc > 0 && r.Chance(40):
			sponsor = fmt.Sprintf("c%d", r.Intn(ncrc))
		}
		var sb strings.Builder
		fmt.Fprintf(&sb, "v2split %d %s %d", reward, sponsor, ncrc)
		for _, c := range crc {
			sb.WriteString(" " + c)
		}
		nv := r.Pick(0, 1, 2, 3, 5)
		fmt.Fprintf(&sb, " %d", nv)
		for v := 0; v < nv; v++ {
			k := r.Pick(0, 1, 1, 2)
			fmt.Fprintf(&sb, " %d", k)
			for j := 0; j < k; j++ {
				votes := int64(1+r.Intn(100000)) * int64(r.Pick(1, 100000000, 1000000))
				delta := int64(r.Pick(7200, 7200, 72000, 720000, 7200+r.Intn(700000)))
				fmt.Fprintf(&sb, " %d %d %d", votes, delta, voteWeight(votes, delta))
			}
		}
		g.Emit("%s", sb.String())
	}
}

// oracleV2: the per-block split never credits a negative amount and never more than the block's reward
func oracleV2(t []string, out string) *hx.Violation {
	o := parseV2(t)
	if o.reward < 0 || out == "n-mismatch" {
		return nil
	}
	sum := new(big.Int)
	for _, f := range strings.Fields(out)[1:] {
		v := f[strings.IndexByte(f, '=')+1:]
		if v == "-" {
			continue
		}
		x, _ := strconv.ParseInt(v, 10, 64)
		if x < 0 {
			return &hx.Violation{Kind: "v2-negative-payout", Detail: "the DPoS 2.0 split credits a negative amount: " + f}
		}
		sum.Add(sum, big.NewInt(x))
	}
	if sum.Cmp(big.NewInt(int64(o.reward))) > 0 {
		return &hx.Violation{Kind: "v2-overpaid", Detail: fmt.Sprintf("the DPoS 2.0 split credits %s of a block reward of %d", sum, int64(o.reward))}
	}
	return nil
}

func mustPK(b []byte) *crypto.PublicKey {
	pk, err := crypto.DecodePoint(b)
	if err != nil {
		panic("harness: decode point")
	}
	return pk
}

// ---------------------------------------------------------------- generator

func genVotes(r *hx.Rand) int64 {
	switch r.Intn(8) {
	case 0:
		return 0
	case 1:
		return int64(r.Intn(100))
	case 2:
		return int64(1) << uint(r.Intn(56))
	}
	return int64(r.Intn(3000000)) * 100000000 / int64(1+r.Intn(50))
}

func gen(g *hx.Gen) {
	defer genBook(g)
	defer genV2(g)
	r := g.R
	n := g.N(5000, 200000)
	for i := 0; i < n; i++ {
		era := r.Intn(4)
		cfgCRC := r.Pick(0, 1, 4, 12, 12, 12)
		cfgNormal := r.Pick(0, 2, 24, 24, 24)
		na := r.Pick(0, 1, 3, 12, cfgCRC, cfgCRC+cfgNormal, cfgCRC+cfgNormal, 36, 5)
		nCRCnow := cfgCRC
		if r.Chance(30) && cfgCRC > 0 {
			nCRCnow = r.Intn(cfgCRC + 1) // some council arbiters missing
		}
		kinds := make([]string, na)
		votes := make([]int64, na)
		sum := new(big.Int)
		for k := 0; k < na; k++ {
			if k < nCRCnow {
				kinds[k] = []string{"c", "c", "c", "d", "w"}[r.Intn(5)]
			} else {
				kinds[k] = "n"
			}
			votes[k] = genVotes(r)
			if kinds[k] == "n" || (kinds[k] == "w" && era == 3) {
				sum.Add(sum, big.NewInt(votes[k]))
			}
		}
		nc := r.Pick(0, 0, 1, 5, 20, 72)
		cv := make([]int64, nc)
		for k := range cv {
			cv[k] = genVotes(r)
			sum.Add(sum, big.NewInt(cv[k]))
		}
		total := int64(0)
		if sum.IsInt64() {
			total = sum.Int64()
		} else {
			total = math.MaxInt64
		}
		switch r.Intn(12) {
		case 0:
			total = 0
		case 1: // the snapshot counts producers that are neither on duty nor candidates
			if total < math.MaxInt64/2 {
				total += genVotes(r)
			}
		case 3: // inconsistent snapshot: the total is smaller than the votes it is divided among (the guard's case)
			if total > 3 {
				total = total / int64(2+r.Intn(3))
			}
		case 2: // zero votes everywhere
			for k := range votes {
				votes[k] = 0
			}
			for k := range cv {
				cv[k] = 0
			}
			total = 0
		}
		var reward int64
		switch r.Intn(8) {
		case 0:
			reward = 0
		case 1:
			reward = int64(r.Intn(1000))
		case 2:
			reward = int64(1)<<50 + int64(r.Intn(1000))
		case 3:
			reward = int64(1) << uint(r.Intn(62))
		default:
			reward = int64(36*(1+r.Intn(400))) * 53272450 // a round of block DPoS rewards
		}
		var b strings.Builder
		fmt.Fprintf(&b, "dist %d %d %d %d %d %d %d", era, r.Intn(6)/5, cfgCRC, cfgNormal, reward, total, na)
		for k := 0; k < na; k++ {
			fmt.Fprintf(&b, " %s %d", kinds[k], votes[k])
		}
		fmt.Fprintf(&b, " %d", nc)
		for _, v := range cv {
			fmt.Fprintf(&b, " %d", v)
		}
		g.Emit("%s", b.String())
	}
}

func genBook(g *hx.Gen) {
	r := g.R
	n := g.N(1500, 60000)
	for i := 0; i < n; i++ {
		era := r.Intn(4)
		cfgCRC := r.Pick(1, 2, 2, 12)
		cfgNormal := r.Pick(1, 2, 3, 24)
		na := cfgCRC + cfgNormal // full house: no empty seat (known finding C27-empty-seats-double-counted)
		var sb strings.Builder
		total := int64(0)
		var arbs strings.Builder
		for k := 0; k < na; k++ {
			kind := "n"
			if k < cfgCRC {
				kind = []string{"c", "c", "d"}[r.Intn(3)]
			}
			v := int64(1+r.Intn(1000)) * int64(r.Pick(1, 100000000, 1000))
			if kind == "n" {
				total += v
			}
			fmt.Fprintf(&arbs, " %s %d", kind, v)
		}
		nc := r.Pick(0, 1, 3)
		var cs strings.Builder
		for k := 0; k < nc; k++ {
			v := int64(1+r.Intn(1000)) * int64(r.Pick(1, 100000000))
			total += v
			fmt.Fprintf(&cs, " %d", v)
		}
		fmt.Fprintf(&sb, "book %d 0 %d %d %d %d%s %d%s %d %d", era, cfgCRC, cfgNormal, total, na, arbs.String(), nc, cs.String(),
			r.Intn(2), int64(r.Pick(0, 0, 53272451, 1000000000)))
		ns := 2 + r.Intn(5)
		fmt.Fprintf(&sb, " %d", ns)
		for k := 0; k < ns; k++ {
			kind := []string{"a", "a", "a", "s", "f", "F"}[r.Intn(6)]
			if k == ns-1 && r.Chance(70) {
				kind = []string{"s", "f", "F"}[r.Intn(3)]
			}
			fmt.Fprintf(&sb, " %s %d", kind, int64(r.Pick(0, 0, 100, 123456789))*int64(1+r.Intn(3)))
		}
		switch r.Intn(10) {
		case 0, 1, 2, 3:
			sb.WriteString(" -1 0")
		case 4:
			sb.WriteString(" -2 0")
		default:
			fmt.Fprintf(&sb, " %d %d", r.Intn(na+nc+1), []int64{1, 100000000000, -1, 5}[r.Intn(4)])
		}
		g.Emit("%s", sb.String())
	}
}

func blockReward35(fee int64) int64 {
	return int64(common.Fixed64(math.Ceil(float64(common.Fixed64(fee)+config.GetDefaultParams().GetBlockReward(2000001)) * 0.35)))
}

// oracleBook: the bookkeeping around a distribution must not hand out more than it took in —
// what a clearing pays (round reward + change) plus what it carries forward is at most what was
// accumulated plus the clearing block's own reward — and the coinbase validator must accept exactly
// the coinbase that pays every entry of the round reward once.
func oracleBook(t []string, out string) *hx.Violation {
	parts := strings.Split(out, " ; ")
	// locate the steps in the op line
	na := atoi(t[6])
	i := 7 + 2*na
	nc := atoi(t[i])
	i += 1 + nc
	acc, _ := strconv.ParseInt(t[i+1], 10, 64)
	ns := atoi(t[i+2])
	i += 3
	entries := 0
	for k := 0; k < ns && k < len(parts); k++ {
		kind := t[i+2*k]
		fee, _ := strconv.ParseInt(t[i+2*k+1], 10, 64)
		b := blockReward35(fee)
		if strings.HasPrefix(parts[k], "F:") { // "F:<ok|err> <forceChanged> <acc> <change> <paid> <entries>": judged like a clearing
			ff := strings.Fields(parts[k])
			parts[k] = "c:" + strings.Join(ff[2:], " ")
		}
		f := strings.Fields(strings.TrimPrefix(strings.TrimPrefix(parts[k], "a:"), "c:"))
		switch {
		case kind == "a":
			acc, _ = strconv.ParseInt(f[0], 10, 64)
			entries = 0
		case parts[k] == "c:err":
		default:
			acc2, _ := strconv.ParseInt(f[0], 10, 64)
			change, _ := strconv.ParseInt(f[1], 10, 64)
			paid, _ := new(big.Int).SetString(f[2], 10)
			entries, _ = strconv.Atoi(f[3])
			if change < 0 || acc2 < 0 {
				return &hx.Violation{Kind: "negative-change", Detail: "clearing left a negative change / carried-forward reward: " + parts[k]}
			}
			out := new(big.Int).Add(paid, big.NewInt(change+acc2))
			if out.Cmp(big.NewInt(acc+b)) > 0 {
				return &hx.Violation{Kind: "clearing-hands-out-more-than-pool",
					Detail: fmt.Sprintf("step %d (%s): paid %s + change %d + carried forward %d > accumulated %d + block reward %d", k+1, kind, paid, change, acc2, acc, b)}
			}
			acc = acc2
		}
	}
	cbk := atoi(t[i+2*ns])
	delta, _ := strconv.ParseInt(t[i+2*ns+1], 10, 64)
	if parts[len(parts)-1] == "cb:ok" {
		if cbk >= 0 && cbk < entries && delta != 0 {
			return &hx.Violation{Kind: "coinbase-differs-from-round-reward",
				Detail: fmt.Sprintf("coinbase paying reward entry %d %d sela off its share was accepted", cbk, delta)}
		}
		if cbk == -2 && entries >= 2 {
			return &hx.Violation{Kind: "coinbase-duplicate-recipient",
				Detail: "coinbase paying the first reward recipient twice and dropping the last one was accepted"}
		}
	}
	return nil
}

// ---------------------------------------------------------------- oracle

// A distribution that is reported as successful must not attribute more than the reward, must
// carry a non-negative remainder, must not contain a negative payout, and payouts plus remainder
// must not exceed the reward (the remainder goes to the miner on top of the payouts).
func oracle(t []string, out string) *hx.Violation {
	if t[0] == "book" {
		return oracleBook(t, out)
	}
	if t[0] == "v2split" {
		return oracleV2(t, out)
	}
	if !strings.HasPrefix(out, "ok ") {
		return nil
	}
	p := parse(t)
	if p.reward < 0 {
		return nil
	}
	if p.era >= 2 && p.cfgCRC+p.cfgNormal == 0 {
		return nil // a configuration without any arbiter seat does not exist
	}
	f := strings.Fields(out)
	change, _ := strconv.ParseInt(f[1], 10, 64)
	// distinct map entries: D, C, then per arbiter / candidate (destroy / crc entries repeat in A)
	paid := new(big.Int)
	neg := false
	add := func(s string) {
		if s == "-" {
			return
		}
		v, _ := strconv.ParseInt(s, 10, 64)
		if v < 0 {
			neg = true
		}
		paid.Add(paid, big.NewInt(v))
	}
	add(strings.TrimPrefix(f[3], "D="))
	add(strings.TrimPrefix(f[4], "C="))
	i := 6
	for k := 0; k < len(p.kinds); k++ {
		own := p.kinds[k] == "n" || (p.era >= 1 && p.kinds[k] == "c") || (p.kinds[k] == "w" && (p.era == 1 || p.era == 3))
		if own {
			add(f[i+k])
		}
	}
	i += len(p.kinds) + 1
	for k := 0; k < len(p.cvotes); k++ {
		add(f[i+k])
	}
	wf := p.total > 0 // the vote snapshot is non-empty
	kind := func(s string) string {
		if !wf {
			return s + "-zero-total-votes"
		}
		return s
	}
	if neg {
		return &hx.Violation{Kind: kind("negative-payout"), Detail: "a payout in the round reward map is negative"}
	}
	if change < 0 {
		return &hx.Violation{Kind: kind("negative-change"), Detail: "remainder carried forward is negative"}
	}
	// Above 2^53 sela (90 million ELA in one round, more than the supply) float64(reward) is no
	// longer exact and the shares can exceed the reward by rounding; the two sum rules are judged
	// on the domain where the float inputs are exact integers.
	if p.reward >= 1<<53 {
		return nil
	}
	if paid.Cmp(big.NewInt(int64(p.reward))) > 0 {
		return &hx.Violation{Kind: kind("overpaid"), Detail: fmt.Sprintf("payouts %s exceed the reward %d", paid, int64(p.reward))}
	}
	tot := new(big.Int).Add(paid, big.NewInt(change))
	if tot.Cmp(big.NewInt(int64(p.reward))) > 0 {
		return &hx.Violation{Kind: "payouts-plus-change-exceed-reward",
			Detail: fmt.Sprintf("payouts %s + change %d > reward %d", paid, change, int64(p.reward))}
	}
	return nil
}

func nontrivial(t []string, out string) bool {
	if t[0] == "book" {
		return strings.Contains(out, "c:") && !strings.Contains(out, "c:err")
	}
	if t[0] == "v2split" {
		return !strings.HasPrefix(out, "0 ")
	}
	return strings.HasPrefix(out, "ok ") && len(t) > 10
}

func bucket(t []string, out string) string {
	if t[0] == "book" {
		return "book/era" + t[1] + "/" + out[strings.LastIndex(out, "cb:"):]
	}
	if t[0] == "v2split" {
		return "v2split/" + t[2][:1] + "/" + strings.Fields(out)[0]
	}
	f := strings.Fields(out)
	return "dist/era" + t[1] + "/" + f[0]
}

func init() {
	functions.GetTransactionByTxType = transaction.GetTransaction
	functions.GetTransactionByBytes = transaction.GetTransactionByBytes
	functions.CreateTransaction = transaction.CreateTransaction
	functions.GetTransactionParameters = transaction.GetTransactionparameters
}

func main() {
	hx.Main(&hx.Prop{Name: "C27", Gen: gen, Exec: exec, Oracle: oracle, Nontrivial: nontrivial, Bucket: bucket})
}
