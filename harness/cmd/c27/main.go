// Harness for C27: DPoS round reward distribution.
//
//	dist <era> <pow> <cfgCRC> <cfgNormal> <reward> <totalVotes> <na> k1 v1 .. <nc> v1 ..
//	     the real Arbiters.distributeDPOSReward (hook) on a synthetic Arbiters value:
//	     era 0..3 chosen through the three CR heights, consensus mode, configured CRC /
//	     normal arbiter counts, CurrentReward = {TotalVotesInRound, OwnerVotesInRound},
//	     CurrentArbitrators (kind n = elected producer, c = CRC arbiter with elected member and
//	     claimed DPoS key, d = CRC arbiter whose member is not elected, w = elected member without
//	     DPoS key) and CurrentCandidates with their votes.
//	     -> err | ok <change> <entries> D=<destroy> C=<crc> A <paid to arbiter 1's address> .. K <candidate 1> ..
package main

import (
	"fmt"
	"math"
	"math/big"
	"strconv"
	"strings"

	"elaverif/harness/hx"

	"github.com/elastos/Elastos.ELA/common"
	"github.com/elastos/Elastos.ELA/common/config"
	"github.com/elastos/Elastos.ELA/core/contract"
	"github.com/elastos/Elastos.ELA/core/types/payload"
	crstate "github.com/elastos/Elastos.ELA/cr/state"
	"github.com/elastos/Elastos.ELA/crypto"
	"github.com/elastos/Elastos.ELA/dpos/state"
)

var keyCache = map[int][]byte{}

func pubKey(i int) []byte {
	if k, ok := keyCache[i]; ok {
		return k
	}
	priv := make([]byte, 32)
	priv[0] = 0x33
	priv[30] = byte(i >> 8)
	priv[31] = byte(i)
	pk := crypto.NewPubKey(priv)
	b, err := pk.EncodePoint(true)
	if err != nil {
		panic("harness: pubkey")
	}
	keyCache[i] = b
	return b
}

func f64(s string) common.Fixed64 {
	v, err := strconv.ParseInt(s, 10, 64)
	if err != nil {
		panic("harness: bad amount " + s)
	}
	return common.Fixed64(v)
}
func atoi(s string) int {
	v, err := strconv.Atoi(s)
	if err != nil {
		panic("harness: bad int " + s)
	}
	return v
}

type parsed struct {
	era, cfgCRC, cfgNormal int
	pow                    bool
	reward, total          common.Fixed64
	kinds                  []string
	avotes                 []common.Fixed64
	cvotes                 []common.Fixed64
}

func parse(t []string) parsed {
	p := parsed{era: atoi(t[1]), pow: t[2] == "1", cfgCRC: atoi(t[3]), cfgNormal: atoi(t[4]), reward: f64(t[5]), total: f64(t[6])}
	na := atoi(t[7])
	i := 8
	for k := 0; k < na; k++ {
		p.kinds = append(p.kinds, t[i])
		p.avotes = append(p.avotes, f64(t[i+1]))
		i += 2
	}
	nc := atoi(t[i])
	i++
	for k := 0; k < nc; k++ {
		p.cvotes = append(p.cvotes, f64(t[i+k]))
	}
	return p
}

func exec(t []string) string {
	p := parse(t)
	cfg := config.GetDefaultParams()
	big := uint32(math.MaxUint32 / 2)
	cfg.CRConfiguration.ChangeCommitteeNewCRHeight, cfg.CRConfiguration.CRClaimDPOSNodeStartHeight, cfg.CRConfiguration.CRCommitteeStartHeight = big, big, big
	switch p.era {
	case 3:
		cfg.CRConfiguration.ChangeCommitteeNewCRHeight = 0
		fallthrough
	case 2:
		cfg.CRConfiguration.CRClaimDPOSNodeStartHeight = 0
		fallthrough
	case 1:
		cfg.CRConfiguration.CRCommitteeStartHeight = 0
	}
	cfg.DPoSConfiguration.CRCArbiters = make([]string, p.cfgCRC)
	cfg.DPoSConfiguration.NormalArbitratorsCount = p.cfgNormal
	a := &state.Arbiters{State: &state.State{StateKeyFrame: state.NewStateKeyFrame()}, ChainParams: cfg}
	a.ConsensusAlgorithm = state.DPOS
	if p.pow {
		a.ConsensusAlgorithm = state.POW
	}
	a.CurrentCRCArbitersMap = map[common.Uint168]state.ArbiterMember{}
	a.CurrentReward = *state.NewRewardData()
	a.CurrentReward.TotalVotesInRound = p.total
	var payTo []common.Uint168
	for i, k := range p.kinds {
		owner := pubKey(i)
		ownerHash, _ := state.GetOwnerKeyStandardProgramHash(owner)
		var m state.ArbiterMember
		var err error
		if k == "n" {
			m, err = state.NewOriginArbiter(owner)
			a.CurrentReward.OwnerVotesInRound[*ownerHash] = p.avotes[i]
			payTo = append(payTo, *ownerHash)
		} else {
			node := pubKey(1000 + i)
			ct, _ := contract.CreateStandardContract(mustPK(owner))
			mem := &crstate.CRMember{Info: payload.CRInfo{Code: ct.Code}, MemberState: crstate.MemberElected, DPOSPublicKey: node}
			to := *ownerHash
			switch k {
			case "d":
				mem.MemberState = crstate.MemberImpeached
				to = *cfg.DestroyELAProgramHash
			case "w":
				mem.DPOSPublicKey = nil
				switch p.era {
				case 2:
					to = *cfg.DestroyELAProgramHash
				case 3: // paid to the producer behind the node key, with that producer's votes
					prodOwner := pubKey(2000 + i)
					a.NodeOwnerKeys[common.BytesToHexString(node)] = common.BytesToHexString(prodOwner)
					ph, _ := state.GetOwnerKeyStandardProgramHash(prodOwner)
					a.CurrentReward.OwnerVotesInRound[*ph] = p.avotes[i]
					to = *ph
				}
			}
			if p.era == 0 {
				to = *cfg.CRConfiguration.CRCProgramHash
			}
			m, err = state.NewCRCArbiter(node, owner, mem, true)
			a.CurrentCRCArbitersMap[*ownerHash] = m
			payTo = append(payTo, to)
		}
		if err != nil {
			panic("harness: arbiter: " + err.Error())
		}
		a.CurrentArbitrators = append(a.CurrentArbitrators, m)
	}
	var candTo []common.Uint168
	for i, v := range p.cvotes {
		owner := pubKey(5000 + i)
		m, err := state.NewOriginArbiter(owner)
		if err != nil {
			panic("harness: candidate")
		}
		h := m.GetOwnerProgramHash()
		a.CurrentReward.OwnerVotesInRound[h] = v
		a.CurrentCandidates = append(a.CurrentCandidates, m)
		candTo = append(candTo, h)
	}
	rr, change, err := a.VerifDistributeDPOSReward(2000000, p.reward)
	if err != nil {
		return "err"
	}
	get := func(h common.Uint168) string {
		if v, ok := rr[h]; ok {
			return strconv.FormatInt(int64(v), 10)
		}
		return "-"
	}
	var b strings.Builder
	fmt.Fprintf(&b, "ok %d %d D=%s C=%s A", int64(change), len(rr), get(*cfg.DestroyELAProgramHash), get(*cfg.CRConfiguration.CRCProgramHash))
	for _, h := range payTo {
		b.WriteString(" " + get(h))
	}
	b.WriteString(" K")
	for _, h := range candTo {
		b.WriteString(" " + get(h))
	}
	return b.String()
}

func mustPK(b []byte) *crypto.PublicKey {
	pk, err := crypto.DecodePoint(b)
	if err != nil {
		panic("harness: decode point")
	}
	return pk
}

// ---------------------------------------------------------------- generator

func genVotes(r *hx.Rand) int64 {
	switch r.Intn(8) {
	case 0:
		return 0
	case 1:
		return int64(r.Intn(100))
	case 2:
		return int64(1) << uint(r.Intn(56))
	}
	return int64(r.Intn(3000000)) * 100000000 / int64(1+r.Intn(50))
}

func gen(g *hx.Gen) {
	r := g.R
	n := g.N(5000, 200000)
	for i := 0; i < n; i++ {
		era := r.Intn(4)
		cfgCRC := r.Pick(0, 1, 4, 12, 12, 12)
		cfgNormal := r.Pick(0, 2, 24, 24, 24)
		na := r.Pick(0, 1, 3, 12, cfgCRC, cfgCRC+cfgNormal, cfgCRC+cfgNormal, 36, 5)
		nCRCnow := cfgCRC
		if r.Chance(30) && cfgCRC > 0 {
			nCRCnow = r.Intn(cfgCRC + 1) // some council arbiters missing
		}
		kinds := make([]string, na)
		votes := make([]int64, na)
		sum := new(big.Int)
		for k := 0; k < na; k++ {
			if k < nCRCnow {
				kinds[k] = []string{"c", "c", "c", "d", "w"}[r.Intn(5)]
			} else {
				kinds[k] = "n"
			}
			votes[k] = genVotes(r)
			if kinds[k] == "n" || (kinds[k] == "w" && era == 3) {
				sum.Add(sum, big.NewInt(votes[k]))
			}
		}
		nc := r.Pick(0, 0, 1, 5, 20, 72)
		cv := make([]int64, nc)
		for k := range cv {
			cv[k] = genVotes(r)
			sum.Add(sum, big.NewInt(cv[k]))
		}
		total := int64(0)
		if sum.IsInt64() {
			total = sum.Int64()
		} else {
			total = math.MaxInt64
		}
		switch r.Intn(12) {
		case 0:
			total = 0
		case 1: // the snapshot counts producers that are neither on duty nor candidates
			if total < math.MaxInt64/2 {
				total += genVotes(r)
			}
		case 3: // inconsistent snapshot: the total is smaller than the votes it is divided among (the guard's case)
			if total > 3 {
				total = total / int64(2+r.Intn(3))
			}
		case 2: // zero votes everywhere
			for k := range votes {
				votes[k] = 0
			}
			for k := range cv {
				cv[k] = 0
			}
			total = 0
		}
		var reward int64
		switch r.Intn(8) {
		case 0:
			reward = 0
		case 1:
			reward = int64(r.Intn(1000))
		case 2:
			reward = int64(1)<<50 + int64(r.Intn(1000))
		case 3:
			reward = int64(1) << uint(r.Intn(62))
		default:
			reward = int64(36*(1+r.Intn(400))) * 53272450 // a round of block DPoS rewards
		}
		var b strings.Builder
		fmt.Fprintf(&b, "dist %d %d %d %d %d %d %d", era, r.Intn(6)/5, cfgCRC, cfgNormal, reward, total, na)
		for k := 0; k < na; k++ {
			fmt.Fprintf(&b, " %s %d", kinds[k], votes[k])
		}
		fmt.Fprintf(&b, " %d", nc)
		for _, v := range cv {
			fmt.Fprintf(&b, " %d", v)
		}
		g.Emit("%s", b.String())
	}
}

// ---------------------------------------------------------------- oracle

// A distribution that is reported as successful must not attribute more than the reward, must
// carry a non-negative remainder, must not contain a negative payout, and payouts plus remainder
// must not exceed the reward (the remainder goes to the miner on top of the payouts).
func oracle(t []string, out string) *hx.Violation {
	if !strings.HasPrefix(out, "ok ") {
		return nil
	}
	p := parse(t)
	if p.reward < 0 {
		return nil
	}
	if p.era >= 2 && p.cfgCRC+p.cfgNormal == 0 {
		return nil // a configuration without any arbiter seat does not exist
	}
	f := strings.Fields(out)
	change, _ := strconv.ParseInt(f[1], 10, 64)
	// distinct map entries: D, C, then per arbiter / candidate (destroy / crc entries repeat in A)
	paid := new(big.Int)
	neg := false
	add := func(s string) {
		if s == "-" {
			return
		}
		v, _ := strconv.ParseInt(s, 10, 64)
		if v < 0 {
			neg = true
		}
		paid.Add(paid, big.NewInt(v))
	}
	add(strings.TrimPrefix(f[3], "D="))
	add(strings.TrimPrefix(f[4], "C="))
	i := 6
	for k := 0; k < len(p.kinds); k++ {
		own := p.kinds[k] == "n" || (p.era >= 1 && p.kinds[k] == "c") || (p.kinds[k] == "w" && (p.era == 1 || p.era == 3))
		if own {
			add(f[i+k])
		}
	}
	i += len(p.kinds) + 1
	for k := 0; k < len(p.cvotes); k++ {
		add(f[i+k])
	}
	wf := p.total > 0 // the vote snapshot is non-empty
	kind := func(s string) string {
		if !wf {
			return s + "-zero-total-votes"
		}
		return s
	}
	if neg {
		return &hx.Violation{Kind: kind("negative-payout"), Detail: "a payout in the round reward map is negative"}
	}
	if change < 0 {
		return &hx.Violation{Kind: kind("negative-change"), Detail: "remainder carried forward is negative"}
	}
	// Above 2^53 sela (90 million ELA in one round, more than the supply) float64(reward) is no
	// longer exact and the shares can exceed the reward by rounding; the two sum rules are judged
	// on the domain where the float inputs are exact integers.
	if p.reward >= 1<<53 {
		return nil
	}
	if paid.Cmp(big.NewInt(int64(p.reward))) > 0 {
		return &hx.Violation{Kind: kind("overpaid"), Detail: fmt.Sprintf("payouts %s exceed the reward %d", paid, int64(p.reward))}
	}
	tot := new(big.Int).Add(paid, big.NewInt(change))
	if tot.Cmp(big.NewInt(int64(p.reward))) > 0 {
		return &hx.Violation{Kind: "payouts-plus-change-exceed-reward",
			Detail: fmt.Sprintf("payouts %s + change %d > reward %d", paid, change, int64(p.reward))}
	}
	return nil
}

func nontrivial(t []string, out string) bool { return strings.HasPrefix(out, "ok ") && len(t) > 10 }

func bucket(t []string, out string) string {
	f := strings.Fields(out)
	return "dist/era" + t[1] + "/" + f[0]
}

func main() {
	hx.Main(&hx.Prop{Name: "C27", Gen: gen, Exec: exec, Oracle: oracle, Nontrivial: nontrivial, Bucket: bucket})
}
