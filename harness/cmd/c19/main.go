// Harness for C19: treaps behave as ordered maps; immutable treaps are persistent.
//
// Real code under test: database/internal/treap (Mutable, Immutable, Iterator)
// through the build-tagged re-export database/verifexport.
//
// Stateful stream (ops between `reset` lines form one history):
//
//	mput k v seed prio | mdel k | mget k | mhas k | mlen | msize | mshape | mlist n | mclear | mbuild dump
//	iput src k v seed prio | idel src k | ibuild dump | iget ver k | ihas ver k | ilen ver | isize ver | ishape ver | ilist ver n
//	it new m|ver start limit | it reseekall | it id first|last|next|prev|seek k|key|value|valid|reseek
//
// `seed` is given to math/rand before the Put so that the priority drawn by the
// real code is `prio` (re-checked by Exec); the model is fed `prio`.
package main

import (
	"bytes"
	"fmt"
	"math/rand"
	"sort"
	"strconv"
	"strings"
	"time"

	"elaverif/harness/hx"

	vx "github.com/elastos/Elastos.ELA/database/verifexport"
)

// ---------------------------------------------------------------- implementation state

type iterRec struct {
	it    *vx.Iterator
	isMut bool
}

type state struct {
	m     *vx.Mutable
	vers  []*vx.Immutable
	iters []iterRec
}

var st *state

func newState() *state { return &state{m: vx.NewMutable(), vers: []*vx.Immutable{vx.NewImmutable()}} }

func optBytes(s string) []byte {
	if s == "nil" {
		return nil
	}
	if s == "-" {
		return []byte{}
	}
	return hx.UnHex(s)
}

func fmtOpt(b []byte) string {
	if b == nil {
		return "nil"
	}
	return hx.Hex(b)
}

func atoi(s string) int {
	v, err := strconv.Atoi(s)
	if err != nil {
		panic("harness: bad int " + s)
	}
	return v
}

func prioOf(seed int64) int {
	rand.Seed(seed)
	return rand.Int()
}

func fmtDump(d []vx.TreapNode) string {
	parts := make([]string, len(d))
	for i, n := range d {
		if n.Nil {
			parts[i] = "."
		} else {
			parts[i] = hx.Hex(n.Key) + ":" + hx.Hex(n.Value) + ":" + strconv.Itoa(n.Priority)
		}
	}
	return strings.Join(parts, ",")
}

func parseDump(s string) []vx.TreapNode {
	var out []vx.TreapNode
	for _, tok := range strings.Split(s, ",") {
		if tok == "." {
			out = append(out, vx.TreapNode{Nil: true})
			continue
		}
		f := strings.Split(tok, ":")
		if len(f) != 3 {
			panic("harness: bad dump token " + tok)
		}
		k, v := optBytes(f[0]), optBytes(f[1])
		if k == nil {
			k = []byte{}
		}
		if v == nil {
			v = []byte{}
		}
		out = append(out, vx.TreapNode{Key: k, Value: v, Priority: atoi(f[2])})
	}
	return out
}

type forEacher interface {
	ForEach(func(k, v []byte) bool)
}

func fmtList(t forEacher, n int) string {
	var parts []string
	t.ForEach(func(k, v []byte) bool {
		parts = append(parts, hx.Hex(k)+"="+hx.Hex(v))
		return len(parts) < n
	})
	if len(parts) == 0 {
		return "empty"
	}
	return strings.Join(parts, ",")
}

func fmtPos(it *vx.Iterator, ok bool) string {
	return fmt.Sprintf("%v %s %s", ok, fmtOpt(it.Key()), fmtOpt(it.Value()))
}

func ver(s string) *vx.Immutable {
	i := atoi(s)
	if i < 0 || i >= len(st.vers) {
		panic("harness: bad version " + s)
	}
	return st.vers[i]
}

// hung is set once an operation of the implementation did not return: the goroutine cannot be
// stopped, so every later op is answered without touching the treaps again.
var hung bool

// exec runs one op under a watchdog: a treap damaged into a cyclic structure makes Get / ForEach /
// iterator steps loop for ever, which would otherwise end the run without a failing input.
func exec(t []string) string {
	if hung {
		return "skipped-after-hang"
	}
	type res struct {
		out string
		p   interface{}
	}
	ch := make(chan res, 1)
	go func() {
		defer func() {
			if p := recover(); p != nil {
				ch <- res{p: p}
			}
		}()
		ch <- res{out: execOp(t)}
	}()
	select {
	case r := <-ch:
		if r.p != nil {
			panic(r.p)
		}
		return r.out
	case <-time.After(30 * time.Second):
		hung = true
		return "hang"
	}
}

func execOp(t []string) string {
	if st == nil {
		st = newState()
	}
	switch t[0] {
	case "reset":
		st = newState()
		return "ok"
	case "mput":
		seed, prio := int64(atoi(t[3])), atoi(t[4])
		if prioOf(seed) != prio {
			return "prio-mismatch"
		}
		rand.Seed(seed)
		st.m.Put(optBytes(t[1]), optBytes(t[2]))
		return "ok"
	case "mdel":
		st.m.Delete(optBytes(t[1]))
		return "ok"
	case "mget":
		return fmtOpt(st.m.Get(optBytes(t[1])))
	case "mhas":
		return fmt.Sprint(st.m.Has(optBytes(t[1])))
	case "mlen":
		return strconv.Itoa(st.m.Len())
	case "msize":
		return strconv.FormatUint(st.m.Size(), 10)
	case "mshape":
		return fmtDump(st.m.VerifDump())
	case "mlist":
		return fmtList(st.m, atoi(t[1]))
	case "mclear":
		st.m.Reset()
		return "ok"
	case "mbuild":
		// a new treap object: iterators of the old one are dropped (ids restart)
		st.m = vx.BuildMutable(parseDump(t[1]))
		st.iters = nil
		return "ok"
	case "ibuild":
		st.vers = append(st.vers, vx.BuildImmutable(parseDump(t[1])))
		return strconv.Itoa(len(st.vers) - 1)
	case "iput":
		seed, prio := int64(atoi(t[4])), atoi(t[5])
		if prioOf(seed) != prio {
			return "prio-mismatch"
		}
		rand.Seed(seed)
		st.vers = append(st.vers, ver(t[1]).Put(optBytes(t[2]), optBytes(t[3])))
		return strconv.Itoa(len(st.vers) - 1)
	case "idel":
		st.vers = append(st.vers, ver(t[1]).Delete(optBytes(t[2])))
		return strconv.Itoa(len(st.vers) - 1)
	case "iget":
		return fmtOpt(ver(t[1]).Get(optBytes(t[2])))
	case "ihas":
		return fmt.Sprint(ver(t[1]).Has(optBytes(t[2])))
	case "ilen":
		return strconv.Itoa(ver(t[1]).Len())
	case "isize":
		return strconv.FormatUint(ver(t[1]).Size(), 10)
	case "ishape":
		return fmtDump(ver(t[1]).VerifDump())
	case "ilist":
		return fmtList(ver(t[1]), atoi(t[2]))
	case "it":
		switch t[1] {
		case "new":
			start, limit := optBytes(t[3]), optBytes(t[4])
			if t[2] == "m" {
				st.iters = append(st.iters, iterRec{st.m.Iterator(start, limit), true})
			} else {
				st.iters = append(st.iters, iterRec{ver(t[2]).Iterator(start, limit), false})
			}
			return strconv.Itoa(len(st.iters) - 1)
		case "reseekall":
			for _, r := range st.iters {
				r.it.ForceReseek()
			}
			return "ok"
		}
		id := atoi(t[1])
		if id < 0 || id >= len(st.iters) {
			panic("harness: bad iterator " + t[1])
		}
		it := st.iters[id].it
		switch t[2] {
		case "first":
			return fmtPos(it, it.First())
		case "last":
			return fmtPos(it, it.Last())
		case "next":
			return fmtPos(it, it.Next())
		case "prev":
			return fmtPos(it, it.Prev())
		case "seek":
			return fmtPos(it, it.Seek(optBytes(t[3])))
		case "key":
			return fmtOpt(it.Key())
		case "value":
			return fmtOpt(it.Value())
		case "valid":
			return fmt.Sprint(it.Valid())
		case "reseek":
			it.ForceReseek()
			return "ok"
		}
	}
	panic("harness: unknown op " + strings.Join(t, " "))
}

// ---------------------------------------------------------------- reference ordered map (oracle side)

type ref struct {
	keys []string // sorted
	vals map[string]string
}

func newRef() *ref { return &ref{vals: map[string]string{}} }

func (r *ref) clone() *ref {
	c := &ref{keys: append([]string(nil), r.keys...), vals: make(map[string]string, len(r.vals))}
	for k, v := range r.vals {
		c.vals[k] = v
	}
	return c
}
func (r *ref) put(k, v string) {
	if _, ok := r.vals[k]; !ok {
		i := sort.SearchStrings(r.keys, k)
		r.keys = append(r.keys, "")
		copy(r.keys[i+1:], r.keys[i:])
		r.keys[i] = k
	}
	r.vals[k] = v
}
func (r *ref) del(k string) {
	if _, ok := r.vals[k]; ok {
		i := sort.SearchStrings(r.keys, k)
		r.keys = append(r.keys[:i], r.keys[i+1:]...)
		delete(r.vals, k)
	}
}
func (r *ref) size() uint64 {
	var s uint64
	for k, v := range r.vals {
		s += 72 + uint64(len(k)+len(v))
	}
	return s
}
func (r *ref) list(n int) string {
	if len(r.keys) == 0 {
		return "empty"
	}
	if n < 1 {
		n = 1
	}
	var parts []string
	for i, k := range r.keys {
		if i >= n {
			break
		}
		parts = append(parts, hx.Hex([]byte(k))+"="+hx.Hex([]byte(r.vals[k])))
	}
	return strings.Join(parts, ",")
}

// in-order "k=v,…" of a preorder dump string, and whether the tree is a BST
func dumpInorder(d string) (string, bool) {
	nodes := parseDump(d)
	pos := 0
	var parts []string
	var keys [][]byte
	var walk func()
	walk = func() {
		if pos >= len(nodes) {
			return
		}
		n := nodes[pos]
		pos++
		if n.Nil {
			return
		}
		// left subtree
		walk()
		parts = append(parts, hx.Hex(n.Key)+"="+hx.Hex(n.Value))
		keys = append(keys, n.Key)
		walk()
	}
	walk()
	ok := true
	for i := 1; i < len(keys); i++ {
		if bytes.Compare(keys[i-1], keys[i]) >= 0 {
			ok = false
		}
	}
	if len(parts) == 0 {
		return "empty", ok
	}
	return strings.Join(parts, ","), ok
}

// is the preorder dump a min-heap on the priorities?
func dumpIsHeap(d string) bool {
	nodes := parseDump(d)
	pos := 0
	ok := true
	var walk func(parent int, has bool)
	walk = func(parent int, has bool) {
		if pos >= len(nodes) {
			return
		}
		n := nodes[pos]
		pos++
		if n.Nil {
			return
		}
		if has && n.Priority < parent {
			ok = false
		}
		walk(n.Priority, true)
		walk(n.Priority, true)
	}
	walk(0, false)
	return ok
}

func refFromDump(d string) *ref {
	r := newRef()
	for _, n := range parseDump(d) {
		if !n.Nil {
			r.put(string(n.Key), string(n.Value))
		}
	}
	return r
}

type oIter struct {
	src        *ref // snapshot for immutable; nil = follow the mutable reference
	start, lim *string
	isNew      bool
	cur        *string // current key (nil = exhausted / not positioned)
	stale      bool    // a mutation happened since the last positioning call
}

type ostate struct {
	m     *ref
	vers  []*ref
	iters []*oIter
	// built only by Put/Delete from the empty treap (not by mbuild/ibuild, which may start
	// from a shape that is not a heap): such a treap must be a min-heap on its priorities
	mPure    bool
	versPure []bool
}

var os_ *ostate

func newOState() *ostate {
	return &ostate{m: newRef(), vers: []*ref{newRef()}, mPure: true, versPure: []bool{true}}
}

func strp(b []byte) *string {
	if b == nil {
		return nil
	}
	s := string(b)
	return &s
}

func (o *oIter) inRange(k string) bool {
	if o.start != nil && k < *o.start {
		return false
	}
	if o.lim != nil && k >= *o.lim {
		return false
	}
	return true
}

// expected position after a positioning op, over the sorted key list
func (o *oIter) expect(keys []string, op string, arg string) *string {
	first := func(from string, strict bool) *string { // smallest key >= (or >) from, in range
		i := sort.SearchStrings(keys, from)
		if strict && i < len(keys) && keys[i] == from {
			i++
		}
		if i < len(keys) && o.inRange(keys[i]) {
			k := keys[i] // copy: the key slice is edited in place by later updates
			return &k
		}
		return nil
	}
	last := func(below string, strict bool) *string { // largest key < (or <=) below, in range
		i := sort.SearchStrings(keys, below)
		if !strict && i < len(keys) && keys[i] == below {
			i++
		}
		if i > 0 && o.inRange(keys[i-1]) {
			k := keys[i-1]
			return &k
		}
		return nil
	}
	switch op {
	case "first":
		if o.start != nil {
			return first(*o.start, false)
		}
		return first("", false)
	case "last":
		if o.lim != nil {
			return last(*o.lim, true)
		}
		if len(keys) > 0 && o.inRange(keys[len(keys)-1]) {
			k := keys[len(keys)-1]
			return &k
		}
		return nil
	case "seek":
		k := arg
		if o.start != nil && k < *o.start {
			// a seek below the range positions outside it: the iterator reports exhaustion
			if p := first(k, false); p != nil {
				return p
			}
			return nil
		}
		return first(k, false)
	case "next":
		if o.cur == nil {
			return nil
		}
		return first(*o.cur, true)
	case "prev":
		if o.cur == nil {
			return nil
		}
		return last(*o.cur, true)
	}
	return nil
}

func viol(kind, detail string) *hx.Violation { return &hx.Violation{Kind: kind, Detail: detail} }

// Oracle: judges the implementation's answers against a reference ordered map
// kept here (sorted slice + Go map), independently of the Lean model.
func oracle(t []string, out string) *hx.Violation {
	if os_ == nil {
		os_ = newOState()
	}
	if out == "panic" {
		return viol("treap-panic", "treap operation panicked: "+hx.LastPanic())
	}
	if out == "hang" {
		return viol("treap-hang", "treap operation did not return within 30 s (cyclic structure?)")
	}
	if out == "skipped-after-hang" {
		return nil
	}
	o := os_
	key := func(s string) string { return string(optBytes(s)) }
	markStale := func() {
		for _, it := range o.iters {
			if it.src == nil {
				it.stale = true
			}
		}
	}
	switch t[0] {
	case "reset":
		os_ = newOState()
	case "mput":
		o.m.put(key(t[1]), key(t[2]))
		markStale()
	case "mdel":
		o.m.del(key(t[1]))
		markStale()
	case "mclear":
		o.m = newRef()
		o.mPure = true
		markStale()
	case "mbuild":
		o.m = refFromDump(t[1])
		o.mPure = false
		o.iters = nil
	case "mget", "iget":
		r, k := o.m, ""
		if t[0] == "iget" {
			r, k = o.vers[atoi(t[1])], key(t[2])
		} else {
			k = key(t[1])
		}
		want := "nil"
		if v, ok := r.vals[k]; ok {
			want = hx.Hex([]byte(v))
		}
		if out != want {
			return viol("get-differs", "Get returned "+out+", ordered map has "+want)
		}
	case "mhas", "ihas":
		r, k := o.m, ""
		if t[0] == "ihas" {
			r, k = o.vers[atoi(t[1])], key(t[2])
		} else {
			k = key(t[1])
		}
		_, ok := r.vals[k]
		if out != fmt.Sprint(ok) {
			return viol("has-differs", "Has returned "+out)
		}
	case "mlen", "ilen":
		r := o.m
		if t[0] == "ilen" {
			r = o.vers[atoi(t[1])]
		}
		if out != strconv.Itoa(len(r.keys)) {
			return viol("len-differs", fmt.Sprintf("Len returned %s, ordered map has %d", out, len(r.keys)))
		}
	case "msize", "isize":
		r := o.m
		if t[0] == "isize" {
			r = o.vers[atoi(t[1])]
		}
		if out != strconv.FormatUint(r.size(), 10) {
			return viol("size-differs", fmt.Sprintf("Size returned %s, expected %d", out, r.size()))
		}
	case "mlist", "ilist":
		r, n := o.m, 0
		if t[0] == "ilist" {
			r, n = o.vers[atoi(t[1])], atoi(t[2])
		} else {
			n = atoi(t[1])
		}
		if want := r.list(n); out != want {
			k := "foreach-differs"
			if t[0] == "ilist" {
				k = "version-changed"
			}
			return viol(k, "ForEach gave "+out+", ordered map has "+want)
		}
	case "mshape", "ishape":
		r := o.m
		if t[0] == "ishape" {
			r = o.vers[atoi(t[1])]
		}
		in, bst := dumpInorder(out)
		if !bst {
			return viol("not-a-bst", "in-order keys of the tree are not strictly increasing")
		}
		pure := o.mPure
		if t[0] == "ishape" {
			pure = o.versPure[atoi(t[1])]
		}
		if pure && !dumpIsHeap(out) {
			return viol("not-a-heap", "a treap built by Put/Delete only is not a min-heap on its priorities (balance is lost)")
		}
		if want := r.list(1 << 30); in != want {
			k := "contents-differ"
			if t[0] == "ishape" {
				k = "version-changed"
			}
			return viol(k, "tree holds "+in+", ordered map has "+want)
		}
	case "ibuild":
		o.vers = append(o.vers, refFromDump(t[1]))
		o.versPure = append(o.versPure, false)
	case "iput":
		r := o.vers[atoi(t[1])].clone()
		r.put(key(t[2]), key(t[3]))
		o.vers = append(o.vers, r)
		o.versPure = append(o.versPure, o.versPure[atoi(t[1])])
	case "idel":
		r := o.vers[atoi(t[1])].clone()
		r.del(key(t[2]))
		o.vers = append(o.vers, r)
		o.versPure = append(o.versPure, o.versPure[atoi(t[1])])
	case "it":
		switch t[1] {
		case "new":
			it := &oIter{start: strp(optBytes(t[3])), lim: strp(optBytes(t[4])), isNew: true}
			if t[2] != "m" {
				it.src = o.vers[atoi(t[2])]
			}
			o.iters = append(o.iters, it)
			return nil
		case "reseekall":
			return nil
		}
		it := o.iters[atoi(t[1])]
		keys := o.m.keys
		vals := o.m.vals
		if it.src != nil {
			keys, vals = it.src.keys, it.src.vals
		}
		switch t[2] {
		case "first", "last", "next", "prev", "seek":
			op, arg := t[2], ""
			if op == "seek" {
				arg = key(t[3])
			}
			if it.isNew && op == "next" {
				op = "first"
			}
			if it.isNew && op == "prev" {
				op = "last"
			}
			it.isNew = false
			want := it.expect(keys, op, arg)
			it.cur = want
			it.stale = false
			ws := "false nil nil"
			if want != nil {
				ws = "true " + hx.Hex([]byte(*want)) + " " + hx.Hex([]byte(vals[*want]))
			}
			if out != ws {
				return viol("iter-"+t[2], "iterator "+t[2]+" gave "+out+", ordered map navigation gives "+ws)
			}
		}
	}
	return nil
}

// ---------------------------------------------------------------- generator

type keySpace struct {
	keys [][]byte
}

func smallSpace(r *hx.Rand) *keySpace {
	// prefix-related, empty, and boundary keys
	pool := [][]byte{{}, {0}, {0, 0}, {0, 1}, {1}, {1, 0}, {0x7f}, {0x80}, {0xff}, {0xff, 0}, {0xff, 0xff}, {2}, {2, 0xff}, {3}}
	n := 3 + r.Intn(10)
	ks := &keySpace{}
	perm := r.Intn(1 << 30)
	for i := 0; i < n; i++ {
		ks.keys = append(ks.keys, pool[(perm+i*5)%len(pool)])
	}
	return ks
}

func bigSpace(r *hx.Rand, n int) *keySpace {
	ks := &keySpace{}
	for i := 0; i < n; i++ {
		k := []byte{byte(i >> 24), byte(i >> 16), byte(i >> 8), byte(i)}
		if r.Chance(20) {
			k = append(k, r.Bytes(1+r.Intn(3))...)
		}
		ks.keys = append(ks.keys, k)
	}
	return ks
}

func (ks *keySpace) pick(r *hx.Rand) []byte { return ks.keys[r.Intn(len(ks.keys))] }

func optKey(ks *keySpace, r *hx.Rand, allowNil bool) string {
	if allowNil && r.Chance(40) {
		return "nil"
	}
	if r.Chance(10) {
		return hx.Hex(r.Bytes(1 + r.Intn(2)))
	}
	return hx.Hex(ks.pick(r))
}

func genVal(r *hx.Rand) string {
	switch r.Intn(6) {
	case 0:
		return "nil"
	case 1:
		return "-"
	}
	return hx.Hex(r.Bytes(1 + r.Intn(6)))
}

type genCtx struct {
	g        *hx.Gen
	r        *hx.Rand
	seedCtr  int64
	nIters   int
	mutIters []int
	nVers    int
}

func (c *genCtx) nextSeed() (int64, int) {
	c.seedCtr++
	s := c.seedCtr*7919 + int64(c.r.Intn(1000))
	return s, prioOf(s)
}

func (c *genCtx) reset() {
	c.g.Emit("reset")
	c.nIters, c.mutIters, c.nVers = 0, nil, 1
}

func (c *genCtx) mput(k []byte, v string) {
	s, p := c.nextSeed()
	c.g.Emit("mput %s %s %d %d", hx.Hex(k), v, s, p)
	c.g.Emit("it reseekall")
}
func (c *genCtx) mdel(k []byte) {
	c.g.Emit("mdel %s", hx.Hex(k))
	c.g.Emit("it reseekall")
}
func (c *genCtx) observeM(ks *keySpace, full bool) {
	r := c.r
	if full {
		c.g.Emit("mshape")
		c.g.Emit("mlen")
		c.g.Emit("msize")
	}
	switch r.Intn(4) {
	case 0:
		c.g.Emit("mget %s", hx.Hex(ks.pick(r)))
	case 1:
		c.g.Emit("mhas %s", hx.Hex(ks.pick(r)))
	case 2:
		c.g.Emit("mlist %d", r.Pick(1, 2, 3, 1000000))
	default:
		c.g.Emit("mlen")
	}
}

func (c *genCtx) newIter(src string, ks *keySpace) int {
	r := c.r
	st, lim := optKey(ks, r, true), optKey(ks, r, true)
	c.g.Emit("it new %s %s %s", src, st, lim)
	id := c.nIters
	c.nIters++
	if src == "m" {
		c.mutIters = append(c.mutIters, id)
	}
	if r.Chance(25) {
		// the first positioning call of a fresh iterator is a Seek that finds nothing (above
		// every key, at the limit, below the start), then a step in either direction
		k := "ffffffff"
		switch {
		case lim != "nil" && r.Chance(40):
			k = lim
		case st != "nil" && r.Chance(40):
			k = "00"
		}
		c.g.Emit("it %d seek %s", id, k)
		if r.Chance(50) {
			c.g.Emit("it %d prev", id)
		} else {
			c.g.Emit("it %d next", id)
		}
		c.g.Emit("it %d key", id)
	}
	return id
}

func (c *genCtx) walk(id int, ks *keySpace, steps int) {
	r := c.r
	for i := 0; i < steps; i++ {
		switch r.Intn(10) {
		case 0:
			c.g.Emit("it %d first", id)
		case 1:
			c.g.Emit("it %d last", id)
		case 2:
			c.g.Emit("it %d seek %s", id, optKey(ks, r, false))
		case 3, 4, 5:
			c.g.Emit("it %d prev", id)
		case 6:
			c.g.Emit("it %d valid", id)
			c.g.Emit("it %d key", id)
		default:
			c.g.Emit("it %d next", id)
		}
	}
}

// a random BST shape over a sorted subset of the key space, with priorities from
// a tiny range (ties, heap violations) or honouring the heap
func randShape(r *hx.Rand, ks *keySpace, tiePrio int) string {
	m := map[string]bool{}
	var keys []string
	for i := 0; i < 1+r.Intn(len(ks.keys)); i++ {
		k := string(ks.pick(r))
		if !m[k] {
			m[k] = true
			keys = append(keys, k)
		}
	}
	sort.Strings(keys)
	var out []string
	var build func(lo, hi int, minP int)
	build = func(lo, hi int, minP int) {
		if lo >= hi {
			out = append(out, ".")
			return
		}
		mid := lo + r.Intn(hi-lo)
		p := minP + r.Intn(3)
		switch r.Intn(8) {
		case 0:
			p = r.Intn(4) // may violate the heap
		case 1:
			p = tiePrio
		}
		out = append(out, hx.Hex([]byte(keys[mid]))+":"+hx.Hex(r.Bytes(r.Intn(3)))+":"+strconv.Itoa(p))
		build(lo, mid, p)
		build(mid+1, hi, p)
	}
	build(0, len(keys), r.Intn(3))
	return strings.Join(out, ",")
}

func genMutableHistory(c *genCtx, ks *keySpace, nops int, full bool, pattern int) {
	r := c.r
	c.reset()
	seq := 0
	for i := 0; i < nops; i++ {
		var k []byte
		switch pattern {
		case 1: // sequential
			k = ks.keys[seq%len(ks.keys)]
			seq++
		case 2: // reversed
			k = ks.keys[len(ks.keys)-1-seq%len(ks.keys)]
			seq++
		default:
			k = ks.pick(r)
		}
		x := r.Intn(100)
		switch {
		case x < 50:
			c.mput(k, genVal(r))
		case x < 75:
			c.mdel(k)
		case x < 77 && full:
			c.g.Emit("mclear")
			c.g.Emit("it reseekall")
		case x < 82 && full:
			// shape with ties; then a put whose fresh priority equals an existing one
			s, p := c.nextSeed()
			c.g.Emit("mbuild %s", randShape(r, ks, p))
			c.nIters, c.mutIters = 0, nil
			c.g.Emit("mshape")
			if r.Bool() {
				c.g.Emit("mput %s %s %d %d", hx.Hex(ks.pick(r)), genVal(r), s, p)
				c.g.Emit("it reseekall")
			}
		case x < 88 && full && c.nIters < 12:
			c.newIter("m", ks)
		default:
			if len(c.mutIters) > 0 && full {
				c.walk(c.mutIters[r.Intn(len(c.mutIters))], ks, 1+r.Intn(6))
			} else {
				c.observeM(ks, false)
			}
		}
		if full || r.Chance(2) {
			c.observeM(ks, full)
		}
	}
	c.g.Emit("mshape")
	c.g.Emit("mlist 1000000")
	c.g.Emit("msize")
}

func genImmutableHistory(c *genCtx, ks *keySpace, nops int, full bool) {
	r := c.r
	c.reset()
	retained := []int{0}
	for i := 0; i < nops; i++ {
		src := c.nVers - 1
		if r.Chance(30) {
			src = retained[r.Intn(len(retained))]
		}
		x := r.Intn(100)
		switch {
		case x < 55:
			s, p := c.nextSeed()
			c.g.Emit("iput %d %s %s %d %d", src, hx.Hex(ks.pick(r)), genVal(r), s, p)
			c.nVers++
		case x < 85:
			c.g.Emit("idel %d %s", src, hx.Hex(ks.pick(r)))
			c.nVers++
		case x < 90 && full:
			_, p := c.nextSeed()
			c.g.Emit("ibuild %s", randShape(r, ks, p))
			c.nVers++
		default:
			if full && c.nIters < 10 {
				id := c.newIter(strconv.Itoa(retained[r.Intn(len(retained))]), ks)
				c.walk(id, ks, 2+r.Intn(8))
			}
		}
		if r.Chance(25) && len(retained) < 24 {
			retained = append(retained, c.nVers-1)
		}
		if full {
			// persistence: every retained version must still answer as when it was produced
			for _, v := range retained {
				c.g.Emit("ishape %d", v)
			}
			c.g.Emit("ilen %d", c.nVers-1)
			c.g.Emit("isize %d", c.nVers-1)
			c.g.Emit("iget %d %s", retained[r.Intn(len(retained))], hx.Hex(ks.pick(r)))
			if c.nIters > 0 && r.Chance(50) {
				c.walk(r.Intn(c.nIters), ks, 1+r.Intn(4))
			}
		} else if r.Chance(3) {
			for _, v := range retained {
				c.g.Emit("ilist %d %d", v, 1000000)
				c.g.Emit("ilen %d", v)
				c.g.Emit("isize %d", v)
			}
			c.g.Emit("iget %d %s", retained[r.Intn(len(retained))], hx.Hex(ks.pick(r)))
		}
	}
	for _, v := range retained {
		c.g.Emit("ilist %d %d", v, 1000000)
	}
}

// full in-order walks forwards and backwards on a frozen treap
func genIterHistory(c *genCtx, ks *keySpace, fill int) {
	r := c.r
	c.reset()
	for i := 0; i < fill; i++ {
		s, p := c.nextSeed()
		c.g.Emit("mput %s %s %d %d", hx.Hex(ks.pick(r)), genVal(r), s, p)
		if r.Chance(20) {
			c.g.Emit("mdel %s", hx.Hex(ks.pick(r)))
		}
	}
	for j := 0; j < 4; j++ {
		id := c.newIter("m", ks)
		n := 0
		for c.g.Emit("it %d next", id)[:4] == "true" && n < fill+5 {
			n++
		}
		c.g.Emit("it %d next", id)
		n = 0
		for c.g.Emit("it %d prev", id)[:4] == "true" && n < fill+5 {
			n++
		}
		c.walk(id, ks, 10)
		// delete-while-iterating, the documented ForceReseek protocol
		c.g.Emit("it %d first", id)
		for k := 0; k < 6; k++ {
			out := c.g.Emit("it %d key", id)
			if out != "nil" && r.Bool() {
				c.g.Emit("mdel %s", out)
				c.g.Emit("it reseekall")
			}
			if r.Bool() {
				c.g.Emit("it %d next", id)
			} else {
				c.g.Emit("it %d prev", id)
			}
		}
	}
	c.g.Emit("mshape")
}

// a treap deeper than the 128-entry static part of the parent stack (a chain: key order =
// priority order), so that iterators, Put rotations and immutable path copies work through the
// overflow slice of parentStack
func genDeepHistory(c *genCtx) {
	r := c.r
	c.reset()
	n := 131 + r.Intn(24)
	left := r.Bool()
	const base = 9223372036854770000 // above (almost) every drawn priority: a later Put rotates to the top
	key := func(i int) string { return fmt.Sprintf("%04x", 16+4*i) }
	var toks []string
	for i := 0; i < n; i++ {
		k := i
		if left {
			k = n - 1 - i
		}
		toks = append(toks, fmt.Sprintf("%s:%02x:%d", key(k), i&0xff, base+i))
		if !left {
			toks = append(toks, ".")
		}
	}
	toks = append(toks, ".")
	if left {
		for i := 0; i < n; i++ {
			toks = append(toks, ".")
		}
	}
	shape := strings.Join(toks, ",")
	deep := n - 1 // index (in key order) of the deepest node
	if left {
		deep = 0
	}
	c.g.Emit("mbuild %s", shape)
	c.nIters, c.mutIters = 0, nil
	c.g.Emit("mlen")
	c.g.Emit("msize")
	c.g.Emit("it new m nil nil")
	id := c.nIters
	c.nIters++
	c.mutIters = append(c.mutIters, id)
	sweep := func() {
		c.g.Emit("it %d last", id)
		for i := 0; i < n+3; i++ {
			c.g.Emit("it %d prev", id)
		}
		c.g.Emit("it %d first", id)
		for i := 0; i < n+3; i++ {
			c.g.Emit("it %d next", id)
		}
		for _, k := range []int{deep, n / 2, 1 + r.Intn(n-2)} {
			c.g.Emit("it %d seek %s", id, key(k))
			for i := 0; i < 3; i++ {
				if r.Bool() {
					c.g.Emit("it %d prev", id)
				} else {
					c.g.Emit("it %d next", id)
				}
			}
		}
	}
	sweep()
	// a new key below the deepest node whose drawn priority lifts it through the whole chain
	nk := fmt.Sprintf("%04x", 16+4*deep+1)
	if left {
		nk = "0001"
	}
	s1, p1 := c.nextSeed()
	c.g.Emit("mput %s %s %d %d", nk, genVal(r), s1, p1)
	c.g.Emit("it reseekall")
	c.g.Emit("mshape")
	c.g.Emit("msize")
	sweep()
	c.g.Emit("mdel %s", key(deep))
	c.g.Emit("it reseekall")
	c.g.Emit("mdel %s", key(n/2))
	c.g.Emit("it reseekall")
	c.g.Emit("mshape")
	c.g.Emit("mlist 1000000")
	// the same chain as a persistent treap: path copies of 130+ nodes
	// (version numbers come from the implementation's answers: a panicking op adds none)
	num := func(out string) (int, bool) {
		n, err := strconv.Atoi(out)
		return n, err == nil
	}
	v, ok := num(c.g.Emit("ibuild %s", shape))
	if !ok {
		return
	}
	c.nVers = v + 1
	last := v
	for _, k := range []int{deep, n - 1 - deep, n / 2} {
		w, ok := num(c.g.Emit("idel %d %s", v, key(k)))
		if !ok {
			return
		}
		c.nVers, last = w+1, w
		c.g.Emit("ishape %d", w)
	}
	s2, p2 := c.nextSeed()
	w, ok := num(c.g.Emit("iput %d %s %s %d %d", v, nk, genVal(r), s2, p2))
	if !ok {
		return
	}
	c.nVers, last = w+1, w
	c.g.Emit("ishape %d", last)
	c.g.Emit("ilist %d 1000000", last)
	c.g.Emit("it new %d nil nil", last)
	id = c.nIters
	c.nIters++
	sweep()
}

func gen(g *hx.Gen) {
	c := &genCtx{g: g, r: g.R}
	r := g.R
	for h := 0; h < g.N(60, 600); h++ {
		genMutableHistory(c, smallSpace(r), 30+r.Intn(60), true, r.Intn(3))
	}
	for h := 0; h < g.N(40, 400); h++ {
		genImmutableHistory(c, smallSpace(r), 20+r.Intn(40), true)
	}
	for h := 0; h < g.N(30, 300); h++ {
		genIterHistory(c, smallSpace(r), 4+r.Intn(12))
	}
	for h := 0; h < g.N(2, 12); h++ {
		genDeepHistory(c)
	}
	// large key spaces: observables only, shapes at the end
	for h := 0; h < g.N(3, 12); h++ {
		genMutableHistory(c, bigSpace(r, g.N(2000, 10000)), g.N(6000, 40000), false, h%3)
	}
	for h := 0; h < g.N(2, 6); h++ {
		genImmutableHistory(c, bigSpace(r, g.N(1000, 5000)), g.N(1500, 6000), false)
	}
	for h := 0; h < g.N(2, 6); h++ {
		genIterHistory(c, bigSpace(r, g.N(500, 3000)), g.N(400, 2500))
	}
}

func nontrivial(t []string, out string) bool {
	switch t[0] {
	case "mdel", "idel", "iput", "mput":
		return true
	}
	return false
}

func bucket(t []string, out string) string {
	if t[0] == "it" {
		if len(t) > 2 && t[1] != "new" {
			f := strings.Fields(out)
			if len(f) == 3 {
				return "it/" + t[2] + "/" + f[0]
			}
			return "it/" + t[2]
		}
		return "it/" + t[1]
	}
	if t[0] == "mget" || t[0] == "iget" {
		if out == "nil" {
			return t[0] + "/miss"
		}
		return t[0] + "/hit"
	}
	return t[0]
}

func main() {
	hx.Main(&hx.Prop{Name: "C19", Gen: gen, Exec: exec, Oracle: oracle, Nontrivial: nontrivial, Bucket: bucket, Stateful: true})
}
