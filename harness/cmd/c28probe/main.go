// throwaway probe: DPoSV1V2 producer cancelled by tx in block StakeUntil+1 after DPoS v2 is active
package main

import (
	"fmt"

	"github.com/elastos/Elastos.ELA/common"
	"github.com/elastos/Elastos.ELA/common/config"
	"github.com/elastos/Elastos.ELA/core/contract"
	"github.com/elastos/Elastos.ELA/core/transaction"
	"github.com/elastos/Elastos.ELA/core/types"
	ctypes "github.com/elastos/Elastos.ELA/core/types/common"
	"github.com/elastos/Elastos.ELA/core/types/functions"
	"github.com/elastos/Elastos.ELA/core/types/interfaces"
	"github.com/elastos/Elastos.ELA/core/types/payload"
	"github.com/elastos/Elastos.ELA/crypto"
	"github.com/elastos/Elastos.ELA/dpos/state"
	elalog "github.com/elastos/Elastos.ELA/common/log"
)

func blk(h uint32, txs ...interfaces.Transaction) *types.Block {
	return &types.Block{Header: ctypes.Header{Height: h}, Transactions: txs}
}

func main() {
	elalog.NewDefault("/var/tmp/b-gov/probelogs", 255, 0, 0)
	functions.GetTransactionByTxType = transaction.GetTransaction
	functions.CreateTransaction = transaction.CreateTransaction
	functions.GetTransactionParameters = transaction.GetTransactionparameters
	p := config.GetDefaultParams()
	p.CRConfiguration.DepositLockupBlocks = 3
	p.DPoSV2StartHeight = 0
	st := state.NewState(p, nil, nil, nil, func() bool { return false }, nil, nil, nil, nil, nil, nil, nil)
	_, pk, _ := crypto.GenerateKeyPair()
	owner, _ := pk.EncodePoint(true)
	dep, _ := contract.CreateDepositContractByPubKey(pk)
	ela := common.Fixed64(100000000)
	show := func(when string) {
		pr := st.GetProducer(owner)
		fmt.Printf("%-28s state=%v identity=%v total=%v lock=%v available=%v cancelHeight=%d\n", when, pr.State(), pr.Identity(), pr.TotalAmount(), pr.DepositAmount(), pr.AvailableAmount(), pr.CancelHeight())
	}
	h := uint32(10)
	info := &payload.ProducerInfo{OwnerKey: owner, NodePublicKey: owner, NickName: "p"}
	st.ProcessBlock(blk(h, functions.CreateTransaction(0, ctypes.RegisterProducer, 0, info, nil, nil,
		[]*ctypes.Output{{ProgramHash: *dep.ToProgramHash(), Value: 5000 * ela}}, 0, nil)), nil, 0)
	for i := 0; i < 6; i++ {
		h++
		st.ProcessBlock(blk(h), nil, 0)
	}
	show("registered v1, active")
	stakeUntil := uint32(40)
	h++
	info2 := &payload.ProducerInfo{OwnerKey: owner, NodePublicKey: owner, NickName: "p", StakeUntil: stakeUntil}
	st.ProcessBlock(blk(h, functions.CreateTransaction(0, ctypes.UpdateProducer, payload.ProducerInfoDposV2Version, info2, nil, nil, nil, 0, nil)), nil, 0)
	show("updated -> v1v2")
	st.DPoSV2ActiveHeight = 20
	for h < 20 {
		h++
		st.ProcessBlock(blk(h), nil, 0)
	}
	show("at DPoSV2ActiveHeight")
	for h < stakeUntil {
		h++
		st.ProcessBlock(blk(h), nil, 0)
	}
	show("at StakeUntil")
	h++ // StakeUntil+1: cancel by tx (the context check allows it: height > StakeUntil)
	st.ProcessBlock(blk(h, functions.CreateTransaction(0, ctypes.CancelProducer, 0, &payload.ProcessProducer{OwnerKey: owner}, nil, nil, nil, 0, nil)), nil, 0)
	show("cancel tx in StakeUntil+1")
	for i := 0; i < 4; i++ {
		h++
		st.ProcessBlock(blk(h), nil, 0)
	}
	show("after the lock-up")
}
