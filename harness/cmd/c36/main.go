// C36 — RPC access control and service levels.
//
//	http <srv> <remote> <parsed> <whitelist> <user> <pass> <auth> <method> <ctype> <media>
//	      one request through the REAL handler — srv A: servers/httpjsonrpc.Handle (configuration in
//	      config.Parameters), srv B: utils/http/jsonrpc.Server.ServeHTTP (configuration in its Config) —
//	      built with net/http/httptest.  remote = r.RemoteAddr; parsed = what the net package makes of it
//	      (none | L:<canonical> | N:<canonical>, L = loopback) and media = what mime.ParseMediaType makes of
//	      ctype: both are oracle values for the model, re-checked by the adapter.  All strings hex, "-" = empty,
//	      lists comma separated ("e" = empty element).  Output: 403 | 405 | 415 | 401 | served.
//	gate <method> <level>
//	      servers.ChainParams.RPCServiceLevel = level; call the real handler of the method with empty
//	      parameters.  Output: refused (the service-level refusal came back) | ran.
package main

import (
	"bytes"
	"encoding/base64"
	"encoding/json"
	"encoding/hex"
	"fmt"
	"mime"
	"net"
	"net/http/httptest"
	"strings"

	"elaverif/harness/hx"

	"github.com/elastos/Elastos.ELA/common/config"
	"github.com/elastos/Elastos.ELA/pow"
	"github.com/elastos/Elastos.ELA/servers"
	"github.com/elastos/Elastos.ELA/servers/httpjsonrpc"
	"github.com/elastos/Elastos.ELA/utils/http/jsonrpc"
)

func hs(s string) string { return hx.Hex([]byte(s)) }
func us(s string) string { return string(hx.UnHex(s)) }

func list(s string) []string {
	if s == "-" {
		return nil
	}
	var res []string
	for _, t := range strings.Split(s, ",") {
		if t == "e" {
			res = append(res, "")
		} else {
			res = append(res, us(t))
		}
	}
	return res
}

func fmtList(xs []string) string {
	if len(xs) == 0 {
		return "-"
	}
	var p []string
	for _, x := range xs {
		if x == "" {
			p = append(p, "e")
		} else {
			p = append(p, hex.EncodeToString([]byte(x)))
		}
	}
	return strings.Join(p, ",")
}

// what the net package makes of a remote address
func parse(remote string) string {
	host, _, err := net.SplitHostPort(remote)
	if err != nil {
		return "none"
	}
	ip := net.ParseIP(host)
	if ip == nil {
		return "none"
	}
	k := "N"
	if ip.IsLoopback() {
		k = "L"
	}
	return k + ":" + hs(ip.String())
}

func media(ctype string) string {
	m, _, _ := mime.ParseMediaType(ctype)
	return hs(m)
}

var handlers = map[string]func(servers.Params) map[string]interface{}{
	"setloglevel": servers.SetLogLevel, "togglemining": servers.ToggleMining,
	"createauxblock": servers.CreateAuxBlock, "submitauxblock": servers.SubmitAuxBlock, "discretemining": servers.DiscreteMining,
	"sendrawtransaction": servers.SendRawTransaction, "submitsidechainillegaldata": servers.SubmitSidechainIllegalData,
	"estimatesmartfee": servers.EstimateSmartFee,
	"getamountbyinputs": servers.GetAmountByInputs, "getutxosbyamount": servers.GetUTXOsByAmount, "listunspent": servers.ListUnspent,
	"createrawtransaction": servers.CreateRawTransaction, "decoderawtransaction": servers.DecodeRawTransaction,
	"signrawtransactionwithkey": servers.SignRawTransactionWithKey,
	// not privileged
	"help": servers.AuxHelp, "getblockhash": servers.GetBlockHash, "getrawtransaction": servers.GetRawTransaction,
	"getnodestate": servers.GetNodeState,
}

func callHandler(h func(servers.Params) map[string]interface{}, params servers.Params) (res map[string]interface{}, panicked bool) {
	defer func() {
		if e := recover(); e != nil {
			panicked = true
		}
	}()
	return h(params), false
}

func exec(t []string) string {
	switch t[0] {
	case "http":
		remote, wl, user, pass, auth, method, ctype := us(t[2]), list(t[4]), us(t[5]), us(t[6]), list(t[7]), t[8], us(t[9])
		if parse(remote) != t[3] {
			return "oracle-mismatch parsed " + parse(remote)
		}
		if media(ctype) != t[10] {
			return "oracle-mismatch media " + media(ctype)
		}
		req := httptest.NewRequest(method, "http://node.invalid/", bytes.NewReader([]byte(`{"jsonrpc":"2.0","id":1,"method":"verif-no-such-method","params":{}}`)))
		req.RemoteAddr = remote
		if ctype != "" {
			req.Header.Set("Content-Type", ctype)
		}
		if len(auth) > 0 {
			req.Header["Authorization"] = auth
		}
		// optional trailing token hdr=<name>:<value>,… (hex): headers a client can set freely — none of them may
		// change who the client is
		if len(t) > 11 && strings.HasPrefix(t[11], "hdr=") {
			for _, h := range strings.Split(t[11][4:], ",") {
				nv := strings.SplitN(h, ":", 2)
				req.Header.Add(us(nv[0]), us(nv[1]))
			}
		}
		rec := httptest.NewRecorder()
		switch t[1] {
		case "A":
			config.Parameters = &config.Configuration{RpcConfiguration: config.RpcConfiguration{User: user, Pass: pass, WhiteIPList: wl}}
			httpjsonrpc.Handle(rec, req)
		case "B":
			s := jsonrpc.NewServer(&jsonrpc.Config{ServePort: 1, User: user, Pass: pass, WhiteList: wl})
			s.ServeHTTP(rec, req)
		default:
			panic("harness: unknown server " + t[1])
		}
		// the dispatcher's answer in the body means the request was served — whatever the status line says
		reached := strings.Contains(rec.Body.String(), "verif-no-such-method not found")
		if rec.Code == 200 {
			if reached {
				return "served"
			}
			return "200-unexpected-body"
		}
		if reached {
			return fmt.Sprintf("%d-but-served", rec.Code)
		}
		return fmt.Sprint(rec.Code)
	case "gate":
		h, ok := handlers[t[1]]
		if !ok {
			panic("harness: unknown method " + t[1])
		}
		servers.ChainParams = &config.Configuration{RPCServiceLevel: us(t[2])}
		params := servers.Params{}
		if len(t) > 3 { // optional parameters: hex of a JSON object
			if err := json.Unmarshal(hx.UnHex(t[3]), &params); err != nil {
				panic("harness: bad params " + err.Error())
			}
			servers.Pow = new(pow.Service) // not started: Halt() returns at once
		}
		res, panicked := callHandler(h, params)
		if !panicked && fmt.Sprint(res["Result"]) == "requesting method if out of service level" {
			return "refused"
		}
		return "ran"
	}
	panic("harness: unknown op " + t[0])
}

// ---------------------------------------------------------------- oracle (from the property text)

var privileged = map[string]string{ // method ↦ the lowest-numbered configured level name that must refuse it … expressed by rank
	"setloglevel": "ConfigurationPermitted", "togglemining": "ConfigurationPermitted",
	"createauxblock": "MiningPermitted", "submitauxblock": "MiningPermitted", "discretemining": "MiningPermitted",
	"sendrawtransaction": "TransactionPermitted", "submitsidechainillegaldata": "TransactionPermitted", "estimatesmartfee": "TransactionPermitted",
	"getamountbyinputs": "WalletPermitted", "getutxosbyamount": "WalletPermitted", "listunspent": "WalletPermitted",
	"createrawtransaction": "WalletPermitted", "decoderawtransaction": "WalletPermitted", "signrawtransactionwithkey": "WalletPermitted",
}
var rank = map[string]int{"ConfigurationPermitted": 0, "MiningPermitted": 1, "TransactionPermitted": 2, "WalletPermitted": 3, "QueryOnly": 4}

func oracle(t []string, out string) *hx.Violation {
	switch t[0] {
	case "http":
		if !strings.HasSuffix(out, "served") {
			return nil
		}
		remote, wl, user, pass, auth := us(t[2]), list(t[4]), us(t[5]), us(t[6]), list(t[7])
		allowed := false
		if host, _, err := net.SplitHostPort(remote); err == nil {
			if ip := net.ParseIP(host); ip != nil {
				if ip.IsLoopback() {
					allowed = true
				}
				for _, w := range wl {
					// a white-list entry stands for the address it denotes; 0.0.0.0 is the documented wildcard
					if w == "0.0.0.0" {
						allowed = true
					} else if wip := net.ParseIP(w); wip != nil && wip.Equal(ip) {
						allowed = true
					}
				}
			}
		}
		if !allowed {
			return &hx.Violation{Kind: "served-client-not-whitelisted",
				Detail: fmt.Sprintf("server %s served %q with white list %q", t[1], remote, wl)}
		}
		if user != "" || pass != "" {
			want := "Basic " + base64.StdEncoding.EncodeToString([]byte(user+":"+pass))
			if len(auth) == 0 || auth[0] != want {
				return &hx.Violation{Kind: "served-without-exact-credentials",
					Detail: fmt.Sprintf("server %s served Authorization %q, configured %q:%q", t[1], auth, user, pass)}
			}
		}
	case "gate":
		need, ok := privileged[t[1]]
		cfg, known := rank[us(t[2])]
		if ok && known && rank[need] < cfg && out == "ran" {
			return &hx.Violation{Kind: "privileged-method-ran-above-service-level",
				Detail: fmt.Sprintf("%s (needs %s) ran with RPCServiceLevel %s", t[1], need, us(t[2]))}
		}
	}
	return nil
}

// ---------------------------------------------------------------- generator

func gen(g *hx.Gen) {
	remotes := []string{"127.0.0.1:1234", "127.0.0.2:80", "127.255.255.254:1", "[::1]:9", "10.0.0.7:5", "[::ffff:127.0.0.1]:80",
		"[::ffff:10.0.0.7]:1", "[2001:db8::1]:443", "[2001:0db8:0:0:0:0:0:1]:443", "10.0.0.7", "10.0.0.7:", "010.0.0.7:1",
		"localhost:80", "", "[fe80::1%eth0]:80", "1.2.3.4:5:6", "0.0.0.0:1", "[::]:1", "128.0.0.1:1", "[::ffff:7f00:1]:2",
		"[fe80::1]:80", "[::ffff:192.168.1.1]:1", "[64:ff9b::a00:7]:1", "[2001:db8::2]:443", "192.168.1.1:9"}
	wls := [][]string{nil, {"0.0.0.0"}, {"10.0.0.7"}, {"10.0.0.8"}, {"10.0.0.07"}, {"2001:db8::1"}, {"2001:0db8::1"},
		{"::ffff:10.0.0.7"}, {"127.0.0.1"}, {" 10.0.0.7"}, {"10.0.0.8", "10.0.0.7"}, {"10.0.0.8", "0.0.0.0"}, {""}, {"::"}, {"128.0.0.1", "::1"},
		{"::1"}, {"fe80::1"}, {"192.168.1.1"}, {"::ffff:192.168.1.1"}, {"2001:db8::1", "10.0.0.7"}, {"not-an-ip"}, {"2001:db8::2", "::"}}
	// empty/empty = auth off; equal non-empty user and password (a common set-up) must still authenticate;
	// one side empty; a colon inside; non-ASCII
	creds := [][2]string{{"", ""}, {"u", "p"}, {"admin", "admin"}, {"user", "pass:word"}, {"", "x"}, {"x", ""}, {"a", "a"}, {"üser", "pä55"}, {":", ":"}}
	mkAuth := func(u, p string) [][]string {
		exact := "Basic " + base64.StdEncoding.EncodeToString([]byte(u+":"+p))
		return [][]string{nil, {exact}, {exact + " "}, {"basic " + exact[6:]}, {"Basic " + base64.StdEncoding.EncodeToString([]byte(u+":"+p+"x"))},
			{"Basic dTpw", exact}, {exact, "Basic dTpw"}, {strings.TrimRight(exact, "=")}, {""}, {"Bearer " + exact[6:]}, {" " + exact}}
	}
	emit := func(srv, remote string, wl []string, c [2]string, auth []string, method, ctype string) {
		g.Emit("http %s %s %s %s %s %s %s %s %s %s", srv, hs(remote), parse(remote), fmtList(wl), hs(c[0]), hs(c[1]), fmtList(auth), method, hs(ctype), media(ctype))
	}
	for _, srv := range []string{"A", "B"} {
		for _, remote := range remotes {
			for _, wl := range wls {
				for _, c := range creds {
					for _, a := range mkAuth(c[0], c[1]) {
						emit(srv, remote, wl, c, a, "POST", "application/json")
					}
				}
			}
		}
		// order of the checks: method and content type against allowed / refused clients and good / bad credentials
		for _, remote := range []string{"127.0.0.1:1", "10.0.0.7:5", "10.0.0.9:5"} {
			for _, method := range []string{"POST", "GET", "PUT", "OPTIONS"} {
				for _, ctype := range []string{"application/json", "text/plain", "application/json; charset=utf-8", "text/html", "", "APPLICATION/JSON", "application/json;;", "text/plain; x"} {
					for _, c := range creds[:4] {
						for _, a := range mkAuth(c[0], c[1])[:3] {
							emit(srv, remote, []string{"10.0.0.7"}, c, a, method, ctype)
						}
					}
				}
			}
		}
	}
	// client-controlled headers that name another address: the TCP peer address alone decides
	spoof := [][2]string{{"X-Real-IP", "127.0.0.1"}, {"X-Real-IP", "10.0.0.8"}, {"X-Real-Ip", "::1"}, {"X-Forwarded-For", "127.0.0.1"},
		{"X-Forwarded-For", "10.0.0.8, 10.0.0.7"}, {"Forwarded", "for=127.0.0.1"}, {"Client-IP", "127.0.0.1"}, {"True-Client-IP", "10.0.0.8"},
		{"X-Client-IP", "127.0.0.1"}, {"X-Remote-Addr", "127.0.0.1:80"}, {"Host", "localhost"}}
	for _, srv := range []string{"A", "B"} {
		for _, remote := range []string{"10.0.0.7:5", "[2001:db8::2]:443", "127.0.0.1:9", "10.0.0.8:1"} {
			for _, wl := range [][]string{nil, {"10.0.0.8"}} {
				for _, h := range spoof {
					g.Emit("http %s %s %s %s - - - POST %s %s hdr=%s:%s", srv, hs(remote), parse(remote), fmtList(wl), hs("application/json"), media("application/json"), hs(h[0]), hs(h[1]))
				}
			}
		}
	}
	// random addresses against random white lists
	rip := func() string {
		switch g.R.Intn(6) {
		case 0:
			return fmt.Sprintf("127.%d.%d.%d", g.R.Intn(256), g.R.Intn(256), g.R.Intn(256))
		case 1:
			return fmt.Sprintf("10.0.0.%d", g.R.Intn(4))
		case 2:
			return fmt.Sprintf("2001:db8::%x", g.R.Intn(4))
		case 3:
			return fmt.Sprintf("::ffff:10.0.0.%d", g.R.Intn(4))
		case 4:
			return fmt.Sprintf("%d.%d.%d.%d", g.R.Intn(256), g.R.Intn(256), g.R.Intn(256), g.R.Intn(256))
		}
		return fmt.Sprintf("2001:0db8:0000::%04x", g.R.Intn(4))
	}
	for i := 0; i < g.N(4000, 60000); i++ {
		ip := rip()
		remote := ip + ":" + fmt.Sprint(g.R.Intn(65536))
		if strings.Contains(ip, ":") {
			remote = "[" + ip + "]:" + fmt.Sprint(g.R.Intn(65536))
		}
		var wl []string
		for j := g.R.Intn(4); j > 0; j-- {
			w := rip()
			if g.R.Chance(10) {
				w = "0.0.0.0"
			}
			wl = append(wl, w)
		}
		c := creds[g.R.Intn(len(creds))]
		as := mkAuth(c[0], c[1])
		emit([]string{"A", "B"}[g.R.Intn(2)], remote, wl, c, as[g.R.Intn(len(as))], "POST", "application/json")
	}

	// ---- service level gate: every handler we can name × every level string
	levels := []string{"ConfigurationPermitted", "MiningPermitted", "TransactionPermitted", "WalletPermitted", "QueryOnly",
		"", "queryonly", "QUERYONLY", "QueryOnly ", "Unknown", "4", "WalletPermitted2"}
	var methods []string
	for m := range handlers {
		methods = append(methods, m)
	}
	// deterministic order
	for i := range methods {
		for j := i + 1; j < len(methods); j++ {
			if methods[j] < methods[i] {
				methods[i], methods[j] = methods[j], methods[i]
			}
		}
	}
	for _, m := range methods {
		for _, l := range levels {
			g.Emit("gate %s %s", m, hs(l))
		}
	}
	// with arguments that take the handler past its parameter parsing (only where that is harmless in a harness)
	for _, l := range levels {
		g.Emit("gate togglemining %s %s", hs(l), hs(`{"mining":false}`))
		g.Emit("gate estimatesmartfee %s %s", hs(l), hs(`{"confirmations":3}`))
		g.Emit("gate help %s %s", hs(l), hs(`{"x":1}`))
	}
}

func nontrivial(t []string, out string) bool {
	if t[0] == "http" {
		return t[3] != "none" // the address parsed: the filter had to decide
	}
	return true
}

func bucket(t []string, out string) string { return t[0] + "/" + out }

func main() {
	hx.Main(&hx.Prop{Name: "C36", Gen: gen, Exec: exec, Oracle: oracle, Nontrivial: nontrivial, Bucket: bucket})
}
