// Harness for C13: ChainStore.SaveBlock / RollbackBlock on a real ffldb
// against the Lean index model (lean/ElaVerif/Model/Index.lean).
//
// ops (stateful; a history starts at `reset`):
//
//	reset                     fresh node-in-a-process (regnet), genesis indexed by chain.Init
//	init <genesis block>      the model indexes the genesis block (Go checks the description)
//	save  <block>             real ChainStore.SaveBlock          → ok | err | panic
//	savex <block>             same, block built invalid on purpose (not judged by the oracle)
//	rollback <block>          real ChainStore.RollbackBlock      → ok | err | panic
//	obs <q>*                  u<txid> GetUnspent (stored order), a<addr> GetUTXO (returned order),
//	                          t<txid> GetTransaction, x<h> IsTx3Exist, r<h> IsSideChainReturnDepositExist,
//	                          d<h> GetProposalDraftDataByDraftHash
//
// <block> is the complete specification regnet.Describe prints; Exec rebuilds the real block from it.
package main

import (
	"encoding/hex"
	"fmt"
	"os"
	"path/filepath"
	"sort"
	"strconv"
	"strings"
	"time"

	"elaverif/harness/hx"
	"elaverif/harness/regnet"

	"github.com/elastos/Elastos.ELA/blockchain"
	"github.com/elastos/Elastos.ELA/blockchain/indexers"
	"github.com/elastos/Elastos.ELA/common"
	"github.com/elastos/Elastos.ELA/common/config"
	"github.com/elastos/Elastos.ELA/core/types"
	"github.com/elastos/Elastos.ELA/database/ffldb"
)

var (
	node    *regnet.Node
	nodeDir string
	nodeSeq int
	bnodes  map[string]*blockchain.BlockNode
	// oracle bookkeeping
	hashes   map[string]bool // every payload hash seen in this history
	snapshot map[string]map[string]string
	pending  *hx.Violation
)

func tmpBase() string {
	d := os.Getenv("TMPDIR")
	if d == "" {
		d = "/var/tmp"
	}
	return d
}

// memoryFirst: the node of the current history runs with MemoryFirst (JSON "NodeProfileStrategy"), in which
// the indexed-transaction cache in front of the tx index is switched off
var memoryFirst bool

func reset() {
	if node != nil {
		node.Close()
		os.RemoveAll(nodeDir)
	}
	nodeSeq++
	nodeDir = filepath.Join(tmpBase(), fmt.Sprintf("c13-%d-%d", os.Getpid(), nodeSeq))
	os.RemoveAll(nodeDir)
	mf := memoryFirst
	n, err := regnet.NewNode(nodeDir, regnet.Options{CoinbaseMaturity: 1, Tweak: func(p *config.Configuration) { p.MemoryFirst = mf }})
	if err != nil {
		panic("harness: new node: " + err.Error())
	}
	node = n
	bnodes = map[string]*blockchain.BlockNode{regnet.ID(n.Genesis.Hash()): n.Chain.GetBestChain()}
	hashes = map[string]bool{}
	snapshot = map[string]map[string]string{}
}

func padU256(id string) common.Uint256 { return regnet.PadHash(id) }

func obs1(q string) string {
	k, id := q[0], q[1:]
	ff := node.Store.GetFFLDB()
	switch k {
	case 'u':
		var h common.Uint256
		if tx := node.TxByID(id); tx != nil {
			h = tx.Hash()
		} else {
			h = padU256(id)
		}
		l, err := ff.GetUnspent(h)
		if err != nil {
			return "err"
		}
		if len(l) == 0 {
			return "-"
		}
		s := make([]string, len(l))
		for i, x := range l {
			s[i] = strconv.Itoa(int(x))
		}
		return strings.Join(s, ",")
	case 'a':
		no, _ := strconv.ParseInt(id, 16, 64)
		ph := node.Addr(int(no))
		us, err := ff.GetUTXO(&ph)
		if err != nil {
			return "err"
		}
		if len(us) == 0 {
			return "-"
		}
		s := make([]string, len(us))
		for i, u := range us {
			v, _ := strconv.ParseUint(regnet.ID(u.TxID), 16, 64)
			s[i] = fmt.Sprintf("%x:%d:%d", v, u.Index, int64(u.Value))
		}
		return strings.Join(s, ",")
	case 't':
		tx := node.TxByID(id)
		if tx == nil {
			return "none"
		}
		got, h, err := ff.GetTransaction(tx.Hash())
		if err != nil {
			return "none"
		}
		return fmt.Sprintf("%d/%d", h, len(got.Outputs()))
	case 'x':
		h := padU256(id)
		return strconv.FormatBool(ff.IsTx3Exist(&h))
	case 'r':
		h := padU256(id)
		return strconv.FormatBool(ff.IsSideChainReturnDepositExist(&h))
	case 'd':
		h := padU256(id)
		d, err := ff.GetProposalDraftDataByDraftHash(&h)
		if err != nil {
			return "none"
		}
		if len(d) == 0 {
			return "-"
		}
		return hex.EncodeToString(d)
	}
	return "bad"
}

// fullObs is the canonical (order-free) observation of every key the history has touched.
func fullObs() map[string]string {
	m := map[string]string{}
	for _, id := range node.TxIDs() {
		u := strings.Split(obs1("u"+id), ",")
		sort.Strings(u)
		m["u"+id] = strings.Join(u, ",")
		m["t"+id] = obs1("t" + id)
	}
	for a := 0; a <= regnet.NumUsers; a++ {
		u := strings.Split(obs1(fmt.Sprintf("a%x", a)), ",")
		sort.Strings(u)
		m[fmt.Sprintf("a%d", a)] = strings.Join(u, ",")
	}
	for h := range hashes {
		m["x"+h] = obs1("x" + h)
		m["r"+h] = obs1("r" + h)
		m["d"+h] = obs1("d" + h)
	}
	return m
}

func noteHashes(bs *regnet.BlockSpec) {
	for _, tx := range bs.Txs {
		for _, h := range tx.PHashes {
			hashes[h] = true
		}
		for _, o := range tx.Outs {
			if o.Pay != "-" {
				hashes[o.Pay[1:]] = true
			}
		}
	}
}

func mustBlock(toks []string) (*regnet.BlockSpec, *types.Block) {
	bs, err := regnet.ParseBlock(toks)
	if err != nil {
		panic("harness: bad block spec: " + err.Error())
	}
	blk, err := node.Build(bs, true)
	if err != nil {
		panic("harness: " + err.Error())
	}
	return bs, blk
}

func exec(t []string) string {
	pending = nil
	switch t[0] {
	case "reset":
		memoryFirst = false
		reset()
		return "ok"
	case "mode": // mode m: a fresh node in memory-first configuration (right after reset)
		memoryFirst = t[1] == "m"
		reset()
		return "ok"
	case "fpol": // fpol d|c: every ffldb commit from now on takes the flush-then-write-through path / the cached path
		db := blockchain.VerifDB(node.Store.GetFFLDB())
		if t[1] == "d" {
			ffldb.VerifSetCache(db, 100<<20, 0)
		} else {
			ffldb.VerifSetCache(db, 100<<20, time.Hour)
		}
		return "ok"
	case "flush": // the write-back cache goes to leveldb now (as after 5 minutes or 20 MB)
		if err := ffldb.VerifFlush(blockchain.VerifDB(node.Store.GetFFLDB())); err != nil {
			return "err"
		}
		return "ok"
	case "init":
		if strings.Join(t[1:], " ") != node.Describe(node.Genesis) {
			return "bad-genesis"
		}
		return "ok"
	case "save", "savex":
		bs, blk := mustBlock(t[1:])
		noteHashes(bs)
		h := blk.Hash()
		bn := blockchain.NewBlockNode(&blk.Header, &h)
		bn.Parent = bnodes[bs.Prev]
		if t[0] == "save" {
			snapshot[bs.ID] = fullObs()
		}
		err := node.Store.SaveBlock(blk, bn, nil, time.Unix(int64(blk.Timestamp), 0))
		if err != nil {
			delete(snapshot, bs.ID)
			return "err"
		}
		bnodes[bs.ID] = bn
		return "ok"
	case "rollback":
		bs, blk := mustBlock(t[1:])
		bn := bnodes[bs.ID]
		if bn == nil {
			h := blk.Hash()
			bn = blockchain.NewBlockNode(&blk.Header, &h)
			bn.Parent = bnodes[bs.Prev]
		}
		err := node.Store.RollbackBlock(blk, bn, nil, time.Unix(int64(blk.Timestamp), 0))
		if err != nil {
			return "err"
		}
		// property, judged on the implementation alone: the observation of every key is what it
		// was before this block was saved
		if before, ok := snapshot[bs.ID]; ok {
			if d := firstDiff(before, fullObs()); d != "" {
				pending = &hx.Violation{Kind: "rollback-not-inverse",
					Detail: "observations before SaveBlock and after RollbackBlock differ: " + d}
			}
			delete(snapshot, bs.ID)
		}
		return "ok"
	case "codec", "decode":
		var res []uint16
		var err error
		if t[0] == "codec" {
			l := make([]uint16, len(t)-1)
			for i, x := range t[1:] {
				v, e := strconv.ParseUint(x, 10, 16)
				if e != nil {
					panic("harness: bad index " + x)
				}
				l[i] = uint16(v)
			}
			res, err = indexers.VerifUint16Codec(l)
		} else {
			b := make([]byte, len(t)-1)
			for i, x := range t[1:] {
				v, e := strconv.ParseUint(x, 10, 8)
				if e != nil {
					panic("harness: bad byte " + x)
				}
				b[i] = byte(v)
			}
			res, err = indexers.VerifUint16Decode(b)
		}
		if err != nil {
			return "err"
		}
		if len(res) == 0 {
			return "-"
		}
		ss := make([]string, len(res))
		for i, x := range res {
			ss[i] = strconv.Itoa(int(x))
		}
		// property, judged on the implementation alone: what was stored is what is read back
		if t[0] == "codec" && strings.Join(ss, " ") != strings.Join(t[1:], " ") {
			pending = &hx.Violation{Kind: "unspent-list-codec-not-identity", Detail: "read back " + strings.Join(ss, ",")}
		}
		return strings.Join(ss, ",")
	case "obs":
		out := make([]string, len(t)-1)
		for i, q := range t[1:] {
			out[i] = obs1(q)
		}
		return strings.Join(out, " ")
	}
	panic("harness: unknown op " + t[0])
}

// firstDiff compares the two observations on the keys of `before` (keys that did not exist
// then are new transactions / hashes of this very block; before the block they read as
// absent, so they must read as absent again).
func firstDiff(before, after map[string]string) string {
	keys := make([]string, 0, len(after))
	for k := range after {
		keys = append(keys, k)
	}
	sort.Strings(keys)
	for _, k := range keys {
		want, ok := before[k]
		if !ok {
			switch k[0] {
			case 'u', 'a':
				want = "-"
			case 't', 'd':
				want = "none"
			default:
				want = "false"
			}
		}
		if after[k] != want {
			return k + ": " + want + " -> " + after[k]
		}
	}
	return ""
}

func oracle(t []string, out string) *hx.Violation { return pending }

func nontrivial(t []string, out string) bool { return t[0] == "rollback" && out == "ok" }

// ---------------------------------------------------------------- generator

type utxo struct {
	id    string
	idx   int
	addr  int
	value int64
}

type hist struct {
	g     *hx.Gen
	chain []*regnet.BlockSpec // saved blocks above genesis
	nonce uint64
	hcnt  uint64
}

func (h *hist) freshHash() string {
	h.hcnt++
	return fmt.Sprintf("%016x", h.g.R.U64()|1)
}

func (h *hist) nextNonce() string {
	h.nonce++
	return fmt.Sprintf("%016x", h.nonce)
}

// avail replays the saved chain (harness-side bookkeeping only used to pick inputs).
func (h *hist) avail() []utxo {
	var av []utxo
	g := node.Genesis.Transactions[0]
	av = append(av, utxo{regnet.ID(g.Hash()), 0, 0, int64(g.Outputs()[0].Value)})
	for _, b := range h.chain {
		for _, tx := range b.Txs {
			if tx.Kind != "cb" {
				for _, in := range tx.Ins {
					for k := range av {
						if av[k].id == in.TxID && av[k].idx == int(in.Index) {
							av = append(av[:k], av[k+1:]...)
							break
						}
					}
				}
			}
			for i, o := range tx.Outs {
				av = append(av, utxo{tx.ID, i, o.Addr, o.Value})
			}
		}
	}
	return av
}

func (h *hist) data() string {
	r := h.g.R
	if r.Chance(10) {
		return "-"
	}
	return hex.EncodeToString(r.Bytes(1 + r.Intn(6)))
}

func (h *hist) finishTx(ts *regnet.TxSpec, height uint32) {
	tx, err := node.BuildTx(ts, height)
	if err != nil {
		panic("harness: " + err.Error())
	}
	ts.ID = regnet.ID(tx.Hash())
}

func (h *hist) randomTx(av []utxo, used map[string]bool, height uint32) *regnet.TxSpec {
	r := h.g.R
	ts := &regnet.TxSpec{Kind: "ot", Nonce: h.nextNonce()}
	switch r.Intn(10) {
	case 0, 1, 2, 3: // transfer
		nin := 1 + r.Intn(2)
		var total int64
		for i := 0; i < nin; i++ {
			for try := 0; try < 8 && len(av) > 0; try++ {
				u := av[r.Intn(len(av))]
				if i > 0 && len(ts.Ins) > 0 && r.Chance(60) {
					// a sibling output of the first input's transaction, when one is still unspent
					for _, w := range av {
						if w.id == ts.Ins[0].TxID && !used[fmt.Sprintf("%s:%d", w.id, w.idx)] {
							u = w
							break
						}
					}
				}
				k := fmt.Sprintf("%s:%d", u.id, u.idx)
				if used[k] {
					continue
				}
				used[k] = true
				ts.Ins = append(ts.Ins, regnet.InSpec{TxID: u.id, Index: uint16(u.idx)})
				total += u.value
				break
			}
		}
		if len(ts.Ins) == 0 {
			return nil
		}
		nout := 1 + r.Intn(3)
		for i := 0; i < nout; i++ {
			v := total / int64(nout+1)
			if r.Chance(12) {
				v = 0
			}
			ts.Outs = append(ts.Outs, regnet.OutSpec{Addr: r.Intn(regnet.NumUsers + 1), Value: v, Pay: "-"})
		}
	case 4, 5, 6: // withdrawal, payload v0 / v1 / v2
		ts.Kind = "wd"
		ts.PVer = byte(r.Intn(3))
		nh := 1 + r.Intn(2)
		for i := 0; i < nh; i++ {
			if ts.PVer == 0 {
				ts.PHashes = append(ts.PHashes, h.freshHash())
				ts.Outs = append(ts.Outs, regnet.OutSpec{Addr: 1 + r.Intn(4), Value: int64(r.Pick(0, 1, 7, 7, 1000)), Pay: "-"})
			} else {
				ts.Outs = append(ts.Outs, regnet.OutSpec{Addr: 1 + r.Intn(4), Value: int64(r.Pick(0, 1, 7, 7, 1000)), Pay: "W" + h.freshHash()})
			}
		}
		if ts.PVer != 0 && r.Chance(30) {
			ts.Outs = append(ts.Outs, regnet.OutSpec{Addr: 2, Value: 3, Pay: "-"})
		}
	case 7: // return of a side-chain deposit
		ts.Kind = "rd"
		// the returned amount is deposit - fee: exactly 0 when the failed deposit equalled the return fee
		for i := 0; i < 1+r.Intn(2); i++ {
			ts.Outs = append(ts.Outs, regnet.OutSpec{Addr: 1 + r.Intn(4), Value: int64(r.Pick(0, 0, 1, 9, 9, 1000)), Pay: "R" + h.freshHash()})
		}
		if r.Bool() {
			ts.Outs = append(ts.Outs, regnet.OutSpec{Addr: 3, Value: 1, Pay: "-"})
		}
	case 8: // proposal / review with draft data
		ts.Kind = []string{"pp", "rv"}[r.Intn(2)]
		ts.PVer = byte(r.Intn(2)) // legacy payload version 0 carries the hash only (no data on the wire)
		ts.PHashes = []string{h.freshHash()}
		ts.PDatas = []string{h.data()}
		if ts.PVer == 0 {
			ts.PDatas = []string{"-"}
		}
	case 9:
		ts.Kind = "tk"
		ts.PVer = byte(r.Intn(2))
		ts.PHashes = []string{h.freshHash(), h.freshHash()}
		ts.PDatas = []string{h.data(), h.data()}
		if ts.PVer == 0 {
			ts.PDatas = []string{"-", "-"}
		}
	}
	h.finishTx(ts, height)
	return ts
}

func (h *hist) tipID() (string, uint32) {
	if len(h.chain) == 0 {
		return regnet.ID(node.Genesis.Hash()), 0
	}
	b := h.chain[len(h.chain)-1]
	return b.ID, b.Height
}

func (h *hist) newBlock(prev string, height uint32, txs []*regnet.TxSpec) *regnet.BlockSpec {
	r := h.g.R
	cb := &regnet.TxSpec{Kind: "cb", Nonce: h.nextNonce(),
		Outs: []regnet.OutSpec{{Addr: 0, Value: 300, Pay: "-"}, {Addr: r.Intn(regnet.NumUsers + 1), Value: 350, Pay: "-"}, {Addr: 0, Value: 351, Pay: "-"}}}
	h.finishTx(cb, height)
	bs := &regnet.BlockSpec{Prev: prev, Height: height, Txs: []regnet.TxSpec{*cb}}
	for _, t := range txs {
		bs.Txs = append(bs.Txs, *t)
	}
	blk, err := node.Build(bs, false)
	if err != nil {
		panic("harness: " + err.Error())
	}
	bs.ID = regnet.ID(blk.Hash())
	return bs
}

func describe(bs *regnet.BlockSpec) string { return node.Describe(node.ByID(bs.ID)) }

func (h *hist) observe() {
	r := h.g.R
	qs := map[string]bool{}
	for a := 0; a <= regnet.NumUsers; a++ {
		qs[fmt.Sprintf("a%x", a)] = true
	}
	ids := node.TxIDs()
	sort.Strings(ids)
	for _, id := range ids {
		if len(ids) < 40 || r.Chance(40) {
			qs["u"+id] = true
			qs["t"+id] = true
		}
	}
	for hs := range hashes {
		qs["x"+hs] = true
		qs["r"+hs] = true
		qs["d"+hs] = true
	}
	var l []string
	for q := range qs {
		l = append(l, q)
	}
	sort.Strings(l)
	h.g.Emit("obs %s", strings.Join(l, " "))
}

// codecOps: lists of output indexes through the stored form and back — boundary values of both bytes,
// random lists, and raw byte strings (odd lengths are an error)
func codecOps(g *hx.Gen) {
	r := g.R
	g.Emit("reset")
	g.Emit("codec 0 1 255 256 257 261 511 512 4095 4096 65279 65280 65534 65535")
	for i := 0; i < g.N(60, 600); i++ {
		n := 1 + r.Intn(12)
		xs := make([]string, n)
		for k := range xs {
			v := r.Intn(65536)
			switch r.Intn(4) {
			case 0:
				v = r.Intn(300)
			case 1:
				v = 256*r.Intn(256) + r.Pick(0, 1, 255)
			}
			xs[k] = strconv.Itoa(v)
		}
		g.Emit("codec %s", strings.Join(xs, " "))
	}
	for i := 0; i < g.N(30, 300); i++ {
		n := r.Intn(9)
		xs := make([]string, n)
		for k := range xs {
			xs[k] = strconv.Itoa(r.Intn(256))
		}
		if n == 0 {
			continue
		}
		g.Emit("decode %s", strings.Join(xs, " "))
	}
}

func gen(g *hx.Gen) {
	codecOps(g)
	nh := g.N(40, 400)
	for i := 0; i < nh; i++ {
		oneHistory(g, g.N(14, 30))
	}
	if node != nil {
		node.Close()
		os.RemoveAll(nodeDir)
	}
}

func oneHistory(g *hx.Gen, steps int) {
	r := g.R
	g.Emit("reset")
	if r.Chance(25) {
		g.Emit("mode m")
	}
	g.Emit("init %s", node.Describe(node.Genesis))
	h := &hist{g: g}
	flushy := r.Chance(40) // this history plays with the write-back cache of ffldb
	for s := 0; s < steps; s++ {
		if flushy {
			switch r.Intn(6) {
			case 0:
				g.Emit("flush")
			case 1:
				g.Emit("fpol d")
			case 2:
				g.Emit("fpol c")
			}
		}
		tip, th := h.tipID()
		c := r.Intn(100)
		switch {
		case c < 55: // valid block on the tip
			av := h.avail()
			used := map[string]bool{}
			var txs []*regnet.TxSpec
			for k := r.Intn(5); k > 0; k-- {
				if t := h.randomTx(av, used, th+1); t != nil {
					txs = append(txs, t)
				}
			}
			bs := h.newBlock(tip, th+1, txs)
			if g.Emit("save %s", describe(bs)) == "ok" {
				h.chain = append(h.chain, bs)
			}
		case c < 82: // roll the tip back, sometimes put it (or a sibling) back
			if len(h.chain) == 0 {
				continue
			}
			b := h.chain[len(h.chain)-1]
			if g.Emit("rollback %s", describe(b)) != "ok" {
				return
			}
			h.chain = h.chain[:len(h.chain)-1]
			h.observe()
			if r.Chance(50) {
				if g.Emit("save %s", describe(b)) == "ok" {
					h.chain = append(h.chain, b)
				}
			}
		case c < 86: // one address gets a non-zero and a zero-value output in one block; the next block spends both
			av := h.avail()
			var src *utxo
			for k := range av {
				if av[k].value > 1000 {
					src = &av[k]
					break
				}
			}
			if src == nil {
				continue
			}
			a := 1 + r.Intn(4)
			t1 := &regnet.TxSpec{Kind: "ot", Nonce: h.nextNonce(), Ins: []regnet.InSpec{{TxID: src.id, Index: uint16(src.idx)}},
				Outs: []regnet.OutSpec{{Addr: a, Value: src.value / 2, Pay: "-"}, {Addr: a, Value: 0, Pay: "-"}, {Addr: 0, Value: src.value / 3, Pay: "-"}}}
			h.finishTx(t1, th+1)
			b1 := h.newBlock(tip, th+1, []*regnet.TxSpec{t1})
			if g.Emit("save %s", describe(b1)) != "ok" {
				continue
			}
			h.chain = append(h.chain, b1)
			h.observe()
			ins := []regnet.InSpec{{TxID: t1.ID, Index: 0}, {TxID: t1.ID, Index: 1}}
			if r.Bool() {
				ins[0], ins[1] = ins[1], ins[0]
			}
			t2 := &regnet.TxSpec{Kind: "ot", Nonce: h.nextNonce(), Ins: ins,
				Outs: []regnet.OutSpec{{Addr: 1 + r.Intn(4), Value: src.value / 4, Pay: "-"}}}
			h.finishTx(t2, th+2)
			b2 := h.newBlock(b1.ID, th+2, []*regnet.TxSpec{t2})
			if g.Emit("save %s", describe(b2)) == "ok" {
				h.chain = append(h.chain, b2)
				h.observe()
				if r.Chance(70) && g.Emit("rollback %s", describe(b2)) == "ok" {
					h.chain = h.chain[:len(h.chain)-1]
				}
			}
		default: // invalid requests
			kind := r.Intn(7)
			if memoryFirst && kind >= 3 {
				// on a memory-first node the indexed-transaction cache is off and the utxo index resolves a spent
				// output through the database, where the transactions of the block being saved are not yet: blocks
				// that spend their own outputs (only buildable on purpose, never valid) fail there but not on a
				// default node. The model follows the default configuration, so these requests stay out.
				kind = r.Intn(3)
			}
			switch kind {
			case 0: // roll back a block that is not the tip
				if len(h.chain) >= 2 {
					g.Emit("rollback %s", describe(h.chain[r.Intn(len(h.chain)-1)]))
				}
			case 1: // height not above the current height
				bs := h.newBlock(tip, th, nil)
				g.Emit("savex %s", describe(bs))
			case 2: // does not extend the index tip
				if len(h.chain) >= 1 {
					prev := regnet.ID(node.Genesis.Hash())
					if len(h.chain) >= 2 {
						prev = h.chain[r.Intn(len(h.chain)-1)].ID
					}
					bs := h.newBlock(prev, th+1, nil)
					g.Emit("savex %s", describe(bs))
				}
			case 3: // spends an outpoint nobody created: the unspent index refuses
				ts := &regnet.TxSpec{Kind: "ot", Nonce: h.nextNonce(), Ins: []regnet.InSpec{{TxID: h.freshHash(), Index: 0}},
					Outs: []regnet.OutSpec{{Addr: 1, Value: 5, Pay: "-"}}}
				h.finishTx(ts, th+1)
				// (no observation afterwards: the failed SaveBlock leaves the block's transactions in
				// the in-memory TxCache, so GetTransaction would report them — cache behaviour, C15)
				g.Emit("savex %s", describe(h.newBlock(tip, th+1, []*regnet.TxSpec{ts})))
				return
			case 4: // the same outpoint spent twice inside one block
				av := h.avail()
				u := av[r.Intn(len(av))]
				var txs []*regnet.TxSpec
				for k := 0; k < 2; k++ {
					ts := &regnet.TxSpec{Kind: "ot", Nonce: h.nextNonce(), Ins: []regnet.InSpec{{TxID: u.id, Index: uint16(u.idx)}},
						Outs: []regnet.OutSpec{{Addr: 1 + k, Value: u.value / 2, Pay: "-"}}}
					h.finishTx(ts, th+1)
					txs = append(txs, ts)
				}
				bs := h.newBlock(tip, th+1, txs)
				if g.Emit("savex %s", describe(bs)) == "ok" {
					h.chain = append(h.chain, bs)
					h.observe()
					g.Emit("rollback %s", describe(bs))
					h.observe()
				}
				return
			case 5: // spends an output created earlier in the same block
				av := h.avail()
				u := av[r.Intn(len(av))]
				t1 := &regnet.TxSpec{Kind: "ot", Nonce: h.nextNonce(), Ins: []regnet.InSpec{{TxID: u.id, Index: uint16(u.idx)}},
					Outs: []regnet.OutSpec{{Addr: 1, Value: u.value / 2, Pay: "-"}, {Addr: 2, Value: u.value / 3, Pay: "-"}}}
				h.finishTx(t1, th+1)
				t2 := &regnet.TxSpec{Kind: "ot", Nonce: h.nextNonce(), Ins: []regnet.InSpec{{TxID: t1.ID, Index: 1}},
					Outs: []regnet.OutSpec{{Addr: 3, Value: u.value / 4, Pay: "-"}}}
				// t1 must be registered before t2 can refer to it by short id
				h.newBlock(tip, th+1, []*regnet.TxSpec{t1})
				h.finishTx(t2, th+1)
				txs := []*regnet.TxSpec{t1, t2}
				if r.Bool() {
					txs = []*regnet.TxSpec{t2, t1}
				}
				bs := h.newBlock(tip, th+1, txs)
				if g.Emit("savex %s", describe(bs)) == "ok" {
					h.chain = append(h.chain, bs)
					h.observe()
					g.Emit("rollback %s", describe(bs))
				}
				h.observe()
				return
			case 6: // spends an output index the referenced transaction does not have
				av := h.avail()
				u := av[r.Intn(len(av))]
				ts := &regnet.TxSpec{Kind: "ot", Nonce: h.nextNonce(), Ins: []regnet.InSpec{{TxID: u.id, Index: 77}},
					Outs: []regnet.OutSpec{{Addr: 1, Value: 5, Pay: "-"}}}
				h.finishTx(ts, th+1)
				g.Emit("savex %s", describe(h.newBlock(tip, th+1, []*regnet.TxSpec{ts})))
				return
			}
		}
		h.observe()
	}
}

func main() {
	hx.Main(&hx.Prop{Name: "C13", Gen: gen, Exec: exec, Oracle: oracle, Nontrivial: nontrivial, Stateful: true,
		Bucket: func(t []string, out string) string {
			if t[0] == "obs" {
				return "obs"
			}
			return t[0] + "/" + out
		}})
}
