// Harness for C02: decoding untrusted bytes never panics and allocates at most a
// small multiple of the input length.
//
// Ops (see harness/wire): dec <schema> <pv> <hex> alloc=<n>, tx <hex> alloc=<n>,
// block <hex> alloc=<n>.  <n> is the number of bytes the REAL decoder allocated on
// this input (runtime.MemStats.TotalAlloc delta), measured when the op is
// generated and carried in the op line as an oracle value; the Lean driver
// compares it with the model's allocation meter, this harness's oracle compares a
// fresh measurement with K·len + C.  A recovered panic is the output `panic`.
package main

import (
	"bytes"
	"fmt"
	"os"
	"runtime"
	"strconv"
	"strings"
	"sync/atomic"
	"time"

	"elaverif/harness/hx"
	"elaverif/harness/wire"
)

// The property's bound as the oracle states it (independent of the model's
// constants): K bytes per input byte plus one maximal var-bytes buffer.
const (
	boundK = 600
	boundC = 40*1024*1024 + 64*1024
)

func decodeOnce(t []string, b []byte) {
	defer func() { recover() }()
	wire.DecodeOnly(t, b)
}

// measure runs the real decoder on the op (without alloc token) and returns the allocation.
func measure(t []string) uint64 {
	var best uint64 = 1 << 62
	b := hx.UnHex(t[len(t)-1])
	curOp.Store(strings.Join(t, " "))
	curStart.Store(time.Now().UnixNano())
	defer curStart.Store(0)
	// the minimum of two runs removes one-off runtime noise (GC bookkeeping, first-use tables)
	for i := 0; i < 2; i++ {
		m := wire.Measure(func() { decodeOnce(t, b) })
		if m < best {
			best = m
		}
	}
	return best
}

func inputLen(t []string) int {
	h := t[len(t)-1]
	if h == "-" {
		return 0
	}
	return len(h) / 2
}

func emit(g *hx.Gen, op string, b []byte) {
	t := append(strings.Fields(op), hx.Hex(b))
	g.Emit("%s %s alloc=%d", op, hx.Hex(b), measure(t))
}

// countAttack replaces every byte position that currently holds a plausible
// small count by a hostile var-int and truncates right after it: the classic
// "huge length prefix, no data" message.
func countAttack(g *hx.Gen, s wire.Sample, budget int) {
	r := g.R
	for k := 0; k < budget && len(s.Bytes) > 0; k++ {
		i := r.Intn(len(s.Bytes))
		h := wire.HostileCounts[r.Intn(len(wire.HostileCounts))]
		b := append(append([]byte(nil), s.Bytes[:i]...), h...)
		if r.Chance(30) {
			b = append(b, r.Bytes(r.Intn(40))...)
		}
		emit(g, s.Op, b)
	}
}

// wrapAttack: counts whose product with an element size wraps around the width of the count — a
// size check computed as `count*size` in unsigned arithmetic lets them through, the `make` sized by the
// count then panics (len out of range).  For every element size 1…128: ceil(2^w / size) and its neighbours,
// in the fixed-width count fields of the count-limited p2p readers and as a var-int in front of nothing.
func wrapAttack(g *hx.Gen) {
	r := g.R
	le := func(v uint64, w int) []byte {
		b := make([]byte, w)
		for i := 0; i < w; i++ {
			b[i] = byte(v >> (8 * uint(i)))
		}
		return b
	}
	hdr := wire.Ser(wire.GenHeader(r))
	for size := uint64(1); size <= 128; size++ {
		for _, d := range []uint64{0, 1, 7} {
			c64 := ^uint64(0)/size + 1 + d
			c32 := (uint64(1)<<32-1)/size + 1 + d
			tail := r.Bytes(r.Intn(3) * 21)
			emit(g, "dec addr 0", append(le(c64, 8), tail...))
			emit(g, "dec inv 0", append(le(c32, 4), tail...))
			emit(g, "dec getblocks 0", append(append(le(uint64(r.Intn(4)), 4), le(c32, 4)...), tail...))
			emit(g, "dec merkleblock 0", append(append(append([]byte(nil), hdr...), 1, 0, 0, 0), append(le(c32, 4), tail...)...))
			if d == 0 && size%8 == 1 {
				v := append([]byte{0xff}, le(c64, 8)...)
				emit(g, "dec confirm 0", v)
				emit(g, "dec inactivearbitrators 0", v)
			}
		}
	}
}

// blockRows: values of the on-disk block index bucket (84-byte header without aux-pow + status byte):
// a good row, every prefix of it (torn write), one byte more, a changed byte.
func blockRows(g *hx.Gen) {
	r := g.R
	for i := 0; i < g.N(3, 12); i++ {
		w := new(bytes.Buffer)
		wire.GenHeader(r).SerializeNoAux(w)
		row := append(w.Bytes(), r.Byte())
		for k := 0; k <= len(row); k++ {
			emit(g, "dec blockrow 0", row[:k])
		}
		emit(g, "dec blockrow 0", append(append([]byte(nil), row...), r.Byte()))
		emit(g, "dec blockrow 0", wire.Mutate(r, row))
	}
}

func gen(g *hx.Gen) {
	r := g.R
	n := g.N(1800, 30000)
	for i := 0; i < n; i++ {
		s := wire.GenSample(r.Fork(uint64(i)))
		emit(g, s.Op, s.Bytes)
		emit(g, s.Op, wire.Mutate(r, s.Bytes))
		countAttack(g, s, 2)
	}
	// values whose var-int prefixed fields / element counts sit exactly on the var-int boundaries
	for _, s := range wire.GenBoundary(r.Fork(77), false) {
		emit(g, s.Op, s.Bytes)
	}
	// merkleblock: a raw uint32 hash count next to a small transaction count
	for _, nh := range []uint32{0, 1, 10000, 10001, 1 << 22} {
		h := wire.Ser(wire.GenHeader(r))
		b := append(append([]byte(nil), h...), 1, 0, 0, 0, byte(nh), byte(nh>>8), byte(nh>>16), byte(nh>>24))
		emit(g, "dec merkleblock 0", append(b, r.Bytes(r.Intn(40))...))
	}
	wrapAttack(g)
	blockRows(g)
	genMsg(g)
	genDmsg(g)
	// every prefix of a few valid encodings (each list position is hit by a truncation)
	for i := 0; i < g.N(6, 40); i++ {
		s := wire.GenSample(r)
		if len(s.Bytes) > 400 {
			continue
		}
		for k := 0; k <= len(s.Bytes); k++ {
			emit(g, s.Op, s.Bytes[:k])
		}
	}
}

func oracle(t []string, out string) *hx.Violation {
	if out == "panic" {
		return &hx.Violation{Kind: "decode-panic", Detail: "decoder panicked: " + hx.LastPanic()}
	}
	if t[0] == "msg" {
		return msgOracle(t, out)
	}
	if t[0] == "dmsg" {
		return dmsgOracle(t, out)
	}
	tok := t[len(t)-1]
	body := t
	var claimed uint64
	if strings.HasPrefix(tok, "alloc=") {
		claimed, _ = strconv.ParseUint(tok[6:], 10, 64)
		body = t[:len(t)-1]
	}
	n := uint64(inputLen(body))
	limit := boundK*n + boundC
	fresh := measure(body)
	if fresh > limit {
		return &hx.Violation{Kind: "alloc-unbounded", Detail: fmt.Sprintf("decoding %d input bytes allocated %d bytes (bound %d·len+%d = %d)", n, fresh, boundK, boundC, limit)}
	}
	if claimed > limit && claimed != fresh {
		return &hx.Violation{Kind: "alloc-unbounded", Detail: fmt.Sprintf("decoding %d input bytes allocated %d bytes when generated (bound %d)", n, claimed, limit)}
	}
	return nil
}

func nontrivial(t []string, out string) bool {
	// the decoder got past at least one length / count prefix: accepted, or rejected with more than 8 bytes read
	if wire.Measured(t) {
		t = t[:len(t)-1]
	}
	return strings.HasPrefix(out, "ok ") || inputLen(t) > 8
}

func bucket(t []string, out string) string {
	k := t[0]
	if t[0] == "dec" {
		k += " " + t[1]
	}
	f := strings.Fields(out)
	if len(f) > 0 {
		k += "/" + f[0]
	}
	return k
}

var _ = bytes.Equal

// watchdog: a decoder that loops on a wire count or allocates without bound must not take the
// machine down with it.  The op being executed is published; if it runs for more than 20 s or the
// heap passes 3 GiB the process exits with status 2 after naming the op on stderr (the check
// reports a process crash as a violation with that op).
var (
	curOp    atomic.Value
	curStart atomic.Int64
)

func watched(f func(t []string) string) func(t []string) string {
	return func(t []string) string {
		curOp.Store(strings.Join(t, " "))
		curStart.Store(time.Now().UnixNano())
		defer curStart.Store(0)
		return f(t)
	}
}

func watchdog() {
	for {
		time.Sleep(250 * time.Millisecond)
		s := curStart.Load()
		if s == 0 {
			continue
		}
		var ms runtime.MemStats
		runtime.ReadMemStats(&ms)
		late := time.Since(time.Unix(0, s)) > 20*time.Second
		if late || ms.HeapAlloc > 3<<30 {
			op, _ := curOp.Load().(string)
			if len(op) > 600 {
				op = op[:600]
			}
			fmt.Fprintf(os.Stderr, "C02 watchdog: unbounded decode (running >20s: %v, heap %d MiB) on op: %s\n", late, ms.HeapAlloc>>20, op)
			os.Exit(2)
		}
	}
}

func exec(t []string) string {
	if t[0] == "msg" {
		return execMsg(t)
	}
	if t[0] == "dmsg" {
		return execDmsg(t)
	}
	return wire.Exec(t)
}

func main() {
	go watchdog()
	hx.Main(&hx.Prop{Name: "C02", Gen: gen, Exec: watched(exec), Oracle: oracle, Nontrivial: nontrivial, Bucket: bucket})
}
