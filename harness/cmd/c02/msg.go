package main

// Message-level read path: a byte stream (24-byte header, then whatever payload bytes were
// supplied) through the REAL p2p.ReadMessage with each peer stack's command switch and
// CheckAndCreateMessage / CheckAndCreateTxMessage.
//
//	msg <stack> <magic> <hex stream> alloc=<n>   →  <class> <consumed>
//
// <n> = TotalAlloc delta of ReadMessage on that stream.  The oracle bounds a fresh measurement
// in terms of the bytes actually supplied: msgK·len(stream) + MaxLength of the command named in
// the header (asked of the real message type; 0 for an unknown command) + a fixed overhead.

import (
	"bytes"
	"crypto/sha256"
	"encoding/binary"
	"fmt"
	"io"
	"net"
	"sort"
	"strconv"
	"strings"
	"time"

	"elaverif/harness/hx"
	"elaverif/harness/wire"

	"github.com/elastos/Elastos.ELA/core/types"
	"github.com/elastos/Elastos.ELA/dpos"
	dmsg "github.com/elastos/Elastos.ELA/dpos/p2p/msg"
	dpeer "github.com/elastos/Elastos.ELA/dpos/p2p/peer"
	"github.com/elastos/Elastos.ELA/elanet"
	"github.com/elastos/Elastos.ELA/p2p"
	"github.com/elastos/Elastos.ELA/p2p/msg"
	"github.com/elastos/Elastos.ELA/p2p/peer"
)

const (
	msgK        = 1100
	msgOverhead = 64 * 1024
)

type memConn struct {
	r    *bytes.Reader
	read int
}

func (c *memConn) Read(b []byte) (int, error) {
	n, err := c.r.Read(b)
	c.read += n
	return n, err
}
func (c *memConn) Write(b []byte) (int, error)        { return len(b), nil }
func (c *memConn) Close() error                       { return nil }
func (c *memConn) LocalAddr() net.Addr                { return &net.TCPAddr{} }
func (c *memConn) RemoteAddr() net.Addr               { return &net.TCPAddr{} }
func (c *memConn) SetDeadline(t time.Time) error      { return nil }
func (c *memConn) SetReadDeadline(t time.Time) error  { return nil }
func (c *memConn) SetWriteDeadline(t time.Time) error { return nil }

func stackCreate(st string) p2p.CreateMessage {
	switch st {
	case "elanet":
		return peer.VerifCreateMessage(elanet.VerifCreateMessage)
	case "dpos":
		return dpeer.VerifCreateMessage(dpos.VerifCreateMessage)
	}
	panic("harness: unknown stack " + st)
}

// what the harness believes each command's message type is (to ask the real type for MaxLength())
var msgTypes = map[string]map[string]func() p2p.Message{
	"elanet": {
		"version": func() p2p.Message { return &msg.Version{} }, "verack": func() p2p.Message { return &msg.VerAck{} },
		"getaddr": func() p2p.Message { return &msg.GetAddr{} }, "addr": func() p2p.Message { return &msg.Addr{} },
		"ping": func() p2p.Message { return &msg.Ping{} }, "pong": func() p2p.Message { return &msg.Pong{} },
		"mempool": func() p2p.Message { return &msg.MemPool{} }, "tx": func() p2p.Message { return &msg.Tx{} },
		"block": func() p2p.Message { return msg.NewBlock(&types.DposBlock{}) }, "inv": func() p2p.Message { return &msg.Inv{} },
		"notfound": func() p2p.Message { return &msg.NotFound{} }, "getdata": func() p2p.Message { return &msg.GetData{} },
		"getblocks": func() p2p.Message { return &msg.GetBlocks{} }, "filteradd": func() p2p.Message { return &msg.FilterAdd{} },
		"filterclear": func() p2p.Message { return &msg.FilterClear{} }, "filterload": func() p2p.Message { return &msg.FilterLoad{} },
		"txfilter": func() p2p.Message { return &msg.TxFilterLoad{} }, "reject": func() p2p.Message { return &msg.Reject{} },
		"daddr": func() p2p.Message { return &msg.DAddr{} },
	},
	"dpos": {
		"version": func() p2p.Message { return &dmsg.Version{} }, "verack": func() p2p.Message { return &dmsg.VerAck{} },
		"addr": func() p2p.Message { return &dmsg.Addr{} }, "ping": func() p2p.Message { return &dmsg.Ping{} },
		"pong":  func() p2p.Message { return &dmsg.Pong{} },
		"block": func() p2p.Message { return msg.NewBlock(&types.Block{}) }, "tx": func() p2p.Message { return &msg.Tx{} },
		"acc_vote": func() p2p.Message { return &dmsg.Vote{Command: dmsg.CmdAcceptVote} },
		"rej_vote": func() p2p.Message { return &dmsg.Vote{Command: dmsg.CmdRejectVote} },
		"proposal": func() p2p.Message { return &dmsg.Proposal{} }, "inv": func() p2p.Message { return &dmsg.Inventory{} },
		"getblock": func() p2p.Message { return &dmsg.GetBlock{} }, "get_blc": func() p2p.Message { return &dmsg.GetBlocks{} },
		"res_blc": func() p2p.Message { return &dmsg.ResponseBlocks{} }, "req_con": func() p2p.Message { return &dmsg.RequestConsensus{} },
		"res_con": func() p2p.Message { return &dmsg.ResponseConsensus{} }, "req_pro": func() p2p.Message { return &dmsg.RequestProposal{} },
		"ill_pro": func() p2p.Message { return &dmsg.IllegalProposals{} }, "ill_vote": func() p2p.Message { return &dmsg.IllegalVotes{} },
		"side_ill":    func() p2p.Message { return &dmsg.SidechainIllegalData{} },
		"ina_ars":     func() p2p.Message { return &dmsg.ResponseInactiveArbitrators{} },
		"rev_to_dpos": func() p2p.Message { return &dmsg.ResponseRevertToDPOS{} }, "reset_view": func() p2p.Message { return &dmsg.ResetView{} },
	},
}

func sortedCmds(st string) []string {
	var cs []string
	for c := range msgTypes[st] {
		cs = append(cs, c)
	}
	sort.Strings(cs)
	return cs
}

func classify(err error, consumed int, declared int64) string {
	switch {
	case err == nil:
		return "body"
	case err == io.EOF || err == io.ErrUnexpectedEOF:
		if consumed < p2p.HeaderSize {
			return "short-header"
		}
		if declared >= 0 && int64(consumed) == int64(p2p.HeaderSize)+declared {
			return "body"
		}
		return "short-payload"
	case err == p2p.ErrInvalidHeader:
		return "invalid-header"
	case err == p2p.ErrUnmatchedMagic:
		return "magic"
	case err == p2p.ErrMsgSizeExceeded:
		return "size"
	case err == p2p.ErrInvalidPayload:
		return "checksum"
	}
	s := err.Error()
	if strings.HasPrefix(s, "unhandled command") || strings.HasPrefix(s, "Received unsupported message") || s == "invalid message" {
		return "unhandled"
	}
	return "body" // the payload arrived; the message decoder rejected it
}

func readOnce(st string, magic uint32, stream []byte) (class string, consumed int) {
	c := &memConn{r: bytes.NewReader(stream)}
	_, err := p2p.ReadMessage(c, magic, time.Second, stackCreate(st))
	declared := int64(-1)
	if len(stream) >= p2p.HeaderSize {
		declared = int64(binary.LittleEndian.Uint32(stream[16:20]))
	}
	return classify(err, c.read, declared), c.read
}

func measureMsg(st string, magic uint32, stream []byte) uint64 {
	curOp.Store(fmt.Sprintf("msg %s %d <%d bytes>", st, magic, len(stream)))
	curStart.Store(time.Now().UnixNano())
	defer curStart.Store(0)
	var best uint64 = 1 << 62
	for i := 0; i < 2; i++ {
		m := wire.Measure(func() {
			defer func() { recover() }()
			readOnce(st, magic, stream)
		})
		if m < best {
			best = m
		}
	}
	return best
}

func parseMsgOp(t []string) (st string, magic uint32, stream []byte) {
	m, err := strconv.ParseUint(t[2], 10, 32)
	if err != nil {
		panic("harness: bad magic")
	}
	return t[1], uint32(m), hx.UnHex(t[3])
}

func execMsg(t []string) string {
	st, magic, stream := parseMsgOp(t)
	class, consumed := readOnce(st, magic, stream)
	return fmt.Sprintf("%s %d", class, consumed)
}

// headerCmd extracts the NUL-terminated command of a 24-byte header.
func headerCmd(stream []byte) string {
	if len(stream) < p2p.HeaderSize {
		return ""
	}
	c := stream[4:16]
	if i := bytes.IndexByte(c, 0); i >= 0 {
		c = c[:i]
	}
	return string(c)
}

func msgOracle(t []string, out string) *hx.Violation {
	st, magic, stream := parseMsgOp(t)
	limit := uint64(msgK*len(stream) + msgOverhead)
	maxLen := uint64(0)
	if mk, ok := msgTypes[st][headerCmd(stream)]; ok {
		maxLen = uint64(mk().MaxLength())
	}
	limit += maxLen + maxLen/4
	fresh := measureMsg(st, magic, stream)
	if fresh > limit {
		declared := uint32(0)
		if len(stream) >= p2p.HeaderSize {
			declared = binary.LittleEndian.Uint32(stream[16:20])
		}
		return &hx.Violation{Kind: "msg-alloc-unbounded", Detail: fmt.Sprintf("reading a %q message from %d supplied bytes (declared length %d, MaxLength %d) allocated %d bytes (bound %d)",
			headerCmd(stream), len(stream), declared, maxLen, fresh, limit)}
	}
	return nil
}

func frame(magic uint32, cmd string, declared uint32, checksumOf, tail []byte) []byte {
	b := make([]byte, p2p.HeaderSize)
	binary.LittleEndian.PutUint32(b[0:], magic)
	copy(b[4:16], cmd)
	binary.LittleEndian.PutUint32(b[16:], declared)
	h := sha256.Sum256(checksumOf)
	h = sha256.Sum256(h[:])
	copy(b[20:24], h[:4])
	return append(b, tail...)
}

func emitMsg(g *hx.Gen, st string, magic uint32, stream []byte) {
	g.Emit("msg %s %d %s alloc=%d", st, magic, hx.Hex(stream), measureMsg(st, magic, stream))
}

func genMsg(g *hx.Gen) {
	r := g.R
	const magic = 2017001
	for _, st := range []string{"elanet", "dpos"} {
		for _, cmd := range sortedCmds(st) {
			max := msgTypes[st][cmd]().MaxLength()
			// well-framed payloads (random content: the decoder usually rejects it — class `body`)
			for i := 0; i < g.N(2, 10); i++ {
				n := r.Intn(200)
				if uint32(n) > max {
					n = int(max)
				}
				p := r.Bytes(n)
				emitMsg(g, st, magic, frame(magic, cmd, uint32(n), p, p))
			}
			// header only (or a few payload bytes) with a declared length around every limit
			decls := []uint32{0, 1, max, max + 1, 2*max + 1, p2p.MaxMessagePayload - 1, p2p.MaxMessagePayload, p2p.MaxMessagePayload + 1, 1 << 31, 0xffffffff}
			for _, d := range decls {
				if d > 20000000 && d <= max && g.Quick() && r.Intn(4) != 0 {
					continue // an accepted 80 MB declaration really allocates 80 MB: only now and then
				}
				tail := r.Bytes(r.Intn(3) * r.Intn(20))
				emitMsg(g, st, magic, frame(magic, cmd, d, nil, tail))
			}
			// wrong magic, wrong checksum, truncated header
			p := r.Bytes(8)
			emitMsg(g, st, magic+1, frame(magic, cmd, 8, p, p))
			emitMsg(g, st, magic, frame(magic, cmd, 8, []byte("x"), p))
			f := frame(magic, cmd, 8, p, p)
			emitMsg(g, st, magic, f[:r.Intn(p2p.HeaderSize)])
		}
		// unknown command, command without NUL
		emitMsg(g, st, magic, frame(magic, "nosuchcmd", 1<<25, nil, nil))
		emitMsg(g, st, magic, frame(magic, "abcdefghijkl", 4, nil, r.Bytes(4)))
	}
	// real messages: a transaction and an inv through the main-net stack
	tx := wire.TxBytes(wire.GenTx(r, true))
	emitMsg(g, "elanet", magic, frame(magic, "tx", uint32(len(tx)), tx, tx))
	s := wire.GenP2P(r)
	if strings.HasPrefix(s.Op, "dec inv") {
		emitMsg(g, "elanet", magic, frame(magic, "inv", uint32(len(s.Bytes)), s.Bytes, s.Bytes))
	}
}

// ---------------------------------------------------------------- message payload codecs
//
//	dmsg <package.Type> <hex> [own]   →  ok <consumed> <re-encoding> | err | unmodelled
//
// The payload codec (Serialize / Deserialize) of a p2p / DPoS p2p message type on its own.  The
// Lean side decodes the same bytes with the schema derived from the regenerated read-token stream.

var codecTypes = map[string]func() p2p.Message{
	"dpos/p2p/msg.Addr": func() p2p.Message { return &dmsg.Addr{} }, "dpos/p2p/msg.GetBlock": func() p2p.Message { return &dmsg.GetBlock{} },
	"dpos/p2p/msg.GetBlocks": func() p2p.Message { return &dmsg.GetBlocks{} }, "dpos/p2p/msg.IllegalProposals": func() p2p.Message { return &dmsg.IllegalProposals{} },
	"dpos/p2p/msg.IllegalVotes": func() p2p.Message { return &dmsg.IllegalVotes{} }, "dpos/p2p/msg.Inventory": func() p2p.Message { return &dmsg.Inventory{} },
	"dpos/p2p/msg.Proposal": func() p2p.Message { return &dmsg.Proposal{} }, "dpos/p2p/msg.RequestConsensus": func() p2p.Message { return &dmsg.RequestConsensus{} },
	"dpos/p2p/msg.RequestProposal": func() p2p.Message { return &dmsg.RequestProposal{} }, "dpos/p2p/msg.ResetView": func() p2p.Message { return &dmsg.ResetView{} },
	"dpos/p2p/msg.ResponseInactiveArbitrators": func() p2p.Message { return &dmsg.ResponseInactiveArbitrators{} },
	"dpos/p2p/msg.ResponseRevertToDPOS":        func() p2p.Message { return &dmsg.ResponseRevertToDPOS{} },
	"dpos/p2p/msg.SidechainIllegalData":        func() p2p.Message { return &dmsg.SidechainIllegalData{} },
	"dpos/p2p/msg.VerAck":                      func() p2p.Message { return &dmsg.VerAck{} }, "dpos/p2p/msg.Vote": func() p2p.Message { return &dmsg.Vote{} },
	"dpos/p2p/msg.ResponseConsensus": func() p2p.Message { return &dmsg.ResponseConsensus{} },
	"p2p/msg.FilterAdd":              func() p2p.Message { return &msg.FilterAdd{} }, "p2p/msg.Reject": func() p2p.Message { return &msg.Reject{} },
	"p2p/msg.TxFilterLoad": func() p2p.Message { return &msg.TxFilterLoad{} },
}

func codecNames() []string {
	var ns []string
	for n := range codecTypes {
		ns = append(ns, n)
	}
	sort.Strings(ns)
	return ns
}

func execDmsg(t []string) string {
	mk, ok := codecTypes[t[1]]
	if !ok {
		panic("harness: unknown message type " + t[1])
	}
	b := hx.UnHex(t[2])
	m := mk()
	r := bytes.NewReader(b)
	if err := m.Deserialize(r); err != nil {
		return "err"
	}
	w := new(bytes.Buffer)
	if err := m.Serialize(w); err != nil {
		return "err"
	}
	if len(t) > 3 && t[3] == "own" {
		return fmt.Sprintf("ok %d %s", len(b)-r.Len(), hx.Hex(w.Bytes()))
	}
	return fmt.Sprintf("ok %d", len(b)-r.Len())
}

func dmsgOracle(t []string, out string) *hx.Violation {
	// allocation: the codec alone on the supplied bytes
	if mk, ok := codecTypes[t[1]]; ok {
		b := hx.UnHex(t[2])
		curOp.Store(strings.Join(t, " "))
		curStart.Store(time.Now().UnixNano())
		a := wire.Measure(func() {
			defer func() { recover() }()
			mk().Deserialize(bytes.NewReader(b))
		})
		curStart.Store(0)
		if limit := uint64(boundK*len(b) + boundC); a > limit {
			return &hx.Violation{Kind: "alloc-unbounded", Detail: fmt.Sprintf("decoding a %d-byte %s payload allocated %d bytes (bound %d)", len(b), t[1], a, limit)}
		}
	}
	own := len(t) > 3 && t[3] == "own"
	f := strings.Fields(out)
	if own && (len(f) != 3 || f[0] != "ok" || f[2] != t[2]) {
		return &hx.Violation{Kind: "own-bytes-not-roundtrip", Detail: "a " + t[1] + " message written by Serialize is not read back identically: " + out}
	}
	return nil
}

func genDmsg(g *hx.Gen) {
	r := g.R
	// count attack at every byte position of the zero-value encoding of each type (where all lists are
	// empty, every list count is one of these bytes): a huge count, and 2^20, followed by nothing
	for _, n := range codecNames() {
		w := new(bytes.Buffer)
		if err := codecTypes[n]().Serialize(w); err != nil {
			continue
		}
		z := w.Bytes()
		for i := 0; i < len(z) && i < 200; i++ {
			for _, h := range [][]byte{{0xff, 0xff, 0xff, 0xff, 0xff, 0xff, 0xff, 0xff, 0x7f}, {0xfe, 0x00, 0x00, 0x10, 0x00}} {
				g.Emit("dmsg %s %s", n, hx.Hex(append(append([]byte(nil), z[:i]...), h...)))
			}
		}
	}
	for _, n := range codecNames() {
		for i := 0; i < g.N(6, 60); i++ {
			m := codecTypes[n]()
			wire.Fill(r, m)
			w := new(bytes.Buffer)
			if err := m.Serialize(w); err != nil {
				continue
			}
			b := w.Bytes()
			g.Emit("dmsg %s %s own", n, hx.Hex(b))
			if len(b) > 0 {
				g.Emit("dmsg %s %s", n, hx.Hex(b[:r.Intn(len(b))]))
				// hostile counts / flipped bytes (count-sized allocations, panics)
				g.Emit("dmsg %s %s", n, hx.Hex(wire.Mutate(r, b)))
				g.Emit("dmsg %s %s", n, hx.Hex(wire.Mutate(r, b)))
			}
		}
	}
}
