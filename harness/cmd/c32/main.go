// C32 — frozen addresses can neither spend nor receive.
//
// Streams
//
//	chk <h> <entries> <ins> <outs>   real checkFrozenAddresses.  entries: comma separated L:start (L = letter naming a
//	                                 program hash, n = entry whose ProgramHash is nil); ins / outs: strings of letters,
//	                                 one per referenced output / per transaction output ("-" = none)
//	cfg <runes> <file>               real Settings.SetupConfig on a config file with ActiveNet = runes and
//	                                 FrozenAddresses = file ("-": key absent; else comma separated addr:start:hash where
//	                                 hash is what the address decodes to, or nil) → the configured list after Sterilize
//
// The chk stream is exhaustive over every placement of up to two frozen hashes
// and a neutral one among <= 4 inputs and <= 4 outputs, heights around each
// start height, several list shapes.
package main

import (
	"encoding/json"
	"fmt"
	"os"
	"path/filepath"
	"strconv"
	"strings"

	"elaverif/harness/hx"
	"elaverif/harness/pctx"

	"github.com/elastos/Elastos.ELA/common"
	"github.com/elastos/Elastos.ELA/common/config"
	"github.com/elastos/Elastos.ELA/common/config/settings"
	"github.com/elastos/Elastos.ELA/core/transaction"
	common2 "github.com/elastos/Elastos.ELA/core/types/common"
)

const (
	coordAddr  = "EfduuvdDcAgif8njgXNJUfsBumQf9yYP72"
	coordStart = 2256110
	coordHash  = "21f69ec3b64fbeb6f690d3c8e2798b802f0ce5e26e"
)

func u32(s string) uint32 {
	v, err := strconv.ParseUint(s, 10, 32)
	if err != nil {
		panic("harness: bad uint32 " + s)
	}
	return uint32(v)
}

func runes(s string) string {
	if s == "-" {
		return ""
	}
	var b strings.Builder
	for _, t := range strings.Split(s, ",") {
		v, err := strconv.ParseUint(t, 10, 32)
		if err != nil {
			panic("harness: bad rune " + t)
		}
		b.WriteRune(rune(v))
	}
	return b.String()
}

func fmtRunes(s string) string {
	if s == "" {
		return "-"
	}
	var parts []string
	for _, r := range s {
		parts = append(parts, strconv.Itoa(int(r)))
	}
	return strings.Join(parts, ",")
}

func hashOf(letter byte) common.Uint168 {
	var h common.Uint168
	h[0] = 0x21
	for i := 1; i < len(h); i++ {
		h[i] = letter
	}
	return h
}

func lettersOf(s string) []byte {
	if s == "-" {
		return nil
	}
	return []byte(s)
}

type entry struct {
	letter byte // 'n' = nil hash
	start  uint32
}

func parseEntries(s string) []entry {
	if s == "-" {
		return nil
	}
	var res []entry
	for _, t := range strings.Split(s, ",") {
		p := strings.Split(t, ":")
		if len(p) != 2 || len(p[0]) != 1 {
			panic("harness: bad entry " + t)
		}
		res = append(res, entry{p[0][0], u32(p[1])})
	}
	return res
}

var cfgDir string
var cfgSeq int

func exec(t []string) string {
	switch t[0] {
	case "ctx", "ctxpow":
		return pctx.Exec(t)
	case "e2e":
		return pctx.E2E(t)
	case "chk":
		h := u32(t[1])
		var fl []config.FrozenAddress
		for i, e := range parseEntries(t[2]) {
			fa := config.FrozenAddress{Address: fmt.Sprintf("addr#%d#", i), DisableStartHeight: e.start}
			if e.letter != 'n' {
				ph := hashOf(e.letter)
				fa.ProgramHash = &ph
			}
			fl = append(fl, fa)
		}
		refs := map[*common2.Input]common2.Output{}
		for i, l := range lettersOf(t[3]) {
			in := &common2.Input{Previous: common2.OutPoint{Index: uint16(i)}}
			refs[in] = common2.Output{Value: 1, ProgramHash: hashOf(l)}
		}
		txn, err := transaction.GetTransaction(common2.TransferAsset)
		if err != nil {
			panic("harness: " + err.Error())
		}
		var outs []*common2.Output
		for _, l := range lettersOf(t[4]) {
			outs = append(outs, &common2.Output{Value: 1, ProgramHash: hashOf(l)})
		}
		txn.SetOutputs(outs)
		err = transaction.VerifCheckFrozenAddresses(txn, refs, h, fl)
		if err == nil {
			return "ok"
		}
		m := err.Error()
		idx := "?"
		if a := strings.Index(m, "addr#"); a >= 0 {
			idx = strings.TrimSuffix(m[a+5:], "#")
		}
		switch {
		case strings.HasPrefix(m, "cannot use utxo from the frozen address"):
			return "err spend " + idx
		case strings.HasPrefix(m, "cannot send to the frozen address"):
			return "err receive " + idx
		}
		return "err other"
	case "cfg":
		if cfgDir == "" {
			d, err := os.MkdirTemp("", "c32cfg")
			if err != nil {
				panic("harness: " + err.Error())
			}
			cfgDir = d
		}
		inner := map[string]interface{}{"ActiveNet": runes(t[1])}
		if t[2] != "-" {
			var l []map[string]interface{}
			for _, e := range strings.Split(t[2], ",") {
				p := strings.Split(e, ":")
				if len(p) != 3 {
					panic("harness: bad cfg entry " + e)
				}
				// the hash in the op line is an oracle value for the model: re-check it
				want := "nil"
				if ph, err := common.Uint168FromAddress(p[0]); err == nil {
					want = fmt.Sprintf("%x", ph[:])
				}
				if want != p[2] {
					return "oracle-mismatch " + p[0] + " decodes to " + want
				}
				l = append(l, map[string]interface{}{"Address": p[0], "DisableStartHeight": u32(p[1])})
			}
			inner["FrozenAddresses"] = l
		}
		b, _ := json.Marshal(map[string]interface{}{"Configuration": inner})
		cfgSeq++
		p := filepath.Join(cfgDir, fmt.Sprintf("config%d.json", cfgSeq%4))
		if err := os.WriteFile(p, b, 0o600); err != nil {
			panic("harness: " + err.Error())
		}
		config.DefaultParams = *config.GetDefaultParams()
		config.DefaultParams.Conf = p
		c := settings.NewSettings().SetupConfig(false, "", "")
		if len(c.FrozenAddresses) == 0 {
			return "empty"
		}
		var parts []string
		for _, f := range c.FrozenAddresses {
			h := "nil"
			if f.ProgramHash != nil {
				h = fmt.Sprintf("%x", f.ProgramHash[:])
			}
			parts = append(parts, fmt.Sprintf("%s:%d:%s", f.Address, f.DisableStartHeight, h))
		}
		return strings.Join(parts, ",")
	}
	panic("harness: unknown op " + t[0])
}

// ---------------------------------------------------------------- oracle (from the property text only)

func oracle(t []string, out string) *hx.Violation {
	switch t[0] {
	case "ctx", "ctxpow":
		return pctx.Oracle(t, out)
	case "e2e":
		return pctx.E2EOracle(t, out)
	case "chk":
		if out != "ok" {
			return nil
		}
		h := u32(t[1])
		for _, e := range parseEntries(t[2]) {
			if e.letter == 'n' || h < e.start {
				continue
			}
			if strings.IndexByte(t[3], e.letter) >= 0 && t[3] != "-" {
				return &hx.Violation{Kind: "frozen-address-spend-accepted",
					Detail: fmt.Sprintf("a transaction spending an output of frozen address %c (frozen from %d) is accepted at height %d", e.letter, e.start, h)}
			}
			if strings.IndexByte(t[4], e.letter) >= 0 && t[4] != "-" {
				return &hx.Violation{Kind: "frozen-address-receive-accepted",
					Detail: fmt.Sprintf("a transaction paying to frozen address %c (frozen from %d) is accepted at height %d", e.letter, e.start, h)}
			}
		}
	case "cfg":
		// whatever the net: an entry whose address decodes must come out of SetupConfig with its program hash
		// (an unresolved entry is skipped by the check: the address is silently not frozen), from whatever height
		if out != "empty" && !strings.HasPrefix(out, "oracle-mismatch") {
			for _, e := range strings.Split(out, ",") {
				p := strings.Split(e, ":")
				if len(p) == 3 && p[2] == "nil" {
					if ph, err := common.Uint168FromAddress(p[0]); err == nil && ph != nil {
						return &hx.Violation{Kind: "frozen-entry-not-resolved",
							Detail: "configured frozen address " + p[0] + " (start height " + p[1] + ") has no program hash after SetupConfig: it is not frozen"}
					}
				}
			}
		}
		name := strings.ToLower(runes(t[1]))
		if name == "" || name == "mainnet" || name == "main" {
			if out != fmt.Sprintf("%s:%d:%s", coordAddr, coordStart, coordHash) {
				return &hx.Violation{Kind: "mainnet-frozen-list-not-coordinated",
					Detail: "ActiveNet " + strconv.Quote(runes(t[1])) + " configured with frozen list " + out}
			}
		}
	}
	return nil
}

// ---------------------------------------------------------------- generator

func words(alpha string, maxLen int) []string {
	res := []string{"-"}
	cur := []string{""}
	for l := 1; l <= maxLen; l++ {
		var next []string
		for _, w := range cur {
			for _, c := range alpha {
				next = append(next, w+string(c))
			}
		}
		res = append(res, next...)
		cur = next
	}
	return res
}

func gen(g *hx.Gen) {
	pctx.Gen(g) // the real ContextCheck on an in-process node
	pctx.Close()
	pctx.E2EGen(g, true) // mempool admission, block validation and the RPC path on fresh nodes
	w4 := words("FGO", 4)
	w3 := words("FGO", 3)
	w2 := words("FGO", 2)
	type shape struct {
		entries string
		hs      []uint32
		ins     []string
		outs    []string
	}
	shapes := []shape{
		{"F:100", []uint32{99, 100, 101}, w4, w4},
		{"F:100,G:150", []uint32{99, 100, 101, 149, 150, 151}, w3, w3},
		{"G:150,F:100", []uint32{99, 100, 149, 150}, w3, w2},
		{"n:100,F:100", []uint32{99, 100}, w2, w3},
		{"F:100,F:50", []uint32{49, 50, 99, 100}, w2, w2},
		{"-", []uint32{0, 100}, w2, w2},
		{"n:0", []uint32{0, 1}, w2, w2},
		{"F:0", []uint32{0, 1}, w2, w2},
		{"F:4294967295", []uint32{4294967294, 4294967295}, w2, w2},
	}
	if !g.Quick() {
		shapes[1].ins, shapes[1].outs = w4, w4
		shapes[2].ins, shapes[2].outs = w4, w3
	}
	for _, s := range shapes {
		for _, h := range s.hs {
			for _, in := range s.ins {
				for _, out := range s.outs {
					g.Emit("chk %d %s %s %s", h, s.entries, in, out)
				}
			}
		}
	}
	// random: longer lists, more hashes, random heights
	alpha := "ABCDEFGHOXYZ"
	rw := func(max int) string {
		k := g.R.Intn(max + 1)
		if k == 0 {
			return "-"
		}
		b := make([]byte, k)
		for i := range b {
			b[i] = alpha[g.R.Intn(len(alpha))]
		}
		return string(b)
	}
	for i := 0; i < g.N(20000, 300000); i++ {
		k := g.R.Intn(5)
		var es []string
		for j := 0; j < k; j++ {
			l := alpha[g.R.Intn(6)]
			if g.R.Chance(10) {
				l = 'n'
			}
			es = append(es, fmt.Sprintf("%c:%d", l, g.R.Intn(300)))
		}
		e := "-"
		if k > 0 {
			e = strings.Join(es, ",")
		}
		g.Emit("chk %d %s %s %s", g.R.Intn(300), e, rw(8), rw(8))
	}

	// ---- configuration
	var addrs []string // valid addresses with their hashes
	for i := 0; i < 6; i++ {
		var ph common.Uint168
		copy(ph[:], g.R.Bytes(21))
		ph[0] = []byte{0x21, 0x12, 0x4b, 0x1f}[i%4]
		a, err := ph.ToAddress()
		if err != nil {
			panic("harness: " + err.Error())
		}
		addrs = append(addrs, fmt.Sprintf("%s:%%d:%x", a, ph[:]))
	}
	bad := []string{"abc:%d:nil", "EJMzC16Eorq9CuFCGtyMrq4Jmgw9jYCHQS:%d:nil"}
	names := []string{"", "mainnet", "MainNet", "main", "MAIN", "testnet", "test", "TestNet", "regnet", "regtest", "reg",
		"private-net", "mainnet ", "mainnet2", "maİn", "Kain"}
	for _, nm := range names {
		g.Emit("cfg %s -", fmtRunes(nm))
		for rep := 0; rep < g.N(6, 40); rep++ {
			k := 1 + g.R.Intn(3)
			var es []string
			for j := 0; j < k; j++ {
				tpl := addrs[g.R.Intn(len(addrs))]
				if g.R.Chance(15) {
					tpl = bad[g.R.Intn(len(bad))]
				}
				if g.R.Chance(10) {
					tpl = coordAddr + ":%d:" + coordHash
				}
				es = append(es, fmt.Sprintf(tpl, g.R.Pick(0, 1, 100, coordStart, 4294967295)))
			}
			g.Emit("cfg %s %s", fmtRunes(nm), strings.Join(es, ","))
		}
	}
	if cfgDir != "" {
		os.RemoveAll(cfgDir)
	}
}

func nontrivial(t []string, out string) bool {
	if t[0] == "chk" {
		// some entry is resolved and active, and the transaction has inputs or outputs
		h := u32(t[1])
		if t[3] == "-" && t[4] == "-" {
			return false
		}
		for _, e := range parseEntries(t[2]) {
			if e.letter != 'n' && h >= e.start {
				return true
			}
		}
		return false
	}
	return true
}

func bucket(t []string, out string) string {
	if t[0] == "ctx" || t[0] == "ctxpow" || t[0] == "e2e" {
		f := strings.Fields(out)
		if len(f) >= 2 {
			return t[0] + "/" + f[0] + " " + f[1]
		}
		return t[0] + "/" + out
	}
	if t[0] == "chk" {
		f := strings.Fields(out)
		if len(f) >= 2 {
			return "chk/" + f[0] + " " + f[1]
		}
		return "chk/" + out
	}
	if strings.HasPrefix(out, coordAddr+":2256110:") && !strings.Contains(out, ",") {
		return "cfg/coordinated-list"
	}
	if out == "empty" {
		return "cfg/empty"
	}
	return "cfg/own-list"
}

func main() {
	hx.Main(&hx.Prop{Name: "C32", Gen: gen, Exec: exec, Oracle: oracle, Nontrivial: nontrivial, Bucket: bucket})
}
