// Harness for C11: issuance schedule and the DPoS-v2 coinbase rule.
//
// Streams (first token):
//
//	rew <newH> <halvH> <interval> <oldReward> <h>
//	     Configuration.GetBlockReward(h) on a Configuration with these schedule heights
//	     -> "<reward> <reward>" | "panic"       (the Lean driver prints its exact-integer
//	        model and its hardware-float evaluation of the Go expression)
//	cb  <h> <active> <pow> <fees> <reward> <dposReward> <n> v1 a1 .. vn an
//	     the real BlockChain.checkCoinbaseTransactionContext (hook) on a coinbase with these
//	     outputs; DPoSV2ActiveHeight = <active>, consensus mode POW iff <pow>=1, mainnet
//	     schedule; <reward> must equal GetBlockReward(h) (re-checked here).
//	     a_i in {cr, des, stk, o<k>}    -> ok | err <kind> | panic | legacy
//	blk <h> <active> <pow> <checkRewardHeight> <reward> <n> v1 a1 .. vn an
//	     the real BlockChain.checkTxsContext (hook) on a block of height h that contains only
//	     this coinbase: fee aggregation, GetBlockDPOSReward, the coinbase check AND what
//	     checkTxsContext does with its error (ChainParams.CheckRewardHeight set per op)
//	     -> ok | err | panic
//	gen <ntx> (utxo fee)*
//	     a real regnet node (harness/regnet) at height 1 whose block 1 split the genesis output
//	     into 8 outputs of 1000 ELA: each listed transfer spends one of them paying <fee>, goes
//	     through the real TxPool.AppendToTxPool, then the real pow.Service.GenerateBlock assembles
//	     block 2 (reward = fees + subsidy, AssignCoinbaseTxRewards), and the real checkTxsContext
//	     (CheckRewardHeight = 0) validates it.  Pre-DPoS rule [0, H2).
//	     -> "<ntx in block> <n> v1 a1 .. | <ctx> | <Σ tx.Fee()> <GetBlockDPOSReward>"
//	rvt <k> s1..sk <h> <active> <fees> <reward> <dposReward> <n> v1 a1 .. vn an
//	     where the consensus mode comes from: a fresh real dpos State processes k blocks
//	     (e = ordinary block, p = block carrying a RevertToPOW transaction, r<j> = State.RollbackTo
//	     j blocks back, as a chain reorganisation does), then the coinbase of a DPoS-v2 block is
//	     checked by the real checkCoinbaseTransactionContext under the mode that State reports
//	     -> "<pow|dpos> <ok | err kind | panic>"
//	asg <h> <active> <pow> <fees> <reward>
//	     the real pow.Service.AssignCoinbaseTxRewards on the two-output coinbase of
//	     CreateCoinbaseTx, then the real check on the result (dposReward as
//	     GetBlockDPOSReward computes it)                -> "<n> v1 a1 .. vn an | <check>"
package main

import (
	"fmt"
	"math"
	"os"
	"path/filepath"
	"strconv"
	"strings"

	"elaverif/harness/hx"
	"elaverif/harness/regnet"

	"github.com/elastos/Elastos.ELA/account"
	"github.com/elastos/Elastos.ELA/blockchain"
	"github.com/elastos/Elastos.ELA/common"
	"github.com/elastos/Elastos.ELA/common/config"
	"github.com/elastos/Elastos.ELA/core"
	"github.com/elastos/Elastos.ELA/core/checkpoint"
	pg "github.com/elastos/Elastos.ELA/core/contract/program"
	"github.com/elastos/Elastos.ELA/core/transaction"
	"github.com/elastos/Elastos.ELA/core/types"
	common2 "github.com/elastos/Elastos.ELA/core/types/common"
	"github.com/elastos/Elastos.ELA/core/types/functions"
	"github.com/elastos/Elastos.ELA/core/types/interfaces"
	"github.com/elastos/Elastos.ELA/core/types/outputpayload"
	"github.com/elastos/Elastos.ELA/core/types/payload"
	crstate "github.com/elastos/Elastos.ELA/cr/state"
	"github.com/elastos/Elastos.ELA/dpos/state"
	"github.com/elastos/Elastos.ELA/mempool"
	"github.com/elastos/Elastos.ELA/pow"
)

var (
	chain    *blockchain.BlockChain
	params   *config.Configuration
	arbiters *state.Arbiters
	svc      *pow.Service
	ready    bool
	minerPH  common.Uint168
)

func setup() {
	if ready {
		return
	}
	ready = true
	functions.GetTransactionByTxType = transaction.GetTransaction
	functions.GetTransactionByBytes = transaction.GetTransactionByBytes
	functions.CreateTransaction = transaction.CreateTransaction
	functions.GetTransactionParameters = transaction.GetTransactionparameters
	dir, err := os.MkdirTemp("", "c11chain")
	if err != nil {
		panic("harness: " + err.Error())
	}
	params = config.GetDefaultParams()
	params.DataDir = dir
	params.GenesisBlock = core.GenesisBlock(*params.FoundationProgramHash)
	config.DefaultParams = *params
	store, err := blockchain.NewChainStore(filepath.Join(dir, "data"), params)
	if err != nil {
		panic("harness: chainstore: " + err.Error())
	}
	ckp := checkpoint.NewManager(params)
	ckp.SetDataPath(filepath.Join(dir, "checkpoints"))
	committee := crstate.NewCommittee(params, ckp)
	arbiters, err = state.NewArbitrators(params, committee, nil, nil, nil, nil, nil, nil, nil, ckp)
	if err != nil {
		panic("harness: arbitrators: " + err.Error())
	}
	chain, err = blockchain.New(store, params, arbiters.State, committee, ckp)
	if err != nil {
		panic("harness: blockchain.New: " + err.Error())
	}
	if err := chain.Init(nil); err != nil {
		panic("harness: chain.Init: " + err.Error())
	}
	arbiters.RegisterFunction(store.GetHeight, func() *common.Uint256 { return &common.Uint256{} }, nil, nil)
	blockchain.DefaultLedger = &blockchain.Ledger{Blockchain: chain, Arbitrators: arbiters, Store: store, Committee: committee}
	svc = pow.NewService(&pow.Config{Chain: chain, ChainParams: params, Arbitrators: arbiters})
	for i := range minerPH {
		minerPH[i] = byte(0x21 + i)
	}
}

func atou32(s string) uint32 {
	v, err := strconv.ParseUint(s, 10, 32)
	if err != nil {
		panic("harness: bad u32 " + s)
	}
	return uint32(v)
}
func f64(s string) common.Fixed64 {
	v, err := strconv.ParseInt(s, 10, 64)
	if err != nil {
		panic("harness: bad amount " + s)
	}
	return common.Fixed64(v)
}

func execRew(t []string) string {
	cfg := &config.Configuration{}
	cfg.NewELAIssuanceHeight = atou32(t[1])
	cfg.HalvingRewardHeight = atou32(t[2])
	cfg.HalvingRewardInterval = atou32(t[3])
	cfg.PowConfiguration.RewardPerBlock = f64(t[4])
	r := cfg.GetBlockReward(atou32(t[5]))
	return fmt.Sprintf("%d %d", int64(r), int64(r))
}

// the addresses the property fixes, as literals (NOT read from the configuration under test)
func lit(a string) common.Uint168 {
	h, err := common.Uint168FromAddress(a)
	if err != nil {
		panic("harness: bad literal address " + a)
	}
	return *h
}

var (
	litCR      = lit("CRASSETSXXXXXXXXXXXXXXXXXXXX2qDX5J")
	litDestroy = lit("ELANULLXXXXXXXXXXXXXXXXXXXXXYvs3rr")
	litStake   = lit("STAKEREWARDXXXXXXXXXXXXXXXXXFD5SHU")
	litPool    = lit("STAKEPooLXXXXXXXXXXXXXXXXXXXpP1PQ2")
)

func addrOf(a string) common.Uint168 {
	switch a {
	case "cr":
		return litCR
	case "des":
		return litDestroy
	case "stk":
		return litStake
	case "spl":
		return litPool
	case "fnd":
		return *params.FoundationProgramHash
	case "min":
		return minerPH
	}
	if strings.HasPrefix(a, "o") {
		var u common.Uint168
		u[0] = 0x21
		n, _ := strconv.Atoi(a[1:])
		u[1] = byte(n)
		u[2] = byte(n >> 8)
		return u
	}
	panic("harness: bad addr " + a)
}

func addrName(u common.Uint168) string {
	switch {
	case u.IsEqual(litCR):
		return "cr"
	case u.IsEqual(litDestroy):
		return "des"
	case u.IsEqual(litStake):
		return "stk"
	case u.IsEqual(litPool):
		return "spl"
	case u.IsEqual(*params.FoundationProgramHash):
		return "fnd"
	case u.IsEqual(minerPH):
		return "min"
	}
	return fmt.Sprintf("o%d", int(u[1])|int(u[2])<<8)
}

func coinbase(h uint32, outs []*common2.Output) interfaces.Transaction {
	return functions.CreateTransaction(common2.TxVersion09, common2.CoinBase, payload.CoinBaseVersion, &payload.CoinBase{},
		[]*common2.Attribute{}, []*common2.Input{{Previous: common2.OutPoint{Index: math.MaxUint16}, Sequence: math.MaxUint32}},
		outs, h, []*pg.Program{})
}

func setMode(active uint32, powMode string) {
	arbiters.State.DPoSV2ActiveHeight = active
	if powMode == "1" {
		arbiters.State.ConsensusAlgorithm = state.POW
	} else {
		arbiters.State.ConsensusAlgorithm = state.DPOS
	}
}

func cbClass(err error) string {
	if err == nil {
		return "ok"
	}
	switch err.Error() {
	case "rewardCyberRepublic value not correct":
		return "err cr-value"
	case "rewardMergeMiner value not correct":
		return "err miner-value"
	case "coinbase only can have 3 outputs at the most when it is DPoS v2":
		return "err count"
	case "last DPoS reward value not correct":
		return "err dpos-value"
	case "DPoS reward address not correct":
		return "err dpos-addr"
	case "rewardCyberRepublic address not correct":
		return "err cr-addr"
	}
	return "legacy"
}

func isV2(active, h uint32) bool { return active != math.MaxUint32 && h > active+1 }

// usePreset points the chain's parameters at the reward addresses of a built-in network preset for
// the duration of one op (the chain object holds `params` itself)
func usePreset(net string) func() {
	var p *config.Configuration
	switch net {
	case "mainnet":
		p = config.GetDefaultParams()
	case "testnet":
		p = config.GetDefaultParams().TestNet()
	case "regnet":
		p = config.GetDefaultParams().RegNet()
	default:
		panic("harness: net " + net)
	}
	o1, o2, o3 := params.DPoSConfiguration.DPoSV2RewardAccumulateProgramHash, params.CRConfiguration.CRAssetsProgramHash, params.DestroyELAProgramHash
	params.DPoSConfiguration.DPoSV2RewardAccumulateProgramHash = p.DPoSConfiguration.DPoSV2RewardAccumulateProgramHash
	params.CRConfiguration.CRAssetsProgramHash = p.CRConfiguration.CRAssetsProgramHash
	params.DestroyELAProgramHash = p.DestroyELAProgramHash
	return func() {
		params.DPoSConfiguration.DPoSV2RewardAccumulateProgramHash, params.CRConfiguration.CRAssetsProgramHash, params.DestroyELAProgramHash = o1, o2, o3
	}
}

func execCb(t []string) string {
	setup()
	if t[0] == "cbn" || t[0] == "asgn" {
		defer usePreset(t[1])()
		t = append([]string{t[0]}, t[2:]...)
	}
	h, active := atou32(t[1]), atou32(t[2])
	fees, reward, dposReward := f64(t[4]), f64(t[5]), f64(t[6])
	if params.GetBlockReward(h) != reward {
		return "reward-mismatch"
	}
	n, _ := strconv.Atoi(t[7])
	outs := make([]*common2.Output, n)
	for i := 0; i < n; i++ {
		outs[i] = &common2.Output{AssetID: core.ELAAssetID, Value: f64(t[8+2*i]), ProgramHash: addrOf(t[9+2*i]),
			Payload: &outputpayload.DefaultOutput{}}
	}
	setMode(active, t[3])
	if !isV2(active, h) {
		// the legacy branches depend on round state that is not part of C11: only record that
		// the real function does not apply the v2 rule here (its error texts are distinct)
		err := safe(func() error {
			return chain.VerifCheckCoinbaseTransactionContext(h, coinbase(h, outs), fees, dposReward)
		})
		if c := cbClass(err); c != "ok" && c != "legacy" {
			return "v2-rule-outside-v2:" + c
		}
		return "legacy"
	}
	return cbClass(chain.VerifCheckCoinbaseTransactionContext(h, coinbase(h, outs), fees, dposReward))
}

func execRvt(t []string) string {
	setup()
	k, _ := strconv.Atoi(t[1])
	p2 := *params
	p2.DPoSConfiguration.RecordSponsorStartHeight = math.MaxUint32
	st := state.NewState(&p2, nil, nil, nil, func() bool { return false }, nil, nil, nil, nil, nil, nil, nil)
	const H = uint32(1700001)
	cur := H - 1
	for i := 0; i < k; i++ {
		step := t[2+i]
		switch {
		case step == "e" || step == "p":
			cur++
			txs := []interfaces.Transaction{coinbase(cur, nil)}
			if step == "p" {
				txs = append(txs, functions.CreateTransaction(common2.TxVersion09, common2.RevertToPOW, payload.RevertToPOWVersion,
					&payload.RevertToPOW{Type: payload.NoProducers, WorkingHeight: cur},
					[]*common2.Attribute{}, []*common2.Input{}, []*common2.Output{}, 0, []*pg.Program{}))
			}
			st.ProcessBlock(&types.Block{Header: common2.Header{Height: cur}, Transactions: txs}, nil, 0)
		case strings.HasPrefix(step, "r"):
			j, _ := strconv.Atoi(step[1:])
			if err := st.RollbackTo(cur - uint32(j)); err != nil {
				return "rollback-error"
			}
			cur -= uint32(j)
		default:
			panic("harness: rvt step " + step)
		}
	}
	mode, flag := "dpos", "0"
	if st.GetConsensusAlgorithm() == state.POW {
		mode, flag = "pow", "1"
	}
	tail := t[2+k:]
	cb := append([]string{"cb", tail[0], tail[1], flag}, tail[2:]...)
	return mode + " " + execCb(cb)
}

func execBlk(t []string) string {
	setup()
	h, active := atou32(t[1]), atou32(t[2])
	crh := atou32(t[4])
	reward := f64(t[5])
	if params.GetBlockReward(h) != reward {
		return "reward-mismatch"
	}
	if !isV2(active, h) {
		panic("harness: blk ops are for DPoS-v2 heights")
	}
	n, _ := strconv.Atoi(t[6])
	outs := make([]*common2.Output, n)
	for i := 0; i < n; i++ {
		outs[i] = &common2.Output{AssetID: core.ELAAssetID, Value: f64(t[7+2*i]), ProgramHash: addrOf(t[8+2*i]),
			Payload: &outputpayload.DefaultOutput{}}
	}
	setMode(active, t[3])
	old := params.CheckRewardHeight
	params.CheckRewardHeight = crh // the chain object holds this very Configuration
	defer func() { params.CheckRewardHeight = old }()
	blk := &types.Block{Header: common2.Header{Height: h}, Transactions: []interfaces.Transaction{coinbase(h, outs)}}
	if err := chain.VerifCheckTxsContext(blk); err != nil {
		return "err"
	}
	return "ok"
}

// ---------------------------------------------------------------- real node, real block builder

var (
	rn        *regnet.Node
	rnLedger  *blockchain.Ledger
	rnFound   common.Uint168
	splitTxID common.Uint256
	rnDir     string
)

const splitValue = 1000 * 100000000

func setupNode() {
	if rn != nil {
		return
	}
	setup()
	myLedger, myFound := blockchain.DefaultLedger, blockchain.FoundationAddress
	dir, err := os.MkdirTemp("", "c11node")
	if err != nil {
		panic("harness: " + err.Error())
	}
	rnDir = dir
	n, err := regnet.NewNode(dir, regnet.Options{NoPoolEvents: true, Tweak: func(p *config.Configuration) {
		p.PowConfiguration.CoinbaseMaturity = 0
		p.CheckRewardHeight = 0
		// account 0 is the only origin arbiter (always on duty): side-chain mining proofs can be signed
		pk, _ := account0PK()
		p.DPoSConfiguration.OriginArbiters = []string{common.BytesToHexString(pk)}
	}})
	if err != nil {
		panic("harness: regnet: " + err.Error())
	}
	var outs []regnet.Out
	for i := 0; i < 8; i++ {
		outs = append(outs, regnet.Out{To: 1, Value: splitValue})
	}
	outs = append(outs, regnet.Out{To: 0, Value: 3300*10000*100000000 - 8*splitValue - 10000})
	gcb := n.Genesis.Transactions[0].Hash()
	split, err := n.Transfer(0, []common2.OutPoint{{TxID: gcb, Index: 0}}, outs, 1)
	if err != nil {
		panic("harness: split: " + err.Error())
	}
	b1, err := n.Mine(n.Genesis, []interfaces.Transaction{split})
	if err != nil {
		panic("harness: mine: " + err.Error())
	}
	if in, _, err := n.Deliver(b1); err != nil || !in {
		panic(fmt.Sprint("harness: deliver block 1: ", err))
	}
	splitTxID = split.Hash()
	rn = n
	rnLedger, rnFound = blockchain.DefaultLedger, blockchain.FoundationAddress
	blockchain.DefaultLedger, blockchain.FoundationAddress = myLedger, myFound
}

func account0PK() ([]byte, error) {
	ac, err := account.NewAccountWithPrivateKey(regnet.DeterministicKey(0))
	if err != nil {
		return nil, err
	}
	return ac.PublicKey.EncodePoint(true)
}

// sideChainPow: an OLD-format SideChainPow (it has inputs, so it pays a fee like any transfer)
func sideChainPow(idx int, fee common.Fixed64, nonce byte) interfaces.Transaction {
	sb, sg := fmt.Sprintf("%02x", 0xa0+int(nonce)), fmt.Sprintf("%02x", 0xb0+int(nonce)) // one side chain per tx: the pool keeps one proof per side chain
	sig, _ := common.HexStringToBytes(rn.SideChainPowSig(0, sb, sg))
	pl := &payload.SideChainPow{SideBlockHash: regnet.PadHash(sb), SideGenesisHash: regnet.PadHash(sg), BlockHeight: 1, Signature: sig}
	tx := functions.CreateTransaction(common2.TxVersion09, common2.SideChainPow, payload.SideChainPowVersion, pl,
		[]*common2.Attribute{{Usage: common2.Nonce, Data: []byte{nonce, 9}}},
		[]*common2.Input{{Previous: common2.OutPoint{TxID: splitTxID, Index: uint16(idx)}, Sequence: 0}},
		[]*common2.Output{{AssetID: core.ELAAssetID, Value: splitValue - fee, ProgramHash: rn.Addr(2), Type: common2.OTNone,
			Payload: &outputpayload.DefaultOutput{}}}, 0, nil)
	if err := rn.Sign(tx, 1); err != nil {
		panic("harness: sign: " + err.Error())
	}
	return tx
}

func execGen(t []string) string {
	setupNode()
	myLedger, myFound, myParams := blockchain.DefaultLedger, blockchain.FoundationAddress, config.DefaultParams
	blockchain.DefaultLedger, blockchain.FoundationAddress, config.DefaultParams = rnLedger, rnFound, *rn.Params
	defer func() {
		blockchain.DefaultLedger, blockchain.FoundationAddress, config.DefaultParams = myLedger, myFound, myParams
	}()
	rn.Chain.UTXOCache.CleanCache()
	ntx, _ := strconv.Atoi(t[1])
	pool := mempool.NewTxPool(rn.Params, rn.Chain.CkpManager)
	for i := 0; i < ntx; i++ {
		idx, _ := strconv.Atoi(t[2+2*i])
		if strings.HasSuffix(t[3+2*i], "s") {
			pool.AppendToTxPoolWithoutEvent(sideChainPow(idx, f64(strings.TrimSuffix(t[3+2*i], "s")), byte(i)))
			continue
		}
		fee := f64(t[3+2*i])
		tx, err := rn.Transfer(1, []common2.OutPoint{{TxID: splitTxID, Index: uint16(idx)}},
			[]regnet.Out{{To: 2, Value: splitValue - fee}}, uint64(100+i))
		if err != nil {
			panic("harness: transfer: " + err.Error())
		}
		pool.AppendToTxPoolWithoutEvent(tx) // rejected ones simply do not make it into the block
	}
	svc := pow.NewService(&pow.Config{PayToAddr: rn.Accounts[3].Address, Chain: rn.Chain, ChainParams: rn.Params,
		TxMemPool: pool, Arbitrators: rn.Arbiters})
	blk, err := svc.GenerateBlock(rn.Accounts[3].Address, 1000)
	if err != nil {
		return "generate-error"
	}
	name := func(u common.Uint168) string {
		switch {
		case u.IsEqual(rn.Addr(0)):
			return "fnd"
		case u.IsEqual(rn.Addr(3)):
			return "min"
		}
		return "o9"
	}
	var b strings.Builder
	cb := blk.Transactions[0]
	fmt.Fprintf(&b, "%d %d", len(blk.Transactions)-1, len(cb.Outputs()))
	for _, o := range cb.Outputs() {
		fmt.Fprintf(&b, " %d %s", int64(o.Value), name(o.ProgramHash))
	}
	ctx := "ok"
	if err := rn.Chain.VerifCheckTxsContext(blk); err != nil {
		ctx = "err"
	}
	fees := common.Fixed64(0)
	for _, tx := range blk.Transactions {
		fees += tx.Fee()
	}
	return fmt.Sprintf("%s | %s | %d %d", b.String(), ctx, int64(fees), int64(rn.Chain.GetBlockDPOSReward(blk)))
}

func safe(f func() error) (err error) {
	defer func() {
		if e := recover(); e != nil {
			err = fmt.Errorf("legacy panic")
		}
	}()
	return f()
}

func execAsg(t []string) string {
	setup()
	if t[0] == "asgn" {
		defer usePreset(t[1])()
		t = append([]string{t[0]}, t[2:]...)
	}
	h, active := atou32(t[1]), atou32(t[2])
	fees, reward := f64(t[4]), f64(t[5])
	if params.GetBlockReward(h) != reward {
		return "reward-mismatch"
	}
	if !isV2(active, h) {
		return "legacy"
	}
	setMode(active, t[3])
	crAddr := *params.CRConfiguration.CRAssetsProgramHash
	cb := coinbase(h, []*common2.Output{
		{AssetID: core.ELAAssetID, Value: 0, ProgramHash: crAddr, Payload: &outputpayload.DefaultOutput{}},
		{AssetID: core.ELAAssetID, Value: 0, ProgramHash: minerPH, Payload: &outputpayload.DefaultOutput{}}})
	blk := &types.Block{Header: common2.Header{Height: h}, Transactions: []interfaces.Transaction{cb}}
	total := fees + reward
	if err := svc.AssignCoinbaseTxRewards(blk, total); err != nil {
		return "assign-error"
	}
	var b strings.Builder
	fmt.Fprintf(&b, "%d", len(cb.Outputs()))
	for _, o := range cb.Outputs() {
		fmt.Fprintf(&b, " %d %s", int64(o.Value), addrName(o.ProgramHash))
	}
	// GetBlockDPOSReward for a block whose Σ tx.Fee() is `fees`
	dposReward := common.Fixed64(math.Ceil(float64(total) * 0.35))
	res := cbClass(chain.VerifCheckCoinbaseTransactionContext(h, cb, fees, dposReward))
	return b.String() + " | " + res
}

func exec(t []string) string {
	switch t[0] {
	case "rew":
		return execRew(t)
	case "cb", "cbn":
		return execCb(t)
	case "asg", "asgn":
		return execAsg(t)
	case "blk":
		return execBlk(t)
	case "rvt":
		return execRvt(t)
	case "gen":
		return execGen(t)
	}
	panic("harness: unknown op " + t[0])
}

// ---------------------------------------------------------------- generator

func genHeight(r *hx.Rand, newH, halvH, interval uint32) uint32 {
	switch r.Intn(8) {
	case 0:
		return newH + uint32(r.Intn(5)) - 2
	case 1:
		return halvH + uint32(r.Intn(5)) - 2
	case 2: // around a halving step
		if interval == 0 {
			return halvH
		}
		k := uint32(r.Intn(40))
		return halvH + k*interval + uint32(r.Intn(5)) - 2
	case 3:
		return math.MaxUint32 - uint32(r.Intn(3))
	case 4:
		return uint32(r.Intn(3))
	}
	return uint32(r.U64())>>uint(r.Intn(12))
}

func shares(total common.Fixed64) (cr, miner, dp common.Fixed64) {
	cr = common.Fixed64(math.Ceil(float64(total) * 0.3))
	dp = common.Fixed64(math.Ceil(float64(total) * 0.35))
	miner = total - cr - dp
	return
}

func genFees(r *hx.Rand) int64 {
	switch r.Intn(8) {
	case 0:
		return 0
	case 1:
		return int64(r.Intn(100000))
	case 2:
		return 1 << uint(r.Intn(62))
	case 3:
		return int64(1)<<50 + int64(r.Intn(5)) - 2
	case 4:
		return int64(1)<<53 + int64(r.Intn(9)) - 4
	case 5:
		return int64(r.U64() >> uint(1+r.Intn(40)))
	case 6:
		return -int64(r.Intn(400000000)) // fee totals can be negative (known finding C01-activate-cr-skips-fee)
	}
	return int64(r.Intn(2000)) * 10000
}

func gen(g *hx.Gen) {
	setup()
	r := g.R
	mp := config.GetDefaultParams()
	nets := [][4]uint32{
		{mp.NewELAIssuanceHeight, mp.HalvingRewardHeight, mp.HalvingRewardInterval, uint32(mp.PowConfiguration.RewardPerBlock)},
		{774920, 877880, 1051200, uint32(mp.PowConfiguration.RewardPerBlock)},
		{691740, 801240, 1051200, uint32(mp.PowConfiguration.RewardPerBlock)},
	}
	n := g.N(20000, 1000000)
	for i := 0; i < n; i++ {
		p := nets[r.Intn(len(nets))]
		if r.Chance(25) { // synthetic schedules, incl. interval 0/1/2 and new >= halving
			p = [4]uint32{uint32(r.Intn(3000)), uint32(r.Intn(3000)), uint32(r.Intn(50)), uint32(r.Intn(1000000000))}
			if r.Chance(20) {
				p[1] = 0
				p[2] = uint32(1 + r.Intn(2))
			}
		}
		if r.Chance(15) { // arbitrary large (HalvingRewardHeight, HalvingRewardInterval) pairs, either order
			p[0] = uint32(r.Intn(2000000))
			p[1] = uint32(r.Intn(3000000))
			p[2] = uint32(2 + r.Intn(3000000))
		}
		g.Emit("rew %d %d %d %d %d", p[0], p[1], p[2], p[3], genHeight(r, p[0], p[1], p[2]))
	}
	// every built-in network: windows around its own thresholds and halving steps
	for _, p := range nets {
		for k := uint32(0); k < 8; k++ {
			for d := int64(-2); d <= 2; d++ {
				for _, base := range []int64{int64(p[0]), int64(p[1]) + int64(k)*int64(p[2]), int64(p[2])} {
					if hh := base + d; hh >= 0 && hh <= math.MaxUint32 {
						g.Emit("rew %d %d %d %d %d", p[0], p[1], p[2], p[3], hh)
					}
				}
			}
		}
	}
	// every halving step of the mainnet schedule, windows of +-2
	for k := uint32(0); k < 45; k++ {
		for d := int64(-2); d <= 2; d++ {
			h := int64(mp.HalvingRewardHeight) + int64(k)*int64(mp.HalvingRewardInterval) + d
			if h <= math.MaxUint32 {
				g.Emit("rew %d %d %d %d %d", mp.NewELAIssuanceHeight, mp.HalvingRewardHeight, mp.HalvingRewardInterval,
					int64(mp.PowConfiguration.RewardPerBlock), h)
			}
		}
	}
	addrs := []string{"cr", "des", "stk", "min", "o1", "o2"}
	nc := g.N(6000, 300000)
	for i := 0; i < nc; i++ {
		active := uint32(1000000 + r.Intn(400000))
		h := active + 2 + uint32(r.Intn(3000000))
		switch r.Intn(20) {
		case 0:
			h = active + uint32(r.Intn(3))
		case 1:
			active = math.MaxUint32 - uint32(r.Intn(2))
			h = uint32(r.Intn(5))
		}
		powMode := r.Intn(2)
		fees := genFees(r)
		reward := params.GetBlockReward(h)
		total := common.Fixed64(fees) + reward
		cr, miner, dp := shares(total)
		a0, a2 := "cr", "stk"
		if powMode == 1 {
			a0, a2 = "des", "des"
		}
		vals := []int64{int64(cr), int64(miner), int64(dp)}
		as := []string{a0, "min", a2}
		dposReward := int64(dp)
		switch r.Intn(12) {
		case 0: // one value off by one
			vals[r.Intn(3)] += int64(r.Intn(3)) - 1
		case 1: // wrong address somewhere
			as[r.Intn(3)] = addrs[r.Intn(len(addrs))]
		case 2: // permuted
			i, j := r.Intn(3), r.Intn(3)
			vals[i], vals[j] = vals[j], vals[i]
		case 3: // wrong count
			switch r.Intn(4) {
			case 0:
				vals, as = vals[:2], as[:2]
			case 1:
				vals, as = append(vals, int64(r.Intn(3))), append(as, "o3")
			case 2:
				vals, as = vals[:1], as[:1]
			case 3:
				vals, as = nil, nil
			}
		case 4: // the block's Σ tx.Fee() differs from Σ GetTxFee
			dposReward += int64(r.Intn(3)) - 1
		case 5: // mode mismatch
			as[0], as[2] = "des", "stk"
		}
		var b strings.Builder
		fmt.Fprintf(&b, "%d", len(vals))
		for k := range vals {
			fmt.Fprintf(&b, " %d %s", vals[k], as[k])
		}
		if r.Chance(30) { // the same rule under the reward addresses of each built-in network preset
			if r.Chance(30) && len(as) == 3 && powMode == 0 {
				as[2] = "spl" // DPoS share to the stake POOL address: must be rejected everywhere
				b.Reset()
				fmt.Fprintf(&b, "%d", len(vals))
				for k := range vals {
					fmt.Fprintf(&b, " %d %s", vals[k], as[k])
				}
			}
			g.Emit("cbn %s %d %d %d %d %d %d %s", []string{"mainnet", "testnet", "regnet"}[r.Intn(3)], h, active, powMode, fees, int64(reward), dposReward, b.String())
			continue
		}
		g.Emit("cb %d %d %d %d %d %d %s", h, active, powMode, fees, int64(reward), dposReward, b.String())
	}
	// block level: the same coinbase vectors through checkTxsContext, with CheckRewardHeight
	// below / at / above the block height
	nb := g.N(2500, 120000)
	for i := 0; i < nb; i++ {
		active := uint32(1000000 + r.Intn(400000))
		h := active + 2 + uint32(r.Intn(3000000))
		powMode := r.Intn(2)
		reward := params.GetBlockReward(h)
		cr, miner, dp := shares(reward)
		a0, a2 := "cr", "stk"
		if powMode == 1 {
			a0, a2 = "des", "des"
		}
		vals := []int64{int64(cr), int64(miner), int64(dp)}
		as := []string{a0, "min", a2}
		switch r.Intn(9) {
		case 6:
			vals[2]++ // the DPoS share one sela above the exact ceiling
		case 0, 1:
			vals[r.Intn(3)] += int64(1 + r.Intn(500)) // pays too much
		case 2:
			vals[r.Intn(3)] -= 1
		case 3:
			as[r.Intn(3)] = addrs[r.Intn(len(addrs))]
		case 4:
			vals, as = append(vals, int64(r.Intn(1000))), append(as, "o3")
		case 5:
			vals, as = vals[:2], as[:2]
		}
		crh := []uint32{0, 436812, h - 1, h, h, h + 1, math.MaxUint32}[r.Intn(7)]
		var b strings.Builder
		fmt.Fprintf(&b, "%d", len(vals))
		for k := range vals {
			fmt.Fprintf(&b, " %d %s", vals[k], as[k])
		}
		g.Emit("blk %d %d %d %d %d %s", h, active, powMode, crh, int64(reward), b.String())
	}
	// the consensus mode as the real dpos State derives it from connected / disconnected blocks
	nr := g.N(400, 20000)
	for i := 0; i < nr; i++ {
		var steps []string
		var modes []bool // mode after each connected block
		pow := false
		for len(steps) < 1+r.Intn(7) {
			switch {
			case len(modes) > 0 && r.Chance(30):
				j := 1 + r.Intn(len(modes))
				steps = append(steps, fmt.Sprintf("r%d", j))
				modes = modes[:len(modes)-j]
				pow = len(modes) > 0 && modes[len(modes)-1]
			case !pow && r.Chance(35): // RevertToPOW is only valid while in DPoS consensus
				steps = append(steps, "p")
				pow = true
				modes = append(modes, pow)
			default:
				steps = append(steps, "e")
				modes = append(modes, pow)
			}
		}
		active := uint32(1000000 + r.Intn(400000))
		h := active + 2 + uint32(r.Intn(3000000))
		fees := genFees(r)
		reward := params.GetBlockReward(h)
		cr, miner, dp := shares(common.Fixed64(fees) + reward)
		a0, a2 := "cr", "stk"
		if r.Chance(45) { // the coinbase of a POW-mode block
			a0, a2 = "des", "des"
		}
		g.Emit("rvt %d %s %d %d %d %d %d 3 %d %s %d min %d %s", len(steps), strings.Join(steps, " "), h, active, fees, int64(reward),
			int64(dp), int64(cr), a0, int64(miner), int64(dp), a2)
	}
	// real block builder on a real node
	ng := g.N(120, 1500)
	for i := 0; i < ng; i++ {
		k := r.Intn(9)
		perm := []int{0, 1, 2, 3, 4, 5, 6, 7}
		for j := range perm {
			q := r.Intn(j + 1)
			perm[j], perm[q] = perm[q], perm[j]
		}
		var b strings.Builder
		fmt.Fprintf(&b, "gen %d", k)
		for j := 0; j < k; j++ {
			var fee int64
			switch r.Intn(8) {
			case 0:
				fee = 99 // below MinTransactionFee: the pool refuses it
			case 1:
				fee = 100
			case 2:
				fee = splitValue // everything is fee: zero-value output
			case 3:
				fee = splitValue + 1 // negative output: refused
			case 4:
				fee = int64(r.Intn(1000))
			default:
				fee = int64(r.Intn(100000)) * int64(1+r.Intn(1000))
			}
			if r.Chance(20) {
				fmt.Fprintf(&b, " %d %ds", perm[j], fee) // an old-format SideChainPow paying this fee
			} else {
				fmt.Fprintf(&b, " %d %d", perm[j], fee)
			}
		}
		g.Emit("%s", b.String())
	}
	na := g.N(3000, 150000)
	for i := 0; i < na; i++ {
		active := uint32(1000000 + r.Intn(400000))
		h := active + 2 + uint32(r.Intn(3000000))
		if r.Chance(10) { // far future: subsidy 0
			h = mp.HalvingRewardHeight + mp.HalvingRewardInterval*uint32(28+r.Intn(5))
		}
		fees := genFees(r)
		if r.Chance(10) {
			fees = int64(r.Intn(4))
		}
		if r.Chance(30) {
			g.Emit("asgn %s %d %d %d %d %d", []string{"mainnet", "testnet", "regnet"}[r.Intn(3)], h, active, r.Intn(2), fees, int64(params.GetBlockReward(h)))
			continue
		}
		g.Emit("asg %d %d %d %d %d", h, active, r.Intn(2), fees, int64(params.GetBlockReward(h)))
	}
}

// ---------------------------------------------------------------- oracle

func oracle(t []string, out string) *hx.Violation {
	if t[0] == "cbn" || t[0] == "asgn" {
		t = append([]string{strings.TrimSuffix(t[0], "n")}, t[2:]...)
	}
	switch t[0] {
	case "rew":
		if out == "panic" {
			return nil
		}
		f := strings.Fields(out)
		v, _ := strconv.ParseInt(f[0], 10, 64)
		if v < 0 && f64(t[4]) >= 0 {
			return &hx.Violation{Kind: "negative-subsidy", Detail: "GetBlockReward returned a negative amount"}
		}
		// non-increasing once the new schedule applies: compare with the next height (interval >= 2)
		h, newH, interval := atou32(t[5]), atou32(t[1]), atou32(t[3])
		if h >= newH && h < math.MaxUint32 && interval >= 2 {
			cfg := &config.Configuration{NewELAIssuanceHeight: newH, HalvingRewardHeight: atou32(t[2]), HalvingRewardInterval: interval}
			cfg.PowConfiguration.RewardPerBlock = f64(t[4])
			if next := int64(cfg.GetBlockReward(h + 1)); next > v {
				return &hx.Violation{Kind: "subsidy-increases", Detail: fmt.Sprintf("reward(%d)=%d < reward(%d)=%d", h, v, h+1, next)}
			}
		}
		// the schedule itself: factor 1 up to HalvingRewardHeight, then one more halving per interval
		if h >= newH && interval >= 2 {
			c0 := &config.Configuration{NewELAIssuanceHeight: 0, HalvingRewardHeight: math.MaxUint32, HalvingRewardInterval: interval}
			base := int64(c0.GetBlockReward(0)) // the reward before any halving
			halvH := atou32(t[2])
			want := base
			if h >= halvH {
				k := uint64(1) + uint64(h-halvH)/uint64(interval)
				if k >= 63 {
					want = 0
				} else {
					want = base >> k
				}
			}
			if v != want {
				return &hx.Violation{Kind: "off-schedule", Detail: fmt.Sprintf("reward(%d)=%d, the schedule says %d", h, v, want)}
			}
		}
	case "blk":
		if out != "ok" {
			return nil
		}
		h, crh := atou32(t[1]), atou32(t[4])
		if h < crh {
			return nil // below CheckRewardHeight the node deliberately does not enforce the amounts
		}
		reward := f64(t[5])
		n, _ := strconv.Atoi(t[6])
		cr, miner, dp := shares(reward)
		want0, want2 := "cr", "stk"
		if t[3] == "1" {
			want0, want2 = "des", "des"
		}
		if n != 3 || f64(t[7]) != cr || f64(t[9]) != miner || f64(t[11]) != dp || t[8] != want0 || t[12] != want2 {
			return &hx.Violation{Kind: "block-accepted-bad-coinbase",
				Detail: "checkTxsContext accepted a DPoS-v2 block whose coinbase is not the fixed split of subsidy+fees at the fixed addresses"}
		}
	case "cb":
		if out != "ok" {
			return nil
		}
		// accepted: exactly three outputs, fixed addresses, total = fees + subsidy when the block's fee sums agree
		fees, reward, dposReward := f64(t[4]), f64(t[5]), f64(t[6])
		n, _ := strconv.Atoi(t[7])
		if n != 3 {
			return &hx.Violation{Kind: "coinbase-count", Detail: "v2 coinbase accepted with other than 3 outputs"}
		}
		total := fees + reward
		cr, miner, dp := shares(total)
		if f64(t[8]) != cr || f64(t[10]) != miner || f64(t[12]) != dposReward {
			return &hx.Violation{Kind: "coinbase-split", Detail: "accepted coinbase does not pay the fixed shares"}
		}
		if dposReward == dp && f64(t[8])+f64(t[10])+f64(t[12]) != total {
			return &hx.Violation{Kind: "coinbase-total", Detail: "accepted coinbase does not pay subsidy+fees"}
		}
		want0, want2 := "cr", "stk"
		if t[3] == "1" {
			want0, want2 = "des", "des"
		}
		if t[9] != want0 || t[13] != want2 {
			return &hx.Violation{Kind: "coinbase-address", Detail: "accepted coinbase pays CR/DPoS share to another address"}
		}
		// shares within one sela (either side: 0.35 as a float64 is slightly below 35%) of 30% / 35% for
		// totals below 2^50 (float rounding; checked, not proved)
		if total >= 0 && total < 1<<50 {
			d30 := int64(cr)*10 - int64(total)*3
			d35 := int64(dp)*100 - int64(total)*35
			if d30 <= -10 || d30 >= 20 || d35 <= -100 || d35 >= 200 {
				return &hx.Violation{Kind: "coinbase-share-rounding", Detail: "share differs from the exact ceiling by more than one sela"}
			}
		}
	case "rvt":
		// the mode must be the one of the blocks that are still connected: POW iff a RevertToPOW
		// block is among them; and the coinbase rule must be applied under that mode
		k, _ := strconv.Atoi(t[1])
		var chain []bool
		for i := 0; i < k; i++ {
			st := t[2+i]
			switch {
			case st == "e":
				chain = append(chain, false)
			case st == "p":
				chain = append(chain, true)
			default:
				j, _ := strconv.Atoi(st[1:])
				chain = chain[:len(chain)-j]
			}
		}
		want := "dpos"
		for _, p := range chain {
			if p {
				want = "pow"
			}
		}
		f := strings.Fields(out)
		if len(f) < 2 {
			return nil
		}
		tail := t[2+k:]
		if f[0] != want {
			return &hx.Violation{Kind: "consensus-mode-after-reorg",
				Detail: "the DPoS state reports " + f[0] + " consensus although the connected blocks say " + want + "; coinbase " + strings.Join(tail[5:], " ") + " -> " + strings.Join(f[1:], " ")}
		}
		if f[1] == "ok" && ((want == "dpos" && (tail[7] != "cr" || tail[11] != "stk")) || (want == "pow" && (tail[7] != "des" || tail[11] != "des"))) {
			return &hx.Violation{Kind: "coinbase-address", Detail: "accepted coinbase pays CR/DPoS share to another address than the mode requires"}
		}
	case "gen":
		// the node's own block builder must produce a block the node's validator accepts; the two fee
		// sums the validator uses (Σ GetTxFee for the coinbase total, Σ tx.Fee() for the DPoS share)
		// must be the fees the transactions really pay; the coinbase pays subsidy + those fees
		f := strings.Fields(out)
		if len(f) < 6 {
			return &hx.Violation{Kind: "builder-failed", Detail: out}
		}
		nIn, _ := strconv.Atoi(f[0])
		nOut, _ := strconv.Atoi(f[1])
		ntx, _ := strconv.Atoi(t[1])
		want := int64(0)
		acc := 0
		for i := 0; i < ntx; i++ {
			fee, _ := strconv.ParseInt(strings.TrimSuffix(t[3+2*i], "s"), 10, 64)
			if fee >= 100 && fee <= splitValue {
				want += fee
				acc++
			}
		}
		sum := int64(0)
		for i := 0; i < nOut; i++ {
			v, _ := strconv.ParseInt(f[2+2*i], 10, 64)
			sum += v
		}
		rest := f[2+2*nOut:]
		if len(rest) != 5 || rest[1] != "ok" {
			return &hx.Violation{Kind: "builder-rejected", Detail: "GenerateBlock built a block that checkTxsContext rejects: " + out}
		}
		fees, _ := strconv.ParseInt(rest[3], 10, 64)
		subsidy := int64(rn.Params.GetBlockReward(2))
		if nIn != acc || fees != want {
			return &hx.Violation{Kind: "block-fee-sum", Detail: fmt.Sprintf("block carries %d txs with Σ tx.Fee() = %d, the transactions pay %d in %d txs", nIn, fees, want, acc)}
		}
		if sum != subsidy+want {
			return &hx.Violation{Kind: "coinbase-total", Detail: fmt.Sprintf("coinbase pays %d, subsidy %d + fees %d", sum, subsidy, want)}
		}
	case "asg":
		// a coinbase built by the node's own block builder must pass the node's check (dpos share > 0)
		if out == "legacy" {
			return nil
		}
		// whatever the preset, the builder pays the DPoS share to the stake-reward address (DPoS mode)
		if f := strings.Fields(out); len(f) > 7 && f[0] == "3" && t[3] == "0" && f[6] != "stk" {
			return &hx.Violation{Kind: "builder-address", Detail: "AssignCoinbaseTxRewards pays the DPoS share to " + f[6] + ", not to the stake-reward address"}
		}
		if strings.HasSuffix(out, "| ok") {
			return nil
		}
		total := f64(t[4]) + f64(t[5])
		if _, _, dp := shares(total); dp > 0 {
			return &hx.Violation{Kind: "builder-rejected", Detail: "AssignCoinbaseTxRewards built a coinbase the check rejects: " + out}
		}
	}
	return nil
}

func nontrivial(t []string, out string) bool { return out != "legacy" }

func bucket(t []string, out string) string {
	if i := strings.Index(out, "| "); i >= 0 {
		out = out[i+2:]
	}
	if t[0] == "rew" {
		if out == "panic" {
			return "rew/panic"
		}
		if strings.HasPrefix(out, "0 ") {
			return "rew/zero"
		}
		return "rew/value"
	}
	return t[0] + "/" + out
}

func main() {
	hx.Main(&hx.Prop{Name: "C11", Gen: gen, Exec: exec, Oracle: oracle, Nontrivial: nontrivial, Bucket: bucket})
	if rn != nil {
		rn.Close()
		os.RemoveAll(rnDir)
	}
	if ready {
		chain.GetDB().Close()
		os.RemoveAll(params.DataDir)
	}
}
