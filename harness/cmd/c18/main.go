// Harness for C18: stored blocks read back byte-for-byte (ffldb flat block files).
//
// Real code under test: database/ffldb through the public database API
// (database.Create/Open, Begin/Commit/Rollback/View, StoreBlock, HasBlock(s),
// FetchBlock(s), FetchBlockRegion(s), FetchBlockHeader) on a temp directory,
// with the block file size shrunk through the verif hook so that file
// rollover happens with small blocks.
//
// Stateful stream:
//
//	open net max | begin | sb hash data | commit | rollback | has h | fetch h | region h off len |
//	header h | loc h | regions (h off len)* | fetchs h* | hass h* | reopen | files | cursor | poke file off xor
package main

import (
	"bytes"
	"fmt"
	"os"
	"path/filepath"
	"sort"
	"strconv"
	"strings"

	"elaverif/harness/hx"

	"elaverif/harness/regnet"
	"github.com/btcsuite/btcd/wire"

	"github.com/elastos/Elastos.ELA/blockchain/indexers"
	"github.com/elastos/Elastos.ELA/common"
	"github.com/elastos/Elastos.ELA/core/types"
	"github.com/elastos/Elastos.ELA/core/types/functions"
	"github.com/elastos/Elastos.ELA/database"
	"github.com/elastos/Elastos.ELA/database/ffldb"
)

// ---------------------------------------------------------------- chain-level stream
//
//	cnode | cdeliver <block> | cblock id len ntx | chdr id | ctx txid blockId off len | cgettx txid height | ctxmiss txid
//
// A real ChainStore (blockchain.NewChainStore on ffldb, with the transaction and unspent
// indexers) inside a regnet node.  Signatures are re-made on every run (ECDSA), so no block bytes
// travel in op lines: len/ntx/off/len come from the node's in-memory block (Block.TxLoc) and the
// adapter reports structure (lengths, index offsets, ids the bytes deserialize to, region = slice).
// Exec answers from the store: FetchBlock, FetchBlockHeader, the transaction index entry
// (indexers.TxIndex.TxBlockRegion) + FetchBlockRegion, and ChainStore.GetTransaction with the
// transaction cache switched off (MemoryFirst) so that it really reads the region.

var sim = &regnet.Sim{Name: "c18", Maturity: 2}
var lastReply string

func dposBytes(b *types.Block) []byte {
	buf := new(bytes.Buffer)
	if err := (&types.DposBlock{Block: b}).Serialize(buf); err != nil {
		panic("harness: serialize block: " + err.Error())
	}
	return buf.Bytes()
}

func chainExec(t []string) (string, bool) {
	switch t[0] {
	case "cnode":
		closeAll()
		sim.Exec([]string{"reset"})
		sim.N.Params.MemoryFirst = true // no transaction cache in front of the region reads
		return "ok", true
	case "crestart":
		// node restart on the same data directory: the chain store is reopened, the tx index
		// re-initialises itself (TxIndex.Init: current block id by binary search)
		if !strings.HasPrefix(sim.Exec([]string{"restart"}), "ok") {
			return "restart-failed", true
		}
		sim.N.Params.MemoryFirst = true
		return "ok", true
	case "cdeliver":
		lastReply = sim.Exec(append([]string{"deliver"}, t[1:]...))
		return "done", true
	case "cblock", "chdr":
		b := sim.N.ByID(t[1])
		if b == nil {
			panic("harness: unknown block " + t[1])
		}
		h := b.Hash()
		var raw, hdr []byte
		err := sim.N.Store.GetFFLDB().View(func(tx database.Tx) error {
			r, e := tx.FetchBlock(&h)
			if e != nil {
				return e
			}
			raw = append([]byte(nil), r...)
			if t[0] == "chdr" {
				r, e = tx.FetchBlockHeader(&h)
				hdr = append([]byte(nil), r...)
			}
			return e
		})
		if err != nil {
			return errCode(err), true
		}
		if t[0] == "chdr" {
			return fmt.Sprintf("%d %v", len(hdr), len(raw) >= 84 && bytes.Equal(hdr, raw[:84])), true
		}
		var db types.DposBlock
		if err := db.Deserialize(bytes.NewReader(raw)); err != nil {
			return fmt.Sprintf("%d undecodable 0", len(raw)), true
		}
		return fmt.Sprintf("%d %s %d", len(raw), regnet.ID(db.Block.Hash()), len(db.Block.Transactions)), true
	case "ctx", "ctxmiss":
		tx := sim.N.TxByID(t[1])
		if tx == nil {
			panic("harness: unknown tx " + t[1])
		}
		h := tx.Hash()
		ff := sim.N.Store.GetFFLDB()
		region, err := indexers.NewTxIndex(ff).TxBlockRegion(&h)
		if err != nil || region == nil {
			return "none", true
		}
		var raw, stored []byte
		err = ff.View(func(dbTx database.Tx) error {
			r, e := dbTx.FetchBlockRegion(region)
			if e != nil {
				return e
			}
			raw = append([]byte(nil), r...)
			r, e = dbTx.FetchBlock(region.Hash)
			stored = append([]byte(nil), r...)
			return e
		})
		if err != nil {
			return errCode(err), true
		}
		got := "undecodable"
		rd := bytes.NewReader(raw)
		if txn, e := functions.GetTransactionByBytes(rd); e == nil {
			if e = txn.Deserialize(rd); e == nil && rd.Len() == 0 {
				got = regnet.ID(txn.Hash())
			}
		}
		end := int(region.Offset) + int(region.Len)
		same := end <= len(stored) && bytes.Equal(raw, stored[region.Offset:end])
		return fmt.Sprintf("%s %d %d %s %v", regnet.ID(*region.Hash), region.Offset, region.Len, got, same), true
	case "cgettx":
		tx := sim.N.TxByID(t[1])
		if tx == nil {
			panic("harness: unknown tx " + t[1])
		}
		got, ht, err := sim.N.Store.GetFFLDB().GetTransaction(tx.Hash())
		if err != nil {
			return "none", true
		}
		return fmt.Sprintf("%d %s", ht, regnet.ID(got.Hash())), true
	}
	return "", false
}

func chainOracle(t []string, out string) (*hx.Violation, bool) {
	switch t[0] {
	case "crestart":
		if out != "ok" {
			return viol("chain-restart-failed", "node restart answered "+out), true
		}
		return nil, true
	case "cnode", "cdeliver":
		return nil, true
	case "cblock":
		b := sim.N.ByID(t[1])
		if want := fmt.Sprintf("%d %s %d", len(dposBytes(b)), t[1], len(b.Transactions)); out != want {
			return viol("chain-block-differs", "FetchBlock through the chain store does not return the block that was stored: got "+clip(out)+" want "+want), true
		}
		return nil, true
	case "chdr":
		if out != "84 true" {
			return viol("chain-header-differs", "FetchBlockHeader is not the 84-byte prefix of the stored block: "+clip(out)), true
		}
		return nil, true
	case "ctx":
		b := sim.N.ByID(t[2])
		locs, _ := b.TxLoc()
		want := "?"
		for i, tx := range b.Transactions {
			if regnet.ID(tx.Hash()) == t[1] {
				want = fmt.Sprintf("%s %d %d %s true", t[2], locs[i].TxStart, locs[i].TxLen, t[1])
			}
		}
		if out != want {
			return viol("chain-tx-region-differs", "transaction index entry + FetchBlockRegion do not give the transaction: got "+clip(out)+" want "+want), true
		}
		return nil, true
	case "cgettx":
		if want := t[2] + " " + t[1]; out != want {
			return viol("chain-gettx-differs", "ChainStore.GetTransaction: got "+clip(out)+" want "+want), true
		}
		return nil, true
	case "ctxmiss":
		if out != "none" {
			return viol("chain-tx-stale-index", "a transaction that is not on the active chain is still in the transaction index: "+clip(out)), true
		}
		return nil, true
	}
	return nil, false
}

func genChainHistory(g *hx.Gen, steps int) {
	r := g.R
	emit := func(format string, a ...interface{}) string {
		line := fmt.Sprintf(format, a...)
		switch {
		case line == "reset":
			g.Emit("reset")
			return g.Emit("cnode")
		case strings.HasPrefix(line, "init "), strings.HasPrefix(line, "obs "):
			return "ok"
		case strings.HasPrefix(line, "deliver "):
			g.Emit("cdeliver %s", strings.TrimPrefix(line, "deliver "))
			return lastReply
		}
		panic("harness: unexpected regnet op " + line)
	}
	h := &regnet.HistGen{S: sim, R: r, Emit: emit}
	h.Start()
	active := h.Active
	byTip := map[string]*regnet.Branch{}
	hexOf := func(b *types.Block) string {
		v, _ := strconv.ParseUint(regnet.ID(b.Hash()), 16, 64)
		return strconv.FormatUint(v, 16)
	}
	var all []*types.Block
	look := func(b *types.Block, onChain bool) {
		id := regnet.ID(b.Hash())
		g.Emit("cblock %s %d %d", id, len(dposBytes(b)), len(b.Transactions))
		g.Emit("chdr %s", id)
		locs, err := b.TxLoc()
		if err != nil {
			panic("harness: txloc: " + err.Error())
		}
		for i, tx := range b.Transactions {
			tid := regnet.ID(tx.Hash())
			if onChain {
				g.Emit("ctx %s %s %d %d", tid, id, locs[i].TxStart, locs[i].TxLen)
				g.Emit("cgettx %s %d", tid, b.Height)
			}
		}
	}
	onActive := func() map[string]bool {
		m := map[string]bool{}
		for _, b := range active.Blocks {
			for _, tx := range b.Transactions {
				m[regnet.ID(tx.Hash())] = true
			}
		}
		return m
	}
	deliver := func(br *regnet.Branch, b *types.Block) *regnet.Branch {
		nb := regnet.Extend(br, b)
		byTip[hexOf(b)] = nb
		all = append(all, b)
		_, tip := h.Deliver(b)
		if a, ok := byTip[tip]; ok {
			active = a
		}
		return nb
	}
	honest := func() {
		b := h.HonestBlock(active, 3)
		deliver(active, b)
		look(b, true)
	}
	// a longer branch from 1–2 blocks back: disconnects blocks, their index entries must go
	reorg := func(depth int) {
		old := active
		br := regnet.Fork(active, len(active.Blocks)-depth)
		for k := 0; k <= depth; k++ {
			b := h.HonestBlock(br, 3)
			br = deliver(br, b)
		}
		on := onActive()
		for _, b := range old.Blocks[len(old.Blocks)-depth:] {
			look(b, false) // still in the block store
			for _, tx := range b.Transactions {
				if !on[regnet.ID(tx.Hash())] {
					g.Emit("ctxmiss %s", regnet.ID(tx.Hash()))
				}
			}
		}
		for _, b := range active.Blocks[len(active.Blocks)-depth-1:] {
			look(b, true)
		}
	}
	lookRecent := func(n int) {
		for i := len(active.Blocks) - 1; i >= 0 && i >= len(active.Blocks)-n; i-- {
			look(active.Blocks[i], true)
		}
	}
	for s := 0; s < steps; s++ {
		c := r.Intn(100)
		switch {
		case s%5 == 4 && len(active.Blocks) >= 5:
			// reorganisation, node restart (TxIndex.Init recovers the current internal block id
			// from the id bucket), more blocks: every block connected around the reorganisation
			// must still be found through its transactions' index entries
			reorg(1 + r.Intn(2))
			g.Emit("crestart")
			for k := 0; k < 3; k++ {
				honest()
				lookRecent(8)
			}
		case c < 80 || len(active.Blocks) < 3:
			honest()
		default:
			reorg(1 + r.Intn(2))
		}
		if r.Chance(15) && len(active.Blocks) > 0 { // older blocks again (block files, caches)
			b := active.Blocks[r.Intn(len(active.Blocks))]
			look(b, true)
		}
		if r.Chance(8) && len(active.Blocks) > 2 { // node restart: reopened store, TxIndex.Init
			g.Emit("crestart")
			lookRecent(3)
		}
	}
	_ = all
}

type state struct {
	dir string
	db  database.DB
	tx  database.Tx
	net uint32
	max uint32
}

var (
	st      *state
	dirSeq  int
	baseDir string
)

func base() string {
	if baseDir == "" {
		d, err := os.MkdirTemp("", "c18-")
		if err != nil {
			panic("harness: " + err.Error())
		}
		baseDir = d
	}
	return baseDir
}

func closeAll() {
	if st == nil {
		return
	}
	if st.tx != nil {
		_ = st.tx.Rollback()
		st.tx = nil
	}
	if st.db != nil {
		_ = st.db.Close()
		st.db = nil
	}
	if st.dir != "" {
		_ = os.RemoveAll(st.dir)
	}
	st = nil
}

func atoi(s string) int {
	v, err := strconv.Atoi(s)
	if err != nil {
		panic("harness: bad int " + s)
	}
	return v
}

// block data: "-" is an empty, non-nil byte slice
func dataOf(s string) []byte {
	if s == "-" {
		return []byte{}
	}
	return hx.UnHex(s)
}

func hashOf(s string) common.Uint256 {
	var h common.Uint256
	copy(h[:], hx.UnHex(s))
	return h
}

func errCode(err error) string {
	if err == nil {
		return "ok"
	}
	if de, ok := err.(database.Error); ok {
		switch de.ErrorCode {
		case database.ErrBlockNotFound:
			return "err notfound"
		case database.ErrBlockExists:
			return "err exists"
		case database.ErrBlockRegionInvalid:
			return "err region"
		case database.ErrCorruption:
			return "err corrupt"
		case database.ErrDriverSpecific:
			return "err driver"
		case database.ErrTxClosed:
			return "err txclosed"
		case database.ErrTxNotWritable:
			return "err notwritable"
		}
		return "err other-" + de.ErrorCode.String()
	}
	return "err unknown"
}

// view runs fn in the open read-write transaction if there is one, else in a View.
func view(fn func(tx database.Tx) string) string {
	if st.tx != nil {
		return fn(st.tx)
	}
	var out string
	_ = st.db.View(func(tx database.Tx) error {
		out = fn(tx)
		return nil
	})
	return out
}

func res(b []byte, err error) string {
	if err != nil {
		return errCode(err)
	}
	return "ok " + hx.Hex(b)
}

func filesOnDisk() string {
	ents, _ := os.ReadDir(st.dir)
	var parts []string
	for _, e := range ents {
		if strings.HasSuffix(e.Name(), ".fdb") {
			n, _ := strconv.Atoi(strings.TrimSuffix(e.Name(), ".fdb"))
			fi, _ := e.Info()
			parts = append(parts, fmt.Sprintf("%d:%d", n, fi.Size()))
		}
	}
	sort.Slice(parts, func(i, j int) bool {
		a, _ := strconv.Atoi(strings.Split(parts[i], ":")[0])
		b, _ := strconv.Atoi(strings.Split(parts[j], ":")[0])
		return a < b
	})
	if len(parts) == 0 {
		return "none"
	}
	return strings.Join(parts, ",")
}

// openFF creates or opens the database with the history's block file size already in force
// while openDB reconciles the files with the metadata (as a configured limit would be).
func openFF(create bool) (database.DB, error) {
	ffldb.VerifSetInitialMaxBlockFileSize(st.max)
	defer ffldb.VerifSetInitialMaxBlockFileSize(0)
	if create {
		return database.Create("ffldb", st.dir, wire.BitcoinNet(st.net))
	}
	return database.Open("ffldb", st.dir, wire.BitcoinNet(st.net))
}

func exec(t []string) string {
	if out, ok := chainExec(t); ok {
		return out
	}
	switch t[0] {
	case "reset":
		closeAll()
		sim.Close()
		return "ok"
	case "open":
		closeAll()
		dirSeq++
		st = &state{dir: filepath.Join(base(), fmt.Sprintf("db%d", dirSeq)), net: uint32(atoi(t[1])), max: uint32(atoi(t[2]))}
		db, err := openFF(true)
		if err != nil {
			panic("harness: create: " + err.Error())
		}
		st.db = db
		ffldb.VerifSetMaxBlockFileSize(db, st.max)
		f, o := ffldb.VerifWriteCursor(db)
		return fmt.Sprintf("ok %d %d", f, o)
	}
	if st == nil || st.db == nil {
		return "no-db"
	}
	switch t[0] {
	case "begin":
		if st.tx != nil {
			panic("harness: nested begin")
		}
		tx, err := st.db.Begin(true)
		if err != nil {
			return errCode(err)
		}
		st.tx = tx
		return "ok"
	case "sb":
		if st.tx == nil {
			// a read-only transaction must refuse
			var out string
			_ = st.db.View(func(tx database.Tx) error {
				out = errCode(tx.StoreBlock(hashOf(t[1]), dataOf(t[2])))
				return nil
			})
			return out
		}
		return errCode(st.tx.StoreBlock(hashOf(t[1]), dataOf(t[2])))
	case "commit":
		if st.tx == nil {
			panic("harness: commit without tx")
		}
		err := st.tx.Commit()
		st.tx = nil
		if err != nil {
			return errCode(err)
		}
		f, o := ffldb.VerifWriteCursor(st.db)
		return fmt.Sprintf("ok %d %d", f, o)
	case "ocommit":
		// Commit while every write to the NEXT block file fails: that file is a link to
		// /dev/full (opens fine, every write answers ENOSPC), so a commit that rolls over
		// into it takes the error path of writePendingAndCommit -> handleRollback.
		if st.tx == nil {
			panic("harness: ocommit without tx")
		}
		cf, _ := ffldb.VerifWriteCursor(st.db)
		link := filepath.Join(st.dir, fmt.Sprintf("%09d.fdb", cf+1))
		if err := os.Symlink("/dev/full", link); err != nil {
			panic("harness: cannot obstruct " + link + ": " + err.Error())
		}
		err := st.tx.Commit()
		st.tx = nil
		if fi, e := os.Lstat(link); e == nil && fi.Mode()&os.ModeSymlink != 0 {
			_ = os.Remove(link)
		}
		if err != nil {
			return errCode(err)
		}
		f, o := ffldb.VerifWriteCursor(st.db)
		return fmt.Sprintf("ok %d %d", f, o)
	case "rollback":
		if st.tx == nil {
			panic("harness: rollback without tx")
		}
		err := st.tx.Rollback()
		st.tx = nil
		return errCode(err)
	case "has":
		return view(func(tx database.Tx) string {
			ok, err := tx.HasBlock(hashOf(t[1]))
			if err != nil {
				return errCode(err)
			}
			return fmt.Sprint(ok)
		})
	case "fetch":
		return view(func(tx database.Tx) string {
			h := hashOf(t[1])
			return res(tx.FetchBlock(&h))
		})
	case "region":
		return view(func(tx database.Tx) string {
			h := hashOf(t[1])
			return res(tx.FetchBlockRegion(&database.BlockRegion{Hash: &h, Offset: uint32(atoi(t[2])), Len: uint32(atoi(t[3]))}))
		})
	case "header":
		return view(func(tx database.Tx) string {
			h := hashOf(t[1])
			return res(tx.FetchBlockHeader(&h))
		})
	case "loc":
		return view(func(tx database.Tx) string {
			h := hashOf(t[1])
			f, o, l, ok := ffldb.VerifBlockLocation(tx, &h)
			if !ok {
				return "none"
			}
			return fmt.Sprintf("%d %d %d", f, o, l)
		})
	case "regions":
		return view(func(tx database.Tx) string {
			var regs []database.BlockRegion
			hs := make([]common.Uint256, (len(t)-1)/3)
			for i, k := 1, 0; i+2 < len(t); i, k = i+3, k+1 {
				hs[k] = hashOf(t[i])
				regs = append(regs, database.BlockRegion{Hash: &hs[k], Offset: uint32(atoi(t[i+1])), Len: uint32(atoi(t[i+2]))})
			}
			out, err := tx.FetchBlockRegions(regs)
			if err != nil {
				return errCode(err)
			}
			parts := make([]string, len(out))
			for i := range out {
				parts[i] = hx.Hex(out[i])
			}
			return "ok " + strings.Join(parts, ",")
		})
	case "fetchs":
		return view(func(tx database.Tx) string {
			hs := make([]common.Uint256, len(t)-1)
			for i := range hs {
				hs[i] = hashOf(t[1+i])
			}
			out, err := tx.FetchBlocks(hs)
			if err != nil {
				return errCode(err)
			}
			parts := make([]string, len(out))
			for i := range out {
				parts[i] = hx.Hex(out[i])
			}
			return "ok " + strings.Join(parts, ",")
		})
	case "headers":
		return view(func(tx database.Tx) string {
			hs := make([]common.Uint256, len(t)-1)
			for i := range hs {
				hs[i] = hashOf(t[1+i])
			}
			out, err := tx.FetchBlockHeaders(hs)
			if err != nil {
				return errCode(err)
			}
			parts := make([]string, len(out))
			for i := range out {
				parts[i] = hx.Hex(out[i])
			}
			return "ok " + strings.Join(parts, ",")
		})
	case "hass":
		return view(func(tx database.Tx) string {
			hs := make([]common.Uint256, len(t)-1)
			for i := range hs {
				hs[i] = hashOf(t[1+i])
			}
			out, err := tx.HasBlocks(hs)
			if err != nil {
				return errCode(err)
			}
			parts := make([]string, len(out))
			for i := range out {
				parts[i] = fmt.Sprint(out[i])
			}
			return strings.Join(parts, ",")
		})
	case "reopen":
		if st.tx != nil {
			panic("harness: reopen inside tx")
		}
		closeErr := st.db.Close()
		st.db = nil
		db, err := openFF(false)
		if err != nil {
			if closeErr != nil {
				return "err close"
			}
			return errCode(err)
		}
		st.db = db
		ffldb.VerifSetMaxBlockFileSize(db, st.max)
		if closeErr != nil {
			return "err close" // Close of a healthy database must not fail (the directory was reopened anyway)
		}
		f, o := ffldb.VerifWriteCursor(db)
		return fmt.Sprintf("ok %d %d", f, o)
	case "files":
		return filesOnDisk()
	case "cursor":
		f, o := ffldb.VerifWriteCursor(st.db)
		return fmt.Sprintf("%d %d", f, o)
	case "poke":
		p := filepath.Join(st.dir, fmt.Sprintf("%09d.fdb", atoi(t[1])))
		b, err := os.ReadFile(p)
		if err != nil || atoi(t[2]) >= len(b) {
			return "skip"
		}
		f, err := os.OpenFile(p, os.O_RDWR, 0)
		if err != nil {
			return "skip"
		}
		_, _ = f.WriteAt([]byte{b[atoi(t[2])] ^ byte(atoi(t[3]))}, int64(atoi(t[2])))
		f.Close()
		return "ok"
	}
	panic("harness: unknown op " + strings.Join(t, " "))
}

// ---------------------------------------------------------------- oracle: reference map hash -> bytes

type ostate struct {
	committed map[string]string
	pending   map[string]string // nil when no rw tx is open
	tainted   bool              // a block file was edited behind the database's back, or an
	// oversize block (record larger than a whole block file) was stored: outside the property's premise
	max int
}

var os_ *ostate

func viol(kind, detail string) *hx.Violation { return &hx.Violation{Kind: kind, Detail: detail} }

func (o *ostate) get(h string) (string, bool) {
	if o.pending != nil {
		if d, ok := o.pending[h]; ok {
			return d, true
		}
	}
	d, ok := o.committed[h]
	return d, ok
}

func expectRegion(o *ostate, h string, off, n uint32) string {
	d, ok := o.get(h)
	if !ok {
		return "err notfound"
	}
	end := off + n
	if end < off || end > uint32(len(d)) {
		return "err region"
	}
	return "ok " + hx.Hex([]byte(d[off:end]))
}

func oracle(t []string, out string) *hx.Violation {
	if v, ok := chainOracle(t, out); ok {
		if out == "panic" {
			return viol("blockstore-panic", "chain store operation panicked: "+hx.LastPanic())
		}
		return v
	}
	if t[0] == "reset" {
		os_ = nil
		return nil
	}
	if t[0] == "open" {
		os_ = &ostate{committed: map[string]string{}, max: atoi(t[2])}
		return nil
	}
	o := os_
	if o == nil {
		return nil
	}
	if out == "panic" {
		return viol("blockstore-panic", "block store operation panicked: "+hx.LastPanic())
	}
	hk := func(s string) string { h := hashOf(s); return string(h[:]) }
	switch t[0] {
	case "begin":
		if out == "ok" {
			o.pending = map[string]string{}
		}
	case "sb":
		if o.pending == nil {
			return nil
		}
		_, exists := o.get(hk(t[1]))
		if exists {
			if out != "err exists" {
				return viol("store-duplicate", "StoreBlock of an existing hash answered "+out)
			}
			return nil
		}
		if out != "ok" {
			return viol("store-refused", "StoreBlock of a new hash answered "+out)
		}
		d := string(hx.UnHex(t[2]))
		o.pending[hk(t[1])] = d
		if len(d)+12 > o.max {
			o.tainted = true
		}
	case "commit":
		if strings.HasPrefix(out, "ok") {
			for k, v := range o.pending {
				o.committed[k] = v
			}
		} else if !o.tainted {
			return viol("commit-failed", "Commit answered "+out)
		}
		o.pending = nil
	case "ocommit":
		// the commit may fail (I/O error on the next block file) or not; either way it is all
		// or nothing, and what follows must behave as if a failed one never happened
		if strings.HasPrefix(out, "ok") {
			for k, v := range o.pending {
				o.committed[k] = v
			}
		} else if out != "err driver" && !o.tainted {
			return viol("commit-failed", "Commit with a failing block file answered "+out)
		}
		o.pending = nil
	case "rollback":
		o.pending = nil
	case "poke":
		if out == "ok" {
			o.tainted = true
		}
	case "reopen":
		o.pending = nil
		if !o.tainted && !strings.HasPrefix(out, "ok") {
			return viol("reopen-failed", "reopening a cleanly closed database answered "+out)
		}
	}
	if o.tainted {
		return nil
	}
	switch t[0] {
	case "has":
		_, ok := o.get(hk(t[1]))
		if out != fmt.Sprint(ok) {
			return viol("has-differs", "HasBlock answered "+out)
		}
	case "fetch":
		d, ok := o.get(hk(t[1]))
		want := "err notfound"
		if ok {
			want = "ok " + hx.Hex([]byte(d))
		}
		if out != want {
			return viol("fetch-differs", "FetchBlock does not return the stored bytes: got "+clip(out)+" want "+clip(want))
		}
	case "region":
		want := expectRegion(o, hk(t[1]), uint32(atoi(t[2])), uint32(atoi(t[3])))
		if out != want {
			k := "region-differs"
			if want == "err region" {
				k = "region-out-of-bounds-accepted"
			}
			return viol(k, "FetchBlockRegion: got "+clip(out)+" want "+clip(want))
		}
	case "header":
		want := expectRegion(o, hk(t[1]), 0, 84)
		if out != want {
			k := "header-differs"
			if want == "err region" {
				k = "region-out-of-bounds-accepted"
			}
			return viol(k, "FetchBlockHeader: got "+clip(out)+" want "+clip(want))
		}
	case "regions":
		var parts []string
		for i := 1; i+2 < len(t); i += 3 {
			w := expectRegion(o, hk(t[i]), uint32(atoi(t[i+1])), uint32(atoi(t[i+2])))
			if !strings.HasPrefix(w, "ok ") {
				if out != w {
					k := "regions-differ"
					if w == "err region" {
						k = "region-out-of-bounds-accepted"
					}
					return viol(k, "FetchBlockRegions: got "+clip(out)+" want "+w)
				}
				return nil
			}
			parts = append(parts, w[3:])
		}
		if want := "ok " + strings.Join(parts, ","); out != want {
			return viol("regions-differ", "FetchBlockRegions: got "+clip(out)+" want "+clip(want))
		}
	case "fetchs":
		var parts []string
		for i := 1; i < len(t); i++ {
			d, ok := o.get(hk(t[i]))
			if !ok {
				if out != "err notfound" {
					return viol("fetch-differs", "FetchBlocks: got "+clip(out)+" want err notfound")
				}
				return nil
			}
			parts = append(parts, hx.Hex([]byte(d)))
		}
		if want := "ok " + strings.Join(parts, ","); out != want {
			return viol("fetch-differs", "FetchBlocks: got "+clip(out)+" want "+clip(want))
		}
	case "headers":
		var parts []string
		for i := 1; i < len(t); i++ {
			w := expectRegion(o, hk(t[i]), 0, 84)
			if !strings.HasPrefix(w, "ok ") {
				if out != w {
					k := "header-differs"
					if w == "err region" {
						k = "region-out-of-bounds-accepted"
					}
					return viol(k, "FetchBlockHeaders: got "+clip(out)+" want "+w)
				}
				return nil
			}
			parts = append(parts, w[3:])
		}
		if want := "ok " + strings.Join(parts, ","); out != want {
			return viol("header-differs", "FetchBlockHeaders: got "+clip(out)+" want "+clip(want))
		}
	case "hass":
		var parts []string
		for i := 1; i < len(t); i++ {
			_, ok := o.get(hk(t[i]))
			parts = append(parts, fmt.Sprint(ok))
		}
		if want := strings.Join(parts, ","); out != want {
			return viol("has-differs", "HasBlocks answered "+out+" want "+want)
		}
	}
	return nil
}

func clip(s string) string {
	if len(s) > 120 {
		return s[:120] + "…"
	}
	return s
}

// ---------------------------------------------------------------- generator

type blk struct {
	hash string
	n    int
}

func genHistory(g *hx.Gen, max int, nTx int, oversize bool, pokes bool) {
	r := g.R
	g.Emit("reset")
	g.Emit("open %d %d", 0x0b110907+r.Intn(3), max)
	var known []blk
	seq := 0
	newHash := func() string {
		seq++
		return fmt.Sprintf("%02x%02x%s", seq>>8, seq&0xff, hx.Hex(r.Bytes(2)))
	}
	pickHash := func() string {
		if len(known) == 0 || r.Chance(10) {
			return fmt.Sprintf("ee%02x", r.Intn(256)) // unknown
		}
		return known[r.Intn(len(known))].hash
	}
	size := func() int {
		switch r.Intn(10) {
		case 0:
			return 0
		case 1:
			return 1 + r.Intn(3)
		case 2:
			return 83 + r.Intn(3) // around the 84-byte header region
		case 3:
			return max - 12 - r.Intn(3) // fills a file exactly / almost
		case 4:
			if oversize {
				return max - 12 + 1 + r.Intn(2*max)
			}
			return r.Intn(max - 11)
		case 5:
			return (max - 12) / 2
		}
		return r.Intn(max - 11)
	}
	regionOps := func(b blk) {
		n := b.n
		for k := 0; k < 1+r.Intn(3); k++ {
			var off, ln int
			switch r.Intn(9) {
			case 0:
				off, ln = 0, n
			case 1:
				off, ln = n, 0
			case 2:
				off, ln = 0, n+1+r.Intn(12) // just beyond: the record framing is 12 bytes
			case 3:
				off, ln = r.Intn(n+1), n+1+r.Intn(14)
			case 4:
				off, ln = n+r.Intn(14), r.Intn(3)
			case 5:
				off, ln = 4294967295-r.Intn(4), 1+r.Intn(8) // uint32 wrap
			case 6:
				off, ln = 0, 0
			default:
				off = r.Intn(n + 1)
				ln = r.Intn(n - off + 1)
			}
			g.Emit("region %s %d %d", b.hash, off, ln)
		}
		if r.Chance(30) {
			g.Emit("header %s", b.hash)
		}
	}
	for i := 0; i < nTx; i++ {
		x := r.Intn(100)
		switch {
		case x < 62:
			g.Emit("begin")
			var mine []blk
			for k := 0; k < 1+r.Intn(4); k++ {
				h := newHash()
				if r.Chance(8) && len(known) > 0 {
					h = known[r.Intn(len(known))].hash // duplicate: must be refused
				}
				n := size()
				out := g.Emit("sb %s %s", h, hx.Hex(r.Bytes(n)))
				if out == "ok" {
					mine = append(mine, blk{h, n})
				}
				if r.Chance(40) && len(mine) > 0 { // reads of pending blocks inside the transaction
					b := mine[r.Intn(len(mine))]
					g.Emit("fetch %s", b.hash)
					regionOps(b)
					g.Emit("has %s", b.hash)
				}
				if r.Chance(20) {
					g.Emit("fetch %s", pickHash())
				}
			}
			if r.Chance(18) {
				g.Emit("rollback")
				for _, b := range mine {
					g.Emit("has %s", b.hash)
				}
			} else if r.Chance(22) {
				// I/O failure on the next block file in the middle of the commit
				if strings.HasPrefix(g.Emit("ocommit"), "ok") {
					known = append(known, mine...)
				}
				g.Emit("files")
				for _, b := range mine {
					g.Emit("has %s", b.hash)
					g.Emit("fetch %s", b.hash)
				}
			} else {
				g.Emit("commit")
				known = append(known, mine...)
				g.Emit("files")
				for _, b := range mine {
					g.Emit("loc %s", b.hash)
				}
			}
		case x < 70:
			out := g.Emit("reopen")
			g.Emit("files")
			if !strings.HasPrefix(out, "ok") {
				return
			}
		case x < 74 && pokes && len(known) > 0:
			g.Emit("poke %d %d %d", r.Intn(3), r.Intn(max), 1+r.Intn(255))
		case x < 78:
			g.Emit("sb %s %s", newHash(), hx.Hex(r.Bytes(5))) // outside a read-write transaction
		case x < 84 && len(known) > 0:
			var parts []string
			for k := 0; k < 1+r.Intn(4); k++ {
				b := known[r.Intn(len(known))]
				off := r.Intn(b.n + 1)
				ln := r.Intn(b.n - off + 1)
				if r.Chance(10) {
					ln = b.n + 1 + r.Intn(12)
				}
				parts = append(parts, fmt.Sprintf("%s %d %d", b.hash, off, ln))
			}
			g.Emit("regions %s", strings.Join(parts, " "))
		case x < 88 && len(known) > 0:
			var parts []string
			for k := 0; k < 1+r.Intn(4); k++ {
				parts = append(parts, pickHash())
			}
			g.Emit("fetchs %s", strings.Join(parts, " "))
			g.Emit("hass %s", strings.Join(parts, " "))
			g.Emit("headers %s", strings.Join(parts, " "))
		default:
			h := pickHash()
			g.Emit("fetch %s", h)
			g.Emit("has %s", h)
			for _, b := range known {
				if b.hash == h {
					regionOps(b)
				}
			}
		}
	}
	// everything ever committed must read back, before and after a reopen
	for pass := 0; pass < 2; pass++ {
		for _, b := range known {
			g.Emit("fetch %s", b.hash)
			g.Emit("region %s %d %d", b.hash, b.n/2, b.n-b.n/2)
		}
		if pass == 0 {
			if out := g.Emit("reopen"); !strings.HasPrefix(out, "ok") {
				break
			}
		}
	}
	g.Emit("files")
}

// more block files than the open-file cache holds (maxOpenFiles = 25): every block in a file of
// its own, then several passes over all blocks in different orders without reopening, so that
// handles are evicted and the evicted files are read again
func genManyFiles(g *hx.Gen) {
	r := g.R
	g.Emit("reset")
	g.Emit("open %d %d", 0x0b110907, 64)
	var known []blk
	n := 30 + r.Intn(25)
	for len(known) < n {
		g.Emit("begin")
		for k := 0; k < 1+r.Intn(4) && len(known) < n; k++ {
			h := fmt.Sprintf("%04x%s", len(known)+1, hx.Hex(r.Bytes(1)))
			sz := 27 + r.Intn(26) // two of these never share a 64-byte file
			if g.Emit("sb %s %s", h, hx.Hex(r.Bytes(sz))) == "ok" {
				known = append(known, blk{h, sz})
			}
		}
		g.Emit("commit")
	}
	g.Emit("files")
	for pass := 0; pass < 3; pass++ {
		order := make([]int, len(known))
		for i := range order {
			order[i] = i
		}
		if pass == 1 {
			for i := len(order) - 1; i > 0; i-- {
				j := r.Intn(i + 1)
				order[i], order[j] = order[j], order[i]
			}
		}
		for _, i := range order {
			b := known[i]
			switch r.Intn(4) {
			case 0:
				g.Emit("region %s %d %d", b.hash, b.n/3, b.n-b.n/3)
			case 1:
				j := known[r.Intn(len(known))]
				g.Emit("regions %s 0 %d %s 1 %d", b.hash, b.n, j.hash, j.n-1)
			default:
				g.Emit("fetch %s", b.hash)
			}
		}
		if pass == 1 { // keep writing while many read handles are open
			g.Emit("begin")
			h := fmt.Sprintf("ee%02x%s", pass, hx.Hex(r.Bytes(1)))
			if g.Emit("sb %s %s", h, hx.Hex(r.Bytes(40))) == "ok" {
				known = append(known, blk{h, 40})
			}
			g.Emit("commit")
		}
	}
	g.Emit("reopen")
	for _, b := range known {
		g.Emit("fetch %s", b.hash)
	}
}

func gen(g *hx.Gen) {
	r := g.R
	for h := 0; h < g.N(2, 12); h++ {
		genChainHistory(g, g.N(25, 80))
	}
	sim.Close()
	for h := 0; h < g.N(3, 40); h++ {
		genManyFiles(g)
	}
	for h := 0; h < g.N(70, 1500); h++ {
		max := r.Pick(64, 64, 200, 200, 4096)
		genHistory(g, max, 10+r.Intn(25), false, false)
	}
	for h := 0; h < g.N(10, 150); h++ { // oversize blocks and corrupted files: correspondence only
		genHistory(g, r.Pick(64, 200), 8+r.Intn(15), r.Bool(), true)
	}
	g.Emit("reset")
	closeAll()
	if baseDir != "" {
		os.RemoveAll(baseDir)
	}
}

func nontrivial(t []string, out string) bool { return t[0] == "commit" && strings.HasPrefix(out, "ok") }

func bucket(t []string, out string) string {
	f := strings.Fields(out)
	k := t[0]
	if len(f) > 0 && (f[0] == "ok" || f[0] == "err") {
		k += "/" + f[0]
		if f[0] == "err" && len(f) > 1 {
			k += " " + f[1]
		}
	}
	return k
}

func main() {
	hx.Main(&hx.Prop{Name: "C18", Gen: gen, Exec: exec, Oracle: oracle, Nontrivial: nontrivial, Bucket: bucket, Stateful: true})
}
