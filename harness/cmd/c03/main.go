// Harness for C03: validation of decoded values never panics.
//
// Ops (first token = op name; every answer is what the REAL code did, a
// recovered Go panic is the answer `panic`):
//
//	std|sch|ms|ct <code>                      contract.IsStandard / IsSchnorr / IsMultiSig / GetCodeType
//	gei <nonce> <chainID> <h>                 auxpow.GetExpectedIndex
//	apcheck <rootOk> <nTxIn> <script> <auxRootRev> <h> <auxIndex> <chainID> <hash>
//	                                          AuxPow.Check on an AuxPow rebuilt from the op
//	run …                                     blockchain.RunPrograms (see harness/runop)
//	schn <code> <param>                       checkSchnorrSignatures alone (panic / no panic)
//	cc <code> <param>                         checkCrossChainSignatures alone, cms: crypto.CheckMultiSigSignatures
//	cb  <regime> <pow> <fee> <dposReward> <blockReward> <frc> <rewardCR> <rewardArb> <n> {<value> <tag>}*n <k> {<tag> <amount>}*k
//	                                          checkCoinbaseTransactionContext alone
//	cbs …same…                                real coinbase SanityCheck first, then the context check
//	sw <validate> <nArb> <k> {<index>}*k      signer loop of checkSchnorrWithdrawFromSidechain
//	blk <auxOk> <powOk> <tsOk> <maxTx> <flags> CheckBlockSanity on an assembled, serialized and decoded block (see execBlk)
//	txs <height> <tx bytes> / blkc <block bytes> / cfm <confirm bytes>   systematic sweep on a real in-process node (see execTxs)
//	nta / ntv / pgen                          NextTurnDPOSInfo comparison helpers; a second genesis block (see execNt, execPgen)
//	tcc <nOutputs> <index> / rtd <tx|bc> <nPrograms> <code>   targeted: cross-chain output index, RevertToDPOS programs (see execTcc)
//	rcr <code> / ina <tx|bc> <code>            RegisterCR key extraction; checkCRCArbitratorsSignatures m/n read (see execRcr, execIna)
//	rdc <addrs> <np> {<code> <registered>}*    ReturnDepositCoin SpecialContextCheck signer loop (see execRdc)
package main

import (
	"bytes"
	"encoding/hex"
	"fmt"
	"math"
	"math/big"
	mrand "math/rand"
	"os"
	"regexp"
	"strconv"
	"strings"
	"time"

	"elaverif/harness/hx"
	"elaverif/harness/regnet"
	"elaverif/harness/wire"

	"github.com/elastos/Elastos.ELA/auxpow"
	"github.com/elastos/Elastos.ELA/blockchain"
	"github.com/elastos/Elastos.ELA/common"
	"github.com/elastos/Elastos.ELA/common/config"
	"github.com/elastos/Elastos.ELA/core"
	"github.com/elastos/Elastos.ELA/core/checkpoint"
	"github.com/elastos/Elastos.ELA/core/contract"
	"github.com/elastos/Elastos.ELA/core/contract/program"
	"github.com/elastos/Elastos.ELA/core/transaction"
	"github.com/elastos/Elastos.ELA/core/types"
	ctypes "github.com/elastos/Elastos.ELA/core/types/common"
	"github.com/elastos/Elastos.ELA/core/types/functions"
	"github.com/elastos/Elastos.ELA/core/types/interfaces"
	"github.com/elastos/Elastos.ELA/core/types/outputpayload"
	"github.com/elastos/Elastos.ELA/core/types/payload"
	crstate "github.com/elastos/Elastos.ELA/cr/state"
	"github.com/elastos/Elastos.ELA/crypto"
	"github.com/elastos/Elastos.ELA/dpos/state"
	"github.com/elastos/Elastos.ELA/elanet/pact"
	"github.com/elastos/Elastos.ELA/mempool"
)

func b2s(b bool) string {
	if b {
		return "true"
	}
	return "false"
}

func i64(s string) int64 {
	v, err := strconv.ParseInt(s, 10, 64)
	if err != nil {
		panic("harness: bad int " + s)
	}
	return v
}

// ---------------------------------------------------------------- auxpow

func branchOf(h int) []common.Uint256 {
	br := make([]common.Uint256, h)
	for i := range br {
		for j := range br[i] {
			br[i][j] = byte(i + 1)
		}
	}
	return br
}

func auxRootRev(hash common.Uint256, h int, index int) []byte {
	rev, _ := common.Uint256FromBytes(common.BytesReverse(hash.Bytes()))
	root := auxpow.GetMerkleRoot(*rev, branchOf(h), index)
	return common.BytesReverse(root.Bytes())
}

func buildAuxPow(rootOk bool, nTxIn int, script []byte, h int, index int) *auxpow.AuxPow {
	ap := &auxpow.AuxPow{}
	ap.AuxMerkleBranch = branchOf(h)
	ap.AuxMerkleIndex = index
	ap.ParCoinbaseTx.TxIn = make([]*auxpow.BtcTxIn, 0)
	for i := 0; i < nTxIn; i++ {
		in := &auxpow.BtcTxIn{Sequence: uint32(i)}
		if i == 0 {
			in.SignatureScript = exact(script)
		} else {
			in.SignatureScript = []byte{}
		}
		ap.ParCoinbaseTx.TxIn = append(ap.ParCoinbaseTx.TxIn, in)
	}
	ap.ParCoinbaseTx.TxOut = make([]*auxpow.BtcTxOut, 0)
	ap.ParCoinBaseMerkle = make([]common.Uint256, 0)
	root := auxpow.GetMerkleRoot(ap.ParCoinbaseTx.Hash(), ap.ParCoinBaseMerkle, ap.ParMerkleIndex)
	if !rootOk {
		root[0] ^= 1
	}
	ap.ParBlockHeader.MerkleRoot = root
	return ap
}

func execApCheck(t []string) string {
	rootOk := t[1] == "1"
	nTxIn := atoi(t[2])
	script := hx.UnHex(t[3])
	rootRev := hx.UnHex(t[4])
	h := atoi(t[5])
	index := int(i64(t[6]))
	chainID := int(i64(t[7]))
	hb := hx.UnHex(t[8])
	hash, err := common.Uint256FromBytes(hb)
	if err != nil {
		panic("harness: bad hash")
	}
	if !bytes.Equal(auxRootRev(*hash, h, index), rootRev) {
		return "oracle-mismatch"
	}
	ap := buildAuxPow(rootOk, nTxIn, script, h, index)
	// the value under test is what a peer can send: go through the wire format
	buf := new(bytes.Buffer)
	if err := ap.Serialize(buf); err != nil {
		panic("harness: auxpow serialize")
	}
	var dec auxpow.AuxPow
	if err := dec.Deserialize(bytes.NewReader(buf.Bytes())); err != nil {
		return "undecodable"
	}
	hh := *hash
	return b2s(dec.Check(&hh, chainID))
}

// ---------------------------------------------------------------- coinbase

var (
	cbParams  *config.Configuration
	cbMock    *state.ArbitratorsMock
	tagHashes = map[int]common.Uint168{}
)

func tagHash(tag int) common.Uint168 {
	switch tag {
	case 0:
		return *cbParams.DestroyELAProgramHash
	case 1:
		return *cbParams.CRConfiguration.CRAssetsProgramHash
	case 2:
		return *cbParams.DPoSConfiguration.DPoSV2RewardAccumulateProgramHash
	}
	var h common.Uint168
	h[0] = 0x21
	for i := 1; i < len(h); i++ {
		h[i] = byte(tag)
	}
	return h
}

func setupNode() {
	functions.GetTransactionByTxType = transaction.GetTransaction
	functions.GetTransactionByBytes = transaction.GetTransactionByBytes
	functions.CreateTransaction = transaction.CreateTransaction
	functions.GetTransactionParameters = transaction.GetTransactionparameters
	cbParams = config.GetDefaultParams()
	cbMock = &state.ArbitratorsMock{}
	mockLedger = &blockchain.Ledger{Arbitrators: cbMock}
	blockchain.DefaultLedger = mockLedger
}

// heights of the three regimes of checkCoinbaseTransactionContext under the mock
// (GetDPoSV2ActiveHeight() = 2000000) and the default parameters.
func regimeHeight(reg string) uint32 {
	switch reg {
	case "v2":
		return 2000002
	case "pub":
		return cbParams.PublicDPOSHeight + 10
	case "old":
		return cbParams.PublicDPOSHeight - 10
	}
	panic("harness: bad regime " + reg)
}

func ceilMul(v common.Fixed64, f float64) common.Fixed64 {
	return common.Fixed64(math.Ceil(float64(v) * f))
}

type cbOp struct {
	reg                                              string
	pow                                              bool
	fee, dpos, blockReward, frc, rewardCR, rewardArb common.Fixed64
	outs                                             []*ctypes.Output
	rewards                                          map[common.Uint168]common.Fixed64
}

func parseCb(t []string) *cbOp {
	o := &cbOp{reg: t[1], pow: t[2] == "1"}
	o.fee, o.dpos, o.blockReward, o.frc = common.Fixed64(i64(t[3])), common.Fixed64(i64(t[4])), common.Fixed64(i64(t[5])), common.Fixed64(i64(t[6]))
	o.rewardCR, o.rewardArb = common.Fixed64(i64(t[7])), common.Fixed64(i64(t[8]))
	i := 9
	n := atoi(t[i])
	i++
	for k := 0; k < n; k++ {
		o.outs = append(o.outs, &ctypes.Output{AssetID: core.ELAAssetID, Value: common.Fixed64(i64(t[i])), ProgramHash: tagHash(atoi(t[i+1])),
			Type: ctypes.OTNone, Payload: nil})
		i += 2
	}
	k := atoi(t[i])
	i++
	o.rewards = map[common.Uint168]common.Fixed64{}
	for j := 0; j < k; j++ {
		o.rewards[tagHash(atoi(t[i]))] = common.Fixed64(i64(t[i+1]))
		i += 2
	}
	return o
}

func cbErr(err error) string {
	if err == nil {
		return "ok"
	}
	s := err.Error()
	switch {
	case s == "rewardCyberRepublic value not correct":
		return "err crValue"
	case s == "rewardMergeMiner value not correct":
		return "err minerValue"
	case strings.HasPrefix(s, "coinbase only can have 3 outputs"):
		return "err count3"
	case s == "last DPoS reward value not correct":
		return "err dposValue"
	case s == "DPoS reward address not correct":
		return "err dposAddr"
	case s == "rewardCyberRepublic address not correct":
		return "err crAddr"
	case s == "reward amount in coinbase not correct":
		return "err amount"
	case s == "coinbase output count not match":
		return "err countMatch"
	case s == "unknown dpos reward address":
		return "err unknownAddr"
	case s == "incorrect dpos reward amount":
		return "err badAmount"
	case strings.HasPrefix(s, "Reward amount in coinbase not correct"):
		return "err oldAmount"
	}
	return "err other:" + strings.ReplaceAll(s, " ", "_")
}

func execCb(t []string, withSanity bool) string {
	o := parseCb(t)
	height := regimeHeight(o.reg)
	// oracle values carried by the op must be what the node computes
	if cbParams.GetBlockReward(height) != o.blockReward {
		return "oracle-mismatch"
	}
	total := o.fee + o.blockReward
	if ceilMul(total, 0.3) != o.rewardCR || ceilMul(total, 0.35) != o.rewardArb {
		return "oracle-mismatch"
	}
	cbMock.ArbitersRoundReward = o.rewards
	cbMock.FinalRoundChange = o.frc
	st := &state.State{StateKeyFrame: &state.StateKeyFrame{}}
	if o.pow {
		st.ConsensusAlgorithm = state.POW
	} else {
		st.ConsensusAlgorithm = state.DPOS
	}
	tx := functions.CreateTransaction(ctypes.TxVersion09, ctypes.CoinBase, 0, &payload.CoinBase{Content: []byte("c03")},
		[]*ctypes.Attribute{}, []*ctypes.Input{{Previous: ctypes.OutPoint{TxID: common.EmptyHash, Index: math.MaxUint16}, Sequence: math.MaxUint32}},
		o.outs, 0, []*program.Program{})
	if withSanity {
		para := functions.GetTransactionParameters(tx, height, 0, cbParams, (*blockchain.BlockChain)(nil), 0)
		if e := tx.SetParameters(para); e != nil {
			panic("harness: SetParameters")
		}
		// the step of DefaultChecker.SanityCheck that carries the output-count guard
		if err := tx.CheckTransactionOutput(); err != nil {
			if strings.Contains(err.Error(), "coinbase output is not enough, at least 2") ||
				strings.Contains(err.Error(), "output count should not be greater than 65535") {
				return "sanity-reject"
			}
			// other sanity rules (asset id, 30% rule, …) are not this property's subject
		}
	}
	return cbErr(blockchain.VerifC03CoinbaseContext(cbParams, st, height, tx, o.fee, o.dpos))
}

// ---------------------------------------------------------------- schnorr withdraw

var arbKeys [][]byte // deterministic node public keys (secp256k1-compatible encodings are not needed: P-256 points)

func arbKey(i int) []byte {
	for len(arbKeys) <= i {
		r := hx.NewRand(uint64(7000 + len(arbKeys)))
		arbKeys = append(arbKeys, newKey(r).Enc)
	}
	return arbKeys[i]
}

func execSw(t []string) string {
	validate := t[1] == "1"
	nArb := atoi(t[2])
	k := atoi(t[3])
	signers := make([]uint8, k)
	for i := 0; i < k; i++ {
		signers[i] = uint8(atoi(t[4+i]))
	}
	members := make([]state.ArbiterMember, 0, nArb)
	for i := 0; i < nArb; i++ {
		m, err := state.NewOriginArbiter(arbKey(i))
		if err != nil {
			panic("harness: arbiter")
		}
		members = append(members, m)
	}
	cbMock.CurrentArbitrators = members
	pld := &payload.WithdrawFromSideChain{Signers: signers}
	tx := functions.CreateTransaction(ctypes.TxVersion09, ctypes.WithdrawFromSideChain, payload.WithdrawFromSideChainVersionV2, pld,
		[]*ctypes.Attribute{}, []*ctypes.Input{}, []*ctypes.Output{}, 0, []*program.Program{})
	err := transaction.VerifC03SchnorrWithdraw(tx, pld, validate)
	if err != nil {
		switch err.Error() {
		case "invalid schnorr withdraw signer index":
			return "err badIndex"
		case "duplicate schnorr withdraw signer index":
			return "err dup"
		}
	}
	return "loop-ok" // the signer loop was left normally (whatever the later checks said)
}

// ---------------------------------------------------------------- block sanity head
//
//	blk <auxOk> <powOk> <tsOk> <maxTx> <flags>     flags: one character per transaction, 1 = coinbase, 0 = transfer, "-" = no transaction
//
// A block is assembled (header, merged-mining proof committing to the header hash, parent header
// solved against an easy target), serialized, DEserialized, and given to the real CheckBlockSanity.
// Answer: err <class> for the rejections up to the coinbase-position tests, `later` for anything after.

func sanityParams() *config.Configuration {
	p := *config.GetDefaultParams()
	p.PowConfiguration.PowLimit = new(big.Int).Sub(new(big.Int).Lsh(big.NewInt(1), 255), big.NewInt(1))
	return &p
}

func plainTx(r *hx.Rand, coinbase bool) interfaces.Transaction {
	out := func() *ctypes.Output {
		var ph common.Uint168
		copy(ph[:], r.Bytes(21))
		ph[0] = 0x21
		return &ctypes.Output{AssetID: core.ELAAssetID, Value: common.Fixed64(r.Intn(1000)), ProgramHash: ph, Type: ctypes.OTNone,
			Payload: &outputpayload.DefaultOutput{}}
	}
	if coinbase {
		return functions.CreateTransaction(ctypes.TxVersion09, ctypes.CoinBase, 0, &payload.CoinBase{Content: r.Bytes(4)},
			[]*ctypes.Attribute{}, []*ctypes.Input{{Previous: ctypes.OutPoint{TxID: common.EmptyHash, Index: math.MaxUint16}, Sequence: math.MaxUint32}},
			[]*ctypes.Output{out(), out()}, 0, []*program.Program{})
	}
	var id common.Uint256
	copy(id[:], r.Bytes(32))
	return functions.CreateTransaction(ctypes.TxVersion09, ctypes.TransferAsset, 0, &payload.TransferAsset{},
		[]*ctypes.Attribute{{Usage: ctypes.Nonce, Data: r.Bytes(8)}}, []*ctypes.Input{{Previous: ctypes.OutPoint{TxID: id, Index: 0}, Sequence: 0}},
		[]*ctypes.Output{out()}, 0, []*program.Program{{Code: make([]byte, 35), Parameter: make([]byte, 65)}})
}

func execBlk(t []string) string {
	auxOk, powOk, tsOk := t[1] == "1", t[2] == "1", t[3] == "1"
	if atoi(t[4]) != int(pact.MaxTxPerBlock) {
		return "oracle-mismatch"
	}
	r := hx.NewRand(uint64(len(t[5])) + 77)
	blk := &types.Block{}
	blk.Header.Version = 0
	blk.Header.Height = 100
	blk.Header.Timestamp = uint32(time.Now().Unix() - 100)
	if !tsOk {
		blk.Header.Timestamp = uint32(time.Now().Unix() + 3*3600 + 100)
	}
	blk.Header.Bits = 0x207fffff
	if !powOk {
		blk.Header.Bits = 0x1900ffff
	}
	if t[5] != "-" {
		for _, c := range t[5] {
			blk.Transactions = append(blk.Transactions, plainTx(r, c == '1'))
		}
	}
	hash := blk.Header.Hash()
	root := auxRootRev(hash, 0, 0)
	script := append(append([]byte{0xfa, 0xbe, 'm', 'm'}, root...), 1, 0, 0, 0, 0, 0, 0, 0)
	blk.Header.AuxPow = *buildAuxPow(auxOk, 1, script, 0, 0)
	if powOk { // solve the parent header against the easy target
		target := blockchain.CompactToBig(blk.Header.Bits)
		for n := uint32(0); n < 1000; n++ {
			blk.Header.AuxPow.ParBlockHeader.Nonce = n
			h := blk.Header.AuxPow.ParBlockHeader.Hash()
			if blockchain.HashToBig(&h).Cmp(target) <= 0 {
				break
			}
		}
	}
	buf := new(bytes.Buffer)
	if err := blk.Serialize(buf); err != nil {
		panic("harness: block serialize: " + err.Error())
	}
	var dec types.Block
	if err := dec.Deserialize(bytes.NewReader(buf.Bytes())); err != nil {
		return "undecodable"
	}
	chain := blockchain.VerifC03Chain(sanityParams(), nil)
	err := chain.CheckBlockSanity(&dec)
	if err == nil {
		return "later"
	}
	s := err.Error()
	switch {
	case strings.Contains(s, "check aux pow failed"):
		return "err auxpow"
	case strings.Contains(s, "proof of work failed"):
		return "err pow"
	case strings.Contains(s, "too far in the future"), strings.Contains(s, "higher precision"):
		return "err time"
	case strings.Contains(s, "does not contain any transactions"):
		return "err notx"
	case strings.Contains(s, "too many"):
		return "err toomany"
	case strings.Contains(s, "header is too big"):
		return "err headersize"
	case strings.Contains(s, "serialized block is too big"):
		return "err blocksize"
	case strings.Contains(s, "first transaction in block is not a coinbase"):
		return "err nocoinbase"
	case strings.Contains(s, "second coinbase"):
		return "err second-coinbase"
	}
	return "later"
}

// ---------------------------------------------------------------- ReturnDepositCoin signer loop
//
//	rdc <number of distinct referenced addresses> <np> {<code> <registered 0|1>}*np
//
// The real ReturnDepositCoinTransaction.SpecialContextCheck on a chain whose DPoS state has a
// producer registered under the key of every program marked 1 (multi-sig code: the code itself,
// otherwise Code[1:len-1]).

func execRdc(t []string) string {
	addrCount, np := atoi(t[1]), atoi(t[2])
	st := &state.State{StateKeyFrame: state.NewStateKeyFrame()}
	var progs []*program.Program
	for k := 0; k < np; k++ {
		code := exact(hx.UnHex(t[3+2*k]))
		if t[4+2*k] == "1" {
			key := code
			if !contract.IsMultiSig(code) {
				if len(code) < 2 {
					panic("harness: cannot register a code shorter than 2 bytes")
				}
				key = code[1 : len(code)-1]
			}
			st.ActivityProducers[hex.EncodeToString(key)] = &state.Producer{}
		}
		progs = append(progs, &program.Program{Code: code, Parameter: []byte{}})
	}
	params := config.GetDefaultParams()
	chain := blockchain.VerifC03Chain(params, st)
	refs := map[*ctypes.Input]ctypes.Output{}
	var ins []*ctypes.Input
	for k := 0; k < addrCount; k++ {
		in := &ctypes.Input{Previous: ctypes.OutPoint{Index: uint16(k)}}
		ins = append(ins, in)
		var ph common.Uint168
		ph[0] = 0x1f
		ph[1] = byte(k + 1)
		refs[in] = ctypes.Output{Value: 100, ProgramHash: ph}
	}
	tx := functions.CreateTransaction(ctypes.TxVersion09, ctypes.ReturnDepositCoin, 0, &payload.ReturnDepositCoin{},
		[]*ctypes.Attribute{}, ins, []*ctypes.Output{}, 0, progs)
	if e := tx.SetParameters(&transaction.TransactionParameters{Transaction: tx, BlockHeight: 1000000, Config: params, BlockChain: chain}); e != nil {
		panic("harness: SetParameters")
	}
	tx.SetReferences(refs)
	err, _ := tx.SpecialContextCheck()
	if err == nil {
		return "ok"
	}
	s := err.Error()
	switch {
	case strings.Contains(s, "UTXO should from same deposit address"):
		return "err sameaddr"
	case strings.Contains(s, "signer must be producer"):
		return "err signer"
	case strings.Contains(s, "overspend deposit"):
		return "err overspend"
	}
	return "err other:" + strings.ReplaceAll(s, " ", "_")
}

// ---------------------------------------------------------------- RegisterCR key extraction, CRC arbiters m/n
//
//	rcr <code>            RegisterCRTransaction.SpecialContextCheck (payload version 0, CRInfo.Code = code, CID derived
//	                      from it, during the first voting period): err codenil | err invalidcode | later | panic
//	ina <tx|bc> <code>    checkCRCArbitratorsSignatures (core/transaction via CheckInactiveArbitrators with a CRC sponsor,
//	                      or the blockchain copy): reject-len (the explicit length error) | later | panic

var invalidCodeRe = regexp.MustCompile(`invalid code [0-9a-f]`)

func execRcr(t []string) string {
	code := exact(hx.UnHex(t[1]))
	params := config.GetDefaultParams()
	committee := crstate.NewCommittee(params, checkpoint.NewManager(params))
	st := &state.State{StateKeyFrame: state.NewStateKeyFrame()}
	chain := blockchain.VerifC03ChainCR(params, st, committee)
	info := &payload.CRInfo{Code: code, NickName: "c03", Url: "http://c03"}
	if len(code) > 0 {
		ct, _ := contract.CreateCRIDContractByCode(code)
		info.CID = *ct.ToProgramHash()
	}
	tx := functions.CreateTransaction(ctypes.TxVersion09, ctypes.RegisterCR, payload.CRInfoVersion, info,
		[]*ctypes.Attribute{}, []*ctypes.Input{}, []*ctypes.Output{}, 0, []*program.Program{{Code: code, Parameter: []byte{}}})
	height := params.CRConfiguration.CRVotingStartHeight + 1
	if e := tx.SetParameters(&transaction.TransactionParameters{Transaction: tx, BlockHeight: height, Config: params, BlockChain: chain}); e != nil {
		panic("harness: SetParameters")
	}
	err, _ := tx.SpecialContextCheck()
	if err == nil {
		return "later"
	}
	s := err.Error()
	switch {
	case strings.Contains(s, "code is nil"):
		return "err codenil"
	case invalidCodeRe.MatchString(s): // "invalid code <hex>" of the key extraction, not the later bare "invalid code"
		return "err invalidcode"
	case strings.Contains(s, "voting period"), strings.Contains(s, "already inuse"), strings.Contains(s, "already exist"), strings.Contains(s, "invalid cid"):
		return "harness-precondition:" + strings.ReplaceAll(s, " ", "_")
	}
	return "later"
}

func execIna(t []string) string {
	code := exact(hx.UnHex(t[2]))
	p := &program.Program{Code: code, Parameter: []byte{}}
	var err error
	if t[1] == "bc" {
		err = blockchain.VerifC03CheckCRCArbitratorsSignatures(p)
	} else {
		sponsor := arbKey(0)
		m, e := state.NewOriginArbiter(sponsor)
		if e != nil {
			panic("harness: arbiter")
		}
		cbMock.CRCArbitrators = []state.ArbiterMember{m}
		tx := functions.CreateTransaction(ctypes.TxVersion09, ctypes.InactiveArbitrators, 0,
			&payload.InactiveArbitrators{Sponsor: sponsor, Arbitrators: [][]byte{}}, []*ctypes.Attribute{}, []*ctypes.Input{},
			[]*ctypes.Output{}, 0, []*program.Program{p})
		err = transaction.CheckInactiveArbitrators(tx)
	}
	if err != nil && strings.Contains(err.Error(), "length not enough") {
		return "reject-len"
	}
	return "later"
}

// ---------------------------------------------------------------- systematic sweep on a real node
//
//	txs <height> <transaction bytes>     decode, BlockChain.CheckTransactionSanity, then (if accepted)
//	                                     BlockChain.CheckTransactionContext at <height>, on an in-process regnet node
//	                                     (real chain store, DPoS state, CR committee, UTXO set with the genesis coins)
//	blkc <block bytes>                   decode, CheckBlockSanity, then CheckBlockContext against the genesis node
//
// The model has nothing to predict but the absence of a panic: both sides answer `nopanic`
// (the stage reached is recorded in the histogram only).

var (
	realNode   *regnet.Node
	realLedger *blockchain.Ledger
	mockLedger *blockchain.Ledger
	lastStage  string
)

func getNode() *regnet.Node {
	if realNode == nil {
		dir, err := os.MkdirTemp("", "c03-regnet")
		if err != nil {
			panic("harness: tempdir")
		}
		n, err := regnet.NewNode(dir, regnet.Options{CoinbaseMaturity: 1, NoPoolEvents: true})
		if err != nil {
			panic("harness: regnet node: " + err.Error())
		}
		realNode = n
		realLedger = blockchain.DefaultLedger
	}
	return realNode
}

func useLedger(real bool) {
	if real {
		getNode()
		blockchain.DefaultLedger = realLedger
	} else {
		blockchain.DefaultLedger = mockLedger
	}
}

func execTxs(t []string) (res string) {
	n := getNode()
	height := uint32(atoi(t[1]))
	raw := hx.UnHex(t[2])
	lastStage = "undecodable"
	var tx interfaces.Transaction
	func() {
		defer func() { recover() }() // decoding is C02's subject
		r := bytes.NewReader(raw)
		x, err := functions.GetTransactionByBytes(r)
		if err != nil {
			return
		}
		if err := x.Deserialize(r); err != nil {
			return
		}
		tx = x
	}()
	if tx == nil {
		return "nopanic"
	}
	_ = tx.Hash() // every real path (block sanity, mempool) hashes the transaction before checking it
	lastStage = "sanity-reject"
	if err := n.Chain.CheckTransactionSanity(height, tx); err != nil {
		if os.Getenv("C03_STAGES") != "" {
			lastStage = fmt.Sprintf("sanity-reject:%d", int(err.Code()))
		}
		return "nopanic"
	}
	lastStage = "context-reject"
	if _, err := n.Chain.CheckTransactionContext(height, tx, 0, uint32(time.Now().Unix())); err != nil {
		lastStage = fmt.Sprintf("context-reject:%d", int(err.Code()))
		return "nopanic"
	}
	lastStage = "accepted"
	return "nopanic"
}

func execBlkc(t []string) string {
	n := getNode()
	lastStage = "undecodable"
	var blk types.Block
	ok := false
	func() {
		defer func() { recover() }()
		if err := blk.Deserialize(bytes.NewReader(hx.UnHex(t[1]))); err == nil {
			ok = true
		}
	}()
	if !ok {
		return "nopanic"
	}
	lastStage = "sanity-reject"
	if err := n.Chain.CheckBlockSanity(&blk); err != nil {
		return "nopanic"
	}
	lastStage = "context-reject"
	if err := n.Chain.CheckBlockContext(&blk, n.Chain.BestChain); err != nil {
		return "nopanic"
	}
	lastStage = "accepted"
	return "nopanic"
}

//	cfm <confirm bytes>    decode a payload.Confirm, then ConfirmSanityCheck, ConfirmContextCheck,
//	                       IllegalConfirmContextCheck and, on each vote and the proposal, the Proposal*/Vote* checks
//	                       of blockchain/confirmvalidator.go, against the real node's arbitrators

func execCfm(t []string) string {
	getNode()
	lastStage = "undecodable"
	c := &payload.Confirm{}
	ok := false
	func() {
		defer func() { recover() }()
		if err := c.Deserialize(bytes.NewReader(hx.UnHex(t[1]))); err == nil {
			ok = true
		}
	}()
	if !ok {
		return "nopanic"
	}
	lastStage = "checked"
	_ = blockchain.ConfirmSanityCheck(c)
	_ = blockchain.ConfirmContextCheck(c)
	_ = blockchain.IllegalConfirmContextCheck(c)
	_ = blockchain.ProposalCheck(&c.Proposal)
	_ = blockchain.ProposalCheckByHeight(&c.Proposal, 4000000)
	_ = blockchain.IllegalProposalContextCheck(&c.Proposal)
	for i := range c.Votes {
		_ = blockchain.VoteCheck(&c.Votes[i])
		_ = blockchain.VoteCheckByHeight(&c.Votes[i], 4000000)
		_ = blockchain.IllegalVoteContextCheck(&c.Votes[i])
	}
	return "nopanic"
}

// ---------------------------------------------------------------- targeted ops (round 5)
//
//	tcc <nOutputs> <outputIndex>   TransferCrossChainAsset payload version 0 with one cross-chain address whose
//	                               OutputIndexes[0] = <outputIndex> (a uint64), nOutputs cross-chain prefixed outputs:
//	                               the real SpecialContextCheck → err index | later | panic
//	rtd <tx|bc> <nPrograms> <code> RevertToDPOS: blockchain.CheckRevertToDPOSTransaction (bc; called by the DPoS
//	                               network handler without any sanity check) or core/transaction's
//	                               checkArbitratorsSignatures on the first program (tx) → reject-len | later | panic

func execTcc(t []string) string {
	nOut := atoi(t[1])
	idx, err := strconv.ParseUint(t[2], 10, 64)
	if err != nil {
		panic("harness: bad index")
	}
	var outs []*ctypes.Output
	for i := 0; i < nOut; i++ {
		var ph common.Uint168
		ph[0] = byte(contract.PrefixCrossChain)
		ph[1] = byte(i)
		outs = append(outs, &ctypes.Output{AssetID: core.ELAAssetID, Value: 100000000, ProgramHash: ph, Type: ctypes.OTNone, Payload: &outputpayload.DefaultOutput{}})
	}
	pl := &payload.TransferCrossChainAsset{CrossChainAddresses: []string{"sidechain-address"}, OutputIndexes: []uint64{idx},
		CrossChainAmounts: []common.Fixed64{1}}
	tx := functions.CreateTransaction(ctypes.TxVersion09, ctypes.TransferCrossChainAsset, payload.TransferCrossChainVersion, pl,
		[]*ctypes.Attribute{}, []*ctypes.Input{}, outs, 0, []*program.Program{})
	params := config.GetDefaultParams()
	if e := tx.SetParameters(&transaction.TransactionParameters{Transaction: tx, BlockHeight: 100, Config: params,
		BlockChain: blockchain.VerifC03Chain(params, nil)}); e != nil {
		panic("harness: SetParameters")
	}
	tx.SetReferences(map[*ctypes.Input]ctypes.Output{})
	cerr, _ := tx.SpecialContextCheck()
	if cerr != nil && strings.Contains(cerr.Error(), "cross chain index") {
		return "err index"
	}
	return "later"
}

func execRtd(t []string) string {
	n := atoi(t[2])
	var progs []*program.Program
	for i := 0; i < n; i++ {
		progs = append(progs, &program.Program{Code: exact(hx.UnHex(t[3])), Parameter: []byte{}})
	}
	var err error
	if t[1] == "bc" {
		tx := functions.CreateTransaction(ctypes.TxVersion09, ctypes.RevertToDPOS, 0, &payload.RevertToDPOS{}, []*ctypes.Attribute{},
			[]*ctypes.Input{}, []*ctypes.Output{}, 0, progs)
		err = blockchain.CheckRevertToDPOSTransaction(tx)
	} else {
		if n == 0 {
			return "reject-len" // the core/transaction copy is only reached with the sanity-checked first program
		}
		err = transaction.VerifC03CheckArbitratorsSignatures(progs[0])
	}
	if err != nil && strings.Contains(err.Error(), "length not enough") {
		return "reject-len"
	}
	return "later"
}

//	dpb <block bytes>      decode, then mempool.BlockPool.AddDposBlock (the entry point of blocks received from
//	                       peers in the DPoS era: it looks at Transactions[0].Outputs()[0] BEFORE any sanity check)
//	                       on the real node.  The generated blocks carry a DPoS-era height and never have a valid
//	                       merged-mining proof, so nothing is ever connected.

var realBlockPool *mempool.BlockPool

func execDpb(t []string) string {
	n := getNode()
	if realBlockPool == nil {
		realBlockPool = mempool.NewBlockPool(n.Params)
		realBlockPool.Chain = n.Chain
		realBlockPool.Store = n.Store
		realBlockPool.IsCurrent = func() bool { return true }
	}
	lastStage = "undecodable"
	blk := &types.Block{}
	ok := false
	func() {
		defer func() { recover() }()
		if err := blk.Deserialize(bytes.NewReader(hx.UnHex(t[1]))); err == nil {
			ok = true
		}
	}()
	if !ok {
		return "nopanic"
	}
	lastStage = "rejected"
	if _, _, err := realBlockPool.AddDposBlock(&types.DposBlock{Block: blk}); err == nil {
		lastStage = "accepted"
	}
	return "nopanic"
}

// ---------------------------------------------------------------- round 7: NextTurnDPOSInfo helpers, second genesis
//
//	nta <cr ids> <dpos ids> <next id:isCRC:elected;…>            isNextArbitratorsSame   → true | false | panic
//	ntv <cr ids> <dpos ids> <next id:elected;…> <nextCRC id:elected;…>   isNextArbitratorsSameV1
//	    ids are comma separated small numbers ("-" = none); key 0 is the empty key, key k the 33 bytes 02 k k … k
//	pgen <timestamp offset>   a sane block with Previous = zero hash and Height 0 (valid coinbase, merged-mining
//	                          proof and PoW) given to BlockChain.ProcessBlock of the real node, which already has a
//	                          genesis block → rejected | accepted | panic

type ntArbs struct {
	*state.ArbitratorsMock
	crc, elected map[string]bool
}

func (a *ntArbs) IsNextCRCArbitrator(pk []byte) bool              { return a.crc[string(pk)] }
func (a *ntArbs) IsMemberElectedNextCRCArbitrator(pk []byte) bool { return a.elected[string(pk)] }

func ntKey(id int) []byte {
	if id == 0 {
		return []byte{}
	}
	k := bytes.Repeat([]byte{byte(id)}, 33)
	k[0] = 2
	return k
}

func ntIDs(s string) [][]byte {
	out := [][]byte{}
	if s == "-" {
		return out
	}
	for _, f := range strings.Split(s, ",") {
		out = append(out, ntKey(atoi(f)))
	}
	return out
}

func execNt(t []string) string {
	arbs := &ntArbs{ArbitratorsMock: cbMock, crc: map[string]bool{}, elected: map[string]bool{}}
	blockchain.DefaultLedger = &blockchain.Ledger{Arbitrators: arbs}
	info := &payload.NextTurnDPOSInfo{CRPublicKeys: ntIDs(t[1]), DPOSPublicKeys: ntIDs(t[2])}
	parse := func(s string, withCRC bool) (keys [][]byte) {
		keys = [][]byte{}
		if s == "-" {
			return
		}
		for _, e := range strings.Split(s, ";") {
			f := strings.Split(e, ":")
			k := ntKey(atoi(f[0]))
			keys = append(keys, k)
			if withCRC {
				if f[1] == "1" {
					arbs.crc[string(k)] = true
				}
				if f[2] == "1" {
					arbs.elected[string(k)] = true
				}
			} else if f[1] == "1" {
				arbs.elected[string(k)] = true
			}
		}
		return
	}
	var next []*state.ArbiterInfo
	for _, k := range parse(t[3], t[0] == "nta") {
		next = append(next, &state.ArbiterInfo{NodePublicKey: k, IsNormal: true})
	}
	if t[0] == "nta" {
		return b2s(transaction.VerifC03IsNextArbitratorsSame(info, next))
	}
	return b2s(transaction.VerifC03IsNextArbitratorsSameV1(info, next, parse(t[4], false)))
}

func execPgen(t []string) string {
	n := getNode()
	lastStage = "built"
	cbBlock, err := n.Mine(n.Genesis, nil)
	if err != nil {
		panic("harness: mine")
	}
	blk := &types.Block{}
	blk.Header.Version = 0
	blk.Header.Height = 0
	blk.Header.Timestamp = n.Genesis.Timestamp + uint32(atoi(t[1]))
	blk.Header.Bits = 0x207fffff
	blk.Transactions = []interfaces.Transaction{cbBlock.Transactions[0]}
	blk.Header.MerkleRoot = cbBlock.Transactions[0].Hash()
	hash := blk.Header.Hash()
	root := auxRootRev(hash, 0, 0)
	script := append(append([]byte{0xfa, 0xbe, 'm', 'm'}, root...), 1, 0, 0, 0, 0, 0, 0, 0)
	blk.Header.AuxPow = *buildAuxPow(true, 1, script, 0, 0)
	target := blockchain.CompactToBig(blk.Header.Bits)
	for nn := uint32(0); nn < 1000; nn++ {
		blk.Header.AuxPow.ParBlockHeader.Nonce = nn
		h := blk.Header.AuxPow.ParBlockHeader.Hash()
		if blockchain.HashToBig(&h).Cmp(target) <= 0 {
			break
		}
	}
	if err := n.Chain.CheckBlockSanity(blk); err != nil {
		return "harness-precondition:not-sane:" + strings.ReplaceAll(err.Error(), " ", "_")
	}
	lastStage = "sane"
	if _, _, err := n.Chain.ProcessBlock(blk, nil); err != nil {
		return "rejected"
	}
	return "accepted"
}

// ---------------------------------------------------------------- exec

func exec(t []string) string {
	useLedger(t[0] == "txs" || t[0] == "blkc" || t[0] == "cfm" || t[0] == "dpb" || t[0] == "pgen")
	switch t[0] {
	case "std":
		return b2s(contract.IsStandard(exact(hx.UnHex(t[1]))))
	case "sch":
		return b2s(contract.IsSchnorr(exact(hx.UnHex(t[1]))))
	case "ms":
		return b2s(contract.IsMultiSig(exact(hx.UnHex(t[1]))))
	case "ct":
		return strconv.Itoa(int(contract.GetCodeType(exact(hx.UnHex(t[1])))))
	case "gei":
		return strconv.Itoa(auxpow.GetExpectedIndex(uint32(i64(t[1])), int(i64(t[2])), int(i64(t[3]))))
	case "apcheck":
		return execApCheck(t)
	case "run":
		return execRun(t)
	case "schn":
		_, err := blockchain.VerifC03CheckSchnorr(program.Program{Code: exact(hx.UnHex(t[1])), Parameter: exact(hx.UnHex(t[2]))}, [32]byte{1})
		if err != nil {
			return "reject"
		}
		return "accept"
	case "cc":
		if blockchain.VerifC03CheckCrossChain(program.Program{Code: exact(hx.UnHex(t[1])), Parameter: exact(hx.UnHex(t[2]))}, []byte{1}) != nil {
			return "reject"
		}
		return "accept"
	case "cms":
		if crypto.CheckMultiSigSignatures(program.Program{Code: exact(hx.UnHex(t[1])), Parameter: exact(hx.UnHex(t[2]))}, []byte{1}) != nil {
			return "reject"
		}
		return "accept"
	case "cb":
		return execCb(t, false)
	case "cbs":
		return execCb(t, true)
	case "sw":
		return execSw(t)
	case "blk":
		return execBlk(t)
	case "rdc":
		return execRdc(t)
	case "txs":
		return execTxs(t)
	case "blkc":
		return execBlkc(t)
	case "cfm":
		return execCfm(t)
	case "dpb":
		return execDpb(t)
	case "nta", "ntv":
		return execNt(t)
	case "pgen":
		return execPgen(t)
	case "tcc":
		return execTcc(t)
	case "rtd":
		return execRtd(t)
	case "rcr":
		return execRcr(t)
	case "ina":
		return execIna(t)
	}
	panic("harness: unknown op " + t[0])
}

// The property: none of these calls may panic.  `cb` with fewer than two outputs
// is outside it (the coinbase sanity check rejects such a transaction before the
// context check can see it — op `cbs` runs exactly that composition and is judged).
func oracle(t []string, out string) *hx.Violation {
	if out != "panic" {
		return nil
	}
	if t[0] == "cb" && atoi(t[9]) < 2 {
		return nil
	}
	if t[0] == "rdc" { // program codes below the sanity minimum (23 bytes) never reach the context check
		for k := 0; k < atoi(t[2]); k++ {
			if len(hx.UnHex(t[3+2*k])) < 23 {
				return nil
			}
		}
	}
	return &hx.Violation{Kind: "panic-" + t[0], Detail: "validation panicked: " + hx.LastPanic()}
}

// histogram key: op/class as hx does by default, and for the sweep ops the stage that was reached
func bucket(t []string, out string) string {
	if (t[0] == "txs" || t[0] == "blkc" || t[0] == "cfm" || t[0] == "dpb") && out != "panic" {
		return t[0] + "/" + lastStage
	}
	f := strings.Fields(out)
	cls := "value"
	if len(f) > 0 && (f[0] == "ok" || f[0] == "err" || f[0] == "panic" || f[0] == "true" || f[0] == "false" || f[0] == "accept" || f[0] == "reject") {
		cls = f[0]
		if f[0] == "err" && len(f) > 1 {
			cls += " " + f[1]
		}
	}
	return t[0] + "/" + cls
}

func nontrivial(t []string, out string) bool {
	if t[0] == "txs" || t[0] == "blkc" || t[0] == "cfm" || t[0] == "dpb" {
		return lastStage != "undecodable"
	}
	switch t[0] {
	case "std", "sch", "ms", "ct":
		return len(t[1]) >= 2*23
	}
	return out != "oracle-mismatch"
}

// ---------------------------------------------------------------- generators

var tailOps = []byte{0, 1, 2, 33, 0x50, 0x51, 0x52, 0x53, 0x60, 0x61, 0xAC, 0xAE, 0xAF, 0xFF}

func keyPush(r *hx.Rand) []byte {
	k := append([]byte{33}, r.Bytes(33)...)
	k[1] = 2 + byte(r.Intn(2))
	return k
}

// a multisig-shaped script: mEnc ‖ n × (0x21 ‖ key) ‖ nEnc ‖ op
func msScript(r *hx.Rand, mEnc []byte, nKeys int, nEnc []byte, op []byte) []byte {
	c := append([]byte{}, mEnc...)
	for i := 0; i < nKeys; i++ {
		c = append(c, keyPush(r)...)
	}
	c = append(c, nEnc...)
	return append(c, op...)
}

func numEnc(r *hx.Rand, v int) []byte {
	switch r.Intn(4) {
	case 0:
		return []byte{1, byte(v)}
	case 1:
		return []byte{2, byte(v >> 8), byte(v)}
	default:
		return []byte{byte(0x50 + v)}
	}
}

func genScripts(g *hx.Gen) {
	r := g.R
	emit := func(c []byte) {
		h := hx.Hex(c)
		g.Emit("ms %s", h)
		g.Emit("std %s", h)
		g.Emit("sch %s", h)
		g.Emit("ct %s", h)
	}
	// every length 0..80 (and around 34n+3) × leading byte class × trailing bytes × fill
	lens := []int{}
	for l := 0; l <= 80; l++ {
		lens = append(lens, l)
	}
	for n := 3; n <= 40; n++ {
		if g.Quick() && n > 10 && n%10 != 0 {
			continue
		}
		for d := -2; d <= 3; d++ {
			lens = append(lens, 34*n+3+d)
		}
	}
	leads := []byte{0, 1, 2, 3, 33, 0x50, 0x51, 0x52, 0x5F, 0x60, 0x61, 0xAE, 0xFF}
	for _, l := range lens {
		for _, lead := range leads {
			for fill := 0; fill < 3; fill++ {
				reps := g.N(2, 6)
				for rep := 0; rep < reps; rep++ {
					c := make([]byte, l)
					switch fill {
					case 1:
						for i := range c {
							c[i] = 33
						}
					case 2: // key pushes starting at offset 1, 2 or 3
						off := 1 + r.Intn(3)
						for i := off; i < l; i += 34 {
							c[i] = 33
						}
					}
					if l > 0 {
						c[0] = lead
					}
					if l > 1 && r.Chance(50) {
						c[1] = byte(r.Pick(0, 1, 2, 3, 33, 0x40))
					}
					if l > 2 && r.Chance(30) {
						c[2] = byte(r.Pick(0, 1, 2, 3, 33))
					}
					for k := 1; k <= 3 && k <= l; k++ {
						if r.Chance(70) {
							c[l-k] = tailOps[r.Intn(len(tailOps))]
						}
					}
					emit(c)
				}
			}
		}
	}
	// every leading opcode × every trailing opcode on the critical 70/71/72-byte shapes
	for lead := 0; lead < 256; lead++ {
		for _, tail := range tailOps {
			for _, l := range []int{69, 70, 71, 72} {
				c := make([]byte, l)
				c[0] = byte(lead)
				for i := 1; i+34 <= l; i += 34 {
					c[i] = 33
				}
				c[l-1] = tail
				if r.Chance(50) {
					c[l-2] = tailOps[r.Intn(len(tailOps))]
				}
				g.Emit("ms %s", hx.Hex(c))
			}
		}
	}
	// structured m-of-n scripts, valid and broken at the end
	for i := 0; i < g.N(1500, 20000); i++ {
		n := 1 + r.Intn(8)
		if r.Chance(5) {
			n = 16 + r.Intn(20)
		}
		m := 1 + r.Intn(n)
		if r.Chance(10) {
			m = r.Intn(20)
		}
		nDecl := n
		if r.Chance(15) {
			nDecl = r.Intn(18)
		}
		op := []byte{0xAE}
		if r.Chance(20) {
			op = []byte{tailOps[r.Intn(len(tailOps))]}
		}
		c := msScript(r, numEnc(r, m), n, numEnc(r, nDecl), op)
		if r.Chance(40) { // truncate / extend
			cut := r.Intn(5)
			if cut < len(c) {
				c = c[:len(c)-cut]
			}
			if r.Chance(30) {
				c = append(c, r.Bytes(r.Intn(3))...)
			}
		}
		emit(c)
	}
	// the int16 counter: 1030 keys (n > 1024), and n wrapping is out of reach of a 10000-byte program but not of the function
	for _, n := range []int{1023, 1024, 1025} {
		c := msScript(r, []byte{2, 0, 5}, n, []byte{2, byte(n >> 8), byte(n)}, []byte{0xAE})
		g.Emit("ms %s", hx.Hex(c))
	}
}

func genGei(g *hx.Gen) {
	r := g.R
	for h := -3; h <= 70; h++ {
		for i := 0; i < g.N(6, 40); i++ {
			nonce := uint32(r.U64())
			if r.Chance(10) {
				nonce = uint32(r.Pick(0, 1, 0xffffffff))
			}
			chain := r.Pick(1224, 0, 1, -1, 65535, 1<<31, -(1 << 31))
			g.Emit("gei %d %d %d", nonce, chain, h)
		}
	}
	for _, h := range []int{1 << 32, (1 << 32) + 5, -(1 << 32), 1<<32 - 1} {
		g.Emit("gei %d %d %d", uint32(r.U64()), 1224, h)
	}
}

func le32(v uint32) []byte { return []byte{byte(v), byte(v >> 8), byte(v >> 16), byte(v >> 24)} }

func genAuxPow(g *hx.Gen) {
	r := g.R
	marker := []byte{0xfa, 0xbe, 'm', 'm'}
	for i := 0; i < g.N(4000, 60000); i++ {
		var hash common.Uint256
		copy(hash[:], r.Bytes(32))
		h := r.Pick(0, 0, 1, 2, 3, 5, 8, 30, 31, 32, 33, 40)
		chainID := 1224
		if r.Chance(10) {
			chainID = r.Pick(0, 1, -1)
		}
		nonce := uint32(r.U64())
		// the index the nonce demands (real function; -1 / panic for h >= 32 handled)
		want := 0
		func() {
			defer func() { recover() }()
			want = auxpow.GetExpectedIndex(nonce, chainID, h)
		}()
		index := want
		if index < 0 || r.Chance(15) {
			index = r.Intn(1 << 10)
		}
		root := auxRootRev(hash, h, index)
		size := uint32(0)
		if h < 32 {
			size = uint32(1) << uint(h)
		}
		if r.Chance(12) {
			size = uint32(r.Pick(0, 1, 2, 7))
		}
		tail := append(le32(size), le32(nonce)...)
		switch r.Intn(8) {
		case 0:
			tail = tail[:r.Intn(8)] // truncated: 0..7 bytes after the root
		case 1:
			tail = append(tail, r.Bytes(r.Intn(6))...)
		}
		var script []byte
		pre := r.Bytes(r.Intn(6))
		switch r.Intn(12) {
		case 0: // no marker
			script = append(append(pre, root...), tail...)
		case 1: // marker twice
			script = append(append(append(append(pre, marker...), marker...), root...), tail...)
		case 2: // root not adjacent
			script = append(append(append(append(pre, marker...), r.Bytes(1+r.Intn(3))...), root...), tail...)
		case 3: // root missing
			script = append(append(pre, marker...), tail...)
		case 4: // marker and root shifted by one nibble (hex-string search finds them at an odd offset)
			body := append(append(append([]byte{}, marker...), root...), tail...)
			sh := make([]byte, len(body)+1)
			sh[0] = 0x10 | body[0]>>4
			for k := 0; k < len(body); k++ {
				lo := byte(0)
				if k+1 < len(body) {
					lo = body[k+1] >> 4
				}
				sh[k+1] = body[k]<<4 | lo
			}
			script = append(pre, sh...)
		case 5: // second marker after the root
			script = append(append(append(append(pre, marker...), root...), tail...), marker...)
		default:
			script = append(append(append(pre, marker...), root...), tail...)
		}
		nTxIn := r.Pick(1, 1, 1, 1, 0, 2)
		rootOk := 1
		if r.Chance(8) {
			rootOk = 0
		}
		g.Emit("apcheck %d %d %s %s %d %d %d %s", rootOk, nTxIn, hx.Hex(script), hx.Hex(root), h, index, chainID, hx.Hex(hash[:]))
	}
}

func genRun(g *hx.Gen) {
	r := g.R
	keys := make([]*keyPair, 8)
	for i := range keys {
		keys[i] = newKey(r)
	}
	prefixes := []byte{0x21, 0x12, 0x4B, 0x1F, 0x67, 0x3f, 0x00}
	stdCode := func(k *keyPair) []byte { return append(append([]byte{33}, k.Enc...), 0xAC) }
	msCode := func(m int, ks []*keyPair, last byte) []byte {
		c := []byte{byte(0x50 + m)}
		for _, k := range ks {
			c = append(append(c, 33), k.Enc...)
		}
		return append(c, byte(0x50+len(ks)), last)
	}
	paramLens := []int{0, 1, 63, 64, 65, 66, 129, 130, 195}
	for i := 0; i < g.N(1500, 20000); i++ {
		data := r.Bytes(1 + r.Intn(40))
		np := 1 + r.Intn(3)
		var hs []hashIn
		var ps []progIn
		for k := 0; k < np; k++ {
			var code []byte
			switch r.Intn(10) {
			case 0:
				code = r.Bytes(r.Intn(4)) // 0..3 bytes
			case 1:
				code = r.Bytes(r.Pick(22, 23, 34, 35, 36, 37))
			case 2: // schnorr shaped
				code = append([]byte{0x51, 33}, r.Bytes(33)...)
			case 3: // standard
				code = stdCode(keys[r.Intn(len(keys))])
				if r.Chance(25) { // a 33-byte key whose first byte announces another point format
					code[1] = byte(r.Pick(0x04, 0x06, 0x07, 0x00, 0x05))
				}
			case 4: // standard shaped, not CHECKSIG: the fall-through
				code = stdCode(keys[r.Intn(len(keys))])
				code[34] = byte(r.Pick(0, 0xAD, 0xAE, 0xAF))
			case 5, 6: // multisig
				n := 2 + r.Intn(3)
				code = msCode(1+r.Intn(n), keys[:n], 0xAE)
				if r.Chance(30) {
					code[0] = byte(r.Pick(0x50, 0x4f, 0x51+n, 0))
				}
			case 7: // cross chain
				n := 2 + r.Intn(3)
				code = msCode(1+r.Intn(n), keys[:n], 0xAF)
				if r.Chance(30) {
					code[0] = byte(r.Pick(0x50, 0x4f, 0))
				}
			case 8: // long enough, wrong length modulo 34
				code = append(msCode(1, keys[:2], 0xAE), r.Bytes(1+r.Intn(3))...)
				code[len(code)-1] = byte(r.Pick(0xAE, 0xAF))
			default:
				code = r.Bytes(71 + r.Intn(10))
				code[len(code)-1] = byte(r.Pick(0xAE, 0xAF, 0xAC))
			}
			pl := paramLens[r.Intn(len(paramLens))]
			param := r.Bytes(pl)
			if pl >= 65 && pl%65 == 0 && r.Chance(60) { // real signatures by some of the keys
				param = nil
				for s := 0; s < pl/65; s++ {
					param = append(append(param, 64), sign(r, keys[r.Intn(4)], data)...)
				}
			}
			pfx := prefixes[r.Intn(len(prefixes))]
			hash := common.ToCodeHash(code).Bytes()
			if r.Chance(8) {
				hash = r.Bytes(20)
			}
			hs = append(hs, hashIn{Pfx: pfx, Hash: hash})
			ps = append(ps, progIn{Code: code, Param: param})
		}
		if r.Chance(5) && len(hs) > 0 {
			hs = hs[:len(hs)-1]
		}
		g.Emit("%s", runLine(data, hs, ps))
	}
	// Schnorr programs whose compressed key has an x coordinate at or above the field prime P (top bits all ones):
	// SchnorrVerify must reject them, whatever the decompression does with x mod P
	pP := crypto.DefaultParams.P
	for k := int64(0); k < 48; k++ {
		x := new(big.Int).Add(pP, big.NewInt(k))
		for _, pre := range []byte{2, 3} {
			code := append([]byte{0x51, 33, pre}, x.Bytes()...)
			if len(code) != 35 {
				continue
			}
			g.Emit("schn %s %s", hx.Hex(code), hx.Hex(make([]byte, 64)))
			hs := []hashIn{{Pfx: 0x21, Hash: common.ToCodeHash(code).Bytes()}}
			g.Emit("%s", runLine([]byte{1, 2, 3}, hs, []progIn{{Code: code, Param: make([]byte, 64)}}))
		}
	}
	// the helper functions alone, on every short length
	for l := 0; l <= 72; l++ {
		for _, pl := range []int{0, 10, 63, 64, 65} {
			c := r.Bytes(l)
			if l > 0 {
				c[l-1] = byte(r.Pick(0xAE, 0xAF))
			}
			p := r.Bytes(pl)
			g.Emit("cc %s %s", hx.Hex(c), hx.Hex(p))
			g.Emit("cms %s %s", hx.Hex(c), hx.Hex(p))
			g.Emit("schn %s %s", hx.Hex(c), hx.Hex(p))
		}
	}
}

func genCoinbase(g *hx.Gen) {
	r := g.R
	for i := 0; i < g.N(3000, 40000); i++ {
		reg := []string{"v2", "pub", "old"}[r.Intn(3)]
		height := regimeHeight(reg)
		br := cbParams.GetBlockReward(height)
		fee := common.Fixed64(r.Intn(1000000))
		if r.Chance(3) {
			fee = common.Fixed64(math.MaxInt64 - int64(r.Intn(5)))
		}
		total := fee + br
		rCR, rArb := ceilMul(total, 0.3), ceilMul(total, 0.35)
		dpos := rArb
		frc := common.Fixed64(r.Intn(1000))
		n := r.Pick(0, 1, 2, 2, 3, 3, 3, 4, 5)
		outs := make([][2]int64, n)
		nRew := r.Intn(4)
		if n >= 2 && r.Chance(70) {
			nRew = n - 2
		}
		rewards := make([][2]int64, nRew)
		for k := range rewards {
			rewards[k] = [2]int64{int64(3 + k), int64(r.Intn(5000))}
		}
		for k := range outs {
			outs[k] = [2]int64{int64(r.Intn(100000)), int64(r.Intn(6))}
		}
		// mostly-valid shapes per regime
		if r.Chance(75) {
			switch reg {
			case "v2":
				if n > 0 {
					outs[0] = [2]int64{int64(rCR), int64(r.Pick(0, 1, 1, 1))}
				}
				if n > 1 {
					outs[1] = [2]int64{int64(total - rCR - rArb), 7}
				}
				if n > 2 {
					outs[2] = [2]int64{int64(dpos), int64(r.Pick(0, 2, 2, 2))}
				}
			case "pub":
				if n > 1 {
					a := int64(total - rArb + frc)
					x := int64(r.Intn(1000))
					outs[0] = [2]int64{a - x, 1}
					outs[1] = [2]int64{x, 7}
				}
				for k := 2; k < n && k-2 < len(rewards); k++ {
					outs[k] = [2]int64{rewards[k-2][1], rewards[k-2][0]}
				}
			case "old":
				if n > 0 {
					var s int64
					for k := 1; k < n; k++ {
						s += outs[k][0]
					}
					outs[0] = [2]int64{int64(br+fee) - s, 1}
				}
			}
			if r.Chance(20) && n > 0 { // one perturbation
				k := r.Intn(n)
				if r.Bool() {
					outs[k][0]++
				} else {
					outs[k][1] = int64(r.Intn(6))
				}
			}
		}
		var b strings.Builder
		fmt.Fprintf(&b, "%s %d %d %d %d %d %d %d %d", reg, r.Intn(2), fee, dpos, br, frc, rCR, rArb, n)
		for _, o := range outs {
			fmt.Fprintf(&b, " %d %d", o[0], o[1])
		}
		fmt.Fprintf(&b, " %d", len(rewards))
		for _, w := range rewards {
			fmt.Fprintf(&b, " %d %d", w[0], w[1])
		}
		g.Emit("cb %s", b.String())
		g.Emit("cbs %s", b.String())
	}
}

func genSw(g *hx.Gen) {
	r := g.R
	for i := 0; i < g.N(600, 6000); i++ {
		nArb := r.Pick(0, 1, 3, 5, 12)
		k := r.Intn(8)
		var b strings.Builder
		for j := 0; j < k; j++ {
			idx := r.Intn(nArb + 2)
			if r.Chance(10) {
				idx = r.Pick(255, 128, nArb)
			}
			fmt.Fprintf(&b, " %d", idx)
		}
		g.Emit("sw %d %d %d%s", r.Intn(2), nArb, k, b.String())
	}
}

func genBlk(g *hx.Gen) {
	flags := []string{"-", "1", "0", "10", "11", "01", "00", "100", "101", "110", "1000", "1001", "0001", "10000000"}
	for _, f := range flags {
		for _, aux := range []int{1, 0} {
			for _, pow := range []int{1, 0} {
				for _, ts := range []int{1, 0} {
					g.Emit("blk %d %d %d %d %s", aux, pow, ts, pact.MaxTxPerBlock, f)
				}
			}
		}
	}
}

func genRdc(g *hx.Gen) {
	r := g.R
	mk := func() (string, bool) { // a program code and whether it may be registered
		switch r.Intn(7) {
		case 0, 1: // multi-sig script
			n := 2 + r.Intn(3)
			return hx.Hex(msScript(r, []byte{byte(0x51 + r.Intn(n))}, n, []byte{byte(0x50 + n)}, []byte{0xAE})), true
		case 2, 3: // standard script
			return hx.Hex(append(append([]byte{33}, keyPush(r)[1:]...), 0xAC)), true
		case 4: // multi-sig shaped but rejected by IsMultiSig (wrong n)
			return hx.Hex(msScript(r, []byte{0x51}, 2, []byte{0x55}, []byte{0xAE})), true
		case 5:
			return hx.Hex(r.Bytes(23 + r.Intn(20))), true
		default:
			return hx.Hex(r.Bytes(r.Intn(4))), false // 0..3 bytes: below the sanity minimum
		}
	}
	for i := 0; i < g.N(400, 6000); i++ {
		np := r.Intn(4)
		var b strings.Builder
		for k := 0; k < np; k++ {
			code, canReg := mk()
			reg := 0
			if canReg && r.Chance(65) {
				reg = 1
			}
			fmt.Fprintf(&b, " %s %d", code, reg)
		}
		g.Emit("rdc %d %d%s", r.Pick(1, 1, 1, 1, 0, 2), np, b.String())
	}
}

func genRcrIna(g *hx.Gen) {
	r := g.R
	for l := 0; l <= 40; l++ {
		for _, last := range []byte{0xAC, 0xAE, 0xAF, 0x00, 0x51} {
			c := r.Bytes(l)
			if l > 0 {
				c[l-1] = last
			}
			if l == 35 && r.Bool() {
				c[0], c[1] = 0x51, 33
			}
			g.Emit("rcr %s", hx.Hex(c))
			g.Emit("ina tx %s", hx.Hex(c))
			g.Emit("ina bc %s", hx.Hex(c))
		}
	}
}

func sweepCodes(r *hx.Rand, n *regnet.Node) []byte {
	switch r.Pick(0, 0, 0, 0, 0, 0, 0, 1, 2, 3, 4, 5, 6, 7, 8, 9) {
	case 0, 1, 2:
		return n.Accounts[r.Intn(len(n.Accounts))].RedeemScript
	case 3:
		return append([]byte{0x51, 33}, r.Bytes(33)...)
	case 4:
		return msScript(r, []byte{0x51}, 2, []byte{0x52}, []byte{0xAE})
	case 5:
		return []byte{byte(r.Pick(0xAC, 0xAE, 0xAF, 0x00))}
	case 6:
		return []byte{}
	case 7:
		c := r.Bytes(23 + r.Intn(20))
		c[len(c)-1] = byte(r.Pick(0xAC, 0xAE, 0xAF, 0xAD))
		return c
	case 8:
		return msScript(r, []byte{0x52}, 3, []byte{0x55}, []byte{0xAE})
	default:
		return r.Bytes(r.Intn(5))
	}
}

func genSweep(g *hx.Gen) {
	r := g.R
	n := getNode()
	utxos, err := n.UTXOs(0)
	if err != nil || len(utxos) == 0 {
		panic("harness: no genesis coins")
	}
	_, tip := n.Tip()
	heights := []uint32{4000000, 4000000, 4000000, 4000000, tip + 1, 400000, 1500000}
	covered := map[ctypes.TxType]bool{}
	for _, tt := range wire.CoveredTypes {
		covered[tt] = true
	}
	for tti := 0; tti < 256; tti++ {
		tt := ctypes.TxType(tti)
		if _, err := transaction.GetTransaction(tt); err != nil {
			continue
		}
		build := func() ([]byte, uint32) {
			var pl interfaces.Payload
			var pv byte
			if covered[tt] && r.Chance(65) {
				pl, pv = wire.GenPayload(r, tt)
				if r.Chance(60) {
					pv = byte(r.Pick(0, 0, 0, 1, 2, 3))
				}
			} else {
				pv = byte(r.Pick(0, 0, 0, 1, 2, 3))
				p0, err := interfaces.GetPayload(tt, pv)
				if err != nil || p0 == nil {
					pv = 0
					p0, _ = interfaces.GetPayload(tt, 0)
				}
				pl = p0
			}
			var ins []*ctypes.Input
			switch r.Pick(0, 0, 1, 2, 2, 2, 2, 2) {
			case 0: // no inputs
			case 1: // unknown reference
				in := &ctypes.Input{Sequence: uint32(r.U64())}
				copy(in.Previous.TxID[:], r.Bytes(32))
				ins = append(ins, in)
			default:
				k := 1 + r.Intn(2)
				for i := 0; i < k && i < len(utxos); i++ {
					u := utxos[(i+r.Intn(len(utxos)))%len(utxos)]
					ins = append(ins, &ctypes.Input{Previous: ctypes.OutPoint{TxID: u.TxID, Index: uint16(u.Index)}, Sequence: 0})
				}
			}
			if tt == ctypes.CoinBase {
				ins = []*ctypes.Input{{Previous: ctypes.OutPoint{TxID: common.EmptyHash, Index: math.MaxUint16}, Sequence: math.MaxUint32}}
			}
			var outs []*ctypes.Output
			for i, k := 0, r.Pick(0, 1, 1, 1, 2, 3); i < k; i++ {
				var ph common.Uint168
				copy(ph[:], r.Bytes(21))
				ph[0] = byte(r.Pick(0x21, 0x21, 0x1f, 0x12, 0x4b, 0x3f, 0x67))
				if r.Chance(60) {
					ph = n.Accounts[r.Intn(len(n.Accounts))].ProgramHash
				}
				outs = append(outs, &ctypes.Output{AssetID: core.ELAAssetID, Value: common.Fixed64(r.U64() >> uint(34+r.Intn(28))), ProgramHash: ph,
					Type: ctypes.OTNone, Payload: &outputpayload.DefaultOutput{}})
			}
			var progs []*program.Program
			for i, k := 0, r.Pick(0, 1, 1, 1, 2); i < k; i++ {
				progs = append(progs, &program.Program{Code: sweepCodes(r, n), Parameter: r.Bytes(r.Pick(0, 64, 65, 130))})
			}
			attrs := []*ctypes.Attribute{{Usage: ctypes.Nonce, Data: r.Bytes(8)}}
			if r.Chance(10) {
				attrs = nil
			}
			var raw []byte
			func() {
				defer func() { recover() }()
				tx := functions.CreateTransaction(ctypes.TxVersion09, tt, pv, pl, attrs, ins, outs, 0, progs)
				buf := new(bytes.Buffer)
				if err := tx.Serialize(buf); err == nil {
					raw = buf.Bytes()
				}
			}()
			return raw, heights[r.Intn(len(heights))]
		}
		passesSanity := func(raw []byte, h uint32) (ok bool) {
			defer func() { recover() }()
			rd := bytes.NewReader(raw)
			tx, err := functions.GetTransactionByBytes(rd)
			if err != nil || tx.Deserialize(rd) != nil {
				return false
			}
			_ = tx.Hash()
			return n.Chain.CheckTransactionSanity(h, tx) == nil
		}
		for rep := 0; rep < g.N(12, 120); rep++ {
			// adaptive: draw up to 8 candidates, emit the first and (if any) the first one the real sanity check lets through
			var first, good []byte
			var hf, hg uint32
			for try := 0; try < 8 && good == nil; try++ {
				raw, h := build()
				if raw == nil {
					continue
				}
				if first == nil {
					first, hf = raw, h
				}
				if passesSanity(raw, h) {
					good, hg = raw, h
				}
			}
			if first != nil {
				g.Emit("txs %d %s", hf, hx.Hex(first))
				if r.Chance(35) { // the same transaction once more (relay by a second peer): references now come out of the UTXO cache
					g.Emit("txs %d %s", hf, hx.Hex(first))
				}
				if r.Chance(40) {
					g.Emit("txs %d %s", hf, hx.Hex(wire.Mutate(r, first)))
				}
			}
			if good != nil && !bytes.Equal(good, first) {
				g.Emit("txs %d %s", hg, hx.Hex(good))
				for k := 0; k < 2; k++ {
					g.Emit("txs %d %s", hg, hx.Hex(wire.Mutate(r, good)))
				}
			}
		}
	}
}

// blocks for CheckBlockSanity + CheckBlockContext on the real node: valid mined blocks on the genesis
// block (coinbase only, or with transfers spending genesis coins), with the transaction list emptied,
// reduced to non-coinbase transactions, duplicated, and byte-level mutations of all of them.
func genBlkc(g *hx.Gen) {
	r := g.R
	n := getNode()
	utxos, _ := n.UTXOs(0)
	ser := func(b *types.Block) []byte {
		buf := new(bytes.Buffer)
		if err := b.Serialize(buf); err != nil {
			return nil
		}
		return buf.Bytes()
	}
	for i := 0; i < g.N(12, 80); i++ {
		var txs []interfaces.Transaction
		for k, m := 0, r.Intn(3); k < m && k < len(utxos); k++ {
			u := utxos[(i+k)%len(utxos)]
			tx, err := n.Transfer(0, []ctypes.OutPoint{{TxID: u.TxID, Index: uint16(u.Index)}},
				[]regnet.Out{{To: 1 + r.Intn(regnet.NumUsers), Value: u.Value - 10000}}, r.U64())
			if err == nil {
				txs = append(txs, tx)
			}
		}
		blk, err := n.Mine(n.Genesis, txs, regnet.MineOpts{Timestamp: n.Genesis.Timestamp + 1 + uint32(r.Intn(1000))})
		if err != nil {
			continue
		}
		variants := [][]byte{ser(blk)}
		empty := *blk
		empty.Transactions = nil
		variants = append(variants, ser(&empty))
		if len(blk.Transactions) > 1 {
			nocb := *blk
			nocb.Transactions = blk.Transactions[1:]
			variants = append(variants, ser(&nocb))
			dup := *blk
			dup.Transactions = append(append([]interfaces.Transaction{}, blk.Transactions...), blk.Transactions[1])
			variants = append(variants, ser(&dup))
		}
		twocb := *blk
		twocb.Transactions = append(append([]interfaces.Transaction{}, blk.Transactions...), blk.Transactions[0])
		variants = append(variants, ser(&twocb))
		for _, v := range variants {
			if v == nil {
				continue
			}
			g.Emit("blkc %s", hx.Hex(v))
			for k := 0; k < 2; k++ {
				g.Emit("blkc %s", hx.Hex(wire.Mutate(r, v)))
			}
		}
	}
}

func genTargeted(g *hx.Gen) {
	r := g.R
	for _, nOut := range []int{1, 2, 3} {
		for _, idx := range []uint64{0, 1, 2, 3, 1 << 31, 1 << 32, 1<<63 - 1, 1 << 63, 1<<63 + 1, 1<<64 - 1, 1<<64 - 2} {
			g.Emit("tcc %d %d", nOut, idx)
		}
	}
	for l := 0; l <= 40; l++ {
		c := r.Bytes(l)
		for _, v := range []string{"tx", "bc"} {
			for _, np := range []int{0, 1, 2} {
				g.Emit("rtd %s %d %s", v, np, hx.Hex(c))
			}
		}
	}
	// ReturnSideChainDepositCoin whose special output names an on-chain transaction as "deposit transaction":
	// each transaction of the genesis block (the ELA asset registration has no inputs), a random hash
	n := getNode()
	utxos, _ := n.UTXOs(0)
	if len(utxos) == 0 {
		return
	}
	addr, _ := n.Accounts[1].ProgramHash.ToAddress()
	var hashes []common.Uint256
	for _, tx := range n.Genesis.Transactions {
		hashes = append(hashes, tx.Hash())
	}
	var rh common.Uint256
	copy(rh[:], r.Bytes(32))
	hashes = append(hashes, rh)
	for _, h := range hashes {
		for _, height := range []uint32{4000000, 900000} {
			u := utxos[0]
			out := &ctypes.Output{AssetID: core.ELAAssetID, Value: 1000, ProgramHash: n.Accounts[1].ProgramHash,
				Type:    ctypes.OTReturnSideChainDepositCoin,
				Payload: &outputpayload.ReturnSideChainDeposit{GenesisBlockAddress: addr, DepositTransactionHash: h}}
			tx := functions.CreateTransaction(ctypes.TxVersion09, ctypes.ReturnSideChainDepositCoin, 0, &payload.ReturnSideChainDepositCoin{},
				[]*ctypes.Attribute{{Usage: ctypes.Nonce, Data: r.Bytes(8)}},
				[]*ctypes.Input{{Previous: ctypes.OutPoint{TxID: u.TxID, Index: uint16(u.Index)}}}, []*ctypes.Output{out}, 0,
				[]*program.Program{{Code: n.Accounts[0].RedeemScript, Parameter: make([]byte, 65)}})
			buf := new(bytes.Buffer)
			if err := tx.Serialize(buf); err == nil {
				g.Emit("txs %d %s", height, hx.Hex(buf.Bytes()))
			}
		}
	}
}

// blocks as a peer can send them in the DPoS era: any height, first transaction of any type with 0..2 outputs
// (first output to the destroy address or not), no transaction at all; never a valid merged-mining proof
func genDpb(g *hx.Gen) {
	r := g.R
	n := getNode()
	for _, height := range []uint32{5, 1000000, 4000000} {
		for _, first := range []int{-1, 0, 1, 2} { // -1: no transactions; else type of the first transaction
			for nOut := 0; nOut <= 2; nOut++ {
				for _, destroy := range []bool{true, false} {
					blk := &types.Block{}
					blk.Header.Height = height
					blk.Header.Bits = 0x207fffff
					blk.Header.Timestamp = uint32(time.Now().Unix())
					copy(blk.Header.Previous[:], r.Bytes(32))
					if first >= 0 {
						var outs []*ctypes.Output
						for k := 0; k < nOut; k++ {
							ph := n.Accounts[1].ProgramHash
							if k == 0 && destroy {
								ph = *n.Params.DestroyELAProgramHash
							}
							outs = append(outs, &ctypes.Output{AssetID: core.ELAAssetID, Value: 1, ProgramHash: ph, Type: ctypes.OTNone, Payload: &outputpayload.DefaultOutput{}})
						}
						var tx interfaces.Transaction
						switch first {
						case 0:
							tx = functions.CreateTransaction(ctypes.TxVersion09, ctypes.CoinBase, 0, &payload.CoinBase{Content: r.Bytes(4)}, []*ctypes.Attribute{},
								[]*ctypes.Input{{Previous: ctypes.OutPoint{TxID: common.EmptyHash, Index: math.MaxUint16}, Sequence: math.MaxUint32}}, outs, 0, []*program.Program{})
						case 1:
							tx = functions.CreateTransaction(ctypes.TxVersion09, ctypes.TransferAsset, 0, &payload.TransferAsset{}, []*ctypes.Attribute{},
								[]*ctypes.Input{}, outs, 0, []*program.Program{})
						default:
							tx = functions.CreateTransaction(ctypes.TxVersion09, ctypes.RevertToPOW, 0, &payload.RevertToPOW{}, []*ctypes.Attribute{},
								[]*ctypes.Input{}, outs, 0, []*program.Program{})
						}
						blk.Transactions = append(blk.Transactions, tx)
					}
					buf := new(bytes.Buffer)
					if err := blk.Serialize(buf); err != nil {
						continue
					}
					g.Emit("dpb %s", hx.Hex(buf.Bytes()))
					if r.Chance(30) {
						g.Emit("dpb %s", hx.Hex(wire.Mutate(r, buf.Bytes())))
					}
				}
			}
		}
	}
}

func genNt(g *hx.Gen) {
	r := g.R
	ids := func(n int, pool []int) string {
		if n == 0 {
			return "-"
		}
		var f []string
		for i := 0; i < n; i++ {
			f = append(f, strconv.Itoa(pool[i%len(pool)]))
		}
		return strings.Join(f, ",")
	}
	for i := 0; i < g.N(400, 5000); i++ {
		// next arbitrators: some CRC, some not; payload lists consistent, short, long or shifted
		k := r.Intn(6)
		var next []string
		var crIDs, dpIDs []int
		for j := 0; j < k; j++ {
			id := 1 + j
			isCRC := r.Chance(45)
			el := r.Chance(50)
			next = append(next, fmt.Sprintf("%d:%d:%d", id, map[bool]int{true: 1, false: 0}[isCRC], map[bool]int{true: 1, false: 0}[el]))
			if isCRC {
				if r.Chance(15) {
					crIDs = append(crIDs, 0) // empty key stands for a not yet elected member
				} else {
					crIDs = append(crIDs, id)
				}
			} else {
				dpIDs = append(dpIDs, id)
			}
		}
		nCR, nDP := len(crIDs), len(dpIDs)
		switch r.Intn(5) {
		case 0: // all keys declared as DPoS keys, none as CR keys (sum of lengths still right)
			nDP, nCR = nCR+nDP, 0
			dpIDs = append(dpIDs, crIDs...)
			crIDs = nil
		case 1: // the other way round
			nCR, nDP = nCR+nDP, 0
			crIDs = append(crIDs, dpIDs...)
			dpIDs = nil
		case 2:
			if nCR > 0 {
				nCR--
			}
		}
		if len(crIDs) == 0 {
			crIDs = []int{9}
		}
		if len(dpIDs) == 0 {
			dpIDs = []int{9}
		}
		ns := "-"
		if len(next) > 0 {
			ns = strings.Join(next, ";")
		}
		g.Emit("nta %s %s %s", ids(nCR, crIDs), ids(nDP, dpIDs), ns)
		// V1: next = DPoS list, nextCRC separate
		var n1, c1 []string
		var d1, cr1 []int
		for j := 0; j < r.Intn(4); j++ {
			n1 = append(n1, fmt.Sprintf("%d:%d", 1+j, r.Intn(2)))
			d1 = append(d1, 1+j)
		}
		for j := 0; j < r.Intn(4); j++ {
			c1 = append(c1, fmt.Sprintf("%d:%d", 20+j, r.Intn(2)))
			cr1 = append(cr1, 20+j)
		}
		nc := len(cr1)
		switch r.Intn(4) {
		case 0:
			nc = r.Intn(nc + 1) // fewer CR keys than next CRC arbiters
		case 1:
			nc++
		}
		if len(cr1) == 0 {
			cr1 = []int{9}
		}
		if len(d1) == 0 {
			d1 = []int{9}
		}
		j1, j2 := "-", "-"
		if len(n1) > 0 {
			j1 = strings.Join(n1, ";")
		}
		if len(c1) > 0 {
			j2 = strings.Join(c1, ";")
		}
		g.Emit("ntv %s %s %s %s", ids(nc, cr1), ids(len(n1), d1), j1, j2)
	}
	for _, off := range []int{1, 50, 5000} {
		g.Emit("pgen %d", off)
	}
}

func gen(g *hx.Gen) {
	mrand.Seed(int64(g.Seed))
	genNt(g)
	genDpb(g)
	genTargeted(g)
	genSweep(g)
	genBlkc(g)
	for i := 0; i < g.N(150, 2000); i++ {
		raw := wire.Ser(wire.GenConfirm(g.R))
		g.Emit("cfm %s", hx.Hex(raw))
		if g.R.Chance(60) {
			g.Emit("cfm %s", hx.Hex(wire.Mutate(g.R, raw)))
		}
	}
	genRcrIna(g)
	genBlk(g)
	genRdc(g)
	genScripts(g)
	genGei(g)
	genAuxPow(g)
	genRun(g)
	genCoinbase(g)
	genSw(g)
}

func main() {
	setupNode()
	defer func() {
		if realNode != nil {
			realNode.Close()
			os.RemoveAll(realNode.Dir)
		}
	}()
	hx.Main(&hx.Prop{Name: "C03", Gen: gen, Exec: exec, Oracle: oracle, Nontrivial: nontrivial, Bucket: bucket})
}
