// Harness for C23: saved state checkpoints are lossless.
//
// Op: ckpt <type> <hex> <digest>
//
//	<hex>    = the REAL Serialize output of an instance of the checkpoint type whose every
//	           field (recursively: maps, slices, pointers, unexported fields) was populated
//	           by reflection with random data,
//	<digest> = hash of a canonical field-by-field dump of that populated instance.
//
// Exec deserializes <hex> with the real code and prints `ok <consumed> <sha256d(consumed bytes)>`
// for the types the Lean side has a (token-derived) schema for, `unmodelled` for the others.
// The oracle, independent of the model: the decoded instance must dump to <digest> (no field
// lost or altered), and Serialize→Deserialize of the decoded instance must dump the same again.
package main

import (
	"bytes"
	"crypto/sha256"
	"encoding/hex"
	"fmt"
	"io"
	"os"
	"reflect"
	"sort"
	"strings"
	"unsafe"

	"elaverif/harness/hx"
	"elaverif/harness/wire"

	"github.com/elastos/Elastos.ELA/blockchain"
	"github.com/elastos/Elastos.ELA/common"
	"github.com/elastos/Elastos.ELA/common/config"
	"github.com/elastos/Elastos.ELA/core/checkpoint"
	ctypes "github.com/elastos/Elastos.ELA/core/types/common"
	"github.com/elastos/Elastos.ELA/core/types/outputpayload"
	crstate "github.com/elastos/Elastos.ELA/cr/state"
	"github.com/elastos/Elastos.ELA/dpos/state"
	"github.com/elastos/Elastos.ELA/mempool"
	"github.com/elastos/Elastos.ELA/wallet"
)

type codec interface {
	Serialize(w io.Writer) error
	Deserialize(r io.Reader) error
}

type kind struct {
	name     string
	fresh    func() codec
	modelled bool
}

var kinds = []kind{
	{"dpos.RewardData", func() codec { return state.NewRewardData() }, true},
	{"dpos.StateKeyFrame", func() codec { return state.NewStateKeyFrame() }, true},
	{"cr.ProposalKeyFrame", func() codec { return crstate.NewProposalKeyFrame() }, true},
	{"cr.KeyFrame", func() codec { return crstate.NewKeyFrame() }, true},
	{"cr.StateKeyFrame", func() codec { return crstate.NewStateKeyFrame() }, true},
	{"dpos.CheckPoint", func() codec { return &state.CheckPoint{StateKeyFrame: *state.NewStateKeyFrame()} }, true},
	{"cr.Checkpoint", func() codec {
		return &crstate.Checkpoint{KeyFrame: *crstate.NewKeyFrame(), StateKeyFrame: *crstate.NewStateKeyFrame(), ProposalKeyFrame: *crstate.NewProposalKeyFrame()}
	}, true},
	{"wallet.CoinsCheckPoint", func() codec { return wallet.NewCoinCheckPoint() }, true},
}

func kindOf(name string) *kind {
	for i := range kinds {
		if kinds[i].name == name {
			return &kinds[i]
		}
	}
	panic("harness: unknown checkpoint type " + name)
}

// ---------------------------------------------------------------- reflection: populate

// settable returns an addressable, settable view of a (possibly unexported) field.
func settable(f reflect.Value) reflect.Value {
	if f.CanSet() {
		return f
	}
	return reflect.NewAt(f.Type(), unsafe.Pointer(f.UnsafeAddr())).Elem()
}

// skipField: fields that are not state (back pointers, locks, caches of hashes) or that the
// generic populator cannot give a meaningful value (interfaces, funcs, channels).
func skipType(t reflect.Type) bool {
	switch t.Kind() {
	case reflect.Interface, reflect.Func, reflect.Chan, reflect.UnsafePointer:
		return true
	}
	return false
}

func populate(r *hx.Rand, v reflect.Value, depth int, path string) {
	t := v.Type()
	switch t.Kind() {
	case reflect.Bool:
		v.SetBool(r.Bool())
	case reflect.Uint8, reflect.Uint16, reflect.Uint32, reflect.Uint64, reflect.Uint:
		x := r.U64()
		if t.Kind() == reflect.Uint {
			x &= 0x7fffffff
		}
		v.SetUint(x & (1<<(uint(t.Bits())) - 1 | (1<<(uint(t.Bits())-1) - 1)))
	case reflect.Int8, reflect.Int16, reflect.Int32, reflect.Int64, reflect.Int:
		if t.Kind() == reflect.Int {
			v.SetInt(int64(r.U64() & 0x7fffffff)) // `int` fields travel as uint32
		} else {
			v.SetInt(int64(r.U64()) >> uint(64-t.Bits()))
		}
	case reflect.Float64, reflect.Float32:
		v.SetFloat(float64(r.Intn(1<<20)) / 8)
	case reflect.String:
		v.SetString(hex.EncodeToString(r.Bytes(1 + r.Intn(16))))
	case reflect.Array:
		for i := 0; i < v.Len(); i++ {
			populate(r, v.Index(i), depth+1, path)
		}
	case reflect.Slice:
		if skipType(t.Elem()) {
			return
		}
		n := 1 + r.Intn(3)
		if t.Elem().Kind() == reflect.Uint8 {
			n = 33
		}
		if depth > 6 {
			n = 1
		}
		s := reflect.MakeSlice(t, n, n)
		for i := 0; i < n; i++ {
			populate(r, s.Index(i), depth+1, path)
		}
		v.Set(s)
	case reflect.Map:
		if skipType(t.Key()) {
			return
		}
		n := 1 + r.Intn(3)
		m := reflect.MakeMap(t)
		for i := 0; i < n; i++ {
			k := reflect.New(t.Key()).Elem()
			populate(r, k, depth+1, path)
			e := reflect.New(t.Elem()).Elem()
			if !skipType(t.Elem()) {
				populate(r, e, depth+1, path)
			} else if !(t.Elem().Kind() == reflect.Interface && t.Elem().NumMethod() == 0) {
				continue // a nil value of a method-bearing interface cannot be serialized
			}
			m.SetMapIndex(k, e)
		}
		v.Set(m)
	case reflect.Ptr:
		if t.Elem().Kind() != reflect.Struct || depth > 8 {
			return
		}
		if skipPtr[t.Elem().String()] {
			return
		}
		p := reflect.New(t.Elem())
		populate(r, p.Elem(), depth+1, path)
		v.Set(p)
	case reflect.Struct:
		if t == coinType {
			// a coin's output carries an interface payload whose layout depends on the coin's
			// transaction version: built by the wire generators (every output payload type)
			ver := []byte{0, 1, 8, 9, 9, 9, 10, r.Byte()}[r.Intn(8)]
			out := wire.GenOutput(r, ver >= 9)
			if vo, ok := out.Payload.(*outputpayload.VoteOutput); ok && vo.Version < outputpayload.VoteProducerAndCRVersion {
				// a version-0 vote output has no per-candidate amounts on the wire
				for i := range vo.Contents {
					for j := range vo.Contents[i].CandidateVotes {
						vo.Contents[i].CandidateVotes[j].Votes = 0
					}
				}
			}
			v.Set(reflect.ValueOf(wallet.Coin{TxVersion: ctypes.TransactionVersion(ver), Output: out, Height: uint32(r.U64())}))
			return
		}
		for i := 0; i < t.NumField(); i++ {
			f := t.Field(i)
			if skipType(f.Type) || notState[t.String()+"."+f.Name] {
				continue
			}
			populate(r, settable(v.Field(i)), depth+1, path+"."+f.Name)
		}
	}
}

var coinType = reflect.TypeOf(wallet.Coin{})
var outputType = reflect.TypeOf(ctypes.Output{})

// back pointers / caches: not part of the saved state
var skipPtr = map[string]bool{"state.Arbiters": true, "state.Committee": true, "state.State": true, "sync.RWMutex": true, "sync.Mutex": true}

// CRInfo is stored in the CR key frames through SerializeUnsigned(CRInfoDIDVersion): the
// registration signature is deliberately not part of the saved state.
var notState = map[string]bool{"payload.CRInfo.Signature": true, "wallet.CoinsCheckPoint.RWMutex": true}

// ---------------------------------------------------------------- reflection: canonical dump

func dump(b *strings.Builder, v reflect.Value, depth int) {
	t := v.Type()
	switch t.Kind() {
	case reflect.Bool:
		fmt.Fprintf(b, "%v", v.Bool())
	case reflect.Uint8, reflect.Uint16, reflect.Uint32, reflect.Uint64, reflect.Uint:
		fmt.Fprintf(b, "%d", v.Uint())
	case reflect.Int8, reflect.Int16, reflect.Int32, reflect.Int64, reflect.Int:
		fmt.Fprintf(b, "%d", v.Int())
	case reflect.Float32, reflect.Float64:
		fmt.Fprintf(b, "%x", v.Float())
	case reflect.String:
		fmt.Fprintf(b, "%q", v.String())
	case reflect.Array, reflect.Slice:
		if t.Elem().Kind() == reflect.Uint8 {
			bs := make([]byte, v.Len())
			for i := range bs {
				bs[i] = byte(v.Index(i).Uint())
			}
			fmt.Fprintf(b, "x%s", hex.EncodeToString(bs))
			return
		}
		b.WriteByte('[')
		for i := 0; i < v.Len(); i++ {
			dump(b, v.Index(i), depth+1)
			b.WriteByte(',')
		}
		b.WriteByte(']')
	case reflect.Map:
		var ents []string
		it := v.MapRange()
		for it.Next() {
			var e strings.Builder
			dump(&e, it.Key(), depth+1)
			e.WriteByte(':')
			if !skipType(t.Elem()) {
				dump(&e, it.Value(), depth+1)
			}
			ents = append(ents, e.String())
		}
		sort.Strings(ents)
		b.WriteString("{" + strings.Join(ents, ";") + "}")
	case reflect.Ptr:
		if v.IsNil() || t.Elem().Kind() != reflect.Struct || skipPtr[t.Elem().String()] || depth > 10 {
			b.WriteString("nil")
			return
		}
		dump(b, v.Elem(), depth+1)
	case reflect.Struct:
		if t == outputType {
			// follows the payload interface
			c := reflect.New(t).Elem()
			c.Set(v)
			b.WriteString(wire.Dump(c.Interface()))
			return
		}
		b.WriteString(t.Name() + "(")
		for i := 0; i < t.NumField(); i++ {
			f := t.Field(i)
			if skipType(f.Type) || notState[t.String()+"."+f.Name] {
				continue
			}
			fv := v.Field(i)
			if !fv.CanInterface() {
				if !fv.CanAddr() {
					// copy into an addressable value to read unexported fields
					c := reflect.New(t).Elem()
					c.Set(v)
					fv = c.Field(i)
				}
				fv = reflect.NewAt(f.Type, unsafe.Pointer(fv.UnsafeAddr())).Elem()
			}
			b.WriteString(f.Name + "=")
			dump(b, fv, depth+1)
			b.WriteByte(' ')
		}
		b.WriteByte(')')
	default:
		b.WriteString("?")
	}
}

func canon(c codec) string {
	var b strings.Builder
	dump(&b, reflect.ValueOf(c).Elem(), 0)
	return b.String()
}

func digest(s string) string {
	h := sha256.Sum256([]byte(s))
	return hex.EncodeToString(h[:8])
}

// firstDiff names the first field path at which two dumps differ.
func firstDiff(a, b string) string {
	i := 0
	for i < len(a) && i < len(b) && a[i] == b[i] {
		i++
	}
	lo := strings.LastIndex(a[:i], " ")
	if lo < 0 {
		lo = 0
	}
	hi := i + 60
	if hi > len(a) {
		hi = len(a)
	}
	hb := i + 60
	if hb > len(b) {
		hb = len(b)
	}
	return fmt.Sprintf("…%s  VERSUS  …%s", a[lo:hi], b[lo:hb])
}

// ---------------------------------------------------------------- adapter

func decode(k *kind, b []byte) (codec, int, error) {
	c := k.fresh()
	r := bytes.NewReader(b)
	if err := c.Deserialize(r); err != nil {
		return nil, 0, err
	}
	return c, len(b) - r.Len(), nil
}

func ser(c codec) []byte {
	w := new(bytes.Buffer)
	if err := c.Serialize(w); err != nil {
		panic("harness: serialize: " + err.Error())
	}
	return w.Bytes()
}

// ---------------------------------------------------------------- mempool checkpoint
//
//	mpsnap <tx hex> …   →  live <n> snap <m>
//
// A pool holding the given transactions (injected without validation): n = transactions in the
// pool's live checkpoint, m = transactions in Snapshot() of it — the object the checkpoint manager
// serializes to the mempool checkpoint file.  Lossless means m = n.

var mpParams = config.GetDefaultParams()

func execMpSnap(t []string) string {
	if blockchain.DefaultLedger == nil {
		// appendToTxPool asks the chain for its height before the duplicate check; an empty chain answers 0
		blockchain.DefaultLedger = &blockchain.Ledger{Blockchain: &blockchain.BlockChain{}}
	}
	pool := mempool.NewTxPool(mpParams, checkpoint.NewManager(mpParams))
	for _, h := range t[1:] {
		r := bytes.NewReader(hx.UnHex(h))
		tx, unc, err := wire.DecodeTx(r)
		if err != nil || unc || tx == nil {
			panic("harness: mpsnap needs decodable transactions")
		}
		pool.VerifInjectTx(tx)
	}
	_, n, err := pool.VerifLiveCheckpoint()
	if err != nil {
		return "err live"
	}
	_, m, err := pool.VerifSnapshotCheckpoint()
	if err != nil {
		return "err snap"
	}
	return fmt.Sprintf("live %d snap %d", n, m)
}

func exec(t []string) string {
	if t[0] == "mpsnap" {
		return execMpSnap(t)
	}
	if t[0] == "wcont" {
		return execWCont(t)
	}
	k := kindOf(t[1])
	b := hx.UnHex(t[2])
	_, n, err := decode(k, b)
	if err != nil {
		return "err"
	}
	if !k.modelled {
		return "unmodelled"
	}
	d := common.Hash(b[:n])
	return fmt.Sprintf("ok %d %s", n, hx.Hex(d[:]))
}

func oracle(t []string, out string) *hx.Violation {
	if out == "panic" {
		return &hx.Violation{Kind: "decode-panic", Detail: hx.LastPanic()}
	}
	if t[0] == "wcont" {
		return oracleWCont(t)
	}
	if t[0] == "mpsnap" {
		f := strings.Fields(out)
		if len(f) == 4 && f[1] != f[3] {
			return &hx.Violation{Kind: "mempool-snapshot-loses-pool", Detail: fmt.Sprintf("the pool holds %s transactions, the Snapshot() the checkpoint manager writes to disk holds %s", f[1], f[3])}
		}
		return nil
	}
	if out == "err" {
		if len(t) > 3 && t[3] != "-" {
			return &hx.Violation{Kind: "own-bytes-rejected", Detail: "Deserialize rejects what Serialize wrote"}
		}
		return nil
	}
	k := kindOf(t[1])
	c, _, err := decode(k, hx.UnHex(t[2]))
	if err != nil {
		return nil
	}
	d1 := canon(c)
	if len(t) > 3 && t[3] != "-" && digest(d1) != t[3] {
		return &hx.Violation{Kind: "field-lost", Detail: "the instance read back differs from the populated instance that was written (digest " + digest(d1) + " vs " + t[3] + ")"}
	}
	if t[1] == "dpos.CheckPoint" {
		if v := restoreLayer(hx.UnHex(t[2])); v != nil {
			return v
		}
	}
	c2, _, err := decode(k, ser(c))
	if err != nil {
		return &hx.Violation{Kind: "reencode-not-decodable", Detail: err.Error()}
	}
	if d2 := canon(c2); d2 != d1 {
		return &hx.Violation{Kind: "reencode-unstable", Detail: firstDiff(d1, d2)}
	}
	return nil
}

// restoreLayer: what Manager.Restore does after Deserialize — OnInit hands the checkpoint's fields to the
// arbiters (Arbiters.RecoverFromCheckPoints) — followed by what the next Snapshot does — a checkpoint is
// built from the arbiters again (initFromArbitrators).  Checkpoint → arbiters → checkpoint must not lose or
// change a saved field.
func restoreLayer(b []byte) *hx.Violation {
	ar := &state.Arbiters{State: &state.State{StateKeyFrame: state.NewStateKeyFrame()}}
	cp := state.NewCheckpoint(ar)
	if err := cp.Deserialize(bytes.NewReader(b)); err != nil {
		return nil
	}
	want := canon(cp)
	cp.OnInit()
	cp2 := state.NewCheckpoint(ar)
	cp2.Height = cp.Height // the checkpoint's own height does not travel through the arbiters
	if got := canon(cp2); got != want {
		return &hx.Violation{Kind: "restore-layer-loses-field", Detail: "DPoS checkpoint → Arbiters.RecoverFromCheckPoints → NewCheckpoint: " + firstDiff(want, got)}
	}
	return nil
}

func gen(g *hx.Gen) {
	n := g.N(60, 600)
	for i := 0; i < n; i++ {
		for ki := range kinds {
			k := &kinds[ki]
			r := g.R.Fork(uint64(i*16 + ki))
			c := k.fresh()
			populate(r, reflect.ValueOf(c).Elem(), 0, k.name)
			want := canon(c)
			b := ser(c)
			if os.Getenv("HX_DEBUG") != "" {
				if got, _, err := decode(k, b); err == nil && canon(got) != want {
					fmt.Fprintf(os.Stderr, "DIFF %s: %s\n", k.name, firstDiff(want, canon(got)))
				} else if err != nil {
					fmt.Fprintf(os.Stderr, "ERR %s: %v\n", k.name, err)
				}
			}
			g.Emit("ckpt %s %s %s", k.name, hx.Hex(b), digest(want))
			// a damaged file: cut short / one byte changed (no digest: the oracle only asks for no panic
			// and a stable re-encoding; the model must agree on accept/reject and on the bytes consumed)
			if i%4 == 0 && len(b) > 0 {
				g.Emit("ckpt %s %s -", k.name, hx.Hex(b[:r.Intn(len(b))]))
				g.Emit("ckpt %s %s -", k.name, hx.Hex(wire.Mutate(r, b)))
			}
		}
	}
	// mempool: pools of 0..4 transactions
	for i := 0; i < g.N(6, 40); i++ {
		op := "mpsnap"
		for k, n := 0, g.R.Intn(5); k < n; k++ {
			op += " " + hx.Hex(wire.TxBytes(wire.GenTx(g.R, true)))
		}
		g.Emit("%s", op)
	}
	// restore-then-continue through the real checkpoint manager (wallet coin checkpoint)
	for i := 0; i < g.N(12, 120); i++ {
		genWCont(g)
	}
	// empty instances
	for ki := range kinds {
		c := kinds[ki].fresh()
		g.Emit("ckpt %s %s %s", kinds[ki].name, hx.Hex(ser(c)), digest(canon(c)))
	}
}

func nontrivial(t []string, out string) bool {
	if t[0] == "mpsnap" {
		return len(t) > 1
	}
	if t[0] == "wcont" {
		return len(t) > 3 && !strings.Contains(out, " coins 0 ")
	}
	return out != "err" && len(t[2]) > 64
}

func bucket(t []string, out string) string {
	f := strings.Fields(out)
	if t[0] == "mpsnap" {
		return "mpsnap/" + out
	}
	if t[0] == "wcont" {
		return "wcont/" + f[0] + " " + f[1]
	}
	return t[1] + "/" + f[0]
}

func main() {
	hx.Main(&hx.Prop{Name: "C23", Gen: gen, Exec: exec, Oracle: oracle, Nontrivial: nontrivial, Bucket: bucket})
}
