package main

// Restore-then-continue on the real code, through the real checkpoint.Manager and real files.
//
//	wcont <N> <k> <height>:<tx hex> …   →  dflt <h|none> rcoins <r> coins <n> owned <m>
//
// Blocks 1…N, the listed heights carrying the listed transactions (TransferAsset; an output is a
// wallet coin when it is a vote output or pays to a deposit address).
//
//	straight run:   a Manager with a wallet CoinsCheckPoint registered is fed blocks 1…N;
//	interrupted:    a second Manager (own data directory) is fed blocks 1…k and closed; a third
//	                Manager over the same directory with a FRESH CoinsCheckPoint calls Restore()
//	                (loads the default checkpoint file, if one has been promoted yet) and is then
//	                fed blocks 1…N — the manager itself skips what the checkpoint already covers.
//
// Output: the height the restored checkpoint starts from and the number of coins / ownership
// entries at the end of the interrupted run.  Oracle (independent of the model): the final
// CoinsCheckPoint of the interrupted run must dump field by field like the straight one.

import (
	"bytes"
	"fmt"
	"io"
	"os"
	"reflect"
	"sort"
	"strconv"
	"strings"
	"sync"
	"time"

	"elaverif/harness/hx"
	"elaverif/harness/wire"

	"github.com/elastos/Elastos.ELA/common"
	"github.com/elastos/Elastos.ELA/common/config"
	"github.com/elastos/Elastos.ELA/core/checkpoint"
	"github.com/elastos/Elastos.ELA/core/transaction"
	"github.com/elastos/Elastos.ELA/core/types"
	ctypes "github.com/elastos/Elastos.ELA/core/types/common"
	"github.com/elastos/Elastos.ELA/core/types/interfaces"
	"github.com/elastos/Elastos.ELA/core/types/outputpayload"
	"github.com/elastos/Elastos.ELA/core/types/payload"
	"github.com/elastos/Elastos.ELA/wallet"
)

type wcontOp struct {
	n, k int
	txs  map[int][]interfaces.Transaction
}

func parseWCont(t []string) wcontOp {
	op := wcontOp{txs: map[int][]interfaces.Transaction{}}
	op.n, _ = strconv.Atoi(t[1])
	op.k, _ = strconv.Atoi(t[2])
	for _, f := range t[3:] {
		i := strings.IndexByte(f, ':')
		h, err := strconv.Atoi(f[:i])
		if err != nil {
			panic("harness: wcont height")
		}
		tx, unc, err := wire.DecodeTx(bytes.NewReader(hx.UnHex(f[i+1:])))
		if err != nil || unc || tx == nil {
			panic("harness: wcont needs decodable transactions")
		}
		op.txs[h] = append(op.txs[h], tx)
	}
	return op
}

// gated is the checkpoint that gets registered: the wallet checkpoint, with one addition.  The manager
// may hand the asynchronous file writer only a Snapshot() (a copy); if the writer is ever given the LIVE
// registered object, Serialize does what a busy node does to it: it lets the next block in before the
// bytes are produced (deterministically: it waits for the feeder to finish one more block, and the feeder
// then waits for the write — no data race, same effect as a slow disk).  On a correct manager the live
// object is never serialized by the writer and the gate is never used.
type gated struct {
	*wallet.CoinsCheckPoint
	live bool
	g    *gate
}

type gate struct {
	mu      sync.Mutex
	snaps   int // snapshots the manager has taken
	calls   int // Serialize calls the file writer has made (one per save: of the snapshot, or of the live object)
	waiting bool
	closing bool
	next    chan struct{}
	done    chan struct{}
}

func (c *gated) Snapshot() checkpoint.ICheckPoint {
	s, ok := c.CoinsCheckPoint.Snapshot().(*wallet.CoinsCheckPoint)
	if !ok {
		return nil
	}
	c.g.mu.Lock()
	c.g.snaps++
	c.g.mu.Unlock()
	return &gated{CoinsCheckPoint: s, g: c.g}
}

// sync waits until every save requested so far has reached the writer's Serialize (so that the feeder
// cannot run ahead of a writer that has not been scheduled yet); gives up after 10 s.
func (g *gate) sync() {
	for i := 0; i < 200000; i++ {
		g.mu.Lock()
		ok := g.calls >= g.snaps
		g.mu.Unlock()
		if ok {
			return
		}
		time.Sleep(50 * time.Microsecond)
	}
}

func (c *gated) Serialize(w io.Writer) error {
	c.g.mu.Lock()
	c.g.calls++
	if !c.live {
		c.g.mu.Unlock()
		return c.CoinsCheckPoint.Serialize(w)
	}
	if c.g.closing {
		c.g.mu.Unlock()
		return c.CoinsCheckPoint.Serialize(w)
	}
	c.g.waiting = true
	c.g.mu.Unlock()
	<-c.g.next
	err := c.CoinsCheckPoint.Serialize(w)
	c.g.done <- struct{}{}
	return err
}

// release lets a waiting writer go on (after a block has been fed / before the manager is closed).
func (g *gate) release(closing bool) {
	g.mu.Lock()
	w := g.waiting
	g.waiting = false
	if closing {
		g.closing = true
	}
	g.mu.Unlock()
	if w {
		g.next <- struct{}{}
		<-g.done
	}
}

func wcontManager(dir string) (*checkpoint.Manager, *gated) {
	cfg := &config.Configuration{CheckPointConfiguration: config.CheckPointConfiguration{DataPath: dir, NeedSave: true}}
	m := checkpoint.NewManager(cfg)
	c := &gated{CoinsCheckPoint: wallet.NewCoinCheckPoint(), live: true, g: &gate{next: make(chan struct{}), done: make(chan struct{})}}
	m.Register(c)
	return m, c
}

// wcontFeed feeds blocks 1…to; at[h] receives the dump of the checkpoint after block h for the save heights.
func wcontFeed(m *checkpoint.Manager, c *gated, op wcontOp, to int, at map[uint32]string) {
	for h := 1; h <= to; h++ {
		blk := &types.DposBlock{Block: &types.Block{Header: ctypes.Header{Height: uint32(h)}, Transactions: op.txs[h]}}
		m.OnBlockSaved(blk, nil, false, 0, false)
		if at != nil && h%720 == 0 {
			at[uint32(h)] = canon(c.CoinsCheckPoint)
		}
		c.g.release(false) // a writer found waiting after the previous block goes on now, one block later
		c.g.sync()
	}
	c.g.release(true)
	m.Close() // the file goroutine handles Exit after everything queued before it
}

// runWCont returns the straight and the interrupted-and-restored checkpoint and the height the
// restored one started from (0: nothing to restore from).
func runWCont(op wcontOp) (straight, restored *wallet.CoinsCheckPoint, from uint32, rcoins int, bad string) {
	dirA, err := os.MkdirTemp("", "c23-wcont-a-")
	if err != nil {
		panic("harness: " + err.Error())
	}
	defer os.RemoveAll(dirA)
	dirB, err := os.MkdirTemp("", "c23-wcont-b-")
	if err != nil {
		panic("harness: " + err.Error())
	}
	defer os.RemoveAll(dirB)

	at := map[uint32]string{}
	mA, a := wcontManager(dirA)
	wcontFeed(mA, a, op, op.n, at)

	mB, b := wcontManager(dirB)
	wcontFeed(mB, b, op, op.k, nil)

	mC, c := wcontManager(dirB)
	mC.Restore()
	from = c.GetHeight()
	rcoins = fieldLen(c.CoinsCheckPoint, "coins")
	if from > 0 {
		// the file a node restarts from is labelled `from`: it must hold the state after block `from`
		if want, ok := at[from]; ok {
			if got := canon(c.CoinsCheckPoint); got != want {
				bad = fmt.Sprintf("the default checkpoint file is labelled height %d but does not hold the state after block %d: %s", from, from, firstDiff(want, got))
			}
		} else {
			bad = fmt.Sprintf("restored from height %d, which is not a save height the straight run passed", from)
		}
	}
	wcontFeed(mC, c, op, op.n, nil)
	return a.CoinsCheckPoint, c.CoinsCheckPoint, from, rcoins, bad
}

func fieldLen(c *wallet.CoinsCheckPoint, name string) int {
	return reflect.ValueOf(c).Elem().FieldByName(name).Len()
}

func execWCont(t []string) string {
	_, c, from, rcoins, _ := runWCont(parseWCont(t))
	d := "none"
	if from > 0 {
		d = strconv.Itoa(int(from))
	}
	return fmt.Sprintf("dflt %s rcoins %d coins %d owned %d", d, rcoins, fieldLen(c, "coins"), fieldLen(c, "ownedCoins"))
}

func oracleWCont(t []string) *hx.Violation {
	a, c, from, _, bad := runWCont(parseWCont(t))
	if bad != "" {
		return &hx.Violation{Kind: "checkpoint-file-not-state-at-height", Detail: bad}
	}
	da, dc := canon(a), canon(c)
	if da != dc {
		return &hx.Violation{Kind: "restore-diverges", Detail: fmt.Sprintf("restored from height %d and continued to %s: %s", from, t[1], firstDiff(da, dc))}
	}
	return nil
}

// ---------------------------------------------------------------- generator

var wcontOwners = func() (hs []common.Uint168) {
	for i := byte(0); i < 3; i++ {
		var h common.Uint168
		h[0] = 0x1f // deposit address: tracked whatever the output type
		h[1] = i + 1
		hs = append(hs, h)
	}
	for i := byte(0); i < 2; i++ {
		var h common.Uint168
		h[0] = 0x21 // standard address: tracked only as a vote output
		h[1] = i + 1
		hs = append(hs, h)
	}
	return
}()

func wcontOutput(r *hx.Rand, v9 bool) *ctypes.Output {
	o := &ctypes.Output{Value: common.Fixed64(1 + r.Intn(1000)), OutputLock: uint32(r.Intn(3)), ProgramHash: wcontOwners[r.Intn(len(wcontOwners))]}
	copy(o.AssetID[:], r.Bytes(32))
	if v9 {
		if r.Chance(50) {
			o.Type = ctypes.OTVote
			o.Payload = &outputpayload.VoteOutput{Version: 0}
		} else {
			o.Type = ctypes.OTNone
			o.Payload = &outputpayload.DefaultOutput{}
		}
	}
	return o
}

func genWCont(g *hx.Gen) {
	r := g.R
	period := 720
	n := period*(1+r.Intn(4)) + r.Pick(0, 1, 5, period-1, period/2)
	k := r.Pick(0, 1, period-1, period, period+1, 2*period-1, 2*period, 2*period, 2*period+1, 2*period+1, 3*period-1, 3*period, 3*period+1, r.Intn(n+1), r.Intn(n+1))
	if k > n {
		k = n - r.Intn(3)
	}
	type outRef struct {
		txid common.Uint256
		idx  uint16
	}
	var live []outRef
	lines := map[int][]string{}
	// heights of interest: around the save points and around the restart
	var hs []int
	for i, cnt := 0, 6+r.Intn(10); i < cnt; i++ {
		h := r.Pick(period-1, period, period+1, 2*period-1, 2*period, 2*period+1, k-1, k, k+1, 1+r.Intn(n), 1+r.Intn(n), 1+r.Intn(n))
		if h >= 1 && h <= n {
			hs = append(hs, h)
		}
	}
	sort.Ints(hs)
	for _, h := range hs {
		ver := ctypes.TxVersion09
		if r.Chance(30) {
			ver = ctypes.TxVersionDefault
		}
		var ins []*ctypes.Input
		for i, cnt := 0, r.Intn(3); i < cnt && len(live) > 0; i++ {
			j := r.Intn(len(live))
			ins = append(ins, &ctypes.Input{Previous: ctypes.OutPoint{TxID: live[j].txid, Index: live[j].idx}, Sequence: uint32(r.Intn(2))})
			if r.Chance(85) { // sometimes an output is spent twice
				live = append(live[:j], live[j+1:]...)
			}
		}
		if r.Chance(10) {
			ins = append(ins, wire.GenInput(r)) // an outpoint the wallet never saw
		}
		var outs []*ctypes.Output
		for i, cnt := 0, 1+r.Intn(3); i < cnt; i++ {
			outs = append(outs, wcontOutput(r, ver >= ctypes.TxVersion09))
		}
		tx := transaction.CreateTransaction(ver, ctypes.TransferAsset, 0, &payload.TransferAsset{}, nil, ins, outs, uint32(r.Intn(4)), nil)
		for i := range outs {
			live = append(live, outRef{tx.Hash(), uint16(i)})
		}
		lines[h] = append(lines[h], hx.Hex(wire.TxBytes(tx)))
	}
	op := fmt.Sprintf("wcont %d %d", n, k)
	var hh []int
	for h := range lines {
		hh = append(hh, h)
	}
	sort.Ints(hh)
	for _, h := range hh {
		for _, l := range lines[h] {
			op += fmt.Sprintf(" %d:%s", h, l)
		}
	}
	g.Emit("%s", op)
}
