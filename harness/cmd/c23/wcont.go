package main

// Restore-then-continue on the real code, through the real checkpoint.Manager and real files.
//
//	wcont <N> <k> <height>:<tx hex> …   →  dflt <h|none> coins <n> owned <m>
//
// Blocks 1…N, the listed heights carrying the listed transactions (TransferAsset; an output is a
// wallet coin when it is a vote output or pays to a deposit address).
//
//	straight run:   a Manager with a wallet CoinsCheckPoint registered is fed blocks 1…N;
//	interrupted:    a second Manager (own data directory) is fed blocks 1…k and closed; a third
//	                Manager over the same directory with a FRESH CoinsCheckPoint calls Restore()
//	                (loads the default checkpoint file, if one has been promoted yet) and is then
//	                fed blocks 1…N — the manager itself skips what the checkpoint already covers.
//
// Output: the height the restored checkpoint starts from and the number of coins / ownership
// entries at the end of the interrupted run.  Oracle (independent of the model): the final
// CoinsCheckPoint of the interrupted run must dump field by field like the straight one.

import (
	"bytes"
	"fmt"
	"os"
	"reflect"
	"sort"
	"strconv"
	"strings"

	"elaverif/harness/hx"
	"elaverif/harness/wire"

	"github.com/elastos/Elastos.ELA/common"
	"github.com/elastos/Elastos.ELA/common/config"
	"github.com/elastos/Elastos.ELA/core/checkpoint"
	"github.com/elastos/Elastos.ELA/core/transaction"
	"github.com/elastos/Elastos.ELA/core/types"
	ctypes "github.com/elastos/Elastos.ELA/core/types/common"
	"github.com/elastos/Elastos.ELA/core/types/interfaces"
	"github.com/elastos/Elastos.ELA/core/types/outputpayload"
	"github.com/elastos/Elastos.ELA/core/types/payload"
	"github.com/elastos/Elastos.ELA/wallet"
)

type wcontOp struct {
	n, k int
	txs  map[int][]interfaces.Transaction
}

func parseWCont(t []string) wcontOp {
	op := wcontOp{txs: map[int][]interfaces.Transaction{}}
	op.n, _ = strconv.Atoi(t[1])
	op.k, _ = strconv.Atoi(t[2])
	for _, f := range t[3:] {
		i := strings.IndexByte(f, ':')
		h, err := strconv.Atoi(f[:i])
		if err != nil {
			panic("harness: wcont height")
		}
		tx, unc, err := wire.DecodeTx(bytes.NewReader(hx.UnHex(f[i+1:])))
		if err != nil || unc || tx == nil {
			panic("harness: wcont needs decodable transactions")
		}
		op.txs[h] = append(op.txs[h], tx)
	}
	return op
}

func wcontManager(dir string) (*checkpoint.Manager, *wallet.CoinsCheckPoint) {
	cfg := &config.Configuration{CheckPointConfiguration: config.CheckPointConfiguration{DataPath: dir, NeedSave: true}}
	m := checkpoint.NewManager(cfg)
	c := wallet.NewCoinCheckPoint()
	m.Register(c)
	return m, c
}

func wcontFeed(m *checkpoint.Manager, op wcontOp, to int) {
	for h := 1; h <= to; h++ {
		blk := &types.DposBlock{Block: &types.Block{Header: ctypes.Header{Height: uint32(h)}, Transactions: op.txs[h]}}
		m.OnBlockSaved(blk, nil, false, 0, false)
	}
}

// runWCont returns the straight and the interrupted-and-restored checkpoint and the height the
// restored one started from (0: nothing to restore from).
func runWCont(op wcontOp) (straight, restored *wallet.CoinsCheckPoint, from uint32) {
	dirA, err := os.MkdirTemp("", "c23-wcont-a-")
	if err != nil {
		panic("harness: " + err.Error())
	}
	defer os.RemoveAll(dirA)
	dirB, err := os.MkdirTemp("", "c23-wcont-b-")
	if err != nil {
		panic("harness: " + err.Error())
	}
	defer os.RemoveAll(dirB)

	mA, a := wcontManager(dirA)
	wcontFeed(mA, op, op.n)
	mA.Close() // the file goroutine handles Exit after everything queued before it

	mB, _ := wcontManager(dirB)
	wcontFeed(mB, op, op.k)
	mB.Close()

	mC, c := wcontManager(dirB)
	mC.Restore()
	from = c.GetHeight()
	wcontFeed(mC, op, op.n)
	mC.Close()
	return a, c, from
}

func fieldLen(c *wallet.CoinsCheckPoint, name string) int {
	return reflect.ValueOf(c).Elem().FieldByName(name).Len()
}

func execWCont(t []string) string {
	_, c, from := runWCont(parseWCont(t))
	d := "none"
	if from > 0 {
		d = strconv.Itoa(int(from))
	}
	return fmt.Sprintf("dflt %s coins %d owned %d", d, fieldLen(c, "coins"), fieldLen(c, "ownedCoins"))
}

func oracleWCont(t []string) *hx.Violation {
	a, c, from := runWCont(parseWCont(t))
	da, dc := canon(a), canon(c)
	if da != dc {
		return &hx.Violation{Kind: "restore-diverges", Detail: fmt.Sprintf("restored from height %d and continued to %s: %s", from, t[1], firstDiff(da, dc))}
	}
	return nil
}

// ---------------------------------------------------------------- generator

var wcontOwners = func() (hs []common.Uint168) {
	for i := byte(0); i < 3; i++ {
		var h common.Uint168
		h[0] = 0x1f // deposit address: tracked whatever the output type
		h[1] = i + 1
		hs = append(hs, h)
	}
	for i := byte(0); i < 2; i++ {
		var h common.Uint168
		h[0] = 0x21 // standard address: tracked only as a vote output
		h[1] = i + 1
		hs = append(hs, h)
	}
	return
}()

func wcontOutput(r *hx.Rand, v9 bool) *ctypes.Output {
	o := &ctypes.Output{Value: common.Fixed64(1 + r.Intn(1000)), OutputLock: uint32(r.Intn(3)), ProgramHash: wcontOwners[r.Intn(len(wcontOwners))]}
	copy(o.AssetID[:], r.Bytes(32))
	if v9 {
		if r.Chance(50) {
			o.Type = ctypes.OTVote
			o.Payload = &outputpayload.VoteOutput{Version: 0}
		} else {
			o.Type = ctypes.OTNone
			o.Payload = &outputpayload.DefaultOutput{}
		}
	}
	return o
}

func genWCont(g *hx.Gen) {
	r := g.R
	period := 720
	n := period*(1+r.Intn(4)) + r.Pick(0, 1, 5, period-1, period/2)
	k := r.Pick(0, 1, period-1, period, period+1, 2*period-1, 2*period, 2*period, 2*period+1, 2*period+1, 3*period-1, 3*period, 3*period+1, r.Intn(n+1), r.Intn(n+1))
	if k > n {
		k = n - r.Intn(3)
	}
	type outRef struct {
		txid common.Uint256
		idx  uint16
	}
	var live []outRef
	lines := map[int][]string{}
	// heights of interest: around the save points and around the restart
	var hs []int
	for i, cnt := 0, 6+r.Intn(10); i < cnt; i++ {
		h := r.Pick(period-1, period, period+1, 2*period-1, 2*period, 2*period+1, k-1, k, k+1, 1+r.Intn(n), 1+r.Intn(n), 1+r.Intn(n))
		if h >= 1 && h <= n {
			hs = append(hs, h)
		}
	}
	sort.Ints(hs)
	for _, h := range hs {
		ver := ctypes.TxVersion09
		if r.Chance(30) {
			ver = ctypes.TxVersionDefault
		}
		var ins []*ctypes.Input
		for i, cnt := 0, r.Intn(3); i < cnt && len(live) > 0; i++ {
			j := r.Intn(len(live))
			ins = append(ins, &ctypes.Input{Previous: ctypes.OutPoint{TxID: live[j].txid, Index: live[j].idx}, Sequence: uint32(r.Intn(2))})
			if r.Chance(85) { // sometimes an output is spent twice
				live = append(live[:j], live[j+1:]...)
			}
		}
		if r.Chance(10) {
			ins = append(ins, wire.GenInput(r)) // an outpoint the wallet never saw
		}
		var outs []*ctypes.Output
		for i, cnt := 0, 1+r.Intn(3); i < cnt; i++ {
			outs = append(outs, wcontOutput(r, ver >= ctypes.TxVersion09))
		}
		tx := transaction.CreateTransaction(ver, ctypes.TransferAsset, 0, &payload.TransferAsset{}, nil, ins, outs, uint32(r.Intn(4)), nil)
		for i := range outs {
			live = append(live, outRef{tx.Hash(), uint16(i)})
		}
		lines[h] = append(lines[h], hx.Hex(wire.TxBytes(tx)))
	}
	op := fmt.Sprintf("wcont %d %d", n, k)
	var hh []int
	for h := range lines {
		hh = append(hh, h)
	}
	sort.Ints(hh)
	for _, h := range hh {
		for _, l := range lines[h] {
			op += fmt.Sprintf(" %d:%s", h, l)
		}
	}
	g.Emit("%s", op)
}
