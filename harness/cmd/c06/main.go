// Harness for C06: no output is spent twice — blocks, forks, reorganisations and the
// transaction pool of the real node against the Lean node model
// (lean/ElaVerif/Model/Node.lean: ledger = replay of the active chain, block/tx validation for
// transfers, pool). Line protocol: harness/regnet/sim.go. Only transfers are generated.
package main

import (
	"fmt"
	"strconv"
	"strings"

	"elaverif/harness/hx"
	"elaverif/harness/regnet"

	"github.com/elastos/Elastos.ELA/common"
	"github.com/elastos/Elastos.ELA/core/types"
	ctypes "github.com/elastos/Elastos.ELA/core/types/common"
	"github.com/elastos/Elastos.ELA/core/types/interfaces"
)

var sim = &regnet.Sim{Name: "c06", Maturity: 2, OwnArbiter: true, CRAssets: true}
var pending *hx.Violation

// spendCheck judges the implementation alone: on the chain the node reports as active every
// outpoint is spent at most once and only after it was created; the pool never holds two
// transactions with a common input, nor one that spends what the active chain already spent.
func spendCheck() *hx.Violation {
	n := sim.N
	created := map[string]bool{}
	spentBy := map[string]string{}
	seenTx := map[string]uint32{}
	var repeated *hx.Violation
	for _, h := range n.ActiveChain() {
		b := n.Block(h)
		if b == nil {
			return &hx.Violation{Kind: "unknown-active-block", Detail: h.String()}
		}
		for _, tx := range b.Transactions {
			id := regnet.ID(tx.Hash())
			if h0, dup := seenTx[id]; dup {
				// the same transaction hash twice on one chain: its outpoints are created a second time
				// (reported as its own kind; the outpoints count as new from here on)
				if repeated == nil {
					repeated = &hx.Violation{Kind: "transaction-hash-repeated-on-active-chain",
						Detail: fmt.Sprintf("%s at heights %d and %d", id, h0, b.Height)}
				}
				for i := range tx.Outputs() {
					in := ctypes.Input{Previous: ctypes.OutPoint{TxID: tx.Hash(), Index: uint16(i)}}
					delete(spentBy, in.ReferKey())
				}
			}
			seenTx[id] = b.Height
			if !tx.IsCoinBaseTx() {
				for _, in := range tx.Inputs() {
					k := in.ReferKey()
					if by, dup := spentBy[k]; dup {
						return &hx.Violation{Kind: "outpoint-spent-twice-on-active-chain",
							Detail: fmt.Sprintf("%s:%d spent by %s and %s", regnet.ID(in.Previous.TxID), in.Previous.Index, by, id)}
					}
					if !created[k] {
						return &hx.Violation{Kind: "spend-of-uncreated-outpoint-on-active-chain",
							Detail: fmt.Sprintf("%s:%d spent by %s at height %d", regnet.ID(in.Previous.TxID), in.Previous.Index, id, b.Height)}
					}
					spentBy[k] = id
				}
			}
			for i := range tx.Outputs() {
				in := ctypes.Input{Previous: ctypes.OutPoint{TxID: tx.Hash(), Index: uint16(i)}}
				created[in.ReferKey()] = true
			}
		}
	}
	if repeated != nil {
		return repeated
	}
	poolUse := map[string]string{}
	for _, tx := range n.Pool.GetTxsInPool() {
		id := regnet.ID(tx.Hash())
		for _, in := range tx.Inputs() {
			k := in.ReferKey()
			if by, dup := poolUse[k]; dup {
				return &hx.Violation{Kind: "pool-holds-conflicting-transactions",
					Detail: fmt.Sprintf("%s:%d used by %s and %s", regnet.ID(in.Previous.TxID), in.Previous.Index, by, id)}
			}
			poolUse[k] = id
		}
	}
	return nil
}

func exec(t []string) string {
	pending = nil
	out := sim.Exec(t)
	if t[0] == "deliver" || t[0] == "submit" {
		pending = spendCheck()
	}
	if t[0] == "ctx" && out == "ok" {
		pending = acceptedSpendsUnspent(sim.LastTx)
	}
	return out
}

// acceptedSpendsUnspent: a transaction the context check accepts spends only outpoints that the active chain
// has created and not spent (judged from the blocks of the active chain, not from the node's indexes).
func acceptedSpendsUnspent(tx interfaces.Transaction) *hx.Violation {
	n := sim.N
	created := map[string]bool{}
	spentBy := map[string]string{}
	for _, h := range n.ActiveChain() {
		b := n.Block(h)
		if b == nil {
			continue
		}
		for _, btx := range b.Transactions {
			if !btx.IsCoinBaseTx() {
				for _, in := range btx.Inputs() {
					spentBy[in.ReferKey()] = regnet.ID(btx.Hash())
				}
			}
			for i := range btx.Outputs() {
				in := ctypes.Input{Previous: ctypes.OutPoint{TxID: btx.Hash(), Index: uint16(i)}}
				created[in.ReferKey()] = true
			}
		}
	}
	for _, in := range tx.Inputs() {
		k := in.ReferKey()
		if by, sp := spentBy[k]; sp {
			return &hx.Violation{Kind: "context-check-accepts-spent-outpoint",
				Detail: fmt.Sprintf("%s (%s) spends %s:%d, already spent on the active chain by %s", regnet.ID(tx.Hash()), tx.TxType().Name(), regnet.ID(in.Previous.TxID), in.Previous.Index, by)}
		}
		if !created[k] {
			return &hx.Violation{Kind: "context-check-accepts-uncreated-outpoint",
				Detail: fmt.Sprintf("%s spends %s:%d", regnet.ID(tx.Hash()), regnet.ID(in.Previous.TxID), in.Previous.Index)}
		}
	}
	return nil
}

func oracle(t []string, out string) *hx.Violation { return pending }

func nontrivial(t []string, out string) bool {
	return (t[0] == "deliver" && strings.HasPrefix(out, "err")) || (t[0] == "submit" && out == "err")
}

func gen(g *hx.Gen) {
	witnessCoinbase(g)
	witnessRegisterAsset(g)
	witnessDupCoinbase(g)
	witnessAppropriation(g)
	witnessWide(g)
	nh := g.N(10, 60)
	steps := g.N(45, 120)
	for i := 0; i < nh; i++ {
		history(g, steps)
	}
	sim.Close()
}

// witnessCoinbase: below CheckRewardHeight (regnet 280000) checkTxsContext only logs a wrong
// coinbase amount — a block whose coinbase pays 252 sela too much is connected. The model has the
// height as a parameter (Params.checkRewardFrom); this history is the block-level tie (also cited by C11).
func witnessCoinbase(g *hx.Gen) {
	h := &regnet.HistGen{S: sim, R: g.R, Emit: g.Emit}
	h.Start()
	br := &regnet.Branch{}
	b1 := h.Block(br, nil, regnet.MineOpts{Miner: 1})
	h.Deliver(b1)
	br = regnet.Extend(br, b1)
	h.Deliver(h.Block(br, nil, regnet.MineOpts{Miner: 1, ExtraReward: 252}))
	h.Observe(true, 4)
}

// otherTx builds a signed non-transfer transaction (kind ra / rc) that spends one coin like a transfer.
func otherTx(kind string, nonce uint64, co regnet.Coin, to int) interfaces.Transaction {
	ts := &regnet.TxSpec{Kind: kind, Nonce: fmt.Sprintf("%016x", nonce),
		Ins:  []regnet.InSpec{{TxID: co.ID, Index: uint16(co.Idx)}},
		Outs: []regnet.OutSpec{{Addr: to, Value: co.Value - 700, Pay: "-"}}}
	_, th := sim.N.Tip()
	tx, err := sim.N.BuildTx(ts, th+1)
	if err != nil {
		panic("harness: " + err.Error())
	}
	return tx
}

func transferOf(co regnet.Coin, to int, nonce uint64) interfaces.Transaction {
	txid := regnet.PadHash(co.ID)
	if tx := sim.N.TxByID(co.ID); tx != nil {
		txid = tx.Hash()
	}
	tx, err := sim.N.Transfer(co.Addr, []ctypes.OutPoint{{TxID: txid, Index: uint16(co.Idx)}},
		[]regnet.Out{{To: to, Value: common.Fixed64(co.Value - 500)}}, nonce)
	if err != nil {
		panic("harness: " + err.Error())
	}
	return tx
}

// witnessRegisterAsset: a RegisterAsset transaction that carries inputs. UnspentIndex.ConnectBlock and
// DisconnectBlock skip this transaction type, so if the validator lets such a transaction into a block
// its inputs stay in the unspent index and can be spent again (finding C06-registerasset-inputs).
// The history offers one through the pool and inside a block, then re-spends its input both ways.
func witnessRegisterAsset(g *hx.Gen) {
	h := &regnet.HistGen{S: sim, R: g.R, Emit: g.Emit}
	h.Start()
	br := &regnet.Branch{}
	for i := 0; i < 4; i++ {
		b := h.Block(br, nil, regnet.MineOpts{Miner: 1})
		h.Deliver(b)
		br = regnet.Extend(br, b)
	}
	var co *regnet.Coin
	for _, c := range sim.Coins(br) {
		if c.Addr == 1 && c.CB && c.Height == 1 {
			cc := c
			co = &cc
		}
	}
	if co == nil {
		return
	}
	ra := otherTx("ra", 1<<46+1, *co, 2)
	h.Watch = append(h.Watch, co.ID, regnet.ID(ra.Hash()))
	g.Emit("submit %s", sim.N.DescribeTx(ra))
	h.Observe(true, 6)
	b := h.Block(br, []interfaces.Transaction{ra}, regnet.MineOpts{Miner: 1})
	h.Deliver(b)
	br2 := regnet.Extend(br, b)
	h.Observe(true, 6)
	again := transferOf(*co, 3, 1<<46+2)
	h.Watch = append(h.Watch, regnet.ID(again.Hash()))
	g.Emit("submit %s", sim.N.DescribeTx(again))
	b2 := h.Block(br2, []interfaces.Transaction{again}, regnet.MineOpts{Miner: 1})
	h.Deliver(b2)
	h.Observe(true, 6)
}

// witnessDupCoinbase: block 6 carries a byte-identical copy of block 1's coinbase (same nonce attribute,
// same lock time) after the miner output of that coinbase was spent in block 4. checkTxsContext runs the
// context check (with its duplicate-hash test) on every transaction except the coinbase, so the block is
// connected, the unspent-index entry of the hash is written again, and the output is spent a second time
// in block 7 (finding C06-duplicate-coinbase).
func witnessDupCoinbase(g *hx.Gen) {
	h := &regnet.HistGen{S: sim, R: g.R, Emit: g.Emit}
	h.Start()
	br := &regnet.Branch{}
	var b1 *types.Block
	for i := 0; i < 3; i++ {
		b := h.Block(br, nil, regnet.MineOpts{Miner: 1})
		if i == 0 {
			b1 = b
		}
		h.Deliver(b)
		br = regnet.Extend(br, b)
	}
	cb := b1.Transactions[0]
	co := regnet.Coin{ID: regnet.ID(cb.Hash()), Idx: 1, Addr: 1, Value: int64(cb.Outputs()[1].Value), Height: 1, CB: true}
	// GetTransaction answers the later block for a repeated hash; the witness observes the unspent list only
	obs := func() { g.Emit("obs c p a1 b1 a2 b2 a3 b3 u%s", co.ID) }
	spend1 := transferOf(co, 2, 1<<46+3)
	b4 := h.Block(br, []interfaces.Transaction{spend1}, regnet.MineOpts{Miner: 2})
	h.Deliver(b4)
	br = regnet.Extend(br, b4)
	obs()
	b5 := h.Block(br, nil, regnet.MineOpts{Miner: 2})
	h.Deliver(b5)
	br = regnet.Extend(br, b5)
	b6 := h.Block(br, nil, regnet.MineOpts{CoinbaseOf: b1})
	h.Deliver(b6)
	br6 := regnet.Extend(br, b6)
	obs()
	spend2 := transferOf(co, 3, 1<<46+4)
	g.Emit("submit %s", sim.N.DescribeTx(spend2))
	b7 := h.Block(br6, []interfaces.Transaction{spend2}, regnet.MineOpts{Miner: 2})
	h.Deliver(b7)
	obs()
	// the same block 7 on the honest parent (if block 6 was refused)
	b6h := h.Block(br, nil, regnet.MineOpts{Miner: 2})
	h.Deliver(b6h)
	obs()
}

// witnessWide: a transfer with 65537 outputs. Output indexes are stored as uint16 by the unspent index, so
// output 65536 would be a second "index 0"; CheckTransactionOutput refuses more than 65535 outputs. The
// history offers the transaction to the pool and in a block, then tries to spend its output 0 twice.
func witnessWide(g *hx.Gen) {
	h := &regnet.HistGen{S: sim, R: g.R, Emit: g.Emit}
	h.Start()
	br := &regnet.Branch{}
	for i := 0; i < 4; i++ {
		b := h.Block(br, nil, regnet.MineOpts{Miner: 1})
		h.Deliver(b)
		br = regnet.Extend(br, b)
	}
	var co *regnet.Coin
	for _, c := range sim.Coins(br) {
		if c.Addr == 1 && c.CB && c.Height == 1 {
			cc := c
			co = &cc
		}
	}
	if co == nil {
		return
	}
	const n = 65537
	outs := make([]regnet.Out, 0, n)
	for i := 0; i < n-1; i++ {
		outs = append(outs, regnet.Out{To: 2, Value: 1000})
	}
	outs = append(outs, regnet.Out{To: 1, Value: common.Fixed64(co.Value - int64(n-1)*1000 - 5000000)})
	wide, err := sim.N.Transfer(1, []ctypes.OutPoint{{TxID: sim.N.TxByID(co.ID).Hash(), Index: uint16(co.Idx)}}, outs, 1<<46+20)
	if err != nil {
		panic("harness: " + err.Error())
	}
	g.Emit("submit %s", sim.N.DescribeTx(wide))
	b := h.Block(br, []interfaces.Transaction{wide}, regnet.MineOpts{Miner: 1})
	rep, _ := h.Deliver(b)
	if strings.HasPrefix(rep, "main") {
		br = regnet.Extend(br, b)
	}
	g.Emit("obs c p a1 b1 a3 b3 a4 b4")
	for k, to := range []int{3, 4} {
		sp, err := sim.N.Transfer(2, []ctypes.OutPoint{{TxID: wide.Hash(), Index: 0}}, []regnet.Out{{To: to, Value: 400}}, uint64(1<<46+21+k))
		if err != nil {
			panic("harness: " + err.Error())
		}
		g.Emit("submit %s", sim.N.DescribeTx(sp))
		nb := h.Block(br, []interfaces.Transaction{sp}, regnet.MineOpts{Miner: 1})
		rep, _ := h.Deliver(nb)
		if strings.HasPrefix(rep, "main") {
			br = regnet.Extend(br, nb)
		}
		g.Emit("obs c p a1 b1 a3 b3 a4 b4")
	}
}

// apprTx builds a CRCAppropriation: inputs, first output to the CR expenses address (account 3), second to the
// CR assets address (account 4); lock distinguishes otherwise equal transactions.
func apprTx(lock uint32, ins []regnet.Coin, toExpenses, toAssets int64) interfaces.Transaction {
	ts := &regnet.TxSpec{Kind: "ca", Nonce: fmt.Sprintf("%08x", lock),
		Outs: []regnet.OutSpec{{Addr: 3, Value: toExpenses, Pay: "-"}, {Addr: 4, Value: toAssets, Pay: "-"}}}
	for _, c := range ins {
		ts.Ins = append(ts.Ins, regnet.InSpec{TxID: c.ID, Index: uint16(c.Idx)})
	}
	tx, err := sim.N.BuildTx(ts, ctxHeight)
	if err != nil {
		panic("harness: " + err.Error())
	}
	return tx
}

// ctxHeight: a block height in the CR committee era (regnet CRCommitteeStartHeight 442000) for `ctx` ops
const ctxHeight = 442010

// witnessAppropriation: CRCAppropriation is the transaction type that spends without signatures and whose
// special check ends the context check. F pays F:0 to the CR assets address (account 4 on this node) and F:1
// elsewhere; an appropriation spending F:0 passes the context check; after F:0 was spent on the chain (by an
// ordinary transfer of account 4) an appropriation spending it again must be refused as a double spend.
func witnessAppropriation(g *hx.Gen) {
	h := &regnet.HistGen{S: sim, R: g.R, Emit: g.Emit}
	h.Start()
	br := &regnet.Branch{}
	for i := 0; i < 4; i++ {
		b := h.Block(br, nil, regnet.MineOpts{Miner: 1})
		h.Deliver(b)
		br = regnet.Extend(br, b)
	}
	var co *regnet.Coin
	for _, c := range sim.Coins(br) {
		if c.Addr == 1 && c.CB && c.Height == 1 {
			cc := c
			co = &cc
		}
	}
	if co == nil {
		return
	}
	txid := sim.N.TxByID(co.ID).Hash()
	f, err := sim.N.Transfer(1, []ctypes.OutPoint{{TxID: txid, Index: uint16(co.Idx)}},
		[]regnet.Out{{To: 4, Value: 900000}, {To: 2, Value: common.Fixed64(co.Value - 900000 - 1000)}}, 1<<46+9)
	if err != nil {
		panic("harness: " + err.Error())
	}
	b := h.Block(br, []interfaces.Transaction{f}, regnet.MineOpts{Miner: 1})
	h.Deliver(b)
	br = regnet.Extend(br, b)
	f0 := regnet.Coin{ID: regnet.ID(f.Hash()), Idx: 0, Addr: 4, Value: 900000}
	f1 := regnet.Coin{ID: regnet.ID(f.Hash()), Idx: 1, Addr: 2, Value: int64(f.Outputs()[1].Value)}
	ctx := func(tx interfaces.Transaction) { g.Emit("ctx %d %s", ctxHeight, sim.N.DescribeTx(tx)) }
	ctx(apprTx(1, []regnet.Coin{f0}, 90000, 810000)) // no appropriation needed
	g.Emit("appr 1 90000")
	ctx(apprTx(1, []regnet.Coin{f0}, 90000, 810000))         // accepted
	ctx(apprTx(2, []regnet.Coin{f0}, 80000, 820000))         // wrong amount
	ctx(apprTx(3, []regnet.Coin{f0}, 90000, 800000))         // inputs != outputs
	ctx(apprTx(4, []regnet.Coin{f1}, 90000, f1.Value-90000)) // input not from the CR assets address
	// F:0 is spent on the chain by its owner (while an appropriation is due every block must carry one:
	// CheckBlockContext; so the flag is cleared first)
	g.Emit("appr 0 0")
	sp := transferOf(f0, 2, 1<<46+10)
	b2 := h.Block(br, []interfaces.Transaction{sp}, regnet.MineOpts{Miner: 1})
	h.Deliver(b2)
	h.Watch = append(h.Watch, f0.ID)
	h.Observe(true, 6)
	g.Emit("appr 1 90000")
	ctx(apprTx(5, []regnet.Coin{f0}, 90000, 810000)) // re-spend: refused (ErrTxDoubleSpend)
	g.Emit("appr 1 80000")
	ctx(apprTx(6, []regnet.Coin{f0}, 80000, 820000)) // next round, re-spend again
	spOut := regnet.Coin{ID: regnet.ID(sp.Hash()), Idx: 0, Addr: 2, Value: int64(sp.Outputs()[0].Value)}
	ctx(apprTx(7, []regnet.Coin{spOut}, 80000, spOut.Value-80000)) // unspent, but not a CR assets coin
	g.Emit("appr 0 0")
}

func history(g *hx.Gen, steps int) {
	r := g.R
	h := &regnet.HistGen{S: sim, R: r, Emit: g.Emit}
	h.Start()
	active := h.Active
	byTip := map[string]*regnet.Branch{}
	hexOf := func(b *types.Block) string {
		v, _ := strconv.ParseUint(regnet.ID(b.Hash()), 16, 64)
		return strconv.FormatUint(v, 16)
	}
	deliver := func(br *regnet.Branch, b *types.Block) string {
		byTip[hexOf(b)] = regnet.Extend(br, b)
		rep, tip := h.Deliver(b)
		if a, ok := byTip[tip]; ok {
			active = a
		}
		return rep
	}
	var spent []regnet.Coin // coins the active chain has spent (for re-spend attempts)
	var pooled []interfaces.Transaction
	submit := func(tx interfaces.Transaction) string {
		out := g.Emit("submit %s", sim.N.DescribeTx(tx))
		if out == "ok" {
			pooled = append(pooled, tx)
		}
		h.Watch = append(h.Watch, regnet.ID(tx.Hash()))
		return out
	}
	raw := func(owner int, ins []regnet.Coin, outs []regnet.Out) interfaces.Transaction {
		var ops []ctypes.OutPoint
		for _, c := range ins {
			var txid common.Uint256
			if tx := sim.N.TxByID(c.ID); tx != nil {
				txid = tx.Hash()
			} else {
				txid = regnet.PadHash(c.ID)
			}
			ops = append(ops, ctypes.OutPoint{TxID: txid, Index: uint16(c.Idx)})
		}
		tx, err := sim.N.Transfer(owner, ops, outs, uint64(1<<40)+uint64(r.Intn(1<<30)))
		if err != nil {
			panic("harness: " + err.Error())
		}
		return tx
	}
	// a side-chain mining proof in the original format: a SideChainPow transaction with inputs, payload
	// signed by the on-duty arbiter (account 0 is the only origin arbiter of this node)
	spCount := 0
	rawSP := func(ins []regnet.Coin, out regnet.Out, sideGenesis string) interfaces.Transaction {
		spCount++
		ts := &regnet.TxSpec{Kind: "sp", Nonce: fmt.Sprintf("%016x", uint64(1<<44)+uint64(spCount)),
			PHashes: []string{fmt.Sprintf("%016x", uint64(r.Intn(1<<30))|1<<52), sideGenesis}}
		ts.PDatas = []string{sim.N.SideChainPowSig(0, ts.PHashes[0], ts.PHashes[1])}
		for _, c := range ins {
			ts.Ins = append(ts.Ins, regnet.InSpec{TxID: c.ID, Index: uint16(c.Idx)})
		}
		ts.Outs = []regnet.OutSpec{{Addr: out.To, Value: int64(out.Value), Pay: "-"}}
		_, th := sim.N.Tip()
		tx, err := sim.N.BuildTx(ts, th+1)
		if err != nil {
			panic("harness: " + err.Error())
		}
		return tx
	}
	// other transaction types that carry inputs: Record (a transfer with a blob) and TransferCrossChainAsset
	// (payload v0, one output to an X address 900.., fee >= MinCrossChainTxFee)
	rawOther := func(kind string, co regnet.Coin) interfaces.Transaction {
		spCount++
		ts := &regnet.TxSpec{Kind: kind, Nonce: fmt.Sprintf("%016x", uint64(1<<45)+uint64(spCount)),
			Ins: []regnet.InSpec{{TxID: co.ID, Index: uint16(co.Idx)}}}
		if kind == "ra" {
			ts.Outs = []regnet.OutSpec{{Addr: r.Intn(5), Value: co.Value - 700, Pay: "-"}}
		} else if kind == "rc" {
			ts.PDatas = []string{fmt.Sprintf("%04x", r.Intn(65536))}
			ts.Outs = []regnet.OutSpec{{Addr: r.Intn(5), Value: co.Value - 700, Pay: "-"}}
		} else {
			half := co.Value / 2
			ts.Outs = []regnet.OutSpec{{Addr: 900 + r.Intn(3), Value: half, Pay: "-"}, {Addr: co.Addr, Value: co.Value - half - 20000, Pay: "-"}}
		}
		_, th := sim.N.Tip()
		tx, err := sim.N.BuildTx(ts, th+1)
		if err != nil {
			panic("harness: " + err.Error())
		}
		return tx
	}
	sideChains := []string{"00000000000000a1", "00000000000000a2"}
	pickCoin := func(br *regnet.Branch) *regnet.Coin {
		var cs []regnet.Coin
		tip := sim.BranchTip(br)
		for _, c := range sim.Coins(br) {
			if c.Addr <= regnet.NumUsers && c.Value > 2000 && (!c.CB || tip.Height-c.Height >= 2) {
				cs = append(cs, c)
			}
		}
		if len(cs) == 0 {
			return nil
		}
		return &cs[r.Intn(len(cs))]
	}
	noteSpent := func(b *types.Block, br *regnet.Branch) {
		before := sim.Coins(br)
		for _, tx := range b.Transactions[1:] {
			for _, in := range tx.Inputs() {
				for _, c := range before {
					if c.ID == regnet.ID(in.Previous.TxID) && c.Idx == int(in.Previous.Index) {
						spent = append(spent, c)
					}
				}
			}
		}
	}
	// a transaction with 300 outputs (output indexes need both bytes of the stored uint16):
	// its outputs k and k+256 are spent in different blocks and re-spends are attempted
	var big interfaces.Transaction
	var bigOwner int
	bigSpent := map[int]bool{}
	bigCoin := func(i int) regnet.Coin {
		return regnet.Coin{ID: regnet.ID(big.Hash()), Idx: i, Addr: bigOwner, Value: int64(big.Outputs()[i].Value)}
	}
	for s := 0; s < steps; s++ {
		c := r.Intn(100)
		if s == 6 && big == nil {
			if co := pickCoin(active); co != nil && co.Value > 400000 {
				bigOwner = 1 + r.Intn(4)
				outs := make([]regnet.Out, 0, 301)
				for i := 0; i < 300; i++ {
					outs = append(outs, regnet.Out{To: bigOwner, Value: 1000})
				}
				outs = append(outs, regnet.Out{To: co.Addr, Value: common.Fixed64(co.Value - 300*1000 - 500)})
				big = raw(co.Addr, []regnet.Coin{*co}, outs)
				b := h.Block(active, []interfaces.Transaction{big})
				br := active
				if strings.HasPrefix(deliver(active, b), "main") {
					noteSpent(b, br)
				} else {
					big = nil
				}
				h.Observe(true, 6)
				continue
			}
		}
		if big != nil && c < 22 && sim.N.TxByID(regnet.ID(big.Hash())) != nil {
			onChain := false
			for _, b := range active.Blocks {
				for _, tx := range b.Transactions {
					if tx.Hash() == big.Hash() {
						onChain = true
					}
				}
			}
			if onChain {
				k := r.Intn(44)
				var ins []regnet.Coin
				switch r.Intn(4) {
				case 0: // k
					ins = []regnet.Coin{bigCoin(k)}
				case 1: // k+256
					ins = []regnet.Coin{bigCoin(k + 256)}
				case 2: // both in one transaction
					ins = []regnet.Coin{bigCoin(k), bigCoin(k + 256)}
				default: // an index already spent, if any (re-spend attempt)
					for i := range bigSpent {
						ins = []regnet.Coin{bigCoin(i)}
						break
					}
					if ins == nil {
						ins = []regnet.Coin{bigCoin(k)}
					}
				}
				var total int64
				for _, in := range ins {
					total += in.Value
				}
				tx := raw(bigOwner, ins, []regnet.Out{{To: r.Intn(5), Value: common.Fixed64(total - 300)}})
				if r.Chance(30) {
					submit(tx)
				} else {
					br := active
					b := h.Block(active, []interfaces.Transaction{tx})
					if strings.HasPrefix(deliver(active, b), "main") {
						noteSpent(b, br)
						for _, in := range ins {
							bigSpent[in.Idx] = true
						}
					}
				}
				h.Watch = append(h.Watch, regnet.ID(big.Hash()))
				h.Observe(true, 6)
				continue
			}
		}
		if c >= 82 && c < 88 && len(active.Blocks) >= 4 { // pool: Record / cross-chain transfers against transfers and each other
			if co := pickCoin(active); co != nil && co.Value > 100000 {
				kinds := []string{"rc", "xc", "ra"}
				k1, k2 := kinds[r.Intn(3)], kinds[r.Intn(3)]
				switch r.Intn(4) {
				case 0:
					submit(rawOther(k1, *co))
					submit(raw(co.Addr, []regnet.Coin{*co}, []regnet.Out{{To: 1, Value: common.Fixed64(co.Value - 500)}}))
				case 1:
					submit(raw(co.Addr, []regnet.Coin{*co}, []regnet.Out{{To: 1, Value: common.Fixed64(co.Value - 500)}}))
					submit(rawOther(k1, *co))
				case 2:
					submit(rawOther(k1, *co))
					submit(rawOther(k2, *co))
				default: // no conflict: the transaction just sits in the pool and is mined later
					submit(rawOther(k1, *co))
				}
			}
			h.Observe(true, 8)
			continue
		}
		if c >= 78 && c < 82 && len(active.Blocks) >= 4 && r.Chance(50) { // CRCAppropriation context checks
			// coins of the CR assets address (account 4): unspent ones, ones the chain has spent, and foreign coins
			var own, gone, other []regnet.Coin
			for _, co := range sim.Coins(active) {
				if co.Addr == 4 && co.Value > 3000 {
					own = append(own, co)
				} else if co.Addr >= 1 && co.Addr <= 3 && co.Value > 3000 {
					other = append(other, co)
				}
			}
			for _, co := range spent {
				if co.Addr == 4 && co.Value > 3000 {
					gone = append(gone, co)
				}
			}
			amt := int64(1000 + 100*r.Intn(5))
			g.Emit("appr %d %d", r.Pick(1, 1, 1, 1, 0), amt)
			for k := 0; k < 1+r.Intn(3); k++ {
				var ins []regnet.Coin
				pick := func(cs []regnet.Coin) {
					if len(cs) > 0 {
						ins = append(ins, cs[r.Intn(len(cs))])
					}
				}
				switch r.Intn(5) {
				case 0, 1:
					pick(own)
				case 2:
					pick(gone)
				case 3:
					pick(own)
					pick(gone)
				default:
					pick(other)
				}
				if len(ins) == 0 || (len(ins) == 2 && ins[0].ID == ins[1].ID && ins[0].Idx == ins[1].Idx) {
					continue
				}
				var total int64
				for _, in := range ins {
					total += in.Value
				}
				first := amt + int64(r.Pick(0, 0, 0, 1))
				second := total - first - int64(r.Pick(0, 0, 0, 0, 5))
				spCount++
				g.Emit("ctx %d %s", ctxHeight, sim.N.DescribeTx(apprTx(uint32(1000+spCount), ins, first, second)))
			}
			g.Emit("appr 0 0") // while an appropriation is due, blocks without one are refused
			continue
		}
		if c >= 88 && c < 96 && len(active.Blocks) >= 4 { // pool: side-chain mining proofs and the outpoints they spend
			if co := pickCoin(active); co != nil {
				out := regnet.Out{To: r.Intn(5), Value: common.Fixed64(co.Value - 600)}
				switch r.Intn(4) {
				case 0: // a transfer first, then a proof spending the same coin: conflict
					submit(raw(co.Addr, []regnet.Coin{*co}, []regnet.Out{out}))
					submit(rawSP([]regnet.Coin{*co}, out, sideChains[r.Intn(2)]))
				case 1: // the proof first, then the transfer
					submit(rawSP([]regnet.Coin{*co}, out, sideChains[r.Intn(2)]))
					submit(raw(co.Addr, []regnet.Coin{*co}, []regnet.Out{out}))
				case 2: // two proofs for one side chain on different coins: the second evicts the first
					submit(rawSP([]regnet.Coin{*co}, out, sideChains[0]))
					if c2 := pickCoin(active); c2 != nil {
						submit(rawSP([]regnet.Coin{*c2}, regnet.Out{To: 1, Value: common.Fixed64(c2.Value - 700)}, sideChains[0]))
					}
				default: // proofs for different side chains on the same coin: conflict
					submit(rawSP([]regnet.Coin{*co}, out, sideChains[0]))
					submit(rawSP([]regnet.Coin{*co}, out, sideChains[1]))
				}
			}
			h.Observe(true, 8)
			continue
		}
		switch {
		case c >= 96 && len(spent) > 0: // two inputs: the first unspent, the second already spent on the active chain
			if co := pickCoin(active); co != nil {
				sp := spent[r.Intn(len(spent))]
				tx := raw(co.Addr, []regnet.Coin{*co, sp}, []regnet.Out{{To: r.Intn(5), Value: common.Fixed64(co.Value + sp.Value - 400)}})
				if r.Bool() {
					submit(tx)
				} else {
					deliver(active, h.Block(active, []interfaces.Transaction{tx}))
				}
			}
		case c < 34 || len(active.Blocks) < 4: // honest block, sometimes carrying the pool's transactions
			var b *types.Block
			if len(pooled) > 0 && r.Chance(60) {
				var txs []interfaces.Transaction
				inPool := map[string]bool{}
				for _, tx := range sim.N.Pool.GetTxsInPool() {
					inPool[regnet.ID(tx.Hash())] = true
				}
				for _, tx := range pooled {
					if inPool[regnet.ID(tx.Hash())] {
						txs = append(txs, tx)
					}
				}
				pooled = nil
				b = h.Block(active, txs)
			} else {
				b = h.HonestBlock(active, 3)
			}
			br := active
			if strings.HasPrefix(deliver(active, b), "main") {
				noteSpent(b, br)
			}
		case c < 50: // pool: a valid transfer, then often a second one spending the same coin
			if co := pickCoin(active); co != nil {
				tx1 := raw(co.Addr, []regnet.Coin{*co}, []regnet.Out{{To: r.Intn(5), Value: common.Fixed64(co.Value - 500)}})
				submit(tx1)
				if r.Chance(60) {
					tx2 := raw(co.Addr, []regnet.Coin{*co}, []regnet.Out{{To: r.Intn(5), Value: common.Fixed64(co.Value - 900)}})
					submit(tx2)
				}
				if r.Chance(25) {
					submit(tx1) // the same transaction again
				}
			}
		case c < 56: // pool: spends a coin the chain has already spent / that never existed
			if len(spent) > 0 && r.Bool() {
				co := spent[r.Intn(len(spent))]
				submit(raw(co.Addr, []regnet.Coin{co}, []regnet.Out{{To: 1, Value: common.Fixed64(co.Value - 500)}}))
			} else {
				co := regnet.Coin{ID: fmt.Sprintf("%016x", uint64(r.Intn(1<<30))|1<<50), Idx: 0, Addr: 1, Value: 5000}
				submit(raw(1, []regnet.Coin{co}, []regnet.Out{{To: 2, Value: 4000}}))
			}
		case c < 64: // block that spends an outpoint the active chain has already spent
			if len(spent) > 0 {
				co := spent[r.Intn(len(spent))]
				tx := raw(co.Addr, []regnet.Coin{co}, []regnet.Out{{To: r.Intn(5), Value: common.Fixed64(co.Value - 300)}})
				deliver(active, h.Block(active, []interfaces.Transaction{tx}))
			}
		case c < 70: // block with two transactions spending the same outpoint
			if co := pickCoin(active); co != nil {
				t1 := raw(co.Addr, []regnet.Coin{*co}, []regnet.Out{{To: 1, Value: common.Fixed64(co.Value - 300)}})
				t2 := raw(co.Addr, []regnet.Coin{*co}, []regnet.Out{{To: 2, Value: common.Fixed64(co.Value - 400)}})
				pair := []interfaces.Transaction{t1, t2}
				if r.Bool() {
					pair = []interfaces.Transaction{t2, t1}
				}
				deliver(active, h.Block(active, pair))
			}
		case c < 72: // the same, delivered before its parent: the orphan pool must not take unchecked blocks
			if co := pickCoin(active); co != nil {
				parent := h.HonestBlock(active, 1)
				pbr := regnet.Extend(active, parent)
				used := false
				for _, tx := range parent.Transactions[1:] {
					for _, in := range tx.Inputs() {
						if regnet.ID(in.Previous.TxID) == co.ID && int(in.Previous.Index) == co.Idx {
							used = true
						}
					}
				}
				if !used {
					t1 := raw(co.Addr, []regnet.Coin{*co}, []regnet.Out{{To: 1, Value: common.Fixed64(co.Value - 300)}})
					t2 := raw(co.Addr, []regnet.Coin{*co}, []regnet.Out{{To: 2, Value: common.Fixed64(co.Value - 400)}})
					child := h.Block(pbr, []interfaces.Transaction{t1, t2})
					deliver(pbr, child)
					br := active
					if strings.HasPrefix(deliver(active, parent), "main") {
						noteSpent(parent, br)
					}
				}
			}
		case c < 74: // one transaction listing the same input twice
			if co := pickCoin(active); co != nil {
				tx := raw(co.Addr, []regnet.Coin{*co, *co}, []regnet.Out{{To: 1, Value: common.Fixed64(2*co.Value - 300)}})
				deliver(active, h.Block(active, []interfaces.Transaction{tx}))
			}
		case c < 78: // spends an output created in the same block
			if co := pickCoin(active); co != nil {
				t1 := raw(co.Addr, []regnet.Coin{*co}, []regnet.Out{{To: 3, Value: common.Fixed64(co.Value - 300)}})
				b1 := h.Block(active, []interfaces.Transaction{t1}) // registers t1
				_ = b1
				c2 := regnet.Coin{ID: regnet.ID(t1.Hash()), Idx: 0, Addr: 3, Value: co.Value - 300}
				t2 := raw(3, []regnet.Coin{c2}, []regnet.Out{{To: 4, Value: common.Fixed64(co.Value - 700)}})
				pair := []interfaces.Transaction{t1, t2}
				if r.Bool() {
					pair = []interfaces.Transaction{t2, t1}
				}
				deliver(active, h.Block(active, pair))
			}
		case c < 82: // creates value: outputs exceed inputs; or fee below the minimum
			if co := pickCoin(active); co != nil {
				v := co.Value + 1000
				if r.Bool() {
					v = co.Value - 50
				}
				tx := raw(co.Addr, []regnet.Coin{*co}, []regnet.Out{{To: 1, Value: common.Fixed64(v)}})
				deliver(active, h.Block(active, []interfaces.Transaction{tx}))
			}
		case c < 86: // spends a coinbase output that is not mature yet
			if len(active.Blocks) > 0 {
				tipb := sim.BranchTip(active)
				cb := tipb.Transactions[0]
				for i, o := range cb.Outputs() {
					if a := sim.N.AddrNo(o.ProgramHash); a <= regnet.NumUsers && o.Value > 1000 {
						co := regnet.Coin{ID: regnet.ID(cb.Hash()), Idx: i, Addr: a, Value: int64(o.Value)}
						tx := raw(a, []regnet.Coin{co}, []regnet.Out{{To: 1, Value: o.Value - 300}})
						deliver(active, h.Block(active, []interfaces.Transaction{tx}))
						break
					}
				}
			}
		default: // competing branch that spends the same coins differently, long enough to win
			depth := 1 + r.Intn(3)
			if depth > len(active.Blocks) {
				depth = len(active.Blocks)
			}
			br := regnet.Fork(active, len(active.Blocks)-depth)
			for k := 0; k <= depth; k++ {
				b := h.HonestBlock(br, 3)
				pre := br
				br = regnet.Extend(br, b)
				if strings.HasPrefix(deliver(pre, b), "main") {
					spent = nil // the spent set of the old branch no longer applies
				}
			}
		}
		h.Observe(true, 14)
	}
}

func main() {
	hx.Main(&hx.Prop{Name: "C06", Gen: gen, Exec: exec, Oracle: oracle, Nontrivial: nontrivial, Stateful: true,
		Bucket: func(t []string, out string) string {
			if t[0] == "obs" {
				return "obs"
			}
			return t[0] + "/" + strings.Fields(out)[0]
		}})
}
