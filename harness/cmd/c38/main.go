// C38 — secret key material comes from a secure random source.
//
// The property itself is decided statically (reach certificate over the
// regenerated reference graph).  This harness is the witness replay / failing
// input search: it runs the real secret producers and looks for the two
// observable symptoms of a seedable or time-seeded source.
//
//	nonce|keygen|ecdsa|ecies|keystore2 <seed>
//	      rand.Seed(seed); produce a secret; rand.Seed(seed); produce a second one.
//	      "reused" if the two share their random part (Schnorr R, private key,
//	      ECDSA r, ECIES ephemeral key / IV, keystore IV), else "fresh".
//	noentropy nonce|keygen|ecdsa|keystore
//	      crypto/rand.Reader is replaced by a reader that fails: the producer must return an error
//	      ("error"); "produced" means it fell back to some other source.
//	entropy nonce|keygen|ecdsa|ecies|keystore
//	      positive characterisation of "from the OS source": with crypto/rand.Reader replaced by a constant
//	      stream two uses give the same secret and another stream another secret; with a counting reader every
//	      use reads at least 32 (48) bytes.  Output: tracks | other-source | ignores-stream | short.
//	keystore <n>
//	      create a keystore, then try to recover its master key from the plain-text
//	      IV by trying the nanoseconds around the creation time as math/rand seeds:
//	      "predicted" / "unpredictable".
package main

import (
	"bytes"
	crand "crypto/rand"
	"crypto/sha256"
	"errors"
	"fmt"
	"io"
	"math/big"
	"math/rand"
	"os"
	"path/filepath"
	"strconv"
	"sync"
	"time"

	"elaverif/harness/hx"

	"github.com/elastos/Elastos.ELA/account"
	"github.com/elastos/Elastos.ELA/common"
	"github.com/elastos/Elastos.ELA/core/contract/program"
	"github.com/elastos/Elastos.ELA/core/transaction"
	common2 "github.com/elastos/Elastos.ELA/core/types/common"
	"github.com/elastos/Elastos.ELA/core/types/functions"
	"github.com/elastos/Elastos.ELA/core/types/payload"
	"github.com/elastos/Elastos.ELA/crypto"
	dposaccount "github.com/elastos/Elastos.ELA/dpos/account"
)

func seedOf(s string) int64 {
	v, err := strconv.ParseInt(s, 10, 64)
	if err != nil {
		panic("harness: bad seed " + s)
	}
	return v
}

var tmpDir string

func tmp() string {
	if tmpDir == "" {
		d, err := os.MkdirTemp("", "c38ks")
		if err != nil {
			panic("harness: " + err.Error())
		}
		tmpDir = d
	}
	return tmpDir
}

var ksSeq int

func newKeystore(pw []byte) (*account.Client, string) {
	ksSeq++
	p := filepath.Join(tmp(), fmt.Sprintf("keystore%d.dat", ksSeq))
	os.Remove(p)
	c := account.NewClient(p, pw, true)
	if c == nil {
		panic("harness: NewClient failed")
	}
	return c, p
}

func fresh(a, b []byte) string {
	if bytes.Equal(a, b) {
		return "reused"
	}
	return "fresh"
}

func exec(t []string) string {
	switch t[0] {
	case "nonce":
		s := seedOf(t[1])
		key := sha256.Sum256([]byte("c38 key " + t[1]))
		d := new(big.Int).SetBytes(key[:])
		d.Mod(d, crypto.N)
		var m1, m2 [32]byte
		m1[0], m2[0] = 1, 2
		rand.Seed(s)
		s1, e1 := crypto.AggregateSignatures([]*big.Int{d}, m1)
		rand.Seed(s)
		s2, e2 := crypto.AggregateSignatures([]*big.Int{d}, m2)
		if e1 != nil || e2 != nil {
			return "err sign"
		}
		return fresh(s1[:32], s2[:32])
	case "keygen":
		s := seedOf(t[1])
		rand.Seed(s)
		k1, _, e1 := crypto.GenerateKeyPair()
		rand.Seed(s)
		k2, _, e2 := crypto.GenerateKeyPair()
		if e1 != nil || e2 != nil {
			return "err keygen"
		}
		return fresh(k1, k2)
	case "ecdsa":
		s := seedOf(t[1])
		key := sha256.Sum256([]byte("c38 ecdsa " + t[1]))
		rand.Seed(s)
		g1, e1 := crypto.Sign(key[:], []byte("message one"))
		rand.Seed(s)
		g2, e2 := crypto.Sign(key[:], []byte("message two"))
		if e1 != nil || e2 != nil {
			return "err sign"
		}
		return fresh(g1[:32], g2[:32]) // r = x(kG): equal iff the nonce k repeats
	case "ecies":
		s := seedOf(t[1])
		_, pub, err := crypto.GenerateKeyPair()
		if err != nil {
			return "err keygen"
		}
		rand.Seed(s)
		c1, e1 := crypto.Encrypt(pub, []byte("same message"))
		rand.Seed(s)
		c2, e2 := crypto.Encrypt(pub, []byte("same message"))
		if e1 != nil || e2 != nil {
			return "err encrypt"
		}
		return fresh(c1, c2)
	case "keystore2":
		s := seedOf(t[1])
		rand.Seed(s)
		c1, _ := newKeystore([]byte("pw"))
		iv1, _ := c1.LoadStoredData("IV")
		rand.Seed(s)
		c2, _ := newKeystore([]byte("pw"))
		iv2, _ := c2.LoadStoredData("IV")
		return fresh(iv1, iv2)
	case "noentropy":
		// the OS source fails: a secret producer must report the failure, not fall back to something else
		saved := crand.Reader
		crand.Reader = failingReader{}
		defer func() { crand.Reader = saved }()
		key := sha256.Sum256([]byte("c38 noentropy"))
		switch t[1] {
		case "nonce":
			d := new(big.Int).SetBytes(key[:])
			d.Mod(d, crypto.N)
			var m [32]byte
			if _, err := crypto.AggregateSignatures([]*big.Int{d}, m); err != nil {
				return "error"
			}
		case "keygen":
			if _, _, err := crypto.GenerateKeyPair(); err != nil {
				return "error"
			}
		case "ecdsa":
			if _, err := crypto.Sign(key[:], []byte("m")); err != nil {
				return "error"
			}
		case "keystore":
			ksSeq++
			p := filepath.Join(tmp(), fmt.Sprintf("keystore%d.dat", ksSeq))
			os.Remove(p)
			if c := account.NewClient(p, []byte("pw"), true); c == nil {
				return "error"
			}
		default:
			// any other producer: a panic on the way also means no secret came out
			ok := func() (ok bool) {
				defer func() {
					if recover() != nil {
						ok = false
					}
				}()
				out, err := produce(t[1])
				return err == nil && len(out) > 0
			}()
			if !ok {
				return "error"
			}
		}
		return "produced"
	case "entropy":
		return entropyOp(t[1])
	case "keystore":
		pw := []byte("password-" + t[1])
		crypto.ToAesKey(pw) // warm up
		t0 := time.Now().UnixNano()
		c, _ := newKeystore(pw)
		t1 := time.Now().UnixNano()
		iv, err := c.LoadStoredData("IV")
		if err != nil || len(iv) != 16 {
			return "err iv"
		}
		enc, _ := c.LoadStoredData("MasterKey")
		mk, _ := crypto.AesDecrypt(enc, crypto.ToAesKey(pw), iv)
		// the generator was created right at the start of NewClient: scan a bounded window
		const window = 400_000 // ns
		hi := t0 + window
		if t1 < hi {
			hi = t1
		}
		var found int64 = -1
		var mu sync.Mutex
		var wg sync.WaitGroup
		const workers = 4
		for w := int64(0); w < workers; w++ {
			wg.Add(1)
			go func(w int64) {
				defer wg.Done()
				for s := t0 + w; s <= hi; s += workers {
					r := rand.New(rand.NewSource(s))
					ok := true
					for i := 0; i < 16; i++ {
						if byte(r.Intn(256)) != iv[i] {
							ok = false
							break
						}
					}
					if ok {
						k := make([]byte, 32)
						for i := range k {
							k[i] = byte(r.Intn(256))
						}
						if bytes.Equal(k, mk) {
							mu.Lock()
							found = s
							mu.Unlock()
						}
						return
					}
					if s&0x3ff == w {
						mu.Lock()
						f := found
						mu.Unlock()
						if f >= 0 {
							return
						}
					}
				}
			}(w)
		}
		wg.Wait()
		if found >= 0 {
			lastDetail = fmt.Sprintf("master key reproduced from math/rand seed t0+%dns (window scanned: %dns)", found-t0, hi-t0)
			return "predicted"
		}
		return "unpredictable"
	}
	panic("harness: unknown op " + t[0])
}

var lastDetail string

// ---- positive characterisation: the secret is a function of the OS stream, and enough of it is read per use

type constReader struct{ b byte }

func (r constReader) Read(p []byte) (int, error) {
	for i := range p {
		p[i] = r.b
	}
	return len(p), nil
}

type countingReader struct {
	r io.Reader
	n int
}

func (c *countingReader) Read(p []byte) (int, error) {
	n, err := c.r.Read(p)
	c.n += n
	return n, err
}

// produce runs one secret producer and returns the secret-dependent bytes it produced.
func produce(what string) ([]byte, error) {
	key := sha256.Sum256([]byte("c38 entropy key"))
	switch what {
	case "nonce":
		d := new(big.Int).SetBytes(key[:])
		d.Mod(d, crypto.N)
		var m [32]byte
		sig, err := crypto.AggregateSignatures([]*big.Int{d}, m)
		return sig[:32], err // R = k0*G
	case "keygen":
		k, _, err := crypto.GenerateKeyPair()
		return k, err
	case "ecdsa":
		sig, err := crypto.Sign(key[:], []byte("same message"))
		if err != nil {
			return nil, err
		}
		return sig[:32], nil // r = x(kG)
	case "ecies":
		pub := ecdsaPub(key[:])
		return crypto.Encrypt(pub, []byte("same message"))
	case "keystore":
		ksSeq++
		p := filepath.Join(tmp(), fmt.Sprintf("keystore%d.dat", ksSeq))
		os.Remove(p)
		c := account.NewClient(p, []byte("pw"), true)
		if c == nil {
			return nil, errors.New("NewClient failed")
		}
		iv, _ := c.LoadStoredData("IV")
		mk, _ := c.LoadStoredData("MasterKey")
		return append(iv, mk...), nil
	case "newaccount": // account.NewAccount: a fresh private key
		a, err := account.NewAccount()
		if err != nil {
			return nil, err
		}
		return a.PrivateKey, nil
	case "walletcreate": // account.Create (what `ela-cli wallet create` calls): keystore IV + master key + main account key
		ksSeq++
		p := filepath.Join(tmp(), fmt.Sprintf("keystore%d.dat", ksSeq))
		os.Remove(p)
		c, err := account.Create(p, []byte("pw"))
		if err != nil {
			return nil, err
		}
		iv, _ := c.LoadStoredData("IV")
		return append(iv, c.GetMainAccount().PrivateKey...), nil
	case "walletadd": // account.Add on an EXISTING keystore (`wallet add`): the added account's private key
		// the keystore itself is made from a fixed stream (not part of this use); only Add runs on the reader under test
		ksSeq++
		p := filepath.Join(tmp(), fmt.Sprintf("keystore%d.dat", ksSeq))
		os.Remove(p)
		under := crand.Reader
		crand.Reader = constReader{0x11}
		base, err := account.Create(p, []byte("pw"))
		crand.Reader = under
		if err != nil {
			return nil, err
		}
		mainKey := append([]byte(nil), base.GetMainAccount().PrivateKey...)
		if _, err := account.Add(p, []byte("pw")); err != nil {
			return nil, err
		}
		c, err := account.Open(p, []byte("pw"))
		if err != nil {
			return nil, err
		}
		for _, a := range c.GetAccounts() {
			if len(a.PrivateKey) > 0 && !bytes.Equal(a.PrivateKey, mainKey) {
				return a.PrivateKey, nil
			}
		}
		return nil, errors.New("added account not found")
	case "signdigest": // crypto.SignDigest (`wallet signdigest`)
		sig, err := crypto.SignDigest(key[:], key[:])
		if err != nil {
			return nil, err
		}
		return sig[:32], nil
	case "accountsigndigest": // account.Account.SignDigest
		a, err := account.NewAccountWithPrivateKey(key[:])
		if err != nil {
			return nil, err
		}
		sig, err := a.SignDigest(key[:])
		if err != nil {
			return nil, err
		}
		return sig[:32], nil
	case "accountsign": // account.Account.Sign
		a, err := account.NewAccountWithPrivateKey(key[:])
		if err != nil {
			return nil, err
		}
		sig, err := a.Sign([]byte("same message"))
		if err != nil {
			return nil, err
		}
		return sig[:32], nil
	case "txsign": // account.SignStandardTransaction: the wallet's transaction signature
		a, err := account.NewAccountWithPrivateKey(key[:])
		if err != nil {
			return nil, err
		}
		txn := functions.CreateTransaction(common2.TxVersion09, common2.TransferAsset, 0, &payload.TransferAsset{}, nil,
			[]*common2.Input{{Previous: common2.OutPoint{Index: 1}}}, nil, 0, nil)
		pg, err := account.SignStandardTransaction(txn, &program.Program{Code: a.RedeemScript},
			map[common.Uint160]*account.Account{a.ProgramHash.ToCodeHash(): a})
		if err != nil {
			return nil, err
		}
		return pg.Parameter[1:33], nil
	case "dposproposal", "dposvote", "dpossign", "dpostx": // dpos/account: the arbiter's consensus signatures
		a, err := account.NewAccountWithPrivateKey(key[:])
		if err != nil {
			return nil, err
		}
		da := dposaccount.New(a)
		var sig []byte
		switch what {
		case "dposproposal":
			sig, err = da.SignProposal(&payload.DPOSProposal{Sponsor: da.PublicKeyBytes(), ViewOffset: 1})
		case "dposvote":
			sig, err = da.SignVote(&payload.DPOSProposalVote{Signer: da.PublicKeyBytes(), Accept: true})
		case "dpossign":
			if sig = da.Sign([]byte("same message")); sig == nil {
				err = errors.New("dAccount.Sign returned nil")
			}
		case "dpostx":
			sig, err = da.SignTx(functions.CreateTransaction(common2.TxVersion09, common2.TransferAsset, 0, &payload.TransferAsset{}, nil,
				[]*common2.Input{{Previous: common2.OutPoint{Index: 2}}}, nil, 0, nil))
		}
		if err != nil {
			return nil, err
		}
		return sig[:32], nil
	}
	panic("harness: unknown producer " + what)
}

func ecdsaPub(priv []byte) *crypto.PublicKey {
	x, y := crypto.DefaultCurve.ScalarBaseMult(priv)
	return &crypto.PublicKey{X: x, Y: y}
}

// minimum number of bytes of the OS source one use must consume
var minEntropy = map[string]int{"nonce": 32, "keygen": 32, "ecdsa": 32, "ecies": 48, "keystore": 48,
	"newaccount": 32, "walletcreate": 80, "walletadd": 32, "accountsign": 32, "txsign": 32,
	"dposproposal": 32, "dposvote": 32, "dpossign": 32, "dpostx": 32, "signdigest": 32, "accountsigndigest": 32}

var producers = []string{"nonce", "keygen", "ecdsa", "ecies", "keystore", "newaccount", "walletcreate", "walletadd",
	"accountsign", "txsign", "dposproposal", "dposvote", "dpossign", "dpostx", "signdigest", "accountsigndigest"}

// entropyOp: (1) with crypto/rand.Reader replaced by a constant stream, two uses (separated in time and by a
// re-seeding of the global math/rand generator) must produce the same secret, and a different stream a different
// one: the secret is a function of the OS stream and of nothing else that varies; (2) with a counting reader
// around the real source, every use — the first and the later ones — must read at least minEntropy bytes.
func entropyOp(what string) string {
	saved := crand.Reader
	defer func() { crand.Reader = saved }()
	crand.Reader = constReader{0x5A}
	a1, e1 := produce(what)
	time.Sleep(2 * time.Millisecond)
	rand.Seed(time.Now().UnixNano())
	a2, e2 := produce(what)
	crand.Reader = constReader{0x3C}
	b1, e3 := produce(what)
	if e1 != nil || e2 != nil || e3 != nil {
		return "err produce"
	}
	if !bytes.Equal(a1, a2) {
		lastDetail = fmt.Sprintf("same OS stream, two uses: %x… vs %x…", a1[:8], a2[:8])
		return "other-source"
	}
	if bytes.Equal(a1, b1) {
		lastDetail = "different OS streams, same secret"
		return "ignores-stream"
	}
	cr := &countingReader{r: saved}
	crand.Reader = cr
	for use := 1; use <= 3; use++ {
		before := cr.n
		if _, err := produce(what); err != nil {
			return "err produce"
		}
		if got := cr.n - before; got < minEntropy[what] {
			lastDetail = fmt.Sprintf("use %d read %d bytes of crypto/rand.Reader, at least %d expected", use, got, minEntropy[what])
			return "short"
		}
	}
	return "tracks"
}

type failingReader struct{}

func (failingReader) Read([]byte) (int, error) { return 0, errors.New("entropy source unavailable") }

func oracle(t []string, out string) *hx.Violation {
	switch out {
	case "reused":
		what := map[string]string{
			"nonce":     "two Schnorr signatures of different messages share R (nonce reuse reveals the private key)",
			"keygen":    "GenerateKeyPair returns the same private key twice",
			"ecdsa":     "two ECDSA signatures of different messages share r (nonce reuse reveals the private key)",
			"ecies":     "two ECIES encryptions use the same ephemeral key and IV",
			"keystore2": "two keystores get the same IV (and master key)",
		}[t[0]]
		return &hx.Violation{Kind: "secret-from-seedable-source:" + t[0],
			Detail: "after rand.Seed(" + t[1] + ") twice: " + what}
	case "other-source", "ignores-stream", "short":
		return &hx.Violation{Kind: "secret-not-from-os-entropy:" + t[1] + ":" + out,
			Detail: t[1] + ": " + lastDetail}
	case "produced":
		return &hx.Violation{Kind: "secret-produced-without-entropy:" + t[1],
			Detail: "with crypto/rand.Reader failing, " + t[1] + " still produced a secret instead of returning an error (fallback to a non-OS source)"}
	case "predicted":
		return &hx.Violation{Kind: "keystore-master-key-from-clock", Detail: lastDetail}
	}
	return nil
}

func gen(g *hx.Gen) {
	for i := 0; i < g.N(40, 400); i++ {
		s := int64(g.R.U64() >> 1)
		if i < 4 {
			s = []int64{0, 1, 42, 9223372036854775807}[i]
		}
		g.Emit("nonce %d", s)
		g.Emit("ecdsa %d", s)
		if i%4 == 0 {
			g.Emit("keygen %d", s)
			g.Emit("ecies %d", s)
		}
		if i%10 == 0 {
			g.Emit("keystore2 %d", s)
		}
	}
	for _, w := range []string{"nonce", "keygen", "ecdsa", "keystore"} {
		g.Emit("noentropy %s", w)
	}
	for _, w := range producers {
		g.Emit("entropy %s", w)
	}
	for _, w := range producers[5:] {
		g.Emit("noentropy %s", w)
	}
	for i := 0; i < g.N(1, 3); i++ {
		g.Emit("keystore %d", i)
	}
	if tmpDir != "" {
		os.RemoveAll(tmpDir)
	}
}

func main() {
	functions.CreateTransaction = transaction.CreateTransaction
	hx.Main(&hx.Prop{Name: "C38", Gen: gen, Exec: exec, Oracle: oracle,
		Nontrivial: func(t []string, out string) bool { return true }})
}
