// Harness for C05: spending requires valid signatures from every spent address.
//
// Ops:
//
//	run …      blockchain.RunPrograms on the real code; the op line carries the
//	           DecodePoint/Verify matrix (every key of a program × every signature
//	           chunk of its parameter), the SchnorrVerify cell and the code hashes,
//	           all evaluated by the real crypto package (see harness/runop) and re-checked
//	           by the adapter.  Answer: ok | err <class> | panic.
//	tamper …   same format: the programs of an accepted `run` with the signed data changed.
//	txsig …    the real checkTransactionSignature (core/transaction and blockchain variants) on a
//	           transaction rebuilt from the op: type, payload version, referenced addresses,
//	           attributes, programs (format above execTxsig).
//
// The oracle judges the implementation's `ok` directly against the property, from
// the matrix in the op line, independently of the Lean model.
package main

import (
	"bytes"
	"encoding/hex"
	"math/big"
	mrand "math/rand"
	"os"
	"reflect"
	"sort"
	"strings"

	"elaverif/harness/hx"
	"elaverif/harness/regnet"
	"elaverif/harness/runop"

	"github.com/elastos/Elastos.ELA/account"
	"github.com/elastos/Elastos.ELA/common"
	"github.com/elastos/Elastos.ELA/common/config"
	"github.com/elastos/Elastos.ELA/core"
	"github.com/elastos/Elastos.ELA/core/contract"
	"github.com/elastos/Elastos.ELA/core/contract/program"
	"github.com/elastos/Elastos.ELA/core/transaction"
	ctypes "github.com/elastos/Elastos.ELA/core/types/common"
	"github.com/elastos/Elastos.ELA/core/types/functions"
	"github.com/elastos/Elastos.ELA/core/types/interfaces"
	"github.com/elastos/Elastos.ELA/core/types/outputpayload"
	"github.com/elastos/Elastos.ELA/core/types/payload"
	"github.com/elastos/Elastos.ELA/crypto"
	"github.com/elastos/Elastos.ELA/dpos/state"
)

func exec(t []string) string {
	switch t[0] {
	case "run", "tamper":
		return execRun(t)
	case "txsig":
		return execTxsig(t)
	case "tie":
		return execTie(t)
	case "pipe":
		return execPipe(t)
	}
	panic("harness: unknown op " + t[0])
}

// ---------------------------------------------------------------- oracle

// reviewedExempt is the REVIEWED table of transaction kinds that checkTransactionSignature may accept
// without looking at programs (they are created by the node itself from CR / DPoS state and are checked
// against that state elsewhere).  Kept here, independent of the Lean model and of the source.
func reviewedExempt(variant string, ttype, pver byte) bool {
	switch ctypes.TxType(ttype) {
	case ctypes.NextTurnDPOSInfo, ctypes.CRCProposalRealWithdraw, ctypes.CRAssetsRectify:
		return true
	case ctypes.CRCProposalWithdraw:
		return pver == 0
	case ctypes.DposV2ClaimRewardRealWithdraw, ctypes.VotesRealWithdraw:
		return variant == "tx"
	}
	return false
}

func oracle(t []string, out string) *hx.Violation {
	if out == "panic" {
		return &hx.Violation{Kind: "panic", Detail: hx.LastPanic()}
	}
	if t[0] == "pipe" {
		if out == "accepted-unsigned" {
			return &hx.Violation{Kind: "accept-unsigned-tx", Detail: "the node's sanity + context checks accept a transaction that spends outputs without carrying any program"}
		}
		return nil
	}
	if t[0] == "tie" { // the verdict must not depend on the (random) order of addresses with equal code hashes
		if strings.Contains(out, "|") && (strings.HasPrefix(out, "ok|") || strings.Contains(out, "|ok")) {
			return &hx.Violation{Kind: "verdict-depends-on-map-order",
				Detail: "the same transaction is accepted or rejected depending on Go's map iteration order: " + out}
		}
		return nil
	}
	if out != "ok" {
		return nil
	}
	if t[0] == "txsig" {
		o := parseTxsig(t)
		if reviewedExempt(o.Variant, o.Ttype, o.Pver) {
			return nil
		}
		return runop.JudgeTx(o)
	}
	r := parseRun(t)
	if t[0] == "tamper" {
		return &hx.Violation{Kind: "accept-tampered", Detail: "programs signed over other data were accepted"}
	}
	if len(r.Hs) != len(r.Ps) {
		return &hx.Violation{Kind: "accept-count", Detail: "accepted with different numbers of hashes and programs"}
	}
	for i, h := range r.Hs {
		if v := judgePair(r, h, i); v != nil {
			return v
		}
	}
	return nil
}

func nontrivial(t []string, out string) bool {
	return out != "oracle-mismatch" && len(t) > 8
}

// ---------------------------------------------------------------- generators

type world struct {
	r    *hx.Rand
	keys []*keyPair
}

func (w *world) stdCode(k *keyPair) []byte { return append(append([]byte{33}, k.Enc...), 0xAC) }

// m-of-n code over the given key order (the node does not require sorted keys when verifying)
func (w *world) msCode(m int, ks []*keyPair, last byte) []byte {
	c := []byte{byte(0x50 + m)}
	for _, k := range ks {
		c = append(append(c, 33), k.Enc...)
	}
	return append(c, byte(0x50+len(ks)), last)
}

func (w *world) sigs(data []byte, signers []*keyPair) []byte {
	var p []byte
	for _, k := range signers {
		p = append(append(p, 64), sign(w.r, k, data)...)
	}
	return p
}

func hashFor(pfx byte, code []byte) hashIn {
	return hashIn{Pfx: pfx, Hash: common.ToCodeHash(code).Bytes()}
}

func tamperData(r *hx.Rand, data []byte) []byte {
	d := append([]byte{}, data...)
	switch r.Intn(5) {
	case 0:
		d[0] ^= 1 << uint(r.Intn(8))
	case 1:
		d[len(d)-1] ^= 1 << uint(r.Intn(8))
	case 2:
		d[r.Intn(len(d))] ^= byte(1 + r.Intn(255))
	case 3:
		d = append(d, 0)
	default:
		if len(d) > 1 {
			d = d[:len(d)-1]
		} else {
			d[0]++
		}
	}
	return d
}

func (w *world) pick(n int) []*keyPair {
	idx := map[int]bool{}
	var out []*keyPair
	for len(out) < n {
		i := w.r.Intn(len(w.keys))
		if !idx[i] {
			idx[i] = true
			out = append(out, w.keys[i])
		}
	}
	return out
}

func shuffle(r *hx.Rand, ks []*keyPair) []*keyPair {
	out := append([]*keyPair{}, ks...)
	for i := len(out) - 1; i > 0; i-- {
		j := r.Intn(i + 1)
		out[i], out[j] = out[j], out[i]
	}
	return out
}

func emitPair(g *hx.Gen, data []byte, hs []hashIn, ps []progIn, withTamper bool) {
	out := g.Emit("%s", runLine(data, hs, ps))
	if withTamper && out == "ok" {
		d2 := tamperData(g.R, data)
		line := runLine(d2, hs, ps)
		g.Emit("tamper%s", line[3:])
	}
}

func genMultisig(g *hx.Gen, w *world) {
	r := g.R
	for n := 1; n <= 6; n++ {
		for m := 1; m <= n; m++ {
			for rep := 0; rep < g.N(20, 120); rep++ {
				data := r.Bytes(8 + r.Intn(60))
				ks := w.pick(n)
				pfx := byte(contract.PrefixMultiSig)
				last := byte(0xAE)
				if r.Chance(15) {
					pfx = byte(contract.PrefixCrossChain)
					last = 0xAF
				} else if r.Chance(10) {
					pfx = byte(contract.PrefixDeposit) // "mulitisign deposite" branch
				}
				code := w.msCode(m, ks, last)
				var signers []*keyPair
				switch r.Intn(9) {
				case 0: // exactly m distinct signers
					signers = shuffle(r, ks)[:m]
				case 1: // all n
					signers = shuffle(r, ks)
				case 2: // m-1 signers
					signers = shuffle(r, ks)[:m-1]
				case 3: // one signer repeated to reach m
					s := ks[r.Intn(n)]
					for i := 0; i < m; i++ {
						signers = append(signers, s)
					}
				case 4: // m signers, one of them foreign
					signers = shuffle(r, ks)[:m]
					signers[r.Intn(m)] = newKey(r)
				case 5: // m distinct plus a repeat (still ≤ n chunks when possible)
					signers = shuffle(r, ks)[:m]
					if m < n {
						signers = append(signers, signers[0])
					}
				case 6: // the same key in two slots of the script, signing "twice"
					if n >= 2 {
						ks2 := append([]*keyPair{}, ks...)
						ks2[1] = ks2[0]
						code = w.msCode(m, ks2, last)
						signers = []*keyPair{ks2[0], ks2[0]}
						for len(signers) < m {
							signers = append(signers, ks2[len(signers)])
						}
						if len(signers) > n {
							signers = signers[:n]
						}
					} else {
						signers = ks[:1]
					}
				case 7: // n+1 chunks
					signers = append(shuffle(r, ks), ks[0])
				default: // m..n distinct
					signers = shuffle(r, ks)[:m+r.Intn(n-m+1)]
				}
				param := w.sigs(data, signers)
				if r.Chance(5) && len(param) > 0 {
					param = param[:len(param)-1-r.Intn(3)]
				}
				if r.Chance(5) && len(param) > 70 { // signature bytes damaged
					param[1+r.Intn(64)] ^= 0x40
				}
				h := hashFor(pfx, code)
				if pfx == byte(contract.PrefixCrossChain) && r.Chance(50) {
					h.Hash = r.Bytes(20) // no binding between address and code for cross-chain
				}
				emitPair(g, data, []hashIn{h}, []progIn{{Code: code, Param: param}}, true)
			}
		}
	}
}

func genStandard(g *hx.Gen, w *world) {
	r := g.R
	for i := 0; i < g.N(400, 3000); i++ {
		data := r.Bytes(8 + r.Intn(60))
		k := w.keys[r.Intn(len(w.keys))]
		code := w.stdCode(k)
		signer := k
		if r.Chance(20) {
			signer = newKey(r)
		}
		param := w.sigs(data, []*keyPair{signer})
		switch r.Intn(12) {
		case 0:
			param = param[:64]
		case 1:
			param = append(param, 0)
		case 2:
			param[1+r.Intn(64)] ^= 1
		case 3:
			code[1] = byte(r.Pick(0x05, 0x04, 0x06, 0x07, 0x00)) // undecodable point / another point format
		}
		pfx := byte(contract.PrefixStandard)
		if r.Chance(25) {
			pfx = byte(contract.PrefixDeposit)
		} else if r.Chance(5) {
			pfx = byte(r.Pick(0x12, 0x67, 0x3f, 0))
		}
		h := hashFor(pfx, code)
		if r.Chance(8) {
			h.Hash = r.Bytes(20)
		}
		emitPair(g, data, []hashIn{h}, []progIn{{Code: code, Param: param}}, true)
	}
}

func genSchnorr(g *hx.Gen, w *world) {
	r := g.R
	for i := 0; i < g.N(200, 1500); i++ {
		data := r.Bytes(8 + r.Intn(60))
		n := 1 + r.Intn(4)
		var privs []*big.Int
		var pubs [][]byte
		for j := 0; j < n; j++ {
			d := new(big.Int).SetBytes(r.Bytes(32))
			d.Mod(d, new(big.Int).Sub(crypto.N, big.NewInt(1)))
			d.Add(d, big.NewInt(1))
			privs = append(privs, d)
			x, y := crypto.Curve.ScalarBaseMult(d.Bytes())
			pubs = append(pubs, crypto.Marshal(crypto.Curve, x, y))
		}
		agg, err := crypto.AggregatePublickeys(pubs)
		if err != nil || len(agg) != 33 {
			continue
		}
		code := append([]byte{0x51, 33}, agg...)
		mrand.Seed(int64(r.U64() >> 1))
		signers := privs
		if r.Chance(20) && n > 1 {
			signers = privs[:n-1] // one signer missing from the aggregate
		}
		sig, err := crypto.AggregateSignatures(signers, common.Sha256D(data))
		if err != nil {
			continue
		}
		param := sig[:]
		switch r.Intn(10) {
		case 0:
			param = append(append([]byte{}, param...), r.Bytes(1+r.Intn(3))...) // longer parameter: first 64 bytes count
		case 1:
			param = append([]byte{}, param[:63]...)
		case 2:
			param = append([]byte{}, param...)
			param[r.Intn(64)] ^= 1
		}
		pfx := byte(r.Pick(0x21, 0x21, 0x1F, 0x4B))
		emitPair(g, data, []hashIn{hashFor(pfx, code)}, []progIn{{Code: code, Param: append([]byte{}, param...)}}, true)
	}
}

func genOdd(g *hx.Gen, w *world) {
	r := g.R
	for i := 0; i < g.N(500, 4000); i++ {
		data := r.Bytes(8 + r.Intn(30))
		var code []byte
		switch r.Intn(6) {
		case 0: // standard shaped, last opcode not CHECKSIG: the fall-through
			code = w.stdCode(w.keys[0])
			code[34] = byte(r.Pick(0, 0xAD, 0xAE, 0xAF, 0x51))
		case 1: // 23..40 random bytes
			code = r.Bytes(23 + r.Intn(18))
		case 2: // multisig script whose declared n is wrong
			ks := w.pick(3)
			code = w.msCode(2, ks, 0xAE)
			code[len(code)-2] = byte(0x50 + r.Pick(2, 4))
		case 3: // m = 0 / negative
			ks := w.pick(2)
			code = w.msCode(0, ks, byte(r.Pick(0xAE, 0xAF)))
			code[0] = byte(r.Pick(0x50, 0x4f, 0x00))
		case 4: // multisig script with the wrong last opcode
			ks := w.pick(2)
			code = w.msCode(1, ks, byte(r.Pick(0xAC, 0xAF, 0xAE)))
		default:
			ks := w.pick(2)
			code = append(w.msCode(1, ks, 0xAE), r.Bytes(1+r.Intn(2))...)
		}
		pfx := byte(r.Pick(0x21, 0x1F, 0x12, 0x4B))
		var param []byte
		if r.Chance(50) {
			param = w.sigs(data, w.pick(1+r.Intn(2)))
		}
		h := hashFor(pfx, code)
		if pfx == 0x4B {
			h.Hash = r.Bytes(20)
		}
		emitPair(g, data, []hashIn{h}, []progIn{{Code: code, Param: param}}, false)
	}
}

// several (hash, program) pairs per transaction: all good, one bad, misaligned, count mismatch
func genMulti(g *hx.Gen, w *world) {
	r := g.R
	for i := 0; i < g.N(400, 3000); i++ {
		data := r.Bytes(8 + r.Intn(60))
		np := 2 + r.Intn(2)
		var hs []hashIn
		var ps []progIn
		for k := 0; k < np; k++ {
			if r.Bool() {
				key := w.keys[r.Intn(len(w.keys))]
				code := w.stdCode(key)
				hs = append(hs, hashFor(0x21, code))
				ps = append(ps, progIn{Code: code, Param: w.sigs(data, []*keyPair{key})})
			} else {
				n := 2 + r.Intn(2)
				ks := w.pick(n)
				m := 1 + r.Intn(n)
				code := w.msCode(m, ks, 0xAE)
				hs = append(hs, hashFor(0x12, code))
				ps = append(ps, progIn{Code: code, Param: w.sigs(data, shuffle(r, ks)[:m])})
			}
		}
		if r.Chance(35) { // a validly signed cross-chain (or Schnorr cross-chain) pair somewhere in the list:
			// every OTHER pair must still be checked
			n := 2 + r.Intn(2)
			ks := w.pick(n)
			m := 1 + r.Intn(n)
			code := w.msCode(m, ks, 0xAF)
			h := hashFor(byte(contract.PrefixCrossChain), code)
			pr := progIn{Code: code, Param: w.sigs(data, shuffle(r, ks)[:m])}
			at := r.Intn(len(hs) + 1)
			hs = append(hs[:at], append([]hashIn{h}, hs[at:]...)...)
			ps = append(ps[:at], append([]progIn{pr}, ps[at:]...)...)
			np++
		}
		switch r.Intn(6) {
		case 0: // one program signed over other data
			k := r.Intn(np)
			ps[k].Param = w.sigs(tamperData(r, data), w.pick(len(ps[k].Param)/65))
		case 1: // programs in the wrong order
			ps[0], ps[1] = ps[1], ps[0]
		case 2:
			hs = hs[:len(hs)-1]
		case 3:
			ps = ps[:len(ps)-1]
		}
		emitPair(g, data, hs, ps, true)
	}
}

// ---------------------------------------------------------------- pipe: the whole validation pipeline on a real node
//
//	pipe <height> <transaction bytes>
//
// decode, BlockChain.CheckTransactionSanity and CheckTransactionContext at <height> on an in-process regnet
// node whose DPoS state holds one inactive, funded producer (node key = account 1).  Answer `fine`, or
// `accepted-unsigned` when the node accepts a transaction that spends outputs although it carries no
// program at all and its (type, version) is not in the reviewed exemption table.

var (
	pipeNode *regnet.Node
	pipeDir  string
)

func getPipeNode() *regnet.Node {
	if pipeNode == nil {
		dir, err := os.MkdirTemp("", "c05-regnet")
		if err != nil {
			panic("harness: tempdir")
		}
		n, err := regnet.NewNode(dir, regnet.Options{CoinbaseMaturity: 1, NoPoolEvents: true, Tweak: func(p *config.Configuration) {
			// the origin (on-duty) arbiters are accounts whose keys the harness holds, so that payloads which need
			// the signature of the on-duty cross-chain arbiter (SideChainPow) can be produced
			var ks []string
			for i := 0; i <= regnet.NumUsers; i++ {
				a, err := account.NewAccountWithPrivateKey(regnet.DeterministicKey(i))
				if err != nil {
					panic("harness: account")
				}
				b, _ := a.PublicKey.EncodePoint(true)
				ks = append(ks, hex.EncodeToString(b))
			}
			p.DPoSConfiguration.OriginArbiters = ks
		}})
		if err != nil {
			panic("harness: regnet node: " + err.Error())
		}
		pipeNode, pipeDir = n, dir
		// an inactive producer whose node key is account 1's key, deposit large enough for every era
		owner, node := n.Accounts[2].PublicKey, n.Accounts[1].PublicKey
		ob, _ := owner.EncodePoint(true)
		nb, _ := node.EncodePoint(true)
		st := n.Chain.GetState()
		st.InactiveProducers[hex.EncodeToString(ob)] = state.VerifC05InactiveProducer(ob, nb, 1000000*100000000, state.DPoSV1V2)
		st.NodeOwnerKeys[hex.EncodeToString(nb)] = hex.EncodeToString(ob)
	}
	return pipeNode
}

func execPipe(t []string) string {
	n := getPipeNode()
	height := uint32(atoi(t[1]))
	var tx interfaces.Transaction
	func() {
		defer func() { recover() }()
		r := bytes.NewReader(hx.UnHex(t[2]))
		x, err := functions.GetTransactionByBytes(r)
		if err != nil || x.Deserialize(r) != nil {
			return
		}
		tx = x
	}()
	if tx == nil {
		return "fine"
	}
	_ = tx.Hash()
	if err := n.Chain.CheckTransactionSanity(height, tx); err != nil {
		return "fine"
	}
	if _, err := n.Chain.CheckTransactionContext(height, tx, 0, 0); err != nil {
		return "fine"
	}
	if len(tx.Inputs()) == 0 || tx.IsCoinBaseTx() || reviewedExempt("tx", byte(tx.TxType()), tx.PayloadVersion()) {
		return "fine"
	}
	if len(tx.Programs()) == 0 {
		return "accepted-unsigned"
	}
	// every spent (non cross-chain) address needs at least a program whose code hashes to it
	refs, err := n.Chain.UTXOCache.GetTxReference(tx)
	if err != nil {
		return "fine"
	}
	for _, out := range refs {
		if out.ProgramHash[0] == byte(contract.PrefixCrossChain) {
			continue
		}
		found := false
		for _, p := range tx.Programs() {
			if common.ToCodeHash(p.Code).IsEqual(out.ProgramHash.ToCodeHash()) {
				found = true
			}
		}
		if !found {
			return "accepted-unsigned"
		}
	}
	return "fine"
}

// every *Height of the configuration (reflection over the parameter structs)
func configHeights(p *config.Configuration) []uint32 {
	seen := map[uint32]bool{}
	var walk func(v reflect.Value)
	walk = func(v reflect.Value) {
		switch v.Kind() {
		case reflect.Ptr:
			if !v.IsNil() {
				walk(v.Elem())
			}
		case reflect.Struct:
			for i := 0; i < v.NumField(); i++ {
				f := v.Type().Field(i)
				if f.PkgPath != "" {
					continue
				}
				if v.Field(i).Kind() == reflect.Uint32 && strings.Contains(f.Name, "Height") {
					seen[uint32(v.Field(i).Uint())] = true
				} else if v.Field(i).Kind() == reflect.Struct || v.Field(i).Kind() == reflect.Ptr {
					if f.Type.String() != "*big.Int" && f.Type.String() != "*types.Block" {
						walk(v.Field(i))
					}
				}
			}
		}
	}
	walk(reflect.ValueOf(p))
	var hs []uint32
	for h := range seen {
		if h > 2 && h < 1<<31 {
			hs = append(hs, h)
		}
	}
	sort.Slice(hs, func(i, j int) bool { return hs[i] < hs[j] })
	return hs
}

// transactions that spend a foreign output WITHOUT any program, of every type, at every configured height
// boundary (h-1, h, h+1); ActivateProducer carries a valid payload signature of the prepared producer's node key
func genPipe(g *hx.Gen) {
	r := g.R
	n := getPipeNode()
	utxos, err := n.UTXOs(0)
	if err != nil || len(utxos) == 0 {
		panic("harness: no genesis coins")
	}
	nb, _ := n.Accounts[1].PublicKey.EncodePoint(true)
	var heights []uint32
	for _, h := range configHeights(n.Params) {
		heights = append(heights, h-1, h, h+1)
	}
	for _, tt := range allTxTypes() {
		for _, h := range heights {
			if !g.Quick() || tt == byte(ctypes.ActivateProducer) || r.Chance(12) {
				var pl interfaces.Payload
				if tt == byte(ctypes.ActivateProducer) {
					ap := &payload.ActivateProducer{NodePublicKey: nb}
					buf := new(bytes.Buffer)
					ap.SerializeUnsigned(buf, 0)
					sig, err := crypto.Sign(n.Accounts[1].PrivateKey, buf.Bytes())
					if err != nil {
						panic("harness: sign")
					}
					ap.Signature = sig
					pl = ap
				} else {
					p0, err := interfaces.GetPayload(ctypes.TxType(tt), 0)
					if err != nil || p0 == nil {
						continue
					}
					pl = p0
				}
				u := utxos[r.Intn(len(utxos))]
				for _, withInput := range []bool{true, false} {
					var ins []*ctypes.Input
					if withInput {
						ins = append(ins, &ctypes.Input{Previous: ctypes.OutPoint{TxID: u.TxID, Index: uint16(u.Index)}})
					}
					var raw []byte
					func() {
						defer func() { recover() }()
						tx := functions.CreateTransaction(ctypes.TxVersion09, ctypes.TxType(tt), 0, pl, []*ctypes.Attribute{}, ins,
							[]*ctypes.Output{}, 0, []*program.Program{})
						buf := new(bytes.Buffer)
						if tx.Serialize(buf) == nil {
							raw = buf.Bytes()
						}
					}()
					if raw != nil {
						g.Emit("pipe %d %s", h, hx.Hex(raw))
					}
				}
			}
		}
	}
}

// SideChainPow in its legacy form (with inputs): payload signed by the on-duty cross-chain arbiter (one of the
// harness accounts, see getPipeNode), a foreign input, and a program of ANOTHER account (syntactically fine)
func genPipeSideChainPow(g *hx.Gen) {
	r := g.R
	n := getPipeNode()
	utxos, _ := n.UTXOs(0)
	onDuty := n.Arbiters.GetOnDutyCrossChainArbitrator()
	var signer *account.Account
	for _, a := range n.Accounts {
		b, _ := a.PublicKey.EncodePoint(true)
		if bytes.Equal(b, onDuty) {
			signer = a
		}
	}
	if signer == nil || len(utxos) == 0 {
		return
	}
	var heights []uint32
	for _, h := range configHeights(n.Params) {
		heights = append(heights, h-1, h+1)
	}
	heights = append(heights, 3, 4000000)
	for _, h := range heights {
		pl := &payload.SideChainPow{BlockHeight: uint32(r.Intn(100000))}
		copy(pl.SideBlockHash[:], r.Bytes(32))
		copy(pl.SideGenesisHash[:], r.Bytes(32))
		buf := new(bytes.Buffer)
		pl.Serialize(buf, payload.SideChainPowVersion)
		sig, err := crypto.Sign(signer.PrivateKey, buf.Bytes()[0:68])
		if err != nil {
			panic("harness: sign")
		}
		pl.Signature = sig
		u := utxos[r.Intn(len(utxos))]
		other := n.Accounts[3]
		for _, withInput := range []bool{true, false} {
			for _, nOut := range []int{0, 1} {
				var ins []*ctypes.Input
				progs := []*program.Program{}
				if withInput {
					ins = append(ins, &ctypes.Input{Previous: ctypes.OutPoint{TxID: u.TxID, Index: uint16(u.Index)}})
					progs = append(progs, &program.Program{Code: other.RedeemScript, Parameter: append([]byte{64}, r.Bytes(64)...)})
				}
				var outs []*ctypes.Output
				for k := 0; k < nOut; k++ {
					outs = append(outs, &ctypes.Output{AssetID: core.ELAAssetID, Value: u.Value - 10000, ProgramHash: other.ProgramHash,
						Type: ctypes.OTNone, Payload: &outputpayload.DefaultOutput{}})
				}
				tx := functions.CreateTransaction(ctypes.TxVersion09, ctypes.SideChainPow, payload.SideChainPowVersion, pl,
					[]*ctypes.Attribute{{Usage: ctypes.Nonce, Data: r.Bytes(8)}}, ins, outs, 0, progs)
				b := new(bytes.Buffer)
				if tx.Serialize(b) == nil {
					g.Emit("pipe %d %s", h, hx.Hex(b.Bytes()))
				}
			}
		}
	}
}

func allTxTypes() []byte {
	var ts []byte
	for t := 0; t < 256; t++ {
		if _, err := transaction.GetTransaction(ctypes.TxType(t)); err == nil {
			ts = append(ts, byte(t))
		}
	}
	return ts
}

// every transaction type × payload version 0..3 × {tx, bc} × scenarios
func genTxsig(g *hx.Gen, w *world) {
	r := g.R
	for _, tt := range allTxTypes() {
		for pv := 0; pv <= 3; pv++ {
			if pl, err := interfaces.GetPayload(ctypes.TxType(tt), byte(pv)); err != nil || pl == nil {
				continue
			}
			for _, variant := range []string{"tx", "bc"} {
				scen := 8
				for sc := 0; sc < scen; sc++ {
					for rep := 0; rep < g.N(1, 4); rep++ {
						o := &txOp{Variant: variant, Ttype: tt, Pver: byte(pv), Lock: uint32(r.Intn(1000))}
						type acct struct {
							pfx  byte
							code []byte
							ks   []*keyPair
							m    int
							sch  []*big.Int // private scalars of a Schnorr aggregate account
						}
						nAcc := 1 + r.Intn(3)
						var accts []acct
						used := w.pick(nAcc + 1)
						for k := 0; k < nAcc; k++ {
							switch kind := r.Intn(10); {
							case kind < 5:
								accts = append(accts, acct{pfx: 0x21, code: w.stdCode(used[k]), ks: []*keyPair{used[k]}, m: 1})
							case kind == 5: // the deposit address of a key
								accts = append(accts, acct{pfx: byte(contract.PrefixDeposit), code: w.stdCode(used[k]), ks: []*keyPair{used[k]}, m: 1})
							case kind == 6: // a stake (DPoS v2) address: RunPrograms knows no such prefix
								accts = append(accts, acct{pfx: byte(contract.PrefixDPoSV2), code: w.stdCode(used[k]), ks: []*keyPair{used[k]}, m: 1})
							case kind == 7: // Schnorr aggregate account of 1..3 members
								var privs []*big.Int
								var pubs [][]byte
								for j, nm := 0, 1+r.Intn(3); j < nm; j++ {
									d := new(big.Int).SetBytes(r.Bytes(32))
									d.Mod(d, new(big.Int).Sub(crypto.N, big.NewInt(1)))
									d.Add(d, big.NewInt(1))
									privs = append(privs, d)
									x, y := crypto.Curve.ScalarBaseMult(d.Bytes())
									pubs = append(pubs, crypto.Marshal(crypto.Curve, x, y))
								}
								agg, _ := crypto.AggregatePublickeys(pubs)
								accts = append(accts, acct{pfx: 0x21, code: append([]byte{0x51, 33}, agg...), sch: privs, m: 1})
							default:
								ks := w.pick(2 + r.Intn(2))
								m := 1 + r.Intn(len(ks))
								accts = append(accts, acct{pfx: 0x12, code: w.msCode(m, ks, 0xAE), ks: ks, m: m})
							}
						}
						for _, a := range accts {
							h := hashFor(a.pfx, a.code)
							o.Refs = append(o.Refs, h)
							if r.Chance(35) { // the same address referenced by a second input
								o.Refs = append(o.Refs, h)
							}
						}
						o.Attrs = append(o.Attrs, attrIn{Usage: byte(ctypes.Nonce), Data: r.Bytes(8)})
						withScript := sc == 7 || sc == 6
						var scriptAcct *acct
						if withScript {
							a := acct{pfx: 0x21, code: w.stdCode(used[nAcc]), ks: []*keyPair{used[nAcc]}, m: 1}
							h := hashFor(a.pfx, a.code)
							data := append([]byte{h.Pfx}, h.Hash...)
							if sc == 6 {
								data = data[:20] // malformed: not 21 bytes
							} else {
								scriptAcct = &a
							}
							o.Attrs = append(o.Attrs, attrIn{Usage: byte(ctypes.Script), Data: data})
						}
						tx, _, _ := buildTx(o, nil)
						data := unsignedOf(tx)
						signData := data
						if sc == 2 { // signatures made over another lock time
							o2 := *o
							o2.Lock++
							tx2, _, _ := buildTx(&o2, nil)
							signData = unsignedOf(tx2)
						}
						all := append([]acct{}, accts...)
						if scriptAcct != nil {
							all = append(all, *scriptAcct)
						}
						var ps []progIn
						for k, a := range all {
							code := a.code
							if a.sch != nil && !(sc == 1 && k == 0) {
								mrand.Seed(int64(r.U64() >> 1))
								sig, err := crypto.AggregateSignatures(a.sch, common.Sha256D(signData))
								if err != nil {
									panic("harness: AggregateSignatures")
								}
								ps = append(ps, progIn{Code: code, Param: append([]byte{}, sig[:]...)})
								continue
							}
							signers := shuffle(r, a.ks)
							if len(signers) > a.m {
								signers = signers[:a.m]
							}
							if sc == 1 && k == 0 { // foreign program: another key's script, validly signed by that key
								fk := newKey(r)
								code = w.stdCode(fk)
								signers = []*keyPair{fk}
							}
							ps = append(ps, progIn{Code: code, Param: w.sigs(signData, signers)})
						}
						switch sc {
						case 3:
							ps = ps[:len(ps)-1]
						case 4:
							ps = append(ps, ps[0])
						case 5:
							ps[0].Param = nil // program present, no signature at all
						}
						// programs in random order: the node sorts them
						for i := len(ps) - 1; i > 0; i-- {
							j := r.Intn(i + 1)
							ps[i], ps[j] = ps[j], ps[i]
						}
						// references in random order as well
						for i := len(o.Refs) - 1; i > 0; i-- {
							j := r.Intn(i + 1)
							o.Refs[i], o.Refs[j] = o.Refs[j], o.Refs[i]
						}
						if line := txsigLine(o, ps); line != "" {
							g.Emit("%s", line)
						}
					}
				}
			}
		}
	}
}

// addresses with EQUAL code hashes: the standard and the deposit address of one key, the standard and
// the multisig-prefixed address of one script, … spent together, with one program per address (same
// code, possibly different parameters).  For codes of known kind the verdict must be the same in every
// tie order; for a multisig-shaped code that IsMultiSig rejects (wrong push marker) it is not.
func genTies(g *hx.Gen, w *world) {
	r := g.R
	for i := 0; i < g.N(40, 400); i++ {
		o := &txOp{Variant: "tx", Ttype: byte(ctypes.TransferAsset), Pver: 0, Lock: uint32(r.Intn(1000))}
		o.Attrs = append(o.Attrs, attrIn{Usage: byte(ctypes.Nonce), Data: r.Bytes(8)})
		var code []byte
		var ks []*keyPair
		m := 1
		kind := r.Intn(4)
		switch kind {
		case 0: // standard code under standard + deposit prefixes
			ks = w.pick(1)
			code = w.stdCode(ks[0])
		case 1: // multisig code under multisig + standard/deposit prefixes
			ks = w.pick(2 + r.Intn(2))
			m = 1 + r.Intn(len(ks))
			code = w.msCode(m, ks, 0xAE)
		case 2: // multisig-shaped code with a wrong push marker: CheckMultiSigSignatures parses it, IsMultiSig does not
			ks = w.pick(2)
			m = 1 + r.Intn(2)
			code = w.msCode(m, ks, 0xAE)
			code[1] = 0x20
		default: // standard code under standard + multisig prefix (the multisig side can never verify)
			ks = w.pick(1)
			code = w.stdCode(ks[0])
		}
		pf := [][]byte{{0x21, 0x1F}, {0x12, 0x21}, {0x21, 0x12}, {0x21, 0x12}}[kind]
		ch := common.ToCodeHash(code).Bytes()
		o.Refs = []hashIn{{Pfx: pf[0], Hash: ch}, {Pfx: pf[1], Hash: ch}}
		tx, _, _ := buildTx(o, nil)
		data := unsignedOf(tx)
		signers := shuffle(r, ks)[:m]
		good := progIn{Code: code, Param: w.sigs(data, signers)}
		bad := progIn{Code: code, Param: nil}
		if r.Bool() {
			bad.Param = w.sigs(tamperData(r, data), signers)
		}
		var ps []progIn
		switch r.Intn(3) {
		case 0:
			ps = []progIn{good, good}
		case 1:
			ps = []progIn{good, bad}
		default:
			ps = []progIn{bad, good}
		}
		line := txsigLine(o, ps)
		g.Emit("tie%s", line[5:])
	}
}

func gen(g *hx.Gen) {
	mrand.Seed(int64(g.Seed))
	w := &world{r: g.R}
	for i := 0; i < 10; i++ {
		w.keys = append(w.keys, newKey(g.R))
	}
	genMultisig(g, w)
	genStandard(g, w)
	genSchnorr(g, w)
	genOdd(g, w)
	genMulti(g, w)
	genTxsig(g, w)
	genTies(g, w)
	genPipe(g)
	genPipeSideChainPow(g)
}

func cleanupPipe() {
	if pipeNode != nil {
		pipeNode.Close()
		os.RemoveAll(pipeDir)
	}
}

func main() {
	defer cleanupPipe()
	functions.GetTransactionByTxType = transaction.GetTransaction
	functions.GetTransactionByBytes = transaction.GetTransactionByBytes
	functions.CreateTransaction = transaction.CreateTransaction
	functions.GetTransactionParameters = transaction.GetTransactionparameters
	hx.Main(&hx.Prop{Name: "C05", Gen: gen, Exec: exec, Oracle: oracle, Nontrivial: nontrivial})
}
