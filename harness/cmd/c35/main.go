// Harness for C35: P2P framing (p2p.ReadMessage / WriteMessage / Header, CheckAndCreateMessage,
// the command switches of the main-net and DPoS stacks).
//
// The real reader is driven through the exported hooks (build tag verif) over an in-memory
// net.Conn (a byte stream with EOF at its end; `rt` ops use a real net.Pipe).  The connection
// wrapper counts the bytes the reader consumed; runtime.MemStats meters what it allocated.
package main

import (
	"bytes"
	"crypto/sha256"
	"encoding/binary"
	"errors"
	"fmt"
	"io"
	"math"
	"net"
	"runtime"
	"strconv"
	"strings"
	"time"

	"elaverif/harness/hx"

	"github.com/elastos/Elastos.ELA/common"
	"github.com/elastos/Elastos.ELA/core/contract/program"
	"github.com/elastos/Elastos.ELA/core/transaction"
	"github.com/elastos/Elastos.ELA/core/types"
	ctypes "github.com/elastos/Elastos.ELA/core/types/common"
	"github.com/elastos/Elastos.ELA/core/types/functions"
	"github.com/elastos/Elastos.ELA/core/types/outputpayload"
	"github.com/elastos/Elastos.ELA/core/types/payload"
	"github.com/elastos/Elastos.ELA/dpos"
	dmsg "github.com/elastos/Elastos.ELA/dpos/p2p/msg"
	dpeer "github.com/elastos/Elastos.ELA/dpos/p2p/peer"
	"github.com/elastos/Elastos.ELA/elanet"
	"github.com/elastos/Elastos.ELA/elanet/bloom"
	"github.com/elastos/Elastos.ELA/elanet/pact"
	"github.com/elastos/Elastos.ELA/p2p"
	"github.com/elastos/Elastos.ELA/p2p/msg"
	"github.com/elastos/Elastos.ELA/p2p/peer"
)

// ---------------------------------------------------------------- in-memory connection

type memConn struct {
	r     *bytes.Reader
	w     bytes.Buffer
	read  int
	chunk int // > 0: a Read delivers at most this many bytes (TCP segmentation)
}

func (c *memConn) Read(b []byte) (int, error) {
	if c.chunk > 0 && len(b) > c.chunk {
		b = b[:c.chunk]
	}
	n, err := c.r.Read(b)
	c.read += n
	return n, err
}
func (c *memConn) Write(b []byte) (int, error)        { return c.w.Write(b) }
func (c *memConn) Close() error                       { return nil }
func (c *memConn) LocalAddr() net.Addr                { return &net.TCPAddr{} }
func (c *memConn) RemoteAddr() net.Addr               { return &net.TCPAddr{} }
func (c *memConn) SetDeadline(t time.Time) error      { return nil }
func (c *memConn) SetReadDeadline(t time.Time) error  { return nil }
func (c *memConn) SetWriteDeadline(t time.Time) error { return nil }

// ---------------------------------------------------------------- stacks

var checkAddrCreate p2p.CreateMessage = func(hdr p2p.Header, r net.Conn) (p2p.Message, error) {
	// the closure in p2p/server.checkAddr is not reachable from outside; this is its text
	// (the extractor pins that text: Gen.C35.checkAddr).
	switch hdr.GetCMD() {
	case p2p.CmdVersion:
		return peer.CheckAndCreateMessage(hdr, &msg.Version{}, r)
	default:
		return nil, errors.New("invalid message")
	}
}

func stackCreate(st string) p2p.CreateMessage {
	switch st {
	case "elanet":
		return peer.VerifCreateMessage(elanet.VerifCreateMessage)
	case "dpos":
		return dpeer.VerifCreateMessage(dpos.VerifCreateMessage)
	case "checkaddr":
		return checkAddrCreate
	case "spv":
		// an SPV peer: the reader of the messages the node only writes
		return func(hdr p2p.Header, r net.Conn) (p2p.Message, error) {
			switch hdr.GetCMD() {
			case p2p.CmdMerkleBlock:
				return peer.CheckAndCreateMessage(hdr, msg.NewMerkleBlock(&ctypes.Header{}), r)
			default:
				return nil, errors.New("invalid message")
			}
		}
	}
	panic("harness: unknown stack " + st)
}

// instances: what the harness itself believes each command's message type is — used to build
// payloads and, in the oracle, to ask the real type for MaxLength().  Independent of the model.
var instances = map[string]map[string]func() p2p.Message{
	"elanet": {
		"version": func() p2p.Message { return &msg.Version{} }, "verack": func() p2p.Message { return &msg.VerAck{} },
		"getaddr": func() p2p.Message { return &msg.GetAddr{} }, "addr": func() p2p.Message { return &msg.Addr{} },
		"ping": func() p2p.Message { return &msg.Ping{} }, "pong": func() p2p.Message { return &msg.Pong{} },
		"mempool": func() p2p.Message { return &msg.MemPool{} }, "tx": func() p2p.Message { return &msg.Tx{} },
		"block": func() p2p.Message { return msg.NewBlock(&types.DposBlock{}) }, "inv": func() p2p.Message { return &msg.Inv{} },
		"notfound": func() p2p.Message { return &msg.NotFound{} }, "getdata": func() p2p.Message { return &msg.GetData{} },
		"getblocks": func() p2p.Message { return &msg.GetBlocks{} }, "filteradd": func() p2p.Message { return &msg.FilterAdd{} },
		"filterclear": func() p2p.Message { return &msg.FilterClear{} }, "filterload": func() p2p.Message { return &msg.FilterLoad{} },
		"txfilter": func() p2p.Message { return &msg.TxFilterLoad{} }, "reject": func() p2p.Message { return &msg.Reject{} },
		"daddr": func() p2p.Message { return &msg.DAddr{} },
	},
	"dpos": {
		"version": func() p2p.Message { return &dmsg.Version{} }, "verack": func() p2p.Message { return &dmsg.VerAck{} },
		"addr": func() p2p.Message { return &dmsg.Addr{} }, "ping": func() p2p.Message { return &dmsg.Ping{} },
		"pong":  func() p2p.Message { return &dmsg.Pong{} },
		"block": func() p2p.Message { return msg.NewBlock(&types.Block{}) }, "tx": func() p2p.Message { return &msg.Tx{} },
		"acc_vote": func() p2p.Message { return &dmsg.Vote{Command: dmsg.CmdAcceptVote} },
		"rej_vote": func() p2p.Message { return &dmsg.Vote{Command: dmsg.CmdRejectVote} },
		"proposal": func() p2p.Message { return &dmsg.Proposal{} }, "inv": func() p2p.Message { return &dmsg.Inventory{} },
		"getblock": func() p2p.Message { return &dmsg.GetBlock{} }, "get_blc": func() p2p.Message { return &dmsg.GetBlocks{} },
		"res_blc": func() p2p.Message { return &dmsg.ResponseBlocks{} }, "req_con": func() p2p.Message { return &dmsg.RequestConsensus{} },
		"res_con": func() p2p.Message { return &dmsg.ResponseConsensus{} }, "req_pro": func() p2p.Message { return &dmsg.RequestProposal{} },
		"ill_pro": func() p2p.Message { return &dmsg.IllegalProposals{} }, "ill_vote": func() p2p.Message { return &dmsg.IllegalVotes{} },
		"side_ill":    func() p2p.Message { return &dmsg.SidechainIllegalData{} },
		"ina_ars":     func() p2p.Message { return &dmsg.ResponseInactiveArbitrators{} },
		"rev_to_dpos": func() p2p.Message { return &dmsg.ResponseRevertToDPOS{} }, "reset_view": func() p2p.Message { return &dmsg.ResetView{} },
	},
	"checkaddr": {"version": func() p2p.Message { return &msg.Version{} }},
	"spv":       {"merkleblock": func() p2p.Message { return msg.NewMerkleBlock(&ctypes.Header{}) }},
}

func sortedCmds(st string) []string {
	var cs []string
	for c := range instances[st] {
		cs = append(cs, c)
	}
	// deterministic order
	for i := range cs {
		for j := i + 1; j < len(cs); j++ {
			if cs[j] < cs[i] {
				cs[i], cs[j] = cs[j], cs[i]
			}
		}
	}
	return cs
}

// ---------------------------------------------------------------- running the real reader

type readResult struct {
	kind     string // ok | short-header | invalid-header | magic | unhandled | size | short-payload | checksum | deserialize
	cmd      string
	consumed int
	alloc    uint64
	m        p2p.Message
}

var lastRead readResult

// classify maps the reader's error to the model's enum.  `consumed` = bytes taken from the
// connection, `declared` = the length field of the header (if 24 bytes were there): an EOF
// after the whole declared payload was read comes from the message decoder, not from framing.
func classify(err error, consumed int, declared int64) string {
	switch {
	case err == io.EOF || err == io.ErrUnexpectedEOF:
		if consumed < p2p.HeaderSize {
			return "short-header"
		}
		if declared >= 0 && int64(consumed) == int64(p2p.HeaderSize)+declared {
			return "deserialize"
		}
		return "short-payload"
	case err == p2p.ErrInvalidHeader:
		return "invalid-header"
	case err == p2p.ErrUnmatchedMagic:
		return "magic"
	case err == p2p.ErrMsgSizeExceeded:
		return "size"
	case err == p2p.ErrInvalidPayload:
		return "checksum"
	}
	s := err.Error()
	if strings.HasPrefix(s, "unhandled command") || strings.HasPrefix(s, "Received unsupported message") || s == "invalid message" {
		return "unhandled"
	}
	return "deserialize"
}

func realRead(st string, magic uint32, stream []byte) readResult {
	return realReadChunked(st, magic, stream, 0)
}

func realReadChunked(st string, magic uint32, stream []byte, chunk int) readResult {
	c := &memConn{r: bytes.NewReader(stream), chunk: chunk}
	create := stackCreate(st)
	var m0, m1 runtime.MemStats
	runtime.ReadMemStats(&m0)
	m, err := p2p.ReadMessage(c, magic, time.Second, create)
	runtime.ReadMemStats(&m1)
	res := readResult{consumed: c.read, alloc: m1.TotalAlloc - m0.TotalAlloc, m: m}
	if err == nil {
		res.kind, res.cmd = "ok", m.CMD()
	} else {
		declared := int64(-1)
		if len(stream) >= p2p.HeaderSize {
			declared = int64(binary.LittleEndian.Uint32(stream[16:20]))
		}
		res.kind = classify(err, c.read, declared)
	}
	lastRead = res
	return res
}

func fmtRead(r readResult) string {
	cls := "small"
	if r.alloc >= 3000000 {
		cls = "big"
	}
	if r.kind == "ok" {
		return fmt.Sprintf("ok %s %d %s", r.cmd, r.consumed, cls)
	}
	return fmt.Sprintf("err %s %d %s", r.kind, r.consumed, cls)
}

// rawMsg is a message with an arbitrary command and payload (to drive WriteMessage / BuildHeader).
type rawMsg struct {
	cmd     string
	payload []byte
}

func (m *rawMsg) CMD() string                 { return m.cmd }
func (m *rawMsg) MaxLength() uint32           { return math.MaxUint32 }
func (m *rawMsg) Serialize(w io.Writer) error { _, err := w.Write(m.payload); return err }
func (m *rawMsg) Deserialize(io.Reader) error { return nil }

// zeroMsg serializes n zero bytes (for the 32 MiB write limit).
type zeroMsg struct{ n int }

func (m *zeroMsg) CMD() string                 { return "ping" }
func (m *zeroMsg) MaxLength() uint32           { return math.MaxUint32 }
func (m *zeroMsg) Serialize(w io.Writer) error { _, err := w.Write(make([]byte, m.n)); return err }
func (m *zeroMsg) Deserialize(io.Reader) error { return nil }

func noDposBlock(p2p.Message) (*types.DposBlock, bool) { return nil, false }

func u32(s string) uint32 {
	v, err := strconv.ParseUint(s, 10, 32)
	if err != nil {
		panic("harness: bad u32 " + s)
	}
	return uint32(v)
}
func atoi(s string) int {
	v, err := strconv.Atoi(s)
	if err != nil {
		panic("harness: bad int " + s)
	}
	return v
}

func serialize(m p2p.Message) ([]byte, error) {
	buf := new(bytes.Buffer)
	err := m.Serialize(buf)
	return buf.Bytes(), err
}

func exec(t []string) string {
	lastRead = readResult{}
	switch t[0] {
	case "read": // read <stack> <magic> <dflag> <stream>
		return fmtRead(realRead(t[1], u32(t[2]), hx.UnHex(t[4])))
	case "readc": // readc <stack> <magic> <dflag> <chunk> <stream>: the same stream, delivered at most <chunk> bytes per Read
		return fmtRead(realReadChunked(t[1], u32(t[2]), hx.UnHex(t[5]), atoi(t[4])))
	case "corrupt": // corrupt <stack> <magic> <dflag> <frame> <pos> <newbyte>
		s := append([]byte(nil), hx.UnHex(t[4])...)
		p := atoi(t[5])
		if p < len(s) {
			s[p] = byte(atoi(t[6]))
		}
		return fmtRead(realRead(t[1], u32(t[2]), s))
	case "hdr":
		b := hx.UnHex(t[1])
		if len(b) != p2p.HeaderSize {
			panic("harness: hdr op needs 24 bytes")
		}
		var h p2p.Header
		if err := h.Deserialize(b); err != nil {
			return "err"
		}
		ser, err := h.Serialize()
		if err != nil {
			return "err-serialize"
		}
		return fmt.Sprintf("ok %d %s %d %s %s %s", h.Magic, hx.Hex(h.CMD[:]), h.Length, hx.Hex(h.Checksum[:]), hx.Hex([]byte(h.GetCMD())), hx.Hex(ser))
	case "build":
		ser, err := p2p.BuildHeader(u32(t[1]), string(hx.UnHex(t[2])), hx.UnHex(t[3])).Serialize()
		if err != nil {
			return "err-serialize"
		}
		return hx.Hex(ser)
	case "write":
		c := &memConn{r: bytes.NewReader(nil)}
		err := p2p.WriteMessage(c, u32(t[1]), &rawMsg{string(hx.UnHex(t[2])), hx.UnHex(t[3])}, time.Second, noDposBlock)
		if err == p2p.ErrMsgSizeExceeded {
			return "err size"
		}
		if err != nil {
			return "err other"
		}
		return hx.Hex(c.w.Bytes())
	case "wlimit":
		c := &memConn{r: bytes.NewReader(nil)}
		err := p2p.WriteMessage(c, 1, &zeroMsg{atoi(t[1])}, time.Second, noDposBlock)
		if err == p2p.ErrMsgSizeExceeded {
			return "err size"
		}
		if err != nil {
			return "err other"
		}
		if c.w.Len() != p2p.HeaderSize+atoi(t[1]) {
			return "err length"
		}
		return "ok"
	case "wseq":
		return execWseq(t)
	case "addrenc": // addrenc <n> (<ts> <services> <ip hex, 0/4/16 bytes> <port>)...: Addr.Serialize of address objects
		n := atoi(t[1])
		var as []*p2p.NetAddress
		for i := 0; i < n; i++ {
			ts, _ := strconv.ParseInt(t[2+4*i], 10, 64)
			sv, _ := strconv.ParseUint(t[3+4*i], 10, 64)
			var ip net.IP
			if b := hx.UnHex(t[4+4*i]); b != nil {
				ip = net.IP(b)
			}
			as = append(as, &p2p.NetAddress{Timestamp: time.Unix(ts, 0), Services: sv, IP: ip, Port: uint16(atoi(t[5+4*i]))})
		}
		b, err := serialize(msg.NewAddr(as))
		if err != nil {
			return "err"
		}
		return hx.Hex(b)
	case "rtx": // rtx <stack> <magic> <cmd> <seed> <idx> <payload>: one of the largest messages Serialize agrees to produce, rebuilt from the seed
		seed, err := strconv.ParseUint(t[4], 10, 64)
		if err != nil {
			panic("harness: bad seed")
		}
		list := extremes(hx.NewRand(seed))[t[3]]
		idx := atoi(t[5])
		if idx >= len(list) {
			panic("harness: rtx index")
		}
		p, err := serialize(list[idx])
		if err != nil || !bytes.Equal(p, hx.UnHex(t[6])) {
			return "payload-mismatch"
		}
		return roundTrip(t[1], u32(t[2]), t[3], list[idx], p)
	case "rtc": // rtc <stack> <magic> <cmd> <seed> <payload>: a well-formed message built from the seed (no decoder involved), written and read back
		seed, err := strconv.ParseUint(t[4], 10, 64)
		if err != nil {
			panic("harness: bad seed")
		}
		wellFormedOnly = true
		m := constructedMsg(hx.NewRand(seed), t[1], t[3])
		wellFormedOnly = false
		if m == nil {
			panic("harness: rtc for a command without constructor")
		}
		p, err := serialize(m)
		if err != nil || !bytes.Equal(p, hx.UnHex(t[5])) {
			return "payload-mismatch"
		}
		return roundTrip(t[1], u32(t[2]), t[3], m, p)
	case "mrt": // mrt <stack> <magic> <seed> <ntx> <mode> <payload>: a merkle block as the node builds it, written and read back
		seed, err := strconv.ParseUint(t[3], 10, 64)
		if err != nil {
			panic("harness: bad seed")
		}
		mb := buildMerkleBlock(seed, atoi(t[4]), atoi(t[5]))
		p, err := serialize(mb)
		if err != nil || !bytes.Equal(p, hx.UnHex(t[6])) {
			return "payload-mismatch"
		}
		return roundTrip(t[1], u32(t[2]), "merkleblock", mb, p)
	case "rt": // rt <stack> <magic> <cmd> <payload>: a real message written over a net.Pipe and read back
		return execRT(t[1], u32(t[2]), t[3], hx.UnHex(t[4]))
	}
	panic("harness: unknown op " + t[0])
}

// ---------------------------------------------------------------- block send path (the serialization cache of WriteMessage)

// mkBlock builds a small DposBlock from its description "height:nonce:variant" (variant > 0 adds a confirm).
func mkBlock(desc string) *types.DposBlock {
	p := strings.Split(desc, ":")
	if len(p) != 3 {
		panic("harness: bad block description " + desc)
	}
	h, n, v := atoi(p[0]), atoi(p[1]), atoi(p[2])
	b := &types.Block{Header: ctypes.Header{Version: 0, Height: uint32(h), Nonce: uint32(n), Timestamp: uint32(n) ^ 0x5a5a5a5a, Bits: uint32(h) * 7}}
	d := &types.DposBlock{Block: b}
	if v > 0 {
		d.HaveConfirm = true
		d.Confirm = &payload.Confirm{Proposal: payload.DPOSProposal{Sponsor: bytes.Repeat([]byte{byte(v)}, 33), BlockHash: b.Hash(), ViewOffset: uint32(v),
			Sign: bytes.Repeat([]byte{byte(v + 1)}, 64)}}
	}
	return d
}

func freshBlockBytes(d *types.DposBlock) []byte {
	buf := new(bytes.Buffer)
	if err := d.Serialize(buf); err != nil {
		panic("harness: cannot serialize block: " + err.Error())
	}
	return append([]byte(nil), buf.Bytes()...)
}

var lastWire []byte

// wseq <magic> <i.j.k...> <n> <desc_0> <payload_0> ... : blocks sent one after the other through WriteMessage
// (fresh send cache); the output is everything that went on the wire.
func execWseq(t []string) string {
	lastWire = nil
	magic := u32(t[1])
	n := atoi(t[3])
	if len(t) != 4+2*n {
		panic("harness: wseq arity")
	}
	var blocks []*types.DposBlock
	for i := 0; i < n; i++ {
		d := mkBlock(t[4+2*i])
		if !bytes.Equal(freshBlockBytes(d), hx.UnHex(t[5+2*i])) {
			return "payload-mismatch"
		}
		blocks = append(blocks, d)
	}
	p2p.VerifResetSendCache()
	c := &memConn{r: bytes.NewReader(nil)}
	for _, ix := range strings.Split(t[2], ".") {
		// a new object every time, as the node deserializes / builds blocks anew; same content
		d := mkBlock(t[4+2*atoi(ix)])
		m := msg.NewBlock(d)
		err := p2p.WriteMessage(c, magic, m, time.Second, func(p2p.Message) (*types.DposBlock, bool) { return d, true })
		if err != nil {
			return "err " + err.Error()
		}
	}
	lastWire = append([]byte(nil), c.w.Bytes()...)
	return hx.Hex(lastWire)
}

// buildMerkleBlock is what the node sends for a filtered block: n transactions derived from seed, a bloom filter
// matching none (mode 0) / one (1) / all (2) of them, bloom.NewMerkleBlock.
func buildMerkleBlock(seed uint64, n, mode int) *msg.MerkleBlock {
	r := hx.NewRand(seed)
	if mode == 3 {
		// free-form: n announced transactions, any hashes and flag bytes MerkleBlock.Serialize accepts
		mb := msg.NewMerkleBlock(&mkBlock(fmt.Sprintf("%d:%d:0", 1+r.Intn(1000), r.Intn(1<<30))).Block.Header)
		mb.Transactions = uint32(n)
		for i := r.Pick(0, 1, 2, 5, 20); i > 0; i-- {
			var h common.Uint256
			copy(h[:], r.Bytes(32))
			mb.Hashes = append(mb.Hashes, &h)
		}
		mb.Flags = r.Bytes(r.Pick(0, 1, 2, 3, 10, 1249, 1250))
		return mb
	}
	d := mkBlock(fmt.Sprintf("%d:%d:0", 1+r.Intn(100000), r.Intn(1<<30)))
	var watch [][]byte
	for i := 0; i < n; i++ {
		rd := bytes.NewReader(randTx(r))
		txn, err := functions.GetTransactionByBytes(rd)
		if err != nil || txn.Deserialize(rd) != nil {
			panic("harness: cannot rebuild tx")
		}
		d.Block.Transactions = append(d.Block.Transactions, txn)
		h := txn.Hash()
		watch = append(watch, h[:])
	}
	f := bloom.LoadFilter(&msg.FilterLoad{Filter: make([]byte, 64), HashFuncs: 3, Tweak: 5})
	switch mode {
	case 1:
		if n > 0 {
			f.Add(watch[r.Intn(len(watch))])
		}
	case 2:
		for _, w := range watch {
			f.Add(w)
		}
	}
	mb, _ := bloom.NewMerkleBlock(d.Block, f)
	return mb
}

// sameMessage compares the message object handed to WriteMessage with the object the reader returned, field by
// field, for the types whose in-memory form is not their wire form (net.IP of 4 or 16 bytes, time.Time).
// Independent of any encoding: an address is equal if net.IP.Equal says so.
func sameMessage(w, g p2p.Message) bool {
	switch a := w.(type) {
	case *msg.Addr:
		b, ok := g.(*msg.Addr)
		if !ok || len(a.AddrList) != len(b.AddrList) {
			return false
		}
		for i := range a.AddrList {
			x, y := a.AddrList[i], b.AddrList[i]
			if x.Timestamp.Unix() != y.Timestamp.Unix() || x.Services != y.Services || x.Port != y.Port {
				return false
			}
			if len(x.IP) == 0 {
				if !y.IP.Equal(net.IPv6zero) && len(y.IP) != 0 {
					return false
				}
			} else if !x.IP.Equal(y.IP) {
				return false
			}
		}
	case *msg.Version:
		b, ok := g.(*msg.Version)
		if !ok || a.Version != b.Version || a.Services != b.Services || a.Timestamp.Unix() != b.Timestamp.Unix() || a.Port != b.Port ||
			a.Nonce != b.Nonce || a.Height != b.Height || a.Relay != b.Relay {
			return false
		}
		if a.Version >= pact.CRProposalVersion && a.NodeVersion != b.NodeVersion {
			return false
		}
	case *msg.Ping:
		b, ok := g.(*msg.Ping)
		return ok && a.Nonce == b.Nonce
	case *msg.Pong:
		b, ok := g.(*msg.Pong)
		return ok && a.Nonce == b.Nonce
	case *msg.DAddr:
		b, ok := g.(*msg.DAddr)
		return ok && a.PID == b.PID && a.Encode == b.Encode && a.Timestamp.Unix() == b.Timestamp.Unix() && bytes.Equal(a.Cipher, b.Cipher) && bytes.Equal(a.Signature, b.Signature)
	case *msg.Reject:
		b, ok := g.(*msg.Reject)
		return ok && a.Cmd == b.Cmd && a.RejectCode == b.RejectCode && a.Reason == b.Reason && a.Hash == b.Hash
	case *msg.FilterLoad:
		b, ok := g.(*msg.FilterLoad)
		if !ok || !bytes.Equal(a.Filter, b.Filter) || a.HashFuncs != b.HashFuncs || a.Tweak != b.Tweak || a.Flags != b.Flags || len(a.TxTypes) != len(b.TxTypes) {
			return false
		}
		for i := range a.TxTypes {
			if a.TxTypes[i] != b.TxTypes[i] {
				return false
			}
		}
	case *msg.FilterAdd:
		b, ok := g.(*msg.FilterAdd)
		return ok && bytes.Equal(a.Data, b.Data)
	case *msg.TxFilterLoad:
		b, ok := g.(*msg.TxFilterLoad)
		return ok && a.Type == b.Type && bytes.Equal(a.Data, b.Data)
	case *msg.GetBlocks:
		b, ok := g.(*msg.GetBlocks)
		if !ok || len(a.Locator) != len(b.Locator) || a.HashStop != b.HashStop {
			return false
		}
		for i := range a.Locator {
			if *a.Locator[i] != *b.Locator[i] {
				return false
			}
		}
	case *msg.Inv:
		b, ok := g.(*msg.Inv)
		if !ok || len(a.InvList) != len(b.InvList) {
			return false
		}
		for i := range a.InvList {
			if *a.InvList[i] != *b.InvList[i] {
				return false
			}
		}
	case *msg.MerkleBlock:
		b, ok := g.(*msg.MerkleBlock)
		if !ok || a.Transactions != b.Transactions || len(a.Hashes) != len(b.Hashes) || !bytes.Equal(a.Flags, b.Flags) {
			return false
		}
		for i := range a.Hashes {
			if *a.Hashes[i] != *b.Hashes[i] {
				return false
			}
		}
	case *dmsg.Addr:
		b, ok := g.(*dmsg.Addr)
		return ok && a.Host == b.Host && a.Port == b.Port
	case *dmsg.Ping:
		b, ok := g.(*dmsg.Ping)
		return ok && a.Nonce == b.Nonce
	case *dmsg.Pong:
		b, ok := g.(*dmsg.Pong)
		return ok && a.Nonce == b.Nonce
	case *dmsg.VerAck:
		b, ok := g.(*dmsg.VerAck)
		return ok && a.Signature == b.Signature
	case *dmsg.Proposal:
		b, ok := g.(*dmsg.Proposal)
		return ok && bytes.Equal(a.Proposal.Sponsor, b.Proposal.Sponsor) && a.Proposal.BlockHash == b.Proposal.BlockHash &&
			a.Proposal.ViewOffset == b.Proposal.ViewOffset && bytes.Equal(a.Proposal.Sign, b.Proposal.Sign)
	case *dmsg.Vote:
		b, ok := g.(*dmsg.Vote)
		return ok && a.Vote.ProposalHash == b.Vote.ProposalHash && bytes.Equal(a.Vote.Signer, b.Vote.Signer) && a.Vote.Accept == b.Vote.Accept &&
			bytes.Equal(a.Vote.Sign, b.Vote.Sign)
	case *dmsg.ResetView:
		b, ok := g.(*dmsg.ResetView)
		return ok && bytes.Equal(a.Sponsor, b.Sponsor) && bytes.Equal(a.Sign, b.Sign)
	}
	return true
}

var lastRT struct {
	written bool
	kind    string
	equal   bool
}

func execRT(st string, magic uint32, cmd string, payloadBytes []byte) string {
	lastRT.written, lastRT.kind, lastRT.equal = false, "", false
	mk, ok := instances[st][cmd]
	if !ok {
		panic("harness: rt with unknown command")
	}
	var m p2p.Message
	if cmd == "tx" {
		r := bytes.NewReader(payloadBytes)
		txn, err := functions.GetTransactionByBytes(r)
		if err != nil {
			panic("harness: rt payload is not a tx")
		}
		if err := txn.Deserialize(r); err != nil {
			panic("harness: rt payload is not a tx")
		}
		m = msg.NewTx(txn)
	} else {
		m = mk()
		if err := m.Deserialize(bytes.NewReader(payloadBytes)); err != nil {
			panic("harness: rt payload does not deserialize")
		}
	}
	return roundTrip(st, magic, cmd, m, payloadBytes)
}

// roundTrip writes m with WriteMessage over a net.Pipe, reads it back through the stack and re-serializes the result.
func roundTrip(st string, magic uint32, cmd string, m p2p.Message, payloadBytes []byte) string {
	a, b := net.Pipe()
	werr := make(chan error, 1)
	go func() {
		werr <- p2p.WriteMessage(a, magic, m, time.Second, noDposBlock)
		a.Close()
	}()
	got, err := p2p.ReadMessage(b, magic, 5*time.Second, stackCreate(st))
	b.Close()
	we := <-werr
	if we == p2p.ErrMsgSizeExceeded {
		return "werr size"
	}
	lastRT.written = we == nil || err != nil // the header went out; a reader error closes the pipe under the writer
	if err != nil {
		lastRT.kind = classify(err, p2p.HeaderSize, -1)
		return "err " + lastRT.kind
	}
	out, serr := serialize(got)
	if serr != nil {
		return "err reserialize"
	}
	lastRT.kind = "ok"
	lastRT.equal = bytes.Equal(out, payloadBytes) && got.CMD() == cmd && sameMessage(m, got)
	return fmt.Sprintf("ok %s %s", got.CMD(), hx.Hex(out))
}

// ---------------------------------------------------------------- oracle (implementation only)

func sha256d4(b []byte) []byte {
	h := sha256.Sum256(b)
	h = sha256.Sum256(h[:])
	return h[:4]
}

func hdrCmd(b []byte) (string, bool) {
	c := b[4:16]
	i := bytes.IndexByte(c, 0)
	if i < 0 {
		return "", false
	}
	return string(bytes.TrimRight(c, "\x00")), true
}

const allocSlack = 4 << 20 // runtime noise + what decoding a ≤ 64 KiB payload may allocate (count-sized slices are C02's business)

func judgeRead(st string, magic uint32, stream []byte, r readResult) *hx.Violation {
	var limit uint64
	known := false
	var cmd string
	if len(stream) >= 24 {
		var nul bool
		cmd, nul = hdrCmd(stream)
		if nul && binary.LittleEndian.Uint32(stream[0:4]) == magic {
			if mk, ok := instances[st][cmd]; ok {
				known = true
				limit = uint64(mk().MaxLength())
			}
		}
	}
	declared := uint64(0)
	if len(stream) >= 24 {
		declared = uint64(binary.LittleEndian.Uint32(stream[16:20]))
	}
	if !known || declared > limit {
		limit = 0
	} else {
		limit = declared
	}
	if r.alloc > limit+allocSlack {
		return &hx.Violation{Kind: "alloc-exceeds-limit", Detail: fmt.Sprintf("reader allocated %d bytes; declared %d, command limit gives %d", r.alloc, declared, limit)}
	}
	if r.kind != "ok" {
		return nil
	}
	// the read succeeded: every framing condition must hold
	if len(stream) < 24 {
		return &hx.Violation{Kind: "accepted-short", Detail: "read succeeded on fewer than 24 bytes"}
	}
	if binary.LittleEndian.Uint32(stream[0:4]) != magic {
		return &hx.Violation{Kind: "accepted-bad-magic", Detail: "read succeeded although the magic differs"}
	}
	if !known || r.cmd != cmd {
		return &hx.Violation{Kind: "accepted-bad-command", Detail: "read succeeded for a command that is not NUL-terminated / not in the stack / not the one returned"}
	}
	if declared > uint64(r.m.MaxLength()) {
		return &hx.Violation{Kind: "accepted-oversize", Detail: fmt.Sprintf("declared length %d exceeds MaxLength %d of %s", declared, r.m.MaxLength(), r.cmd)}
	}
	if uint64(len(stream)-24) < declared {
		return &hx.Violation{Kind: "accepted-short", Detail: "read succeeded although the payload is truncated"}
	}
	if !bytes.Equal(sha256d4(stream[24:24+declared]), stream[20:24]) {
		return &hx.Violation{Kind: "accepted-bad-checksum", Detail: "read succeeded although the checksum does not match the payload"}
	}
	return nil
}

func oracle(t []string, out string) *hx.Violation {
	if out == "panic" && (t[0] == "read" || t[0] == "readc" || t[0] == "rtx" || t[0] == "corrupt" || t[0] == "rt" || t[0] == "mrt" || t[0] == "rtc" || t[0] == "hdr") {
		return &hx.Violation{Kind: "panic", Detail: "framing code panicked on bytes from the wire: " + hx.LastPanic()}
	}
	switch t[0] {
	case "readc":
		got := lastRead
		if v := judgeRead(t[1], u32(t[2]), hx.UnHex(t[5]), got); v != nil {
			return v
		}
		whole := realRead(t[1], u32(t[2]), hx.UnHex(t[5]))
		if whole.kind != got.kind || whole.cmd != got.cmd || whole.consumed != got.consumed {
			return &hx.Violation{Kind: "segmentation-dependent", Detail: fmt.Sprintf("the stream read whole gives '%s %s %d', delivered in pieces of at most %s bytes it gives '%s %s %d': a well-formed frame is refused (or a malformed one treated differently) depending on how TCP segments it",
				whole.kind, whole.cmd, whole.consumed, t[4], got.kind, got.cmd, got.consumed)}
		}
		return nil
	case "read":
		return judgeRead(t[1], u32(t[2]), hx.UnHex(t[4]), lastRead)
	case "corrupt":
		frame := hx.UnHex(t[4])
		p, nb := atoi(t[5]), byte(atoi(t[6]))
		s := append([]byte(nil), frame...)
		if p < len(s) {
			s[p] = nb
		}
		r := lastRead
		if v := judgeRead(t[1], u32(t[2]), s, r); v != nil {
			return v
		}
		if p >= len(frame) || frame[p] == nb || r.kind != "ok" {
			return nil
		}
		// a corrupted frame was accepted: only a command-field change into another valid command may do that
		orig := realRead(t[1], u32(t[2]), frame)
		if orig.kind != "ok" && orig.kind != "deserialize" {
			return nil // the frame was not valid to begin with
		}
		if p >= 4 && p < 16 && r.cmd != orig.cmd {
			return nil
		}
		return &hx.Violation{Kind: "corruption-accepted", Detail: fmt.Sprintf("byte %d of a valid %s frame changed from %02x to %02x and the read still succeeds as %s", p, orig.cmd, frame[p], nb, r.cmd)}
	case "rt", "mrt", "rtc", "rtx":
		if strings.HasPrefix(out, "werr") || out == "payload-mismatch" {
			return nil
		}
		cmdName, payloadHex := "merkleblock", t[len(t)-1]
		if t[0] != "mrt" {
			cmdName = t[3]
		}
		mk := instances[t[1]][cmdName]
		if lastRT.kind == "ok" && !lastRT.equal {
			return &hx.Violation{Kind: "roundtrip-differs", Detail: "the message object read back differs from the object handed to WriteMessage (field-by-field comparison; frame, length and checksum were all accepted)"}
		}
		if lastRT.kind != "ok" {
			return &hx.Violation{Kind: "written-not-readable", Detail: fmt.Sprintf("%s message of %d payload bytes (MaxLength %d) written by WriteMessage is rejected by the reader: %s",
				cmdName, len(hx.UnHex(payloadHex)), mk().MaxLength(), lastRT.kind)}
		}
	case "wseq":
		if out == "payload-mismatch" || strings.HasPrefix(out, "err") || out == "panic" {
			if out == "panic" {
				return &hx.Violation{Kind: "panic", Detail: "WriteMessage panicked on a block: " + hx.LastPanic()}
			}
			return nil
		}
		// what went on the wire must be, frame by frame, a header for and the bytes of a FRESH serialization of the block sent
		wire := lastWire
		for k, ix := range strings.Split(t[2], ".") {
			want := freshBlockBytes(mkBlock(t[4+2*atoi(ix)]))
			if len(wire) < 24 {
				return &hx.Violation{Kind: "sent-wrong-bytes", Detail: fmt.Sprintf("send #%d: nothing more on the wire", k)}
			}
			l := int(binary.LittleEndian.Uint32(wire[16:20]))
			if len(wire) < 24+l {
				return &hx.Violation{Kind: "sent-wrong-bytes", Detail: fmt.Sprintf("send #%d: frame truncated", k)}
			}
			got := wire[24 : 24+l]
			if !bytes.Equal(got, want) {
				return &hx.Violation{Kind: "sent-wrong-bytes", Detail: fmt.Sprintf("send #%d of the sequence %s: block %s was handed to WriteMessage but the payload on the wire (length %d, checksum %x, self-consistent=%v) is not its serialization (length %d)",
					k, t[2], t[4+2*atoi(ix)], l, wire[20:24], bytes.Equal(sha256d4(got), wire[20:24]), len(want))}
			}
			if !bytes.Equal(sha256d4(want), wire[20:24]) {
				return &hx.Violation{Kind: "sent-wrong-bytes", Detail: fmt.Sprintf("send #%d: checksum is not that of the block sent", k)}
			}
			wire = wire[24+l:]
		}
		if len(wire) != 0 {
			return &hx.Violation{Kind: "sent-wrong-bytes", Detail: "extra bytes on the wire"}
		}
	case "hdr":
		f := strings.Fields(out)
		if len(f) == 7 && f[6] != t[1] {
			return &hx.Violation{Kind: "header-roundtrip", Detail: "Deserialize then Serialize does not give the same 24 bytes"}
		}
	}
	return nil
}

func nontrivial(t []string, out string) bool {
	switch t[0] {
	case "read", "corrupt":
		return len(t[4]) >= 48
	case "readc":
		return len(t[5]) >= 48
	}
	return true
}

func bucket(t []string, out string) string {
	f := strings.Fields(out)
	switch t[0] {
	case "read", "corrupt", "readc":
		k := t[0] + "/" + t[1] + "/"
		if len(f) >= 2 && f[0] == "err" {
			return k + f[1]
		}
		if len(f) >= 1 {
			return k + f[0]
		}
	case "rt":
		if len(f) >= 2 {
			return "rt/" + t[1] + "/" + f[0] + "/" + f[1]
		}
	case "mrt":
		if len(f) >= 1 {
			return "mrt/mode" + t[5] + "/" + f[0]
		}
	case "rtx":
		if len(f) >= 1 {
			return "rtx/" + t[3] + "/" + f[0]
		}
	case "rtc":
		if len(f) >= 1 {
			return "rtc/" + t[1] + "/" + t[3] + "/" + f[0]
		}
	case "wseq":
		return fmt.Sprintf("wseq/len%d", len(strings.Split(t[2], ".")))
	case "hdr", "build", "write", "wlimit":
		if len(f) >= 1 && (f[0] == "ok" || f[0] == "err" || f[0] == "panic") {
			return t[0] + "/" + f[0]
		}
		return t[0] + "/bytes"
	}
	return t[0]
}

// ---------------------------------------------------------------- generator

func frame(magic uint32, cmd string, payload []byte) []byte {
	var b bytes.Buffer
	binary.Write(&b, binary.LittleEndian, magic)
	var c [12]byte
	copy(c[:], cmd)
	b.Write(c[:])
	binary.Write(&b, binary.LittleEndian, uint32(len(payload)))
	b.Write(sha256d4(payload))
	b.Write(payload)
	return b.Bytes()
}

// header with an arbitrary declared length; checksum is that of `payload`.
func frameDeclared(magic uint32, cmd string, declared uint32, payload []byte) []byte {
	f := frame(magic, cmd, payload)
	binary.LittleEndian.PutUint32(f[16:20], declared)
	return f
}

func dflag(st string, magic uint32, stream []byte) int {
	r := realRead(st, magic, stream)
	if r.kind == "ok" {
		return 1
	}
	return 0
}

func emitRead(g *hx.Gen, st string, magic uint32, stream []byte) {
	g.Emit("read %s %d %d %s", st, magic, dflag(st, magic, stream), hx.Hex(stream))
}

func emitCorrupt(g *hx.Gen, st string, magic uint32, fr []byte, pos int, nb byte) {
	s := append([]byte(nil), fr...)
	s[pos] = nb
	g.Emit("corrupt %s %d %d %s %d %d", st, magic, dflag(st, magic, s), hx.Hex(fr), pos, nb)
}

func randTx(r *hx.Rand) []byte {
	var outs []*ctypes.Output
	for i := 0; i < r.Intn(3); i++ {
		var u common.Uint168
		copy(u[:], r.Bytes(21))
		outs = append(outs, &ctypes.Output{Value: common.Fixed64(r.Intn(1000)), ProgramHash: u, Type: ctypes.OTNone, Payload: &outputpayload.DefaultOutput{}})
	}
	var ins []*ctypes.Input
	for i := 0; i < r.Intn(3); i++ {
		var h common.Uint256
		copy(h[:], r.Bytes(32))
		ins = append(ins, &ctypes.Input{Previous: ctypes.OutPoint{TxID: h, Index: uint16(r.Intn(4))}})
	}
	tx := transaction.CreateTransaction(ctypes.TxVersion09, ctypes.TransferAsset, 0, &payload.TransferAsset{}, []*ctypes.Attribute{}, ins, outs, uint32(r.U64()),
		[]*program.Program{{Code: r.Bytes(35), Parameter: r.Bytes(65)}})
	buf := new(bytes.Buffer)
	if err := tx.Serialize(buf); err != nil {
		panic("harness: cannot serialize tx: " + err.Error())
	}
	return buf.Bytes()
}

// randIP: the forms a net.IP takes inside the node: 16 bytes (IPv6 or IPv4-mapped), 4 bytes (what a tcp4 net.TCPAddr holds), nil.
func randIP(r *hx.Rand) net.IP {
	switch r.Intn(5) {
	case 0:
		return net.IP(r.Bytes(4))
	case 1:
		return net.IPv4(r.Byte(), r.Byte(), r.Byte(), r.Byte())
	case 2:
		return net.IPv4(203, 0, 113, r.Byte()).To4()
	case 3:
		if !wellFormedOnly {
			return nil
		}
	}
	return net.IP(r.Bytes(16))
}

func signLen(r *hx.Rand) int {
	if wellFormedOnly {
		return r.Pick(64, 64, 0)
	}
	return r.Pick(64, 64, 0, 65)
}

func randProposal(r *hx.Rand) payload.DPOSProposal {
	var h common.Uint256
	copy(h[:], r.Bytes(32))
	return payload.DPOSProposal{Sponsor: r.Bytes(r.Pick(33, 33, 0, 1)), BlockHash: h, ViewOffset: uint32(r.U64()), Sign: r.Bytes(signLen(r))}
}

// constructed returns a structured valid payload for a few commands (nil if none is built here).
// wellFormedOnly makes the constructors stay within every limit the decoders enforce.
var wellFormedOnly bool

// constructedMsg builds a real message object of the command from the random stream (nil if none is built here).
func constructedMsg(r *hx.Rand, st, cmd string) p2p.Message {
	var m p2p.Message
	switch st + "/" + cmd {
	case "elanet/version", "checkaddr/version":
		v := &msg.Version{Version: uint32(r.Pick(0, 1, int(pact.CRProposalVersion), int(pact.CRProposalVersion)+1)), Services: r.U64(),
			Timestamp: time.Unix(int64(uint32(r.U64())), 0), Port: uint16(r.U64()), Nonce: r.U64(), Height: r.U64(), Relay: r.Bool()}
		v.NodeVersion = string(bytes.Repeat([]byte{'v'}, r.Pick(0, 1, 10, 46, 47, 60)))
		m = v
	case "elanet/ping":
		m = msg.NewPing(r.U64())
	case "elanet/pong":
		m = msg.NewPong(r.U64())
	case "elanet/inv", "elanet/getdata", "elanet/notfound":
		inv := msg.NewInv()
		for i := 0; i < r.Intn(5); i++ {
			var h common.Uint256
			copy(h[:], r.Bytes(32))
			inv.AddInvVect(msg.NewInvVect(msg.InvType(r.Intn(5)), &h))
		}
		switch cmd {
		case "inv":
			m = inv
		case "getdata":
			m = &msg.GetData{Inv: *inv}
		default:
			m = &msg.NotFound{Inv: *inv}
		}
	case "elanet/addr":
		var as []*p2p.NetAddress
		for i := 0; i < r.Intn(4); i++ {
			as = append(as, &p2p.NetAddress{Timestamp: time.Unix(int64(uint32(r.U64())), 0), Services: r.U64(), IP: randIP(r), Port: uint16(r.U64())})
		}
		m = msg.NewAddr(as)
	case "elanet/getblocks":
		var loc []*common.Uint256
		for i := 0; i < r.Intn(4); i++ {
			var h common.Uint256
			copy(h[:], r.Bytes(32))
			loc = append(loc, &h)
		}
		var stop common.Uint256
		copy(stop[:], r.Bytes(32))
		m = msg.NewGetBlocks(loc, stop)
	case "elanet/filteradd":
		m = &msg.FilterAdd{Data: r.Bytes(r.Pick(0, 1, 32, 519, 520))}
	case "elanet/filterload":
		fl := &msg.FilterLoad{Filter: r.Bytes(r.Pick(0, 1, 100, 1000, 35990, 36000)), HashFuncs: uint32(r.Intn(51)), Tweak: uint32(r.U64()), Flags: r.Byte()}
		for i := 0; i < r.Pick(0, 0, 1, 3); i++ {
			fl.TxTypes = append(fl.TxTypes, ctypes.TxType(r.Intn(40)))
		}
		m = fl
	case "elanet/txfilter":
		m = &msg.TxFilterLoad{Type: uint8(r.Intn(6)), Data: r.Bytes(r.Pick(0, 10, 1000, 49999, 50000))}
	case "elanet/tx", "dpos/tx":
		rd := bytes.NewReader(randTx(r))
		txn, err := functions.GetTransactionByBytes(rd)
		if err != nil || txn.Deserialize(rd) != nil {
			panic("harness: cannot rebuild tx")
		}
		m = msg.NewTx(txn)
	case "spv/merkleblock":
		// (a) what the node really sends: bloom.NewMerkleBlock on a block with several transactions and a filter that
		//     matches none / some / all of them (all = dense partial merkle tree, most flag bits);
		// (b) free-form: any transaction count, hashes and flag bytes Serialize accepts
		if r.Bool() {
			d := mkBlock(fmt.Sprintf("%d:%d:0", 1+r.Intn(100000), r.Intn(1<<30)))
			n := r.Pick(1, 2, 3, 5, 8, 9, 16, 17, 33)
			var watch [][]byte
			for i := 0; i < n; i++ {
				rd := bytes.NewReader(randTx(r))
				txn, err := functions.GetTransactionByBytes(rd)
				if err != nil || txn.Deserialize(rd) != nil {
					panic("harness: cannot rebuild tx")
				}
				d.Block.Transactions = append(d.Block.Transactions, txn)
				h := txn.Hash()
				watch = append(watch, h[:])
			}
			f := bloom.LoadFilter(&msg.FilterLoad{Filter: make([]byte, 64), HashFuncs: 3, Tweak: 5})
			switch r.Intn(3) {
			case 0: // nothing matches
			case 1:
				f.Add(watch[r.Intn(len(watch))])
			default:
				for _, w := range watch {
					f.Add(w)
				}
			}
			mb, _ := bloom.NewMerkleBlock(d.Block, f)
			m = mb
		} else {
			mb := msg.NewMerkleBlock(&mkBlock(fmt.Sprintf("%d:%d:0", 1+r.Intn(1000), r.Intn(1<<30))).Block.Header)
			mb.Transactions = uint32(r.Pick(0, 1, 2, 7, 8, 9, 100, 10000, 10001, 1<<31, int(uint32(r.U64()))))
			for i := r.Pick(0, 1, 2, 5, 20); i > 0; i-- {
				var h common.Uint256
				copy(h[:], r.Bytes(32))
				mb.Hashes = append(mb.Hashes, &h)
			}
			mb.Flags = r.Bytes(r.Pick(0, 1, 2, 3, 10, 1249, 1250))
			m = mb
		}
	case "elanet/block", "dpos/block":
		d := mkBlock(fmt.Sprintf("%d:%d:%d", 1+r.Intn(100000), r.Intn(1<<30), r.Pick(0, 0, 1, 3)))
		for i := r.Pick(0, 1, 2); i > 0; i-- {
			rd := bytes.NewReader(randTx(r))
			txn, err := functions.GetTransactionByBytes(rd)
			if err != nil || txn.Deserialize(rd) != nil {
				panic("harness: cannot rebuild tx")
			}
			d.Block.Transactions = append(d.Block.Transactions, txn)
		}
		if st == "dpos" {
			m = msg.NewBlock(d.Block)
		} else {
			m = msg.NewBlock(d)
		}
	case "elanet/reject":
		var h common.Uint256
		copy(h[:], r.Bytes(32))
		m = &msg.Reject{Cmd: string(bytes.Repeat([]byte{'c'}, r.Pick(0, 2, 5, 11))), RejectCode: msg.RejectCode(r.Intn(256)),
			Reason: string(bytes.Repeat([]byte{'r'}, r.Pick(0, 1, 40, 300))), Hash: h}
	case "elanet/daddr":
		d := &msg.DAddr{Timestamp: time.Unix(int64(uint32(r.U64())), 0), Cipher: r.Bytes(r.Pick(0, 1, 64, 255, 256)), Signature: r.Bytes(r.Pick(0, 64))}
		copy(d.PID[:], r.Bytes(33))
		copy(d.Encode[:], r.Bytes(33))
		m = d
	case "dpos/proposal":
		m = &dmsg.Proposal{Proposal: randProposal(r)}
	case "dpos/acc_vote", "dpos/rej_vote":
		var h common.Uint256
		copy(h[:], r.Bytes(32))
		m = &dmsg.Vote{Command: cmd, Vote: payload.DPOSProposalVote{ProposalHash: h, Signer: r.Bytes(r.Pick(33, 33, 0, 1)), Accept: r.Bool(), Sign: r.Bytes(r.Pick(64, 64, 0))}}
	case "dpos/reset_view":
		m = &dmsg.ResetView{Sponsor: r.Bytes(r.Pick(33, 0, 1)), Sign: r.Bytes(r.Pick(64, 0, 63))}
	case "dpos/ina_ars":
		var h common.Uint256
		copy(h[:], r.Bytes(32))
		m = &dmsg.ResponseInactiveArbitrators{TxHash: h, Signer: r.Bytes(r.Pick(33, 0)), Sign: r.Bytes(r.Pick(64, 0))}
	case "dpos/rev_to_dpos":
		var h common.Uint256
		copy(h[:], r.Bytes(32))
		m = &dmsg.ResponseRevertToDPOS{TxHash: h, Signer: r.Bytes(r.Pick(33, 0)), Sign: r.Bytes(r.Pick(64, 0))}
	case "dpos/ill_pro":
		m = &dmsg.IllegalProposals{Proposals: payload.DPOSIllegalProposals{
			Evidence:        payload.ProposalEvidence{Proposal: randProposal(r), BlockHeader: r.Bytes(r.Pick(0, 10, 200)), BlockHeight: uint32(r.U64())},
			CompareEvidence: payload.ProposalEvidence{Proposal: randProposal(r), BlockHeader: r.Bytes(r.Pick(0, 10, 200)), BlockHeight: uint32(r.U64())}}}
	case "dpos/side_ill":
		d := payload.SidechainIllegalData{IllegalType: payload.IllegalDataType(r.Intn(6)), Height: uint32(r.U64()), IllegalSigner: r.Bytes(r.Pick(33, 0)),
			GenesisBlockAddress: string(bytes.Repeat([]byte{'g'}, r.Pick(0, 34)))}
		copy(d.Evidence.DataHash[:], r.Bytes(32))
		copy(d.CompareEvidence.DataHash[:], r.Bytes(32))
		for i := r.Intn(3); i > 0; i-- {
			d.Signs = append(d.Signs, r.Bytes(r.Pick(64, 0, 10)))
		}
		m = &dmsg.SidechainIllegalData{Data: d}
	case "dpos/verack":
		m = dmsg.NewVerAck(r.Bytes(64))
	case "dpos/addr":
		m = dmsg.NewAddr(string(bytes.Repeat([]byte{'h'}, r.Pick(0, 1, 9, 253))), uint16(r.U64()))
	case "dpos/ping":
		m = dmsg.NewPing(r.U64())
	case "dpos/pong":
		m = dmsg.NewPong(r.U64())
	default:
		return nil
	}
	return m
}

// constructed returns a structured payload for a few commands (nil if none is built here).
func constructed(r *hx.Rand, st, cmd string) []byte {
	m := constructedMsg(r, st, cmd)
	if m == nil {
		return nil
	}
	b, err := serialize(m)
	if err != nil {
		return nil
	}
	return b
}

// canonical returns a payload for (stack, cmd) that the real codec accepts and re-serializes to itself.
func canonical(r *hx.Rand, st, cmd string) []byte {
	try := func(p []byte) []byte {
		if cmd == "tx" {
			rd := bytes.NewReader(p)
			txn, err := functions.GetTransactionByBytes(rd)
			if err != nil || txn.Deserialize(rd) != nil {
				return nil
			}
			return p
		}
		m := instances[st][cmd]()
		if m.Deserialize(bytes.NewReader(p)) != nil {
			return nil
		}
		q, err := serialize(m)
		if err != nil {
			return nil
		}
		m2 := instances[st][cmd]()
		if m2.Deserialize(bytes.NewReader(q)) != nil {
			return nil
		}
		q2, err := serialize(m2)
		if err != nil || !bytes.Equal(q, q2) {
			return nil
		}
		return q
	}
	if p := constructed(r, st, cmd); p != nil {
		if q := try(p); q != nil {
			return q
		}
	}
	if !simple[st+"/"+cmd] {
		return nil
	}
	max := int(instances[st][cmd]().MaxLength())
	for k := 0; k < 6; k++ {
		n := r.Pick(0, 4, 8, 32, 33, 64, 100, 200, 300, 600)
		if n > max {
			n = max
		}
		if q := try(r.Bytes(n)); q != nil {
			return q
		}
		if q := try(make([]byte, n)); q != nil {
			return q
		}
	}
	return nil
}

// simple = fixed-layout codecs on which arbitrary bytes are safe to try; the other decoders
// (transactions, blocks, DPoS proposals ...) belong to C02/C04 and only get payloads that
// are valid or too short to encode a count.
var simple = map[string]bool{
	"elanet/version": true, "elanet/verack": true, "elanet/getaddr": true, "elanet/addr": true, "elanet/ping": true,
	"elanet/pong": true, "elanet/mempool": true, "elanet/inv": true, "elanet/notfound": true, "elanet/getdata": true,
	"elanet/getblocks": true, "elanet/filteradd": true, "elanet/filterclear": true, "elanet/filterload": true,
	"elanet/txfilter": true, "elanet/reject": true, "elanet/daddr": true, "checkaddr/version": true,
	"dpos/version": true, "dpos/verack": true, "dpos/addr": true, "dpos/ping": true, "dpos/pong": true, "dpos/inv": true,
	"dpos/getblock": true, "dpos/get_blc": true, "dpos/req_con": true, "dpos/req_pro": true,
}

func randPayload(r *hx.Rand, st, cmd string) []byte {
	if r.Chance(70) || !simple[st+"/"+cmd] {
		if p := canonical(r, st, cmd); p != nil && len(p) <= 65536 {
			return p
		}
	}
	if !simple[st+"/"+cmd] {
		return r.Bytes(r.Intn(3))
	}
	max := int(instances[st][cmd]().MaxLength())
	n := r.Pick(0, 1, 8, 33, 100, 1000)
	if n > max {
		n = max
	}
	return r.Bytes(n)
}

var magics = []uint32{2017001, 2018101, 2018201, 0, math.MaxUint32, 0x01020304}

func gen(g *hx.Gen) {
	r := g.R
	stacks := []string{"elanet", "dpos", "checkaddr", "spv"}

	// 1. header codec: Deserialize / Serialize / GetCMD on structured and random 24-byte buffers
	for i := 0; i < g.N(600, 6000); i++ {
		b := r.Bytes(24)
		switch r.Intn(5) {
		case 0: // no NUL in the command field
			for j := 4; j < 16; j++ {
				if b[j] == 0 {
					b[j] = 'x'
				}
			}
		case 1: // NUL only in the last position
			for j := 4; j < 15; j++ {
				if b[j] == 0 {
					b[j] = 'y'
				}
			}
			b[15] = 0
		case 2: // embedded NULs
			b[4+r.Intn(12)] = 0
			b[4+r.Intn(12)] = 0
		case 3: // all zero command
			for j := 4; j < 16; j++ {
				b[j] = 0
			}
		default:
			copy(b[4:16], append([]byte(sortedCmds("dpos")[r.Intn(23)]), make([]byte, 12)...)[:12])
		}
		g.Emit("hdr %s", hx.Hex(b))
	}
	// BuildHeader / WriteMessage with raw commands of every length 0..14 (13+ panics)
	for n := 0; n <= 14; n++ {
		cmd := bytes.Repeat([]byte{'c'}, n)
		g.Emit("build %d %s %s", magics[r.Intn(len(magics))], hx.Hex(cmd), hx.Hex(r.Bytes(r.Intn(40))))
		g.Emit("write %d %s %s", magics[r.Intn(len(magics))], hx.Hex(cmd), hx.Hex(r.Bytes(r.Intn(40))))
	}
	for i := 0; i < g.N(200, 2000); i++ {
		cs := sortedCmds("elanet")
		g.Emit("write %d %s %s", magics[r.Intn(len(magics))], hx.Hex([]byte(cs[r.Intn(len(cs))])), hx.Hex(r.Bytes(r.Pick(0, 1, 8, 55, 56, 64, 119, 120, 1000))))
	}
	g.Emit("wlimit %d", p2p.MaxMessagePayload)
	g.Emit("wlimit %d", p2p.MaxMessagePayload+1)
	g.Emit("wlimit 0")

	// 2. every command of every stack: valid frames, declared lengths 0 / max / max+1 / 2^32-1,
	//    truncated streams, trailing bytes, wrong magic, every header byte corrupted
	for _, st := range stacks {
		for _, cmd := range sortedCmds(st) {
			max := instances[st][cmd]().MaxLength()
			magic := magics[r.Intn(3)]
			for k := 0; k < g.N(3, 12); k++ {
				p := randPayload(r, st, cmd)
				fr := frame(magic, cmd, p)
				emitRead(g, st, magic, fr)
				emitRead(g, st, magic, append(append([]byte(nil), fr...), r.Bytes(1+r.Intn(30))...)) // next message follows
				emitRead(g, st, magic^1, fr)                                                         // wrong network
				if len(fr) > 24 {
					emitRead(g, st, magic, fr[:24+r.Intn(len(fr)-24)]) // payload cut short
				}
				emitRead(g, st, magic, fr[:r.Intn(24)]) // header cut short
				// other stacks see the same frame
				for _, st2 := range stacks {
					if st2 != st && k == 0 {
						emitRead(g, st2, magic, fr)
					}
				}
				if k == 0 {
					// all 24 header bytes, several replacement values each
					for pos := 0; pos < 24; pos++ {
						for _, nb := range []byte{fr[pos] ^ 1, fr[pos] ^ 0x80, 0, 0xff, fr[pos] + 1} {
							if nb != fr[pos] {
								emitCorrupt(g, st, magic, fr, pos, nb)
							}
						}
					}
				}
				// payload bytes
				for j := 0; j < 3 && len(p) > 0; j++ {
					pos := 24 + r.Intn(len(p))
					emitCorrupt(g, st, magic, fr, pos, fr[pos]^byte(1<<uint(r.Intn(8))))
				}
			}
			// declared lengths
			for _, d := range []uint32{0, max, max + 1, math.MaxUint32, max / 2, max - 1} {
				if d == math.MaxUint32 && max == math.MaxUint32 {
					continue
				}
				// small stream: the declared bytes are not there (except when d is tiny)
				body := r.Bytes(r.Pick(0, 1, 8, 40))
				emitRead(g, st, magic, append(frameDeclared(magic, cmd, d, nil), body...))
				// full payload of exactly d bytes where that is affordable and away from the allocation-class threshold
				if d <= 65536 {
					p := make([]byte, d)
					for i := range p {
						p[i] = r.Byte()
					}
					emitRead(g, st, magic, frame(magic, cmd, p))
				}
			}
		}
	}

	// 3. commands that differ in one byte (ping/pong, req_con/res_con ...): the documented exception
	for _, st := range stacks {
		cs := sortedCmds(st)
		for _, a := range cs {
			for _, b := range cs {
				if len(a) != len(b) || a == b {
					continue
				}
				diff, at := 0, 0
				for i := range a {
					if a[i] != b[i] {
						diff++
						at = i
					}
				}
				if diff == 1 {
					p := randPayload(r, st, a)
					fr := frame(magics[0], a, p)
					emitCorrupt(g, st, magics[0], fr, 4+at, b[at])
				}
			}
		}
	}

	// 4. unknown / malformed commands
	for i := 0; i < g.N(300, 3000); i++ {
		st := stacks[r.Intn(3)]
		var c [12]byte
		switch r.Intn(5) {
		case 0:
			copy(c[:], r.Bytes(12))
		case 1:
			copy(c[:], "PING")
		case 2:
			copy(c[:], "ping\x00x")
		case 3:
			copy(c[:], "versionversi")
		default:
			copy(c[:], sortedCmds(st)[0]+"x")
		}
		p := r.Bytes(r.Intn(20))
		fr := frame(magics[0], "", p)
		copy(fr[4:16], c[:])
		emitRead(g, st, magics[0], fr)
	}

	// 4b. the fixed-layout main-net decoders (modelled in Lean: Model/P2PMsg.lean): valid payloads, every
	//     truncation of them, trailing bytes, count fields at and above their limits
	le32 := func(v uint32) []byte { b := make([]byte, 4); binary.LittleEndian.PutUint32(b, v); return b }
	le64 := func(v uint64) []byte { b := make([]byte, 8); binary.LittleEndian.PutUint64(b, v); return b }
	for _, cmd := range []string{"verack", "getaddr", "mempool", "filterclear", "ping", "pong", "version", "inv", "getdata",
		"notfound", "getblocks", "addr", "filteradd", "filterload", "txfilter"} {
		max := int(instances["elanet"][cmd]().MaxLength())
		var cands [][]byte
		for k := 0; k < g.N(4, 30); k++ {
			if p := constructed(r, "elanet", cmd); p != nil {
				cands = append(cands, p)
				if len(p) > 0 {
					cands = append(cands, p[:r.Intn(len(p))], p[:len(p)-1])
				}
				cands = append(cands, append(append([]byte(nil), p...), r.Bytes(1+r.Intn(3))...))
			}
		}
		switch cmd {
		case "inv", "getdata", "notfound":
			for _, c := range []uint32{0, 1, 2, msg.MaxInvPerMsg, msg.MaxInvPerMsg + 1, math.MaxUint32} {
				cands = append(cands, append(le32(c), r.Bytes(r.Pick(0, 35, 36, 72, 80))...))
			}
		case "getblocks":
			for _, c := range []uint32{0, 1, msg.MaxBlockLocatorsPerMsg, msg.MaxBlockLocatorsPerMsg + 1} {
				cands = append(cands, append(le32(c), r.Bytes(r.Pick(0, 31, 32, 63, 64, 65))...))
			}
		case "addr":
			for _, c := range []uint64{0, 1, 2, msg.MaxAddrPerMsg, msg.MaxAddrPerMsg + 1, 1 << 40} {
				cands = append(cands, append(le64(c), r.Bytes(r.Pick(0, 33, 34, 68, 70))...))
			}
		case "version":
			for _, v := range []uint32{0, pact.CRProposalVersion - 1, pact.CRProposalVersion, math.MaxUint32} {
				base := append(le32(v), r.Bytes(31)...)
				cands = append(cands, base, base[:34], append(append([]byte(nil), base...), 3, 'a', 'b', 'c'),
					append(append([]byte(nil), base...), 3, 'a', 'b'), append(append([]byte(nil), base...), 0xfd, 3, 0, 'a', 'b', 'c'),
					append(append([]byte(nil), base...), 0xfd, 0xfd, 0))
			}
		case "filteradd":
			cands = append(cands, append([]byte{0xfd, 0x08, 0x02}, r.Bytes(520)...), append([]byte{0xfd, 0x09, 0x02}, r.Bytes(520)...),
				append([]byte{0xfc}, r.Bytes(251)...), append([]byte{0xfc}, r.Bytes(252)...), []byte{0xfd, 0x10, 0x00}, []byte{0xfe, 0, 0, 1, 0})
		case "txfilter":
			cands = append(cands, []byte{1}, []byte{1, 0}, []byte{1, 2, 9}, []byte{1, 2, 9, 9}, append([]byte{0, 0xfd, 0x50, 0xc3}, r.Bytes(100)...),
				append([]byte{0, 0xfd, 0x51, 0xc3}, r.Bytes(100)...))
		case "ping", "pong":
			cands = append(cands, r.Bytes(7), r.Bytes(8))
		}
		for _, p := range cands {
			if len(p) > max || len(p) > 65536 {
				continue
			}
			emitRead(g, "elanet", magics[0], frame(magics[0], cmd, p))
		}
	}

	// 4c. the fixed-layout DPoS decoders: one byte short, exact, one byte long
	for _, cn := range []struct {
		cmd string
		n   int
	}{{"ping", 8}, {"pong", 8}, {"inv", 32}, {"getblock", 32}, {"req_pro", 32}, {"get_blc", 8}, {"req_con", 4}, {"verack", 64}} {
		max := int(instances["dpos"][cn.cmd]().MaxLength())
		for _, l := range []int{0, cn.n - 1, cn.n, cn.n + 1} {
			if l <= max {
				emitRead(g, "dpos", magics[1], frame(magics[1], cn.cmd, r.Bytes(l)))
			}
		}
	}
	for _, p := range [][]byte{{}, {0}, {0, 1}, {0, 1, 2}, {3, 'a', 'b', 'c', 1, 2}, {3, 'a', 'b', 'c', 1}, {3, 'a', 'b'}, {0xfd, 3, 0, 'a', 'b', 'c', 1, 2},
		{0xfd, 0xfd, 0}, append(append([]byte{0xfc}, r.Bytes(252)...), 1, 2), append([]byte{0xfc}, r.Bytes(252)...)} {
		emitRead(g, "dpos", magics[1], frame(magics[1], "addr", p))
	}

	// 4d. the structured codecs modelled at value level (Model/P2PCodec.lean): valid payloads and every kind of prefix
	for _, sc := range [][2]string{{"spv", "merkleblock"}, {"elanet", "block"}, {"dpos", "block"}, {"elanet", "reject"}, {"elanet", "daddr"}, {"elanet", "tx"}, {"dpos", "tx"}, {"dpos", "proposal"}, {"dpos", "acc_vote"},
		{"dpos", "rej_vote"}, {"dpos", "reset_view"}, {"dpos", "ina_ars"}, {"dpos", "rev_to_dpos"}, {"dpos", "ill_pro"}, {"dpos", "side_ill"},
		{"dpos", "verack"}, {"dpos", "addr"}} {
		max := int(instances[sc[0]][sc[1]]().MaxLength())
		for k := 0; k < g.N(4, 30); k++ {
			p := constructed(r, sc[0], sc[1])
			if p == nil {
				continue
			}
			cands := [][]byte{p, append(append([]byte(nil), p...), r.Bytes(1+r.Intn(3))...)}
			if len(p) > 0 {
				cands = append(cands, p[:r.Intn(len(p))], p[:len(p)-1])
			}
			for _, q := range cands {
				if len(q) <= max {
					emitRead(g, sc[0], magics[1], frame(magics[1], sc[1], q))
				}
			}
		}
	}

	// 5. real messages written by WriteMessage over a net.Pipe and read back through the stack
	for _, st := range stacks {
		for _, cmd := range sortedCmds(st) {
			for k := 0; k < g.N(4, 40); k++ {
				p := canonical(r, st, cmd)
				if p == nil || len(p) > 70000 {
					continue
				}
				g.Emit("rt %s %d %s %s", st, magics[r.Intn(3)], cmd, hx.Hex(p))
			}
		}
	}
	// 6. block send path: sequences over a few distinct blocks (A, B, A ...), with and without confirms, so that
	//    the 2-entry serialization cache hits, misses and evicts
	for i := 0; i < g.N(150, 1500); i++ {
		n := 2 + r.Intn(3)
		var descs []string
		for j := 0; j < n; j++ {
			descs = append(descs, fmt.Sprintf("%d:%d:%d", 1+r.Intn(1000), r.Intn(1<<30), r.Pick(0, 0, 1, 2)))
		}
		var seq []string
		switch r.Intn(4) {
		case 0:
			seq = []string{"0", "1", "0"}
		case 1:
			seq = []string{"0", "1", "0", "1", "0"}
		case 2:
			seq = []string{"0", "0", "1", "1", "0"}
		default:
			for k := 0; k < 3+r.Intn(5); k++ {
				seq = append(seq, strconv.Itoa(r.Intn(n)))
			}
		}
		var sb strings.Builder
		fmt.Fprintf(&sb, "wseq %d %s %d", magics[r.Intn(3)], strings.Join(seq, "."), n)
		for _, d := range descs {
			fmt.Fprintf(&sb, " %s %s", d, hx.Hex(freshBlockBytes(mkBlock(d))))
		}
		g.Emit("%s", sb.String())
	}

	// address objects in every in-memory form of net.IP -> Addr.Serialize
	for k := 0; k < g.N(200, 2000); k++ {
		n := r.Intn(4)
		var sb strings.Builder
		fmt.Fprintf(&sb, "addrenc %d", n)
		for i := 0; i < n; i++ {
			var ip []byte
			switch r.Intn(5) {
			case 0:
				ip = r.Bytes(4)
			case 1:
				ip = net.IPv4(r.Byte(), r.Byte(), r.Byte(), r.Byte())
			case 2:
				ip = nil
			case 3:
				ip = r.Bytes(r.Pick(1, 5, 15, 17))
			default:
				ip = r.Bytes(16)
			}
			fmt.Fprintf(&sb, " %d %d %s %d", int64(uint32(r.U64())), r.U64(), hx.Hex(ip), uint16(r.U64()))
		}
		g.Emit("%s", sb.String())
	}

	// well-formed real messages built from a seed (the decoder under test has no say in what is generated)
	for _, st := range stacks {
		for _, cmd := range sortedCmds(st) {
			for k := 0; k < g.N(6, 40); k++ {
				seed := r.U64() >> 1
				wellFormedOnly = true
				m := constructedMsg(hx.NewRand(seed), st, cmd)
				wellFormedOnly = false
				if m == nil {
					break
				}
				if p, err := serialize(m); err == nil && len(p) <= 70000 {
					g.Emit("rtc %s %d %s %d %s", st, magics[r.Intn(3)], cmd, seed, hx.Hex(p))
				}
			}
		}
	}

	// merkle blocks as the node sends them (none / one / all transactions matched, 1..33 transactions) and free-form ones
	for k := 0; k < g.N(60, 600); k++ {
		seed, n, mode := r.U64()>>1, r.Pick(1, 2, 3, 4, 5, 7, 8, 9, 15, 16, 17, 33), r.Intn(4)
		if mode == 3 {
			n = r.Pick(0, 1, 7, 8, 100, 9999, 10000, 10001, 1<<31-1)
		}
		if p, err := serialize(buildMerkleBlock(seed, n, mode)); err == nil {
			g.Emit("mrt spv %d %d %d %d %s", magics[r.Intn(3)], seed, n, mode, hx.Hex(p))
		}
	}

	extSeed := r.U64() >> 1
	ext := extremes(hx.NewRand(extSeed))
	for _, cmd := range sortedCmds("elanet") {
		for i, m := range ext[cmd] {
			if p, err := serialize(m); err == nil {
				g.Emit("rtx elanet %d %s %d %d %s", magics[0], cmd, extSeed, i, hx.Hex(p))
			}
		}
	}

	// the same streams delivered in pieces (TCP segmentation): valid frames of every command, with following bytes
	for _, st := range stacks {
		for _, cmd := range sortedCmds(st) {
			p := randPayload(r, st, cmd)
			fr := frame(magics[1], cmd, p)
			if r.Bool() {
				fr = append(fr, r.Bytes(r.Intn(30))...)
			}
			for _, ch := range []int{1, r.Pick(2, 3, 7), r.Pick(23, 24, 25, 100)} {
				g.Emit("readc %s %d %d %d %s", st, magics[1], dflag(st, magics[1], fr), ch, hx.Hex(fr))
			}
		}
	}
}

// extremes: the largest messages the real Serialize methods agree to produce.
func extremes(r *hx.Rand) map[string][]p2p.Message {
	ver := func(n int) p2p.Message {
		return &msg.Version{Version: pact.CRProposalVersion, Services: 1, Timestamp: time.Unix(1600000000, 0), Port: 20338, Nonce: r.U64(), Height: 1000000, Relay: true,
			NodeVersion: string(bytes.Repeat([]byte{'v'}, n))}
	}
	fl := func(n, k int) p2p.Message {
		f := &msg.FilterLoad{Filter: r.Bytes(n), HashFuncs: 50, Tweak: uint32(r.U64())}
		for i := 0; i < k; i++ {
			f.TxTypes = append(f.TxTypes, ctypes.TxType(i))
		}
		return f
	}
	var addrs []*p2p.NetAddress
	for i := 0; i < msg.MaxAddrPerMsg; i++ {
		addrs = append(addrs, &p2p.NetAddress{Timestamp: time.Unix(int64(i), 0), Services: 1, IP: net.IP(r.Bytes(16)), Port: uint16(i)})
	}
	var loc []*common.Uint256
	for i := 0; i < msg.MaxBlockLocatorsPerMsg; i++ {
		var h common.Uint256
		copy(h[:], r.Bytes(32))
		loc = append(loc, &h)
	}
	return map[string][]p2p.Message{
		"version":    {ver(45), ver(46), ver(47), ver(100)},
		"filterload": {fl(35999, 0), fl(36000, 0), fl(35990, 5), fl(36000, 1), fl(36000, 3)},
		"filteradd":  {&msg.FilterAdd{Data: r.Bytes(msg.MaxFilterAddDataSize)}},
		"txfilter":   {&msg.TxFilterLoad{Type: 1, Data: r.Bytes(msg.MaxTxFilterLoadDataSize)}},
		"addr":       {msg.NewAddr(addrs)},
		"getblocks":  {msg.NewGetBlocks(loc, common.Uint256{})},
	}
}

func init() {
	// what the node's main() installs before any message is read
	functions.GetTransactionByTxType = transaction.GetTransaction
	functions.GetTransactionByBytes = transaction.GetTransactionByBytes
	functions.CreateTransaction = transaction.CreateTransaction
	functions.GetTransactionParameters = transaction.GetTransactionparameters
}

func main() {
	hx.Main(&hx.Prop{Name: "C35", Gen: gen, Exec: exec, Oracle: oracle, Nontrivial: nontrivial, Bucket: bucket})
}
