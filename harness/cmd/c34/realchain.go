package main

// Real-chain stream of C34: the pool of a real regnet node (harness/regnet), real producer
// transactions, real blocks through BlockChain.ProcessBlock, and the node's real post-block cleanup
// (regnet mirrors netsync's event handler: CleanSubmittedTransactions on ETBlockConnected,
// CheckAndCleanAllTransactions on ETBlockProcessed).  The chain's verdicts are the real ones, so
// this stream has no Lean counterpart (the driver answers "ok"); the property is judged directly on
// the real pool's internal snapshot by the oracle.

import (
	"bytes"
	"fmt"
	"os"
	"strconv"

	"elaverif/harness/hx"
	"elaverif/harness/regnet"

	"github.com/elastos/Elastos.ELA/common"
	"github.com/elastos/Elastos.ELA/common/config"
	"github.com/elastos/Elastos.ELA/core"
	"github.com/elastos/Elastos.ELA/core/contract"
	"github.com/elastos/Elastos.ELA/core/types"
	ctypes "github.com/elastos/Elastos.ELA/core/types/common"
	"github.com/elastos/Elastos.ELA/core/types/functions"
	"github.com/elastos/Elastos.ELA/core/types/interfaces"
	"github.com/elastos/Elastos.ELA/core/types/outputpayload"
	"github.com/elastos/Elastos.ELA/core/types/payload"
	"github.com/elastos/Elastos.ELA/crypto"
)

type rcWorld struct {
	n     *regnet.Node
	dir   string
	tip   *types.Block
	fund  interfaces.Transaction
	next  int // next unused funding output
	nonce int
	trace []string
}

var rcViolation *hx.Violation

func (w *rcWorld) pub(i int) []byte { b, _ := w.n.Accounts[i].PublicKey.EncodePoint(true); return b }

func (w *rcWorld) mine(txs ...interfaces.Transaction) error {
	b, err := w.n.Mine(w.tip, txs)
	if err != nil {
		return err
	}
	if _, _, err := w.n.Deliver(b); err != nil {
		return err
	}
	w.tip = b
	return nil
}

// producer transaction of account 1 spending the next funding output
func (w *rcWorld) ptx(kind string) interfaces.Transaction {
	in := ctypes.OutPoint{TxID: w.fund.Hash(), Index: uint16(w.next)}
	inVal := w.fund.Outputs()[w.next].Value
	w.next++
	w.nonce++
	var ty ctypes.TxType
	var pl interfaces.Payload
	var deposit common.Fixed64
	sign := func(f func(*bytes.Buffer) error) []byte {
		buf := new(bytes.Buffer)
		if err := f(buf); err != nil {
			panic("harness: " + err.Error())
		}
		sig, err := crypto.Sign(w.n.Accounts[1].PrivKey(), buf.Bytes())
		if err != nil {
			panic("harness: " + err.Error())
		}
		return sig
	}
	switch kind {
	case "reg", "upd", "updn":
		node := w.pub(1)
		if kind == "updn" {
			node = w.pub(2) // the producer moves to another node key
		}
		info := &payload.ProducerInfo{OwnerKey: w.pub(1), NodePublicKey: node, NickName: "p" + strconv.Itoa(w.nonce), Url: "http://x.org", Location: 1, NetAddress: "127.0.0.1:1"}
		info.Signature = sign(func(b *bytes.Buffer) error { return info.SerializeUnsigned(b, 0) })
		pl, ty = info, ctypes.UpdateProducer
		if kind == "reg" {
			ty, deposit = ctypes.RegisterProducer, 500000000000
		}
	case "can":
		pp := &payload.ProcessProducer{OwnerKey: w.pub(1)}
		pp.Signature = sign(func(b *bytes.Buffer) error { return pp.SerializeUnsigned(b, 0) })
		pl, ty = pp, ctypes.CancelProducer
	default:
		panic("harness: unknown producer tx kind " + kind)
	}
	var outs []*ctypes.Output
	rest := inVal - 10000
	if deposit > 0 {
		dep, err := contract.PublicKeyToDepositProgramHash(w.pub(1))
		if err != nil {
			panic("harness: " + err.Error())
		}
		outs = append(outs, &ctypes.Output{AssetID: core.ELAAssetID, Value: deposit, ProgramHash: *dep, Type: ctypes.OTNone, Payload: &outputpayload.DefaultOutput{}})
		rest -= deposit
	}
	outs = append(outs, &ctypes.Output{AssetID: core.ELAAssetID, Value: rest, ProgramHash: w.n.Addr(1), Type: ctypes.OTNone, Payload: &outputpayload.DefaultOutput{}})
	tx := functions.CreateTransaction(ctypes.TxVersion09, ty, 0, pl,
		[]*ctypes.Attribute{{Usage: ctypes.Nonce, Data: []byte(strconv.Itoa(w.nonce))}},
		[]*ctypes.Input{{Previous: in}}, outs, 0, nil)
	if err := w.n.Sign(tx, 1); err != nil {
		panic("harness: " + err.Error())
	}
	return tx
}

func ownerOf(tx interfaces.Transaction) string {
	switch p := tx.Payload().(type) {
	case *payload.ProducerInfo:
		return common.BytesToHexString(p.OwnerKey)
	case *payload.ProcessProducer:
		return common.BytesToHexString(p.OwnerKey)
	}
	return ""
}

// judge the real pool directly: the slot index must be backed by held transactions, every held producer
// transaction must hold its owner key, and no two held transactions may be for the same owner.
func (w *rcWorld) judge(stage string) {
	if rcViolation != nil {
		return
	}
	s := w.n.Pool.VerifSnapshot()
	held := map[common.Uint256]bool{}
	for _, h := range s.Txs {
		held[h] = true
	}
	bad := func(kind, detail string) {
		rcViolation = &hx.Violation{Kind: kind, Detail: stage + ": " + detail + "  [" + fmt.Sprint(w.trace) + "]"}
	}
	ownerIdx := map[string]common.Uint256{}
	for _, sl := range s.Slots {
		for _, k := range sl.Keys {
			if !held[k.Owner] {
				bad("pool-index-stale", fmt.Sprintf("slot %s has an entry of a transaction that is not held", sl.Name))
				return
			}
			if sl.Name == "DPoSOwnerPublicKey" {
				ownerIdx[k.Key[2:]] = k.Owner
			}
		}
	}
	seen := map[string]common.Uint256{}
	for _, h := range s.Txs {
		tx := w.n.Pool.GetTransaction(h)
		o := ownerOf(tx)
		if o == "" {
			continue
		}
		if prev, ok := seen[o]; ok {
			bad("pool-conflict", fmt.Sprintf("two held transactions (%s, %s) are for the same producer owner key", prev.String()[:8], h.String()[:8]))
			return
		}
		seen[o] = h
		if ownerIdx[o] != h {
			bad("pool-index-missing", fmt.Sprintf("held %s transaction %s does not hold its owner key in slot DPoSOwnerPublicKey", tx.TxType().Name(), h.String()[:8]))
			return
		}
	}
}

// rcflow <held> <block> <third> <mineHeld>: producer registered on the chain; <held> is submitted to the
// pool; a block carrying <block> (built elsewhere) connects; <third> is submitted; optionally a block with
// everything the pool holds connects.
func execRealChain(t []string) string {
	rcViolation = nil
	dir, err := os.MkdirTemp("", "c34-regnet-")
	if err != nil {
		panic("harness: " + err.Error())
	}
	defer os.RemoveAll(dir)
	n, err := regnet.NewNode(dir+"/n", regnet.Options{CoinbaseMaturity: 1, Tweak: func(p *config.Configuration) { p.VoteStartHeight = 1 }})
	if err != nil {
		panic("harness: regnet: " + err.Error())
	}
	defer n.Close()
	w := &rcWorld{n: n, dir: dir, tip: n.Genesis}
	must := func(err error, what string) {
		if err != nil {
			panic("harness: " + what + ": " + err.Error())
		}
	}
	must(w.mine(), "mine")
	must(w.mine(), "mine")
	g := n.Genesis.Transactions[0]
	outs := []regnet.Out{{To: 1, Value: 600000000000}}
	total := common.Fixed64(600000000000)
	for i := 0; i < 8; i++ {
		outs = append(outs, regnet.Out{To: 1, Value: 100000000})
		total += 100000000
	}
	outs = append(outs, regnet.Out{To: 0, Value: g.Outputs()[0].Value - total - 10000})
	w.fund, err = n.Transfer(0, []ctypes.OutPoint{{TxID: g.Hash(), Index: 0}}, outs, 1)
	must(err, "fund")
	must(w.mine(w.fund), "mine fund")
	reg := w.ptx("reg")
	must(n.Submit(reg), "submit register producer")
	must(w.mine(reg), "mine register producer")
	if n.Chain.GetState().GetProducer(w.pub(1)) == nil {
		panic("harness: producer not registered")
	}
	w.judge("after registration")
	submit := func(kind string) {
		if kind == "-" {
			return
		}
		err := n.Submit(w.ptx(kind))
		res := "ok"
		if err != nil {
			res = "refused"
		}
		w.trace = append(w.trace, "submit "+kind+": "+res)
		w.judge("after submitting " + kind)
	}
	submit(t[1])
	if t[2] != "-" {
		err := w.mine(w.ptx(t[2]))
		res := "connected"
		if err != nil {
			res = "rejected"
		}
		w.trace = append(w.trace, "block "+t[2]+": "+res)
		w.judge("after the block with " + t[2])
	}
	submit(t[3])
	if t[4] == "1" {
		var txs []interfaces.Transaction
		for _, h := range n.Pool.VerifSnapshot().Txs {
			txs = append(txs, n.Pool.GetTransaction(h))
		}
		err := w.mine(txs...)
		res := "connected"
		if err != nil {
			res = "rejected"
		}
		w.trace = append(w.trace, fmt.Sprintf("block with the %d held: %s", len(txs), res))
		w.judge("after mining the held transactions")
	}
	return "ok"
}
