// Harness for C34: the real mempool (TxPool, txFeeOrderedList, conflict manager)
// driven through its public API against the Lean pool machine.
//
// The pool talks to the chain only through CheckTransactionSanity /
// CheckTransactionContext — which dispatch to methods of the transaction
// object — and through UTXOCache.GetTxReference.  The harness therefore hands
// the pool real transactions (real types, payloads, serialization, hashes,
// key functions) wrapped in an object whose SanityCheck/ContextCheck return the
// verdict carried in the op line (the oracle input of the model), on a real
// in-process chain (genesis only, ffldb in a temp dir) whose UTXO cache is
// backed by an in-memory transaction store, exactly as mempool's own tests do.
package main

import (
	"bytes"
	"crypto/sha256"
	"errors"
	"fmt"
	"math"
	"os"
	"sort"
	"strconv"
	"strings"

	"elaverif/harness/hx"

	"github.com/elastos/Elastos.ELA/blockchain"
	"github.com/elastos/Elastos.ELA/common"
	"github.com/elastos/Elastos.ELA/common/config"
	"github.com/elastos/Elastos.ELA/core"
	"github.com/elastos/Elastos.ELA/core/checkpoint"
	"github.com/elastos/Elastos.ELA/core/contract/program"
	transaction2 "github.com/elastos/Elastos.ELA/core/transaction"
	"github.com/elastos/Elastos.ELA/core/types"
	common2 "github.com/elastos/Elastos.ELA/core/types/common"
	"github.com/elastos/Elastos.ELA/core/types/functions"
	"github.com/elastos/Elastos.ELA/core/types/interfaces"
	"github.com/elastos/Elastos.ELA/core/types/outputpayload"
	"github.com/elastos/Elastos.ELA/core/types/payload"
	"github.com/elastos/Elastos.ELA/crypto"
	dplog "github.com/elastos/Elastos.ELA/dpos/log"
	"github.com/elastos/Elastos.ELA/dpos/state"
	elaerr "github.com/elastos/Elastos.ELA/errors"
	"github.com/elastos/Elastos.ELA/mempool"
)

// ---------------------------------------------------------------- chain environment

type utxoDB struct {
	txs map[common.Uint256]interfaces.Transaction
}

func (s *utxoDB) GetTransaction(txID common.Uint256) (interfaces.Transaction, uint32, error) {
	if t, ok := s.txs[txID]; ok {
		return t, 0, nil
	}
	return nil, 0, errors.New("leveldb: not found")
}

var (
	envReady  bool
	dataDir   string
	db        = &utxoDB{txs: map[common.Uint256]interfaces.Transaction{}}
	params    *config.Configuration
	arbPriv   []byte
	arbPub    []byte
	chainRef  *blockchain.BlockChain
	storeRef  blockchain.IChainStore
)

func setupEnv() {
	if envReady {
		return
	}
	envReady = true
	functions.GetTransactionByTxType = transaction2.GetTransaction
	functions.GetTransactionByBytes = transaction2.GetTransactionByBytes
	functions.CreateTransaction = transaction2.CreateTransaction
	functions.GetTransactionParameters = transaction2.GetTransactionparameters
	config.DefaultParams = *config.GetDefaultParams()
	var err error
	dataDir, err = os.MkdirTemp("", "c34-chain-")
	if err != nil {
		panic("harness: " + err.Error())
	}
	dplog.Init(dataDir+"/dposlogs", 255, 0, 0)
	params = &config.DefaultParams
	params.GenesisBlock = core.GenesisBlock(*params.FoundationProgramHash)
	blockchain.FoundationAddress = *params.FoundationProgramHash
	ckp := checkpoint.NewManager(config.GetDefaultParams())
	store, err := blockchain.NewChainStore(dataDir+"/data", params)
	if err != nil {
		panic("harness: open chain store: " + err.Error())
	}
	priv, pub, err := crypto.GenerateKeyPair()
	if err != nil {
		panic("harness: " + err.Error())
	}
	arbPriv = priv
	arbPub, _ = pub.EncodePoint(true)
	ar, err := state.NewOriginArbiter(arbPub)
	if err != nil {
		panic("harness: " + err.Error())
	}
	arbitrators := state.NewArbitratorsMock([]state.ArbiterMember{ar}, 0, 0)
	chain, err := blockchain.New(store, params, state.NewState(params, nil, nil, nil, nil, nil, nil, nil, nil, nil, nil, nil), nil, ckp)
	if err != nil {
		panic("harness: blockchain.New: " + err.Error())
	}
	chain.UTXOCache = blockchain.NewUTXOCache(db, params)
	if err := chain.Init(nil); err != nil {
		panic("harness: chain.Init: " + err.Error())
	}
	mockLedger = &blockchain.Ledger{Blockchain: chain, Store: store, Arbitrators: arbitrators}
	mockFoundation = blockchain.FoundationAddress
	blockchain.DefaultLedger = mockLedger
	chainRef = chain
	storeRef = store
}

func cleanupEnv() {
	if !envReady {
		return
	}
	if storeRef != nil {
		storeRef.Close()
	}
	os.RemoveAll(dataDir)
}

// ---------------------------------------------------------------- oracle transaction

// otx is a real transaction whose chain checks answer with the op line's verdicts.
type otx struct {
	interfaces.Transaction
	id       int
	sanityOK bool
	ctxOK    bool
	fee      common.Fixed64
	seen     []common.Fixed64 // proposalsUsedAmount passed to each ContextCheck call
}

func (t *otx) SanityCheck(p interfaces.Parameters) elaerr.ELAError {
	if !t.sanityOK {
		return elaerr.Simple(elaerr.ErrTxSize, nil)
	}
	return nil
}

func (t *otx) ContextCheck(p interfaces.Parameters) (map[*common2.Input]common2.Output, elaerr.ELAError) {
	if tp, ok := p.(*transaction2.TransactionParameters); ok {
		t.seen = append(t.seen, tp.ProposalsUsedAmount)
	}
	if !t.ctxOK {
		return nil, elaerr.Simple(elaerr.ErrTxBalance, nil)
	}
	t.Transaction.SetFee(t.fee)
	return map[*common2.Input]common2.Output{}, nil
}

// ftx is the minimal transaction the stand-alone fee list looks at.
type ftx struct {
	interfaces.Transaction
	hash common.Uint256
	size int
	fee  common.Fixed64
}

func (t *ftx) Hash() common.Uint256 { return t.hash }
func (t *ftx) GetSize() int         { return t.size }
func (t *ftx) Fee() common.Fixed64  { return t.fee }

// ---------------------------------------------------------------- tokens → values

func sha(s string) [32]byte { return sha256.Sum256([]byte(s)) }

func pkOf(tok string) []byte {
	h := sha("pk:" + tok)
	return append([]byte{0x02}, h[:]...)
}
func hashOf(tok string) common.Uint256 {
	h := sha("hash:" + tok)
	var u common.Uint256
	copy(u[:], h[:])
	return u
}
func phOf(tok string) common.Uint168 {
	h := sha("ph:" + tok)
	var u common.Uint168
	u[0] = 0x21
	copy(u[1:], h[:20])
	return u
}
func codeOf(tok string) []byte {
	pk := pkOf(tok)
	c := append([]byte{0x21}, pk...)
	return append(c, 0xac)
}
func fakeHashOfID(id int) common.Uint256 { // hash for the fee-list-only stream
	return hashOf("fl:" + strconv.Itoa(id))
}

// ---------------------------------------------------------------- tx description

type desc struct {
	id      int
	ty      int
	pver    int
	size    int
	fee     int64
	nout    int
	budgets []int64
	f       map[string][]string
	order   []string
}

func (d *desc) get(k string) []string { return d.f[k] }
func (d *desc) one(k string) string {
	if v := d.f[k]; len(v) > 0 {
		return v[0]
	}
	return ""
}
func (d *desc) has(k string) bool { return len(d.f[k]) > 0 }
func (d *desc) keyerr(fn string) bool {
	for _, v := range d.f["keyerr"] {
		if v == fn {
			return true
		}
	}
	return false
}

func csv(s string) []string {
	if s == "-" || s == "" {
		return nil
	}
	return strings.Split(s, ",")
}

func parseDesc(t []string) *desc {
	if len(t) < 8 {
		panic("harness: short tx op")
	}
	d := &desc{f: map[string][]string{}}
	d.id = atoi(t[1])
	d.ty = atoi(t[2])
	d.pver = atoi(t[3])
	d.size = atoi(t[4])
	d.fee = atoi64(t[5])
	d.nout = atoi(t[6])
	for _, b := range csv(t[7]) {
		d.budgets = append(d.budgets, atoi64(b))
	}
	for _, kvs := range t[8:] {
		i := strings.IndexByte(kvs, '=')
		if i < 0 {
			panic("harness: bad field " + kvs)
		}
		d.f[kvs[:i]] = csv(kvs[i+1:])
		d.order = append(d.order, kvs[:i])
	}
	return d
}

func (d *desc) line() string {
	var b strings.Builder
	bud := "-"
	if len(d.budgets) > 0 {
		ss := make([]string, len(d.budgets))
		for i, v := range d.budgets {
			ss[i] = strconv.FormatInt(v, 10)
		}
		bud = strings.Join(ss, ",")
	}
	fmt.Fprintf(&b, "tx %d %d %d %d %d %d %s", d.id, d.ty, d.pver, d.size, d.fee, d.nout, bud)
	for _, k := range d.order {
		fmt.Fprintf(&b, " %s=%s", k, strings.Join(d.f[k], ","))
	}
	return b.String()
}

func (d *desc) set(k string, v ...string) {
	if _, ok := d.f[k]; !ok {
		d.order = append(d.order, k)
	}
	d.f[k] = v
}

func atoi(s string) int {
	v, err := strconv.Atoi(s)
	if err != nil {
		panic("harness: bad int " + s)
	}
	return v
}
func atoi64(s string) int64 {
	v, err := strconv.ParseInt(s, 10, 64)
	if err != nil {
		panic("harness: bad int " + s)
	}
	return v
}

// ---------------------------------------------------------------- per-history state

type hist struct {
	pool     *mempool.TxPool
	descs    map[int]*desc
	real     map[int]interfaces.Transaction // the object registered in the utxo store / used for block txs
	poolObj  map[int]*otx                   // the object handed to the pool
	idOfHash map[common.Uint256]int
	dict     map[string]string // raw slot key (with s:/h:/p: prefix) → token
	fl       *mempool.VerifFeeList
	flMax    uint64
	sigs     map[int][]byte
	// oracle bookkeeping
	midCleanup bool
	broken     bool // the verdicts of this history violated the cleanup-oracle assumption
	required   map[int]bool
}

var H *hist

var (
	mockLedger     *blockchain.Ledger
	mockFoundation common.Uint168
)

func newHist(max uint64) {
	setupEnv()
	// a real-chain flow (rcflow) installs its own ledger: switch back to the mock chain
	blockchain.DefaultLedger = mockLedger
	blockchain.FoundationAddress = mockFoundation
	for k := range db.txs {
		delete(db.txs, k)
	}
	chainRef.UTXOCache.CleanCache()
	ckp := checkpoint.NewManager(config.GetDefaultParams())
	p := mempool.NewTxPool(params, ckp)
	if max != 20000000 { // the default history keeps whatever capacity NewTxPool configures (pact.MaxTxPoolSize)
		p.VerifSetMaxSize(max)
	}
	H = &hist{pool: p, descs: map[int]*desc{}, real: map[int]interfaces.Transaction{}, poolObj: map[int]*otx{},
		idOfHash: map[common.Uint256]int{}, dict: map[string]string{}, sigs: map[int][]byte{}}
	for _, c := range []string{"Change the fee of custom ID", "Reserve custom ID", "CRC Appropriation", "Secretary General",
		"VotesRealWithdraw", "RevertToDPOS", "customIDProposalResult"} {
		H.dict["s:"+c] = strings.ReplaceAll(c, " ", "_")
	}
}

func tokTx(id int) string { return "t" + strconv.Itoa(id) }

// outpoint token "t<id>:<idx>"
func parseOutpoint(tok string) (int, int) {
	i := strings.IndexByte(tok, ':')
	if i < 2 || tok[0] != 't' {
		panic("harness: bad outpoint " + tok)
	}
	return atoi(tok[1:i]), atoi(tok[i+1:])
}

func prevHash(id int) common.Uint256 {
	if t, ok := H.real[id]; ok {
		return t.Hash()
	}
	// never defined: an unknown transaction
	return hashOf("missing:" + strconv.Itoa(id))
}

func hexs(b []byte) string { return common.BytesToHexString(b) }

// build constructs the real transaction for a description and registers the
// token ↔ value dictionary entries for every key the description mentions.
func build(d *desc) interfaces.Transaction {
	dict := H.dict
	var inputs []*common2.Input
	for _, op := range d.get("in") {
		pid, idx := parseOutpoint(op)
		in := &common2.Input{Previous: common2.OutPoint{TxID: prevHash(pid), Index: uint16(idx)}, Sequence: 0}
		inputs = append(inputs, in)
		dict["s:"+in.ReferKey()] = op
	}
	var outputs []*common2.Output
	for i := 0; i < d.nout; i++ {
		outputs = append(outputs, &common2.Output{AssetID: core.ELAAssetID, Value: common.Fixed64(1000 + i), ProgramHash: phOf("addr"), Type: common2.OTNone, Payload: &outputpayload.DefaultOutput{}})
	}
	var programs []*program.Program
	attrs := []*common2.Attribute{{Usage: common2.Nonce, Data: []byte("id" + strconv.Itoa(d.id))}}
	var pl interfaces.Payload
	ty := common2.TxType(d.ty)
	regKey := func(tok string) []byte {
		pk := pkOf(tok)
		dict["s:"+hexs(pk)] = tok
		return pk
	}
	regHash := func(tok string) common.Uint256 {
		h := hashOf(tok)
		dict["h:"+hexs(h.Bytes())] = tok
		return h
	}
	regPH := func(tok string) common.Uint168 {
		h := phOf(tok)
		dict["p:"+hexs(h.Bytes())] = tok
		return h
	}
	regStr := func(tok string) string {
		dict["s:"+tok] = tok
		return tok
	}
	switch ty {
	case common2.CoinBase:
		pl = &payload.CoinBase{}
	case common2.TransferAsset:
		pl = &payload.TransferAsset{}
		var contents []outputpayload.VoteContent
		if d.has("votep") {
			c := outputpayload.VoteContent{VoteType: outputpayload.Delegate}
			for _, k := range d.get("votep") {
				c.CandidateVotes = append(c.CandidateVotes, outputpayload.CandidateVotes{Candidate: pkOf(k), Votes: 1})
			}
			contents = append(contents, c)
		}
		if d.has("votecr") {
			c := outputpayload.VoteContent{VoteType: outputpayload.CRC}
			for _, k := range d.get("votecr") {
				cid := phOf(k)
				c.CandidateVotes = append(c.CandidateVotes, outputpayload.CandidateVotes{Candidate: cid.Bytes(), Votes: 1})
			}
			contents = append(contents, c)
		}
		if len(contents) > 0 {
			if len(outputs) == 0 {
				panic("harness: vote tx needs an output")
			}
			outputs[0].Type = common2.OTVote
			outputs[0].Payload = &outputpayload.VoteOutput{Version: 1, Contents: contents}
		}
	case common2.SideChainPow:
		p := &payload.SideChainPow{SideBlockHash: hashOf("sb" + strconv.Itoa(d.id)), SideGenesisHash: hashOf(d.one("powgen")), BlockHeight: uint32(d.id)}
		buf := new(bytes.Buffer)
		p.Serialize(buf, payload.SideChainPowVersion)
		if d.one("powok") == "1" {
			// ECDSA signing is randomized and the signature is part of the tx hash: sign once per tx
			sig, ok := H.sigs[d.id]
			if !ok {
				var err error
				sig, err = crypto.Sign(arbPriv, buf.Bytes()[0:68])
				if err != nil {
					panic("harness: sign: " + err.Error())
				}
				H.sigs[d.id] = sig
			}
			p.Signature = sig
		} else {
			p.Signature = bytes.Repeat([]byte{7}, 64)
		}
		pl = p
	case common2.WithdrawFromSideChain:
		p := &payload.WithdrawFromSideChain{BlockHeight: 1, GenesisBlockAddress: "g"}
		if d.pver == 0 {
			for _, h := range d.get("schash") {
				p.SideChainTransactionHashes = append(p.SideChainTransactionHashes, regHash(h))
			}
		} else {
			for _, h := range d.get("schash") {
				outputs = append(outputs, &common2.Output{AssetID: core.ELAAssetID, Value: 5, ProgramHash: phOf("addr"), Type: common2.OTWithdrawFromSideChain,
					Payload: &outputpayload.Withdraw{GenesisBlockAddress: "g", SideChainTransactionHash: regHash(h), TargetData: []byte{1}}})
			}
		}
		pl = p
	case common2.ReturnSideChainDepositCoin:
		pl = &payload.ReturnSideChainDepositCoin{}
		for _, h := range d.get("rdhash") {
			outputs = append(outputs, &common2.Output{AssetID: core.ELAAssetID, Value: 5, ProgramHash: phOf("addr"), Type: common2.OTReturnSideChainDepositCoin,
				Payload: &outputpayload.ReturnSideChainDeposit{GenesisBlockAddress: "g", DepositTransactionHash: regHash(h)}})
		}
	case common2.RegisterProducer, common2.UpdateProducer:
		pl = &payload.ProducerInfo{OwnerKey: regKey(d.one("own")), NodePublicKey: regKey(d.one("node")), NickName: regStr(d.one("nick")), Url: "u", Location: 1, NetAddress: "a"}
	case common2.CancelProducer:
		pl = &payload.ProcessProducer{OwnerKey: regKey(d.one("own"))}
	case common2.ActivateProducer:
		pl = &payload.ActivateProducer{NodePublicKey: regKey(d.one("node"))}
	case common2.ReturnDepositCoin, common2.ReturnCRDepositCoin:
		pl = &payload.ReturnDepositCoin{}
		code := codeOf(d.one("code"))
		dict["s:"+hexs(code)] = d.one("code")
		programs = []*program.Program{{Code: code, Parameter: []byte{1}}}
	case common2.RegisterCR, common2.UpdateCR:
		code := codeOf(d.one("crpk"))
		regKey(d.one("crpk"))
		pl = &payload.CRInfo{Code: code, CID: regPH(d.one("cid")), DID: phOf("did" + d.one("cid")), NickName: regStr(d.one("nick")), Url: "u", Location: 1}
		if ty == common2.RegisterCR && d.pver == int(payload.CRInfoSchnorrVersion) {
			// schnorr registration: no code in the payload, the schnorr redeem script (version, key) in the program
			pl.(*payload.CRInfo).Code = []byte{}
			programs = []*program.Program{{Code: append([]byte{0x51, 0x21}, pkOf(d.one("crpk"))...), Parameter: []byte{1}}}
		}
	case common2.UnregisterCR:
		pl = &payload.UnregisterCR{CID: regPH(d.one("cid"))}
	case common2.CRCProposal:
		p := &payload.CRCProposal{ProposalType: payload.CRCProposalType(atoi(d.one("ptype"))), OwnerKey: pkOf("o"),
			DraftHash: regHash(d.one("draft")), CRCouncilMemberDID: regPH(d.one("did")), Recipient: phOf("r")}
		for i, b := range d.budgets {
			p.Budgets = append(p.Budgets, payload.Budget{Type: payload.NormalPayment, Stage: byte(i), Amount: common.Fixed64(b)})
		}
		if d.has("target") {
			p.TargetProposalHash = regHash(d.one("target"))
		}
		for _, c := range d.get("custom") {
			p.ReceivedCustomIDList = append(p.ReceivedCustomIDList, regStr(c))
		}
		if d.has("scname") {
			p.SideChainName = regStr(d.one("scname"))
		}
		if d.has("magic") {
			p.MagicNumber = uint32(atoi(d.one("magic")))
			regStr(d.one("magic"))
		}
		if d.has("genesis") {
			p.GenesisHash = regHash(d.one("genesis"))
		}
		pl = p
	case common2.CRCProposalReview:
		p := &payload.CRCProposalReview{ProposalHash: hashOf(d.one("prop")), DID: phOf(d.one("did")), OpinionHash: hashOf("op")}
		dict["s:"+p.DID.String()+p.ProposalHash.String()] = d.one("did") + "+" + d.one("prop")
		pl = p
	case common2.CRCProposalTracking:
		pl = &payload.CRCProposalTracking{ProposalHash: regHash(d.one("prop")), OwnerKey: pkOf("o")}
	case common2.CRCProposalWithdraw:
		pl = &payload.CRCProposalWithdraw{ProposalHash: regHash(d.one("prop")), OwnerKey: pkOf("o")}
	case common2.CRCAppropriation:
		pl = &payload.CRCAppropriation{}
	case common2.CRAssetsRectify:
		pl = &payload.CRAssetsRectify{}
	case common2.CRCProposalRealWithdraw:
		p := &payload.CRCProposalRealWithdraw{}
		for _, h := range d.get("rwhash") {
			p.WithdrawTransactionHashes = append(p.WithdrawTransactionHashes, regHash(h))
		}
		pl = p
	case common2.CRCouncilMemberClaimNode:
		pl = &payload.CRCouncilMemberClaimNode{NodePublicKey: regKey(d.one("node")), CRCouncilCommitteeDID: regPH(d.one("did"))}
	case common2.NextTurnDPOSInfo:
		p := &payload.NextTurnDPOSInfo{WorkingHeight: uint32(atoi(d.one("wh"))), CRPublicKeys: [][]byte{pkOf("a")}, DPOSPublicKeys: [][]byte{pkOf("b")}}
		h := p.Hash()
		dict["h:"+hexs(h.Bytes())] = d.one("phash")
		pl = p
	case common2.RevertToDPOS:
		pl = &payload.RevertToDPOS{}
	case common2.RecordSponsor:
		pl = &payload.RecordSponsor{}
	default:
		panic("harness: tx type not supported by the builder: " + strconv.Itoa(d.ty))
	}
	tx := functions.CreateTransaction(common2.TxVersion09, ty, byte(d.pver), pl, attrs, inputs, outputs, 0, programs)
	return tx
}

// ---------------------------------------------------------------- exec

func errClass(err elaerr.ELAError) string {
	switch err.Code() {
	case elaerr.ErrTxValidation:
		return "err record-sponsor"
	case elaerr.ErrTxDuplicate:
		return "err duplicate"
	case elaerr.ErrBlockIneffectiveCoinbase:
		return "err coinbase"
	case elaerr.ErrTxSize:
		return "err sanity"
	case elaerr.ErrTxBalance:
		return "err context"
	case elaerr.ErrTxPoolOverCapacity:
		return "err over-capacity"
	case elaerr.ErrTxPoolFailure:
		msg := err.Error()
		slot := "?"
		if i := strings.Index(msg, "slot "); i >= 0 {
			rest := msg[i+5:]
			if j := strings.IndexByte(rest, ' '); j >= 0 {
				slot = rest[:j]
				rest = rest[j+1:]
			}
			switch {
			case strings.HasPrefix(rest, "verify tx error"):
				if in, ok := err.InnerError().(elaerr.ELAError); ok && in.Code() == elaerr.ErrTxPoolTxDuplicate {
					return "err conflict " + slot
				}
				return "err keyerr " + slot
			case strings.HasPrefix(rest, "append tx error"):
				return "err append-key " + slot
			}
		}
		if mempool.VerifIsExcluded(err) {
			return "err fee excluded"
		}
		if strings.Contains(msg, "illegal size") {
			return "err fee illegal-size"
		}
		return "err pool-failure " + strings.ReplaceAll(msg, " ", "_")
	}
	return "err other-" + strconv.Itoa(int(err.Code()))
}

func mapKey(raw string) string {
	if tok, ok := H.dict[raw]; ok {
		return raw[:2] + tok
	}
	return "?" + raw[:2] + hexs([]byte(raw[2:]))
}

func idOf(h common.Uint256) string {
	if id, ok := H.idOfHash[h]; ok {
		return strconv.Itoa(id)
	}
	return "?" + h.String()[:8]
}

func fmtFeeItems(items []mempool.VerifFeeItem, id func(common.Uint256) string) string {
	if len(items) == 0 {
		return "-"
	}
	ss := make([]string, len(items))
	for i, it := range items {
		ss[i] = fmt.Sprintf("%s:%d:%d", id(it.Hash), math.Float64bits(it.FeeRate), it.Size)
	}
	return strings.Join(ss, ",")
}

func joinC(ss []string) string {
	if len(ss) == 0 {
		return "-"
	}
	return strings.Join(ss, ",")
}

// publicQueries compares the pool's public read API with its internal state.
func publicQueries(s mempool.VerifSnapshot) string {
	p := H.pool
	if p.GetTransactionCount() != len(s.Txs) {
		return fmt.Sprintf("GetTransactionCount=%d,held=%d", p.GetTransactionCount(), len(s.Txs))
	}
	held := map[common.Uint256]bool{}
	for _, h := range s.Txs {
		held[h] = true
		if !p.HaveTransaction(h) || p.GetTransaction(h) == nil {
			return "HaveTransaction/GetTransaction_misses_a_held_tx"
		}
	}
	all := p.GetTxsInPool()
	if len(all) != len(s.Txs) {
		return "GetTxsInPool_length"
	}
	for _, tx := range all {
		if !held[tx.Hash()] {
			return "GetTxsInPool_lists_a_tx_that_is_not_held"
		}
	}
	used := p.GetUsedUTXOs()
	nIn := 0
	for _, sl := range s.Slots {
		if sl.Name == "TxInputsReferKeys" {
			nIn = len(sl.Keys)
			for _, k := range sl.Keys {
				if _, ok := used[k.Key[2:]]; !ok {
					return "GetUsedUTXOs_misses_an_indexed_input"
				}
			}
		}
		if sl.Name == "SidechainTxHashes" {
			for _, k := range sl.Keys {
				b, _ := common.HexStringToBytes(k.Key[2:])
				h, _ := common.Uint256FromBytes(b)
				if h == nil || !p.IsDuplicateSidechainTx(*h) {
					return "IsDuplicateSidechainTx_misses_an_indexed_hash"
				}
			}
		}
		if sl.Name == "SidechainReturnDepositTxHashes" {
			for _, k := range sl.Keys {
				b, _ := common.HexStringToBytes(k.Key[2:])
				h, _ := common.Uint256FromBytes(b)
				if h == nil || !p.IsDuplicateSidechainReturnDepositTx(*h) {
					return "IsDuplicateSidechainReturnDepositTx_misses_an_indexed_hash"
				}
			}
		}
	}
	if len(used) != nIn {
		return fmt.Sprintf("GetUsedUTXOs=%d,indexed_inputs=%d", len(used), nIn)
	}
	return ""
}

type snapView struct {
	queryBad string
	txs   []int
	fees  []mempool.VerifFeeItem
	total uint64
	max   uint64
	used  int64
	slots [][3]string // slot name, key (prefix+token), owner id
}

var lastSnap *snapView

func snapshot() string {
	s := H.pool.VerifSnapshot()
	v := &snapView{fees: s.FeeList, total: s.TotalSize, max: s.MaxSize, used: int64(s.ProposalsUsedAmount)}
	var ids []int
	unknown := []string{}
	for _, h := range s.Txs {
		if id, ok := H.idOfHash[h]; ok {
			ids = append(ids, id)
		} else {
			unknown = append(unknown, "?"+h.String()[:8])
		}
	}
	sort.Ints(ids)
	v.txs = ids
	idStrs := make([]string, 0, len(ids))
	for _, i := range ids {
		idStrs = append(idStrs, strconv.Itoa(i))
	}
	idStrs = append(idStrs, unknown...)
	var slotStrs []string
	for _, sl := range s.Slots {
		var ks [][3]string
		for _, k := range sl.Keys {
			ks = append(ks, [3]string{sl.Name, mapKey(k.Key), idOf(k.Owner)})
		}
		sort.Slice(ks, func(i, j int) bool { return ks[i][1][2:] < ks[j][1][2:] })
		for _, k := range ks {
			v.slots = append(v.slots, k)
			slotStrs = append(slotStrs, k[0]+"|"+k[1]+"|"+k[2])
		}
	}
	lastSnap = v
	v.queryBad = publicQueries(s)
	if v.queryBad != "" {
		return "public-query-disagrees:" + v.queryBad
	}
	return fmt.Sprintf("txs=%s fees=%s total=%d max=%d used=%d slots=%s", joinC(idStrs), fmtFeeItems(s.FeeList, idOf), s.TotalSize, s.MaxSize,
		int64(s.ProposalsUsedAmount), joinC(slotStrs))
}

func blockTx(id int) interfaces.Transaction {
	d, ok := H.descs[id]
	if !ok {
		panic("harness: unknown tx id " + strconv.Itoa(id))
	}
	// a block carries its own transaction objects (deserialized separately from the pool's)
	t := build(d)
	t.SetFee(common.Fixed64(d.fee))
	return t
}

func idList(s string) []int {
	var r []int
	for _, x := range csv(s) {
		r = append(r, atoi(x))
	}
	return r
}

func exec(t []string) string {
	switch t[0] {
	case "rcflow":
		return execRealChain(t)
	case "reset":
		max := uint64(20000000)
		if len(t) > 1 {
			max = uint64(atoi64(t[1]))
		}
		newHist(max)
		return "ok"
	}
	if H == nil {
		newHist(20000000)
	}
	switch t[0] {
	case "tx":
		d := parseDesc(t)
		tx := build(d)
		if got := tx.GetSize(); got != d.size {
			return fmt.Sprintf("size-mismatch real=%d op=%d", got, d.size)
		}
		if old, ok := H.real[d.id]; ok {
			delete(H.idOfHash, old.Hash())
			delete(db.txs, old.Hash())
		}
		delete(H.sigs, d.id)
		tx = build(d)
		H.descs[d.id] = d
		H.real[d.id] = tx
		delete(H.poolObj, d.id)
		H.idOfHash[tx.Hash()] = d.id
		db.txs[tx.Hash()] = tx
		return "ok"
	case "append":
		id := atoi(t[1])
		d, ok := H.descs[id]
		if !ok {
			panic("harness: unknown tx id " + t[1])
		}
		o := H.poolObj[id]
		if o == nil {
			o = &otx{Transaction: build(d), id: id, fee: common.Fixed64(d.fee)}
			H.poolObj[id] = o
		}
		o.sanityOK = t[2] == "1"
		o.ctxOK = t[3] == "1"
		o.seen = o.seen[:0]
		err := H.pool.AppendToTxPoolWithoutEvent(o)
		used := ""
		if len(o.seen) > 0 {
			used = " used=" + strconv.FormatInt(int64(o.seen[0]), 10)
		}
		if err == nil {
			return "ok" + used
		}
		c := errClass(err)
		if c == "err context" {
			c += used
		}
		return c
	case "clean":
		var txs []interfaces.Transaction
		ids := idList(t[1])
		for _, id := range ids {
			txs = append(txs, blockTx(id))
		}
		H.pool.CleanSubmittedTransactions(&types.Block{Transactions: txs})
		H.midCleanup = true
		H.required = requiredRejects(ids)
		return "ok"
	case "recheck":
		rej := map[int]bool{}
		for _, id := range idList(t[1]) {
			rej[id] = true
		}
		for id, o := range H.poolObj {
			o.ctxOK = !rej[id]
			o.sanityOK = true
		}
		H.pool.CheckAndCleanAllTransactions()
		for id := range H.required {
			if !rej[id] {
				H.broken = true
			}
		}
		H.midCleanup = false
		H.required = nil
		return "ok"
	case "remove":
		H.pool.RemoveTransaction(blockTx(atoi(t[1])))
		return "ok"
	case "snap":
		return snapshot()
	case "flnew":
		H.flMax = uint64(atoi64(t[1]))
		H.fl = mempool.VerifNewFeeList(H.flMax)
		return "ok"
	case "fladd":
		if H.fl == nil {
			panic("harness: fladd before flnew")
		}
		id := atoi(t[1])
		H.fl.Popped = H.fl.Popped[:0]
		err := H.fl.AddTx(&ftx{hash: fakeHashOfID(id), size: atoi(t[2]), fee: common.Fixed64(atoi64(t[3]))})
		res := "ok"
		if err != nil {
			switch {
			case mempool.VerifIsExcluded(err):
				res = "excluded"
			case strings.Contains(err.Error(), "illegal size"):
				res = "illegal-size"
			default:
				res = "other"
			}
		}
		var pp []string
		for _, h := range H.fl.Popped {
			pp = append(pp, flID(h))
		}
		return res + " popped=" + joinC(pp)
	case "flrm":
		if H.fl == nil {
			panic("harness: flrm before flnew")
		}
		id, size, fee := atoi(t[1]), atoi(t[2]), atoi64(t[3])
		rate := float64(common.Fixed64(fee)) / float64(size)
		if H.fl.RemoveTx(fakeHashOfID(id), uint64(size), rate) {
			return "true"
		}
		return "false"
	case "flsnap":
		return fmt.Sprintf("fees=%s total=%d", fmtFeeItems(H.fl.Items(), flID), H.fl.TotalSize())
	}
	panic("harness: unknown op " + t[0])
}

var flIDs = map[common.Uint256]int{}

func flID(h common.Uint256) string {
	if id, ok := flIDs[h]; ok {
		return strconv.Itoa(id)
	}
	for i := 0; i < 4096; i++ {
		flIDs[fakeHashOfID(i)] = i
	}
	if id, ok := flIDs[h]; ok {
		return strconv.Itoa(id)
	}
	return "?"
}

// ---------------------------------------------------------------- the property oracle

// claims lists, independently of the pool code and of the Lean model, the unique
// resources a transaction description claims: (pool slot name, key with type prefix).
func claims(d *desc) [][2]string {
	var c [][2]string
	add := func(slot, pfx, tok string) {
		if tok != "" {
			c = append(c, [2]string{slot, pfx + tok})
		}
	}
	if !d.keyerr("strArrayTxReferences") {
		for _, in := range d.get("in") {
			add("TxInputsReferKeys", "s:", in)
		}
	}
	own, node, nick, cid := d.one("own"), d.one("node"), d.one("nick"), d.one("cid")
	switch common2.TxType(d.ty) {
	case common2.RegisterProducer, common2.UpdateProducer:
		add("DPoSOwnerPublicKey", "s:", own)
		add("DPoSNodePublicKey", "s:", node)
		add("DPoSOwnerNodePublicKeys", "s:", own)
		if node != own {
			add("DPoSOwnerNodePublicKeys", "s:", node)
		}
		add("DPoSNickname", "s:", nick)
	case common2.CancelProducer:
		add("DPoSOwnerPublicKey", "s:", own)
		add("DPoSActivateCancel", "s:", d.one("cnode"))
	case common2.ActivateProducer:
		add("DPoSActivateCancel", "s:", node)
		add("DPoSNodePublicKey", "s:", node)
	case common2.RegisterCR:
		add("DPoSOwnerPublicKey", "s:", d.one("crpk"))
		add("DPoSNodePublicKey", "s:", d.one("crpk"))
		add("CrDID", "p:", cid)
		add("CrNickname", "s:", nick)
	case common2.UpdateCR:
		add("CrDID", "p:", cid)
		add("CrNickname", "s:", nick)
	case common2.UnregisterCR:
		add("CrDID", "p:", cid)
	case common2.ReturnDepositCoin, common2.ReturnCRDepositCoin:
		add("ProgramCode", "s:", d.one("code"))
	case common2.CRCouncilMemberClaimNode:
		add("DPoSNodePublicKey", "s:", node)
		add("CRCouncilMemberNodePublicKey", "s:", node)
		add("CRCouncilMemberDID", "p:", d.one("did"))
	case common2.CRCProposal:
		pt := payload.CRCProposalType(atoi(d.one("ptype")))
		add("CRCProposalDraftHash", "h:", d.one("draft"))
		add("CRCProposalDID", "p:", d.one("did"))
		switch pt {
		case payload.ChangeCustomIDFee:
			add("ChangeCustomIDFee", "s:", "Change_the_fee_of_custom_ID")
		case payload.ReserveCustomID:
			add("ReserveCustomID", "s:", "Reserve_custom_ID")
		case payload.CloseProposal:
			add("CloseProposalTargetProposalHash", "h:", d.one("target"))
		case payload.ChangeProposalOwner:
			add("ChangeProposalOwnerTargetProposalHash", "h:", d.one("target"))
		case payload.ReceiveCustomID:
			for _, x := range d.get("custom") {
				add("CRCProposalCustomID", "s:", x)
			}
		case payload.RegisterSideChain:
			add("CRCProposalRegisterSideChainName", "s:", d.one("scname"))
			add("CRCProposalRegisterSideChainMagicNumber", "s:", d.one("magic"))
			add("CRCProposalRegisterSideChainGenesisHash", "h:", d.one("genesis"))
		case payload.SecretaryGeneral:
			add("CRCSecretaryGeneral", "s:", "Secretary_General")
		}
	case common2.CRCProposalWithdraw:
		add("CRCProposalHash", "h:", d.one("prop"))
	case common2.CRCProposalTracking:
		add("CRCProposalTrackingHash", "h:", d.one("prop"))
	case common2.CRCProposalReview:
		add("CRCProposalReviewKey", "s:", d.one("did")+"+"+d.one("prop"))
	case common2.CRCAppropriation:
		add("CRCAppropriationKey", "s:", "CRC_Appropriation")
	case common2.CRCProposalRealWithdraw:
		for _, x := range d.get("rwhash") {
			add("CRCProposalRealWithdrawKey", "h:", x)
		}
	case common2.RevertToDPOS:
		add("RevertToDPOSHash", "s:", "RevertToDPOS")
	case common2.NextTurnDPOSInfo:
		add("SpecialTxHash", "h:", d.one("phash"))
	case common2.WithdrawFromSideChain:
		for _, x := range d.get("schash") {
			add("SidechainTxHashes", "h:", x)
		}
	case common2.ReturnSideChainDepositCoin:
		for _, x := range d.get("rdhash") {
			add("SidechainReturnDepositTxHashes", "h:", x)
		}
	}
	return c
}

// requiredRejects: the pool transactions that share a unique resource with a
// transaction of the connected block — the ones the cleanup-oracle assumption
// says the chain's context check rejects after the block.
func requiredRejects(block []int) map[int]bool {
	bk := map[[2]string]bool{}
	inBlock := map[int]bool{}
	for _, id := range block {
		inBlock[id] = true
		for _, c := range claims(H.descs[id]) {
			bk[c] = true
		}
	}
	req := map[int]bool{}
	s := H.pool.VerifSnapshot()
	for _, h := range s.Txs {
		id, ok := H.idOfHash[h]
		if !ok {
			continue
		}
		for _, c := range claims(H.descs[id]) {
			if bk[c] {
				req[id] = true
			}
		}
	}
	return req
}

func oracle(t []string, out string) *hx.Violation {
	if t[0] == "rcflow" {
		return rcViolation
	}
	// every snapshot is judged: since the fix bf24ffb2 the index is exact also between the two halves
	// of the cleanup and whatever the re-check decides
	if H == nil || t[0] != "snap" || lastSnap == nil {
		return nil
	}
	v := lastSnap
	bad := func(kind, detail string) *hx.Violation { return &hx.Violation{Kind: kind, Detail: detail} }
	if v.queryBad != "" {
		return bad("pool-public-query", "a public read API of the pool disagrees with what it holds: "+v.queryBad)
	}
	inPool := map[int]bool{}
	for _, id := range v.txs {
		inPool[id] = true
	}
	// (1) no two pool transactions claim the same outpoint / unique resource
	owner := map[[2]string]int{}
	for _, id := range v.txs {
		seenOwn := map[[2]string]bool{}
		for _, c := range claims(H.descs[id]) {
			if seenOwn[c] {
				continue
			}
			seenOwn[c] = true
			if o, ok := owner[c]; ok {
				return bad("pool-conflict", fmt.Sprintf("transactions %d and %d both claim %s %s", o, id, c[0], c[1]))
			}
			owner[c] = id
		}
	}
	if strings.Contains(out, "?") {
		return bad("pool-unknown-entry", "the pool indexes a hash or key that no submitted transaction claims: "+firstUnknown(out))
	}
	// (2) the per-resource index is exactly the claims of the held transactions
	idx := map[[2]string]int{}
	for _, k := range v.slots {
		idx[[2]string{k[0], k[1]}] = atoi(k[2])
	}
	if len(idx) != len(v.slots) {
		return bad("pool-index-duplicate-key", "a slot lists a key twice")
	}
	for c, id := range owner {
		if o, ok := idx[c]; !ok || o != id {
			return bad("pool-index-missing", fmt.Sprintf("tx %d claims %s %s but the index says %v/%v", id, c[0], c[1], o, ok))
		}
	}
	for c, o := range idx {
		if id, ok := owner[c]; !ok || o != id {
			return bad("pool-index-stale", fmt.Sprintf("index entry %s %s → %d not backed by a held transaction", c[0], c[1], o))
		}
	}
	// (3) fee ordering and size accounting
	seen := map[int]bool{}
	var sum uint64
	for i, it := range v.fees {
		id, ok := H.idOfHash[it.Hash]
		if !ok || !inPool[id] || seen[id] {
			return bad("pool-feelist-membership", fmt.Sprintf("fee list entry %d is not exactly one held transaction", i))
		}
		seen[id] = true
		d := H.descs[id]
		if int(it.Size) != d.size || it.FeeRate != float64(d.fee)/float64(d.size) {
			return bad("pool-feelist-item", fmt.Sprintf("fee list entry of tx %d has size/rate %d/%v, tx has %d/%v", id, it.Size, it.FeeRate, d.size, float64(d.fee)/float64(d.size)))
		}
		if i > 0 && v.fees[i-1].FeeRate < it.FeeRate {
			return bad("pool-feelist-order", fmt.Sprintf("fee list not ordered at %d", i))
		}
		sum += uint64(it.Size)
	}
	if len(seen) != len(v.txs) {
		return bad("pool-feelist-membership", "a held transaction is missing from the fee list")
	}
	if sum != v.total {
		return bad("pool-size-accounting", fmt.Sprintf("totalSize %d but held sizes sum to %d", v.total, sum))
	}
	if v.total > v.max {
		return bad("pool-over-limit", fmt.Sprintf("totalSize %d exceeds the limit %d", v.total, v.max))
	}
	// (4) pending proposal budget total
	var used int64
	for _, id := range v.txs {
		d := H.descs[id]
		if common2.TxType(d.ty) == common2.CRCProposal {
			for _, b := range d.budgets {
				used += b
			}
		}
	}
	if used != v.used {
		return bad("pool-budget-total", fmt.Sprintf("proposalsUsedAmount %d but held proposals sum to %d", v.used, used))
	}
	return nil
}

func firstUnknown(out string) string {
	i := strings.IndexByte(out, '?')
	j := i
	for j < len(out) && out[j] != ',' && out[j] != ' ' {
		j++
	}
	k := i
	for k > 0 && out[k-1] != ',' && out[k-1] != '=' {
		k--
	}
	return out[k:j]
}

func main() {
	defer cleanupEnv()
	hx.Main(&hx.Prop{Name: "C34", Gen: gen, Exec: exec, Oracle: oracle, Nontrivial: nontrivial, Bucket: bucket, Stateful: true})
}
