package main

import (
	"fmt"
	"sort"
	"strconv"
	"strings"

	"elaverif/harness/hx"

	common2 "github.com/elastos/Elastos.ELA/core/types/common"
)

func nontrivial(t []string, out string) bool {
	return t[0] == "recheck" || t[0] == "fladd" || t[0] == "rcflow"
}

func bucket(t []string, out string) string {
	f := strings.Fields(out)
	switch t[0] {
	case "append":
		if len(f) >= 2 && f[0] == "err" {
			return "append/err " + f[1]
		}
		return "append/" + f[0]
	case "fladd":
		k := "fladd/" + f[0]
		if len(f) > 1 && f[1] != "popped=-" {
			k += "+evict"
		}
		return k
	case "flrm":
		return "flrm/" + out
	case "tx":
		if len(t) > 2 {
			return "tx/type-" + t[2]
		}
	}
	return t[0]
}

type hgen struct {
	g       *hx.Gen
	r       *hx.Rand
	next    int
	prevs   []int // ids of funding transactions
	outs    []string
	defined []int // ids defined and appendable
	spendable []int // defined ids with at least one output
	types   map[int]int
}

func pick(r *hx.Rand, xs []string) string { return xs[r.Intn(len(xs))] }

var (
	keyToks  = []string{"k1", "k2", "k3", "k4"}
	nickToks = []string{"n1", "n2", "n3"}
	cidToks  = []string{"c1", "c2", "c3"}
	hashToks = []string{"h1", "h2", "h3", "h4"}
	didToks  = []string{"d1", "d2", "d3"}
	codeToks = []string{"q1", "q2"}
	genToks  = []string{"g1", "g2"}
)

// define builds the transaction to learn its real size, then emits the `tx` op.
func (h *hgen) define(d *desc) int {
	d.id = h.next
	h.next++
	if d.f == nil {
		d.f = map[string][]string{}
	}
	tx := build(d)
	d.size = tx.GetSize()
	if d.size <= 0 {
		panic("harness: builder produced a transaction that does not serialize, type " + strconv.Itoa(d.ty))
	}
	h.g.Emit("%s", d.line())
	h.types[d.id] = d.ty
	return d.id
}

func (h *hgen) inputs(d *desc, min int) {
	r := h.r
	n := min + r.Intn(2)
	if n == 0 {
		return
	}
	seen := map[string]bool{}
	var ins []string
	for i := 0; i < n; i++ {
		var o string
		if r.Chance(12) && len(h.spendable) > 0 {
			o = tokTx(h.spendable[r.Intn(len(h.spendable))]) + ":0"
		} else {
			o = pick(r, h.outs)
		}
		if !seen[o] {
			seen[o] = true
			ins = append(ins, o)
		}
	}
	if r.Chance(3) {
		ins = append(ins, "t9999:0")
		d.set("keyerr", append(append([]string(nil), d.get("keyerr")...), "strArrayTxReferences")...)
	}
	d.set("in", ins...)
}

func (h *hgen) fee(d *desc) {
	r := h.r
	switch r.Intn(5) {
	case 0:
		d.fee = 0
	case 1:
		d.fee = int64(r.Pick(100, 1000, 10000))
	case 2:
		d.fee = int64(r.Intn(5)) * 1000 // to be multiplied below into equal rates
	default:
		d.fee = int64(r.Intn(200000))
	}
}

// newTx defines a random transaction colliding with earlier ones on purpose.
func (h *hgen) newTx(forBlock bool) int {
	r := h.r
	d := &desc{f: map[string][]string{}}
	d.nout = r.Intn(3)
	h.fee(d)
	w := r.Intn(115)
	switch {
	case w < 25:
		d.ty = int(common2.TransferAsset)
		h.inputs(d, 1)
		if r.Chance(25) {
			d.nout = 1 + r.Intn(2)
			if r.Bool() {
				d.set("votep", pick(r, keyToks))
			} else {
				d.set("votecr", pick(r, cidToks))
			}
		}
	case w < 35:
		d.ty = int(common2.RegisterProducer)
		d.set("own", pick(r, keyToks))
		d.set("node", pick(r, keyToks))
		d.set("nick", pick(r, nickToks))
		h.inputs(d, 0)
	case w < 43:
		d.ty = int(common2.UpdateProducer)
		d.set("own", pick(r, keyToks))
		d.set("node", pick(r, keyToks))
		d.set("nick", pick(r, nickToks))
		h.inputs(d, 0)
	case w < 46:
		d.ty = int(common2.CancelProducer)
		d.set("own", pick(r, keyToks))
		d.set("keyerr", "strCancelKey") // no registered producer on the harness chain
		h.inputs(d, 0)
	case w < 50:
		d.ty = int(common2.ActivateProducer)
		d.set("node", pick(r, keyToks))
	case w < 56:
		d.ty = int(common2.RegisterCR)
		d.pver = r.Pick(0, 0, 2) // CHECKSIG code in the payload, or schnorr (payload version 2: code in the program)
		d.set("crpk", pick(r, keyToks))
		d.set("cid", pick(r, cidToks))
		d.set("nick", pick(r, nickToks))
		h.inputs(d, 0)
	case w < 61:
		d.ty = int(common2.UpdateCR)
		d.set("crpk", pick(r, keyToks))
		d.set("cid", pick(r, cidToks))
		d.set("nick", pick(r, nickToks))
		h.inputs(d, 0)
	case w < 64:
		d.ty = int(common2.UnregisterCR)
		d.set("cid", pick(r, cidToks))
		h.inputs(d, 0)
	case w < 68:
		d.ty = int(r.Pick(int(common2.ReturnDepositCoin), int(common2.ReturnCRDepositCoin)))
		d.set("code", pick(r, codeToks))
		h.inputs(d, 1)
	case w < 78:
		d.ty = int(common2.CRCProposal)
		pt := r.Pick(0x0000, 0x0000, 0x0100, 0x0400, 0x0401, 0x0402, 0x0410, 0x0500, 0x0501, 0x0502)
		d.set("ptype", strconv.Itoa(pt))
		d.set("draft", pick(r, hashToks))
		d.set("did", pick(r, didToks))
		switch pt {
		case 0x0401, 0x0402:
			d.set("target", pick(r, hashToks))
		case 0x0501:
			n := 1 + r.Intn(2)
			var cs []string
			for i := 0; i < n; i++ {
				cs = append(cs, pick(r, nickToks))
			}
			d.set("custom", cs...)
		case 0x0410:
			d.set("scname", pick(r, nickToks))
			d.set("magic", strconv.Itoa(r.Pick(11, 22, 33)))
			d.set("genesis", pick(r, hashToks))
		case 0x0000, 0x0100:
			nb := r.Intn(3)
			for i := 0; i < nb; i++ {
				d.budgets = append(d.budgets, int64(1+r.Intn(5))*100000000)
			}
		}
		h.inputs(d, 0)
	case w < 81:
		d.ty = int(common2.CRCProposalReview)
		d.set("did", pick(r, didToks))
		d.set("prop", pick(r, hashToks))
	case w < 84:
		d.ty = int(common2.CRCProposalTracking)
		d.set("prop", pick(r, hashToks))
	case w < 87:
		d.ty = int(common2.CRCProposalWithdraw)
		d.set("prop", pick(r, hashToks))
		h.inputs(d, 0)
	case w < 89:
		d.ty = int(common2.CRCAppropriation)
		h.inputs(d, 0)
	case w < 92:
		d.ty = int(common2.CRAssetsRectify)
		h.inputs(d, 1)
	case w < 94:
		d.ty = int(common2.CRCProposalRealWithdraw)
		d.set("rwhash", pick(r, hashToks), pick(r, hashToks))
		h.inputs(d, 0)
	case w < 96:
		d.ty = int(common2.CRCouncilMemberClaimNode)
		d.set("node", pick(r, keyToks))
		d.set("did", pick(r, didToks))
	case w < 102:
		d.ty = int(common2.WithdrawFromSideChain)
		d.pver = r.Intn(3) // V0: hashes in the payload, V1 and V2 (schnorr): in the withdraw outputs
		n := 1 + r.Intn(3)
		var hs []string
		for i := 0; i < n; i++ {
			hs = append(hs, pick(r, hashToks)) // duplicates inside one tx on purpose
		}
		d.set("schash", hs...)
		h.inputs(d, 0)
	case w < 105:
		d.ty = int(common2.ReturnSideChainDepositCoin)
		d.set("rdhash", pick(r, hashToks))
		h.inputs(d, 0)
	case w < 109:
		d.ty = int(common2.SideChainPow)
		d.nout = 0
		d.set("powgen", pick(r, genToks))
		if r.Chance(75) {
			d.set("powok", "1")
		} else {
			d.set("powok", "0")
		}
		if r.Chance(30) {
			h.inputs(d, 1)
		}
	case w < 111:
		d.ty = int(common2.NextTurnDPOSInfo)
		d.nout = 0
		wh := r.Pick(5, 6)
		d.set("wh", strconv.Itoa(wh))
		d.set("phash", "nt"+strconv.Itoa(wh))
	case w < 112:
		d.ty = int(common2.CoinBase)
	case w < 113:
		d.ty = int(common2.RecordSponsor)
	default:
		d.ty = int(common2.RevertToDPOS)
	}
	id := h.define(d)
	if d.fee > 0 && d.fee < 5000 && d.fee%1000 == 0 {
		// equal fee *rates* across different sizes are produced by a later re-definition; keep simple
	}
	return id
}

func (h *hgen) snap() { h.g.Emit("snap") }

func (h *hgen) poolIDs() []int {
	if lastSnap == nil {
		return nil
	}
	return append([]int(nil), lastSnap.txs...)
}

func idsCSV(ids []int) string {
	if len(ids) == 0 {
		return "-"
	}
	sort.Ints(ids)
	ss := make([]string, len(ids))
	for i, v := range ids {
		ss[i] = strconv.Itoa(v)
	}
	return strings.Join(ss, ",")
}

func uniq(ids []int) []int {
	m := map[int]bool{}
	var out []int
	for _, i := range ids {
		if !m[i] {
			m[i] = true
			out = append(out, i)
		}
	}
	return out
}

// block emits one post-block cleanup. violate = drop a required reject (the
// cleanup-oracle assumption fails) and show the consequence.
func (h *hgen) block(violate bool) bool {
	r := h.r
	pool := h.poolIDs()
	var blk []int
	for _, id := range pool {
		if r.Chance(35) {
			blk = append(blk, id)
		}
	}
	nf := r.Intn(3)
	for i := 0; i < nf; i++ {
		blk = append(blk, h.newTx(true))
	}
	if r.Chance(20) { // a cancel / unregister in the block: votes and updates are swept
		d := &desc{f: map[string][]string{}}
		if r.Bool() {
			d.ty = int(common2.CancelProducer)
			d.set("own", pick(r, keyToks))
			d.set("keyerr", "strCancelKey")
		} else {
			d.ty = int(common2.UnregisterCR)
			d.set("cid", pick(r, cidToks))
		}
		h.inputs(d, 0)
		blk = append(blk, h.define(d))
	}
	if r.Chance(5) {
		blk = append(blk, h.prevs[0]) // a transaction without inputs, and a coinbase-like no-op
	}
	blk = uniq(blk)
	// block order is the order of the list
	ss := make([]string, len(blk))
	for i, v := range blk {
		ss[i] = strconv.Itoa(v)
	}
	bl := "-"
	if len(ss) > 0 {
		bl = strings.Join(ss, ",")
	}
	h.g.Emit("clean %s", bl)
	h.snap()
	var req []int
	for id := range H.required {
		req = append(req, id)
	}
	sort.Ints(req)
	rej := append([]int(nil), req...)
	for _, id := range h.poolIDs() {
		if r.Chance(10) {
			rej = append(rej, id)
		}
	}
	rej = uniq(rej)
	if violate && len(req) > 0 {
		drop := req[r.Intn(len(req))]
		var keep []int
		for _, id := range rej {
			if id != drop {
				keep = append(keep, id)
			}
		}
		h.g.Emit("recheck %s", idsCSV(keep))
		h.snap()
		// a twin of the surviving transaction (same resources, no inputs) now enters the pool
		src := H.descs[drop]
		tw := &desc{ty: src.ty, pver: src.pver, fee: src.fee, nout: src.nout, budgets: src.budgets, f: map[string][]string{}}
		for _, k := range src.order {
			if k != "in" && k != "keyerr" {
				tw.set(k, src.f[k]...)
			}
		}
		id := h.define(tw)
		h.g.Emit("append %d 1 1", id)
		h.snap()
		return true
	}
	h.g.Emit("recheck %s", idsCSV(rej))
	h.snap()
	return false
}

func genHistory(g *hx.Gen, r *hx.Rand) {
	h := &hgen{g: g, r: r, next: 1, types: map[int]int{}}
	max := 20000000
	if r.Chance(30) {
		max = 500 + r.Intn(2500)
	}
	g.Emit("reset %d", max)
	np := 3 + r.Intn(3)
	for i := 0; i < np; i++ {
		d := &desc{ty: int(common2.TransferAsset), nout: 2 + r.Intn(2), f: map[string][]string{}}
		id := h.define(d)
		h.prevs = append(h.prevs, id)
		for j := 0; j < d.nout; j++ {
			h.outs = append(h.outs, fmt.Sprintf("t%d:%d", id, j))
		}
	}
	h.snap()
	steps := 20 + r.Intn(g.N(30, 60))
	violateAt := -1
	if r.Chance(10) {
		violateAt = steps / 2
	}
	for s := 0; s < steps; s++ {
		w := r.Intn(100)
		switch {
		case s >= violateAt && violateAt >= 0:
			if h.block(true) {
				return
			}
		case w < 55:
			id := h.newTx(false)
			h.defined = append(h.defined, id)
			if H.descs[id].nout > 0 {
				h.spendable = append(h.spendable, id)
			}
			sa, cx := 1, 1
			if r.Chance(5) {
				sa = 0
			}
			if r.Chance(12) {
				cx = 0
			}
			g.Emit("append %d %d %d", id, sa, cx)
			h.snap()
		case w < 65:
			if len(h.defined) > 0 {
				g.Emit("append %d 1 %d", h.defined[r.Intn(len(h.defined))], r.Pick(1, 1, 1, 0))
				h.snap()
			}
		case w < 80:
			h.block(false)
		case w < 90:
			var id int
			if r.Bool() || len(h.defined) == 0 {
				id = h.prevs[r.Intn(len(h.prevs))]
			} else {
				id = h.defined[r.Intn(len(h.defined))]
			}
			g.Emit("remove %d", id)
			h.snap()
		default:
			h.snap()
		}
	}
}

// genFL drives the stand-alone fee ordered list, including the eviction loop
// that the pool's capacity pre-check makes unreachable through appendToTxPool.
func genFL(g *hx.Gen, r *hx.Rand) {
	g.Emit("reset")
	max := 50 + r.Intn(400)
	if r.Chance(10) {
		max = r.Intn(5)
	}
	g.Emit("flnew %d", max)
	type it struct{ id, size int; fee int64 }
	var live []it
	n := 10 + r.Intn(40)
	next := 1
	for i := 0; i < n; i++ {
		switch w := r.Intn(100); {
		case w < 65:
			size := 1 + r.Intn(60)
			if r.Chance(4) {
				size = 0
			}
			if r.Chance(4) {
				size = max + 1 + r.Intn(10)
			}
			var fee int64
			switch r.Intn(4) {
			case 0:
				fee = int64(size) * int64(r.Intn(4)) // equal rates across sizes
			case 1:
				fee = int64(r.Intn(5))
			case 2:
				fee = -int64(r.Intn(50))
			default:
				fee = int64(r.Intn(3000))
			}
			out := g.Emit("fladd %d %d %d", next, size, fee)
			if strings.HasPrefix(out, "ok") {
				live = append(live, it{next, size, fee})
				if i := strings.Index(out, "popped="); i >= 0 {
					for _, p := range csv(out[i+7:]) {
						pid, _ := strconv.Atoi(p)
						for k := range live {
							if live[k].id == pid {
								live = append(live[:k], live[k+1:]...)
								break
							}
						}
					}
				}
			}
			next++
		case w < 90:
			if len(live) > 0 {
				k := r.Intn(len(live))
				x := live[k]
				fee := x.fee
				if r.Chance(15) { // wrong rate: the not-found / found-anyway paths
					fee += int64(r.Intn(2000)) - 1000
				}
				if g.Emit("flrm %d %d %d", x.id, x.size, fee) == "true" {
					live = append(live[:k], live[k+1:]...)
				}
			} else {
				g.Emit("flrm %d 5 5", 1+r.Intn(next))
			}
		default:
			g.Emit("flrm %d %d %d", 1+r.Intn(next+3), 1+r.Intn(50), int64(r.Intn(100)))
		}
		g.Emit("flsnap")
	}
}

// the real chain: every combination of held / mined / third producer transaction kinds
func genRealChain(g *hx.Gen) {
	kinds := []string{"upd", "updn", "can"}
	n := 0
	for _, held := range kinds {
		for _, blk := range append([]string{"-"}, kinds...) {
			for _, third := range append([]string{"-"}, kinds...) {
				for _, mineHeld := range []int{0, 1} {
					n++
					if g.Quick() && n%12 != int(g.Seed%12) { // a twelfth of the grid per quick run (the corpus adds the two witnesses), all of it in thorough
						continue
					}
					g.Emit("reset")
					g.Emit("rcflow %s %s %s %d", held, blk, third, mineHeld)
				}
			}
		}
	}
}

func gen(g *hx.Gen) {
	genRealChain(g)
	nh := g.N(120, 1500)
	for i := 0; i < nh; i++ {
		genHistory(g, g.R.Fork(uint64(i)))
	}
	nf := g.N(80, 800)
	for i := 0; i < nf; i++ {
		genFL(g, g.R.Fork(uint64(100000+i)))
	}
}
