// Harness for C21: the real dpos/state.State — rollback = direct build.
//
// Op language (stateful; one chain per `reset`):
//
//	reset <base> [arb|arb2]       fresh State (mainnet parameters); block heights are base+1, base+2, …; with `arb` the real
//	                         Arbiters is driven and `rb` goes through dpos CheckPoint.OnRollbackTo (the node's entry point)
//	blk <h> <sponsor|-> <tx> <tx> …   ProcessBlock of a block built from symbolic transactions
//	     tx: reg:<i>[:<stakeUntil>]  upd:<i>:<n>[:<stakeUntil>]  stake:<addr>:<amount>:<nonce>  vote1:<v>:<value>:<i>=<a>,…  rtp:<workingHeight>  rtd:<interval>:<revertHeight>  dvote:<k>:<d|v2>:<i>=<a>,…:<nonce>  cancel:<i>  act:<i>  vote:<v>:<i>,<j>…  unvote:<v>  illegal:<i>:<nonce>  inactive:<i>:<nonce>
//	special <h> illegal:<i>  ProcessSpecialTxPayload (temporary changes, outside any block)
//	rb <k>                   RollbackTo(k) on the state that processed everything, compared with a
//	                         FRESH State that processed only the blocks of height <= k
//
// Output: `h=<History.Height()> n=<len(History.Changes())>` and for rb additionally `same` or
// the verdict same / diff <leaf names>, which goes to the oracle.  The Lean driver predicts h and n from the C20 model.
package main

import (
	"crypto/elliptic"
	"crypto/sha256"
	"fmt"
	"math"
	"math/big"
	"os"
	"reflect"
	"sort"
	"strconv"
	"strings"
	"time"

	"elaverif/harness/hx"

	"github.com/elastos/Elastos.ELA/common"
	"github.com/elastos/Elastos.ELA/common/config"
	"github.com/elastos/Elastos.ELA/core/checkpoint"
	"github.com/elastos/Elastos.ELA/crypto"
	"github.com/elastos/Elastos.ELA/core/contract"
	"github.com/elastos/Elastos.ELA/core/contract/program"
	"github.com/elastos/Elastos.ELA/core/transaction"
	"github.com/elastos/Elastos.ELA/core/types"
	common2 "github.com/elastos/Elastos.ELA/core/types/common"
	"github.com/elastos/Elastos.ELA/core/types/functions"
	"github.com/elastos/Elastos.ELA/core/types/interfaces"
	"github.com/elastos/Elastos.ELA/core/types/outputpayload"
	"github.com/elastos/Elastos.ELA/core/types/payload"
	crstate "github.com/elastos/Elastos.ELA/cr/state"
	state2 "github.com/elastos/Elastos.ELA/dpos/state"
)

func init() {
	functions.GetTransactionByTxType = transaction.GetTransaction
	functions.GetTransactionByBytes = transaction.GetTransactionByBytes
	functions.CreateTransaction = transaction.CreateTransaction
	functions.GetTransactionParameters = transaction.GetTransactionparameters
	config.DefaultParams = *config.GetDefaultParams()
}

// deterministic compressed P-256 public keys
func pubKey(tag string, i int) []byte {
	h := sha256.Sum256([]byte(fmt.Sprintf("%s-%d", tag, i)))
	k := new(big.Int).SetBytes(h[:])
	k.Mod(k, elliptic.P256().Params().N)
	if k.Sign() == 0 {
		k.SetInt64(1)
	}
	x, y := elliptic.P256().ScalarBaseMult(k.Bytes())
	out := make([]byte, 33)
	out[0] = 2 + byte(y.Bit(0))
	xb := x.Bytes()
	copy(out[33-len(xb):], xb)
	return out
}

var ownerKeys, nodeKeys [][]byte

func init() {
	for i := 0; i < 12; i++ {
		ownerKeys = append(ownerKeys, pubKey("owner", i))
		nodeKeys = append(nodeKeys, pubKey("node", i))
	}
}

type blockDesc struct {
	height  uint32
	sponsor string
	txs     []string
}

type env struct {
	base    uint32
	blocks  []blockDesc
	cur     *state2.State
	arbs    []*state2.ArbiterInfo
	voteTxs map[int]interfaces.Transaction
	tip     uint32
	byHeight map[uint32]*types.Block // the chain's blocks, for Arbiters' getBlockByHeight
	arb2    bool // Arbiters mode with 2 CRC + 2 normal arbiters and CR node claiming from VoteStartHeight on
	arbMode bool              // drive dpos/state.Arbiters and roll back through CheckPoint.OnRollbackTo
	arb     *state2.Arbiters
	ckp     *state2.CheckPoint
	// heights of blocks in which an InactiveArbitrators tx named a producer that was ALREADY inactive
	emergTwice map[uint32]bool
	cancelTwice map[uint32]bool
	specialAt   map[uint32]bool
	twoMaps    bool // some producer sits in ActivityProducers AND CanceledProducers (cancel at its activation height)
	special    bool // an out-of-block special payload (temporary changes) was processed
}

var e *env

// newArbiters builds the real Arbiters (whose embedded State is then the state under test) the way
// the node does, without a chain store: the chain lookups it registers are answered from the harness.
func newArbiters(en *env) *state2.State {
	params := config.DefaultParams
	if en.arb2 {
		// a small arbiter set, and CR members may claim DPoS nodes from the start: every update of the next
		// arbiters then asks for a NextTurnDPOSInfo transaction (NeedNextTurnDPOSInfo)
		dc := params.DPoSConfiguration
		dc.CRCArbiters = []string{"03e435ccd6073813917c2d841a0815d21301ec3286bc1412bb5b099178c68a10b6",
			"038a1829b4b2bee784a99bebabbfecfec53f33dadeeeff21b460f8b4fc7c2ca771"}
		dc.NormalArbitratorsCount = 2
		params.DPoSConfiguration = dc
		cc := params.CRConfiguration
		cc.CRClaimDPOSNodeStartHeight = params.VoteStartHeight
		params.CRConfiguration = cc
	}
	ckpm := checkpoint.NewManager(&params)
	committee := crstate.NewCommittee(&params, ckpm)
	if en.arb2 {
		committee = nil // no CR committee at these heights
	}
	arb, err := state2.NewArbitrators(&params, committee, func(common.Uint168) (common.Fixed64, error) { return 0, nil },
		nil, nil, nil, nil, nil, nil, ckpm)
	if err != nil {
		panic("harness: NewArbitrators: " + err.Error())
	}
	arb.RegisterFunction(func() uint32 {
		if en.arb2 {
			return math.MaxUint32 // the chain tip is far ahead: the arbiters create / broadcast no transactions
		}
		return en.tip
	}, func() *common.Uint256 { return &common.Uint256{} },
		func(h uint32) (*types.Block, error) {
			if b, ok := en.byHeight[h]; ok && en.arb2 {
				return b, nil // (plain `arb` mode keeps answering "no block": a forced change there needs real block rewards)
			}
			return nil, fmt.Errorf("no block %d", h)
		},
		func(tx interfaces.Transaction) (map[*common2.Input]common2.Output, error) {
			res := map[*common2.Input]common2.Output{}
			for _, in := range tx.Inputs() {
				for _, vt := range en.voteTxs {
					if vt.Hash().IsEqual(in.Previous.TxID) && int(in.Previous.Index) < len(vt.Outputs()) {
						res[in] = *vt.Outputs()[in.Previous.Index]
					}
				}
			}
			return res, nil
		})
	if en.arb2 {
		arb.State = state2.NewState(&params, arb.GetArbitrators, nil, nil, func() bool { return false }, nil, nil, nil, nil, nil, nil, nil)
		arb.State.GetTxReference = arb.GetTxReference
	}
	en.arb = arb
	en.ckp = state2.NewCheckpoint(arb)
	return arb.State
}

func newState(en *env) *state2.State {
	if en.arbMode {
		return newArbiters(en)
	}
	params := config.DefaultParams
	st := state2.NewState(&params,
		func() []*state2.ArbiterInfo { return en.arbs },
		func() []*crstate.CRMember { return nil },
		func() []*crstate.CRMember { return nil },
		func() bool { return false },
		func(common.Uint168) (common.Fixed64, error) { return 0, nil },
		func(common.Uint168, bool, uint32) {},
		func(common.Uint168, crstate.MemberState, uint32, uint32) {},
		func(common.Uint168, uint32, common.Fixed64) {},
		func(common.Uint168, crstate.MemberState, uint32, common.Fixed64) {},
		func(common.Uint168, uint32) {},
		func(common.Uint168, uint32) {})
	// the chain's "previous outputs" lookup: the vote transactions this chain contains
	st.GetTxReference = func(tx interfaces.Transaction) (map[*common2.Input]common2.Output, error) {
		res := map[*common2.Input]common2.Output{}
		for _, in := range tx.Inputs() {
			for _, vt := range en.voteTxs {
				if vt.Hash().IsEqual(in.Previous.TxID) && int(in.Previous.Index) < len(vt.Outputs()) {
					res[in] = *vt.Outputs()[in.Previous.Index]
				}
			}
		}
		return res, nil
	}
	return st
}

func mkTx(txType common2.TxType, ver common2.TransactionVersion, pl interfaces.Payload, ins []*common2.Input, outs []*common2.Output) interfaces.Transaction {
	return functions.CreateTransaction(ver, txType, 0, pl, []*common2.Attribute{}, ins, outs, 0, []*program.Program{})
}

func idx(s string) int {
	v, err := strconv.Atoi(s)
	if err != nil || v < 0 || v >= len(ownerKeys) {
		panic("harness: bad producer index " + s)
	}
	return v
}

func buildTx(en *env, d string) interfaces.Transaction {
	p := strings.Split(d, ":")
	switch p[0] {
	case "reg":
		i := idx(p[1])
		su := uint32(0) // reg:<i>[:<stakeUntil>]  (StakeUntil != 0 registers a DPoS 2.0 producer)
		if len(p) > 2 {
			v, _ := strconv.Atoi(p[2])
			su = uint32(v)
		}
		return mkTx(common2.RegisterProducer, 0, &payload.ProducerInfo{OwnerKey: ownerKeys[i], NodePublicKey: nodeKeys[i], NickName: fmt.Sprintf("P%d", i), StakeUntil: su}, nil, nil)
	case "upd":
		i := idx(p[1])
		su := uint32(0) // upd:<i>:<n>[:<stakeUntil>]  (StakeUntil != 0 turns a DPoS 1.0 producer into V1V2)
		if len(p) > 3 {
			v, _ := strconv.Atoi(p[3])
			su = uint32(v)
		}
		return mkTx(common2.UpdateProducer, 0, &payload.ProducerInfo{OwnerKey: ownerKeys[i], NodePublicKey: nodeKeys[i], NickName: fmt.Sprintf("P%d-%s", i, p[2]), StakeUntil: su}, nil, nil)
	case "stake": // stake:<addr>:<amount>:<nonce>  vote1:<v>:<value>:<i>=<a>,…  rtp:<workingHeight>  rtd:<interval>:<revertHeight>  dvote:<k>:<d|v2>:<i>=<a>,…:<nonce>   ExchangeVotes locking <amount> on stake address <addr>
		a, _ := strconv.Atoi(p[1])
		amt, _ := strconv.ParseInt(p[2], 10, 64)
		n, _ := strconv.Atoi(p[3])
		var addr common.Uint168
		addr[0], addr[1] = 0x1f, byte(0x40+a)
		out := &common2.Output{Value: common.Fixed64(amt), ProgramHash: addr, Type: common2.OTStake,
			Payload: &outputpayload.ExchangeVotesOutput{Version: 0, StakeAddress: addr}}
		return functions.CreateTransaction(common2.TxVersion09, common2.ExchangeVotes, 0, nil,
			[]*common2.Attribute{{Usage: common2.Nonce, Data: []byte{byte(n), byte(n >> 8)}}}, []*common2.Input{}, []*common2.Output{out}, 0, []*program.Program{})
	case "cancel":
		return mkTx(common2.CancelProducer, 0, &payload.ProcessProducer{OwnerKey: ownerKeys[idx(p[1])]}, nil, nil)
	case "act":
		return mkTx(common2.ActivateProducer, 0, &payload.ActivateProducer{NodePublicKey: nodeKeys[idx(p[1])]}, nil, nil)
	case "vote":
		v, _ := strconv.Atoi(p[1])
		var cv []outputpayload.CandidateVotes
		for _, c := range strings.Split(p[2], ",") {
			cv = append(cv, outputpayload.CandidateVotes{Candidate: ownerKeys[idx(c)], Votes: 0})
		}
		out := &common2.Output{Value: common.Fixed64(100 + v), Type: common2.OTVote,
			Payload: &outputpayload.VoteOutput{Version: 0, Contents: []outputpayload.VoteContent{{VoteType: outputpayload.Delegate, CandidateVotes: cv}}}}
		tx := mkTx(common2.TransferAsset, common2.TxVersion09, &payload.TransferAsset{}, []*common2.Input{}, []*common2.Output{out})
		en.voteTxs[v] = tx
		return tx
	case "vote1": // vote1:<v>:<value>:<i>=<a>,<j>=<b>…  vote output with payload version 0x01: per-candidate amounts
		v, _ := strconv.Atoi(p[1])
		val, _ := strconv.Atoi(p[2])
		var cv []outputpayload.CandidateVotes
		for _, c := range strings.Split(p[3], ",") {
			kv := strings.Split(c, "=")
			a, _ := strconv.Atoi(kv[1])
			cv = append(cv, outputpayload.CandidateVotes{Candidate: ownerKeys[idx(kv[0])], Votes: common.Fixed64(a)})
		}
		out := &common2.Output{Value: common.Fixed64(val), Type: common2.OTVote,
			Payload: &outputpayload.VoteOutput{Version: outputpayload.VoteProducerAndCRVersion, Contents: []outputpayload.VoteContent{{VoteType: outputpayload.Delegate, CandidateVotes: cv}}}}
		tx := functions.CreateTransaction(common2.TxVersion09, common2.TransferAsset, 0, &payload.TransferAsset{},
			[]*common2.Attribute{{Usage: common2.Nonce, Data: []byte{byte(v), byte(v >> 8), 1}}}, []*common2.Input{}, []*common2.Output{out}, 0, []*program.Program{})
		en.voteTxs[v] = tx
		return tx
	case "dvote": // dvote:<k>:<d|v2>:<i>=<a>,…:<nonce>  Voting tx (payload VoteVersion) from stake address k: Delegate or DposV2 votes
		k := idx(p[1])
		pk, err := crypto.DecodePoint(ownerKeys[k])
		if err != nil {
			panic("harness: bad key")
		}
		code, _ := contract.CreateStandardRedeemScript(pk)
		vt := outputpayload.Delegate
		if p[2] == "v2" {
			vt = outputpayload.DposV2
		}
		lock := uint32(2000000) // dvote:…:<nonce>[:<lockTime>]
		if len(p) > 5 {
			l, _ := strconv.Atoi(p[5])
			lock = uint32(l)
		}
		var vi []payload.VotesWithLockTime
		for _, c := range strings.Split(p[3], ",") {
			kv := strings.Split(c, "=")
			a, _ := strconv.ParseInt(kv[1], 10, 64)
			vi = append(vi, payload.VotesWithLockTime{Candidate: ownerKeys[idx(kv[0])], Votes: common.Fixed64(a), LockTime: lock})
		}
		n, _ := strconv.Atoi(p[4])
		return functions.CreateTransaction(common2.TxVersion09, common2.Voting, payload.VoteVersion,
			&payload.Voting{Contents: []payload.VotesContent{{VoteType: vt, VotesInfo: vi}}},
			[]*common2.Attribute{{Usage: common2.Nonce, Data: []byte{byte(n), byte(n >> 8), 2}}}, []*common2.Input{}, []*common2.Output{}, 0,
			[]*program.Program{{Code: code}})
	case "nextturn": // the NextTurnDPOSInfo transaction a block has to carry after the next arbiters were updated
		return functions.CreateTransaction(common2.TxVersion09, common2.NextTurnDPOSInfo, 0,
			&payload.NextTurnDPOSInfo{WorkingHeight: 0, CRPublicKeys: [][]byte{}, DPOSPublicKeys: [][]byte{}},
			[]*common2.Attribute{}, []*common2.Input{}, []*common2.Output{}, 0, []*program.Program{})
	case "illegalx": // illegalx:<n>  illegal-block evidence against a key that is no producer: only forces an arbiter change
		n, _ := strconv.Atoi(p[1])
		stranger := make([]byte, 33)
		stranger[0], stranger[32] = 0x02, 0x99
		return mkTx(common2.IllegalBlockEvidence, common2.TxVersion09, &payload.DPOSIllegalBlocks{BlockHeight: uint32(n),
			Evidence:        payload.BlockEvidence{Header: []byte{byte(n), 7}, Signers: [][]byte{stranger}},
			CompareEvidence: payload.BlockEvidence{Header: []byte{byte(n), 8}, Signers: [][]byte{stranger}}}, nil, nil)
	case "rtp": // rtp:<workingHeight>   RevertToPOW
		wh, _ := strconv.Atoi(p[1])
		return functions.CreateTransaction(common2.TxVersion09, common2.RevertToPOW, payload.RevertToPOWVersion,
			&payload.RevertToPOW{Type: payload.NoBlock, WorkingHeight: uint32(wh)}, []*common2.Attribute{}, []*common2.Input{}, []*common2.Output{}, 0, []*program.Program{})
	case "rtd": // rtd:<interval>:<revertToPOWHeight>   RevertToDPOS
		iv, _ := strconv.Atoi(p[1])
		rh, _ := strconv.Atoi(p[2])
		return functions.CreateTransaction(common2.TxVersion09, common2.RevertToDPOS, payload.RevertToDPOSVersion,
			&payload.RevertToDPOS{WorkHeightInterval: uint32(iv), RevertToPOWBlockHeight: uint32(rh)}, []*common2.Attribute{}, []*common2.Input{}, []*common2.Output{}, 0, []*program.Program{})
	case "unvote":
		v, _ := strconv.Atoi(p[1])
		prev, ok := en.voteTxs[v]
		if !ok {
			return nil // the vote was in a block that has been rolled back: nothing to cancel
		}
		in := &common2.Input{Previous: *common2.NewOutPoint(prev.Hash(), 0)}
		return mkTx(common2.TransferAsset, common2.TxVersion09, &payload.TransferAsset{}, []*common2.Input{in}, []*common2.Output{})
	case "illegal":
		k := nodeKeys[idx(p[1])]
		n, _ := strconv.Atoi(p[2]) // makes the evidence (and so the special-tx hash) unique, as on a real chain
		return mkTx(common2.IllegalBlockEvidence, common2.TxVersion09, &payload.DPOSIllegalBlocks{BlockHeight: uint32(n),
			Evidence:        payload.BlockEvidence{Header: []byte{byte(n), byte(n >> 8), 1}, Signers: [][]byte{k}},
			CompareEvidence: payload.BlockEvidence{Header: []byte{byte(n), byte(n >> 8), 2}, Signers: [][]byte{k}}}, nil, nil)
	case "inactive":
		n, _ := strconv.Atoi(p[2])
		return mkTx(common2.InactiveArbitrators, 0, &payload.InactiveArbitrators{Sponsor: nodeKeys[0], BlockHeight: uint32(n), Arbitrators: [][]byte{nodeKeys[idx(p[1])]}}, nil, nil)
	}
	panic("harness: unknown tx " + d)
}

func process(en *env, st *state2.State, b blockDesc) {
	var txs []interfaces.Transaction
	for _, d := range b.txs {
		if strings.HasPrefix(d, "special=") {
			continue
		}
		if tx := buildTx(en, d); tx != nil {
			txs = append(txs, tx)
		}
	}
	var sponsor []byte
	if b.sponsor != "-" {
		sponsor = nodeKeys[idx(b.sponsor)]
	}
	blk := &types.Block{Header: common2.Header{Height: b.height, Timestamp: 1600000000 + b.height*120}, Transactions: txs}
	en.tip = b.height
	if en.byHeight == nil {
		en.byHeight = map[uint32]*types.Block{}
	}
	en.byHeight[b.height] = blk
	if en.arbMode {
		var confirm *payload.Confirm
		if sponsor != nil {
			confirm = &payload.Confirm{Proposal: payload.DPOSProposal{Sponsor: sponsor}}
		}
		en.arb.ProcessBlock(blk, confirm)
		return
	}
	st.ProcessBlock(blk, sponsor, 0)
}

// ---------------------------------------------------------------- canonical dump (reflect, maps sorted)

func canon(v reflect.Value, depth int) string {
	if depth > 12 {
		return "…"
	}
	switch v.Kind() {
	case reflect.Ptr, reflect.Interface:
		if v.IsNil() {
			return "nil"
		}
		return canon(v.Elem(), depth+1)
	case reflect.Struct:
		var b []string
		for i := 0; i < v.NumField(); i++ {
			b = append(b, v.Type().Field(i).Name+"="+canon(v.Field(i), depth+1))
		}
		return "{" + strings.Join(b, " ") + "}"
	case reflect.Map:
		var ents []string
		it := v.MapRange()
		for it.Next() {
			ents = append(ents, canon(it.Key(), depth+1)+":"+canon(it.Value(), depth+1))
		}
		sort.Strings(ents)
		return "map[" + strings.Join(ents, " ") + "]"
	case reflect.Slice, reflect.Array:
		if v.Type().Elem().Kind() == reflect.Uint8 {
			var sb strings.Builder
			for i := 0; i < v.Len(); i++ {
				fmt.Fprintf(&sb, "%02x", v.Index(i).Uint())
			}
			return "x" + sb.String()
		}
		var b []string
		for i := 0; i < v.Len(); i++ {
			b = append(b, canon(v.Index(i), depth+1))
		}
		return "[" + strings.Join(b, " ") + "]"
	case reflect.String:
		return strconv.Quote(v.String())
	case reflect.Bool:
		return strconv.FormatBool(v.Bool())
	case reflect.Int, reflect.Int8, reflect.Int16, reflect.Int32, reflect.Int64:
		return strconv.FormatInt(v.Int(), 10)
	case reflect.Uint, reflect.Uint8, reflect.Uint16, reflect.Uint32, reflect.Uint64, reflect.Uintptr:
		return strconv.FormatUint(v.Uint(), 10)
	case reflect.Float32, reflect.Float64:
		return strconv.FormatUint(uint64(v.Float()*1e8), 10)
	}
	return "-"
}

// flat writes every leaf of v as path -> value (map keys canonicalised, so order-free).
func flat(v reflect.Value, path string, out map[string]string, depth int) {
	if depth > 14 {
		out[path] = "…"
		return
	}
	switch v.Kind() {
	case reflect.Ptr, reflect.Interface:
		if v.IsNil() {
			out[path] = "nil"
			return
		}
		flat(v.Elem(), path, out, depth+1)
	case reflect.Struct:
		if v.NumField() == 0 {
			out[path] = "{}"
		}
		for i := 0; i < v.NumField(); i++ {
			flat(v.Field(i), path+"."+v.Type().Field(i).Name, out, depth+1)
		}
	case reflect.Map:
		out[path+".len"] = strconv.Itoa(v.Len())
		it := v.MapRange()
		for it.Next() {
			kp := path + "[" + canon(it.Key(), 0) + "]"
			out[kp+"#"] = "present" // entry marker: a missing entry is reported once, not per leaf
			flat(it.Value(), kp, out, depth+1)
		}
	case reflect.Slice, reflect.Array:
		if v.Type().Elem().Kind() == reflect.Uint8 {
			out[path] = canon(v, 0)
			return
		}
		out[path+".len"] = strconv.Itoa(v.Len())
		for i := 0; i < v.Len(); i++ {
			flat(v.Index(i), path+"["+strconv.Itoa(i)+"]", out, depth+1)
		}
	default:
		out[path] = canon(v, 0)
	}
}

// fieldDump returns every leaf of the state's key frame.  The producer maps are dumped as key sets
// (membership) and every producer once, under `.Producers[owner]`, whichever map(s) it sits in — so a
// producer that is in another map after the rollback shows as a membership difference plus the fields
// that really differ, not as a wholesale path difference.
func fieldDump(st *state2.State) map[string]string {
	res := map[string]string{}
	v := reflect.ValueOf(st.StateKeyFrame).Elem()
	isProd := map[string]bool{}
	for _, pm := range producerMaps {
		isProd[strings.TrimSuffix(strings.TrimPrefix(pm, "."), "[]")] = true
	}
	prods := map[string]reflect.Value{}
	for i := 0; i < v.NumField(); i++ {
		name := v.Type().Field(i).Name
		if isProd[name] && v.Field(i).Kind() == reflect.Map {
			it := v.Field(i).MapRange()
			for it.Next() {
				k := canon(it.Key(), 0)
				res["."+name+"["+k+"]#"] = "present"
				if _, ok := prods[k]; !ok {
					prods[k] = it.Value()
				}
			}
			continue
		}
		flat(v.Field(i), "."+name, res, 0)
	}
	for k, pv := range prods {
		res[".Producers["+k+"]#"] = "present"
		flat(pv, ".Producers["+k+"]", res, 0)
	}
	return res
}

// arbDump adds the Arbiters' own snapshot fields (everything except the embedded State, locks,
// histories, callbacks and the checkpoint manager), prefixed with `Arbiters`.
func arbDump(a *state2.Arbiters, res map[string]string) {
	v := reflect.ValueOf(a).Elem()
	for i := 0; i < v.NumField(); i++ {
		f := v.Type().Field(i)
		switch f.Name {
		case "State", "mtx", "History", "degradation", "CkpManager", "ChainParams", "CRCommittee", "BlockConfirmProposalSponsors",
			"Snapshots", "SnapshotKeysDesc": // per-height snapshot cache kept for queries, not rolled back by design
			continue
		}
		if k := v.Field(i).Kind(); k == reflect.Func || k == reflect.Chan {
			continue
		}
		flat(v.Field(i), ".Arbiters."+f.Name, res, 0)
	}
}

var producerMaps = []string{".ActivityProducers[]", ".PendingProducers[]", ".CanceledProducers[]", ".InactiveProducers[]",
	".IllegalProducers[]", ".PendingCanceledProducers[]", ".DposV2EffectedProducers[]", ".Producers[]"}

// leafName strips map keys / indices: `.ActivityProducers[k].penalty` -> `Producer.penalty`
func leafName(path string) string {
	path = strings.TrimSuffix(path, "#")
	var b strings.Builder
	depth := 0
	for _, c := range path {
		switch {
		case c == '[':
			depth++
			if depth == 1 {
				b.WriteString("[]")
			}
		case c == ']':
			depth--
		case depth == 0:
			b.WriteRune(c)
		}
	}
	n := b.String()
	if strings.HasSuffix(n, ".len") {
		n = n[:len(n)-4] + "[]" // a missing / extra element also changes the length
	}
	for _, pm := range producerMaps {
		if strings.HasPrefix(n, pm+".") {
			return "Producer" + n[len(pm):]
		}
	}
	return strings.TrimPrefix(n, ".")
}

// status: best height of the state's History and the number of distinct heights it stores
func status(st *state2.State) string {
	seen := map[uint32]bool{}
	for _, en := range st.History.VerifView().Entries {
		seen[en[0]] = true
	}
	return fmt.Sprintf("h=%d n=%d", st.History.Height(), len(seen))
}

func exec(t []string) string {
	if e != nil && e.arbMode && t[0] != "reset" {
		// Arbiters keeps a mutex across calls; a panic inside it would block the next call for ever
		done := make(chan string, 1)
		var pan interface{}
		go func() {
			defer func() {
				if r := recover(); r != nil {
					pan = r
					done <- "panic"
				}
			}()
			done <- exec1(t)
		}()
		select {
		case out := <-done:
			if pan != nil {
				panic(pan)
			}
			return out
		case <-time.After(60 * time.Second):
			fmt.Fprintln(os.Stderr, "HARNESS BUG: harness: Arbiters call blocked on op", strings.Join(t, " "))
			os.Exit(3)
		}
	}
	return exec1(t)
}

func exec1(t []string) string {
	switch t[0] {
	case "reset":
		base := uint32(0)
		if len(t) > 1 {
			v, _ := strconv.Atoi(t[1])
			base = uint32(v)
		}
		e = &env{base: base, voteTxs: map[int]interfaces.Transaction{}, arbMode: len(t) > 2 && (t[2] == "arb" || t[2] == "arb2"), arb2: len(t) > 2 && t[2] == "arb2"}
		for i := 0; i < 5; i++ {
			e.arbs = append(e.arbs, &state2.ArbiterInfo{NodePublicKey: nodeKeys[i], IsNormal: true})
		}
		e.cur = newState(e)
		return status(e.cur)
	case "blk":
		h, _ := strconv.Atoi(t[1])
		b := blockDesc{height: uint32(h), sponsor: t[2], txs: t[3:]}
		for _, d := range b.txs {
			if p := strings.Split(d, ":"); p[0] == "cancel" || p[0] == "upd" {
				// a CancelProducer for a producer that was cancelled before (cancelHeight != 0) but is not in
				// state Canceled any more (cancel at the activation height / of a pending producer)
				if pr := e.cur.GetProducer(ownerKeys[idx(p[1])]); pr != nil && pr.CancelHeight() != 0 {
					if e.cancelTwice == nil {
						e.cancelTwice = map[uint32]bool{}
					}
					e.cancelTwice[uint32(h)] = true
				}
			}
			if p := strings.Split(d, ":"); p[0] == "inactive" {
				if pr := e.cur.GetProducer(ownerKeys[idx(p[1])]); pr != nil && pr.State() == state2.Inactive {
					if e.emergTwice == nil {
						e.emergTwice = map[uint32]bool{}
					}
					e.emergTwice[uint32(h)] = true
				}
			}
		}
		process(e, e.cur, b)
		if os.Getenv("C21_DBG2") != "" {
			fmt.Fprintln(os.Stderr, "DBG2", h, "NeedNextTurnDPOSInfo", e.cur.NeedNextTurnDPOSInfo, "active", len(e.cur.ActivityProducers), "pending", len(e.cur.PendingProducers))
		}
		if os.Getenv("C21_DBG") != "" {
			if pr := e.cur.GetProducer(ownerKeys[4]); pr != nil {
				fmt.Fprintln(os.Stderr, "DBG", h, "p4 state", pr.State())
			} else {
				fmt.Fprintln(os.Stderr, "DBG", h, "p4 nil")
			}
		}
		e.blocks = append(e.blocks, b)
		for k := range e.cur.ActivityProducers {
			if _, both := e.cur.CanceledProducers[k]; both {
				e.twoMaps = true
			}
		}
		return status(e.cur)
	case "special":
		h, _ := strconv.Atoi(t[1])
		tx := buildTx(e, t[2])
		e.special = true
		if e.specialAt == nil {
			e.specialAt = map[uint32]bool{}
		}
		e.specialAt[uint32(h)] = true // the block at this height is appended while the temporary changes are applied
		e.cur.ProcessSpecialTxPayload(tx.Payload(), uint32(h))
		return "ok"
	case "rb":
		k64, _ := strconv.Atoi(t[1])
		k := uint32(k64)
		lastTwoMaps, lastSpecial = false, e.special
		for hh := range e.specialAt {
			if hh > k {
				lastSpecial = true // survives a re-synchronisation: the polluted block is still above k
				delete(e.specialAt, hh)
			}
		}
		for hh := range e.cancelTwice {
			if hh > k {
				lastTwoMaps = true
				delete(e.cancelTwice, hh)
			}
		}
		lastEmergTwice = false
		for hh := range e.emergTwice {
			if hh > k {
				lastEmergTwice = true
				delete(e.emergTwice, hh)
			}
		}
		var rerr error
		if e.arbMode {
			rerr = e.ckp.OnRollbackTo(k) // the node's entry point (= Arbiters.RollbackTo(k) for k >= StartHeight)
		} else {
			rerr = e.cur.RollbackTo(k)
		}
		if err := rerr; err != nil {
			return status(e.cur) + " err"
		}
		// one vote-transaction table per chain (looked up by hash), shared by every instance
		fresh := &env{base: e.base, voteTxs: e.voteTxs, arbs: e.arbs, arbMode: e.arbMode, arb2: e.arb2}
		fresh.cur = newState(fresh)
		var keep []blockDesc
		for _, b := range e.blocks {
			if b.height <= k {
				process(fresh, fresh.cur, b)
				keep = append(keep, b)
			}
		}
		e.blocks = keep
		a, b := fieldDump(e.cur), fieldDump(fresh.cur)
		if e.arbMode {
			arbDump(e.arb, a)
			arbDump(fresh.arb, b)
		}
		leafs := map[string]bool{}
		lastDiff = map[string][2]string{}
		// map entries present on one side only: report the entry once as `M[+]` (only in the rolled-back
		// state; `M[+0]` when every leaf of the extra entry is zero) or `M[-]` (missing in it)
		var missing []string
		zeroEntry := func(m map[string]string, prefix string) bool {
			numeric := false
			for pth, v := range m {
				if strings.HasPrefix(pth, prefix) && !strings.HasSuffix(pth, "#") {
					if v == "0" { // a zero amount / counter, or an empty container (`.len` = 0)
						numeric = true
					} else if strings.HasSuffix(pth, ".len") || (v != "{}" && v != "false" && v != "nil") {
						return false
					}
				}
			}
			return numeric // an entry whose every field is zero / empty
		}
		noteEntry := func(pth, tag, va, vb string) {
			n := leafName(pth)
			n = n[:len(n)-1] + tag + "]"
			leafs[n] = true
			if _, seen := lastDiff[n]; !seen {
				lastDiff[n] = [2]string{va, vb}
			}
		}
		for pth := range a {
			if strings.HasSuffix(pth, "#") {
				if _, ok := b[pth]; !ok {
					missing = append(missing, pth[:len(pth)-1])
					tag := "+"
					if zeroEntry(a, pth[:len(pth)-1]) {
						tag = "+0"
					}
					noteEntry(pth, tag, pth[:len(pth)-1]+" present", "absent")
				}
			}
		}
		for pth := range b {
			if strings.HasSuffix(pth, "#") {
				if _, ok := a[pth]; !ok {
					missing = append(missing, pth[:len(pth)-1])
					noteEntry(pth, "-", pth[:len(pth)-1]+" absent", "present")
				}
			}
		}
		under := func(pth string) bool {
			if strings.HasSuffix(pth, ".len") {
				return true // implied by the entry markers
			}
			for _, m := range missing {
				if strings.HasPrefix(pth, m) {
					return true
				}
			}
			return false
		}
		for pth := range a {
			if under(pth) {
				delete(a, pth)
			}
		}
		for pth := range b {
			if under(pth) {
				delete(b, pth)
			}
		}
		for pth, va := range a {
			if vb, ok := b[pth]; !ok || vb != va {
				n := leafName(pth)
				leafs[n] = true
				if _, seen := lastDiff[n]; !seen {
					lastDiff[n] = [2]string{pth + "=" + va, b[pth]}
				}
			}
		}
		for pth, vb := range b {
			if _, ok := a[pth]; !ok {
				n := leafName(pth)
				leafs[n] = true
				if _, seen := lastDiff[n]; !seen {
					lastDiff[n] = [2]string{pth + " absent", vb}
				}
			}
		}
		var diff []string
		for n := range leafs {
			diff = append(diff, n)
		}
		sort.Strings(diff)
		// the verdict goes to the oracle (the property judgement); the compared output line is the
		// History bookkeeping, which the Lean model predicts
		lastVerdict = "same"
		if len(diff) > 0 {
			lastVerdict = "diff " + strings.Join(diff, ",")
			// continue from the direct build: later comparisons are independent experiments
			// (not when nothing is left: a fresh instance has History height 0, not k)
			if len(keep) == 0 {
				return status(e.cur)
			}
			e.cur, e.arb, e.ckp = fresh.cur, fresh.arb, fresh.ckp
			e.twoMaps, e.special = false, false
			for k := range e.cur.ActivityProducers {
				if _, both := e.cur.CanceledProducers[k]; both {
					e.twoMaps = true
				}
			}
		}
		return status(e.cur)
	}
	panic("harness: unknown op " + t[0])
}

var lastDiff map[string][2]string
var lastVerdict string
var lastEmergTwice, lastTwoMaps, lastSpecial bool
var reportedN = map[string]int{}

// leaf names of the differences recorded in known-findings.jsonl (only used to order the report)
var recordedLeaf = map[string]bool{"LastIrreversibleHeight": true, "PreBlockArbiters[+]": true, "PreBlockArbiters[-]": true, "DposV2VoteRights[+0]": true, "UsedDposV2Votes[+0]": true, "UsedDposVotes[+0]": true, "Producer.detailedDPoSV2Votes[+0]": true,
	"Producer.inactiveCountingHeight": true, "Producer.inactiveCount": true, "Producer.activateRequestHeight": true}

// the three membership leaves are a recorded finding only when the rolled-back range contains an
// emergency-inactive transaction on a producer that was already inactive
var emergLeaf = map[string]bool{"ActivityProducers[+]": true, "InactiveProducers[-]": true, "EmergencyInactiveArbiters[-]": true,
	"Producer.inactiveSince": true, "Producer.state": true, "Producer.penalty": true, // the constants revertSettingInactiveProducer writes
}

// a CancelProducer in the block in which the pending producer is activated leaves it Active AND in
// CanceledProducers with its nickname released; later constant undos (cancelHeight = 0, nickname re-added) show it
var twoMapsLeaf = map[string]bool{"CanceledProducers[-]": true, "Nicknames[+]": true, "Producer.cancelHeight": true}

// the first Append of the block after ProcessSpecialTxPayload reads the state while the temporary changes are
// still applied (C20 note): the block takes another branch than on a node that never saw the payload
var specialLeaf = map[string]bool{"ActivityProducers[+]": true, "IllegalProducers[-]": true, "ActivityProducers[-]": true, "IllegalProducers[+]": true,
	"InactiveProducers[+]": true, "InactiveProducers[-]": true, "EmergencyInactiveArbiters[+]": true, "EmergencyInactiveArbiters[-]": true,
	"Producer.inactiveSince": true, "Producer.state": true, "Producer.penalty": true, "Producer.illegalHeight": true,
	"Producer.lastUpdateInactiveHeight": true, "CanceledProducers[+]": true, "CanceledProducers[-]": true}

func recorded(n string) bool {
	return recordedLeaf[n] || (lastEmergTwice && emergLeaf[n]) || (lastTwoMaps && twoMapsLeaf[n]) || (lastSpecial && specialLeaf[n])
}

// ---------------------------------------------------------------- oracle: the property itself

func oracle(t []string, out string) *hx.Violation {
	if t[0] != "rb" {
		return nil
	}
	f := strings.Fields(out + " " + lastVerdict)
	if len(f) >= 4 && f[2] == "diff" {
		fields := strings.Split(f[3], ",")
		// report a leaf that is not one of the recorded findings first, so that a new
		// difference is never hidden behind a known one
		first := ""
		for _, n := range fields {
			if !recorded(n) {
				first = n
				break
			}
		}
		if first == "" {
			// every differing leaf is a recorded finding: report each kind a few times per run only,
			// so that the (capped) violation log keeps room for anything new
			for _, n := range fields {
				if reportedN[n] < 3 {
					first = n
					break
				}
			}
			if first == "" {
				return nil
			}
			reportedN[first]++
		}
		det := ""
		for _, n := range fields {
			d := lastDiff[n]
			det += fmt.Sprintf("%s: rolled-back %s, direct build %s; ", n, d[0], d[1])
		}
		if len(det) > 1500 {
			det = det[:1500] + "…"
		}
		det = fmt.Sprintf("emergency-inactive-on-inactive=%v second-cancel=%v special-payload-seen=%v; ", lastEmergTwice, lastTwoMaps, lastSpecial) + det
		if lastEmergTwice && emergLeaf[first] {
			first = "emergency-inactive-twice"
		} else if lastTwoMaps && twoMapsLeaf[first] {
			first = "second-cancel"
		} else if lastSpecial && specialLeaf[first] {
			first = "special-payload-pollution"
		}
		return &hx.Violation{Kind: "rollback-differs:" + first, Detail: "State after RollbackTo(" + t[1] + ") differs from a fresh State that processed only heights <= " + t[1] + ": " + det}
	}
	if out == "panic" {
		return &hx.Violation{Kind: "rollback-panic", Detail: hx.LastPanic()}
	}
	return nil
}

// ---------------------------------------------------------------- generator

func gen(g *hx.Gen) {
	r := g.R
	bases := []uint32{0, 0, 1000, 343400, 402680, 1405000, 1800000}
	for it := 0; it < g.N(250, 6000); it++ {
		base := bases[r.Intn(len(bases))]
		if it%4 == 3 {
			// the node's objects: Arbiters + CheckPoint.OnRollbackTo (needs heights >= its StartHeight 290000)
			base = []uint32{289999, 343400}[r.Intn(2)] // later eras need real block rewards for the turn change
			g.Emit("reset %d arb", base)
		} else {
			g.Emit("reset %d", base)
		}
		h := base
		registered := map[int]bool{}
		votes := 0
		stakeUntil := base + 100000
		lastRTP := base
		nonceN := 0
		nonce := func() int { nonceN++; return nonceN }
		liveVotes := []int{}
		var heights []uint32
		nblk := 4 + r.Intn(22)
		for b := 0; b < nblk; b++ {
			h++
			var txs []string
			ntx := r.Intn(4)
			if b < 6 {
				ntx = 1 + r.Intn(2)
			}
			usedInBlock := map[int]bool{}
			st := e.cur
			stateOf := func(i int) int { // -1 unknown
				p := st.GetProducer(ownerKeys[i])
				if p == nil {
					return -1
				}
				return int(p.State())
			}
			alive := func(i int) bool {
				s := stateOf(i)
				return s == int(state2.Pending) || s == int(state2.Active) || s == int(state2.Inactive)
			}
			for k := 0; k < ntx; k++ {
				i := r.Intn(9)
				switch c := r.Intn(12); {
				case c < 4 || len(registered) < 3:
					for j := 0; j < 9 && (stateOf(i) != -1 || usedInBlock[i]); j++ {
						i = (i + 1) % 10
					}
					if stateOf(i) == -1 && st.GetProducer(nodeKeys[i]) == nil && !usedInBlock[i] {
						if r.Chance(30) {
							stakeUntil += uint32(1 + r.Intn(1000))
							txs = append(txs, fmt.Sprintf("reg:%d:%d", i, stakeUntil)) // a DPoS 2.0 producer
						} else {
							txs = append(txs, fmt.Sprintf("reg:%d", i))
						}
						registered[i] = true
						usedInBlock[i] = true
					}
				case c < 5:
					if alive(i) && !usedInBlock[i] {
						if r.Chance(50) {
							stakeUntil += uint32(1 + r.Intn(1000)) // StakeUntil only ever grows (context check)
							txs = append(txs, fmt.Sprintf("upd:%d:%d:%d", i, r.Intn(100), stakeUntil))
						} else {
							txs = append(txs, fmt.Sprintf("upd:%d:%d", i, r.Intn(100)))
						}
						usedInBlock[i] = true
					}
				case c < 6:
					if alive(i) && !usedInBlock[i] {
						txs = append(txs, fmt.Sprintf("cancel:%d", i))
						usedInBlock[i] = true
					}
				case c < 8:
					var cs []string
					for j := 0; j < 10; j++ {
						sj := stateOf(j)
						if (sj == int(state2.Pending) || sj == int(state2.Active)) && !usedInBlock[j] && r.Chance(60) {
							cs = append(cs, strconv.Itoa(j))
						}
					}
					if len(cs) > 0 {
						txs = append(txs, fmt.Sprintf("vote:%d:%s", votes, strings.Join(cs, ",")))
						liveVotes = append(liveVotes, votes)
						votes++
					}
				case c < 9:
					var ok []int
					for _, v := range liveVotes {
						if _, has := e.voteTxs[v]; has {
							ok = append(ok, v)
						}
					}
					liveVotes = ok
					if len(liveVotes) > 0 {
						j := r.Intn(len(liveVotes))
						txs = append(txs, fmt.Sprintf("unvote:%d", liveVotes[j]))
						liveVotes = append(liveVotes[:j], liveVotes[j+1:]...)
					}
				case c < 10:
					if stateOf(i) != -1 && !usedInBlock[i] {
						txs = append(txs, fmt.Sprintf("illegal:%d:%d", i, nonce()))
						usedInBlock[i] = true
					}
				case c < 11:
					if stateOf(i) != -1 && !usedInBlock[i] {
						txs = append(txs, fmt.Sprintf("act:%d", i))
						usedInBlock[i] = true
					}
				default:
					if stateOf(i) != -1 && !usedInBlock[i] {
						txs = append(txs, fmt.Sprintf("inactive:%d:%d", i, nonce()))
						usedInBlock[i] = true
					}
				}
			}
			if r.Chance(12) { // per-candidate votes (payload version 0x01): amounts differ from the output value
				var cs []string
				sum := 0
				for j := 0; j < 10; j++ {
					sj := stateOf(j)
					if (sj == int(state2.Pending) || sj == int(state2.Active)) && !usedInBlock[j] && r.Chance(50) {
						a := 10 + r.Intn(90)
						sum += a
						cs = append(cs, fmt.Sprintf("%d=%d", j, a))
					}
				}
				if len(cs) > 0 {
					txs = append(txs, fmt.Sprintf("vote1:%d:%d:%s", votes, sum+r.Intn(50), strings.Join(cs, ",")))
					liveVotes = append(liveVotes, votes)
					votes++
				}
			}
			if r.Chance(15) { // Voting transactions (stake-address votes): Delegate and DposV2 contents
				var cs []string
				for j := 0; j < 10; j++ {
					sj := stateOf(j)
					if (sj == int(state2.Pending) || sj == int(state2.Active)) && !usedInBlock[j] && r.Chance(45) {
						cs = append(cs, fmt.Sprintf("%d=%d", j, 100+r.Intn(900)))
					}
				}
				if len(cs) > 0 {
					if r.Chance(35) {
						// exactly the effective-votes threshold, locked for exactly 7200 blocks (weight log10(10) = 1)
						j := strings.Split(cs[0], "=")[0]
						txs = append(txs, fmt.Sprintf("dvote:%d:v2:%s=8000000000000:%d:%d", r.Intn(3), j, nonce(), h+7200))
					} else {
						txs = append(txs, fmt.Sprintf("dvote:%d:%s:%s:%d", r.Intn(3), []string{"d", "v2"}[r.Intn(2)], strings.Join(cs, ","), nonce()))
					}
				}
			}
			if r.Chance(8) && !e.arbMode { // consensus mode switches (in Arbiters mode the revert logic needs the real chain: it can block)
				if st.ConsensusAlgorithm == state2.DPOS {
					txs = append(txs, fmt.Sprintf("rtp:%d", h+1))
					lastRTP = h
				} else if !st.NeedRevertToDPOSTX || true {
					txs = append(txs, fmt.Sprintf("rtd:%d:%d", 1+r.Intn(4), lastRTP))
				}
			}
			if r.Chance(25) { // stakes: few addresses, amounts that repeat and grow
				amt := []int64{100, 100, 300, 50, 1000}[r.Intn(5)] * 100000000
				txs = append(txs, fmt.Sprintf("stake:%d:%d:%d", r.Intn(3), amt, nonce()))
			}
			sponsor := "-"
			if r.Chance(50) {
				sponsor = strconv.Itoa(r.Intn(5))
			}
			g.Emit("blk %d %s %s", h, sponsor, strings.Join(txs, " "))
			heights = append(heights, h)
			if r.Chance(6) && len(registered) > 0 {
				g.Emit("special %d illegal:%d:%d", h+1, r.Intn(8), nonce())
			}
			if r.Chance(18) && len(heights) > 1 {
				d := 1 + r.Intn(len(heights)-1)
				if r.Chance(60) {
					d = 1 + r.Intn(3)
					if d >= len(heights) {
						d = len(heights) - 1
					}
				}
				k := heights[len(heights)-1-d]
				if r.Chance(12) && !e.arbMode {
					k, d = base, len(heights) // below the first recorded height: the history becomes empty
				}
				g.Emit("rb %d", k)
				// the generator's bookkeeping is approximate after a rollback: later txs may be
				// no-ops for the state (unknown producer), which is fine — they are still blocks.
				heights = heights[:len(heights)-d]
				h = k
			}
		}
		// final: roll back to every height, newest first
		for i := len(heights) - 2; i >= 0; i-- {
			g.Emit("rb %d", heights[i])
		}
	}
}

func nontrivial(t []string, out string) bool { return t[0] == "rb" }

func bucket(t []string, out string) string {
	if t[0] == "rb" {
		return "rb/" + strings.Fields(lastVerdict + " -")[0]
	}
	if t[0] == "blk" {
		return "blk/" + strconv.Itoa(len(t)-3) + "tx"
	}
	return t[0]
}

func main() {
	hx.Main(&hx.Prop{Name: "C21", Gen: gen, Exec: exec, Oracle: oracle, Nontrivial: nontrivial, Bucket: bucket, Stateful: true})
}
