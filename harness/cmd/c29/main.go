// Harness for C29: proposal spending stays within approved budgets.
//
// The REAL cr/state.Committee (+ ProposalManager) and the REAL SpecialContextCheck of
// CRCProposal, CRCProposalTracking and CRCProposalWithdraw are driven block by block the
// way the node does it: every transaction of a block is context-checked against the
// state before the block (CRCProposal additionally against the running
// proposalsUsedAmount of the block, as blockchain.checkTxsContext does), then
// Committee.ProcessBlock applies all of them.
//
//	reset <stageAmount> <usedAtStart> <crVotingPeriod> <publicVotingPeriod> <agreementCount> <withdrawFee> <rejectThreshold> [<usedNow>]
//	begin <height>
//	propose <id> <type:stage:amount,...> [elip] CRCProposal (Normal or ELIP), real context check
//	review <id> <member> <a|r>                  environment: CRCProposalReview processed
//	rejvotes <id> <amount>                      environment: public reject votes on the proposal
//	track <id> <p|t|f|c|r> <stage>              CRCProposalTracking Progress/Terminated/Finalized/Common/Rejected, real check
//	withdraw <id> <amount>                      CRCProposalWithdraw (payload v1), real check
//	close <id> <target>                         CRCProposal of type CloseProposal, real check
//	redo                                        this block is connected, disconnected (RollbackTo) and connected again
//	chg                                         a committee change recomputes the used amount at the end of this block (hook)
//	realwd <i,j,..> <inp> <utxos>              CRCProposalRealWithdraw paying pending v1 withdrawals (by number), real check
//	fund <v>                                    environment: payment to the CR expenses address (committee UTXO)
//	withdraw0 <id> <inp> <out0> <out1|-> <toC> <utxos>   CRCProposalWithdraw payload v0 spending committee UTXOs, real check
//	end [order]                                 Committee.ProcessBlock; prints committee + every proposal; order = processing
//	                                            order of the queued txs after the node's SortTransactions (oracle value)
package main

import (
	"bytes"
	"crypto/elliptic"
	"encoding/hex"
	"fmt"
	"math/big"
	"sort"
	"strconv"
	"strings"

	"elaverif/harness/hx"

	"github.com/elastos/Elastos.ELA/blockchain"
	"github.com/elastos/Elastos.ELA/common"
	"github.com/elastos/Elastos.ELA/common/config"
	"github.com/elastos/Elastos.ELA/core/checkpoint"
	"github.com/elastos/Elastos.ELA/core/contract"
	"github.com/elastos/Elastos.ELA/core/contract/program"
	"github.com/elastos/Elastos.ELA/core/transaction"
	"github.com/elastos/Elastos.ELA/core/types"
	ctypes "github.com/elastos/Elastos.ELA/core/types/common"
	"github.com/elastos/Elastos.ELA/core/types/functions"
	"github.com/elastos/Elastos.ELA/core/types/interfaces"
	"github.com/elastos/Elastos.ELA/core/types/outputpayload"
	"github.com/elastos/Elastos.ELA/core/types/payload"
	crstate "github.com/elastos/Elastos.ELA/cr/state"
	"github.com/elastos/Elastos.ELA/crypto"
	"github.com/elastos/Elastos.ELA/dpos/state"
)

type key struct {
	priv []byte
	pub  *crypto.PublicKey
	pk   []byte
	code []byte
}

func mkKey(tag, i int) *key {
	d := new(big.Int).SetInt64(int64(2000003*tag + 7919*i + 54321))
	x, y := elliptic.P256().ScalarBaseMult(d.Bytes())
	pub := &crypto.PublicKey{X: x, Y: y}
	pk, _ := pub.EncodePoint(true)
	code, _ := contract.CreateStandardRedeemScript(pub)
	priv := make([]byte, 32)
	b := d.Bytes()
	copy(priv[32-len(b):], b)
	return &key{priv: priv, pub: pub, pk: pk, code: code}
}

func (k *key) sign(data []byte) []byte {
	s, err := crypto.Sign(k.priv, data)
	if err != nil {
		panic("harness: sign " + err.Error())
	}
	return s
}

func (k *key) did() common.Uint168 {
	d, err := crstate.GetDIDByCode(k.code)
	if err != nil {
		panic("harness: did")
	}
	return *d
}

func (k *key) standardHash() common.Uint168 {
	ct, _ := contract.CreateStandardContract(k.pub)
	return *ct.ToProgramHash()
}

type prop struct {
	id      int
	hash    common.Uint256
	budgets []payload.Budget
}

type wdrec struct {
	hash   common.Uint256
	amount common.Fixed64
}

type cutxo struct {
	value common.Fixed64
	op    ctypes.OutPoint
	born  uint32
	spent bool
}

type world struct {
	params  *config.Configuration
	cm      *crstate.Committee
	chain   *blockchain.BlockChain
	height  uint32
	inBlock bool
	pending []interfaces.Transaction
	blkUsed common.Fixed64 // proposalsUsedAmount of the open block
	owner   *key
	sg      *key
	members []*key
	props   map[int]*prop
	nonce   uint32
	paid    map[int]common.Fixed64 // Σ amounts recorded for real withdrawal, per proposal (from WithdrawableTxInfo)
	wtx     map[common.Uint256]int // withdraw tx hash -> proposal id
	cutxos  []*cutxo               // UTXOs of the CR expenses (committee) address
	wlist   []wdrec                // accepted payload-v1 withdrawals in order of acceptance (index = number in the op lines)
	widx    map[common.Uint256]int // withdraw tx hash -> index in wlist
	cIn     map[int]bool           // committee utxos used as inputs in the open block
	redo    bool                   // disconnect the block again (Committee.RollbackTo) and connect it a second time
	chg     bool                   // recompute the used amount (committee change) at the end of the open block
}

var w *world

func i64(s string) int64 {
	v, err := strconv.ParseInt(s, 10, 64)
	if err != nil {
		panic("harness: bad int " + s)
	}
	return v
}

const nMembers = 3

func newWorld(t []string) *world {
	functions.GetTransactionByTxType = transaction.GetTransaction
	functions.GetTransactionByBytes = transaction.GetTransactionByBytes
	functions.CreateTransaction = transaction.CreateTransaction
	functions.GetTransactionParameters = transaction.GetTransactionparameters

	p := config.GetDefaultParams()
	p.CRConfiguration.CRVotingStartHeight = 0
	p.CRConfiguration.CRCommitteeStartHeight = 0
	p.CRConfiguration.DutyPeriod = 10000000
	p.CRConfiguration.VotingPeriod = 1000
	p.DPoSV2StartHeight = 100000000
	p.CRConfiguration.ProposalCRVotingPeriod = uint32(i64(t[3]))
	p.CRConfiguration.ProposalPublicVotingPeriod = uint32(i64(t[4]))
	p.CRConfiguration.CRAgreementCount = uint32(i64(t[5]))
	p.CRConfiguration.RealWithdrawSingleFee = common.Fixed64(i64(t[6]))
	p.CRConfiguration.MemberCount = nMembers
	p.CRConfiguration.CRCProposalWithdrawPayloadV1Height = 0
	p.CRConfiguration.CRCProposalV1Height = 0
	p.CRConfiguration.ChangeCommitteeNewCRHeight = 100000000
	p.CRConfiguration.CRClaimDPOSNodeStartHeight = 100000000
	exp, ast, dst := mkKey(5, 0).standardHash(), mkKey(5, 1).standardHash(), mkKey(5, 2).standardHash()
	p.CRConfiguration.CRExpensesProgramHash, p.CRConfiguration.CRAssetsProgramHash, p.DestroyELAProgramHash = &exp, &ast, &dst
	ckp := checkpoint.NewManager(p)
	cm := crstate.NewCommittee(p, ckp)
	st := state.NewState(p, nil, nil, nil, func() bool { return true }, nil, nil, nil, nil, nil, nil, nil)
	chain := &blockchain.BlockChain{}
	chain.SetState(st)
	chain.SetCRCommittee(cm)
	ww := &world{params: p, cm: cm, chain: chain, owner: mkKey(1, 0), sg: mkKey(2, 0), props: map[int]*prop{},
		paid: map[int]common.Fixed64{}, wtx: map[common.Uint256]int{}, cIn: map[int]bool{}, widx: map[common.Uint256]int{}}
	// a sitting committee in its election period (the election itself is outside this property)
	cm.InElectionPeriod = true
	cm.LastCommitteeHeight = 1
	cm.CirculationAmount = 3000000000000000
	cm.CRCCurrentStageAmount = common.Fixed64(i64(t[1]))
	cm.CRCCommitteeUsedAmount = common.Fixed64(i64(t[2]))
	cm.CommitteeUsedAmount = common.Fixed64(i64(t[2]))
	if len(t) >= 9 { // the committee has committed more since the stage amount was recorded
		cm.CRCCommitteeUsedAmount = common.Fixed64(i64(t[8]))
	}
	for i := 0; i < nMembers; i++ {
		k := mkKey(3, i)
		ww.members = append(ww.members, k)
		cid, _ := crstate.GetCIDByCode(k.code)
		cm.Members[k.did()] = &crstate.CRMember{
			Info:        payload.CRInfo{Code: k.code, CID: *cid, DID: k.did(), NickName: fmt.Sprintf("m%d", i)},
			MemberState: crstate.MemberElected,
		}
	}
	cm.GetProposalManager().InitSecretaryGeneralPublicKey(hex.EncodeToString(ww.sg.pk))
	// the public-vote rejection threshold is a float computation of the node (oracle value in the op line)
	if thr := common.Fixed64(float64(cm.CirculationAmount) * p.CRConfiguration.VoterRejectPercentage / 100.0); int64(thr) != i64(t[7]) {
		panic(fmt.Sprintf("harness: reject threshold is %d", int64(thr)))
	}
	return ww
}

func (w *world) attrs() []*ctypes.Attribute {
	w.nonce++
	return []*ctypes.Attribute{{Usage: ctypes.Nonce, Data: []byte(fmt.Sprintf("n%08d", w.nonce))}}
}

func (w *world) mk(tt ctypes.TxType, pv byte, pl interfaces.Payload, progs []*program.Program) interfaces.Transaction {
	tx := functions.CreateTransaction(9, tt, pv, pl, w.attrs(), nil, nil, 0, progs)
	tx.SetParameters(&transaction.TransactionParameters{
		Transaction: tx, BlockHeight: w.height, TimeStamp: w.height * 120, Config: w.params, BlockChain: w.chain,
		ProposalsUsedAmount: w.blkUsed,
	})
	return tx
}

func errClass(e error) string {
	s := e.Error()
	for _, kv := range [][2]string{
		{"budgets exceeds 10%", "over10"},
		{"budgets exceeds the balance", "overbal"},
		{"budgets is invalid", "negsum"},
		{"ELIP needs to have", "elip"},
		{"budgets amount overflow", "overflow"},
		{"invalid amount", "negamount"},
		{"imprest can only be in the first phase", "shape"},
		{"first general type budget needs to start", "shape"},
		{"final payment can only be in the last phase", "shape"},
		{"the first phase starts incrementing", "shape"},
		{"imprest payment count invalid", "shape"},
		{"final payment count invalid", "shape"},
		{"cannot be without a Budget", "shape"},
		{"duplicated draft", "dup"},
		{"proposal not exist", "noprop"},
		{"CloseProposalHash does not exist", "noprop"},
		{"CloseProposalHash has to be voterAgreed", "status"},
		{"proposal status is not VoterAgreed", "status"},
		{"reached max tracking count", "maxtrack"},
		{"invalid tracking Stage", "stage"},
		{"invalid budgets with tracking budget", "stage"},
		{"imprest and final payment not allowed", "stage"},
		{"stage should assignment zero", "stage"},
		{"is not proposal final stage", "stage"},
		{"no need to withdraw", "nothing"},
		{"invalid withdraw transaction hash", "unknown"},
		{"duplicated real withdraw transactions hash", "dup"},
		{"invalid real withdraw transaction fee", "fee"},
		{"ProgramHash !=CRCComitteeAddresss", "out1"},
		{"Value + fee != withdrawAmout", "amount"},
		{"transaction fee not enough", "fee"},
		{"withdrawPayload.Amount != withdrawAmount", "amount"},
		{"should be bigger than RealWithdrawSingleFee", "small"},
	} {
		if strings.Contains(s, kv[0]) {
			return kv[1]
		}
	}
	return "other:" + strings.ReplaceAll(s, " ", "_")
}

func verdict(tx interfaces.Transaction) string {
	err, _ := tx.SpecialContextCheck()
	if err != nil {
		return "reject " + errClass(err)
	}
	return "accept"
}

func stageList(m map[uint8]common.Fixed64) string {
	if len(m) == 0 {
		return "-"
	}
	ks := make([]int, 0, len(m))
	for k := range m {
		ks = append(ks, int(k))
	}
	sort.Ints(ks)
	var s []string
	for _, k := range ks {
		s = append(s, fmt.Sprintf("%d=%d", k, int64(m[uint8(k)])))
	}
	return strings.Join(s, ",")
}

func (w *world) dump() string {
	var b strings.Builder
	// fold the withdrawals recorded for real payment in this block into the per-proposal tally
	for h, info := range w.cm.GetProposalManager().WithdrawableTxInfo {
		if id, ok := w.wtx[h]; ok {
			w.paid[id] += info.Amount
			delete(w.wtx, h)
		}
	}
	fmt.Fprintf(&b, "h=%d C %d:%d P", w.height, int64(w.cm.CRCCurrentStageAmount), int64(w.cm.CRCCommitteeUsedAmount))
	ids := make([]int, 0, len(w.props))
	for id := range w.props {
		ids = append(ids, id)
	}
	sort.Ints(ids)
	for _, id := range ids {
		ps := w.cm.GetProposal(w.props[id].hash)
		if ps == nil {
			continue
		}
		fmt.Fprintf(&b, " %d:%d:%s:%s:%d", id, int(ps.Status), stageList(ps.WithdrawableBudgets), stageList(ps.WithdrawnBudgets), int64(w.paid[id]))
	}
	// withdrawals waiting for their real payment (WithdrawableTxInfo), by their number
	var pend []int
	for h := range w.cm.GetProposalManager().WithdrawableTxInfo {
		if i, ok := w.widx[h]; ok {
			pend = append(pend, i)
		} else {
			pend = append(pend, -1)
		}
	}
	sort.Ints(pend)
	b.WriteString(" W")
	for _, i := range pend {
		fmt.Fprintf(&b, " %d", i)
	}
	return b.String()
}

// order returns the order in which Committee.processTransactions will process the pending txs
// (indices into the queue of accepted txs), "-" when empty.
func (w *world) order() string {
	if len(w.pending) == 0 {
		return "-"
	}
	pos := map[common.Uint256]int{}
	for i, tx := range w.pending {
		pos[tx.Hash()] = i
	}
	cp := append([]interfaces.Transaction(nil), w.pending...)
	crstate.SortTransactions(cp[1:])
	var out []string
	for _, tx := range cp {
		out = append(out, strconv.Itoa(pos[tx.Hash()]))
	}
	return strings.Join(out, ",")
}

func parseBudgets(s string) []payload.Budget {
	var bs []payload.Budget
	if s == "-" {
		return bs
	}
	for _, x := range strings.Split(s, ",") {
		p := strings.Split(x, ":")
		if len(p) != 3 {
			panic("harness: bad budget " + x)
		}
		bs = append(bs, payload.Budget{Type: payload.InstallmentType(i64(p[0])), Stage: byte(i64(p[1])), Amount: common.Fixed64(i64(p[2]))})
	}
	return bs
}

func exec(t []string) string {
	if t[0] == "reset" {
		if len(t) < 8 {
			w = nil
			return "ok"
		}
		w = newWorld(t)
		return "ok"
	}
	if w == nil {
		panic("harness: op before reset")
	}
	switch t[0] {
	case "begin":
		w.height = uint32(i64(t[1]))
		w.inBlock = true
		w.pending = nil
		w.blkUsed = 0
		w.cIn = map[int]bool{}
		return "ok"
	case "end":
		// Committee.processTransactions re-orders txs[1:] with an unstable sort and an inconsistent
		// comparator (SortTransactions); the resulting processing order is an oracle value of the op line
		if len(t) > 1 && t[1] != w.order() {
			return "order-mismatch"
		}
		blk := &types.Block{Header: ctypes.Header{Height: w.height, Timestamp: w.height * 120}, Transactions: w.pending}
		w.cm.ProcessBlock(blk, nil)
		if w.redo && w.height < 2 { // Committee.RollbackTo(0) never terminates (uint32 loop counter); nothing to disconnect to
			w.redo = false
		}
		if w.redo { // a reorganisation that disconnects this block and connects the same block again must change nothing
			w.redo = false
			if err := w.cm.RollbackTo(w.height - 1); err != nil {
				return "rollback-error"
			}
			w.cm.ProcessBlock(blk, nil)
		}
		w.inBlock = false
		for id := range w.cIn {
			w.cutxos[id].spent = true
		}
		if w.chg { // what a successful committee change does to the used amount (changeCommittee -> resetCRCCommitteeUsedAmount)
			w.cm.VerifResetCommitteeUsedAmount(w.height)
			w.chg = false
		}
		return w.dump()
	}
	if !w.inBlock {
		panic("harness: tx outside block")
	}
	switch t[0] {
	case "propose":
		id := int(i64(t[1]))
		if _, dup := w.props[id]; dup {
			panic("harness: proposal id reused")
		}
		m := w.members[0]
		draft := []byte(fmt.Sprintf("draft-%d", id))
		ptype := payload.Normal
		if len(t) >= 4 && t[3] == "elip" {
			ptype = payload.ELIP
		}
		pl := &payload.CRCProposal{
			ProposalType: ptype, CategoryData: "c", OwnerKey: w.owner.pk, DraftData: draft, DraftHash: common.Hash(draft),
			Budgets: parseBudgets(t[2]), Recipient: w.owner.standardHash(), CRCouncilMemberDID: m.did(),
		}
		pv := payload.CRCProposalVersion01
		buf := new(bytes.Buffer)
		pl.SerializeUnsigned(buf, pv)
		pl.Signature = w.owner.sign(buf.Bytes())
		common.WriteVarBytes(buf, pl.Signature)
		pl.CRCouncilMemberDID.Serialize(buf)
		pl.CRCouncilMemberSignature = m.sign(buf.Bytes())
		tx := w.mk(ctypes.CRCProposal, pv, pl, nil)
		v := verdict(tx)
		if v == "accept" {
			w.pending = append(w.pending, tx)
			blockchain.RecordCRCProposalAmount(&w.blkUsed, tx)
			w.props[id] = &prop{id: id, hash: pl.Hash(pv), budgets: pl.Budgets}
		}
		return v
	case "review":
		pr, ok := w.props[int(i64(t[1]))]
		if !ok {
			return "noprop"
		}
		res := payload.Approve
		if t[3] == "r" {
			res = payload.Reject
		}
		pl := &payload.CRCProposalReview{ProposalHash: pr.hash, VoteResult: res, DID: w.members[int(i64(t[2]))].did()}
		w.pending = append(w.pending, w.mk(ctypes.CRCProposalReview, 0, pl, nil))
		return "queued"
	case "rejvotes":
		pr, ok := w.props[int(i64(t[1]))]
		if !ok {
			return "noprop"
		}
		if ps := w.cm.GetProposal(pr.hash); ps != nil {
			ps.VotersRejectAmount = common.Fixed64(i64(t[2]))
		}
		return "queued"
	case "track":
		pr, ok := w.props[int(i64(t[1]))]
		if !ok {
			return "reject noprop"
		}
		tt, okk := map[string]payload.CRCProposalTrackingType{"p": payload.Progress, "t": payload.Terminated, "f": payload.Finalized,
			"c": payload.Common, "r": payload.Rejected}[t[2]]
		if !okk {
			panic("harness: unknown tracking kind " + t[2])
		}
		msg := []byte(fmt.Sprintf("msg-%d", w.nonce))
		op := []byte("opinion")
		pl := &payload.CRCProposalTracking{
			ProposalHash: pr.hash, MessageData: msg, MessageHash: common.Hash(msg), Stage: uint8(i64(t[3])), OwnerKey: w.owner.pk,
			ProposalTrackingType: tt, SecretaryGeneralOpinionData: op, SecretaryGeneralOpinionHash: common.Hash(op),
		}
		pv := payload.CRCProposalTrackingVersion01
		buf := new(bytes.Buffer)
		pl.SerializeUnsigned(buf, pv)
		pl.OwnerSignature = w.owner.sign(buf.Bytes())
		common.WriteVarBytes(buf, pl.OwnerSignature)
		common.WriteVarBytes(buf, pl.NewOwnerSignature)
		buf.Write([]byte{byte(tt)})
		pl.SecretaryGeneralOpinionHash.Serialize(buf)
		common.WriteVarBytes(buf, pl.SecretaryGeneralOpinionData)
		pl.SecretaryGeneralSignature = w.sg.sign(buf.Bytes())
		tx := w.mk(ctypes.CRCProposalTracking, pv, pl, nil)
		v := verdict(tx)
		if v == "accept" {
			w.pending = append(w.pending, tx)
		}
		return v
	case "chg":
		w.chg = true
		return "queued"
	case "redo":
		w.redo = true
		return "queued"
	case "close": // close <id> <target>: CRCProposal of type CloseProposal, real context check
		id := int(i64(t[1]))
		if _, dup := w.props[id]; dup {
			panic("harness: proposal id reused")
		}
		tg, ok := w.props[int(i64(t[2]))]
		if !ok {
			return "reject noprop"
		}
		m := w.members[0]
		draft := []byte(fmt.Sprintf("draft-%d", id))
		pl := &payload.CRCProposal{ProposalType: payload.CloseProposal, CategoryData: "c", OwnerKey: w.owner.pk, DraftData: draft,
			DraftHash: common.Hash(draft), TargetProposalHash: tg.hash, CRCouncilMemberDID: m.did()}
		pv := payload.CRCProposalVersion01
		buf := new(bytes.Buffer)
		pl.SerializeUnsigned(buf, pv)
		pl.Signature = w.owner.sign(buf.Bytes())
		common.WriteVarBytes(buf, pl.Signature)
		pl.CRCouncilMemberDID.Serialize(buf)
		pl.CRCouncilMemberSignature = m.sign(buf.Bytes())
		tx := w.mk(ctypes.CRCProposal, pv, pl, nil)
		v := verdict(tx)
		if v == "accept" {
			w.pending = append(w.pending, tx)
			w.props[id] = &prop{id: id, hash: pl.Hash(pv)}
		}
		return v
	case "realwd": // realwd <i,j,..> <inp> <utxo,..>: CRCProposalRealWithdraw paying the listed pending withdrawals, real context check
		var hashes []common.Uint256
		var outs []*ctypes.Output
		var need common.Fixed64
		for _, x := range strings.Split(t[1], ",") {
			i := int(i64(x))
			if i < 0 || i >= len(w.wlist) {
				panic("harness: unknown withdrawal number")
			}
			hashes = append(hashes, w.wlist[i].hash)
			outs = append(outs, &ctypes.Output{ProgramHash: w.owner.standardHash(), Value: w.wlist[i].amount - w.params.CRConfiguration.RealWithdrawSingleFee,
				Payload: &outputpayload.DefaultOutput{}})
			need += w.wlist[i].amount
		}
		inp := common.Fixed64(i64(t[2]))
		var ins []*ctypes.Input
		refs := map[*ctypes.Input]ctypes.Output{}
		var sum common.Fixed64
		var ids []int
		for _, x := range strings.Split(t[3], ",") {
			ci := int(i64(x))
			if ci < 0 || ci >= len(w.cutxos) || w.cutxos[ci].spent || w.cIn[ci] || w.cutxos[ci].born >= w.height {
				panic("harness: bad committee utxo id")
			}
			in := &ctypes.Input{Previous: w.cutxos[ci].op}
			ins = append(ins, in)
			refs[in] = ctypes.Output{ProgramHash: *w.params.CRConfiguration.CRExpensesProgramHash, Value: w.cutxos[ci].value}
			sum += w.cutxos[ci].value
			ids = append(ids, ci)
		}
		if sum != inp || inp < need {
			panic("harness: inp differs from the referenced committee utxos or does not cover the payments")
		}
		change := inp - need
		if change > 0 {
			outs = append(outs, &ctypes.Output{ProgramHash: *w.params.CRConfiguration.CRExpensesProgramHash, Value: change, Payload: &outputpayload.DefaultOutput{}})
		}
		tx := functions.CreateTransaction(9, ctypes.CRCProposalRealWithdraw, 0, &payload.CRCProposalRealWithdraw{WithdrawTransactionHashes: hashes},
			nil, ins, outs, 0, nil)
		tx.SetParameters(&transaction.TransactionParameters{Transaction: tx, BlockHeight: w.height, TimeStamp: w.height * 120, Config: w.params, BlockChain: w.chain})
		tx.SetReferences(refs)
		v := verdict(tx)
		if v == "accept" {
			w.pending = append(w.pending, tx)
			for _, ci := range ids {
				w.cIn[ci] = true
			}
			if change > 0 {
				w.cutxos = append(w.cutxos, &cutxo{value: change, op: *ctypes.NewOutPoint(tx.Hash(), uint16(len(outs)-1)), born: w.height})
			}
		}
		return v
	case "fund": // environment: someone pays the CR expenses address (a committee UTXO appears)
		v := common.Fixed64(i64(t[1]))
		tx := w.mk(ctypes.TransferAsset, 0, &payload.TransferAsset{}, nil)
		tx.SetOutputs([]*ctypes.Output{{ProgramHash: *w.params.CRConfiguration.CRExpensesProgramHash, Value: v, Payload: &outputpayload.DefaultOutput{}}})
		w.pending = append(w.pending, tx)
		w.cutxos = append(w.cutxos, &cutxo{value: v, op: *ctypes.NewOutPoint(tx.Hash(), 0), born: w.height})
		return "queued"
	case "withdraw0": // withdraw0 <id> <inp> <out0> <out1|-> <toCommittee> <utxo,..>: payload version 0, spends committee UTXOs
		id := int(i64(t[1]))
		pr, ok := w.props[id]
		if !ok {
			return "reject noprop"
		}
		inp, out0 := common.Fixed64(i64(t[2])), common.Fixed64(i64(t[3]))
		var ins []*ctypes.Input
		refs := map[*ctypes.Input]ctypes.Output{}
		var sum common.Fixed64
		var ids []int
		for _, x := range strings.Split(t[6], ",") {
			ci := int(i64(x))
			if ci < 0 || ci >= len(w.cutxos) || w.cutxos[ci].spent || w.cIn[ci] || w.cutxos[ci].born >= w.height {
				panic("harness: bad committee utxo id")
			}
			in := &ctypes.Input{Previous: w.cutxos[ci].op}
			ins = append(ins, in)
			refs[in] = ctypes.Output{ProgramHash: *w.params.CRConfiguration.CRExpensesProgramHash, Value: w.cutxos[ci].value}
			sum += w.cutxos[ci].value
			ids = append(ids, ci)
		}
		if sum != inp {
			panic("harness: inp differs from the referenced committee utxos")
		}
		outs := []*ctypes.Output{{ProgramHash: w.owner.standardHash(), Value: out0, Payload: &outputpayload.DefaultOutput{}}}
		var back common.Fixed64
		if t[4] != "-" {
			o1 := common.Fixed64(i64(t[4]))
			if t[5] == "1" {
				outs = append(outs, &ctypes.Output{ProgramHash: *w.params.CRConfiguration.CRExpensesProgramHash, Value: o1, Payload: &outputpayload.DefaultOutput{}})
				back = o1
			} else { // the change goes to an address that is not the committee's
				outs = append(outs, &ctypes.Output{ProgramHash: w.sg.standardHash(), Value: o1, Payload: &outputpayload.DefaultOutput{}})
			}
		}
		pl := &payload.CRCProposalWithdraw{ProposalHash: pr.hash, OwnerKey: w.owner.pk}
		buf := new(bytes.Buffer)
		pl.SerializeUnsigned(buf, payload.CRCProposalWithdrawDefault)
		pl.Signature = w.owner.sign(buf.Bytes())
		tx := w.mk(ctypes.CRCProposalWithdraw, payload.CRCProposalWithdrawDefault, pl, nil)
		tx.SetInputs(ins)
		tx.SetOutputs(outs)
		tx.SetReferences(refs)
		v := verdict(tx)
		if v == "accept" {
			w.pending = append(w.pending, tx)
			for _, ci := range ids {
				w.cIn[ci] = true
			}
			// what leaves the committee address for this proposal (judged from the tx itself)
			w.paid[id] += inp - back
			if back != 0 {
				w.cutxos = append(w.cutxos, &cutxo{value: back, op: *ctypes.NewOutPoint(tx.Hash(), 1), born: w.height})
			}
		}
		return v
	case "withdraw":
		id := int(i64(t[1]))
		pr, ok := w.props[id]
		if !ok {
			return "reject noprop"
		}
		pl := &payload.CRCProposalWithdraw{ProposalHash: pr.hash, OwnerKey: w.owner.pk, Recipient: w.owner.standardHash(), Amount: common.Fixed64(i64(t[2]))}
		pv := payload.CRCProposalWithdrawVersion01
		buf := new(bytes.Buffer)
		pl.SerializeUnsigned(buf, pv)
		pl.Signature = w.owner.sign(buf.Bytes())
		tx := w.mk(ctypes.CRCProposalWithdraw, pv, pl, []*program.Program{{Code: w.owner.code, Parameter: []byte{0}}})
		// fee paid by an ordinary input of the sender (1000 sela)
		in := &ctypes.Input{Previous: ctypes.OutPoint{TxID: common.Hash([]byte(fmt.Sprintf("fee-%d", w.nonce))), Index: 0}}
		tx.SetInputs([]*ctypes.Input{in})
		tx.SetReferences(map[*ctypes.Input]ctypes.Output{in: {ProgramHash: w.owner.standardHash(), Value: 1000}})
		v := verdict(tx)
		if v == "accept" {
			w.pending = append(w.pending, tx)
			w.wtx[tx.Hash()] = id
			w.widx[tx.Hash()] = len(w.wlist)
			w.wlist = append(w.wlist, wdrec{tx.Hash(), pl.Amount})
		}
		return v
	}
	panic("harness: unknown op " + t[0])
}

func main() {
	hx.Main(&hx.Prop{Name: "C29", Gen: gen, Exec: exec, Oracle: oracle, Nontrivial: nontrivial, Bucket: bucket, Stateful: true})
}
