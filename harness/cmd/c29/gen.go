package main

import (
	"fmt"
	"sort"
	"strconv"
	"strings"

	"elaverif/harness/hx"

	crstate "github.com/elastos/Elastos.ELA/cr/state"
)

const (
	ela         = int64(100000000)
	stageAmount = 100000 * ela
	crPeriod    = 2
	pubPeriod   = 2
	agreeCount  = 2
	wdFee       = 10000
	rejectThr   = 300000000000000 // 10% of the circulation set by the harness
)

// ---------------------------------------------------------------- oracle
//
// Judges the implementation directly against the property statement, from the op lines
// (the budgets a proposal was registered with) and the dumps only:
//   * the amount recorded for payment to a proposal never exceeds the sum of the stages
//     marked withdrawn, which are a subset of the stages made withdrawable, each with the
//     budgeted amount; hence total paid <= sum of approved budgets, each stage once;
//   * the committee's commitments (budgets of live proposals; for terminated / finished
//     ones the stages that became withdrawable) never exceed the stage amount, and the
//     node's own counter never understates them.

type oProp struct {
	budgets map[int]int64
	total   int64
}

var (
	oProps   map[int]*oProp
	oStage   int64
	oUsed0   int64
	oWd      map[int]int
	oTrk     map[int]int
	oExcess  map[int]int64
	oNProp    int // proposals accepted in the open block
	oCloseBlk map[int]int   // close proposals accepted in the open block, per target
	oDouble  map[int]bool   // targets that got two close proposals in one block
	oPrevSt  map[int]int    // status of every proposal after the previous block
	oPaidBlk map[int]int // payments of each v1 withdrawal by accepted real-withdraw txs of the open block
	oPaidCnt map[int]int // how often each v1 withdrawal (by number) has been paid by accepted real-withdraw txs
	oChg     bool // the used amount is recomputed at the end of the open block
	oQueued  *hx.Violation // a second violation found at the same `end`, reported at the next op
)

func parseStageList(s string) map[int]int64 {
	m := map[int]int64{}
	if s == "-" || s == "" {
		return m
	}
	for _, x := range strings.Split(s, ",") {
		kv := strings.Split(x, "=")
		k, _ := strconv.Atoi(kv[0])
		m[k] = i64(kv[1])
	}
	return m
}

func oracle(t []string, out string) *hx.Violation {
	if oQueued != nil && t[0] != "end" && t[0] != "reset" {
		v := oQueued
		oQueued = nil
		return v
	}
	switch t[0] {
	case "reset":
		oProps = map[int]*oProp{}
		oPaidCnt = map[int]int{}
		oDouble, oPrevSt = map[int]bool{}, map[int]int{}
		oQueued = nil
		oExcess = map[int]int64{}
		if len(t) >= 8 {
			oStage, oUsed0 = i64(t[1]), i64(t[2])
		}
		if len(t) >= 9 {
			oUsed0 = i64(t[8])
		}
		fallthrough
	case "begin":
		oWd, oTrk = map[int]int{}, map[int]int{}
		oNProp = 0
		oPaidBlk = map[int]int{}
		oChg = false
		oCloseBlk = map[int]int{}
	case "propose":
		if out == "accept" {
			oNProp++
			p := &oProp{budgets: map[int]int64{}}
			for _, b := range parseBudgets(t[2]) {
				p.budgets[int(b.Stage)] = int64(b.Amount)
				p.total += int64(b.Amount)
			}
			oProps[int(i64(t[1]))] = p
		}
	case "close":
		if out == "accept" {
			oProps[int(i64(t[1]))] = &oProp{budgets: map[int]int64{}}
			tg := int(i64(t[2]))
			oCloseBlk[tg]++
			if oCloseBlk[tg] >= 2 {
				oDouble[tg] = true
			}
		}
	case "realwd":
		if out == "accept" {
			var v *hx.Violation
			inTx := map[int]int{}
			for _, x := range strings.Split(t[1], ",") {
				i, _ := strconv.Atoi(x)
				inTx[i]++
				oPaidCnt[i]++
				oPaidBlk[i]++
				if oPaidCnt[i] > 1 && v == nil {
					v = &hx.Violation{Kind: "withdraw-paid-twice", Detail: fmt.Sprintf(
						"withdrawal=%d times_in_this_tx=%d times_in_this_block=%d times_before=%d list=%s: an accepted CRCProposalRealWithdraw pays a withdrawal that has been paid already (one approved budget stage, paid more than once)",
						i, inTx[i], oPaidBlk[i], oPaidCnt[i]-oPaidBlk[i], t[1])}
				}
			}
			return v
		}
	case "chg":
		oChg = true
	case "withdraw", "withdraw0":
		if out == "accept" {
			oWd[int(i64(t[1]))]++
		}
	case "track":
		if out == "accept" {
			oTrk[int(i64(t[1]))]++
		}
	case "end":
		f := strings.Fields(out)
		if len(f) < 4 {
			return nil
		}
		cu := strings.Split(f[2], ":")
		stage, used := i64(cu[0]), i64(cu[1])
		var committed, unpaid int64
		maxTrk := 0
		doubleCloseNow := false
		var viol *hx.Violation
		for _, x := range f[4:] {
			if x == "W" { // the rest lists the withdrawals waiting for their real payment
				break
			}
			p := strings.Split(x, ":")
			id, _ := strconv.Atoi(p[0])
			op := oProps[id]
			if op == nil {
				continue
			}
			status, _ := strconv.Atoi(p[1])
			if oDouble[id] && status == int(crstate.Terminated) && oPrevSt[id] != int(crstate.Terminated) {
				doubleCloseNow = true
			}
			oPrevSt[id] = status
			wable, wn, paid := parseStageList(p[2]), parseStageList(p[3]), i64(p[4])
			var sumWn int64
			for s, a := range wn {
				sumWn += a
				if wa, ok := wable[s]; !ok || wa != a || op.budgets[s] != a {
					if viol == nil {
						viol = &hx.Violation{Kind: "stage-not-withdrawable", Detail: fmt.Sprintf("proposal=%d stage=%d withdrawn=%d", id, s, a)}
					}
				}
			}
			excess := paid - sumWn
			grew := excess > oExcess[id]
			oExcess[id] = excess
			if viol == nil && paid > sumWn && grew {
				viol = &hx.Violation{Kind: "double-payout", Detail: fmt.Sprintf(
					"proposal=%d withdraws_in_block=%d paid=%d withdrawn_stages_sum=%d approved_total=%d: more recorded for payment than the stages marked withdrawn",
					id, oWd[id], paid, sumWn, op.total)}
			}
			if viol == nil && paid > op.total && grew {
				viol = &hx.Violation{Kind: "overpaid", Detail: fmt.Sprintf("proposal=%d paid=%d approved_total=%d", id, paid, op.total)}
			}
			switch crstate.ProposalStatus(status) {
			case crstate.Registered, crstate.CRAgreed, crstate.VoterAgreed:
				committed += op.total
				unpaid += op.total - sumWn
			case crstate.Terminated, crstate.Finished:
				for st, a := range wable {
					committed += a
					if _, done := wn[st]; !done {
						unpaid += a
					}
				}
			}
			if oTrk[id] > maxTrk {
				maxTrk = oTrk[id]
			}
		}
		if oChg { // a committee change books what is still to be paid: it must not book less
			oChg = false
			if viol == nil && used < unpaid {
				viol = &hx.Violation{Kind: "reset-understated", Detail: fmt.Sprintf(
					"used=%d unpaid=%d: after the committee change CRCCommitteeUsedAmount is below the budgets still to be paid", used, unpaid)}
			}
			oUsed0 = used - committed // new base for the running comparison
		}
		if used-oUsed0 < committed {
			v := &hx.Violation{Kind: "commitment-understated", Op: "end", Out: out, Detail: fmt.Sprintf(
				"max_trackings_of_one_proposal_in_block=%d double_close_completed_in_block=%v used=%d committed=%d: CRCCommitteeUsedAmount is below the budgets still owed", maxTrk, doubleCloseNow, used-oUsed0, committed)}
			oUsed0 -= committed - (used - oUsed0) // report each understatement once
			if viol == nil {
				viol = v
			} else {
				oQueued = v
			}
		}
		if viol == nil && committed+oUsed0 > stage {
			viol = &hx.Violation{Kind: "overcommit", Detail: fmt.Sprintf(
				"proposals_in_block=%d committed=%d stage=%d: the budgets of the live proposals exceed the committee's stage amount", oNProp, committed+oUsed0, stage)}
			oUsed0 -= committed + oUsed0 - stage // report each excess once
		}
		return viol
	}
	return nil
}

func nontrivial(t []string, out string) bool { return out == "accept" }

func bucket(t []string, out string) string {
	f := strings.Fields(out)
	if t[0] == "end" {
		return "end"
	}
	k := t[0]
	if t[0] == "track" {
		k += "-" + t[2]
	}
	if len(f) == 0 {
		return k
	}
	if f[0] == "reject" && len(f) > 1 {
		return k + "/reject-" + f[1]
	}
	return k + "/" + f[0]
}

// ---------------------------------------------------------------- generator

type genState struct {
	g    *hx.Gen
	r    *hx.Rand
	h    int
	next int
	ids  []int
	later []string
	tight bool
}

func (s *genState) block(body func()) {
	s.h++
	s.g.Emit("begin %d", s.h)
	now := s.later
	s.later = nil
	for _, l := range now {
		s.g.Emit("%s", l)
	}
	body()
	if s.r.Chance(12) && !w.chg {
		s.g.Emit("redo")
	}
	s.g.Emit("end %s", w.order())
}

func (s *genState) budgets() string {
	r := s.r
	var bs []string
	stage := 1
	cap10 := (stageAmount - 0) / 10
	n := r.Intn(4)
	parts := n + 2
	base := cap10 / int64(parts)
	amt := func() int64 {
		switch r.Intn(8) {
		case 0:
			return 0
		case 1:
			return base
		case 2:
			return base + 1
		case 3:
			return int64(r.Pick(1, 10, 100)) * ela
		default:
			return 1 + int64(r.U64()%uint64(base))
		}
	}
	if r.Chance(60) {
		bs = append(bs, fmt.Sprintf("0:0:%d", amt()))
	}
	for i := 0; i < n; i++ {
		bs = append(bs, fmt.Sprintf("1:%d:%d", stage, amt()))
		stage++
	}
	bs = append(bs, fmt.Sprintf("2:%d:%d", stage, amt()))
	if r.Chance(3) { // budgets whose Fixed64 sum does not fit (wraps to a small or zero value)
		big := []string{"4611686018427387904", "4611686018427387904", "4611686018427387904", "4611686018427387904"}
		if r.Chance(50) {
			big = []string{"9223372036854775807", "9223372036854775807", "3"} // wraps to 1
		}
		var ws []string
		for i, a := range big {
			ty := 1
			if i == len(big)-1 {
				ty = 2
			}
			ws = append(ws, fmt.Sprintf("%d:%d:%s", ty, i+1, a))
		}
		return strings.Join(ws, ",")
	}
	if r.Chance(4) { // malformed shapes
		switch r.Intn(3) {
		case 0:
			bs = bs[:len(bs)-1]
		case 1:
			bs = append(bs, fmt.Sprintf("2:%d:%d", stage+2, amt()))
		case 2:
			bs[0] = "1:5:-7"
		}
		if len(bs) == 0 {
			return "-"
		}
	}
	return strings.Join(bs, ",")
}

func (s *genState) pick() (int, *crstate.ProposalState) {
	if len(s.ids) == 0 {
		return -1, nil
	}
	id := s.ids[s.r.Intn(len(s.ids))]
	return id, w.cm.GetProposal(w.props[id].hash)
}

// real payment of pending payload-v1 withdrawals out of committee UTXOs
func (s *genState) realwd() bool {
	r := s.r
	var pend []int
	for h := range w.cm.GetProposalManager().WithdrawableTxInfo {
		if i, ok := w.widx[h]; ok {
			pend = append(pend, i)
		}
	}
	sort.Ints(pend)
	if len(pend) == 0 {
		return false
	}
	// a random non-empty selection in random order
	r2 := append([]int(nil), pend...)
	for i := len(r2) - 1; i > 0; i-- {
		j := r.Intn(i + 1)
		r2[i], r2[j] = r2[j], r2[i]
	}
	list := r2[:1+r.Intn(len(r2))]
	if len(list) > 3 {
		list = list[:3]
	}
	switch r.Intn(10) {
	case 0: // adjacent repetition
		list = append([]int{list[0]}, list...)
	case 1: // non-adjacent repetition
		if len(list) >= 2 {
			list = append(list, list[0])
		}
	case 2: // a withdrawal that has been paid already (or is not pending yet)
		for i := range w.wlist {
			found := false
			for _, p := range pend {
				if p == i {
					found = true
				}
			}
			if !found {
				list = append(list, i)
				break
			}
		}
	}
	var need int64
	var ls []string
	for _, i := range list {
		need += int64(w.wlist[i].amount)
		ls = append(ls, strconv.Itoa(i))
	}
	var ids []string
	var inp int64
	for i, u := range w.cutxos {
		if u.spent || w.cIn[i] || u.born >= w.height {
			continue
		}
		ids = append(ids, strconv.Itoa(i))
		inp += int64(u.value)
		if inp >= need {
			break
		}
	}
	if inp < need {
		return false
	}
	s.g.Emit("realwd %s %d %s", strings.Join(ls, ","), inp, strings.Join(ids, ","))
	return true
}

// payload-version-0 withdrawal: committee UTXOs in, recipient + change out
func (s *genState) withdraw0(id int, avail int64) bool {
	r := s.r
	var ids []string
	var inp int64
	for i, u := range w.cutxos {
		if u.spent || w.cIn[i] || u.born >= w.height {
			continue
		}
		ids = append(ids, strconv.Itoa(i))
		inp += int64(u.value)
		if inp > avail && r.Chance(70) {
			break
		}
	}
	if len(ids) == 0 || inp < avail || avail < 2000 {
		return false
	}
	fee := int64(r.Pick(100, 1000, 1000, 99))
	out0 := avail - fee
	switch r.Intn(12) {
	case 0:
		out0++
	case 1:
		out0--
	}
	out1 := inp - avail
	toC := 1
	if r.Chance(20) { // the change leaves the committee address
		toC = 0
	}
	o1 := strconv.FormatInt(out1, 10)
	if out1 == 0 {
		o1 = "-"
	}
	s.g.Emit("withdraw0 %d %d %d %s %d %s", id, inp, out0, o1, toC, strings.Join(ids, ","))
	return true
}

func (s *genState) randomTx() {
	r := s.r
	switch r.Intn(12) {
	case 0, 1:
		id := s.next
		s.next++
		if s.tight && r.Chance(50) { // a second proposal in the same block: only the running block total keeps them within the funds
			defer func() {
				id2 := s.next
				s.next++
				if s.g.Emit("propose %d %s", id2, s.budgets()) == "accept" {
					s.ids = append(s.ids, id2)
					for m := 0; m < nMembers; m++ {
						s.later = append(s.later, fmt.Sprintf("review %d %d a", id2, m))
					}
				}
			}()
		}
		line := fmt.Sprintf("propose %d %s", id, s.budgets())
		if r.Chance(20) { // an ELIP: exactly two budgets, no normal payment (most generated lists violate that)
			line = fmt.Sprintf("propose %d %s elip", id, s.budgets())
			if r.Chance(70) {
				line = fmt.Sprintf("propose %d 0:0:%d,2:1:%d elip", id, int64(r.Pick(1, 100, 3000))*ela, int64(r.Pick(0, 1, 2000))*ela)
			}
		}
		if s.g.Emit("%s", line) == "accept" {
			s.ids = append(s.ids, id)
			// the council reviews in the following block (a review in the block of the proposal is lost)
			for m := 0; m < nMembers; m++ {
				if r.Chance(85) {
					res := "a"
					if r.Chance(12) {
						res = "r"
					}
					line := fmt.Sprintf("review %d %d %s", id, m, res)
					if r.Chance(10) {
						s.g.Emit("%s", line)
					} else {
						s.later = append(s.later, line)
					}
				}
			}
		}
	case 2:
		if id, ps := s.pick(); ps != nil && ps.Status == crstate.CRAgreed && r.Chance(15) {
			s.g.Emit("rejvotes %d %d", id, int64(r.Pick(1, 400000000000000, 3000000000000000)))
		}
	case 3, 4, 5:
		if id, ps := s.pick(); ps != nil {
			// progress on a stage: mostly one that is still open
			n := len(ps.Proposal.Budgets)
			stage := r.Intn(n + 2)
			switch r.Intn(8) {
			case 0:
				s.g.Emit("track %d c %d", id, r.Pick(0, 0, 0, 1))
			case 1:
				s.g.Emit("track %d r %d", id, stage)
			default:
				s.g.Emit("track %d p %d", id, stage)
			}
		}
	case 6:
		if id, ps := s.pick(); ps != nil && (ps.Status == crstate.VoterAgreed || r.Chance(20)) {
			final := 0
			for _, b := range ps.Proposal.Budgets {
				if int(b.Stage) > final {
					final = int(b.Stage)
				}
			}
			if r.Chance(10) {
				final = r.Intn(4)
			}
			if r.Chance(50) {
				s.g.Emit("track %d f %d", id, final)
			} else {
				st := 0
				if r.Chance(8) {
					st = 1
				}
				s.g.Emit("track %d t %d", id, st)
			}
		}
	case 8:
		if id, ps := s.pick(); ps != nil && (ps.Status == crstate.VoterAgreed || r.Chance(15)) && r.Chance(40) && len(ps.Proposal.Budgets) > 0 {
			cid := s.next
			s.next++
			if s.g.Emit("close %d %d", cid, id) == "accept" {
				s.ids = append(s.ids, cid)
				if r.Chance(50) { // the target is finalized (or terminated) by its owner while the close proposal is pending
					final := 0
					for _, b := range ps.Proposal.Budgets {
						if int(b.Stage) > final {
							final = int(b.Stage)
						}
					}
					if r.Chance(70) {
						s.later = append(s.later, fmt.Sprintf("track %d f %d", id, final))
					} else {
						s.later = append(s.later, fmt.Sprintf("track %d t 0", id))
					}
				}
				for m := 0; m < nMembers; m++ {
					if r.Chance(90) {
						s.later = append(s.later, fmt.Sprintf("review %d %d a", cid, m))
					}
				}
			}
		}
	case 9:
		if s.realwd() {
			return
		}
		fallthrough
	case 7:
		s.g.Emit("fund %d", int64(r.Pick(500, 2000, 5000, 20000))*ela+int64(r.Intn(3)))
	default:
		if id, ps := s.pick(); ps != nil {
			avail := int64(w.cm.AvailableWithdrawalAmount(w.props[id].hash))
			if avail == 0 && r.Chance(70) {
				return
			}
			if r.Chance(35) && s.withdraw0(id, avail) {
				return
			}
			amt := avail
			switch r.Intn(10) {
			case 0:
				amt = avail + 1
			case 1:
				amt = avail - 1
			case 2:
				amt = int64(r.Pick(0, 1, wdFee, wdFee+1))
			}
			s.g.Emit("withdraw %d %d", id, amt)
			if r.Chance(6) { // a second withdrawal of the same proposal in the same block
				s.g.Emit("withdraw %d %d", id, amt)
			}
		}
	}
}

func history(g *hx.Gen, r *hx.Rand, blocks int) {
	s := &genState{g: g, r: r}
	used0 := int64(r.Pick(0, 0, 0, 1000, 60000)) * ela
	if r.Chance(35) { // little is left of the stage amount although the 10%% cap is still large: proposals compete
		s.tight = true
		g.Emit("reset %d %d %d %d %d %d %d %d", stageAmount, 0, crPeriod, pubPeriod, agreeCount, wdFee, rejectThr,
			stageAmount-int64(r.Pick(3000, 6000, 9000, 12000, 15000))*ela)
	} else {
		g.Emit("reset %d %d %d %d %d %d %d", stageAmount, used0, crPeriod, pubPeriod, agreeCount, wdFee, rejectThr)
	}
	s.h = 1
	for b := 0; b < blocks; b++ {
		if b > 8 && r.Chance(7) { // a committee change: the used amount is recomputed from the proposals
			s.block(func() { s.g.Emit("chg") })
			continue
		}
		s.block(func() {
			n := r.Pick(0, 1, 1, 2, 3, 4)
			for i := 0; i < n; i++ {
				s.randomTx()
			}
		})
	}
}

func gen(g *hx.Gen) {
	n := g.N(50, 500)
	for i := 0; i < n; i++ {
		history(g, g.R.Fork(uint64(i)), 14+g.R.Intn(20))
	}
}
