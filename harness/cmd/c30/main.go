// Harness for C30: irreversible blocks are never detached — forks across the last irreversible
// height delivered to the real BlockChain.ProcessBlock with the DPoS state fields the guard reads
// (State.IsIrreversible: LastIrreversibleHeight, ConsensusAlgorithm, RevertToPOWStartHeight,
// CRCOnlyDPOSHeight) set by the harness, against the Lean model (Model/Node.lean isIrreversible,
// sideOrReorg). Line protocol: harness/regnet/sim.go.
package main

import (
	"fmt"
	"strings"

	"elaverif/harness/hx"
	"elaverif/harness/regnet"

	"github.com/elastos/Elastos.ELA/common"
	"github.com/elastos/Elastos.ELA/core/types"
)

var sim = &regnet.Sim{Name: "c30", Maturity: 2, GuardFrom: 3}
var pending *hx.Violation
var lih uint32

func exec(t []string) string {
	pending = nil
	switch t[0] {
	case "irr":
		out := sim.Exec(t)
		lih = sim.N.Chain.GetState().LastIrreversibleHeight
		return out
	case "reset":
		lih = 0
		return sim.Exec(t)
	case "deliver", "deliverc":
		before := sim.N.ActiveChain()
		out := sim.Exec(t)
		after := sim.N.ActiveChain()
		on := map[common.Uint256]bool{}
		for _, h := range after {
			on[h] = true
		}
		// property, judged on the implementation alone: a block at or below the recorded last
		// irreversible height is never detached (the guard applies above CRCOnlyDPOSHeight)
		tipH := uint32(len(before) - 1)
		if tipH > sim.N.Params.CRCOnlyDPOSHeight {
			for height, h := range before {
				if !on[h] && uint32(height) <= lih {
					pending = &hx.Violation{Kind: "irreversible-block-detached",
						Detail: fmt.Sprintf("block %s at height %d detached, last irreversible height %d", regnet.ID(h), height, lih)}
					break
				}
			}
		}
		return out
	}
	return sim.Exec(t)
}

func oracle(t []string, out string) *hx.Violation { return pending }

func nontrivial(t []string, out string) bool {
	return strings.HasPrefix(t[0], "deliver") && strings.HasPrefix(out, "side")
}

func gen(g *hx.Gen) {
	nh := g.N(30, 250)
	for i := 0; i < nh; i++ {
		one(g)
	}
	sim.Close()
}

func one(g *hx.Gen) {
	r := g.R
	h := &regnet.HistGen{S: sim, R: r, Emit: g.Emit}
	h.Start()
	trunk := &regnet.Branch{}
	n := 6 + r.Intn(9)
	for i := 0; i < n; i++ {
		b := h.HonestBlock(trunk, 0)
		trunk = regnet.Extend(trunk, b)
		h.Deliver(b)
	}
	for round := 0; round < 3; round++ {
		tipH := len(trunk.Blocks)
		// state of the guard: last irreversible height near the fork points, both modes, the
		// revert-to-PoW era before or after the tip
		l := 0
		if r.Chance(75) {
			l = tipH - 1 - r.Intn(8)
			if l < 0 {
				l = 0
			}
		}
		if r.Chance(12) {
			l = tipH + r.Intn(3) // recorded above the tip (first blocks after a hand-over)
		}
		dpos := r.Intn(2)
		rs := []int{1, tipH, tipH + 1, 1000000}[r.Intn(4)]
		g.Emit("irr %d %d %d", l, dpos, rs)
		h.WithConfirm = dpos == 0 && r.Bool() // confirmations are ignored in POW mode
		depth := 1 + r.Intn(8)
		if depth > tipH {
			depth = tipH
		}
		br := regnet.Fork(trunk, tipH-depth)
		var blks []*types.Block
		for k := 0; k <= depth; k++ {
			b := h.HonestBlock(br, 0)
			br = regnet.Extend(br, b)
			blks = append(blks, b)
		}
		for _, b := range blks {
			h.Deliver(b)
		}
		g.Emit("obs c h")
		// a refused fork keeps growing: it must stay refused however far it gets ahead
		if tip, _ := sim.N.Tip(); tip != sim.BranchTip(br).Hash() {
			for k := 1 + r.Intn(2*depth+3); k > 0; k-- {
				b := h.HonestBlock(br, 0)
				br = regnet.Extend(br, b)
				h.Deliver(b)
			}
			g.Emit("obs c h")
		}
		tip, _ := sim.N.Tip()
		if tip == sim.BranchTip(br).Hash() {
			trunk = br
		}
		// the node moves forward again
		for k := r.Intn(3); k > 0; k-- {
			b := h.HonestBlock(trunk, 0)
			trunk = regnet.Extend(trunk, b)
			h.Deliver(b)
		}
	}
}

func main() {
	hx.Main(&hx.Prop{Name: "C30", Gen: gen, Exec: exec, Oracle: oracle, Nontrivial: nontrivial, Stateful: true,
		Bucket: func(t []string, out string) string {
			if t[0] == "obs" {
				return "obs"
			}
			return t[0] + "/" + strings.Fields(out)[0]
		}})
}
