// Harness for C30: irreversible blocks are never detached — forks across the last irreversible
// height delivered to the real BlockChain.ProcessBlock with the DPoS state fields the guard reads
// (State.IsIrreversible: LastIrreversibleHeight, ConsensusAlgorithm, RevertToPOWStartHeight,
// CRCOnlyDPOSHeight) set by the harness, against the Lean model (Model/Node.lean isIrreversible,
// sideOrReorg). Line protocol: harness/regnet/sim.go.
package main

import (
	"fmt"
	"strconv"
	"strings"

	"elaverif/harness/hx"
	"elaverif/harness/regnet"

	"github.com/elastos/Elastos.ELA/common"
	"github.com/elastos/Elastos.ELA/core/types"
	"github.com/elastos/Elastos.ELA/dpos/state"
)

var sim = &regnet.Sim{Name: "c30", Maturity: 2, GuardFrom: 3}
var pending *hx.Violation
var lih uint32

var lihState *state.VerifLIH
var lihLast uint32
var lihRolledBack bool

func u32(x string) uint32 {
	v, err := strconv.ParseUint(x, 10, 32)
	if err != nil {
		panic("harness: bad number " + x)
	}
	return uint32(v)
}

func exec(t []string) string {
	pending = nil
	switch t[0] {
	case "lihnew":
		lihState = state.NewVerifLIH(u32(t[1]))
		lihLast = 0
		lihRolledBack = false
		return "ok"
	case "lihset":
		lihState.Set(u32(t[1]), u32(t[2]), u32(t[3]), t[4] != "0")
		lihLast = u32(t[1])
		return "ok"
	case "lihstep":
		l, d := lihState.Step(u32(t[1]))
		// property, on the implementation alone: moving forward never lowers the recorded height
		// (judged where C30_monotone applies: below height 6 the uint32 `height - 6` of the initialising
		// branch wraps — only reachable with RevertToPOWStartHeight < 6, which no network has)
		if ht := u32(t[1]); l < lihLast && ht >= 6 && lihLast <= ht+1 {
			kind := "last-irreversible-height-decreased"
			if lihRolledBack {
				// the rollback closures of the advance entry do not restore LastIrreversibleHeight
				// (C21-last-irreversible-height), so after a rollback it can sit above DPOSStartHeight
				// and the next advance lowers it
				kind = "last-irreversible-height-decreased-after-rollback"
			}
			pending = &hx.Violation{Kind: kind,
				Detail: fmt.Sprintf("height %s: %d -> %d", t[1], lihLast, l)}
		}
		lihLast = l
		return fmt.Sprintf("%d %d", l, d)
	case "lihback":
		l, d, err := lihState.Rollback(u32(t[1]))
		if err != nil {
			return "err"
		}
		// a rollback restores LastIrreversibleHeight only when it undoes the initialisation (back to 0); the
		// steady advance is never taken back, so any other decrease here lowers the guard
		if l < lihLast && l != 0 {
			pending = &hx.Violation{Kind: "last-irreversible-height-lowered-by-rollback",
				Detail: fmt.Sprintf("rollback to %s: %d -> %d", t[1], lihLast, l)}
		}
		lihRolledBack = true
		lihLast = l
		return fmt.Sprintf("%d %d", l, d)
	case "lihload":
		// restart from a checkpoint: the key frame is serialised and read back
		bl, bd, bw, bm := lihState.Fields()
		l, d, w, m, err := lihState.Reload()
		if err != nil {
			return "err"
		}
		if l != bl || d != bd || w != bw || m != bm {
			pending = &hx.Violation{Kind: "state-keyframe-reload-changes-fields",
				Detail: fmt.Sprintf("LastIrreversibleHeight/DPOSStartHeight/DPOSWorkHeight/dpos %d/%d/%d/%v -> %d/%d/%d/%v", bl, bd, bw, bm, l, d, w, m)}
		}
		lihLast = l
		mm := 0
		if m {
			mm = 1
		}
		return fmt.Sprintf("%d %d %d %d", l, d, w, mm)
	case "irr":
		out := sim.Exec(t)
		lih = sim.N.Chain.GetState().LastIrreversibleHeight
		return out
	case "reset":
		lih = 0
		return sim.Exec(t)
	case "deliver", "deliverc", "reorgto":
		before := sim.N.ActiveChain()
		out := sim.Exec(t)
		after := sim.N.ActiveChain()
		on := map[common.Uint256]bool{}
		for _, h := range after {
			on[h] = true
		}
		// property, judged on the implementation alone: a block at or below the recorded last
		// irreversible height is never detached (the guard applies above CRCOnlyDPOSHeight)
		tipH := uint32(len(before) - 1)
		if tipH > sim.N.Params.CRCOnlyDPOSHeight {
			for height, h := range before {
				if !on[h] && uint32(height) <= lih {
					pending = &hx.Violation{Kind: "irreversible-block-detached",
						Detail: fmt.Sprintf("block %s at height %d detached, last irreversible height %d", regnet.ID(h), height, lih)}
					break
				}
			}
		}
		return out
	}
	return sim.Exec(t)
}

func oracle(t []string, out string) *hx.Violation { return pending }

func nontrivial(t []string, out string) bool {
	return strings.HasPrefix(t[0], "deliver") && strings.HasPrefix(out, "side")
}

// lihStream drives tryUpdateLastIrreversibleHeight on a real State: initialisation, steady DPoS, the
// PoW <-> DPoS hand-overs (mode and DPOSWorkHeight written as the revert transactions would), heights
// around RevertToPOWStartHeight, and rollbacks.
func lihStream(g *hx.Gen) {
	r := g.R
	for k := 0; k < g.N(25, 250); k++ {
		g.Emit("reset")
		rs := uint32(r.Pick(0, 6, 20, 50))
		g.Emit("lihnew %d", rs)
		h := rs + uint32(r.Intn(12))
		if h < 6 && r.Chance(85) {
			h = 6 + uint32(r.Intn(5))
		}
		lih, start, work, dpos := uint32(0), uint32(0), uint32(0), 1
		if r.Chance(40) {
			lih = h - uint32(r.Intn(int(h)+1))%8
			if lih > h {
				lih = 0
			}
			start = lih + uint32(r.Intn(3))
			g.Emit("lihset %d %d %d %d", lih, start, work, dpos)
		}
		for i := 0; i < 12+r.Intn(25); i++ {
			c := r.Intn(100)
			switch {
			case c < 70:
				h++
				g.Emit("lihstep %d", h)
			case c < 80: // revert to PoW: mode changes, the work height is cleared
				dpos = 0
				out := strings.Fields(g.Emit("lihstep %d", h+1))
				h++
				if len(out) == 2 {
					g.Emit("lihset %s %s 0 0", out[0], out[1])
				}
			case c < 90: // revert to DPoS at height h: DPOSWorkHeight = h, mode DPOS; next block is the hand-over
				dpos = 1
				out := strings.Fields(g.Emit("lihstep %d", h+1))
				h++
				if len(out) == 2 {
					g.Emit("lihset %s %s %d 1", out[0], out[1], h)
				}
			case c < 94: // restart from a checkpoint
				g.Emit("lihload")
			default: // roll a few heights back and go on from there
				back := uint32(1 + r.Intn(4))
				if back > h {
					back = h
				}
				h -= back
				g.Emit("lihback %d", h)
			}
		}
	}
}

func gen(g *hx.Gen) {
	lihStream(g)
	nh := g.N(30, 250)
	for i := 0; i < nh; i++ {
		one(g)
	}
	sim.Close()
}

func one(g *hx.Gen) {
	r := g.R
	h := &regnet.HistGen{S: sim, R: r, Emit: g.Emit}
	h.Start()
	// blocks that travelled with a dummy confirmation (POW mode ignores it; the block store and the side chain
	// caches keep it, and attaching such a block in DPOS mode would have it checked)
	conf := map[common.Uint256]bool{}
	dl := func(b *types.Block) (string, string) {
		if h.WithConfirm {
			conf[b.Hash()] = true
		}
		return h.Deliver(b)
	}
	trunk := &regnet.Branch{}
	n := 6 + r.Intn(9)
	for i := 0; i < n; i++ {
		b := h.HonestBlock(trunk, 0)
		trunk = regnet.Extend(trunk, b)
		dl(b)
	}
	for round := 0; round < 3; round++ {
		tipH := len(trunk.Blocks)
		// state of the guard: last irreversible height near the fork points, both modes, the
		// revert-to-PoW era before or after the tip
		l := 0
		if r.Chance(75) {
			l = tipH - 1 - r.Intn(8)
			if l < 0 {
				l = 0
			}
		}
		if r.Chance(12) {
			l = tipH + r.Intn(3) // recorded above the tip (first blocks after a hand-over)
		}
		dpos := r.Intn(2)
		rs := []int{1, tipH, tipH + 1, 1000000}[r.Intn(4)]
		g.Emit("irr %d %d %d", l, dpos, rs)
		h.WithConfirm = dpos == 0 && r.Bool() // confirmations are ignored in POW mode
		depth := 1 + r.Intn(8)
		if depth > tipH {
			depth = tipH
		}
		br := regnet.Fork(trunk, tipH-depth)
		var blks []*types.Block
		for k := 0; k <= depth; k++ {
			b := h.HonestBlock(br, 0)
			br = regnet.Extend(br, b)
			blks = append(blks, b)
		}
		for _, b := range blks {
			dl(b)
		}
		g.Emit("obs c h")
		// a refused fork keeps growing: it must stay refused however far it gets ahead
		if tip, _ := sim.N.Tip(); tip != sim.BranchTip(br).Hash() {
			for k := 1 + r.Intn(2*depth+3); k > 0; k-- {
				b := h.HonestBlock(br, 0)
				br = regnet.Extend(br, b)
				dl(b)
			}
			g.Emit("obs c h")
		}
		tip, _ := sim.N.Tip()
		if tip == sim.BranchTip(br).Hash() {
			trunk, br = br, trunk // br is now the detached old chain
		}
		// the exported BlockChain.ReorganizeChain (DPoS: a confirmed block on a fork) on an indexed block of the
		// other branch: its tip (behind, level or far ahead) or a block in its middle (a branch that attaches fewer
		// blocks than it detaches). No work comparison there — only the irreversibility guard stands in the way.
		if r.Chance(60) && len(br.Blocks) > 0 {
			for k := 1 + r.Intn(2); k > 0; k-- {
				other := br
				forkAt := 0
				for forkAt < len(trunk.Blocks) && forkAt < len(br.Blocks) && trunk.Blocks[forkAt].Hash() == br.Blocks[forkAt].Hash() {
					forkAt++
				}
				if forkAt >= len(other.Blocks) {
					break
				}
				idx := len(other.Blocks) - 1
				if r.Chance(50) {
					idx = forkAt + r.Intn(len(other.Blocks)-forkAt)
				}
				target := other.Blocks[idx]
				pathConf := false
				for _, pb := range other.Blocks[forkAt : idx+1] {
					pathConf = pathConf || conf[pb.Hash()]
				}
				if r.Chance(30) { // the guard's inputs change between the attempts
					d := r.Intn(2)
					if pathConf {
						d = 0
					}
					dpos = d
					g.Emit("irr %d %d %d", r.Intn(len(trunk.Blocks)+2), d, []int{1, len(trunk.Blocks), 1000000}[r.Intn(3)])
					if d != 0 {
						h.WithConfirm = false // dummy confirmations only travel in POW mode, where they are ignored
					}
				}
				if pathConf && dpos != 0 {
					break
				}
				g.Emit("reorgto %s", regnet.ID(target.Hash()))
				g.Emit("obs c h")
				if tip, _ := sim.N.Tip(); tip == target.Hash() {
					trunk, br = regnet.Fork(other, idx+1), trunk
				} else if tip != sim.BranchTip(trunk).Hash() {
					return // a switch that failed half-way (not expected with honest blocks): end of this history
				}
			}
		}
		// the node moves forward again
		for k := r.Intn(3); k > 0; k-- {
			b := h.HonestBlock(trunk, 0)
			trunk = regnet.Extend(trunk, b)
			dl(b)
		}
	}
}

func main() {
	hx.Main(&hx.Prop{Name: "C30", Gen: gen, Exec: exec, Oracle: oracle, Nontrivial: nontrivial, Stateful: true,
		Bucket: func(t []string, out string) string {
			if t[0] == "obs" {
				return "obs"
			}
			return t[0] + "/" + strings.Fields(out)[0]
		}})
}
