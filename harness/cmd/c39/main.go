// Harness for C39: bloom filter add / match / outpoints / MatchTxAndUpdate / MurmurHash3.
//
// Every op carries the complete filter state (bytes, hash funcs, tweak, tx types), so Exec
// is a pure function of the op line.  The generator chains ops (the filter produced by one
// op is the input of the next) to explore evolving filters.
package main

import (
	"bytes"
	"encoding/hex"
	"fmt"
	"math"
	"os"
	"strconv"
	"strings"

	"elaverif/harness/hx"

	"github.com/elastos/Elastos.ELA/common"
	"github.com/elastos/Elastos.ELA/core/contract/program"
	"github.com/elastos/Elastos.ELA/core/transaction"
	ctypes "github.com/elastos/Elastos.ELA/core/types/common"
	"github.com/elastos/Elastos.ELA/core/types/interfaces"
	"github.com/elastos/Elastos.ELA/core/types/outputpayload"
	"github.com/elastos/Elastos.ELA/core/types/payload"
	dstate "github.com/elastos/Elastos.ELA/dpos/state"
	"github.com/elastos/Elastos.ELA/elanet/bloom"
	"github.com/elastos/Elastos.ELA/elanet/filter"
	"github.com/elastos/Elastos.ELA/elanet/filter/customidfilter"
	"github.com/elastos/Elastos.ELA/elanet/filter/nextturndposfilter"
	"github.com/elastos/Elastos.ELA/elanet/filter/returnsidechaindepositcoinfilter"
	"github.com/elastos/Elastos.ELA/elanet/filter/sidefilter"
	"github.com/elastos/Elastos.ELA/elanet/filter/upgradefilter"
	"github.com/elastos/Elastos.ELA/p2p/msg"
)

func u32(s string) uint32 {
	v, err := strconv.ParseUint(s, 10, 32)
	if err != nil {
		panic("harness: bad u32 " + s)
	}
	return uint32(v)
}
func atoi(s string) int {
	v, err := strconv.Atoi(s)
	if err != nil {
		panic("harness: bad int " + s)
	}
	return v
}

func mkFilter(bits, hf, tw, types string) *bloom.Filter {
	b := hx.UnHex(bits)
	if b == nil {
		b = []byte{}
	}
	var tt []ctypes.TxType
	for _, t := range hx.UnHex(types) {
		tt = append(tt, ctypes.TxType(t))
	}
	return bloom.LoadFilter(&msg.FilterLoad{Filter: append([]byte(nil), b...), HashFuncs: u32(hf), Tweak: u32(tw), TxTypes: tt})
}

func bitsOf(f *bloom.Filter) string { return hx.Hex(f.GetFilterLoadMsg().Filter) }

func uint256Of(b []byte) common.Uint256 {
	var u common.Uint256
	if len(b) != 32 {
		panic("harness: tx id must be 32 bytes")
	}
	copy(u[:], b)
	return u
}

func outpointOf(s string) *ctypes.OutPoint {
	p := strings.Split(s, ":")
	if len(p) != 2 {
		panic("harness: bad outpoint " + s)
	}
	i := atoi(p[1])
	if i < 0 || i > 0xffff {
		panic("harness: bad outpoint index")
	}
	return ctypes.NewOutPoint(uint256Of(hx.UnHex(p[0])), uint16(i))
}

var txTypes = []byte{0x00, 0x02, 0x03, 0x0c, 0x24}

// buildTx rebuilds the real transaction described by the op tokens.
func buildTx(ty byte, lock uint32, outs [][]byte, ins []*ctypes.OutPoint) interfaces.Transaction {
	var pl interfaces.Payload
	switch ctypes.TxType(ty) {
	case ctypes.CoinBase:
		pl = &payload.CoinBase{Content: []byte("c39")}
	case ctypes.TransferAsset:
		pl = &payload.TransferAsset{}
	case ctypes.Record:
		pl = &payload.Record{Type: "c39", Content: []byte{1, 2, 3}}
	case ctypes.ReturnDepositCoin:
		pl = &payload.ReturnDepositCoin{}
	case ctypes.ReturnCRDepositCoin:
		pl = &payload.ReturnDepositCoin{}
	default:
		panic("harness: unsupported tx type in op")
	}
	var outputs []*ctypes.Output
	for i, ph := range outs {
		var u common.Uint168
		if len(ph) != 21 {
			panic("harness: program hash must be 21 bytes")
		}
		copy(u[:], ph)
		outputs = append(outputs, &ctypes.Output{Value: common.Fixed64(i + 1), ProgramHash: u, Type: ctypes.OTNone, Payload: &outputpayload.DefaultOutput{}})
	}
	var inputs []*ctypes.Input
	for _, op := range ins {
		inputs = append(inputs, &ctypes.Input{Previous: *op, Sequence: 0})
	}
	return transaction.CreateTransaction(ctypes.TxVersion09, ctypes.TxType(ty), 0, pl, []*ctypes.Attribute{}, inputs, outputs, lock,
		[]*program.Program{})
}

type parsedTx struct {
	f    *bloom.Filter
	tx   interfaces.Transaction
	hash []byte
	outs [][]byte
	ins  []*ctypes.OutPoint
}

// tx <bits> <hf> <tw> <types> <hash> <type> <lock> <nout> ph.. <nin> txid:idx..
func parseTx(t []string) *parsedTx {
	p := &parsedTx{f: mkFilter(t[1], t[2], t[3], t[4]), hash: hx.UnHex(t[5])}
	ty := byte(atoi(t[6]))
	lock := u32(t[7])
	n := atoi(t[8])
	k := 9
	for i := 0; i < n; i++ {
		p.outs = append(p.outs, hx.UnHex(t[k]))
		k++
	}
	m := atoi(t[k])
	k++
	for i := 0; i < m; i++ {
		p.ins = append(p.ins, outpointOf(t[k]))
		k++
	}
	if k != len(t) {
		panic("harness: trailing tokens in tx op")
	}
	p.tx = buildTx(ty, lock, p.outs, p.ins)
	return p
}

func b2s(b bool) string {
	if b {
		return "true"
	}
	return "false"
}

func exec(t []string) string {
	switch t[0] {
	case "murmur":
		s, err := strconv.ParseUint(t[1], 16, 32)
		if err != nil {
			panic("harness: bad seed")
		}
		return fmt.Sprintf("%08x", bloom.MurmurHash3(uint32(s), hx.UnHex(t[2])))
	case "match":
		return b2s(mkFilter(t[1], t[2], t[3], "-").Matches(hx.UnHex(t[4])))
	case "add":
		f := mkFilter(t[1], t[2], t[3], "-")
		d := hx.UnHex(t[4])
		f.Add(d)
		return bitsOf(f) + " " + b2s(f.Matches(d))
	case "matchop":
		return b2s(mkFilter(t[1], t[2], t[3], "-").MatchesOutPoint(outpointOf(t[4] + ":" + t[5])))
	case "addop":
		f := mkFilter(t[1], t[2], t[3], "-")
		op := outpointOf(t[4] + ":" + t[5])
		f.AddOutPoint(op)
		return bitsOf(f) + " " + b2s(f.MatchesOutPoint(op))
	case "addall":
		f := mkFilter(t[1], t[2], t[3], "-")
		n := atoi(t[4])
		var all [][]byte
		k := 5
		for i := 0; i < n; i++ {
			d := hx.UnHex(t[k])
			k++
			f.Add(d)
			all = append(all, d)
		}
		m := atoi(t[k])
		k++
		for i := 0; i < m; i++ {
			all = append(all, hx.UnHex(t[k]))
			k++
		}
		var sb strings.Builder
		for _, d := range all {
			if f.Matches(d) {
				sb.WriteByte('1')
			} else {
				sb.WriteByte('0')
			}
		}
		return bitsOf(f) + " " + sb.String()
	case "txf":
		return execTxf(t)
	case "txf2":
		return execTxf2(t)
	case "reload": // reload <bitsA> <hfA> <twA> <bitsB> <hfB> <twB> <data>: one Filter object, loaded with A, then Reload(B)
		f := mkFilter(t[1], t[2], t[3], "-")
		nb := mkFilter(t[4], t[5], t[6], "-").GetFilterLoadMsg()
		f.Reload(nb)
		d := hx.UnHex(t[7])
		before := f.Matches(d)
		f.Add(d)
		return b2s(before) + " " + bitsOf(f) + " " + b2s(f.Matches(d))
	case "ser": // ser <bits> <hf> <tw> <flags> <types>
		f := mkFilter(t[1], t[2], t[3], t[5]).GetFilterLoadMsg()
		f.Flags = uint8(atoi(t[4]))
		buf := new(bytes.Buffer)
		if err := f.Serialize(buf); err != nil {
			return "err"
		}
		return hx.Hex(buf.Bytes())
	case "load":
		var fl msg.FilterLoad
		if err := fl.Deserialize(bytes.NewReader(hx.UnHex(t[1]))); err != nil {
			return "err"
		}
		var tt []byte
		for _, x := range fl.TxTypes {
			tt = append(tt, byte(x))
		}
		return fmt.Sprintf("ok %s %d %d %s", hx.Hex(fl.Filter), fl.HashFuncs, fl.Tweak, hx.Hex(tt))
	case "peer": // peer <wire> <n> d.. <m> (<hash> <ph> <lock>)..: the path a remote peer drives (TxFilter)
		tf := bloom.NewTxFilter()
		if err := tf.Load(hx.UnHex(t[1])); err != nil {
			return "err"
		}
		n := atoi(t[2])
		k := 3
		for i := 0; i < n; i++ {
			if err := tf.Add(hx.UnHex(t[k])); err != nil {
				return "err-add"
			}
			k++
		}
		m := atoi(t[k])
		k++
		var sb strings.Builder
		for i := 0; i < m; i++ {
			tx := buildTx(2, u32(t[k+2]), [][]byte{hx.UnHex(t[k+1])}, nil)
			h := tx.Hash()
			if !bytes.Equal(h[:], hx.UnHex(t[k])) {
				return "hash-mismatch"
			}
			if tf.MatchUnconfirmed(tx) {
				sb.WriteByte('1')
			} else {
				sb.WriteByte('0')
			}
			k += 3
		}
		if k != len(t) {
			panic("harness: trailing tokens in peer op")
		}
		return "ok " + sb.String()
	case "tx":
		p := parseTx(t)
		h := p.tx.Hash()
		if !bytes.Equal(h[:], p.hash) {
			return "hash-mismatch"
		}
		r := p.f.MatchTxAndUpdate(p.tx)
		return b2s(r) + " " + bitsOf(p.f)
	}
	panic("harness: unknown op " + t[0])
}

// ---------------------------------------------------------------- protocol reference (independent of /repo)
//
// What a remote wallet computes: MurmurHash3 x86_32 as published (Appleby, SMHasher) and the
// BIP37 bit positions.  Written from the specification, checked against published test vectors at
// start-up; it shares no code with elanet/bloom.

func refMurmur(seed uint32, data []byte) uint32 {
	h := seed
	n := len(data)
	for i := 0; i+4 <= n; i += 4 {
		k := uint32(data[i]) | uint32(data[i+1])<<8 | uint32(data[i+2])<<16 | uint32(data[i+3])<<24
		k *= 0xcc9e2d51
		k = k<<15 | k>>17
		k *= 0x1b873593
		h ^= k
		h = h<<13 | h>>19
		h = h*5 + 0xe6546b64
	}
	var k uint32
	t := data[n&^3:]
	switch len(t) {
	case 3:
		k ^= uint32(t[2]) << 16
		fallthrough
	case 2:
		k ^= uint32(t[1]) << 8
		fallthrough
	case 1:
		k ^= uint32(t[0])
		k *= 0xcc9e2d51
		k = k<<15 | k>>17
		k *= 0x1b873593
		h ^= k
	}
	h ^= uint32(n)
	h ^= h >> 16
	h *= 0x85ebca6b
	h ^= h >> 13
	h *= 0xc2b2ae35
	h ^= h >> 16
	return h
}

// published MurmurHash3_x86_32 vectors (SMHasher verification values as circulated with the
// reference implementation, and the vectors of the BIP37 implementations' test suites)
var murmurVectors = []struct {
	seed uint32
	data string // hex
	want uint32
}{
	{0x00000000, "", 0x00000000}, {0x00000001, "", 0x514e28b7}, {0xffffffff, "", 0x81f16f39},
	{0x00000000, "ffffffff", 0x76293b50}, {0x00000000, "21436587", 0xf55b516b}, {0x5082edee, "21436587", 0x2362f9de},
	{0x00000000, "214365", 0x7e4a8634}, {0x00000000, "2143", 0xa0f7b07a}, {0x00000000, "21", 0x72661cf4},
	{0x00000000, "00000000", 0x2362f9de}, {0x00000000, "000000", 0x85f0b427}, {0x00000000, "0000", 0x30f4c306},
	{0x00000000, "00", 0x514e28b7},
	{0xfba4c795, "", 0x6a396f08}, {0xfba4c795, "00", 0xea3f0b17}, {0x00000000, "ff", 0xfd6cf10d},
	{0x00000000, "0011", 0x16c6b7ab}, {0x00000000, "001122", 0x8eb51c3d}, {0x00000000, "00112233", 0xb4471bf8},
	{0x00000000, "0011223344", 0xe2301fa8}, {0x00000000, "001122334455", 0xfc2e4a15},
	{0x00000000, "00112233445566", 0xb074502c}, {0x00000000, "0011223344556677", 0x8034d2a0},
	{0x00000000, "001122334455667788", 0xb4698def},
}

func init() {
	for _, v := range murmurVectors {
		b, _ := hex.DecodeString(v.data)
		if got := refMurmur(v.seed, b); got != v.want {
			fmt.Fprintf(os.Stderr, "HARNESS BUG: reference MurmurHash3 fails published vector seed=%08x data=%s: %08x != %08x\n", v.seed, v.data, got, v.want)
			os.Exit(3)
		}
	}
}

// refPositions are the bit positions BIP37 assigns to data in a filter of n bytes.
func refPositions(n int, hf, tweak uint32, data []byte) []uint32 {
	var res []uint32
	for i := uint32(0); i < hf; i++ {
		res = append(res, refMurmur(i*0xfba4c795+tweak, data)%(uint32(n)*8))
	}
	return res
}

// refContains: would a wallet following the protocol consider data to be in the filter?
func refContains(bits []byte, hf, tweak uint32, data []byte) bool {
	if len(bits) == 0 {
		return true
	}
	for _, p := range refPositions(len(bits), hf, tweak, data) {
		if bits[p>>3]&(1<<(p&7)) == 0 {
			return false
		}
	}
	return true
}

// refInsert: what a wallet does to put data into its filter before sending filterload.
func refInsert(bits []byte, hf, tweak uint32, data []byte) {
	if len(bits) == 0 {
		return
	}
	for _, p := range refPositions(len(bits), hf, tweak, data) {
		bits[p>>3] |= 1 << (p & 7)
	}
}

func opData(txid []byte, idx int) []byte {
	return append(append([]byte(nil), txid...), byte(idx), byte(idx>>8))
}

// ---------------------------------------------------------------- oracle (independent of the Lean model)

func subset(a, b []byte) bool {
	if len(a) != len(b) {
		return false
	}
	for i := range a {
		if a[i]&^b[i] != 0 {
			return false
		}
	}
	return true
}

func oracle(t []string, out string) *hx.Violation {
	if out == "panic" {
		return &hx.Violation{Kind: "panic", Detail: "bloom filter operation panicked: " + hx.LastPanic()}
	}
	f := strings.Fields(out)
	remote := func(what string) *hx.Violation {
		return &hx.Violation{Kind: "protocol-false-negative", Detail: what + ": a wallet that builds / checks its filter as the protocol specifies (reference MurmurHash3 verified on published vectors, BIP37 bit positions) disagrees with the node, so its items are not matched"}
	}
	switch t[0] {
	case "murmur":
		sd, _ := strconv.ParseUint(t[1], 16, 32)
		if want := fmt.Sprintf("%08x", refMurmur(uint32(sd), hx.UnHex(t[2]))); out != want {
			return remote(fmt.Sprintf("MurmurHash3(%s, %s) = %s, the published algorithm gives %s", t[1], t[2], out, want))
		}
	case "match", "matchop":
		d := hx.UnHex(t[4])
		if t[0] == "matchop" {
			d = opData(hx.UnHex(t[4]), atoi(t[5]))
		}
		if out == "false" && refContains(hx.UnHex(t[1]), u32(t[2]), u32(t[3]), d) {
			return remote("the filter contains the item (every protocol bit position is set) but Matches returned false")
		}
	case "reload":
		if len(f) == 3 {
			d := hx.UnHex(t[7])
			if f[0] == "false" && refContains(hx.UnHex(t[4]), u32(t[5]), u32(t[6]), d) {
				return remote("after Reload the new filter contains the item but Matches returned false")
			}
			if f[2] != "true" {
				return &hx.Violation{Kind: "false-negative", Detail: "element does not match right after it was added to a reloaded filter"}
			}
			if !refContains(hx.UnHex(f[1]), u32(t[5]), u32(t[6]), d) {
				return remote("after Reload, Add did not set the protocol bit positions of the item in the new filter")
			}
		}
	}
	switch t[0] {
	case "add", "addop":
		if len(f) == 2 {
			d := hx.UnHex(t[4])
			if t[0] == "addop" {
				d = opData(hx.UnHex(t[4]), atoi(t[5]))
			}
			if !refContains(hx.UnHex(f[0]), u32(t[2]), u32(t[3]), d) {
				return remote("Add did not set the protocol bit positions of the item")
			}
			if f[1] != "true" {
				return &hx.Violation{Kind: "false-negative", Detail: "element does not match right after it was added"}
			}
			if !subset(hx.UnHex(t[1]), hx.UnHex(f[0])) {
				return &hx.Violation{Kind: "bit-cleared", Detail: "add cleared a bit or changed the filter size"}
			}
		}
	case "addall":
		n := atoi(t[4])
		if len(f) == 2 {
			for i := 0; i < n && i < len(f[1]); i++ {
				if f[1][i] != '1' {
					return &hx.Violation{Kind: "false-negative", Detail: fmt.Sprintf("element #%d of the added set does not match afterwards", i)}
				}
			}
		}
	case "txf2":
		o := parseTxf2(t)
		var fl msg.FilterLoad
		if o.typ > 5 || fl.Deserialize(bytes.NewReader(o.wire)) != nil || fl.Tweak == math.MaxUint32 {
			return nil
		}
		if out == "err-add" {
			for _, a := range o.adds {
				if len(a) > msg.MaxFilterAddDataSize {
					return nil
				}
			}
			return &hx.Violation{Kind: "filteradd-refused", Detail: "a loaded filter refused a filteradd element within the protocol limit (520 bytes): the wallet's item is never watched"}
		}
		if len(f) != 2 {
			return nil
		}
		watched := map[string]bool{}
		for _, a := range o.adds {
			watched[string(a)] = true
		}
		// the DPOS side filter (type 1) does not consult the bloom filter on the unconfirmed path (documented exception)
		skip1 := o.typ == filter.FTDPOS && o.mode[0] == 'u'
		skip2 := o.typ == filter.FTDPOS && o.mode[1] == 'u'
		for _, in := range o.ins {
			if !skip1 && watched[string(opData(in.TxID[:], int(in.Index)))] && f[0] != "true" {
				return &hx.Violation{Kind: "tx-false-negative", Detail: "transaction spends an outpoint added with filteradd but the match returned false"}
			}
		}
		if !skip1 && !skip2 && o.k < len(o.outs) && watched[string(o.outs[o.k])] {
			if f[0] != "true" {
				return &hx.Violation{Kind: "tx-false-negative", Detail: fmt.Sprintf("filter type %d, mode %s: transaction pays to a watched script hash but the match returned false", o.typ, o.mode)}
			}
			if f[1] != "true" {
				return &hx.Violation{Kind: "outpoint-not-added", Detail: fmt.Sprintf("filter type %d, mode %s (c = confirmed, u = unconfirmed/relay path): output %d of a matched transaction pays to a watched script hash, but the transaction that spends it afterwards is not matched (the filter was not updated with the outpoint)", o.typ, o.mode, o.k)}
			}
		}
	case "txf":
		if out != "true" && out != "false" {
			return nil
		}
		o := parseTxf(t)
		var fl msg.FilterLoad
		if fl.Deserialize(bytes.NewReader(o.wire)) != nil || fl.Tweak == math.MaxUint32 {
			return nil
		}
		watched := map[string]bool{}
		for _, a := range o.adds {
			watched[string(a)] = true
		}
		pays := false
		for _, ph := range o.outs {
			if watched[string(ph)] {
				pays = true
			}
		}
		if pays && out == "false" {
			if !o.confirmed && o.typ == filter.FTDPOS {
				return nil // documented: the DPOS side filter does not consult the bloom filter for unconfirmed transactions
			}
			return &hx.Violation{Kind: "tx-false-negative", Detail: fmt.Sprintf("filter type %d: transaction pays to a script hash added with filteradd but Match%s returned false",
				o.typ, map[bool]string{true: "Confirmed", false: "Unconfirmed"}[o.confirmed])}
		}
	case "peer":
		if len(f) != 2 || f[0] != "ok" {
			return nil
		}
		n := atoi(t[2])
		watched := map[string]bool{}
		for i := 0; i < n; i++ {
			watched[t[3+i]] = true
		}
		var fl msg.FilterLoad
		if fl.Deserialize(bytes.NewReader(hx.UnHex(t[1]))) != nil || fl.Tweak == math.MaxUint32 {
			return nil
		}
		k := 3 + n + 1
		for i := 0; i < len(f[1]); i++ {
			if watched[t[k+1]] && f[1][i] != '1' {
				return &hx.Violation{Kind: "tx-false-negative", Detail: fmt.Sprintf("transaction #%d pays to a script hash added with filteradd but is not matched", i)}
			}
			k += 3
		}
	case "tx":
		if len(f) != 2 {
			return nil
		}
		got := f[0] == "true"
		p := parseTx(t) // a fresh copy of the filter at entry
		m := p.f.GetFilterLoadMsg()
		after := mkFilter(f[1], t[2], t[3], t[4])
		if !subset(hx.UnHex(t[1]), hx.UnHex(f[1])) {
			return &hx.Violation{Kind: "bit-cleared", Detail: "MatchTxAndUpdate cleared a bit or changed the filter size"}
		}
		if m.Tweak == math.MaxUint32 {
			exp := false
			for _, ty := range m.TxTypes {
				if ty == p.tx.TxType() {
					exp = true
				}
			}
			if len(m.Filter) != 0 {
				for _, ph := range p.outs {
					if p.f.Matches(ph) {
						exp = true
					}
				}
			}
			if exp && !got {
				return &hx.Violation{Kind: "tx-false-negative", Detail: "side-chain filter: listed tx type or watched output not matched"}
			}
			return nil
		}
		exp := p.f.Matches(p.hash)
		why := "tx hash"
		for i, ph := range p.outs {
			if p.f.Matches(ph) {
				exp, why = true, "output script hash"
				if !after.MatchesOutPoint(ctypes.NewOutPoint(uint256Of(p.hash), uint16(i))) {
					return &hx.Violation{Kind: "outpoint-not-added", Detail: fmt.Sprintf("output %d pays to a watched script hash but its outpoint is not in the filter afterwards", i)}
				}
			}
		}
		for _, op := range p.ins {
			if p.f.MatchesOutPoint(op) {
				exp, why = true, "spent outpoint"
			}
			if len(m.Filter) > 0 && refContains(hx.UnHex(t[1]), m.HashFuncs, m.Tweak, opData(op.TxID[:], int(op.Index))) {
				exp, why = true, "spent outpoint (protocol reference)"
			}
		}
		for _, ph := range p.outs {
			if len(m.Filter) > 0 && refContains(hx.UnHex(t[1]), m.HashFuncs, m.Tweak, ph) {
				exp, why = true, "output script hash (protocol reference)"
			}
		}
		if exp && !got {
			return &hx.Violation{Kind: "tx-false-negative", Detail: "filter matches the " + why + " but MatchTxAndUpdate returned false"}
		}
	}
	return nil
}

func nontrivial(t []string, out string) bool {
	switch t[0] {
	case "murmur":
		return len(t[2]) > 1
	case "match", "matchop":
		return t[1] != "-" && t[2] != "0"
	case "add", "addop", "addall":
		return t[1] != "-" && t[2] != "0" && out != "panic"
	case "tx":
		return strings.HasPrefix(out, "true") || atoi(t[8]) > 0
	case "load":
		return len(t[1]) > 2
	}
	return true
}

func bucket(t []string, out string) string {
	f := strings.Fields(out)
	cls := out
	if len(f) > 0 {
		cls = f[0]
	}
	switch t[0] {
	case "murmur":
		return fmt.Sprintf("murmur/len%%4=%d", (len(t[2])/2)%4)
	case "add", "addop", "addall":
		if out == "panic" {
			return t[0] + "/panic"
		}
		if t[1] == "-" {
			return t[0] + "/empty-filter"
		}
		return t[0] + "/ok"
	case "txf2":
		return "txf2/type" + t[1] + "/" + t[len(t)-1] + "/" + strings.ReplaceAll(out, " ", "-")
	case "txf":
		return fmt.Sprintf("txf/type%s/%s/%s", t[1], map[string]string{"1": "confirmed", "0": "unconfirmed"}[t[3]], cls)
	case "reload":
		if out == "panic" {
			return "reload/panic"
		}
		return "reload/" + cls
	case "ser":
		if out == "err" {
			return "ser/err"
		}
		return "ser/ok"
	case "load", "peer":
		return t[0] + "/" + cls
	case "tx":
		mode := "normal"
		if t[3] == "4294967295" {
			mode = "side"
		}
		ch := "same"
		if len(f) == 2 && f[1] != t[1] {
			ch = "updated"
		}
		return "tx/" + mode + "/" + cls + "/" + ch
	}
	return t[0] + "/" + cls
}

// ---------------------------------------------------------------- generator

type fstate struct {
	bits []byte
	hf   uint32
	tw   uint32
}

func (s fstate) String() string { return fmt.Sprintf("%s %d %d", hx.Hex(s.bits), s.hf, s.tw) }

func randFilter(r *hx.Rand, big bool) fstate {
	var n int
	switch r.Intn(10) {
	case 0:
		n = 0
	case 1:
		n = 1
	case 2, 3, 4:
		n = 1 + r.Intn(8)
	case 5, 6, 7:
		n = 8 + r.Intn(120)
	default:
		n = 128 + r.Intn(900)
	}
	if big {
		n = r.Pick(35999, 36000, 4096, 8192)
	}
	bits := make([]byte, n)
	switch r.Intn(4) {
	case 0: // empty bits
	case 1:
		for i := range bits {
			bits[i] = r.Byte() & r.Byte() & r.Byte()
		}
	case 2:
		for i := range bits {
			bits[i] = r.Byte()
		}
	default:
		for i := range bits {
			if r.Chance(10) {
				bits[i] = 1 << uint(r.Intn(8))
			}
		}
	}
	var hf uint32
	switch r.Intn(10) {
	case 0:
		hf = 0
	case 1:
		hf = 1
	case 2:
		hf = 50
	case 3:
		hf = uint32(51 + r.Intn(150))
	default:
		hf = uint32(1 + r.Intn(20))
	}
	var tw uint32
	switch r.Intn(6) {
	case 0:
		tw = 0
	case 1:
		tw = math.MaxUint32 - 1
	case 2:
		tw = uint32(r.Intn(16))
	default:
		tw = uint32(r.U64())
	}
	if tw == math.MaxUint32 {
		tw--
	}
	return fstate{bits, hf, tw}
}

func randData(r *hx.Rand) []byte {
	switch r.Intn(8) {
	case 0:
		return nil
	case 1:
		return r.Bytes(21)
	case 2:
		return r.Bytes(32)
	case 3:
		return r.Bytes(34)
	default:
		return r.Bytes(r.Intn(70))
	}
}

func after(out string) ([]byte, bool) {
	f := strings.Fields(out)
	if len(f) < 1 || f[0] == "panic" {
		return nil, false
	}
	b := hx.UnHex(f[0])
	if b == nil {
		b = []byte{}
	}
	return b, true
}

func emitTx(g *hx.Gen, s fstate, types []byte, ty byte, lock uint32, outs [][]byte, ins []*ctypes.OutPoint) (string, []byte) {
	tx := buildTx(ty, lock, outs, ins)
	h := tx.Hash()
	var sb strings.Builder
	fmt.Fprintf(&sb, "tx %s %s %s %d %d %d", s.String(), hx.Hex(types), hx.Hex(h[:]), ty, lock, len(outs))
	for _, o := range outs {
		sb.WriteString(" " + hx.Hex(o))
	}
	fmt.Fprintf(&sb, " %d", len(ins))
	for _, in := range ins {
		fmt.Fprintf(&sb, " %s:%d", hx.Hex(in.TxID[:]), in.Index)
	}
	return g.Emit("%s", sb.String()), h[:]
}

func gen(g *hx.Gen) {
	r := g.R
	// 1. MurmurHash3 byte equality: every length 0..40 (all four tail cases), edge seeds, random.
	for n := 0; n <= 40; n++ {
		for _, seed := range []uint32{0, 1, 0xfba4c795, 0xffffffff, uint32(r.U64())} {
			g.Emit("murmur %x %s", seed, hx.Hex(r.Bytes(n)))
		}
	}
	g.Emit("murmur 0 %s", hx.Hex(make([]byte, 64)))
	g.Emit("murmur ffffffff %s", hx.Hex(bytes.Repeat([]byte{0xff}, 67)))
	for i := 0; i < g.N(6000, 60000); i++ {
		g.Emit("murmur %x %s", uint32(r.U64()), hx.Hex(r.Bytes(r.Intn(100))))
	}

	// 2. single add / match on random filters (empty filter, 0 hash funcs, > 50 hash funcs, full filter ...)
	for i := 0; i < g.N(10000, 100000); i++ {
		s := randFilter(r, false)
		d := randData(r)
		switch r.Intn(5) {
		case 0:
			g.Emit("match %s %s", s, hx.Hex(d))
		case 1:
			g.Emit("add %s %s", s, hx.Hex(d))
		case 2:
			g.Emit("addop %s %s %d", s, hx.Hex(r.Bytes(32)), r.Pick(0, 1, 255, 256, 65535, r.Intn(65536)))
		case 3:
			g.Emit("matchop %s %s %d", s, hx.Hex(r.Bytes(32)), r.Intn(65536))
		default:
			// add then query the result with the same and with other data (chained)
			out := g.Emit("add %s %s", s, hx.Hex(d))
			if b, ok := after(out); ok {
				s2 := fstate{b, s.hf, s.tw}
				g.Emit("match %s %s", s2, hx.Hex(d))
				g.Emit("match %s %s", s2, hx.Hex(randData(r)))
			}
		}
	}
	// maximum-size filters as a peer can load them
	for i := 0; i < g.N(6, 60); i++ {
		s := randFilter(r, true)
		if s.hf > 50 {
			s.hf = 50
		}
		d := randData(r)
		out := g.Emit("add %s %s", s, hx.Hex(d))
		if b, ok := after(out); ok {
			g.Emit("match %s %s", fstate{b, s.hf, s.tw}, hx.Hex(randData(r)))
		}
	}

	// 3. element sets: add n elements, query them and m others
	for i := 0; i < g.N(4000, 40000); i++ {
		s := randFilter(r, false)
		n := r.Intn(12)
		m := r.Intn(6)
		var sb strings.Builder
		fmt.Fprintf(&sb, "addall %s %d", s, n)
		for j := 0; j < n; j++ {
			sb.WriteString(" " + hx.Hex(randData(r)))
		}
		fmt.Fprintf(&sb, " %d", m)
		for j := 0; j < m; j++ {
			sb.WriteString(" " + hx.Hex(randData(r)))
		}
		g.Emit("%s", sb.String())
	}

	// 4. transactions against evolving filters
	for i := 0; i < g.N(2500, 25000); i++ {
		s := randFilter(r, false)
		if r.Chance(70) && len(s.bits) < 4 {
			s.bits = make([]byte, 16+r.Intn(64)) // sparse enough that "no match" happens
		}
		var types []byte
		side := r.Chance(25)
		if side {
			s.tw = math.MaxUint32
			for j := r.Intn(3); j > 0; j-- {
				types = append(types, txTypes[r.Intn(len(txTypes))])
			}
			if r.Chance(30) {
				s.bits = []byte{}
			}
		}
		// a small universe of script hashes and outpoints, some of them watched
		var phs [][]byte
		for j := 0; j < 6; j++ {
			phs = append(phs, r.Bytes(21))
		}
		var ops []*ctypes.OutPoint
		for j := 0; j < 4; j++ {
			ops = append(ops, ctypes.NewOutPoint(uint256Of(r.Bytes(32)), uint16(r.Pick(0, 1, 7, 300, 65535))))
		}
		// watch some
		for j := 0; j < 2; j++ {
			if r.Chance(60) {
				if b, ok := after(g.Emit("add %s %s", s, hx.Hex(phs[j]))); ok {
					s.bits = b
				}
			}
		}
		if r.Chance(40) {
			if b, ok := after(g.Emit("addop %s %s %d", s, hx.Hex(ops[0].TxID[:]), ops[0].Index)); ok {
				s.bits = b
			}
		}
		// a few transactions in a row on the evolving filter; later ones may spend outputs of earlier ones
		var made []*ctypes.OutPoint
		for k := 0; k < 1+r.Intn(4); k++ {
			nout := r.Pick(0, 1, 2, 3, 5)
			var outs [][]byte
			for j := 0; j < nout; j++ {
				outs = append(outs, phs[r.Intn(len(phs))])
			}
			nin := r.Pick(0, 1, 2, 3)
			var ins []*ctypes.OutPoint
			for j := 0; j < nin; j++ {
				if len(made) > 0 && r.Chance(50) {
					ins = append(ins, made[r.Intn(len(made))])
				} else {
					ins = append(ins, ops[r.Intn(len(ops))])
				}
			}
			ty := txTypes[r.Intn(len(txTypes))]
			out, h := emitTx(g, s, types, ty, uint32(r.U64()), outs, ins)
			f := strings.Fields(out)
			if len(f) == 2 {
				b := hx.UnHex(f[1])
				if b == nil {
					b = []byte{}
				}
				s.bits = b
			}
			for j := range outs {
				made = append(made, ctypes.NewOutPoint(uint256Of(h), uint16(j)))
			}
		}
	}
}

// ---------------------------------------------------------------- the filter layer the server dispatches to

// newServerFilter is the closure of elanet.newServerPeer (its text is pinned by Gen.C39.serverDispatch);
// IsDPOSTransaction reads nothing of the state, so an empty State stands in for the chain's.
// sideState is the DPoS state the side filter consults (IsDPOSTransaction reads only its Votes map).
var sideState = &dstate.State{StateKeyFrame: dstate.NewStateKeyFrame()}

func newServerFilter() *filter.Filter {
	return filter.New(func(typ uint8) filter.TxFilter {
		switch typ {
		case filter.FTBloom:
			return bloom.NewTxFilter()
		case filter.FTDPOS:
			return sidefilter.New(sideState)
		case filter.FTNexTTurnDPOSInfo:
			return nextturndposfilter.New()
		case filter.FTCustomID:
			return customidfilter.New()
		case filter.FTUpgrade:
			return upgradefilter.New()
		case filter.FTReturnSidechainDepositCoinFilter:
			return returnsidechaindepositcoinfilter.New()
		}
		return nil
	})
}

var typedTxTypes = []byte{0x00, 0x02, 0x03, 0x09, 0x0a, 0x0b, 0x0c, 0x0d, 0x0e, 0x0f, 0x10, 0x11, 0x12, 0x14, 0x15, 0x25, 0x41, 0x42, 0x51}

// mkTypedTx builds a real transaction of the given type; vote: 0 none, 1 producer vote output, 2 CRC-only vote output.
func mkTypedTx(ty byte, version byte, vote int, ptype int, lock uint32, outs [][]byte) interfaces.Transaction {
	return mkTypedTxIn(ty, version, vote, ptype, lock, outs, nil)
}

func mkTypedTxIn(ty byte, version byte, vote int, ptype int, lock uint32, outs [][]byte, ins []*ctypes.OutPoint) interfaces.Transaction {
	var pl interfaces.Payload
	switch ctypes.TxType(ty) {
	case ctypes.CoinBase:
		pl = &payload.CoinBase{Content: []byte("c39")}
	case ctypes.TransferAsset:
		pl = &payload.TransferAsset{}
	case ctypes.Record:
		pl = &payload.Record{Type: "c39", Content: []byte{1}}
	case ctypes.RegisterProducer, ctypes.UpdateProducer:
		pl = &payload.ProducerInfo{}
	case ctypes.CancelProducer:
		pl = &payload.ProcessProducer{}
	case ctypes.ActivateProducer:
		pl = &payload.ActivateProducer{}
	case ctypes.ReturnDepositCoin:
		pl = &payload.ReturnDepositCoin{}
	case ctypes.IllegalProposalEvidence:
		pl = &payload.DPOSIllegalProposals{}
	case ctypes.IllegalVoteEvidence:
		pl = &payload.DPOSIllegalVotes{}
	case ctypes.IllegalBlockEvidence:
		pl = &payload.DPOSIllegalBlocks{}
	case ctypes.IllegalSidechainEvidence:
		pl = &payload.SidechainIllegalData{}
	case ctypes.InactiveArbitrators:
		pl = &payload.InactiveArbitrators{}
	case ctypes.NextTurnDPOSInfo:
		pl = &payload.NextTurnDPOSInfo{}
	case ctypes.ProposalResult:
		pl = &payload.RecordProposalResult{}
	case ctypes.CRCProposal:
		pl = &payload.CRCProposal{ProposalType: payload.CRCProposalType(ptype)}
	case ctypes.RevertToPOW:
		pl = &payload.RevertToPOW{}
	case ctypes.RevertToDPOS:
		pl = &payload.RevertToDPOS{}
	case ctypes.ReturnSideChainDepositCoin:
		pl = &payload.ReturnSideChainDepositCoin{}
	default:
		panic("harness: unsupported typed tx")
	}
	var outputs []*ctypes.Output
	for i, ph := range outs {
		var u common.Uint168
		copy(u[:], ph)
		outputs = append(outputs, &ctypes.Output{Value: common.Fixed64(i + 1), ProgramHash: u, Type: ctypes.OTNone, Payload: &outputpayload.DefaultOutput{}})
	}
	switch vote {
	case 1:
		outputs = append(outputs, &ctypes.Output{Value: 1, Type: ctypes.OTVote, Payload: &outputpayload.VoteOutput{Version: outputpayload.VoteProducerVersion,
			Contents: []outputpayload.VoteContent{{VoteType: outputpayload.Delegate, CandidateVotes: []outputpayload.CandidateVotes{{Candidate: bytes.Repeat([]byte{2}, 33)}}}}}})
	case 2:
		outputs = append(outputs, &ctypes.Output{Value: 1, Type: ctypes.OTVote, Payload: &outputpayload.VoteOutput{Version: outputpayload.VoteProducerAndCRVersion,
			Contents: []outputpayload.VoteContent{{VoteType: outputpayload.CRC, CandidateVotes: []outputpayload.CandidateVotes{{Candidate: bytes.Repeat([]byte{3}, 34), Votes: 1}}}}}})
	}
	var inputs []*ctypes.Input
	for _, op := range ins {
		inputs = append(inputs, &ctypes.Input{Previous: *op})
	}
	return transaction.CreateTransaction(ctypes.TransactionVersion(version), ctypes.TxType(ty), 0, pl, []*ctypes.Attribute{}, inputs, outputs, lock, []*program.Program{})
}

func safeHash(tx interfaces.Transaction) (h common.Uint256, ok bool) {
	defer func() {
		if recover() != nil {
			ok = false
		}
	}()
	return tx.Hash(), true
}

// txf <typ> <wire> <confirmed> <n> add.. <txType> <version> <vote> <ptype> <hash> <lock> <nOut> ph..
type txfOp struct {
	typ       uint8
	wire      []byte
	confirmed bool
	adds      [][]byte
	tx        interfaces.Transaction
	hash      []byte
	outs      [][]byte
	ty        byte
	ptype     int
}

func parseTxf(t []string) *txfOp {
	o := &txfOp{typ: uint8(atoi(t[1])), wire: hx.UnHex(t[2]), confirmed: t[3] == "1"}
	n := atoi(t[4])
	k := 5
	for i := 0; i < n; i++ {
		o.adds = append(o.adds, hx.UnHex(t[k]))
		k++
	}
	o.ty = byte(atoi(t[k]))
	ver, vote := byte(atoi(t[k+1])), atoi(t[k+2])
	o.ptype = atoi(t[k+3])
	o.hash = hx.UnHex(t[k+4])
	lock := u32(t[k+5])
	m := atoi(t[k+6])
	k += 7
	for i := 0; i < m; i++ {
		o.outs = append(o.outs, hx.UnHex(t[k]))
		k++
	}
	if k != len(t) {
		panic("harness: trailing tokens in txf op")
	}
	o.tx = mkTypedTx(o.ty, ver, vote, o.ptype, lock, o.outs)
	return o
}

func execTxf(t []string) string {
	o := parseTxf(t)
	h := o.tx.Hash()
	if !bytes.Equal(h[:], o.hash) {
		return "hash-mismatch"
	}
	f := newServerFilter()
	if err := f.Load(&msg.TxFilterLoad{Type: o.typ, Data: o.wire}); err != nil {
		return "err"
	}
	for _, a := range o.adds {
		if err := f.Add(a); err != nil {
			return "err-add"
		}
	}
	if o.confirmed {
		return b2s(f.MatchConfirmed(o.tx))
	}
	return b2s(f.MatchUnconfirmed(o.tx))
}

// txf2 <typ> <wire> <n> add.. <ty1> <ptype1> <hash1> <lock1> <nOut> ph.. <nIn> txid:idx.. <hash2> <lock2> <k>
// filter of type typ loaded from the wire, filteradds (script hashes and 34-byte outpoints), a confirmed transaction tx1,
// then a confirmed transaction tx2 that only spends output k of tx1.
type txf2Op struct {
	typ      uint8
	wire     []byte
	adds     [][]byte
	tx1, tx2 interfaces.Transaction
	h1, h2   []byte
	outs     [][]byte
	ins      []*ctypes.OutPoint
	k        int
	mode     string // cc / cu / uc / uu: tx1 and tx2 matched as confirmed or unconfirmed (relay / mempool path)
	vref     bool   // the first input of tx1 refers to a vote output recorded in the DPoS state
}

func parseTxf2(t []string) *txf2Op {
	o := &txf2Op{typ: uint8(atoi(t[1])), wire: hx.UnHex(t[2])}
	n := atoi(t[3])
	i := 4
	for j := 0; j < n; j++ {
		o.adds = append(o.adds, hx.UnHex(t[i]))
		i++
	}
	ty, ptype := byte(atoi(t[i])), atoi(t[i+1])
	o.h1 = hx.UnHex(t[i+2])
	lock1 := u32(t[i+3])
	m := atoi(t[i+4])
	i += 5
	for j := 0; j < m; j++ {
		o.outs = append(o.outs, hx.UnHex(t[i]))
		i++
	}
	q := atoi(t[i])
	i++
	for j := 0; j < q; j++ {
		o.ins = append(o.ins, outpointOf(t[i]))
		i++
	}
	o.h2 = hx.UnHex(t[i])
	lock2 := u32(t[i+1])
	o.k = atoi(t[i+2])
	o.vref = t[i+3] == "1"
	o.mode = t[i+4]
	if len(o.mode) != 2 {
		panic("harness: bad txf2 mode")
	}
	i += 2
	if i+3 != len(t) {
		panic("harness: trailing tokens in txf2 op")
	}
	o.tx1 = mkTypedTxIn(ty, 9, 0, ptype, lock1, o.outs, o.ins)
	o.tx2 = mkTypedTxIn(2, 9, 0, 0, lock2, nil, []*ctypes.OutPoint{ctypes.NewOutPoint(uint256Of(o.h1), uint16(o.k))})
	return o
}

func execTxf2(t []string) string {
	o := parseTxf2(t)
	a, b := o.tx1.Hash(), o.tx2.Hash()
	if !bytes.Equal(a[:], o.h1) || !bytes.Equal(b[:], o.h2) {
		return "hash-mismatch"
	}
	sideState.Votes = map[string]struct{}{}
	if o.vref && len(o.ins) > 0 {
		sideState.Votes[o.ins[0].ReferKey()] = struct{}{}
	}
	f := newServerFilter()
	if err := f.Load(&msg.TxFilterLoad{Type: o.typ, Data: o.wire}); err != nil {
		return "err"
	}
	for _, x := range o.adds {
		if err := f.Add(x); err != nil {
			return "err-add"
		}
	}
	match := func(c byte, tx interfaces.Transaction) bool {
		if c == 'c' {
			return f.MatchConfirmed(tx)
		}
		return f.MatchUnconfirmed(tx)
	}
	r1 := match(o.mode[0], o.tx1)
	r2 := match(o.mode[1], o.tx2)
	return b2s(r1) + " " + b2s(r2)
}

func wireOf(r *hx.Rand) []byte {
	fl := &msg.FilterLoad{Filter: r.Bytes(r.Pick(0, 0, 1, 2, 8, 100, 252, 253, 300)), HashFuncs: uint32(r.Pick(0, 1, 2, 10, 50, 51)),
		Tweak: uint32(r.U64()), Flags: r.Byte()}
	if r.Chance(10) {
		fl.Tweak = math.MaxUint32
	}
	for i := r.Pick(0, 0, 1, 3); i > 0; i-- {
		fl.TxTypes = append(fl.TxTypes, ctypes.TxType(r.Intn(40)))
	}
	buf := new(bytes.Buffer)
	fl.HashFuncs %= 51
	if err := fl.Serialize(buf); err != nil {
		panic("harness: cannot serialize filterload")
	}
	return buf.Bytes()
}

func genLoad(g *hx.Gen) {
	r := g.R
	for i := 0; i < g.N(1500, 15000); i++ {
		w := wireOf(r)
		switch r.Intn(8) {
		case 0: // truncated anywhere
			w = w[:r.Intn(len(w)+1)]
		case 1: // hash funcs 51..
			if len(w) > 10 {
				w = append([]byte(nil), w...)
				// the HashFuncs field follows the var-bytes
				w[len(w)-1] ^= 0xff
			}
		case 2: // non canonical / large length prefixes
			w = append([]byte{0xfd, byte(r.Pick(0, 1, 0xfc, 0xfd)), 0}, r.Bytes(r.Intn(300))...)
		case 3:
			w = append([]byte{byte(r.Pick(0xfe, 0xff))}, r.Bytes(r.Intn(20))...)
		case 4: // filter larger than allowed
			w = append([]byte{0xfd, 0xa1, 0x8c}, r.Bytes(40)...)
		case 5: // tx types prefix tricks: discriminant at the very end, partial wide count, more types announced than present
			base := wireOf(r)
			if n := len(base); n > 0 {
				base = base[:n-1]
			}
			w = append(base, [][]byte{{0xfd}, {0xfd, 1}, {0xfe}, {0xff, 1, 2}, {9, 1, 2}, {0xfd, 0xfd, 0, 7}, {0xfd, 1, 0}}[r.Intn(7)]...)
		case 6:
			w = r.Bytes(r.Intn(30))
		}
		g.Emit("load %s", hx.Hex(w))
	}
	// the encoder: FilterLoad.Serialize (size checks, var-int widths 252/253, tx types)
	for i := 0; i < g.N(400, 4000); i++ {
		s := randFilter(r, false)
		if r.Chance(10) {
			s.bits = make([]byte, r.Pick(252, 253, 254, 36000, 36001))
		}
		var types []byte
		for j := r.Pick(0, 0, 1, 5, 252, 253); j > 0; j-- {
			types = append(types, byte(r.Intn(40)))
		}
		g.Emit("ser %s %d %s", s, r.Intn(256), hx.Hex(types))
	}
	// exactly at the size limit
	for _, n := range []int{35999, 36000, 36001} {
		fl := &msg.FilterLoad{Filter: make([]byte, 36000), HashFuncs: 50}
		buf := new(bytes.Buffer)
		fl.Serialize(buf)
		w := buf.Bytes()
		if n != 36000 { // patch the length prefix
			w = append([]byte{0xfd, byte(n), byte(n >> 8)}, w[3:]...)
		}
		g.Emit("load %s", hx.Hex(w))
	}
	// the whole remote path: filterload bytes, filteradds, then transactions paying to watched / unwatched hashes
	for i := 0; i < g.N(600, 6000); i++ {
		w := wireOf(r)
		if r.Chance(10) {
			w = w[:r.Intn(len(w)+1)]
		}
		var phs [][]byte
		for j := 0; j < 5; j++ {
			phs = append(phs, r.Bytes(21))
		}
		n := r.Intn(4)
		var sb strings.Builder
		fmt.Fprintf(&sb, "peer %s %d", hx.Hex(w), n)
		for j := 0; j < n; j++ {
			sb.WriteString(" " + hx.Hex(phs[j]))
		}
		m := r.Intn(5)
		fmt.Fprintf(&sb, " %d", m)
		for j := 0; j < m; j++ {
			ph := phs[r.Intn(len(phs))]
			lock := uint32(r.U64())
			h := buildTx(2, lock, [][]byte{ph}, nil).Hash()
			fmt.Fprintf(&sb, " %s %s %d", hx.Hex(h[:]), hx.Hex(ph), lock)
		}
		g.Emit("%s", sb.String())
	}
}

// walletFilter builds a filter the way a remote wallet does (reference code only).
func walletFilter(r *hx.Rand, items [][]byte) fstate {
	s := fstate{bits: make([]byte, r.Pick(1, 2, 3, 8, 16, 33, 64, 200, 1000)), hf: uint32(1 + r.Intn(12)), tw: uint32(r.U64())}
	if s.tw == math.MaxUint32 {
		s.tw = 5
	}
	for _, it := range items {
		refInsert(s.bits, s.hf, s.tw, it)
	}
	return s
}

func genProtocol(g *hx.Gen) {
	r := g.R
	// filters built by a remote wallet per the protocol; every inserted item must match.  Item lengths cover
	// every tail case of MurmurHash3 (n%4 = 0,1,2,3): script hashes (21), tx ids (32), outpoints (34, index >= 256), ...
	for i := 0; i < g.N(1500, 15000); i++ {
		var items [][]byte
		for j := 0; j < 1+r.Intn(4); j++ {
			switch r.Intn(6) {
			case 0:
				items = append(items, r.Bytes(21))
			case 1:
				items = append(items, r.Bytes(32))
			case 2:
				items = append(items, opData(r.Bytes(32), r.Pick(256, 257, 300, 4096, 65535, 0x0100, 0xff00)))
			case 3:
				items = append(items, r.Bytes(r.Pick(2, 3, 6, 7, 34, 35, 66, 67)))
			default:
				items = append(items, r.Bytes(1+r.Intn(40)))
			}
		}
		s := walletFilter(r, items)
		for _, it := range items {
			if len(it) == 34 && r.Bool() {
				g.Emit("matchop %s %s %d", s, hx.Hex(it[:32]), int(it[32])|int(it[33])<<8)
			} else {
				g.Emit("match %s %s", s, hx.Hex(it))
			}
		}
		// the wallet's filter is loaded, a transaction pays to / spends a watched item
		if r.Chance(40) {
			ph := r.Bytes(21)
			op := ctypes.NewOutPoint(uint256Of(r.Bytes(32)), uint16(r.Pick(256, 511, 65535, 7)))
			s2 := walletFilter(r, [][]byte{ph, opData(op.TxID[:], int(op.Index))})
			if r.Bool() {
				emitTx(g, s2, nil, 2, uint32(r.U64()), [][]byte{r.Bytes(21), ph}, nil)
			} else {
				emitTx(g, s2, nil, 2, uint32(r.U64()), [][]byte{r.Bytes(21)}, []*ctypes.OutPoint{op})
			}
		}
	}
	// Reload: one Filter object gets a second filterload of a different size
	for i := 0; i < g.N(800, 8000); i++ {
		a := randFilter(r, false)
		d := randData(r)
		var items [][]byte
		if r.Chance(60) {
			items = append(items, d)
		}
		b := walletFilter(r, items)
		switch r.Intn(4) {
		case 0: // same size
			b.bits = make([]byte, len(a.bits))
			for _, it := range items {
				refInsert(b.bits, b.hf, b.tw, it)
			}
		case 1: // shrink to one byte
			b.bits = make([]byte, 1)
			for _, it := range items {
				refInsert(b.bits, b.hf, b.tw, it)
			}
		}
		g.Emit("reload %s %s %s", a, b, hx.Hex(d))
	}
	// side-chain SPV filters that carry both a tx-type list and address bits
	for i := 0; i < g.N(600, 6000); i++ {
		ph := r.Bytes(21)
		s := walletFilter(r, [][]byte{ph})
		s.tw = math.MaxUint32
		s.bits = make([]byte, len(s.bits))
		refInsert(s.bits, s.hf, s.tw, ph)
		listed := txTypes[r.Intn(len(txTypes))]
		types := []byte{listed}
		if r.Bool() {
			types = append(types, txTypes[r.Intn(len(txTypes))])
		}
		ty := txTypes[r.Intn(len(txTypes))]
		outs := [][]byte{r.Bytes(21)}
		if r.Chance(70) {
			outs = append(outs, ph)
		}
		emitTx(g, s, types, ty, uint32(r.U64()), outs, nil)
	}
}

func genDispatch(g *hx.Gen) {
	r := g.R
	usable := []byte{}
	for _, ty := range typedTxTypes {
		if _, ok := safeHash(mkTypedTx(ty, 9, 0, 0x0500, 1, nil)); ok {
			usable = append(usable, ty)
		}
	}
	for i := 0; i < g.N(2500, 25000); i++ {
		typ := r.Pick(0, 1, 2, 3, 4, 5, 5, 4, 3, 2, 1, 6, 255)
		w := wireOf(r)
		if r.Chance(5) {
			w = w[:r.Intn(len(w)+1)]
		}
		var phs [][]byte
		for j := 0; j < 4; j++ {
			phs = append(phs, r.Bytes(21))
		}
		n := r.Intn(3)
		ty := usable[r.Intn(len(usable))]
		ver := byte(r.Pick(9, 9, 0))
		if ver == 0 && ty >= 9 {
			ver = 9
		}
		vote := 0
		if ty == 0x02 {
			vote = r.Pick(0, 1, 2)
		}
		ptype := r.Pick(0x0000, 0x0200, 0x0201, 0x02ff, 0x0300, 0x0400, 0x0401, 0x0410, 0x0500, 0x0501, 0x0502, 0x0503)
		var outs [][]byte
		for j := r.Intn(3); j > 0; j-- {
			outs = append(outs, phs[r.Intn(len(phs))])
		}
		lock := uint32(r.U64())
		tx := mkTypedTx(ty, ver, vote, ptype, lock, outs)
		h, ok := safeHash(tx)
		if !ok {
			continue
		}
		var sb strings.Builder
		fmt.Fprintf(&sb, "txf %d %s %d %d", typ, hx.Hex(w), r.Intn(2), n)
		for j := 0; j < n; j++ {
			sb.WriteString(" " + hx.Hex(phs[j]))
		}
		fmt.Fprintf(&sb, " %d %d %d %d %s %d %d", ty, ver, vote, ptype, hx.Hex(h[:]), lock, len(outs))
		for _, o := range outs {
			sb.WriteString(" " + hx.Hex(o))
		}
		g.Emit("%s", sb.String())
	}
}

func genDispatch2(g *hx.Gen) {
	r := g.R
	special := []byte{0x02, 0x02, 0x14, 0x15, 0x25, 0x41, 0x42, 0x51, 0x09, 0x0c}
	for i := 0; i < g.N(1500, 15000); i++ {
		typ := r.Pick(0, 1, 2, 3, 4, 5)
		// a sparse filter so that "not matched" is observable
		fl := &msg.FilterLoad{Filter: make([]byte, r.Pick(64, 128, 256)), HashFuncs: uint32(r.Pick(1, 2, 3, 5)), Tweak: uint32(r.U64())}
		if fl.Tweak == math.MaxUint32 {
			fl.Tweak = 1
		}
		buf := new(bytes.Buffer)
		fl.Serialize(buf)
		phs := [][]byte{r.Bytes(21), r.Bytes(21), r.Bytes(21)}
		op := ctypes.NewOutPoint(uint256Of(r.Bytes(32)), uint16(r.Pick(0, 1, 300)))
		var adds [][]byte
		if r.Chance(70) {
			adds = append(adds, phs[0])
		}
		if r.Chance(40) {
			adds = append(adds, opData(op.TxID[:], int(op.Index)))
		}
		if r.Chance(10) {
			adds = append(adds, r.Bytes(r.Pick(33, 100, 520)))
		}
		ty := special[r.Intn(len(special))]
		ptype := r.Pick(0x0000, 0x0201, 0x0400, 0x0500, 0x0501, 0x0502)
		var outs [][]byte
		for j := r.Pick(1, 2, 3); j > 0; j-- {
			outs = append(outs, phs[r.Intn(len(phs))])
		}
		var ins []*ctypes.OutPoint
		if r.Chance(40) {
			ins = append(ins, op)
		}
		if r.Chance(30) {
			ins = append(ins, ctypes.NewOutPoint(uint256Of(r.Bytes(32)), 0))
		}
		k := r.Intn(len(outs))
		lock1, lock2 := uint32(r.U64()), uint32(r.U64())
		tx1 := mkTypedTxIn(ty, 9, 0, ptype, lock1, outs, ins)
		h1, ok := safeHash(tx1)
		if !ok {
			continue
		}
		h2 := mkTypedTxIn(2, 9, 0, 0, lock2, nil, []*ctypes.OutPoint{ctypes.NewOutPoint(h1, uint16(k))}).Hash()
		var sb strings.Builder
		fmt.Fprintf(&sb, "txf2 %d %s %d", typ, hx.Hex(buf.Bytes()), len(adds))
		for _, a := range adds {
			sb.WriteString(" " + hx.Hex(a))
		}
		fmt.Fprintf(&sb, " %d %d %s %d %d", ty, ptype, hx.Hex(h1[:]), lock1, len(outs))
		for _, o := range outs {
			sb.WriteString(" " + hx.Hex(o))
		}
		fmt.Fprintf(&sb, " %d", len(ins))
		for _, in := range ins {
			fmt.Fprintf(&sb, " %s:%d", hx.Hex(in.TxID[:]), in.Index)
		}
		fmt.Fprintf(&sb, " %s %d %d %d %s", hx.Hex(h2[:]), lock2, k, r.Pick(0, 0, 1), []string{"cc", "cc", "uc", "uu", "cu"}[r.Intn(5)])
		g.Emit("%s", sb.String())
	}
}

func main() {
	hx.Main(&hx.Prop{Name: "C39", Gen: func(g *hx.Gen) { gen(g); genLoad(g); genProtocol(g); genDispatch(g); genDispatch2(g) }, Exec: exec, Oracle: oracle, Nontrivial: nontrivial, Bucket: bucket})
}
