// Harness for C09: compact target codec, PoW check, retarget.
package main

import (
	"fmt"
	"math/big"
	"os"
	"path/filepath"
	"strconv"
	"strings"
	"time"

	"elaverif/harness/hx"
	"elaverif/harness/regnet"

	"github.com/elastos/Elastos.ELA/auxpow"
	"github.com/elastos/Elastos.ELA/blockchain"
	"github.com/elastos/Elastos.ELA/common"
	"github.com/elastos/Elastos.ELA/common/config"
	"github.com/elastos/Elastos.ELA/core"
	ctypes "github.com/elastos/Elastos.ELA/core/types/common"
)

func bigOf(s string) *big.Int {
	n, ok := new(big.Int).SetString(s, 10)
	if !ok {
		panic("harness: bad int " + s)
	}
	return n
}
func u32hex(s string) uint32 {
	v, err := strconv.ParseUint(s, 16, 32)
	if err != nil {
		panic("harness: bad u32 " + s)
	}
	return uint32(v)
}

func btcHeader(raw []byte) auxpow.BtcHeader {
	var h auxpow.BtcHeader
	if len(raw) != 80 {
		panic("harness: btc header must be 80 bytes")
	}
	h.Version = (uint32(raw[0]) | uint32(raw[1])<<8 | uint32(raw[2])<<16 | uint32(raw[3])<<24)
	copy(h.Previous[:], raw[4:36])
	copy(h.MerkleRoot[:], raw[36:68])
	h.Timestamp = uint32(raw[68]) | uint32(raw[69])<<8 | uint32(raw[70])<<16 | uint32(raw[71])<<24
	h.Bits = uint32(raw[72]) | uint32(raw[73])<<8 | uint32(raw[74])<<16 | uint32(raw[75])<<24
	h.Nonce = uint32(raw[76]) | uint32(raw[77])<<8 | uint32(raw[78])<<16 | uint32(raw[79])<<24
	return h
}

func hashNumOf(raw []byte) *big.Int {
	h := btcHeader(raw)
	hash := h.Hash()
	return blockchain.HashToBig(&hash)
}

// isCanonical is the harness's own statement of the `Canonical` predicate of
// the Lean model (Model/Compact.lean); the rt op prints it so that the two are
// compared on every generated compact value.
func isCanonical(c uint32) bool {
	if c == 0 {
		return true
	}
	e, m := c>>24, c&0x007fffff
	if c&0x00800000 != 0 || e < 1 || m < 0x8000 {
		return false
	}
	if e == 1 && m&0xffff != 0 {
		return false
	}
	if e == 2 && m&0xff != 0 {
		return false
	}
	return true
}

func parseNodes(s string) (ts, bits []uint32) {
	for _, x := range strings.Split(s, ",") {
		p := strings.Split(x, ":")
		ts = append(ts, uint32(mustI(p[0])))
		bits = append(bits, u32hex(p[1]))
	}
	return
}

func powParams(t []string) *config.Configuration {
	return &config.Configuration{PowConfiguration: config.PowConfiguration{
		PowLimit:           bigOf(t[3]),
		PowLimitBits:       u32hex(t[4]),
		TargetTimespan:     time.Duration(mustI(t[1])) * time.Second,
		TargetTimePerBlock: time.Duration(mustI(t[2])) * time.Second,
		AdjustmentFactor:   mustI(t[0]),
	}}
}

var nodeSeq int

// node <genesisTs>:<genesisBits> (<delta>/<tamper>)… : a real regnet node in retarget mode
// (PowLimitBits 0x2000ffff, 10 s window, 1 s blocks: a retarget every 10 blocks). Every step
// mines a block `delta` seconds after the tip with the bits the rule demands plus `tamper`
// and hands it to the real BlockChain.ProcessBlock.
func execNode(t []string) string {
	gts, gbits := parseNodes(t[1])
	nodeSeq++
	base := os.Getenv("TMPDIR")
	if base == "" {
		base = "/var/tmp"
	}
	dir := filepath.Join(base, fmt.Sprintf("c09-%d-%d", os.Getpid(), nodeSeq))
	os.RemoveAll(dir)
	defer os.RemoveAll(dir)
	n, err := regnet.NewNode(dir, regnet.Options{NoPoolEvents: true, Tweak: func(p *config.Configuration) {
		p.PowConfiguration.PowLimitBits = 0x2000ffff
		p.PowConfiguration.TargetTimespan = 10 * time.Second
		p.PowConfiguration.TargetTimePerBlock = 1 * time.Second
	}})
	if err != nil {
		panic("harness: new node: " + err.Error())
	}
	defer n.Close()
	if n.Genesis.Timestamp != gts[0] || n.Genesis.Bits != gbits[0] {
		panic(fmt.Sprintf("harness: genesis is %d:%x", n.Genesis.Timestamp, n.Genesis.Bits))
	}
	tip := n.Genesis
	var parts []string
	for _, x := range t[2:] {
		p := strings.Split(x, "/")
		delta, tamper := uint32(mustI(p[0])), mustI(p[1])
		ts := tip.Timestamp + delta
		b, err := n.Mine(tip, nil, regnet.MineOpts{Timestamp: ts})
		if err != nil {
			panic("harness: mine: " + err.Error())
		}
		if tamper != 0 {
			spec, err := regnet.ParseBlock(strings.Fields(n.Describe(b)))
			if err != nil {
				panic("harness: respec: " + err.Error())
			}
			spec.TS = ts
			spec.Bits = uint32(int64(b.Bits) + tamper)
			tb, err := n.Build(spec, false)
			if err != nil {
				// no proof of work exists for the tampered bits (negative or minute target): there is
				// no such block to deliver
				parts = append(parts, fmt.Sprintf("%x:0", spec.Bits))
				continue
			}
			b = tb
		}
		in, _, _ := n.Deliver(b)
		acc := "0"
		if th, _ := n.Tip(); in && th == b.Hash() {
			acc = "1"
			tip = b
		}
		parts = append(parts, fmt.Sprintf("%x:%s", b.Bits, acc))
	}
	return strings.Join(parts, " ") + " d=" + n.Chain.CalcCurrentDifficulty(tip.Bits) + " h=" + n.Chain.GetNetworkHashPS().String()
}

func exec(t []string) string {
	switch t[0] {
	case "node":
		return execNode(t)
	case "walk": // walk <adj> <targetSpan> <perBlock> <limit> <limitBits> <tipHeight> <ts:bits,…>
		ts, bits := parseNodes(t[7])
		r, err := blockchain.VerifRetargetChain(powParams(t[1:6]), uint32(mustI(t[6])), ts, bits)
		if err != nil {
			return "err"
		}
		return fmt.Sprintf("%x", r)
	case "hashps": // hashps <tipHeight> <ts:bits,…>
		ts, bits := parseNodes(t[2])
		return blockchain.VerifNetworkHashPS(uint32(mustI(t[1])), ts, bits).String()
	case "curdiff": // curdiff <limitBits> <bits>
		return blockchain.VerifCurrentDifficulty(&config.Configuration{PowConfiguration: config.PowConfiguration{
			PowLimit: big.NewInt(1), PowLimitBits: u32hex(t[1]), TargetTimespan: 10 * time.Second,
			TargetTimePerBlock: time.Second, AdjustmentFactor: 4}}, u32hex(t[2]))
	case "rt": // rt <compact>: BigToCompact(CompactToBig(c)) and whether c is canonical
		c := u32hex(t[1])
		tag := "non"
		if isCanonical(c) {
			tag = "canon"
		}
		return fmt.Sprintf("%x %s", blockchain.BigToCompact(blockchain.CompactToBig(c)), tag)
	case "c2b":
		return blockchain.CompactToBig(u32hex(t[1])).String()
	case "b2c":
		return strconv.FormatUint(uint64(blockchain.BigToCompact(bigOf(t[1]))), 16)
	case "pow": // pow <bits> <limit> <hashNum> <rawParentHeader>
		raw := hx.UnHex(t[4])
		if hashNumOf(raw).Cmp(bigOf(t[3])) != 0 {
			return "hash-mismatch"
		}
		hdr := &ctypes.Header{Bits: u32hex(t[1])}
		hdr.AuxPow.ParBlockHeader = btcHeader(raw)
		err := blockchain.CheckProofOfWork(hdr, bigOf(t[2]))
		if err == nil {
			return "ok"
		}
		switch err.Error() {
		case "[BlockValidator], block target difficulty is too low.":
			return "err bad-target"
		case "[BlockValidator], block target difficulty is higher than max of limit.":
			return "err high-target"
		case "[BlockValidator], block target difficulty is higher than expected difficulty.":
			return "err high-hash"
		}
		return "err other"
	case "retarget": // retarget <adj> <targetSpan> <perBlock> <limit> <limitBits> <prevBits> <prevHeight> <firstTs> <prevTs>
		adj, ts, per := mustI(t[1]), mustI(t[2]), mustI(t[3])
		params := &config.Configuration{PowConfiguration: config.PowConfiguration{
			PowLimit:           bigOf(t[4]),
			PowLimitBits:       u32hex(t[5]),
			TargetTimespan:     time.Duration(ts) * time.Second,
			TargetTimePerBlock: time.Duration(per) * time.Second,
			AdjustmentFactor:   adj,
		}}
		bits, err := blockchain.VerifRetarget(params, uint32(mustI(t[7])), u32hex(t[6]), uint32(mustI(t[8])), uint32(mustI(t[9])))
		if err != nil {
			return "err"
		}
		return fmt.Sprintf("%x", bits)
	case "work":
		return blockchain.CalcWork(u32hex(t[1])).String()
	}
	panic("harness: unknown op " + t[0])
}

func mustI(s string) int64 {
	v, err := strconv.ParseInt(s, 10, 64)
	if err != nil {
		panic("harness: bad int " + s)
	}
	return v
}

// structured uint32 compact values: every exponent region × boundary mantissas × random
func genCompact(r *hx.Rand) uint32 {
	var e uint32
	switch r.Intn(6) {
	case 0:
		e = uint32(r.Intn(5)) // 0..4: the right-shift regime and its boundary
	case 1:
		e = uint32(28 + r.Intn(8)) // around 2^256
	case 2:
		e = uint32(250 + r.Intn(6))
	default:
		e = uint32(r.Intn(256))
	}
	var m uint32
	switch r.Intn(8) {
	case 0:
		m = 0
	case 1:
		m = 0x7fffff
	case 2:
		m = 0x008000 - uint32(r.Intn(2))
	case 3:
		m = 0x010000 - uint32(r.Intn(2))
	case 4:
		m = uint32(r.Intn(256)) << (8 * uint(r.Intn(3)))
	default:
		m = uint32(r.U64()) & 0x7fffff
	}
	c := e<<24 | m
	if r.Chance(15) {
		c |= 0x00800000
	}
	return c
}

func genBig(r *hx.Rand) *big.Int {
	nbytes := 1 + r.Intn(40)
	if r.Chance(30) {
		nbytes = 1 + r.Intn(5)
	}
	b := r.Bytes(nbytes)
	switch r.Intn(7) {
	case 6: // exactly 80 00 00 …: the mantissa equals the sign bit and nothing else
		for i := range b {
			b[i] = 0
		}
		b[0] = 0x80
		if len(b) > 3 && r.Chance(50) {
			b[len(b)-1] = byte(r.Intn(2)) // … possibly with a low byte that is shifted out
		}
	case 0: // power of 256 boundary
		for i := range b {
			b[i] = 0
		}
		b[0] = 1
	case 1: // all ff
		for i := range b {
			b[i] = 0xff
		}
	case 2: // sign-bit mantissa
		b[0] = 0x80 | b[0]
	case 3:
		b[0] = 0x7f
		if len(b) > 2 {
			b[1], b[2] = 0xff, 0xff
		}
	}
	n := new(big.Int).SetBytes(b)
	if r.Chance(12) {
		n.Neg(n)
	}
	return n
}

func gen(g *hx.Gen) {
	r := g.R
	n := g.N(40000, 1000000)
	// every exponent with the boundary mantissas, both sign bits
	for e := uint32(0); e < 256; e++ {
		for _, m := range []uint32{0, 1, 0xff, 0x100, 0x7fff, 0x8000, 0x8001, 0xffff, 0x10000, 0x120000, 0x7fffff} {
			g.Emit("rt %x", e<<24|m)
			if m == 0x8000 || m == 0x7fffff {
				g.Emit("rt %x", e<<24|m|0x00800000)
			}
		}
	}
	for i := 0; i < n; i++ {
		g.Emit("c2b %x", genCompact(r))
	}
	for i := 0; i < n; i++ {
		g.Emit("b2c %s", genBig(r).String())
	}
	// round trip chains: compact -> big -> compact, big -> compact -> big
	for i := 0; i < n/4; i++ {
		c := genCompact(r)
		g.Emit("b2c %s", blockchain.CompactToBig(c).String())
		g.Emit("work %x", c)
		if r.Chance(10) {
			g.Emit("work %x", uint32(0x1e+r.Intn(4))<<24|uint32(r.U64())&0x7fffff) // around the 32-byte edge, incl. 0x207fffff style limits
		}
		g.Emit("rt %x", c)
		// a canonical neighbour: what the encoder itself makes of a random target, perturbed
		cc := blockchain.BigToCompact(new(big.Int).Abs(genBig(r)))
		switch r.Intn(4) {
		case 0:
			cc ^= 1 << uint(r.Intn(24))
		case 1:
			cc = cc&0xff000000 | (0x8000 - uint32(r.Intn(2)))
		}
		g.Emit("rt %x", cc)
	}
	mainLimit := new(big.Int).Sub(new(big.Int).Lsh(big.NewInt(1), 255), big.NewInt(1))
	limits := []*big.Int{config.DefaultParams.PowConfiguration.PowLimit, mainLimit, big.NewInt(0xffff), new(big.Int).Lsh(big.NewInt(1), 240)}
	for i := 0; i < n/8; i++ {
		raw := r.Bytes(80)
		hn := hashNumOf(raw)
		lim := limits[r.Intn(len(limits))]
		var bits uint32
		switch r.Intn(5) {
		case 0:
			bits = genCompact(r)
		case 1:
			bits = 0x207fffff
		case 2: // target just around the hash
			bits = blockchain.BigToCompact(hn)
		case 3:
			bits = blockchain.BigToCompact(new(big.Int).Add(hn, new(big.Int).Lsh(big.NewInt(1), uint(r.Intn(250)))))
		default:
			bits = blockchain.BigToCompact(lim) + uint32(r.Intn(3)) - 1
		}
		g.Emit("pow %x %s %s %s", bits, lim.String(), hn.String(), hx.Hex(raw))
	}
	for i := 0; i < n/8; i++ {
		adj := int64(1 + r.Intn(8))
		per := int64(1 + r.Intn(300))
		blocks := int64(2 + r.Intn(40)) // >= 2: with 1 the first node IS the previous node
		ts := per * blocks
		if per > 1 && r.Chance(30) {
			ts += 1 + int64(r.Intn(int(per-1))) // TargetTimespan not a whole multiple of TargetTimePerBlock
		}
		if r.Chance(30) {
			adj, per, ts = 4, 120, 86400
			blocks = 720
		}
		if ts/adj == 0 {
			continue
		}
		lim := limits[r.Intn(len(limits))]
		limBits := uint32(0x1f0008ff)
		if r.Chance(5) {
			limBits = 0x207fffff
		}
		var bits uint32
		switch r.Intn(4) {
		case 0:
			bits = blockchain.BigToCompact(lim)
		case 1:
			bits = genCompact(r) &^ 0x00800000
		default:
			bits = blockchain.BigToCompact(new(big.Int).Rsh(lim, uint(r.Intn(64))))
		}
		var actual int64
		switch r.Intn(5) {
		case 0:
			actual = ts/adj - int64(r.Intn(3)) + 1
		case 1:
			actual = ts*adj - int64(r.Intn(3)) + 1
		case 2:
			actual = int64(r.Intn(int(ts*adj*2 + 1)))
		case 3:
			actual = -int64(r.Intn(1000)) // timestamps going backwards: uint32 wrap
		default:
			actual = ts + int64(r.Intn(21)) - 10
		}
		firstTs := uint32(1500000000 + r.Intn(1000000))
		prevTs := uint32(int64(firstTs) + actual)
		k := uint32(1 + r.Intn(3))
		prevHeight := k*uint32(blocks) - 1
		switch r.Intn(12) {
		case 0:
			prevHeight = 0
		case 1:
			prevHeight += uint32(1 + r.Intn(5)) // off the retarget boundary
		}
		g.Emit("retarget %d %d %d %s %x %x %d %d %d", adj, ts, per, lim.String(), limBits, bits, prevHeight, firstTs, prevTs)
	}
	genChains(g, limits)
}

func fmtNodes(ts, bits []uint32) string {
	p := make([]string, len(ts))
	for i := range ts {
		p[i] = fmt.Sprintf("%d:%x", ts[i], bits[i])
	}
	return strings.Join(p, ",")
}

// real node chains: the retarget walk with individually chosen timestamps, the hash-rate window,
// the difficulty ratio, and whole chains validated by a node.
func genChains(g *hx.Gen, limits []*big.Int) {
	r := g.R
	cnt := g.N(1000, 12000)
	for i := 0; i < cnt; i++ {
		adj := int64(1 + r.Intn(8))
		per := int64(1 + r.Intn(60))
		blocks := int64(2 + r.Intn(30))
		ts := per * blocks
		if per > 1 && r.Chance(30) {
			ts += 1 + int64(r.Intn(int(per-1)))
		}
		if ts/adj == 0 {
			continue
		}
		lim := limits[r.Intn(len(limits))]
		k := uint32(1 + r.Intn(3))
		tipHeight := k*uint32(blocks) - 1
		if r.Chance(10) {
			tipHeight += uint32(1 + r.Intn(3))
		}
		L := int(blocks) + r.Intn(int(blocks)+3) // at least the retarget window, often more
		if L > int(tipHeight)+1 {
			L = int(tipHeight) + 1
		}
		if L < int(blocks) {
			continue
		}
		tss := make([]uint32, L)
		bs := make([]uint32, L)
		t0 := uint32(1500000000 + r.Intn(1000000))
		bits := blockchain.BigToCompact(new(big.Int).Rsh(lim, uint(r.Intn(64))))
		for j := range tss {
			// mostly increasing, sometimes jumping back (timestamps only have to beat the median)
			t0 += uint32(r.Intn(int(2*per) + 1))
			if r.Chance(8) {
				t0 -= uint32(r.Intn(int(3*per) + 1))
			}
			tss[j] = t0
			bs[j] = bits
			if r.Chance(5) {
				bs[j] = genCompact(r) &^ 0x00800000
			}
		}
		g.Emit("walk %d %d %d %s %x %d %s", adj, ts, per, lim.String(), 0x1f0008ff, tipHeight, fmtNodes(tss, bs))
	}
	for i := 0; i < cnt; i++ {
		L := 1 + r.Intn(140)
		if r.Chance(30) {
			L = 118 + r.Intn(6)
		}
		tipHeight := uint32(L - 1 + r.Intn(3)*r.Intn(200))
		if r.Chance(20) {
			tipHeight = uint32(L - 1)
		}
		tss := make([]uint32, L)
		bs := make([]uint32, L)
		t0 := uint32(1500000000)
		for j := range tss {
			switch r.Intn(6) {
			case 0:
			case 1:
				t0 -= uint32(r.Intn(50))
			default:
				t0 += uint32(r.Intn(240))
			}
			tss[j] = t0
			bs[j] = []uint32{0x1f0008ff, 0x1d00ffff, 0x207fffff, 0x1b0404cb}[r.Intn(4)]
			if r.Chance(5) {
				bs[j] = genCompact(r)
			}
		}
		if r.Chance(5) {
			for j := range tss {
				tss[j] = 1500000000
			}
		}
		g.Emit("hashps %d %s", tipHeight, fmtNodes(tss, bs))
	}
	for i := 0; i < cnt; i++ {
		lb := []uint32{0x1f0008ff, 0x207fffff, 0x2000ffff}[r.Intn(3)]
		g.Emit("curdiff %x %x", lb, genCompact(r))
	}
	// whole chains on a real node (retarget every 10 blocks)
	gb := core.GenesisBlock(common.Uint168{})
	for i := 0; i < g.N(6, 150); i++ {
		L := 11 + r.Intn(25)
		var steps []string
		style := r.Intn(4)
		for j := 0; j < L; j++ {
			var d int
			switch style {
			case 0:
				d = 1
			case 1:
				d = 1 + r.Intn(2)
			case 2: // slow blocks: the target rises (and is capped)
				d = 1 + r.Intn(12)
			default:
				d = 1 + r.Intn(4)
			}
			tamper := 0
			if r.Chance(8) {
				tamper = []int{1, -1, 256, -65536}[r.Intn(4)]
			}
			steps = append(steps, fmt.Sprintf("%d/%d", d, tamper))
		}
		g.Emit("node %d:%x %s", gb.Timestamp, gb.Bits, strings.Join(steps, " "))
	}
}

// Property oracle, judged directly on the implementation's answers.
func oracle(t []string, out string) *hx.Violation {
	switch t[0] {
	case "node":
		// the node must take exactly the blocks whose bits are the retarget result (tamper 0)
		if out == "panic" {
			return nil
		}
		f := strings.Fields(out)
		for i, x := range t[2:] {
			tamper := strings.Split(x, "/")[1]
			if i < len(f) && strings.HasSuffix(f[i], ":1") && tamper != "0" {
				return &hx.Violation{Kind: "node-accepted-wrong-bits", Detail: fmt.Sprintf("block %d carries bits %s (retarget result %s) and was connected", i, strings.Split(f[i], ":")[0], tamper)}
			}
		}
	case "walk":
		// same bounds as for `retarget`, with the window start read off the chain: index len-blocks
		if out == "err" || out == "panic" {
			return nil
		}
		adj, tsp, per := mustI(t[1]), mustI(t[2]), mustI(t[3])
		blocks := tsp / per
		h := mustI(t[6])
		tss, bs := parseNodes(t[7])
		if h == 0 || (h+1)%blocks != 0 || int64(len(tss)) < blocks {
			return nil
		}
		old := blockchain.CompactToBig(bs[len(bs)-1])
		lim := bigOf(t[4])
		if old.Sign() <= 0 || lim.BitLen() > 8*254 {
			return nil
		}
		span := int64(tss[len(tss)-1] - tss[int64(len(tss))-blocks]) // uint32 subtraction, as the node does
		if span < tsp/adj {
			span = tsp / adj
		} else if span > tsp*adj {
			span = tsp * adj
		}
		want := new(big.Int).Mul(old, big.NewInt(span))
		want.Div(want, big.NewInt(tsp))
		if want.Cmp(lim) > 0 {
			want.Set(lim)
		}
		nb := blockchain.CompactToBig(u32hex(out))
		if nb.Cmp(want) > 0 || new(big.Int).Add(nb, new(big.Int).Rsh(nb, 15)).Cmp(want) < 0 {
			return &hx.Violation{Kind: "retarget-window", Detail: fmt.Sprintf("new target %x is not old*clamp(span of the last %d blocks = %d s)/%d up to compaction", nb, blocks, span, tsp)}
		}
	case "work":
		// chain work is 2^256/(target+1) of the very target the PoW check uses, 0 for non-positive targets
		if out == "panic" {
			return nil
		}
		tgt := blockchain.CompactToBig(u32hex(t[1]))
		want := big.NewInt(0)
		if tgt.Sign() > 0 {
			want = new(big.Int).Div(new(big.Int).Lsh(big.NewInt(1), 256), new(big.Int).Add(tgt, big.NewInt(1)))
		}
		if want.String() != out {
			return &hx.Violation{Kind: "work-not-from-target", Detail: fmt.Sprintf("CalcWork(%s) = %s, but 2^256/(CompactToBig+1) = %s", t[1], out, want.String())}
		}
	case "rt":
		// decoding a canonical value and re-encoding it is the identity
		c := u32hex(t[1])
		if isCanonical(c) {
			if out == "panic" || strings.Fields(out)[0] != strconv.FormatUint(uint64(c), 16) {
				return &hx.Violation{Kind: "roundtrip-changed", Detail: "BigToCompact(CompactToBig(c)) != c for canonical c"}
			}
		}
	case "b2c":
		// encoding never yields a larger target (positive n)
		n := bigOf(t[1])
		if n.Sign() > 0 && out != "panic" {
			c := u32hex(out)
			back := blockchain.CompactToBig(c)
			if back.Cmp(n) > 0 {
				return &hx.Violation{Kind: "encode-larger", Detail: "CompactToBig(BigToCompact(n)) > n"}
			}
			if n.BitLen() <= 8*254 {
				// the encoder only emits canonical values and keeps 15 significant bits
				if !isCanonical(c) {
					return &hx.Violation{Kind: "encode-noncanonical", Detail: "BigToCompact(n) is not a canonical compact value"}
				}
				slack := new(big.Int).Rsh(back, 15)
				if new(big.Int).Add(back, slack).Cmp(n) < 0 {
					return &hx.Violation{Kind: "encode-imprecise", Detail: "CompactToBig(BigToCompact(n)) < n - n/2^15"}
				}
			}
		}
	case "pow":
		if out == "ok" {
			tgt := blockchain.CompactToBig(u32hex(t[1]))
			if tgt.Sign() <= 0 || tgt.Cmp(bigOf(t[2])) > 0 || bigOf(t[3]).Cmp(tgt) > 0 {
				return &hx.Violation{Kind: "pow-accept", Detail: "accepted although hash>target or target out of (0,limit]"}
			}
		}
	case "retarget":
		if out != "err" && out != "panic" {
			nb := blockchain.CompactToBig(u32hex(out))
			lim := bigOf(t[4])
			retargeted := mustI(t[7]) != 0 && u32hex(t[5]) != 0x207fffff && (mustI(t[7])+1)%(mustI(t[2])/mustI(t[3])) == 0
			if !retargeted {
				return nil
			}
			if nb.Cmp(lim) > 0 {
				return &hx.Violation{Kind: "retarget-above-limit", Detail: "new target above pow limit"}
			}
			old := blockchain.CompactToBig(u32hex(t[6]))
			if old.Sign() > 0 {
				// moves by at most the adjustment factor (upper side; encoding only rounds down)
				hi := new(big.Int).Mul(old, big.NewInt(mustI(t[1])))
				if nb.Cmp(hi) > 0 {
					return &hx.Violation{Kind: "retarget-factor", Detail: "new target above old*adjustmentFactor"}
				}
				// lower side: min(old*minSpan/targetSpan, limit) minus the compaction error
				ts, adj := mustI(t[2]), mustI(t[1])
				lo := new(big.Int).Mul(old, big.NewInt(ts/adj))
				lo.Div(lo, big.NewInt(ts))
				if lo.Cmp(lim) > 0 {
					lo.Set(lim)
				}
				if lim.Sign() >= 0 && lim.BitLen() <= 8*254 {
					// the exact rule: old * clamp(actual) / TargetTimespan, capped, up to compaction
					span := int64(uint32(mustI(t[9])) - uint32(mustI(t[8])))
					if span < ts/adj {
						span = ts / adj
					} else if span > ts*adj {
						span = ts * adj
					}
					want := new(big.Int).Mul(old, big.NewInt(span))
					want.Div(want, big.NewInt(ts))
					if want.Cmp(lim) > 0 {
						want.Set(lim)
					}
					if nb.Cmp(want) > 0 || new(big.Int).Add(nb, new(big.Int).Rsh(nb, 15)).Cmp(want) < 0 {
						return &hx.Violation{Kind: "retarget-value", Detail: fmt.Sprintf("new target %x is not old*clamp(%d s)/%d s (TargetTimespan) up to compaction", nb, span, ts)}
					}
					if new(big.Int).Add(nb, new(big.Int).Rsh(nb, 15)).Cmp(lo) < 0 {
						return &hx.Violation{Kind: "retarget-factor-low", Detail: "new target below min(old/adjustmentFactor, limit) by more than the compaction error"}
					}
					if !isCanonical(u32hex(out)) {
						return &hx.Violation{Kind: "retarget-noncanonical", Detail: "retargeted bits are not canonical"}
					}
				}
			}
		}
	}
	return nil
}

func nontrivial(t []string, out string) bool {
	switch t[0] {
	case "c2b":
		return out != "0"
	case "b2c":
		return out != "0"
	case "rt":
		return !strings.HasPrefix(out, "0 ")
	}
	return true
}

func main() {
	hx.Main(&hx.Prop{Name: "C09", Gen: gen, Exec: exec, Oracle: oracle, Nontrivial: nontrivial})
}
